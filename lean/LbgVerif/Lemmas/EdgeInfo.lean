/-
  Lemmas.EdgeInfo — the loop invariant of the literal edge-incidence model
  (`Model/EdgeInfo.lean`) against the specification `Spec/EdgeCount.lean`.

  Invariant after the sides `ds` have been processed (state `s`):
    (a) `edge_t = edge_i.map (fun e => #uses(e) - 1)`,
    (b) every stored side is a proper side (`a ≠ b`) that has been seen,
    (c) the stored sides are pairwise distinct as undirected edges,
    (d) every proper side seen so far is stored (in one of its two orientations).
-/
import LbgVerif.Model.EdgeInfo
import LbgVerif.Spec.EdgeCount
import Mathlib.Data.List.Nodup
import Mathlib.Data.List.Count
import Mathlib.Data.List.Perm.Basic
import Mathlib.Tactic.Ring
import LbgVerif.Lemmas.CyclicCount

namespace Lbg.Lemmas.EdgeInfo
open Lbg Lbg.Model.EdgeInfo Lbg.Spec.EdgeCount

/-- Undirected version of a directed side. -/
def normP (p : DEdge) : Edge := norm p.1 p.2

/-- All directed sides `(fi[i-1], fi[i])` in the order the code visits them. -/
def sidesOf (fs : List (List (List Nat))) : List DEdge :=
  fs.flatMap (fun f => f.flatMap cyclicPairs)

/-- Proper sides of a list of directed sides, as undirected edges. -/
def und (ds : List DEdge) : List Edge := (ds.filter (fun p => p.1 != p.2)).map normP

theorem und_nil : und [] = [] := rfl

theorem und_append (a b : List DEdge) : und (a ++ b) = und a ++ und b := by
  simp [und]

theorem und_single (d : DEdge) : und [d] = if d.1 ≠ d.2 then [normP d] else [] := by
  by_cases h : d.1 = d.2 <;> simp [und, h]

theorem loopEdges_eq (l : List Nat) : loopEdges l = und (cyclicPairs l) := rfl

theorem und_flatMap {β : Type} (g : β → List DEdge) (l : List β) :
    und (l.flatMap g) = l.flatMap (fun x => und (g x)) := by
  induction l with
  | nil => rfl
  | cons a t ih => simp only [List.flatMap_cons, und_append, ih]

/-- The specification's multiset of sides is the undirected image of the sides the code
visits. -/
theorem allEdges_eq (fs : List (List (List Nat))) : allEdges fs = und (sidesOf fs) := by
  unfold allEdges sidesOf faceEdges
  rw [und_flatMap]
  congr 1
  funext f
  rw [und_flatMap]
  rfl

theorem normP_swap (a b : Nat) : normP (b, a) = normP (a, b) := norm_comm b a

/-- Two directed sides with the same undirected edge are equal or mutually reversed. -/
theorem normP_eq_iff (e : DEdge) (a b : Nat) :
    normP e = normP (a, b) ↔ e = (a, b) ∨ e = (b, a) := by
  obtain ⟨c, d⟩ := e
  unfold normP norm
  simp only
  constructor
  · intro h
    split_ifs at h with h1 h2 h2 <;> simp only [Prod.mk.injEq] at h ⊢ <;> omega
  · rintro (h | h) <;> simp only [Prod.mk.injEq] at h <;> obtain ⟨rfl, rfl⟩ := h
    · rfl
    · split_ifs with h1 h2 h2 <;> simp only [Prod.mk.injEq] <;> omega

/-! ### `list.index` and `+= 1` -/

theorem pyIndex_some {l : List DEdge} {x : DEdge} {i : Nat} (h : pyIndex l x = some i) :
    l[i]? = some x := by
  induction l generalizing i with
  | nil => simp [pyIndex] at h
  | cons y t ih =>
    unfold pyIndex at h
    split_ifs at h with hy
    · simp only [Option.some.injEq] at h
      subst h; subst hy; rfl
    · cases hp : pyIndex t x with
      | none => rw [hp] at h; simp at h
      | some j =>
        rw [hp] at h
        simp only [Option.map_some, Option.some.injEq] at h
        subst h
        simpa using ih hp

theorem pyIndex_none {l : List DEdge} {x : DEdge} (h : pyIndex l x = none) : x ∉ l := by
  induction l with
  | nil => simp
  | cons y t ih =>
    unfold pyIndex at h
    split_ifs at h with hy
    cases hp : pyIndex t x with
    | none =>
      intro hm
      rcases List.mem_cons.mp hm with rfl | hm
      · exact hy rfl
      · exact ih hp hm
    | some j => rw [hp] at h; simp at h

/-- `list.index` returns the FIRST position. -/
theorem pyIndex_first {l : List DEdge} {x : DEdge} {i : Nat} (h : pyIndex l x = some i) :
    ∀ j, j < i → l[j]? ≠ some x := by
  induction l generalizing i with
  | nil => simp [pyIndex] at h
  | cons y t ih =>
    unfold pyIndex at h
    split_ifs at h with hy
    · simp only [Option.some.injEq] at h
      subst h; intro j hj; omega
    · cases hp : pyIndex t x with
      | none => rw [hp] at h; simp at h
      | some k =>
        rw [hp] at h
        simp only [Option.map_some, Option.some.injEq] at h
        subst h
        intro j hj
        cases j with
        | zero => simpa using hy
        | succ j => simpa using ih hp j (by omega)

theorem mem_of_getElem? {β : Type} {l : List β} {i : Nat} {x : β} (h : l[i]? = some x) :
    x ∈ l := List.mem_of_getElem? h

theorem bump_length (t : List Nat) (i : Nat) : (bump t i).length = t.length := by
  induction t generalizing i with
  | nil => rfl
  | cons c t ih => cases i <;> simp [bump, ih]

/-- Incrementing position `i` of a table `L.map g` over a duplicate-free key list `L`
gives the table of any `g'` that is `g + 1` at the key `L[i]` and `g` elsewhere. -/
theorem bump_map {L : List Edge} (hn : L.Nodup) {i : Nat} {e : Edge} (h : L[i]? = some e)
    (g g' : Edge → Nat) (hg : g' e = g e + 1) (hg' : ∀ e', e' ≠ e → g' e' = g e') :
    bump (L.map g) i = L.map g' := by
  induction L generalizing i with
  | nil => simp at h
  | cons y t ih =>
    rw [List.nodup_cons] at hn
    cases i with
    | zero =>
      simp only [List.getElem?_cons_zero, Option.some.injEq] at h
      subst h
      simp only [List.map_cons, bump, hg, List.cons.injEq, true_and]
      apply List.map_congr_left
      intro e' he'
      rw [hg']
      rintro rfl
      exact hn.1 he'
    | succ j =>
      simp only [List.getElem?_cons_succ] at h
      have hy : y ≠ e := by
        rintro rfl
        exact hn.1 (mem_of_getElem? h)
      simp only [List.map_cons, bump, ih hn.2 h, hg' y hy]

/-! ### The invariant -/

/-- Loop invariant: state `s` after the sides `ds` have been processed. -/
structure Inv (s : St) (ds : List DEdge) : Prop where
  types : s.edge_t = s.edge_i.map (fun e => (und ds).count (normP e) - 1)
  proper : ∀ e ∈ s.edge_i, e.1 ≠ e.2 ∧ normP e ∈ und ds
  nodup : (s.edge_i.map normP).Nodup
  stored : ∀ e ∈ und ds, e ∈ s.edge_i.map normP

theorem inv_init : Inv ⟨[], []⟩ [] :=
  ⟨rfl, by simp, by simp, by simp [und]⟩

/-- A hit in `edge_i` (either orientation): the counter of that entry is incremented. -/
theorem inv_hit {s : St} {ds : List DEdge} (hI : Inv s ds) (a b : Nat) (x : DEdge) (ind : Nat)
    (hx : normP x = normP (a, b)) (hind : s.edge_i[ind]? = some x) :
    Inv ⟨s.edge_i, bump s.edge_t ind⟩ (ds ++ [(a, b)]) := by
  have hxm : x ∈ s.edge_i := mem_of_getElem? hind
  obtain ⟨hx12, hxu⟩ := hI.proper x hxm
  have hab : a ≠ b := by
    rcases (normP_eq_iff x a b).mp hx with rfl | rfl
    · exact hx12
    · exact fun h => hx12 h.symm
  have hu : und (ds ++ [(a, b)]) = und ds ++ [normP (a, b)] := by
    rw [und_append, und_single]; simp [hab]
  refine ⟨?_, ?_, hI.nodup, ?_⟩
  · show bump s.edge_t ind = _
    rw [hI.types, hu]
    have e1 : s.edge_i.map (fun e => (und ds).count (normP e) - 1) =
        (s.edge_i.map normP).map (fun e => (und ds).count e - 1) := by
      rw [List.map_map]; rfl
    have e2 : s.edge_i.map (fun e => (und ds ++ [normP (a, b)]).count (normP e) - 1) =
        (s.edge_i.map normP).map (fun e => (und ds ++ [normP (a, b)]).count e - 1) := by
      rw [List.map_map]; rfl
    rw [e1, e2]
    apply bump_map hI.nodup (e := normP (a, b))
    · rw [List.getElem?_map, hind]; simp [hx]
    · have : 1 ≤ (und ds).count (normP (a, b)) := by
        rw [← hx]; exact List.count_pos_iff.mpr hxu
      simp only [List.count_append, List.count_singleton_self]
      omega
    · intro e' he'
      simp only [List.count_append]
      rw [List.count_singleton]
      simp [Ne.symm he']
  · intro e he
    obtain ⟨h1, h2⟩ := hI.proper e he
    exact ⟨h1, by rw [hu]; exact List.mem_append_left _ h2⟩
  · intro e he
    rw [hu] at he
    rcases List.mem_append.mp he with he | he
    · exact hI.stored e he
    · simp only [List.mem_singleton] at he
      subst he
      rw [← hx]
      exact List.mem_map_of_mem hxm

/-- One step of the loop preserves the invariant. -/
theorem inv_step {s : St} {ds : List DEdge} (hI : Inv s ds) (d : DEdge) :
    Inv (step s d) (ds ++ [d]) := by
  obtain ⟨a, b⟩ := d
  unfold step
  simp only
  cases h1 : pyIndex s.edge_i (b, a) with
  | some ind =>
    exact inv_hit hI a b (b, a) ind (normP_swap a b) (pyIndex_some h1)
  | none =>
    cases h2 : pyIndex s.edge_i (a, b) with
    | some ind =>
      exact inv_hit hI a b (a, b) ind rfl (pyIndex_some h2)
    | none =>
      have n1 := pyIndex_none h1
      have n2 := pyIndex_none h2
      have hnot : normP (a, b) ∉ s.edge_i.map normP := by
        intro hm
        obtain ⟨e, he, hee⟩ := List.mem_map.mp hm
        rcases (normP_eq_iff e a b).mp hee with rfl | rfl
        · exact n2 he
        · exact n1 he
      have hnu : normP (a, b) ∉ und ds := fun h => hnot (hI.stored _ h)
      by_cases hab : a = b
      · subst hab
        simp only [ne_eq, not_true_eq_false, if_false]
        have hu : und (ds ++ [(a, a)]) = und ds := by
          rw [und_append, und_single]; simp
        exact ⟨by rw [hu]; exact hI.types, by rw [hu]; exact hI.proper, hI.nodup,
          by rw [hu]; exact hI.stored⟩
      · simp only [ne_eq, hab, not_false_eq_true, if_true]
        have hu : und (ds ++ [(a, b)]) = und ds ++ [normP (a, b)] := by
          rw [und_append, und_single]; simp [hab]
        refine ⟨?_, ?_, ?_, ?_⟩
        · show s.edge_t ++ [0] = _
          rw [hI.types, hu, List.map_append]
          congr 1
          · apply List.map_congr_left
            intro e he
            have : normP e ≠ normP (a, b) := by
              intro h
              exact hnot (h ▸ List.mem_map_of_mem he)
            simp only [List.count_append]
            rw [List.count_singleton]
            simp [Ne.symm this]
          · simp only [List.map_cons, List.map_nil, List.count_append,
              List.count_singleton_self, List.count_eq_zero_of_not_mem hnu]
        · intro e he
          rw [hu]
          rcases List.mem_append.mp he with he | he
          · obtain ⟨p1, p2⟩ := hI.proper e he
            exact ⟨p1, List.mem_append_left _ p2⟩
          · simp only [List.mem_singleton] at he
            subst he
            exact ⟨hab, by simp⟩
        · show ((s.edge_i ++ [(a, b)]).map normP).Nodup
          rw [List.map_append, List.nodup_append]
          refine ⟨hI.nodup, by simp, ?_⟩
          intro x hx y hy
          simp only [List.map_cons, List.map_nil, List.mem_singleton] at hy
          subst hy
          rintro rfl
          exact hnot hx
        · intro e he
          rw [hu] at he
          show e ∈ (s.edge_i ++ [(a, b)]).map normP
          rw [List.map_append]
          rcases List.mem_append.mp he with he | he
          · exact List.mem_append_left _ (hI.stored e he)
          · exact List.mem_append_right _ (by simpa using he)

/-- The invariant holds after any list of sides, from any state satisfying it. -/
theorem inv_foldl {s : St} {ds : List DEdge} (hI : Inv s ds) (es : List DEdge) :
    Inv (es.foldl step s) (ds ++ es) := by
  induction es generalizing s ds with
  | nil => simpa using hI
  | cons d t ih =>
    have := ih (inv_step hI d)
    simpa using this

/-- The three nested loops are one fold over the sides in visiting order. -/
theorem edgeInfo_eq (fs : List (List (List Nat))) :
    edgeInfo fs = (sidesOf fs).foldl step ⟨[], []⟩ := by
  unfold edgeInfo sidesOf faceStep loopStep
  rw [List.foldl_flatMap]
  congr 1
  funext s f
  rw [List.foldl_flatMap]

/-- A mesh is a polyface whose faces have a single loop. -/
theorem meshEdgeInfo_eq (fs : List (List Nat)) :
    meshEdgeInfo fs = edgeInfo (fs.map (fun f => [f])) := by
  unfold meshEdgeInfo edgeInfo faceStep
  rw [List.foldl_map]
  rfl

/-- The invariant for the complete run. -/
theorem inv_edgeInfo (fs : List (List (List Nat))) : Inv (edgeInfo fs) (sidesOf fs) := by
  rw [edgeInfo_eq]
  simpa using inv_foldl inv_init (sidesOf fs)

/-! ### Keys of the specification -/

theorem nodup_eraseDups (l : List Edge) : l.eraseDups.Nodup := by
  induction h : l.length using Nat.strong_induction_on generalizing l with
  | _ n ih =>
    cases l with
    | nil => simp
    | cons a t =>
      rw [List.eraseDups_cons, List.nodup_cons]
      constructor
      · rw [List.mem_eraseDups]; simp
      · apply ih _ _ _ rfl
        subst h
        exact Nat.lt_succ_of_le (List.length_filter_le _ _)

theorem mem_keysOf (es : List Edge) (e : Edge) : e ∈ keysOf es ↔ e ∈ es := by
  unfold keysOf
  rw [List.mem_eraseDups, List.mem_mergeSort]

theorem nodup_keysOf (es : List Edge) : (keysOf es).Nodup := nodup_eraseDups _

/-- Membership in a class list of the specification. -/
theorem mem_classOf (es : List Edge) (p : Nat → Bool) (e : Edge) :
    e ∈ ((countsOf es).filter (fun c => p c.2)).map Prod.fst ↔ e ∈ es ∧ p (es.count e) = true := by
  constructor
  · intro h
    obtain ⟨c, hc, rfl⟩ := List.mem_map.mp h
    obtain ⟨hc1, hc2⟩ := List.mem_filter.mp hc
    unfold countsOf at hc1
    obtain ⟨e', he', rfl⟩ := List.mem_map.mp hc1
    exact ⟨(mem_keysOf _ _).mp he', hc2⟩
  · rintro ⟨he, hp⟩
    exact List.mem_map.mpr ⟨(e, es.count e), List.mem_filter.mpr
      ⟨List.mem_map.mpr ⟨e, (mem_keysOf _ _).mpr he, rfl⟩, hp⟩, rfl⟩

theorem mem_naked (fs : List (List (List Nat))) (e : Edge) : e ∈ naked fs ↔ uses fs e = 1 := by
  unfold naked nakedOf edgeCounts
  rw [mem_classOf (allEdges fs) (fun n => n == 1)]
  unfold uses
  constructor
  · rintro ⟨_, h⟩; simpa using h
  · intro h
    exact ⟨List.count_pos_iff.mp (by omega), by simpa using h⟩

theorem mem_internal (fs : List (List (List Nat))) (e : Edge) :
    e ∈ internal fs ↔ uses fs e = 2 := by
  unfold internal internalOf edgeCounts
  rw [mem_classOf (allEdges fs) (fun n => n == 2)]
  unfold uses
  constructor
  · rintro ⟨_, h⟩; simpa using h
  · intro h
    exact ⟨List.count_pos_iff.mp (by omega), by simpa using h⟩

theorem mem_nonManifold (fs : List (List (List Nat))) (e : Edge) :
    e ∈ nonManifold fs ↔ 3 ≤ uses fs e := by
  unfold nonManifold nonManifoldOf edgeCounts
  rw [mem_classOf (allEdges fs) (fun n => decide (3 ≤ n))]
  unfold uses
  constructor
  · rintro ⟨_, h⟩; simpa using h
  · intro h
    exact ⟨List.count_pos_iff.mp (by omega), by simpa using h⟩

/-! ### Presentation independence of the multiset of sides -/

theorem und_perm {a b : List DEdge} (h : a.Perm b) : (und a).Perm (und b) :=
  (h.filter _).map _

theorem und_map_swap (a : List DEdge) : und (a.map Prod.swap) = und a := by
  induction a with
  | nil => rfl
  | cons d t ih =>
    obtain ⟨x, y⟩ := d
    have e1 : und ((x, y) :: t) = und [(x, y)] ++ und t := und_append [(x, y)] t
    have e2 : und (List.map Prod.swap ((x, y) :: t)) = und [(y, x)] ++ und (t.map Prod.swap) :=
      und_append [(y, x)] (t.map Prod.swap)
    rw [e1, e2, ih, und_single, und_single]
    by_cases h : x = y
    · subst h; rfl
    · have h' : ¬ y = x := fun e => h e.symm
      simp only [ne_eq, h, h', not_false_eq_true, if_true, normP_swap]

/-- The sides of a loop do not depend on its start vertex. -/
theorem loopEdges_rotate_perm (l : List Nat) (n : Nat) :
    (loopEdges (l.rotate n)).Perm (loopEdges l) := by
  rw [loopEdges_eq, loopEdges_eq]
  exact und_perm (Lbg.Lemmas.cyclicPairs_rotate_perm l n)

/-- The sides of a loop do not depend on its orientation. -/
theorem loopEdges_reverse_perm (l : List Nat) : (loopEdges l.reverse).Perm (loopEdges l) := by
  rw [loopEdges_eq, loopEdges_eq, ← und_map_swap (cyclicPairs l)]
  exact und_perm (Lbg.Lemmas.cyclicPairs_reverse_perm l)

/-- Pointwise permutation-equivalent pieces give permutation-equivalent concatenations. -/
theorem flatMap_perm_of_forall₂ {β γ : Type} (g : β → List γ) {l₁ l₂ : List β}
    (h : List.Forall₂ (fun a b => (g a).Perm (g b)) l₁ l₂) :
    (l₁.flatMap g).Perm (l₂.flatMap g) := by
  induction h with
  | nil => exact List.Perm.refl _
  | cons hab _ ih =>
    simp only [List.flatMap_cons]
    exact hab.append ih

end Lbg.Lemmas.EdgeInfo
