/-
  Lemmas/ExtractRect — helper lemmas for `Props/C19c.lean` (`Face3D.extract_rectangle`):
  the generated `closest_point3d_on_line3d` in parametric form, the scalar clamp identities
  behind "the rectangle's sides are perpendicular to its two edges", and the shoelace
  decomposition of a loop along a quadrilateral spanned between two of its sides.
-/
import LbgVerif.Gen.Isect3
import LbgVerif.Model.ExtractRect
import LbgVerif.Lemmas.Shoelace
import Mathlib.Tactic.Ring
import Mathlib.Tactic.Linarith
import Mathlib.Tactic.FieldSimp
import Mathlib.Tactic.LinearCombination

set_option linter.unusedSectionVars false
set_option linter.unusedVariables false
set_option linter.unusedSimpArgs false

namespace Lbg.Lemmas.ExtractRect
open Lbg Lbg.Gen Lbg.Lemmas Lbg.Model.ExtractRect

variable {α : Type} [Field α] [LinearOrder α] [IsStrictOrderedRing α]

/-- The parameter clamp of `closest_point3d_on_line3d` for a segment: `max(min(u, 1), 0)`. -/
def clamp01 (t : α) : α := max (min t 1) 0

theorem clamp01_of_mem {t : α} (h0 : 0 ≤ t) (h1 : t ≤ 1) : clamp01 t = t := by
  unfold clamp01; rw [min_eq_left h1, max_eq_left h0]

theorem clamp01_of_nonpos {t : α} (h : t ≤ 0) : clamp01 t = 0 := by
  unfold clamp01
  rw [min_eq_left (le_trans h zero_le_one), max_eq_right h]

theorem clamp01_of_one_le {t : α} (h : 1 ≤ t) : clamp01 t = 1 := by
  unfold clamp01; rw [min_eq_right h, max_eq_left zero_le_one]

theorem clamp01_nonneg (t : α) : 0 ≤ clamp01 t := le_max_right _ _

theorem clamp01_le_one (t : α) : clamp01 t ≤ 1 := by
  unfold clamp01
  exact max_le (min_le_right _ _) zero_le_one

/-- `closest_point3d_on_line3d(q, segment)` for a segment of non-zero length is
`p + clamp01(((q - p)·v) / (v·v)) v`. -/
theorem closest_eq (q : V3 α) (l : LR3 α) (hD : V3.normSq l.v ≠ 0) :
    closest_point3d_on_line3d_s q l =
      V3.add l.p (V3.smul (clamp01 (V3.dot (V3.sub q l.p) l.v / V3.normSq l.v)) l.v) := by
  have hD' : l.v.x * l.v.x + l.v.y * l.v.y + l.v.z * l.v.z ≠ 0 := hD
  unfold closest_point3d_on_line3d_s
  simp only [if_neg hD']
  have hu : ∀ u : α, (if ¬(¬u < 0 ∧ ¬1 < u) then max (min u 1) 0 else u) = clamp01 u := by
    intro u
    split_ifs with h
    · exact (clamp01_of_mem (not_lt.mp h.1) (not_lt.mp h.2)).symm
    · rfl
  simp only [hu, V3.add, V3.smul, V3.dot, V3.sub, V3.normSq]

/-- First clamp identity (antiparallel edges, `λ > 0`): the foot of `edge_1.p1` on `edge_2` and
the foot of `edge_2.p2` on `edge_1` have the same position along the edges. -/
theorem clamp_side1 {β lam : α} (hl : 0 < lam) (hb : 0 < β) (hbl : β - lam < 1) :
    β - lam * clamp01 (β / lam) = clamp01 (β - lam) := by
  by_cases h : β ≤ lam
  · have h1 : β / lam ≤ 1 := (div_le_one hl).mpr h
    rw [clamp01_of_mem (div_pos hb hl).le h1, clamp01_of_nonpos (by linarith)]
    field_simp
    ring
  · have h' : lam < β := not_le.mp h
    have h1 : 1 ≤ β / lam := (one_le_div hl).mpr h'.le
    rw [clamp01_of_one_le h1, clamp01_of_mem (by linarith) hbl.le]
    ring

/-- Second clamp identity: the same for `edge_1.p2` / `edge_2.p1`. -/
theorem clamp_side2 {β lam : α} (hl : 0 < lam) (hb : 0 < β) (hbl : β - lam < 1) :
    β - lam * clamp01 ((β - 1) / lam) = clamp01 β := by
  by_cases h : β ≤ 1
  · have h1 : (β - 1) / lam ≤ 0 := div_nonpos_of_nonpos_of_nonneg (by linarith) hl.le
    rw [clamp01_of_nonpos h1, clamp01_of_mem hb.le h]
    ring
  · have h' : 1 < β := not_le.mp h
    have h0 : 0 ≤ (β - 1) / lam := div_nonneg (by linarith) hl.le
    have h1 : (β - 1) / lam ≤ 1 := (div_le_one hl).mpr (by linarith)
    rw [clamp01_of_mem h0 h1, clamp01_of_one_le h'.le]
    field_simp
    ring

/-- Positive width: the two feet on `edge_2` are different. -/
theorem clamp_width {β lam : α} (hl : 0 < lam) (hb : 0 < β) (hbl : β - lam < 1) :
    clamp01 ((β - 1) / lam) < clamp01 (β / lam) := by
  have hx : 0 < β / lam := div_pos hb hl
  have hy : (β - 1) / lam < 1 := (div_lt_one hl).mpr (by linarith)
  have hyx : (β - 1) / lam < β / lam := div_lt_div_of_pos_right (by linarith) hl
  have hcx : clamp01 (β / lam) = min (β / lam) 1 := by
    unfold clamp01; exact max_eq_left (le_min hx.le zero_le_one)
  have hcy : clamp01 ((β - 1) / lam) = max ((β - 1) / lam) 0 := by
    unfold clamp01; rw [min_eq_left hy.le]
  rw [hcx, hcy]
  exact max_lt (lt_min hyx hy) (lt_min hx zero_lt_one)

/-! ### Shoelace: a quadrilateral spanned between two sides of a loop -/

section shoelace
variable {β : Type} [Field β]

/-- A point on the carrier line of `a a'`, in parametric form. -/
def lerp (a a' : V2 β) (s : β) : V2 β := ⟨a.x + s * (a'.x - a.x), a.y + s * (a'.y - a.y)⟩

private theorem ear_lerp (a a' : V2 β) (s t : β) :
    V2.det (V2.sub (lerp a a' t) (lerp a a' s)) (V2.sub a' (lerp a a' s)) = 0 := by
  simp only [V2.det, V2.sub, lerp]; ring

private theorem ear_lerp0 (a a' : V2 β) (s : β) :
    V2.det (V2.sub (lerp a a' s) a) (V2.sub a' a) = 0 := by
  simp only [V2.det, V2.sub, lerp]; ring

/-- Inserting two points of the carrier line of a side between its end points does not change
the signed area. -/
theorem shoelace_insert2 (pre post : List (V2 β)) (a a' : V2 β) (s t : β) :
    shoelace (pre ++ [a, lerp a a' s, lerp a a' t, a'] ++ post) =
      shoelace (pre ++ [a, a'] ++ post) := by
  have h1 := shoelace_ear (pre ++ [a]) post (lerp a a' s) (lerp a a' t) a'
  have h2 := shoelace_ear pre post a (lerp a a' s) a'
  simp only [List.append_assoc, List.cons_append, List.nil_append] at h1 h2 ⊢
  rw [h1, ear_lerp, zero_add, h2, ear_lerp0, zero_add]

/-- **Decomposition** — the loop `a, a', C2, b, b', C1` with the points `c2, c4` on the line
`a a'` and `c3, c1` on the line `b b'`: its signed area is the sum of the quadrilateral
`c2 c4 c3 c1` and of the two side loops `c4, a', C2, b, c3` and `c1, b', C1, a, c2`
(all traversed in the direction of the parent loop). -/
theorem shoelace_rect_split (a a' b b' : V2 β) (C1 C2 : List (V2 β)) (s2 s4 s3 s1 : β) :
    shoelace ([a, a'] ++ C2 ++ [b, b'] ++ C1) =
      shoelace [lerp a a' s2, lerp a a' s4, lerp b b' s3, lerp b b' s1] +
      shoelace ([lerp a a' s4, a'] ++ C2 ++ [b, lerp b b' s3]) +
      shoelace ([lerp b b' s1, b'] ++ C1 ++ [a, lerp a a' s2]) := by
  set c2 := lerp a a' s2
  set c4 := lerp a a' s4
  set c3 := lerp b b' s3
  set c1 := lerp b b' s1
  have e1 : shoelace ([a, a'] ++ C2 ++ [b, b'] ++ C1) =
      shoelace ([a, c2, c4, a'] ++ C2 ++ [b, c3, c1, b'] ++ C1) := by
    have h1 := shoelace_insert2 [] (C2 ++ [b, b'] ++ C1) a a' s2 s4
    have h2 := shoelace_insert2 ([a, c2, c4, a'] ++ C2) C1 b b' s3 s1
    simp only [List.append_assoc, List.cons_append, List.nil_append] at h1 h2 ⊢
    rw [h2, h1]
  have e2 := shoelace_split [a, c2] ([a'] ++ C2 ++ [b]) ([c1, b'] ++ C1) c4 c3
  have e3 := shoelace_append_comm [a, c2, c4, c3] ([c1, b'] ++ C1)
  have e4 := shoelace_split [] ([b'] ++ C1 ++ [a]) [c4, c3] c1 c2
  have e5 := shoelace_rotate [c1, c2, c4, c3] 1
  simp only [List.append_assoc, List.cons_append, List.nil_append, List.rotate_cons_succ,
    List.rotate_zero] at e1 e2 e3 e4 e5 ⊢
  rw [e1, e2, e3, e4, ← e5]
  ring

end shoelace


/-! ### The four rectangle points for antiparallel edges -/

section antiparallel

theorem p2_eq (l : LR3 α) : seg3_p2 l = V3.add l.p l.v := rfl

/-- Key computation: with `β = ((B − A)·u)/(u·u)`, the four rectangle points are
`B + clamp01(β/λ) w`, `A + clamp01(β − λ) u`, `B + clamp01((β − 1)/λ) w`, `A + clamp01(β) u`. -/
theorem corners_param (A u B : V3 α) (lam : α) (hl : 0 < lam) (hu : V3.normSq u ≠ 0) :
    let w := V3.smul (-lam) u
    let β := V3.dot (V3.sub B A) u / V3.normSq u
    corners ⟨A, u⟩ ⟨B, w⟩ =
      (V3.add B (V3.smul (clamp01 (β / lam)) w), V3.add A (V3.smul (clamp01 (β - lam)) u),
       V3.add B (V3.smul (clamp01 ((β - 1) / lam)) w), V3.add A (V3.smul (clamp01 β) u)) := by
  intro w β
  have hw : V3.normSq w ≠ 0 := by
    have : V3.normSq w = lam * lam * V3.normSq u := by
      simp only [w, V3.normSq, V3.smul]; ring
    rw [this]
    exact mul_ne_zero (mul_ne_zero hl.ne' hl.ne') hu
  have hwn : V3.normSq w = lam * lam * V3.normSq u := by
    simp only [w, V3.normSq, V3.smul]; ring
  unfold corners
  simp only [p2_eq]
  rw [closest_eq _ ⟨B, w⟩ hw, closest_eq _ ⟨A, u⟩ hu, closest_eq _ ⟨B, w⟩ hw,
    closest_eq _ ⟨A, u⟩ hu]
  have n1 : V3.dot (V3.sub A B) w = lam * V3.dot (V3.sub B A) u := by
    simp only [w, V3.dot, V3.sub, V3.smul]; ring
  have n2 : V3.dot (V3.sub (V3.add B w) A) u = V3.dot (V3.sub B A) u - lam * V3.normSq u := by
    simp only [w, V3.dot, V3.sub, V3.smul, V3.add, V3.normSq]; ring
  have n3 : V3.dot (V3.sub (V3.add A u) B) w =
      lam * (V3.dot (V3.sub B A) u - V3.normSq u) := by
    simp only [w, V3.dot, V3.sub, V3.smul, V3.add, V3.normSq]; ring
  have hl' : lam ≠ 0 := hl.ne'
  have t1 : V3.dot (V3.sub A B) w / V3.normSq w = β / lam := by
    rw [hwn, n1]
    simp only [β]
    generalize V3.dot (V3.sub B A) u = N
    generalize V3.normSq u = d at hu
    field_simp
  have t2 : V3.dot (V3.sub (V3.add B w) A) u / V3.normSq u = β - lam := by
    rw [n2]
    simp only [β]
    generalize V3.dot (V3.sub B A) u = N
    generalize V3.normSq u = d at hu
    field_simp
  have t3 : V3.dot (V3.sub (V3.add A u) B) w / V3.normSq w = (β - 1) / lam := by
    rw [hwn, n3]
    simp only [β]
    generalize V3.dot (V3.sub B A) u = N
    generalize V3.normSq u = d at hu
    field_simp
  have t4 : V3.dot (V3.sub B A) u / V3.normSq u = β := rfl
  simp only [t1, t2, t3, t4]

/-- For antiparallel edges: if `close_pt_1` is not the start of `edge_2` and `close_pt_3` is
not its end (the no-overlap test passes, even with tolerance 0), the start of `edge_2` lies
strictly ahead of the start of `edge_1` (`β > 0`) and its end strictly before the end of
`edge_1` (`β − λ < 1`): the edges overlap in projection. -/
theorem overlap_of_pass (A u B : V3 α) (lam : α) (hl : 0 < lam) (hu : V3.normSq u ≠ 0)
    (h1 : (corners ⟨A, u⟩ ⟨B, V3.smul (-lam) u⟩).1 ≠ B)
    (h3 : (corners ⟨A, u⟩ ⟨B, V3.smul (-lam) u⟩).2.2.1 ≠ V3.add B (V3.smul (-lam) u)) :
    0 < V3.dot (V3.sub B A) u / V3.normSq u ∧ V3.dot (V3.sub B A) u / V3.normSq u - lam < 1 := by
  have hp := corners_param A u B lam hl hu
  simp only at hp
  rw [hp] at h1 h3
  simp only at h1 h3
  set β := V3.dot (V3.sub B A) u / V3.normSq u
  constructor
  · by_contra hb
    have : β / lam ≤ 0 := div_nonpos_of_nonpos_of_nonneg (not_lt.mp hb) hl.le
    rw [clamp01_of_nonpos this] at h1
    apply h1
    simp [V3.add, V3.smul]
  · by_contra hb
    have : 1 ≤ (β - 1) / lam := (one_le_div hl).mpr (by linarith [not_lt.mp hb])
    rw [clamp01_of_one_le this] at h3
    apply h3
    simp [V3.add, V3.smul]

end antiparallel

/-! ### Side loops of the decomposition against the code's `other_faces` branches -/

section sideloops

/-- Signed doubled area of an optional loop (`none` = no face is made). -/
def optSh : Option (List (V2 α)) → α
  | none => 0
  | some l => shoelace l

/-- The three-way branch of an `other_faces` block of `_split_with_rectangle` with EXACT
comparisons (`tolerance = 0`), in plane coordinates: the image of `otherFacePts`. -/
def otherLoop (pts : List (V2 α)) (closeA farEnd closeB nearEnd : V2 α) :
    Option (List (V2 α)) :=
  if closeA ≠ farEnd then some (pts ++ [closeA])
  else if closeB ≠ nearEnd then some (pts ++ [closeB])
  else if 2 < pts.length then some pts
  else none

theorem dup_front (a : V2 α) (L : List (V2 α)) :
    shoelace (a :: a :: L) = shoelace (a :: L) := by
  cases L with
  | nil => rw [shoelace_pair, shoelace_singleton]
  | cons x t =>
    have := shoelace_ear [] t a a x
    simp only [List.nil_append, List.cons_append] at this
    rw [this]
    simp [V2.det, V2.sub]

theorem dup_back (L : List (V2 α)) (x : V2 α) :
    shoelace (L ++ [x, x]) = shoelace (L ++ [x]) := by
  rw [shoelace_append_comm L [x, x], shoelace_append_comm L [x]]
  exact dup_front x L

theorem rev_loop (x y : V2 α) (C : List (V2 α)) (tail : List (V2 α)) :
    ([x] ++ C.reverse ++ [y] ++ tail).reverse = tail.reverse ++ [y] ++ C ++ [x] := by
  simp [List.reverse_append]

/-- The three cases of a side loop `[p, y] ++ C ++ [x, q]`. -/
theorem side_case1 (x y p : V2 α) (C : List (V2 α)) :
    shoelace ([p, y] ++ C ++ [x, x]) = - shoelace ([x] ++ C.reverse ++ [y] ++ [p]) := by
  rw [← shoelace_reverse, rev_loop]
  have := dup_back ([p, y] ++ C) x
  simp only [List.append_assoc, List.cons_append, List.nil_append, List.reverse_cons,
    List.reverse_nil] at this ⊢
  rw [this]

theorem side_case2 (x y q : V2 α) (C : List (V2 α)) :
    shoelace ([y, y] ++ C ++ [x, q]) = - shoelace ([x] ++ C.reverse ++ [y] ++ [q]) := by
  rw [← shoelace_reverse, rev_loop]
  have h1 := dup_front y (C ++ [x, q])
  have h2 := shoelace_append_comm [q] ([y] ++ C ++ [x])
  simp only [List.append_assoc, List.cons_append, List.nil_append, List.reverse_cons,
    List.reverse_nil] at h1 h2 ⊢
  rw [h1, h2]

theorem side_case3 (x y : V2 α) (C : List (V2 α)) :
    shoelace ([y, y] ++ C ++ [x, x]) = - shoelace ([x] ++ C.reverse ++ [y]) := by
  have h0 := rev_loop x y C []
  simp only [List.append_nil, List.reverse_nil, List.nil_append] at h0
  rw [← shoelace_reverse, h0]
  have h1 := dup_front y (C ++ [x, x])
  have h2 := dup_back ([y] ++ C) x
  simp only [List.append_assoc, List.cons_append, List.nil_append] at h1 h2 ⊢
  rw [h1, h2]

/-- A side loop against the first `other_faces` block (tests `p` vs `y` first). -/
theorem side_loop_A (x y p q : V2 α) (C : List (V2 α)) (h : p ≠ y → q = x) :
    shoelace ([p, y] ++ C ++ [x, q]) =
      - optSh (otherLoop ([x] ++ C.reverse ++ [y]) p y q x) := by
  unfold otherLoop
  by_cases hp : p = y
  · subst hp
    by_cases hq : q = x
    · subst hq
      simp only [ne_eq, not_true_eq_false, if_false]
      split_ifs with hlen
      · exact side_case3 q p C
      · have hC : C = [] := by
          cases C with
          | nil => rfl
          | cons c t => simp at hlen
        subst hC
        simp only [optSh, neg_zero]
        have := dup_front p [q, q]
        have h2 := dup_back [p] q
        simp only [List.append_assoc, List.cons_append, List.nil_append] at this h2 ⊢
        rw [this, h2, shoelace_pair]
    · simp only [ne_eq, not_true_eq_false, if_false, hq, not_false_eq_true, if_true, optSh]
      exact side_case2 x p q C
  · have hq := h hp
    subst hq
    simp only [ne_eq, hp, not_false_eq_true, if_true, optSh]
    exact side_case1 q y p C

/-- A side loop against the second `other_faces` block (tests `q` vs `x` first). -/
theorem side_loop_B (x y p q : V2 α) (C : List (V2 α)) (h : q ≠ x → p = y) :
    shoelace ([p, y] ++ C ++ [x, q]) =
      - optSh (otherLoop ([x] ++ C.reverse ++ [y]) q x p y) := by
  by_cases hq : q = x
  · by_cases hp : p = y
    · rw [side_loop_A x y p q C (fun hne => absurd hp hne)]
      unfold otherLoop
      simp [hp, hq]
    · rw [side_loop_A x y p q C (fun _ => hq)]
      unfold otherLoop
      simp [hp, hq]
  · have hp := h hq
    rw [side_loop_A x y p q C (fun hne => absurd hp hne)]
    unfold otherLoop
    simp [hp, hq]

end sideloops

end Lbg.Lemmas.ExtractRect
