/-
  Lemmas.Isect2 — a small closed-form model of the 2D line/line intersection kernels
  (`Lbg.Gen.intersect_line2d_*`, `does_intersection_exist_line2d_*`,
  `intersect_line2d_infinite_*`, `intersect_line_segment2d`) and its properties.
  Every generated kernel is shown equal to an instance of the model (`*_eq` lemmas);
  the property theorems in `Props/C11.lean` are then read off the model.
-/
import LbgVerif.Gen.Isect2
import Mathlib.Tactic.Ring
import Mathlib.Tactic.FieldSimp
import Mathlib.Tactic.Linarith
import Mathlib.Tactic.Positivity
import Mathlib.Tactic.SplitIfs
import Mathlib.Tactic.LinearCombination
import Mathlib.Tactic.NormNum

set_option linter.unusedSectionVars false
set_option linter.unusedSimpArgs false

namespace Lbg.Lemmas
open Lbg Lbg.Gen
variable {α : Type} [Field α] [LinearOrder α] [IsStrictOrderedRing α]

/-- Parameter range of an operand: segment `[0,1]`, ray `[0,∞)`, infinite carrier line. -/
inductive Rng | seg | ray | line
deriving DecidableEq

/-- `t` is an admissible parameter for the range kind. -/
def Rng.ok : Rng → α → Prop
  | .seg, t => 0 ≤ t ∧ t ≤ 1
  | .ray, t => 0 ≤ t
  | .line, _ => True

instance (k : Rng) (t : α) : Decidable (k.ok t) := by
  cases k <;> unfold Rng.ok <;> infer_instance

/-- `q` lies on the operand `l` read with range kind `k`. -/
def Rng.On : Rng → LR2 α → V2 α → Prop
  | .seg, l, q => ∃ t, 0 ≤ t ∧ t ≤ 1 ∧ (q.x = l.p.x + t * l.v.x ∧ q.y = l.p.y + t * l.v.y)
  | .ray, l, q => ∃ t, 0 ≤ t ∧ (q.x = l.p.x + t * l.v.x ∧ q.y = l.p.y + t * l.v.y)
  | .line, l, q => ∃ t, (q.x = l.p.x + t * l.v.x ∧ q.y = l.p.y + t * l.v.y)

theorem Rng.On_iff (k : Rng) (l : LR2 α) (q : V2 α) :
    k.On l q ↔ ∃ t, k.ok t ∧ q.x = l.p.x + t * l.v.x ∧ q.y = l.p.y + t * l.v.y := by
  cases k <;> simp [Rng.On, Rng.ok, and_assoc]

/-- The determinant the code guards on. -/
def det2 (a b : LR2 α) : α := b.v.y * a.v.x - b.v.x * a.v.y
/-- Cramer parameter on `a`. -/
def ua (a b : LR2 α) : α :=
  (b.v.x * (a.p.y - b.p.y) - b.v.y * (a.p.x - b.p.x)) / (b.v.y * a.v.x - b.v.x * a.v.y)
/-- Cramer parameter on `b`. -/
def ub (a b : LR2 α) : α :=
  (a.v.x * (a.p.y - b.p.y) - a.v.y * (a.p.x - b.p.x)) / (b.v.y * a.v.x - b.v.x * a.v.y)

/-- The model: guard on the determinant, test both parameters, return the point on `a`. -/
def isect2 (ka kb : Rng) (a b : LR2 α) : Option (V2 α) :=
  if det2 a b = 0 then none
  else if ka.ok (ua a b) ∧ kb.ok (ub a b) then
    some ⟨a.p.x + ua a b * a.v.x, a.p.y + ua a b * a.v.y⟩
  else none

theorem det2_swap (a b : LR2 α) : det2 b a = - det2 a b := by
  simp only [det2]; ring

theorem cramer_x (a b : LR2 α) (hd : det2 a b ≠ 0) :
    a.p.x + ua a b * a.v.x = b.p.x + ub a b * b.v.x := by
  simp only [det2] at hd
  simp only [ua, ub]
  field_simp
  ring

theorem cramer_y (a b : LR2 α) (hd : det2 a b ≠ 0) :
    a.p.y + ua a b * a.v.y = b.p.y + ub a b * b.v.y := by
  simp only [det2] at hd
  simp only [ua, ub]
  field_simp
  ring

theorem cramer_unique (a b : LR2 α) (hd : det2 a b ≠ 0) (ta tb : α)
    (hx : a.p.x + ta * a.v.x = b.p.x + tb * b.v.x)
    (hy : a.p.y + ta * a.v.y = b.p.y + tb * b.v.y) : ta = ua a b ∧ tb = ub a b := by
  simp only [det2] at hd
  simp only [ua, ub]
  constructor
  · rw [eq_div_iff hd]; linear_combination b.v.y * hx - b.v.x * hy
  · rw [eq_div_iff hd]; linear_combination a.v.y * hx - a.v.x * hy

/-- Characterisation of the model: it returns `q` exactly when the determinant is non-zero
and `q` lies on both operands within their ranges. -/
theorem isect2_eq_some_iff (ka kb : Rng) (a b : LR2 α) (q : V2 α) :
    isect2 ka kb a b = some q ↔ det2 a b ≠ 0 ∧ ka.On a q ∧ kb.On b q := by
  rw [Rng.On_iff, Rng.On_iff]
  unfold isect2
  split_ifs with h1 h2
  · simp [h1]
  · constructor
    · intro h
      simp only [Option.some.injEq] at h
      subst h
      exact ⟨h1, ⟨_, h2.1, rfl, rfl⟩, ⟨_, h2.2, cramer_x a b h1, cramer_y a b h1⟩⟩
    · rintro ⟨_, ⟨ta, hta, hxa, hya⟩, ⟨tb, htb, hxb, hyb⟩⟩
      obtain ⟨e1, e2⟩ := cramer_unique a b h1 ta tb (hxa ▸ hxb) (hya ▸ hyb)
      subst e1
      simp only [Option.some.injEq]
      exact V2.ext' hxa.symm hya.symm
  · constructor
    · intro h; exact absurd h (by simp)
    · rintro ⟨_, ⟨ta, hta, hxa, hya⟩, ⟨tb, htb, hxb, hyb⟩⟩
      obtain ⟨e1, e2⟩ := cramer_unique a b h1 ta tb (hxa ▸ hxb) (hya ▸ hyb)
      exact absurd ⟨e1 ▸ hta, e2 ▸ htb⟩ h2

theorem isect2_symm (ka kb : Rng) (a b : LR2 α) : isect2 ka kb a b = isect2 kb ka b a := by
  ext q
  rw [isect2_eq_some_iff, isect2_eq_some_iff, det2_swap, neg_ne_zero]
  tauto

theorem isect2_isSome_iff (ka kb : Rng) (a b : LR2 α) :
    (isect2 ka kb a b).isSome = true ↔ det2 a b ≠ 0 ∧ ka.ok (ua a b) ∧ kb.ok (ub a b) := by
  unfold isect2
  split_ifs with h1 h2 <;> simp_all


/-- In exact arithmetic the `_isclose` consistency test of `intersect_line_segment2d` never
fires when the two candidate coordinates coincide. -/
theorem isclose_self_passes (c x y : α) (hc : 0 < c) (hxy : x = y) :
    ¬ (max (c * max |x| |y|) c < |x - y|) := by
  subst hxy
  rw [sub_self, abs_zero, not_lt]
  exact le_trans hc.le (le_max_right _ _)

/-- The same fact in `≤` form. -/
theorem isclose_self_le (c x y : α) (hc : 0 < c) (hxy : x = y) :
    |x - y| ≤ max (c * max |x| |y|) c := not_lt.mp (isclose_self_passes c x y hc hxy)

/-! ### The generated kernels are instances of the model -/

theorem intersect_line2d_ss_eq (a b : LR2 α) :
    intersect_line2d_ss a b = isect2 .seg .seg a b := by
  unfold intersect_line2d_ss isect2
  simp only [det2, ua, ub, Rng.ok]
  split_ifs <;> simp_all [not_le_of_gt]


theorem intersect_line2d_infinite_ss_eq (a b : LR2 α) :
    intersect_line2d_infinite_ss a b = isect2 .seg .line a b := by
  unfold intersect_line2d_infinite_ss isect2
  simp only [det2, ua, ub, Rng.ok]
  split_ifs <;> simp_all [not_le_of_gt]

theorem does_intersection_exist_line2d_ss_eq (a b : LR2 α) :
    does_intersection_exist_line2d_ss a b = (isect2 .seg .seg a b).isSome := by
  rw [Bool.eq_iff_iff, isect2_isSome_iff]
  unfold does_intersection_exist_line2d_ss
  simp only [decide_eq_true_eq, not_lt]
  constructor
  · intro h
    simp only [det2, ua, ub, Rng.ok, ne_eq]
    exact ⟨h.1, h.2.1, h.2.2.1⟩
  · intro h
    have cx := cramer_x a b h.1
    have cy := cramer_y a b h.1
    simp only [det2, ua, ub, Rng.ok, ne_eq] at h cx cy
    exact ⟨h.1, h.2.1, h.2.2, isclose_self_le _ _ _ (by positivity) cx,
      isclose_self_le _ _ _ (by positivity) cy⟩

theorem intersect_line2d_sr_eq (a b : LR2 α) :
    intersect_line2d_sr a b = isect2 .seg .ray a b := by
  unfold intersect_line2d_sr isect2
  simp only [det2, ua, ub, Rng.ok]
  split_ifs <;> simp_all [not_le_of_gt]

theorem intersect_line2d_infinite_sr_eq (a b : LR2 α) :
    intersect_line2d_infinite_sr a b = isect2 .seg .line a b := by
  unfold intersect_line2d_infinite_sr isect2
  simp only [det2, ua, ub, Rng.ok]
  split_ifs <;> simp_all [not_le_of_gt]

theorem does_intersection_exist_line2d_sr_eq (a b : LR2 α) :
    does_intersection_exist_line2d_sr a b = (isect2 .seg .ray a b).isSome := by
  rw [Bool.eq_iff_iff, isect2_isSome_iff]
  unfold does_intersection_exist_line2d_sr
  simp only [decide_eq_true_eq, not_lt]
  constructor
  · intro h
    simp only [det2, ua, ub, Rng.ok, ne_eq]
    exact ⟨h.1, h.2.1, h.2.2.1⟩
  · intro h
    have cx := cramer_x a b h.1
    have cy := cramer_y a b h.1
    simp only [det2, ua, ub, Rng.ok, ne_eq] at h cx cy
    exact ⟨h.1, h.2.1, h.2.2, isclose_self_le _ _ _ (by positivity) cx,
      isclose_self_le _ _ _ (by positivity) cy⟩

theorem intersect_line2d_rs_eq (a b : LR2 α) :
    intersect_line2d_rs a b = isect2 .ray .seg a b := by
  unfold intersect_line2d_rs isect2
  simp only [det2, ua, ub, Rng.ok]
  split_ifs <;> simp_all [not_le_of_gt]

theorem intersect_line2d_infinite_rs_eq (a b : LR2 α) :
    intersect_line2d_infinite_rs a b = isect2 .ray .line a b := by
  unfold intersect_line2d_infinite_rs isect2
  simp only [det2, ua, ub, Rng.ok]
  split_ifs <;> simp_all [not_le_of_gt]

theorem does_intersection_exist_line2d_rs_eq (a b : LR2 α) :
    does_intersection_exist_line2d_rs a b = (isect2 .ray .seg a b).isSome := by
  rw [Bool.eq_iff_iff, isect2_isSome_iff]
  unfold does_intersection_exist_line2d_rs
  simp only [decide_eq_true_eq, not_lt]
  constructor
  · intro h
    simp only [det2, ua, ub, Rng.ok, ne_eq]
    exact ⟨h.1, h.2.1, h.2.2.1⟩
  · intro h
    have cx := cramer_x a b h.1
    have cy := cramer_y a b h.1
    simp only [det2, ua, ub, Rng.ok, ne_eq] at h cx cy
    exact ⟨h.1, h.2.1, h.2.2, isclose_self_le _ _ _ (by positivity) cx,
      isclose_self_le _ _ _ (by positivity) cy⟩

theorem intersect_line2d_rr_eq (a b : LR2 α) :
    intersect_line2d_rr a b = isect2 .ray .ray a b := by
  unfold intersect_line2d_rr isect2
  simp only [det2, ua, ub, Rng.ok]
  split_ifs <;> simp_all [not_le_of_gt]

theorem intersect_line2d_infinite_rr_eq (a b : LR2 α) :
    intersect_line2d_infinite_rr a b = isect2 .ray .line a b := by
  unfold intersect_line2d_infinite_rr isect2
  simp only [det2, ua, ub, Rng.ok]
  split_ifs <;> simp_all [not_le_of_gt]

theorem does_intersection_exist_line2d_rr_eq (a b : LR2 α) :
    does_intersection_exist_line2d_rr a b = (isect2 .ray .ray a b).isSome := by
  rw [Bool.eq_iff_iff, isect2_isSome_iff]
  unfold does_intersection_exist_line2d_rr
  simp only [decide_eq_true_eq, not_lt]
  constructor
  · intro h
    simp only [det2, ua, ub, Rng.ok, ne_eq]
    exact ⟨h.1, h.2.1, h.2.2.1⟩
  · intro h
    have cx := cramer_x a b h.1
    have cy := cramer_y a b h.1
    simp only [det2, ua, ub, Rng.ok, ne_eq] at h cx cy
    exact ⟨h.1, h.2.1, h.2.2, isclose_self_le _ _ _ (by positivity) cx,
      isclose_self_le _ _ _ (by positivity) cy⟩

theorem intersect_line_segment2d_eq (a b : LR2 α) :
    intersect_line_segment2d a b = isect2 .seg .seg a b := by
  rw [← intersect_line2d_ss_eq]
  unfold intersect_line_segment2d intersect_line2d_ss
  simp only []
  split_ifs with h1 h2 h3 h4 h5 h6 h7 <;> try rfl
  · exact absurd h6 (isclose_self_passes _ _ _ (by positivity) (by field_simp; ring))
  · exact absurd h7 (isclose_self_passes _ _ _ (by positivity) (by field_simp; ring))

end Lbg.Lemmas
