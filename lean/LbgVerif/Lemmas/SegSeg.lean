/-
  Lemmas.SegSeg — the segment-to-segment routines of `Model/SegSeg.lean`
  (`closest_point2d_between_line2d`, `closest_end_point2d_between_line2d`).

  Main fact (`seg_reduce`): for two segments that do not meet, every pair of points
  `(a(s), b(t))` is at least as far apart as some pair in which one of the two is an END point
  of its segment.  Non-parallel case: the squared distance is a homogeneous quadratic around
  the intersection `O` of the carrier lines, which lies outside the parameter square, so it
  decreases along the path from `(s, t)` towards `O` until the path leaves the square.
  Parallel case: the squared distance is constant along a direction of the parameter plane.
-/
import LbgVerif.Model.SegSeg
import LbgVerif.Lemmas.Closest
import LbgVerif.Lemmas.Isect2

set_option linter.unusedSectionVars false
set_option linter.unusedSimpArgs false
set_option linter.unusedVariables false

namespace Lbg.Lemmas
open Lbg Lbg.Gen Lbg.Model.SegSeg
variable {α : Type} [Field α] [LinearOrder α] [IsStrictOrderedRing α]

/-! ### `sorted(zip(dists, range(n)))[0]` -/

theorem firstMin_spec {β : Type} (c0 : α × β) (rest : List (α × β)) :
    (firstMin c0 rest ∈ c0 :: rest) ∧ (firstMin c0 rest).1 ≤ c0.1 ∧
      ∀ c ∈ rest, (firstMin c0 rest).1 ≤ c.1 := by
  unfold firstMin
  induction rest generalizing c0 with
  | nil => simp
  | cons e t ih =>
    rw [List.foldl_cons]
    obtain ⟨h1, h2, h3⟩ := ih (if e.1 < c0.1 then e else c0)
    have hle : (if e.1 < c0.1 then e else c0).1 ≤ c0.1 ∧ (if e.1 < c0.1 then e else c0).1 ≤ e.1 := by
      split_ifs with h
      · exact ⟨h.le, le_rfl⟩
      · exact ⟨le_rfl, not_lt.mp h⟩
    refine ⟨?_, le_trans h2 hle.1, ?_⟩
    · rcases List.mem_cons.mp h1 with h | h
      · rw [h]; split_ifs
        · exact List.mem_cons_of_mem _ List.mem_cons_self
        · exact List.mem_cons_self
      · exact List.mem_cons_of_mem _ (List.mem_cons_of_mem _ h)
    · intro c hc
      rcases List.mem_cons.mp hc with rfl | hc
      · exact le_trans h2 hle.2
      · exact h3 c hc

/-! ### Leaving the parameter square -/

theorem affine_nonneg_between (c d μ μ' : α) (h0 : 0 ≤ c) (h1 : 0 ≤ c + d * μ) (hμ' : 0 ≤ μ')
    (hle : μ' ≤ μ) : 0 ≤ c + d * μ' := by
  rcases le_total 0 d with hd | hd
  · have := mul_nonneg hd hμ'; linarith
  · have := mul_le_mul_of_nonpos_left hle hd; linarith

/-- Affine constraints `c + d·μ ≥ 0` that all hold at `μ = 0`: there is a last parameter
`μ ≤ μ0` up to which all hold; either it is `μ0` or one constraint is tight there. -/
theorem first_exit (cs : List (α × α)) (h0 : ∀ c ∈ cs, 0 ≤ c.1) (μ0 : α) (hμ0 : 0 ≤ μ0) :
    ∃ μ, 0 ≤ μ ∧ μ ≤ μ0 ∧ (∀ c ∈ cs, 0 ≤ c.1 + c.2 * μ) ∧
      (μ = μ0 ∨ ∃ c ∈ cs, c.1 + c.2 * μ = 0) := by
  induction cs with
  | nil => exact ⟨μ0, hμ0, le_rfl, by simp, Or.inl rfl⟩
  | cons c t ih =>
    obtain ⟨μ, hμ, hle, hall, hor⟩ := ih (fun d hd => h0 d (List.mem_cons_of_mem _ hd))
    have hc0 := h0 c List.mem_cons_self
    by_cases hc : 0 ≤ c.1 + c.2 * μ
    · refine ⟨μ, hμ, hle, ?_, ?_⟩
      · intro d hd
        rcases List.mem_cons.mp hd with rfl | hd
        · exact hc
        · exact hall d hd
      · rcases hor with h | ⟨d, hd, e⟩
        · left; exact h
        · right; exact ⟨d, List.mem_cons_of_mem _ hd, e⟩
    · have hlt : c.1 + c.2 * μ < 0 := not_le.mp hc
      have hc2 : c.2 < 0 := by
        by_contra hn
        have := mul_nonneg (not_lt.mp hn) hμ
        linarith
      have hne : c.2 ≠ 0 := ne_of_lt hc2
      have hroot : c.1 + c.2 * (-c.1 / c.2) = 0 := by
        have : c.2 * (-c.1 / c.2) = -c.1 := by field_simp
        linarith
      have hr0 : 0 ≤ -c.1 / c.2 := div_nonneg_of_nonpos (by linarith) hc2.le
      have hrμ : -c.1 / c.2 ≤ μ := by
        rw [div_le_iff_of_neg hc2]; linarith
      refine ⟨-c.1 / c.2, hr0, le_trans hrμ hle, ?_, ?_⟩
      · intro d hd
        rcases List.mem_cons.mp hd with rfl | hd
        · exact le_of_eq hroot.symm
        · exact affine_nonneg_between d.1 d.2 μ _ (h0 d (List.mem_cons_of_mem _ hd))
            (hall d hd) hr0 hrμ
      · right; exact ⟨c, List.mem_cons_self, hroot⟩

/-- The path from a point of the unit square to a point outside it leaves the square through
its boundary. -/
theorem square_exit (s t Os Ot : α) (hs : 0 ≤ s ∧ s ≤ 1) (ht : 0 ≤ t ∧ t ≤ 1)
    (hO : ¬ (0 ≤ Os ∧ Os ≤ 1 ∧ 0 ≤ Ot ∧ Ot ≤ 1)) :
    ∃ μ, 0 ≤ μ ∧ μ ≤ 1 ∧
      0 ≤ s + μ * (Os - s) ∧ s + μ * (Os - s) ≤ 1 ∧
      0 ≤ t + μ * (Ot - t) ∧ t + μ * (Ot - t) ≤ 1 ∧
      (s + μ * (Os - s) = 0 ∨ s + μ * (Os - s) = 1 ∨
        t + μ * (Ot - t) = 0 ∨ t + μ * (Ot - t) = 1) := by
  obtain ⟨μ, hμ0, hμ1, hall, hor⟩ := first_exit
    [(s, Os - s), (1 - s, -(Os - s)), (t, Ot - t), (1 - t, -(Ot - t))]
    (by
      intro c hc
      simp only [List.mem_cons, List.mem_nil_iff, or_false] at hc
      rcases hc with rfl | rfl | rfl | rfl <;> simp only [] <;> linarith [hs.1, hs.2, ht.1, ht.2])
    1 zero_le_one
  have h1 := hall (s, Os - s) (by simp)
  have h2 := hall (1 - s, -(Os - s)) (by simp)
  have h3 := hall (t, Ot - t) (by simp)
  have h4 := hall (1 - t, -(Ot - t)) (by simp)
  simp only [] at h1 h2 h3 h4
  have e1 : s + μ * (Os - s) = s + (Os - s) * μ := by ring
  have e2 : t + μ * (Ot - t) = t + (Ot - t) * μ := by ring
  refine ⟨μ, hμ0, hμ1, by rw [e1]; exact h1, by rw [e1]; linarith, by rw [e2]; exact h3,
    by rw [e2]; linarith, ?_⟩
  rcases hor with h | ⟨c, hc, e⟩
  · exfalso
    apply hO
    rw [h] at h1 h2 h3 h4
    refine ⟨by linarith, by linarith, by linarith, by linarith⟩
  · simp only [List.mem_cons, List.mem_nil_iff, or_false] at hc
    rcases hc with rfl | rfl | rfl | rfl <;> simp only [] at e
    · left; rw [e1]; exact e
    · right; left; rw [e1]; linarith
    · right; right; left; rw [e2]; exact e
    · right; right; right; rw [e2]; linarith

/-! ### The squared distance between two parametrised points -/

/-- Squared distance between the points of parameters `s` on `a` and `t` on `b`. -/
def fst (a b : LR2 α) (s t : α) : α := dsq2 (at2 a s) (at2 b t)

/-- The closed segments `a` and `b` have no common point. -/
def SegsMiss (a b : LR2 α) : Prop :=
  ∀ s t : α, 0 ≤ s → s ≤ 1 → 0 ≤ t → t ≤ 1 → at2 a s ≠ at2 b t

theorem fst_nonneg (a b : LR2 α) (s t : α) : 0 ≤ fst a b s t := dsq2_nonneg _ _

/-- In the unit square, on its boundary. -/
def OnSquareBoundary (s t : α) : Prop :=
  0 ≤ s ∧ s ≤ 1 ∧ 0 ≤ t ∧ t ≤ 1 ∧ (s = 0 ∨ s = 1 ∨ t = 0 ∨ t = 1)

/-- Non-parallel carrier lines. -/
theorem reduce_nonparallel (a b : LR2 α) (hdet : det2 a b ≠ 0) (hmiss : SegsMiss a b)
    (s t : α) (hs : 0 ≤ s ∧ s ≤ 1) (ht : 0 ≤ t ∧ t ≤ 1) :
    ∃ s' t', OnSquareBoundary s' t' ∧ fst a b s' t' ≤ fst a b s t := by
  have hx := cramer_x a b hdet
  have hy := cramer_y a b hdet
  have hO : ¬ (0 ≤ ua a b ∧ ua a b ≤ 1 ∧ 0 ≤ ub a b ∧ ub a b ≤ 1) := by
    rintro ⟨h1, h2, h3, h4⟩
    exact hmiss _ _ h1 h2 h3 h4 (V2.ext' hx hy)
  obtain ⟨μ, hμ0, hμ1, b1, b2, b3, b4, hb⟩ := square_exit s t (ua a b) (ub a b) hs ht hO
  refine ⟨_, _, ⟨b1, b2, b3, b4, hb⟩, ?_⟩
  have eX : (a.p.x + (s + μ * (ua a b - s)) * a.v.x) - (b.p.x + (t + μ * (ub a b - t)) * b.v.x)
      = (1 - μ) * ((a.p.x + s * a.v.x) - (b.p.x + t * b.v.x)) := by
    linear_combination μ * hx
  have eY : (a.p.y + (s + μ * (ua a b - s)) * a.v.y) - (b.p.y + (t + μ * (ub a b - t)) * b.v.y)
      = (1 - μ) * ((a.p.y + s * a.v.y) - (b.p.y + t * b.v.y)) := by
    linear_combination μ * hy
  have e : fst a b (s + μ * (ua a b - s)) (t + μ * (ub a b - t))
      = (1 - μ) * (1 - μ) * fst a b s t := by
    simp only [fst, dsq2, at2]
    rw [eX, eY]; ring
  rw [e]
  have h0 := fst_nonneg a b s t
  have hm : (1 - μ) * (1 - μ) ≤ 1 := by nlinarith
  nlinarith

/-- The squared distance is constant along the direction `(ws, wt)` of the parameter plane. -/
theorem reduce_along (a b : LR2 α) (ws wt : α) (hw : ws ≠ 0 ∨ wt ≠ 0)
    (hX : ws * a.v.x - wt * b.v.x = 0) (hY : ws * a.v.y - wt * b.v.y = 0)
    (s t : α) (hs : 0 ≤ s ∧ s ≤ 1) (ht : 0 ≤ t ∧ t ≤ 1) :
    ∃ s' t', OnSquareBoundary s' t' ∧ fst a b s' t' ≤ fst a b s t := by
  obtain ⟨N, hN⟩ : ∃ N : α, ¬ (0 ≤ s + N * ws ∧ s + N * ws ≤ 1 ∧ 0 ≤ t + N * wt ∧ t + N * wt ≤ 1) := by
    rcases hw with h | h
    · refine ⟨2 / ws, ?_⟩
      rw [div_mul_cancel₀ _ h]
      rintro ⟨_, h2, _, _⟩; linarith [hs.1]
    · refine ⟨2 / wt, ?_⟩
      rw [div_mul_cancel₀ _ h]
      rintro ⟨_, _, _, h4⟩; linarith [ht.1]
  obtain ⟨μ, hμ0, hμ1, b1, b2, b3, b4, hb⟩ :=
    square_exit s t (s + N * ws) (t + N * wt) hs ht hN
  refine ⟨_, _, ⟨b1, b2, b3, b4, hb⟩, le_of_eq ?_⟩
  simp only [fst, dsq2, at2]
  have eX : (a.p.x + (s + μ * (s + N * ws - s)) * a.v.x)
      - (b.p.x + (t + μ * (t + N * wt - t)) * b.v.x)
      = (a.p.x + s * a.v.x) - (b.p.x + t * b.v.x) := by
    linear_combination (μ * N) * hX
  have eY : (a.p.y + (s + μ * (s + N * ws - s)) * a.v.y)
      - (b.p.y + (t + μ * (t + N * wt - t)) * b.v.y)
      = (a.p.y + s * a.v.y) - (b.p.y + t * b.v.y) := by
    linear_combination (μ * N) * hY
  rw [eX, eY]

/-- Two segments that do not meet: every pair of points is at least as far apart as a pair with
one END point. -/
theorem seg_reduce (a b : LR2 α) (hmiss : SegsMiss a b)
    (s t : α) (hs : 0 ≤ s ∧ s ≤ 1) (ht : 0 ≤ t ∧ t ≤ 1) :
    ∃ s' t', OnSquareBoundary s' t' ∧ fst a b s' t' ≤ fst a b s t := by
  by_cases hdet : det2 a b = 0
  · simp only [det2] at hdet
    by_cases h1 : b.v.x ≠ 0 ∨ a.v.x ≠ 0
    · exact reduce_along a b b.v.x a.v.x h1 (by ring) (by linear_combination -hdet) s t hs ht
    by_cases h2 : b.v.y ≠ 0 ∨ a.v.y ≠ 0
    · exact reduce_along a b b.v.y a.v.y h2 (by linear_combination hdet) (by ring) s t hs ht
    · rw [not_or, not_not, not_not] at h1 h2
      refine ⟨0, t, ⟨le_rfl, zero_le_one, ht.1, ht.2, Or.inl rfl⟩, le_of_eq ?_⟩
      simp only [fst, dsq2, at2, h1.2, h2.2]; ring
  · exact reduce_nonparallel a b hdet hmiss s t hs ht

/-- The four squared candidate distances of `closest_point2d_between_line2d`. -/
def cand1 (a b : LR2 α) : α := dsq2 a.p (closest2 .seg a.p b)
def cand2 (a b : LR2 α) : α := dsq2 (seg2_p2 a) (closest2 .seg (seg2_p2 a) b)
def cand3 (a b : LR2 α) : α := dsq2 b.p (closest2 .seg b.p a)
def cand4 (a b : LR2 α) : α := dsq2 (seg2_p2 b) (closest2 .seg (seg2_p2 b) a)

theorem dsq2_comm (x y : V2 α) : dsq2 x y = dsq2 y x := by simp only [dsq2]; ring

/-- A pair with an end point is no closer than the corresponding candidate. -/
theorem boundary_ge_cand (a b : LR2 α) (s t : α) (h : OnSquareBoundary s t) :
    cand1 a b ≤ fst a b s t ∨ cand2 a b ≤ fst a b s t ∨
      cand3 a b ≤ fst a b s t ∨ cand4 a b ≤ fst a b s t := by
  obtain ⟨hs0, hs1, ht0, ht1, hb⟩ := h
  rcases hb with rfl | rfl | rfl | rfl
  · left
    have e : at2 a 0 = a.p := by apply V2.ext' <;> simp [at2]
    simp only [fst, cand1, e]
    exact closest2_min .seg a.p b t ⟨ht0, ht1⟩
  · right; left
    have e : at2 a 1 = seg2_p2 a := by apply V2.ext' <;> simp [at2, seg2_p2]
    simp only [fst, cand2, e]
    exact closest2_min .seg _ b t ⟨ht0, ht1⟩
  · right; right; left
    have e : at2 b 0 = b.p := by apply V2.ext' <;> simp [at2]
    simp only [fst, cand3, e]
    rw [dsq2_comm (at2 a s)]
    exact closest2_min .seg b.p a s ⟨hs0, hs1⟩
  · right; right; right
    have e : at2 b 1 = seg2_p2 b := by apply V2.ext' <;> simp [at2, seg2_p2]
    simp only [fst, cand4, e]
    rw [dsq2_comm (at2 a s)]
    exact closest2_min .seg _ a s ⟨hs0, hs1⟩

/-- For segments that do not meet, some candidate is a lower bound for the squared distance of
every pair of points. -/
theorem cand_le_of_miss (a b : LR2 α) (hmiss : SegsMiss a b)
    (s t : α) (hs : 0 ≤ s ∧ s ≤ 1) (ht : 0 ≤ t ∧ t ≤ 1) :
    cand1 a b ≤ fst a b s t ∨ cand2 a b ≤ fst a b s t ∨
      cand3 a b ≤ fst a b s t ∨ cand4 a b ≤ fst a b s t := by
  obtain ⟨s', t', hb, hle⟩ := seg_reduce a b hmiss s t hs ht
  rcases boundary_ge_cand a b s' t' hb with h | h | h | h
  · exact Or.inl (le_trans h hle)
  · exact Or.inr (Or.inl (le_trans h hle))
  · exact Or.inr (Or.inr (Or.inl (le_trans h hle)))
  · exact Or.inr (Or.inr (Or.inr (le_trans h hle)))

/-! ### The model -/

theorem candidates_eq (M : MathOps α) (a b : LR2 α) :
    candidates M a b =
      ((M.sqrt (cand1 a b), a.p, closest2 .seg a.p b),
       [(M.sqrt (cand2 a b), seg2_p2 a, closest2 .seg (seg2_p2 a) b),
        (M.sqrt (cand3 a b), closest2 .seg b.p a, b.p),
        (M.sqrt (cand4 a b), closest2 .seg (seg2_p2 b) a, seg2_p2 b)]) := by
  unfold candidates
  simp only [closest_point2d_on_line2d_s_eq, cand1, cand2, cand3, cand4]
  have hd : ∀ x y : V2 α, p2_distance_to_point M x y = M.sqrt (dsq2 y x) := by
    intro x y; simp only [p2_distance_to_point, dsq2]; congr 1; ring
  simp only [hd]

end Lbg.Lemmas
