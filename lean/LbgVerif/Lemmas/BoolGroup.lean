/-
  Lemmas.BoolGroup — the grouping loop of `Face3D._from_bool_poly` (Model/BoolGroup.lean)
  seen from a single point: the number of groups whose region (outer minus holes) contains
  the point follows the parity of the number of loops containing it.
-/
import LbgVerif.Model.BoolGroup
import Mathlib.Tactic.Linarith

set_option linter.unusedSectionVars false
set_option linter.unusedVariables false

namespace Lbg.Lemmas
open Lbg.Model

variable {L : Type}

/-- The point (given by the set `mem` of loops containing it) lies in the region of the group:
inside the outer loop and in none of the holes. -/
def inRegion (mem : L → Bool) (g : L × List L) : Bool := mem g.1 && !(g.2.any mem)

/-- Number of groups whose region contains the point. -/
def cover (mem : L → Bool) (gs : List (L × List L)) : ℕ := (gs.filter (inRegion mem)).length

/-- All loops stored in a list of groups. -/
def loopsOf (gs : List (L × List L)) : List L := gs.flatMap (fun g => g.1 :: g.2)

theorem cover_nil (mem : L → Bool) : cover mem ([] : List (L × List L)) = 0 := rfl

theorem cover_cons (mem : L → Bool) (g : L × List L) (gs : List (L × List L)) :
    cover mem (g :: gs) = (if inRegion mem g = true then 1 else 0) + cover mem gs := by
  unfold cover
  by_cases h : inRegion mem g = true
  · simp [h]; omega
  · simp [h]

theorem loopsOf_cons (g : L × List L) (gs : List (L × List L)) :
    loopsOf (g :: gs) = (g.1 :: g.2) ++ loopsOf gs := by
  simp [loopsOf]

/-- The grouping loop started from the empty list of groups. -/
theorem groupWith_eq_foldl (test : L × List L → L → Bool) (polys : List L) :
    groupWith test polys = polys.foldl (placeLoop test) [] := by
  cases polys with
  | nil => rfl
  | cons p ps => simp [groupWith, placeLoop]

/-- Placing a loop only adds that loop to the stored loops. -/
theorem loopsOf_placeLoop (test : L × List L → L → Bool) (gs : List (L × List L)) (s : L) :
    ∀ l ∈ loopsOf (placeLoop test gs s), l = s ∨ l ∈ loopsOf gs := by
  induction gs with
  | nil =>
    intro l hl
    simp [placeLoop, loopsOf] at hl
    exact Or.inl hl
  | cons g gs ih =>
    intro l hl
    unfold placeLoop at hl
    split_ifs at hl with ht
    · rw [loopsOf_cons] at hl ⊢
      simp only [List.mem_append, List.mem_cons] at hl ⊢
      rcases hl with (h | h) | h
      · exact Or.inr (Or.inl (Or.inl h))
      · rcases h with h | h
        · exact Or.inr (Or.inl (Or.inr h))
        · simp at h; exact Or.inl h
      · exact Or.inr (Or.inr h)
    · rw [loopsOf_cons] at hl ⊢
      simp only [List.mem_append] at hl ⊢
      rcases hl with h | h
      · exact Or.inr (Or.inl h)
      · rcases ih l h with h' | h'
        · exact Or.inl h'
        · exact Or.inr (Or.inr h')

/-- A loop not containing the point does not change which groups cover the point. -/
theorem cover_placeLoop_of_not_mem (test : L × List L → L → Bool) (mem : L → Bool)
    (gs : List (L × List L)) (s : L) (hs : mem s = false) :
    cover mem (placeLoop test gs s) = cover mem gs := by
  induction gs with
  | nil => simp [placeLoop, cover, inRegion, hs]
  | cons g gs ih =>
    unfold placeLoop
    split_ifs with ht
    · rw [cover_cons, cover_cons]
      have : inRegion mem (g.1, g.2 ++ [s]) = inRegion mem g := by
        simp [inRegion, List.any_append, hs]
      rw [this]
    · rw [cover_cons, cover_cons, ih]

/-- For a loop `s` containing the point, when every stored loop containing the point contains
`s`: a group covers the point exactly when it would take `s` as a hole. -/
theorem inRegion_eq_isHoleOf (inside : L → L → Bool) (mem : L → Bool)
    (hnest : ∀ a b, inside a b = true → mem b = true → mem a = true)
    (g : L × List L) (s : L) (hs : mem s = true)
    (hord : ∀ l ∈ g.1 :: g.2, mem l = true → inside l s = true) :
    inRegion mem g = isHoleOf inside g s := by
  unfold inRegion isHoleOf
  by_cases ht : (inside g.1 s && !(g.2.any (fun h => inside h s))) = true
  · rw [ht]
    simp only [Bool.and_eq_true, Bool.not_eq_true', List.any_eq_false] at ht ⊢
    refine ⟨hnest _ _ ht.1 hs, ?_⟩
    intro h hh hm
    exact ht.2 h hh (hord h (List.mem_cons_of_mem _ hh) hm)
  · have ht' : (inside g.1 s && !(g.2.any (fun h => inside h s))) = false := by
      simpa using ht
    rw [ht']
    by_contra hc
    have hc' : (mem g.1 && !(g.2.any mem)) = true := by simpa using hc
    simp only [Bool.and_eq_true, Bool.not_eq_true', List.any_eq_false] at hc'
    have h1 : inside g.1 s = true := hord g.1 List.mem_cons_self hc'.1
    rw [h1, Bool.true_and] at ht'
    simp only [Bool.not_eq_false', List.any_eq_true] at ht'
    obtain ⟨h, hh, hin⟩ := ht'
    exact hc'.2 h hh (hnest h s hin hs)

/-- Placing a loop that contains the point flips the covering: from none to one (new group), or
removes one covering group (the group that takes it as a hole). -/
theorem cover_placeLoop_of_mem (inside : L → L → Bool) (mem : L → Bool)
    (hnest : ∀ a b, inside a b = true → mem b = true → mem a = true)
    (gs : List (L × List L)) (s : L) (hs : mem s = true)
    (hord : ∀ l ∈ loopsOf gs, mem l = true → inside l s = true) :
    cover mem (placeLoop (isHoleOf inside) gs s) =
      if cover mem gs = 0 then 1 else cover mem gs - 1 := by
  induction gs with
  | nil => simp [placeLoop, cover, inRegion, hs]
  | cons g gs ih =>
    have hg : inRegion mem g = isHoleOf inside g s :=
      inRegion_eq_isHoleOf inside mem hnest g s hs (fun l hl hm =>
        hord l (by rw [loopsOf_cons]; exact List.mem_append_left _ hl) hm)
    have ih' := ih (fun l hl hm =>
      hord l (by rw [loopsOf_cons]; exact List.mem_append_right _ hl) hm)
    by_cases ht : isHoleOf inside g s = true
    · have hp : placeLoop (isHoleOf inside) (g :: gs) s = (g.1, g.2 ++ [s]) :: gs := by
        simp [placeLoop, ht]
      have h1 : inRegion mem g = true := by rw [hg]; exact ht
      have h2 : inRegion mem (g.1, g.2 ++ [s]) = false := by
        simp [inRegion, List.any_append, hs]
      rw [hp, cover_cons, cover_cons, h1, h2]
      simp
    · have hp : placeLoop (isHoleOf inside) (g :: gs) s =
          g :: placeLoop (isHoleOf inside) gs s := by
        simp [placeLoop, ht]
      have h1 : inRegion mem g = false := by rw [hg]; simpa using ht
      rw [hp, cover_cons, cover_cons, h1, ih']
      simp

/-- **Parity invariant of the grouping loop** (general state). -/
theorem cover_foldl (inside : L → L → Bool) (mem : L → Bool)
    (hnest : ∀ a b, inside a b = true → mem b = true → mem a = true)
    (rest : List L) (gs : List (L × List L)) (n : ℕ)
    (hgs : ∀ l ∈ loopsOf gs, ∀ s ∈ rest, mem l = true → mem s = true → inside l s = true)
    (hrest : rest.Pairwise (fun a b => mem a = true → mem b = true → inside a b = true))
    (hinv : cover mem gs = n % 2) :
    cover mem (rest.foldl (placeLoop (isHoleOf inside)) gs) =
      (n + rest.countP (fun l => mem l)) % 2 := by
  induction rest generalizing gs n with
  | nil => simpa using hinv
  | cons s rest ih =>
    rw [List.foldl_cons]
    rw [List.pairwise_cons] at hrest
    have hgs' : ∀ l ∈ loopsOf (placeLoop (isHoleOf inside) gs s), ∀ t ∈ rest,
        mem l = true → mem t = true → inside l t = true := by
      intro l hl t ht hml hmt
      rcases loopsOf_placeLoop _ gs s l hl with rfl | h
      · exact hrest.1 t ht hml hmt
      · exact hgs l h t (List.mem_cons_of_mem _ ht) hml hmt
    by_cases hs : mem s = true
    · have hstep := cover_placeLoop_of_mem inside mem hnest gs s hs
        (fun l hl hm => hgs l hl s List.mem_cons_self hm hs)
      have hinv' : cover mem (placeLoop (isHoleOf inside) gs s) = (n + 1) % 2 := by
        rw [hstep, hinv]
        have : n % 2 = 0 ∨ n % 2 = 1 := by omega
        rcases this with h | h <;> simp [h] <;> omega
      rw [ih _ (n + 1) hgs' hrest.2 hinv', List.countP_cons_of_pos (by simpa using hs)]
      congr 1; omega
    · have hs' : mem s = false := by simpa using hs
      have hstep := cover_placeLoop_of_not_mem (isHoleOf inside) mem gs s hs'
      rw [ih _ n hgs' hrest.2 (by rw [hstep, hinv]),
        List.countP_cons_of_neg (by simpa using hs')]

end Lbg.Lemmas
