/-
  Lemmas.Isect3 — closed-form models of the 3D intersection kernels
  (`intersect_line3d_plane_*`, `intersect_line3d_sphere_*`) with their properties, and
  algebraic identities (Lagrange, quadratic roots) used by `Props/C11.lean`.
-/
import LbgVerif.Gen.Isect3
import LbgVerif.Lemmas.Isect2
import Mathlib.Tactic.Ring
import Mathlib.Tactic.FieldSimp
import Mathlib.Tactic.Linarith
import Mathlib.Tactic.Positivity
import Mathlib.Tactic.SplitIfs
import Mathlib.Tactic.LinearCombination
import Mathlib.Tactic.NormNum

set_option linter.unusedSectionVars false
set_option linter.unusedSimpArgs false

namespace Lbg.Lemmas
open Lbg Lbg.Gen
variable {α : Type} [Field α] [LinearOrder α] [IsStrictOrderedRing α]

/-- The point `l.p + t·l.v`. -/
def at3 (l : LR3 α) (t : α) : V3 α :=
  ⟨l.p.x + t * l.v.x, l.p.y + t * l.v.y, l.p.z + t * l.v.z⟩

/-- `q` lies on the 3D operand `l` read with range kind `k`. -/
def Rng.On3 : Rng → LR3 α → V3 α → Prop
  | .seg, l, q => ∃ t, 0 ≤ t ∧ t ≤ 1 ∧
      (q.x = l.p.x + t * l.v.x ∧ q.y = l.p.y + t * l.v.y ∧ q.z = l.p.z + t * l.v.z)
  | .ray, l, q => ∃ t, 0 ≤ t ∧
      (q.x = l.p.x + t * l.v.x ∧ q.y = l.p.y + t * l.v.y ∧ q.z = l.p.z + t * l.v.z)
  | .line, l, q => ∃ t,
      (q.x = l.p.x + t * l.v.x ∧ q.y = l.p.y + t * l.v.y ∧ q.z = l.p.z + t * l.v.z)

theorem Rng.On3_iff (k : Rng) (l : LR3 α) (q : V3 α) :
    k.On3 l q ↔ ∃ t, k.ok t ∧ q = at3 l t := by
  cases k <;> simp [Rng.On3, Rng.ok, at3, V3.ext'_iff, and_assoc]

/-- `n · v`, the quantity the line/plane kernels guard on. -/
def nv (l : LR3 α) (pl : PlaneS α) : α := pl.n.x * l.v.x + pl.n.y * l.v.y + pl.n.z * l.v.z
/-- The line parameter of the crossing with the plane. -/
def upl (l : LR3 α) (pl : PlaneS α) : α :=
  (pl.k - (pl.n.x * l.p.x + pl.n.y * l.p.y + pl.n.z * l.p.z)) /
    (pl.n.x * l.v.x + pl.n.y * l.v.y + pl.n.z * l.v.z)

/-- Model of `intersect_line3d_plane_*`. -/
def isectLP (k : Rng) (l : LR3 α) (pl : PlaneS α) : Option (V3 α) :=
  if nv l pl = 0 then none else if k.ok (upl l pl) then some (at3 l (upl l pl)) else none

theorem at3_on_plane_iff (l : LR3 α) (pl : PlaneS α) (hd : nv l pl ≠ 0) (t : α) :
    pl.n.x * (at3 l t).x + pl.n.y * (at3 l t).y + pl.n.z * (at3 l t).z = pl.k ↔
      t = upl l pl := by
  simp only [nv] at hd
  simp only [at3, upl]
  rw [eq_div_iff hd]
  constructor <;> intro h <;> linear_combination h

theorem isectLP_eq_some_iff (k : Rng) (l : LR3 α) (pl : PlaneS α) (q : V3 α) :
    isectLP k l pl = some q ↔
      nv l pl ≠ 0 ∧ k.On3 l q ∧ pl.n.x * q.x + pl.n.y * q.y + pl.n.z * q.z = pl.k := by
  rw [Rng.On3_iff]
  unfold isectLP
  split_ifs with h1 h2
  · simp [h1]
  · constructor
    · intro h
      simp only [Option.some.injEq] at h
      subst h
      exact ⟨h1, ⟨_, h2, rfl⟩, (at3_on_plane_iff l pl h1 _).mpr rfl⟩
    · rintro ⟨_, ⟨t, ht, rfl⟩, hq⟩
      rw [(at3_on_plane_iff l pl h1 t).mp hq]
  · constructor
    · intro h; exact absurd h (by simp)
    · rintro ⟨_, ⟨t, ht, rfl⟩, hq⟩
      rw [(at3_on_plane_iff l pl h1 t).mp hq] at ht
      exact absurd ht h2

theorem isectLP_isSome_iff (k : Rng) (l : LR3 α) (pl : PlaneS α) :
    (isectLP k l pl).isSome = true ↔ nv l pl ≠ 0 ∧ k.ok (upl l pl) := by
  unfold isectLP
  split_ifs with h1 h2 <;> simp_all

theorem intersect_line3d_plane_s_eq (l : LR3 α) (pl : PlaneS α) :
    intersect_line3d_plane_s l pl = isectLP .seg l pl := by
  unfold intersect_line3d_plane_s isectLP
  simp only [nv, upl, at3, Rng.ok]
  split_ifs <;> simp_all [not_le_of_gt]

theorem intersect_line3d_plane_r_eq (l : LR3 α) (pl : PlaneS α) :
    intersect_line3d_plane_r l pl = isectLP .ray l pl := by
  unfold intersect_line3d_plane_r isectLP
  simp only [nv, upl, at3, Rng.ok]
  split_ifs <;> simp_all [not_le_of_gt]

theorem intersect_line3d_plane_infinite_s_eq (l : LR3 α) (pl : PlaneS α) :
    intersect_line3d_plane_infinite_s l pl = isectLP .line l pl := by
  unfold intersect_line3d_plane_infinite_s isectLP
  simp only [nv, upl, at3, Rng.ok]
  split_ifs <;> simp_all [not_le_of_gt]

theorem intersect_line3d_plane_infinite_r_eq (l : LR3 α) (pl : PlaneS α) :
    intersect_line3d_plane_infinite_r l pl = isectLP .line l pl := by
  unfold intersect_line3d_plane_infinite_r isectLP
  simp only [nv, upl, at3, Rng.ok]
  split_ifs <;> simp_all [not_le_of_gt]

/-! ### Lagrange identity and sums of squares -/

theorem lagrange3 (a b : V3 α) :
    V3.normSq a * V3.normSq b - V3.dot a b * V3.dot a b = V3.normSq (V3.cross a b) := by
  simp only [V3.normSq, V3.dot, V3.cross]; ring

theorem normSq3_nonneg (a : V3 α) : 0 ≤ V3.normSq a := by
  simp only [V3.normSq]
  nlinarith [mul_self_nonneg a.x, mul_self_nonneg a.y, mul_self_nonneg a.z]

theorem normSq3_eq_zero_iff (a : V3 α) : V3.normSq a = 0 ↔ a.x = 0 ∧ a.y = 0 ∧ a.z = 0 := by
  simp only [V3.normSq]
  constructor
  · intro h
    have hx := mul_self_nonneg a.x
    have hy := mul_self_nonneg a.y
    have hz := mul_self_nonneg a.z
    refine ⟨?_, ?_, ?_⟩ <;> apply mul_self_eq_zero.mp <;> linarith
  · rintro ⟨h1, h2, h3⟩; rw [h1, h2, h3]; ring

/-- Cauchy–Schwarz in 3D. -/
theorem cauchy3 (a b : V3 α) : V3.dot a b * V3.dot a b ≤ V3.normSq a * V3.normSq b := by
  have := normSq3_nonneg (V3.cross a b)
  rw [← lagrange3] at this
  linarith

/-! ### Quadratic roots -/

/-- With `s² = b² − 4ac` and `a ≠ 0`, `t` is a root of `a t² + b t + c` iff it is one of the two
closed-form roots. -/
theorem quadratic_root_iff (a b c s t : α) (ha : a ≠ 0) (hs : s * s = b * b - 4 * a * c) :
    a * (t * t) + b * t + c = 0 ↔ t = (-b + s) / (2 * a) ∨ t = (-b - s) / (2 * a) := by
  have h2a : (2 : α) * a ≠ 0 := mul_ne_zero two_ne_zero ha
  rw [eq_div_iff h2a, eq_div_iff h2a]
  constructor
  · intro h
    have : (t * (2 * a) - (-b + s)) * (t * (2 * a) - (-b - s)) = 0 := by
      linear_combination (4 * a) * h - hs
    rcases mul_eq_zero.mp this with h' | h'
    · left; linear_combination h'
    · right; linear_combination h'
  · intro h
    have : (t * (2 * a) - (-b + s)) * (t * (2 * a) - (-b - s)) = 0 := by
      rcases h with h | h
      · rw [h]; ring
      · rw [h]; ring
    have h4 : (4 * a) * (a * (t * t) + b * t + c) = 0 := by
      linear_combination this + hs
    rcases mul_eq_zero.mp h4 with h' | h'
    · exact absurd h' (mul_ne_zero four_ne_zero ha)
    · exact h'


/-! ### Line / sphere -/

/-- The clamping the sphere kernels apply to an out-of-range root. -/
def Rng.clamp : Rng → α → α
  | .seg, u => max (min u 1) 0
  | .ray, u => max u 0
  | .line, u => u

theorem Rng.clamp_ok (k : Rng) (u : α) : k.ok (k.clamp u) := by
  cases k
  · exact ⟨le_max_right _ _, max_le (min_le_right _ _) zero_le_one⟩
  · exact le_max_right _ _
  · trivial

theorem Rng.clamp_of_ok (k : Rng) (u : α) (h : k.ok u) : k.clamp u = u := by
  cases k
  · obtain ⟨h0, h1⟩ := h
    simp only [Rng.clamp]; rw [min_eq_left h1, max_eq_left h0]
  · simp only [Rng.clamp]; exact max_eq_left h
  · rfl

/-- An out-of-range parameter is clamped to an end point of the range. -/
theorem Rng.clamp_of_not_ok (k : Rng) (u : α) (h : ¬ k.ok u) :
    k.clamp u = 0 ∨ (k = .seg ∧ k.clamp u = 1) := by
  cases k
  · simp only [Rng.ok, not_and_or, not_le] at h
    rcases h with h | h
    · left; simp only [Rng.clamp]
      rw [min_eq_left (le_trans h.le zero_le_one), max_eq_right h.le]
    · right; refine ⟨rfl, ?_⟩; simp only [Rng.clamp]
      rw [min_eq_right h.le, max_eq_left zero_le_one]
  · left; simp only [Rng.ok, not_le] at h
    simp only [Rng.clamp]; exact max_eq_right h.le
  · exact absurd trivial h

theorem clamp_if_seg (u : α) :
    (if ¬ ((¬ (u < 0)) ∧ (¬ (1 < u))) then max (min u 1) 0 else u) = max (min u 1) 0 := by
  by_cases h : (¬ (u < 0)) ∧ (¬ (1 < u))
  · rw [if_neg (not_not.mpr h), min_eq_left (not_lt.mp h.2), max_eq_left (not_lt.mp h.1)]
  · rw [if_pos h]

theorem clamp_if_ray (u : α) :
    (if u < 0 then max (min u 1) 0 else u) = max u 0 := by
  split_ifs with h
  · rw [min_eq_left (le_trans h.le zero_le_one)]
  · rw [max_eq_left (not_lt.mp h)]

/-! ### Plane / plane -/

/-- The point `c₁ n_a + c₂ n_b` built by `intersect_plane_plane` satisfies the first plane
equation (in Gram-matrix form). -/
theorem plane_plane_pt1 (na nb : V3 α) (ka kb : α)
    (h : V3.normSq na * V3.normSq nb - V3.dot na nb * V3.dot na nb ≠ 0) :
    (ka * V3.normSq nb - kb * V3.dot na nb)
        / (V3.normSq na * V3.normSq nb - V3.dot na nb * V3.dot na nb) * V3.normSq na
      + (kb * V3.normSq na - ka * V3.dot na nb)
        / (V3.normSq na * V3.normSq nb - V3.dot na nb * V3.dot na nb) * V3.dot na nb = ka := by
  rw [div_mul_eq_mul_div, div_mul_eq_mul_div, ← add_div, div_eq_iff h]
  ring

/-- … and the second plane equation. -/
theorem plane_plane_pt2 (na nb : V3 α) (ka kb : α)
    (h : V3.normSq na * V3.normSq nb - V3.dot na nb * V3.dot na nb ≠ 0) :
    (ka * V3.normSq nb - kb * V3.dot na nb)
        / (V3.normSq na * V3.normSq nb - V3.dot na nb * V3.dot na nb) * V3.dot na nb
      + (kb * V3.normSq na - ka * V3.dot na nb)
        / (V3.normSq na * V3.normSq nb - V3.dot na nb * V3.dot na nb) * V3.normSq nb = kb := by
  rw [div_mul_eq_mul_div, div_mul_eq_mul_div, ← add_div, div_eq_iff h]
  ring


/-! ### Plane / sphere -/

/-- Algebra behind `intersect_plane_sphere`: with `s = |n| ≠ 0`, `n̂ = n/s` is a unit vector
parallel to `n`, and the foot `c + ((o − c)·n̂) n̂` of the sphere centre lies in the plane
through `o` with normal `n`. -/
theorem plane_sphere_algebra (n o c : V3 α) (s : α) (hs : s * s = V3.normSq n) (hs0 : s ≠ 0) :
    (n.x / s) * (n.x / s) + (n.y / s) * (n.y / s) + (n.z / s) * (n.z / s) = 1 ∧
    n.x * (c.x + (n.x / s) *
        ((o.x - c.x) * (n.x / s) + (o.y - c.y) * (n.y / s) + (o.z - c.z) * (n.z / s)) - o.x)
      + n.y * (c.y + (n.y / s) *
        ((o.x - c.x) * (n.x / s) + (o.y - c.y) * (n.y / s) + (o.z - c.z) * (n.z / s)) - o.y)
      + n.z * (c.z + (n.z / s) *
        ((o.x - c.x) * (n.x / s) + (o.y - c.y) * (n.y / s) + (o.z - c.z) * (n.z / s)) - o.z)
      = 0 := by
  simp only [V3.normSq] at hs
  constructor
  · field_simp
    linear_combination -hs
  · field_simp
    linear_combination (-((o.x - c.x) * n.x + (o.y - c.y) * n.y + (o.z - c.z) * n.z)) * hs


/-- The normalised plane normal computed by `intersect_plane_sphere` (case `|n| ≠ 0`). -/
def psN (M : MathOps α) (pl : PlaneS α) : V3 α :=
  ⟨pl.n.x / M.sqrt (pl.n.x * pl.n.x + pl.n.y * pl.n.y + pl.n.z * pl.n.z),
   pl.n.y / M.sqrt (pl.n.x * pl.n.x + pl.n.y * pl.n.y + pl.n.z * pl.n.z),
   pl.n.z / M.sqrt (pl.n.x * pl.n.x + pl.n.y * pl.n.y + pl.n.z * pl.n.z)⟩
/-- Signed distance from the sphere centre to the plane, `(o − c)·n̂`. -/
def psD (M : MathOps α) (pl : PlaneS α) (sp : SphereS α) : α :=
  (pl.o.x - sp.center.x) * (psN M pl).x + (pl.o.y - sp.center.y) * (psN M pl).y
    + (pl.o.z - sp.center.z) * (psN M pl).z
/-- Foot of the sphere centre on the plane, `c + d·n̂`. -/
def psC (M : MathOps α) (pl : PlaneS α) (sp : SphereS α) : V3 α :=
  ⟨sp.center.x + (psN M pl).x * psD M pl sp, sp.center.y + (psN M pl).y * psD M pl sp,
   sp.center.z + (psN M pl).z * psD M pl sp⟩

/-- Normal form of `intersect_plane_sphere` when `|pl.n| ≠ 0`. -/
theorem intersect_plane_sphere_eq (M : MathOps α) (pl : PlaneS α) (sp : SphereS α)
    (hs0 : M.sqrt (V3.normSq pl.n) ≠ 0) :
    intersect_plane_sphere M pl sp =
      if |sp.radius| < |psD M pl sp| then none
      else if M.sqrt (sp.radius * sp.radius - psD M pl sp * psD M pl sp) = 0 then
        some (Sum.inr (psC M pl sp))
      else some (Sum.inl (psC M pl sp, psN M pl,
        M.sqrt (sp.radius * sp.radius - psD M pl sp * psD M pl sp))) := by
  simp only [V3.normSq] at hs0
  unfold intersect_plane_sphere
  simp only [hs0, ↓reduceIte, psC, psD, psN]
  rfl

theorem psN_facts (M : MathOps α) (pl : PlaneS α) (sp : SphereS α)
    (hs : M.sqrt (V3.normSq pl.n) * M.sqrt (V3.normSq pl.n) = V3.normSq pl.n)
    (hs0 : M.sqrt (V3.normSq pl.n) ≠ 0) :
    V3.normSq (psN M pl) = 1 ∧ pl.n = V3.smul (M.sqrt (V3.normSq pl.n)) (psN M pl) ∧
      V3.dot pl.n (V3.sub (psC M pl sp) pl.o) = 0 := by
  obtain ⟨a1, a2⟩ := plane_sphere_algebra pl.n pl.o sp.center _ hs hs0
  simp only [V3.normSq] at hs0 a1 a2 ⊢
  refine ⟨?_, ?_, ?_⟩
  · simp only [psN]; linear_combination a1
  · simp only [V3.smul, psN]
    ext <;> simp only [] <;> rw [← mul_div_assoc, mul_div_cancel_left₀ _ hs0]
  · simp only [V3.dot, V3.sub, psC, psD, psN]; linear_combination a2

/-- `|x| < |y| → x² < y²`. -/
theorem mul_self_lt_of_abs_lt (x y : α) (h : |x| < |y|) : x * x < y * y := by
  have := mul_self_lt_mul_self (abs_nonneg x) h
  rwa [abs_mul_abs_self, abs_mul_abs_self] at this

/-- `¬ |x| < |y| → y² ≤ x²`. -/
theorem mul_self_le_of_not_abs_lt (x y : α) (h : ¬ |x| < |y|) : y * y ≤ x * x := by
  have := mul_self_le_mul_self (abs_nonneg y) (not_lt.mp h)
  rwa [abs_mul_abs_self, abs_mul_abs_self] at this

end Lbg.Lemmas
