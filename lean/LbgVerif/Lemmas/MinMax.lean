/-
  Lemmas.MinMax — the vertex min/max scan of `_calculate_min_max`
  (`Base2DIn2D`, `Base2DIn3D`, `Face3D`, `Mesh2D`, `Mesh3D`, `Polyline`), modelled literally:

      mn = mx = v[0]
      for v in vs[1:]:
          if v < mn: mn = v
          elif v > mx: mx = v          # NOTE the `elif`

  The `elif` looks suspicious (a value below `mn` is never compared with `mx`) but is
  harmless because `mn ≤ mx` is an invariant.  Proved for every list (induction), over any
  linear order: `mn ≤ mx`, every element lies in `[mn, mx]`, both bounds are elements.
-/
import Mathlib.Order.Basic
import Mathlib.Order.Lattice
import Mathlib.Data.List.Basic

namespace Lbg.Lemmas

variable {β : Type} [LinearOrder β]

/-- One iteration of the scan loop body for one coordinate. -/
def scanStep (acc : β × β) (v : β) : β × β :=
  if v < acc.1 then (v, acc.2) else if acc.2 < v then (acc.1, v) else acc

/-- The scan: start from `(v0, v0)` and fold the loop body over the remaining values. -/
def scan (v0 : β) (rest : List β) : β × β := rest.foldl scanStep (v0, v0)

/-- Loop invariant of the scan, for an arbitrary accumulator: if `acc` is a pair of elements
of `seen` that bounds `seen`, the result bounds `seen ++ rest` and consists of elements of it. -/
theorem scan_aux (rest : List β) : ∀ (acc : β × β) (seen : List β),
    acc.1 ≤ acc.2 → (∀ v ∈ seen, acc.1 ≤ v ∧ v ≤ acc.2) → acc.1 ∈ seen → acc.2 ∈ seen →
    (rest.foldl scanStep acc).1 ≤ (rest.foldl scanStep acc).2 ∧
    (∀ v ∈ seen ++ rest, (rest.foldl scanStep acc).1 ≤ v ∧ v ≤ (rest.foldl scanStep acc).2) ∧
    (rest.foldl scanStep acc).1 ∈ seen ++ rest ∧ (rest.foldl scanStep acc).2 ∈ seen ++ rest := by
  induction rest with
  | nil =>
    intro acc seen h1 h2 h3 h4
    simpa using ⟨h1, h2, h3, h4⟩
  | cons v t ih =>
    intro acc seen h1 h2 h3 h4
    have e : seen ++ v :: t = (seen ++ [v]) ++ t := by simp
    rw [List.foldl_cons, e]
    apply ih (scanStep acc v) (seen ++ [v])
    · unfold scanStep
      split_ifs with ha hb
      · exact (lt_of_lt_of_le ha h1).le
      · exact (lt_of_le_of_lt h1 hb).le
      · exact h1
    · intro w hw
      rcases List.mem_append.mp hw with hw | hw
      · obtain ⟨l, u⟩ := h2 w hw
        unfold scanStep
        split_ifs with ha hb
        · exact ⟨(lt_of_lt_of_le ha l).le, u⟩
        · exact ⟨l, (lt_of_le_of_lt u hb).le⟩
        · exact ⟨l, u⟩
      · have : w = v := by simpa using hw
        subst this
        unfold scanStep
        split_ifs with ha hb
        · exact ⟨le_refl _, (lt_of_lt_of_le ha h1).le⟩
        · exact ⟨(lt_of_le_of_lt h1 hb).le, le_refl _⟩
        · exact ⟨not_lt.mp ha, not_lt.mp hb⟩
    · unfold scanStep
      split_ifs <;> simp [h3]
    · unfold scanStep
      split_ifs <;> simp [h4]

/-- `scan_min_max`: for every non-empty list `v0 :: rest` the scan returns `(mn, mx)` with
`mn ≤ mx`, every element within `[mn, mx]`, and both `mn` and `mx` elements of the list. -/
theorem scan_spec (v0 : β) (rest : List β) :
    (scan v0 rest).1 ≤ (scan v0 rest).2 ∧
    (∀ v ∈ v0 :: rest, (scan v0 rest).1 ≤ v ∧ v ≤ (scan v0 rest).2) ∧
    (scan v0 rest).1 ∈ v0 :: rest ∧ (scan v0 rest).2 ∈ v0 :: rest := by
  have := scan_aux rest (v0, v0) [v0] (le_refl _) (by simp) (by simp) (by simp)
  simpa [scan] using this

/-- The scan result is the true minimum / maximum: any pair `(lo, hi)` that bounds the list
satisfies `lo ≤ mn` and `mx ≤ hi` (the box is the tightest one). -/
theorem scan_tight (v0 : β) (rest : List β) (lo hi : β)
    (h : ∀ v ∈ v0 :: rest, lo ≤ v ∧ v ≤ hi) :
    lo ≤ (scan v0 rest).1 ∧ (scan v0 rest).2 ≤ hi := by
  obtain ⟨_, _, h3, h4⟩ := scan_spec v0 rest
  exact ⟨(h _ h3).1, (h _ h4).2⟩

/-- A fold whose body updates two independent components is the pair of the component folds
(used to split the per-vertex loop into one scan per coordinate). -/
theorem foldl_prod {γ σ τ : Type} (f : σ → γ → σ) (g : τ → γ → τ) (l : List γ) (a : σ) (b : τ) :
    l.foldl (fun (st : σ × τ) v => (f st.1 v, g st.2 v)) (a, b) = (l.foldl f a, l.foldl g b) := by
  induction l generalizing a b with
  | nil => rfl
  | cons v t ih => simp only [List.foldl_cons, ih]

/-- Folding over a mapped list. -/
theorem foldl_scan_map {γ : Type} (p : γ → β) (l : List γ) (acc : β × β) :
    l.foldl (fun st v => scanStep st (p v)) acc = (l.map p).foldl scanStep acc := by
  rw [List.foldl_map]

end Lbg.Lemmas
