/-
  Lemmas.MeshCache3 — the generated `Mesh3D` normal/area kernels under translations and
  uniform scalings (consumed by the Mesh3D part of Props/C03b).
-/
import LbgVerif.Model.MeshCache3
import LbgVerif.Lemmas.MeshKernels
import LbgVerif.Lemmas.Isometry
import LbgVerif.Lemmas.Measure
import Mathlib.Tactic.Ring
import Mathlib.Tactic.FieldSimp
import Mathlib.Tactic.Linarith
import Mathlib.Tactic.Positivity

set_option linter.unusedSectionVars false

namespace Lbg.Lemmas
open Lbg Lbg.Gen Lbg.Model.MeshCache Lbg.Model.MeshCache3
variable {α : Type} [Field α] [LinearOrder α] [IsStrictOrderedRing α]

/-- Face vertices after mapping every mesh vertex (valid indices). -/
theorem faceVerts3_map (g : V3 α → V3 α) (vs : List (V3 α)) (f : List Nat)
    (hf : ∀ i ∈ f, i < vs.length) : faceVerts3 (vs.map g) f = (faceVerts3 vs f).map g := by
  unfold faceVerts3
  rw [List.map_map]
  apply List.map_congr_left
  intro i hi
  have := hf i hi
  simp [List.getD_eq_getElem?_getD, this]

/-- Cross product of two vectors scaled by `k`. -/
theorem cross_smul_smul (k : α) (u w : V3 α) :
    V3.cross (V3.smul k u) (V3.smul k w) = V3.smul (k * k) (V3.cross u w) := by
  apply V3.ext' <;> simp only [V3.cross, V3.smul] <;> ring

/-- `mid3` commutes with scaling. -/
theorem mid3_smul_smul (c : α) (u w : V3 α) :
    mid3 (V3.smul c u) (V3.smul c w) = V3.smul c (mid3 u w) := by
  apply V3.ext' <;> simp only [mid3, V3.smul] <;> ring

/-- Length of a vector scaled by `c ≥ 0`. -/
theorem sqrt_normSq_smul (M : MathOps α)
    (hsqrt : ∀ x, 0 ≤ x → M.sqrt x * M.sqrt x = x ∧ 0 ≤ M.sqrt x) (c : α) (hc : 0 ≤ c)
    (n : V3 α) : M.sqrt (V3.normSq (V3.smul c n)) = c * M.sqrt (V3.normSq n) :=
  sqrt_scale M hsqrt hc (v3_normSq_nonneg n) (by simp only [V3.normSq, V3.smul]; ring)

/-- `normalize` ignores a positive scalar factor. -/
theorem v3_normalize_smul_pos (M : MathOps α)
    (hsqrt : ∀ x, 0 ≤ x → M.sqrt x * M.sqrt x = x ∧ 0 ≤ M.sqrt x) (c : α) (hc : 0 < c)
    (n : V3 α) : v3_normalize M (V3.smul c n) = v3_normalize M n := by
  have hs := sqrt_normSq_smul M hsqrt c hc.le n
  have hs' : M.sqrt (c * n.x * (c * n.x) + c * n.y * (c * n.y) + c * n.z * (c * n.z)) =
      c * M.sqrt (n.x * n.x + n.y * n.y + n.z * n.z) := hs
  unfold v3_normalize
  simp only [V3.smul, hs']
  by_cases hd : M.sqrt (n.x * n.x + n.y * n.y + n.z * n.z) = 0
  · have h0 : V3.normSq n = 0 := (sqrt_eq_zero_iff' M hsqrt _ (v3_normSq_nonneg n)).mp hd
    simp only [V3.normSq] at h0
    have hx : n.x = 0 := mul_self_eq_zero.mp (by nlinarith [mul_self_nonneg n.x, mul_self_nonneg n.y, mul_self_nonneg n.z])
    have hy : n.y = 0 := mul_self_eq_zero.mp (by nlinarith [mul_self_nonneg n.x, mul_self_nonneg n.y, mul_self_nonneg n.z])
    have hz : n.z = 0 := mul_self_eq_zero.mp (by nlinarith [mul_self_nonneg n.x, mul_self_nonneg n.y, mul_self_nonneg n.z])
    simp [hx, hy, hz]
  · have hcd : c * M.sqrt (n.x * n.x + n.y * n.y + n.z * n.z) ≠ 0 := mul_ne_zero hc.ne' hd
    simp only [if_neg hd, if_neg hcd]
    apply V3.ext' <;> simp only [] <;> field_simp

/-- Translations do not change a face's normal or area (the kernels only use edge
vectors). -/
theorem faceNA_move (M : MathOps α) (v : V3 α) (pts : List (V3 α)) :
    faceNA M (pts.map (ptMove3 v)) = faceNA M pts := by
  have hsub : ∀ p q : V3 α, V3.sub (ptMove3 v p) (ptMove3 v q) = V3.sub p q := by
    intro p q; apply V3.ext' <;> simp only [V3.sub, ptMove3] <;> ring
  match pts with
  | [] => rfl
  | [_] => rfl
  | [_, _] => rfl
  | [a, b, c] =>
    simp only [List.map_cons, List.map_nil, faceNA]
    rw [mesh3d_normal_area_tri_cross, mesh3d_normal_area_tri_cross, hsub, hsub]
  | [a, b, c, d] =>
    simp only [List.map_cons, List.map_nil, faceNA]
    rw [mesh3d_normal_area_quad_cross, mesh3d_normal_area_quad_cross, hsub, hsub, hsub, hsub]
  | _ :: _ :: _ :: _ :: _ :: _ => rfl

/-- A vertex map whose edge vectors are `k ×` the old ones (`k ≠ 0`): every face keeps its
normal (also for `k < 0`: a point reflection maps both edge vectors, `(−u) × (−w) = u × w`)
and its area is multiplied by `k²`. -/
theorem faceNA_of_edges_scaled (M : MathOps α)
    (hsqrt : ∀ x, 0 ≤ x → M.sqrt x * M.sqrt x = x ∧ 0 ≤ M.sqrt x) (k : α) (hk : k ≠ 0)
    (g : V3 α → V3 α) (hsub : ∀ p q, V3.sub (g p) (g q) = V3.smul k (V3.sub p q))
    (pts : List (V3 α)) :
    faceNA M (pts.map g) = ((faceNA M pts).1, (faceNA M pts).2 * k ^ 2) := by
  have hkk : 0 < k * k := mul_self_pos.mpr hk
  match pts with
  | [] => simp [faceNA]
  | [_] => simp [faceNA]
  | [_, _] => simp [faceNA]
  | [a, b, c] =>
    simp only [List.map_cons, List.map_nil, faceNA]
    rw [mesh3d_normal_area_tri_cross, mesh3d_normal_area_tri_cross, hsub, hsub,
      cross_smul_smul, v3_normalize_smul_pos M hsqrt _ hkk,
      sqrt_normSq_smul M hsqrt _ hkk.le]
    simp only [Prod.mk.injEq, true_and]; ring
  | [a, b, c, d] =>
    simp only [List.map_cons, List.map_nil, faceNA]
    rw [mesh3d_normal_area_quad_cross, mesh3d_normal_area_quad_cross, hsub, hsub, hsub, hsub,
      cross_smul_smul, cross_smul_smul, mid3_smul_smul, v3_normalize_smul_pos M hsqrt _ hkk,
      sqrt_normSq_smul M hsqrt _ hkk.le, sqrt_normSq_smul M hsqrt _ hkk.le]
    simp only [Prod.mk.injEq, true_and]; ring
  | _ :: _ :: _ :: _ :: _ :: _ => simp [faceNA]

/-- `Point3D.scale(k, origin)` scales edge vectors by `k`. -/
theorem ptScale3_sub (k : α) (o p q : V3 α) :
    V3.sub (ptScale3 k o p) (ptScale3 k o q) = V3.smul k (V3.sub p q) := by
  apply V3.ext' <;> simp only [V3.sub, V3.smul, ptScale3] <;> ring

/-- `Point3D(x*k, y*k, z*k)` scales edge vectors by `k`. -/
theorem ptScaleWorld3_sub (k : α) (p q : V3 α) :
    V3.sub (ptScaleWorld3 k p) (ptScaleWorld3 k q) = V3.smul k (V3.sub p q) := by
  apply V3.ext' <;> simp only [V3.sub, V3.smul, ptScaleWorld3] <;> ring

/-! ### Rigid maps: `rotate_xy`, `reflect` keep every face area -/

/-- A vertex map acting on edge vectors through `L`, where `L` keeps `|u × w|`: every face
keeps its area. -/
theorem faceNA_area_of_edges (M : MathOps α) (g L : V3 α → V3 α)
    (hsub : ∀ p q, V3.sub (g p) (g q) = L (V3.sub p q))
    (hL : ∀ u w, V3.normSq (V3.cross (L u) (L w)) = V3.normSq (V3.cross u w))
    (pts : List (V3 α)) : (faceNA M (pts.map g)).2 = (faceNA M pts).2 := by
  match pts with
  | [] => rfl
  | [_] => rfl
  | [_, _] => rfl
  | [a, b, c] =>
    simp only [List.map_cons, List.map_nil, faceNA]
    rw [mesh3d_normal_area_tri_cross, mesh3d_normal_area_tri_cross, hsub, hsub, hL]
  | [a, b, c, d] =>
    simp only [List.map_cons, List.map_nil, faceNA]
    rw [mesh3d_normal_area_quad_cross, mesh3d_normal_area_quad_cross, hsub, hsub, hsub, hsub,
      hL, hL]
  | _ :: _ :: _ :: _ :: _ :: _ => rfl

/-- `Point3D.rotate_xy` with `c² + s² = 1` keeps every face area. -/
theorem faceNA_area_rotateXY (M : MathOps α) (c sn : α) (h : c * c + sn * sn = 1) (o : V3 α)
    (pts : List (V3 α)) : (faceNA M (pts.map (ptRotateXY3 c sn o))).2 = (faceNA M pts).2 := by
  apply faceNA_area_of_edges M _
    (fun u => (⟨c * u.x - sn * u.y, sn * u.x + c * u.y, u.z⟩ : V3 α))
  · intro p q
    apply V3.ext' <;> simp only [V3.sub, ptRotateXY3] <;> ring
  · intro u w
    simp only [V3.normSq, V3.cross]
    linear_combination
      ((u.y * w.z - u.z * w.y) * (u.y * w.z - u.z * w.y) +
        (u.z * w.x - u.x * w.z) * (u.z * w.x - u.x * w.z) +
        (c * c + sn * sn + 1) * ((u.x * w.y - u.y * w.x) * (u.x * w.y - u.y * w.x))) * h

/-- `Point3D.reflect` across a plane with unit normal keeps every face area
(`Hu × Hw = (1 − 2 n·n)(u × w) + 2 (n·(u × w)) n`). -/
theorem faceNA_area_reflect (M : MathOps α) (n o : V3 α)
    (hn : n.x * n.x + n.y * n.y + n.z * n.z = 1) (pts : List (V3 α)) :
    (faceNA M (pts.map (ptReflect3 n o))).2 = (faceNA M pts).2 := by
  apply faceNA_area_of_edges M _
    (fun u => (⟨u.x - 2 * (u.x * n.x + u.y * n.y + u.z * n.z) * n.x,
      u.y - 2 * (u.x * n.x + u.y * n.y + u.z * n.z) * n.y,
      u.z - 2 * (u.x * n.x + u.y * n.y + u.z * n.z) * n.z⟩ : V3 α))
  · intro p q
    apply V3.ext' <;> simp only [V3.sub, ptReflect3] <;> ring
  · intro u w
    simp only [V3.normSq, V3.cross]
    linear_combination
      (4 * (n.x * n.x + n.y * n.y + n.z * n.z) *
          ((u.y * w.z - u.z * w.y) * (u.y * w.z - u.z * w.y) +
           (u.z * w.x - u.x * w.z) * (u.z * w.x - u.x * w.z) +
           (u.x * w.y - u.y * w.x) * (u.x * w.y - u.y * w.x)) -
        4 * (n.x * (u.y * w.z - u.z * w.y) + n.y * (u.z * w.x - u.x * w.z) +
             n.z * (u.x * w.y - u.y * w.x)) ^ 2) * hn

end Lbg.Lemmas
