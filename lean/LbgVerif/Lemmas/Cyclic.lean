/-
  Lemmas.Cyclic — generic facts about sums of a two-argument functional over the cyclic
  consecutive pairs of a list (`cyclicPairs`, the shape of the Python loop
  `for i, pt in enumerate(vs): acc += f(vs[i-1], pt)`).

  Everything is by induction on the list; there is no bound on the length.
  Independent of the generated kernels.
-/
import LbgVerif.Basic
import Mathlib.Algebra.BigOperators.Group.List.Basic
import Mathlib.Data.List.Rotate
import Mathlib.Tactic.Ring
import Mathlib.Tactic.Abel

namespace Lbg.Lemmas
open Lbg

section foldl
variable {β R : Type} [AddCommMonoid R]

/-- An accumulating `for` loop `acc += f p` is the start value plus the sum of the terms. -/
theorem foldl_add_eq_sum (f : β → R) (l : List β) (a : R) :
    l.foldl (fun acc p => acc + f p) a = a + (l.map f).sum := by
  induction l generalizing a with
  | nil => simp
  | cons p t ih => simp only [List.foldl_cons, ih, List.map_cons, List.sum_cons]; abel

end foldl

section generic
variable {β R : Type} [CommRing R]

/-- Sum of `f` along the open path `a → l[0] → l[1] → … → l[n-1]`. -/
def path (f : β → β → R) : β → List β → R
  | _, [] => 0
  | a, b :: t => f a b + path f b t

/-- Sum of `f` along the path `a → l[0] → … → l[n-1] → b`. -/
def seg (f : β → β → R) (a : β) (l : List β) (b : β) : R := path f a (l ++ [b])

/-- Sum of `f` over the consecutive pairs of `l` (open chain, no closing pair). -/
def chainS (f : β → β → R) : List β → R
  | [] => 0
  | [_] => 0
  | a :: b :: t => f a b + chainS f (b :: t)

/-- Sum of `f` over the cyclic consecutive pairs `(l[i-1], l[i])`, `i = 0 … n-1`. -/
def cycSum (f : β → β → R) (l : List β) : R :=
  ((cyclicPairs l).map (fun p => f p.1 p.2)).sum

/-- Empty path. -/
@[simp] theorem path_nil (f : β → β → R) (a : β) : path f a [] = 0 := rfl
/-- One step of a path. -/
@[simp] theorem path_cons (f : β → β → R) (a b : β) (t : List β) :
    path f a (b :: t) = f a b + path f b t := rfl

/-- A path with no interior vertices is the single edge. -/
@[simp] theorem seg_nil (f : β → β → R) (a b : β) : seg f a [] b = f a b := by
  simp [seg]
/-- First step of a path with given end point. -/
@[simp] theorem seg_cons (f : β → β → R) (a c b : β) (t : List β) :
    seg f a (c :: t) b = f a c + seg f c t b := by
  simp [seg]

/-- A path through `c` splits at `c`. -/
theorem seg_append_cons (f : β → β → R) (a c b : β) (l₁ l₂ : List β) :
    seg f a (l₁ ++ c :: l₂) b = seg f a l₁ c + seg f c l₂ b := by
  induction l₁ generalizing a with
  | nil => simp
  | cons p t ih => simp only [List.cons_append, seg_cons, ih]; ring

/-- Last step of a path with given end point. -/
theorem seg_append_single (f : β → β → R) (a c b : β) (l : List β) :
    seg f a (l ++ [c]) b = seg f a l c + f c b := by
  rw [seg_append_cons]; simp

/-- The chain of `a :: t` is the path from `a` through `t`. -/
theorem chainS_cons (f : β → β → R) (a : β) (t : List β) : chainS f (a :: t) = path f a t := by
  induction t generalizing a with
  | nil => rfl
  | cons b t ih => simp only [chainS, path_cons, ih]

/-- The chain of `a :: t ++ [b]` is the path `a → t → b`. -/
theorem chainS_cons_append_single (f : β → β → R) (a b : β) (t : List β) :
    chainS f (a :: (t ++ [b])) = seg f a t b := by
  rw [chainS_cons]; rfl

/-- The chain sum is the sum over `l.zip l.tail`. -/
theorem chainS_eq_zip_tail (f : β → β → R) (l : List β) :
    chainS f l = ((l.zip l.tail).map (fun p => f p.1 p.2)).sum := by
  induction l with
  | nil => rfl
  | cons a t ih =>
    cases t with
    | nil => rfl
    | cons b t => simp only [chainS, ih, List.tail_cons, List.zip_cons_cons, List.map_cons,
        List.sum_cons]

/-- The cyclic pairs of `a :: t`: the wrap-around pair, then the consecutive pairs. -/
theorem cyclicPairs_cons (a : β) (t : List β) :
    cyclicPairs (a :: t) = (t.getLast?.getD a, a) :: (a :: t).zip t := by
  simp [cyclicPairs, List.getLast?_cons]

/-- No cyclic pairs in the empty list. -/
@[simp] theorem cyclicPairs_nil : cyclicPairs ([] : List β) = [] := rfl

/-- Summing over `(a :: t).zip t` is the path from `a` through `t`. -/
theorem sum_zip_cons (f : β → β → R) (a : β) (t : List β) :
    (((a :: t).zip t).map (fun p => f p.1 p.2)).sum = path f a t := by
  induction t generalizing a with
  | nil => rfl
  | cons b t ih => simp only [List.zip_cons_cons, List.map_cons, List.sum_cons, ih, path_cons]

/-- Appending one vertex to a path adds the edge from the old last vertex. -/
theorem path_append_single (f : β → β → R) (a b : β) (t : List β) :
    path f a (t ++ [b]) = path f a t + f (t.getLast?.getD a) b := by
  induction t generalizing a with
  | nil => simp
  | cons c t ih =>
    simp only [List.cons_append, path_cons, ih, List.getLast?_cons, Option.getD_some]
    ring

/-- The cyclic sum of the empty list is zero. -/
@[simp] theorem cycSum_nil (f : β → β → R) : cycSum f [] = 0 := rfl

/-- The cyclic sum of `a :: t` is the sum along the closed path `a → t → a`. -/
theorem cycSum_cons (f : β → β → R) (a : β) (t : List β) :
    cycSum f (a :: t) = seg f a t a := by
  simp only [cycSum, cyclicPairs_cons, List.map_cons, List.sum_cons, sum_zip_cons, seg,
    path_append_single]
  ring

/-- Closing pair plus open chain. -/
theorem cycSum_closed (f : β → β → R) (d : β) (l : List β) (hl : l ≠ []) :
    cycSum f l = f (l.getLast?.getD d) (l.head?.getD d) + chainS f l := by
  cases l with
  | nil => exact absurd rfl hl
  | cons a t =>
    simp only [cycSum, cyclicPairs_cons, List.map_cons, List.sum_cons, sum_zip_cons,
      chainS_cons, List.getLast?_cons, List.head?_cons, Option.getD_some]

/-- One vertex: the only cyclic pair is `(a, a)`. -/
theorem cycSum_singleton (f : β → β → R) (a : β) : cycSum f [a] = f a a := by
  simp [cycSum_cons]

/-- Two vertices: the cyclic pairs are `(b, a)` and `(a, b)`. -/
theorem cycSum_pair (f : β → β → R) (a b : β) : cycSum f [a, b] = f a b + f b a := by
  simp [cycSum_cons]

/-! ### Chain of an append, reversal -/

/-- Appending one vertex to a non-empty chain adds the edge from the old last vertex. -/
theorem chainS_append_single (f : β → β → R) (d : β) (l : List β) (b : β) (hl : l ≠ []) :
    chainS f (l ++ [b]) = chainS f l + f (l.getLast?.getD d) b := by
  cases l with
  | nil => exact absurd rfl hl
  | cons a t =>
    simp only [List.cons_append, chainS_cons, path_append_single, List.getLast?_cons,
      Option.getD_some]

/-- A path through `l₁ ++ l₂` continues from the last vertex of `l₁`. -/
theorem path_append (f : β → β → R) (a : β) (l₁ l₂ : List β) :
    path f a (l₁ ++ l₂) = path f a l₁ + path f (l₁.getLast?.getD a) l₂ := by
  induction l₁ generalizing a with
  | nil => simp
  | cons c t ih =>
    simp only [List.cons_append, path_cons, ih, List.getLast?_cons, Option.getD_some]
    ring

/-- Chain of a concatenation = chains of the parts + the connecting pair. -/
theorem chainS_append (f : β → β → R) (d : β) (l₁ l₂ : List β) (h₁ : l₁ ≠ []) (h₂ : l₂ ≠ []) :
    chainS f (l₁ ++ l₂) =
      chainS f l₁ + f (l₁.getLast?.getD d) (l₂.head?.getD d) + chainS f l₂ := by
  cases l₁ with
  | nil => exact absurd rfl h₁
  | cons a t =>
    cases l₂ with
    | nil => exact absurd rfl h₂
    | cons b s =>
      simp only [List.cons_append, chainS_cons, path_append, path_cons, List.getLast?_cons,
        List.head?_cons, Option.getD_some]
      ring

/-- Walking a path backwards sums the flipped functional. -/
theorem seg_reverse (f : β → β → R) (a b : β) (l : List β) :
    seg f b l.reverse a = seg (fun x y => f y x) a l b := by
  induction l generalizing a with
  | nil => simp
  | cons c t ih => simp only [List.reverse_cons, seg_append_single, ih, seg_cons]; ring

/-- Reversing a chain sums the flipped functional. -/
theorem chainS_reverse_flip (f : β → β → R) (l : List β) :
    chainS f l.reverse = chainS (fun x y => f y x) l := by
  cases l with
  | nil => rfl
  | cons a t =>
    cases t using List.reverseRecOn with
    | nil => rfl
    | append_singleton t b =>
      rw [chainS_cons_append_single]
      simp only [List.reverse_cons, List.reverse_append, List.reverse_nil, List.nil_append,
        List.cons_append]
      rw [chainS_cons_append_single, seg_reverse]

/-! ### Start-point invariance (rotation of the list) -/

/-- A cyclic sum does not depend on where the loop is cut open. -/
theorem cycSum_append_comm (f : β → β → R) (l₁ l₂ : List β) :
    cycSum f (l₁ ++ l₂) = cycSum f (l₂ ++ l₁) := by
  cases l₁ with
  | nil => simp
  | cons a t₁ =>
    cases l₂ with
    | nil => simp
    | cons b t₂ =>
      simp only [List.cons_append, cycSum_cons, seg_append_cons]
      ring

/-- Cyclic start invariance in terms of `List.rotate`. -/
theorem cycSum_rotate (f : β → β → R) (l : List β) (n : ℕ) :
    cycSum f (l.rotate n) = cycSum f l := by
  cases l with
  | nil => simp
  | cons a t =>
    rw [← List.rotate_mod]
    have h : n % (a :: t).length ≤ (a :: t).length :=
      Nat.le_of_lt (Nat.mod_lt _ (by simp))
    rw [List.rotate_eq_drop_append_take h, cycSum_append_comm, List.take_append_drop]

/-- Reversing the list flips every pair. -/
theorem cycSum_reverse_flip (f : β → β → R) (l : List β) :
    cycSum f l.reverse = cycSum (fun x y => f y x) l := by
  cases l with
  | nil => rfl
  | cons a t =>
    rw [List.reverse_cons, cycSum_append_comm]
    simp only [List.cons_append, List.nil_append, cycSum_cons, seg_reverse]

/-! ### Algebra of the functional -/

/-- Pointwise equal functionals have equal path sums. -/
theorem seg_congr {f g : β → β → R} (h : ∀ x y, f x y = g x y) (a b : β) (l : List β) :
    seg f a l b = seg g a l b := by
  have : f = g := funext fun x => funext fun y => h x y
  rw [this]

/-- Pointwise equal functionals have equal cyclic sums. -/
theorem cycSum_congr {f g : β → β → R} (h : ∀ x y, f x y = g x y) (l : List β) :
    cycSum f l = cycSum g l := by
  have : f = g := funext fun x => funext fun y => h x y
  rw [this]

/-- Pointwise equal functionals have equal chain sums. -/
theorem chainS_congr {f g : β → β → R} (h : ∀ x y, f x y = g x y) (l : List β) :
    chainS f l = chainS g l := by
  have : f = g := funext fun x => funext fun y => h x y
  rw [this]

/-- Path sums are additive in the functional. -/
theorem seg_add (f g : β → β → R) (a b : β) (l : List β) :
    seg (fun x y => f x y + g x y) a l b = seg f a l b + seg g a l b := by
  induction l generalizing a with
  | nil => simp
  | cons c t ih => simp only [seg_cons, ih]; ring

/-- Path sums commute with scalar multiplication. -/
theorem seg_mul_left (c : R) (f : β → β → R) (a b : β) (l : List β) :
    seg (fun x y => c * f x y) a l b = c * seg f a l b := by
  induction l generalizing a with
  | nil => simp
  | cons p t ih => simp only [seg_cons, ih]; ring

/-- Path sums commute with negation. -/
theorem seg_neg (f : β → β → R) (a b : β) (l : List β) :
    seg (fun x y => - f x y) a l b = - seg f a l b := by
  induction l generalizing a with
  | nil => simp
  | cons p t ih => simp only [seg_cons, ih]; ring

/-- Telescoping along a path. -/
theorem seg_telescope (h : β → R) (a b : β) (l : List β) :
    seg (fun x y => h y - h x) a l b = h b - h a := by
  induction l generalizing a with
  | nil => simp
  | cons p t ih => simp only [seg_cons, ih]; ring

/-- Cyclic sums are additive in the functional. -/
theorem cycSum_add (f g : β → β → R) (l : List β) :
    cycSum (fun x y => f x y + g x y) l = cycSum f l + cycSum g l := by
  cases l with
  | nil => simp
  | cons a t => simp only [cycSum_cons, seg_add]

/-- Cyclic sums commute with scalar multiplication. -/
theorem cycSum_mul_left (c : R) (f : β → β → R) (l : List β) :
    cycSum (fun x y => c * f x y) l = c * cycSum f l := by
  cases l with
  | nil => simp
  | cons a t => simp only [cycSum_cons, seg_mul_left]

/-- Cyclic sums commute with negation. -/
theorem cycSum_neg (f : β → β → R) (l : List β) :
    cycSum (fun x y => - f x y) l = - cycSum f l := by
  cases l with
  | nil => simp
  | cons a t => simp only [cycSum_cons, seg_neg]

/-- Around a closed loop a telescoping functional sums to zero. -/
theorem cycSum_telescope (h : β → R) (l : List β) :
    cycSum (fun x y => h y - h x) l = 0 := by
  cases l with
  | nil => simp
  | cons a t => simp only [cycSum_cons, seg_telescope]; ring

/-- Adding a telescoping term does not change a cyclic sum. -/
theorem cycSum_add_telescope (f : β → β → R) (h : β → R) (l : List β) :
    cycSum (fun x y => f x y + (h y - h x)) l = cycSum f l := by
  rw [cycSum_add, cycSum_telescope, add_zero]

/-- Antisymmetric functional: reversal negates the cyclic sum. -/
theorem cycSum_reverse_of_antisymm (f : β → β → R) (hf : ∀ x y, f y x = - f x y)
    (l : List β) : cycSum f l.reverse = - cycSum f l := by
  rw [cycSum_reverse_flip, cycSum_congr (g := fun x y => - f x y) hf, cycSum_neg]

/-- Antisymmetric functional: reversal negates the chain sum. -/
theorem chainS_reverse_of_antisymm (f : β → β → R) (hf : ∀ x y, f y x = - f x y)
    (l : List β) : chainS f l.reverse = - chainS f l := by
  rw [chainS_reverse_flip, chainS_congr (g := fun x y => - f x y) hf]
  cases l with
  | nil => simp [chainS]
  | cons a t =>
    cases t using List.reverseRecOn with
    | nil => simp [chainS]
    | append_singleton t b => rw [chainS_cons_append_single, chainS_cons_append_single, seg_neg]

/-! ### Mapping the vertices -/

/-- Path sum of mapped vertices = path sum of the pulled-back functional. -/
theorem seg_map {γ : Type} (f : γ → γ → R) (g : β → γ) (a b : β) (l : List β) :
    seg f (g a) (l.map g) (g b) = seg (fun x y => f (g x) (g y)) a l b := by
  induction l generalizing a with
  | nil => simp
  | cons p t ih => simp only [List.map_cons, seg_cons, ih]

/-- Cyclic sum of mapped vertices = cyclic sum of the pulled-back functional. -/
theorem cycSum_map {γ : Type} (f : γ → γ → R) (g : β → γ) (l : List β) :
    cycSum f (l.map g) = cycSum (fun x y => f (g x) (g y)) l := by
  cases l with
  | nil => simp
  | cons a t => simp only [List.map_cons, cycSum_cons, seg_map]

/-- Chain sum of mapped vertices = chain sum of the pulled-back functional. -/
theorem chainS_map {γ : Type} (f : γ → γ → R) (g : β → γ) (l : List β) :
    chainS f (l.map g) = chainS (fun x y => f (g x) (g y)) l := by
  cases l with
  | nil => rfl
  | cons a t =>
    cases t using List.reverseRecOn with
    | nil => rfl
    | append_singleton t b =>
      simp only [List.map_cons, List.map_append, List.map_nil, chainS_cons_append_single,
        seg_map]

/-! ### Fan from the first vertex -/

/-- If `f` vanishes whenever an argument is `z`, the closed path through `z` is the chain. -/
theorem seg_of_zero (f : β → β → R) (z : β) (h₁ : ∀ x, f z x = 0) (h₂ : ∀ x, f x z = 0)
    (l : List β) : seg f z l z = chainS f l := by
  cases l with
  | nil => simp [chainS, h₁]
  | cons a t =>
    cases t using List.reverseRecOn with
    | nil => simp [chainS, h₁, h₂]
    | append_singleton t b =>
      rw [chainS_cons_append_single, seg_cons, seg_append_single, h₁, h₂]
      ring

/-- If `f` vanishes whenever an argument is `z`, the cyclic sum of `z :: l` is the chain of `l`. -/
theorem cycSum_cons_of_zero (f : β → β → R) (z : β) (h₁ : ∀ x, f z x = 0)
    (h₂ : ∀ x, f x z = 0) (l : List β) : cycSum f (z :: l) = chainS f l := by
  rw [cycSum_cons, seg_of_zero f z h₁ h₂]

/-! ### Loop surgery -/

/-- Cutting a loop along the chord `a — b` (antisymmetric `f`). -/
theorem cycSum_split (f : β → β → R) (hf : ∀ x y, f y x = - f x y)
    (pre mid post : List β) (a b : β) :
    cycSum f (pre ++ [a] ++ mid ++ [b] ++ post) =
      cycSum f ([a] ++ mid ++ [b]) + cycSum f (pre ++ [a, b] ++ post) := by
  cases pre with
  | nil =>
    simp only [List.nil_append, List.cons_append, List.append_assoc, cycSum_cons,
      seg_append_cons, seg_cons, seg_nil, hf a b]
    ring
  | cons p t =>
    simp only [List.nil_append, List.cons_append, List.append_assoc, cycSum_cons,
      seg_append_cons, seg_cons, seg_nil, hf a b]
    ring

/-- Merging a hole loop into a boundary loop through the doubled bridge edge `p — q`
(antisymmetric `f`). -/
theorem cycSum_bridge (f : β → β → R) (hf : ∀ x y, f y x = - f x y)
    (b1 b2 h1 h2 : List β) (p q : β) :
    cycSum f (b1 ++ [p] ++ ([q] ++ h2 ++ h1 ++ [q]) ++ [p] ++ b2) =
      cycSum f (b1 ++ [p] ++ b2) + cycSum f (h1 ++ [q] ++ h2) := by
  have hH : cycSum f (h1 ++ [q] ++ h2) = seg f q (h2 ++ h1) q := by
    rw [List.append_assoc, cycSum_append_comm]
    simp only [List.cons_append, List.nil_append, cycSum_cons]
  have e : b1 ++ [p] ++ ([q] ++ h2 ++ h1 ++ [q]) ++ [p] ++ b2 =
      b1 ++ p :: ((q :: (h2 ++ h1)) ++ q :: p :: b2) := by
    simp only [List.cons_append, List.nil_append, List.append_assoc]
  have e' : b1 ++ [p] ++ b2 = b1 ++ p :: b2 := by
    simp only [List.cons_append, List.nil_append, List.append_assoc]
  rw [hH, e, e']
  cases b1 with
  | nil =>
    simp only [List.nil_append, cycSum_cons, seg_append_cons, seg_cons, hf p q]
    ring
  | cons c t =>
    simp only [List.cons_append, cycSum_cons, seg_append_cons, seg_cons, hf p q]
    ring

end generic

end Lbg.Lemmas
