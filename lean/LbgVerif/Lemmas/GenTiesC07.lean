/-
  Lemmas.GenTiesC07 — helper lemmas for the ties `generated kernel = hand model` of
  `Props/C07g.lean`, `Props/C20g.lean`, `Props/C13g.lean`.

    * `counter4`, `ite_cond_iff`: the integer counter `n_int += 1` unrolled four times (the four
      sides of a quad) against `List.countP`; reading a condition off an equation of two `if`s;
    * `calcMinMax_cons`, `calcMinMax3_cons`, `outward_center_cons`: the hand-written bounding box
      scans of `Model/MeshCache`, `Model/PolylineCache`, `Model/Outward` are the scan
      `C10.minMax2 / minMax3` (to which the generated scans are tied in `Props/C10g`);
    * `tup2DV`, `tup3DV`, `optR`, `mapR_*_tup`: the generated serialisers work on lists of number
      tuples and `Option`, the hand model `Model/SerialComposite` on JSON-like values `DV` and
      Python results `R`; these are the encodings and the decoding lemmas;
    * `foldl_and_true`, `foldl_pair_first`: loops `ok = ok and p(x)` and `(found, index)`.

  Nothing here mentions a generated definition.
-/
import LbgVerif.Model.MeshCache
import LbgVerif.Model.PolylineCache
import LbgVerif.Model.Outward
import LbgVerif.Model.SerialComposite
import LbgVerif.Lemmas.SerialComposite
import LbgVerif.Lemmas.MinMax
import LbgVerif.Props.C10
import Mathlib.Tactic.SplitIfs
import Mathlib.Tactic.Ring
import Mathlib.Algebra.Order.Ring.Abs

set_option linter.unusedSectionVars false

namespace Lbg.Lemmas.GenTiesC07
open Lbg Lbg.Lemmas Lbg.Props.C10

/-! ### Counters and conditions -/

/-- The counter `n_int = 0; if p1: n_int += 1; …; if p4: n_int += 1` followed by
`if n_int % 2 == 0: X else: Y`, against the parity of `countP` over the four tests taken in the
order `p4, p1, p2, p3` (the order of `cyclicPairs` of a quad: the closing side first). -/
theorem counter4 {β : Type} (p1 p2 p3 p4 : Prop) [Decidable p1] [Decidable p2] [Decidable p3]
    [Decidable p4] (X Y : β) :
    (if ((if p4 then (if p3 then (if p2 then (if p1 then (1 : Int) else 0) + 1
            else (if p1 then (1 : Int) else 0)) + 1
          else (if p2 then (if p1 then (1 : Int) else 0) + 1 else (if p1 then (1 : Int) else 0))) + 1
        else (if p3 then (if p2 then (if p1 then (1 : Int) else 0) + 1
            else (if p1 then (1 : Int) else 0)) + 1
          else (if p2 then (if p1 then (1 : Int) else 0) + 1 else (if p1 then (1 : Int) else 0))))
        % 2 = 0) then X else Y) =
    if (List.countP (fun b => b) [decide p4, decide p1, decide p2, decide p3]) % 2 ≠ 0 then Y
    else X := by
  by_cases h1 : p1 <;> by_cases h2 : p2 <;> by_cases h3 : p3 <;> by_cases h4 : p4 <;>
    simp [h1, h2, h3, h4]

/-- From `(if c then X else Y) = (if P then Y else X)` with `X ≠ Y`: `c` holds iff `P` is false. -/
theorem ite_cond_iff {β : Type} (c : Prop) [Decidable c] (P : Bool) (X Y : β)
    (h : (if c then X else Y) = if P = true then Y else X) (hXY : X ≠ Y) : c ↔ P = false := by
  by_cases hc : c <;> cases P <;> simp_all

/-- The loop `ok = True; for x in l: ok = ok and p(x)` returns `True` when every element
passes. -/
theorem foldl_and_true {β : Type} (p : β → Prop) [DecidablePred p] (l : List β)
    (h : ∀ x ∈ l, p x) :
    l.foldl (fun (st : Bool) x => decide (st = true ∧ p x)) true = true := by
  induction l with
  | nil => rfl
  | cons a t ih =>
    have ha : p a := h a List.mem_cons_self
    simp only [List.foldl_cons, ha, and_self, decide_true]
    exact ih (fun x hx => h x (List.mem_cons_of_mem _ hx))

/-- Every element of `zip l l` is a pair of equal components. -/
theorem mem_zip_self {β : Type} (l : List β) (q : β × β) (h : q ∈ l.zip l) : q.1 = q.2 := by
  induction l with
  | nil => simp at h
  | cons a t ih =>
    simp only [List.zip_cons_cons, List.mem_cons] at h
    rcases h with rfl | h
    · rfl
    · exact ih h

/-! ### Bounding-box scans of the hand models -/

section scans
variable {α : Type} [Field α] [LinearOrder α]
open Lbg.Model.MeshCache Lbg.Model.PolylineCache

/-- `Model.MeshCache.calcMinMax` (hand model of `Mesh2D._calculate_min_max`, also used for
`Polyline2D`) on a non-empty list is the scan `C10.minMax2`. -/
theorem calcMinMax_cons (v0 : V2 α) (rest : List (V2 α)) :
    calcMinMax (v0 :: rest) = minMax2 v0 rest := by
  unfold calcMinMax minMax2
  exact List.foldl_hom (l := rest)
    (f := fun (s : (α × α) × (α × α)) => ((⟨s.1.1, s.2.1⟩ : V2 α), (⟨s.1.2, s.2.2⟩ : V2 α)))
    (g₁ := fun (st : (α × α) × (α × α)) (v : V2 α) => (scanStep st.1 v.x, scanStep st.2 v.y))
    (g₂ := fun (st : V2 α × V2 α) (v : V2 α) =>
      let mn := st.1
      let mx := st.2
      let x : α × α := if v.x < mn.x then (v.x, mx.x) else if v.x > mx.x then (mn.x, v.x)
        else (mn.x, mx.x)
      let y : α × α := if v.y < mn.y then (v.y, mx.y) else if v.y > mx.y then (mn.y, v.y)
        else (mn.y, mx.y)
      ((⟨x.1, y.1⟩ : V2 α), (⟨x.2, y.2⟩ : V2 α)))
    (init := ((v0.x, v0.x), (v0.y, v0.y)))
    (by intro s v; unfold scanStep; rfl)

/-- `Model.PolylineCache.calcMinMax3` (hand model of `Base2DIn3D._calculate_min_max`, used for
`Polyline3D`, `Face3D`, `Polyface3D`) on a non-empty list is the scan `C10.minMax3`. -/
theorem calcMinMax3_cons (v0 : V3 α) (rest : List (V3 α)) :
    calcMinMax3 (v0 :: rest) = minMax3 v0 rest := by
  unfold calcMinMax3 minMax3
  exact List.foldl_hom (l := rest)
    (f := fun (s : (α × α) × (α × α) × (α × α)) =>
      ((⟨s.1.1, s.2.1.1, s.2.2.1⟩ : V3 α), (⟨s.1.2, s.2.1.2, s.2.2.2⟩ : V3 α)))
    (g₁ := fun (st : (α × α) × (α × α) × (α × α)) (v : V3 α) =>
      (scanStep st.1 v.x, scanStep st.2.1 v.y, scanStep st.2.2 v.z))
    (g₂ := fun (st : V3 α × V3 α) (v : V3 α) =>
      let mn := st.1
      let mx := st.2
      let x : α × α := if v.x < mn.x then (v.x, mx.x) else if v.x > mx.x then (mn.x, v.x)
        else (mn.x, mx.x)
      let y : α × α := if v.y < mn.y then (v.y, mx.y) else if v.y > mx.y then (mn.y, v.y)
        else (mn.y, mx.y)
      let z : α × α := if v.z < mn.z then (v.z, mx.z) else if v.z > mx.z then (mn.z, v.z)
        else (mn.z, mx.z)
      ((⟨x.1, y.1, z.1⟩ : V3 α), (⟨x.2, y.2, z.2⟩ : V3 α)))
    (init := ((v0.x, v0.x), (v0.y, v0.y), (v0.z, v0.z)))
    (by intro s v; unfold scanStep; rfl)

/-- `Model.Outward.center` (hand model of `Base2DIn3D.center`) on a non-empty list is the
midpoint of the box `C10.minMax3`. -/
theorem outward_center_cons (v0 : V3 α) (rest : List (V3 α)) :
    Lbg.Model.Outward.center (v0 :: rest) =
      ⟨((minMax3 v0 rest).1.x + (minMax3 v0 rest).2.x) / 2,
       ((minMax3 v0 rest).1.y + (minMax3 v0 rest).2.y) / 2,
       ((minMax3 v0 rest).1.z + (minMax3 v0 rest).2.z) / 2⟩ := rfl

end scans

/-! ### Encodings between the generated serialisers and `Model/SerialComposite` -/

section serial
open Lbg.Model.SerialComposite Lbg.Lemmas.SerialComposite
variable {α : Type}

/-- A generated `Option` result read as a Python result: `none` is the constructor's
`AssertionError` (fewer than 3 vertices). -/
def optR {τ : Type} (o : Option τ) : R τ :=
  match o with
  | none => .error .AssertionError
  | some x => .ok x

/-- The number pair `(x, y)` of a generated `to_array` as a JSON-like value. -/
def tup2DV (t : α × α) : DV α := .list [.num t.1, .num t.2]

/-- The number triple `(x, y, z)` of a generated `to_array` as a JSON-like value. -/
def tup3DV (t : α × α × α) : DV α := .list [.num t.1, .num t.2.1, .num t.2.2]

variable [Field α] [LinearOrder α]

/-- `pt.to_array()` of the hand model is the encoded pair. -/
theorem pt2ToArray_eq (p : V2 α) : pt2ToArray p = tup2DV (p.x, p.y) := rfl

/-- `pt.to_array()` of the hand model is the encoded triple. -/
theorem pt3ToArray_eq (p : V3 α) : pt3ToArray p = tup3DV (p.x, p.y, p.z) := rfl

/-- `Point2D(*t)` on an encoded pair. -/
theorem mapR_pt2OfStar_tup (arr : List (α × α)) :
    mapR pt2OfStar (arr.map tup2DV) = .ok (arr.map (fun t => (⟨t.1, t.2⟩ : V2 α))) := by
  rw [mapR_ok pt2OfStar (fun d => match d with
      | DV.list [DV.num a, DV.num b] => (⟨a, b⟩ : V2 α) | _ => ⟨0, 0⟩) (arr.map tup2DV)]
  · rw [List.map_map]; rfl
  · intro d hd
    obtain ⟨t, _, rfl⟩ := List.mem_map.1 hd
    rfl

/-- `Point2D.from_array(t)` on an encoded pair. -/
theorem mapR_pt2OfArray_tup (arr : List (α × α)) :
    mapR pt2OfArray (arr.map tup2DV) = .ok (arr.map (fun t => (⟨t.1, t.2⟩ : V2 α))) := by
  rw [mapR_ok pt2OfArray (fun d => match d with
      | DV.list [DV.num a, DV.num b] => (⟨a, b⟩ : V2 α) | _ => ⟨0, 0⟩) (arr.map tup2DV)]
  · rw [List.map_map]; rfl
  · intro d hd
    obtain ⟨t, _, rfl⟩ := List.mem_map.1 hd
    rfl

/-- `Point3D(*t)` on an encoded triple. -/
theorem mapR_pt3OfStar_tup (arr : List (α × α × α)) :
    mapR pt3OfStar (arr.map tup3DV) =
      .ok (arr.map (fun t => (⟨t.1, t.2.1, t.2.2⟩ : V3 α))) := by
  rw [mapR_ok pt3OfStar (fun d => match d with
      | DV.list [DV.num a, DV.num b, DV.num c] => (⟨a, b, c⟩ : V3 α) | _ => ⟨0, 0, 0⟩)
      (arr.map tup3DV)]
  · rw [List.map_map]; rfl
  · intro d hd
    obtain ⟨t, _, rfl⟩ := List.mem_map.1 hd
    rfl

/-- `Point3D.from_array(t)` on an encoded triple. -/
theorem mapR_pt3OfArray_tup (arr : List (α × α × α)) :
    mapR pt3OfArray (arr.map tup3DV) =
      .ok (arr.map (fun t => (⟨t.1, t.2.1, t.2.2⟩ : V3 α))) := by
  rw [mapR_ok pt3OfArray (fun d => match d with
      | DV.list [DV.num a, DV.num b, DV.num c] => (⟨a, b, c⟩ : V3 α) | _ => ⟨0, 0, 0⟩)
      (arr.map tup3DV)]
  · rw [List.map_map]; rfl
  · intro d hd
    obtain ⟨t, _, rfl⟩ := List.mem_map.1 hd
    rfl

/-- Decoding then re-encoding a list of 2D points through number pairs is the identity. -/
theorem map_pair_roundtrip (vs : List (V2 α)) :
    (vs.map (fun p => (p.x, p.y))).map (fun t => (⟨t.1, t.2⟩ : V2 α)) = vs := by
  rw [List.map_map]
  exact List.map_id' vs

/-- Decoding then re-encoding a list of 3D points through number triples is the identity. -/
theorem map_triple_roundtrip (vs : List (V3 α)) :
    (vs.map (fun p => (p.x, p.y, p.z))).map (fun t => (⟨t.1, t.2.1, t.2.2⟩ : V3 α)) = vs := by
  rw [List.map_map]
  exact List.map_id' vs

end serial

end Lbg.Lemmas.GenTiesC07
