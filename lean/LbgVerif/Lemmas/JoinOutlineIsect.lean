/-
  Lemmas.JoinOutlineIsect — `intersect_segments` / `intersect_polygon_segments` (model
  `Model.JoinOutline`): segments by index, the closest point lies on its segment's line, what the
  update lists contain, and what every pass preserves (original vertices in order, multiset,
  shoelace sum).
-/
import LbgVerif.Lemmas.JoinOutlineArea

set_option linter.unusedSectionVars false

namespace Lbg.Lemmas.JoinOutline
open Lbg Lbg.Gen Lbg.Lemmas Lbg.Model.JoinOutline Lbg.Model

section Isect
variable {α : Type} [Field α] [LinearOrder α]

/-- `closest_point2d_on_line2d(q, LineSegment2D.from_end_points(a, b))` is `a + t (b - a)`. -/
theorem closest_onLine (q a b : V2 α) :
    OnLine a b (closest_point2d_on_line2d_s q (seg2_from_end_points a b)) := by
  unfold closest_point2d_on_line2d_s seg2_from_end_points
  simp only []
  split_ifs <;> first | exact ⟨_, rfl⟩ | exact ⟨0, by ext <;> simp⟩

omit [LinearOrder α] in
theorem segments_cons (a : V2 α) (t : List (V2 α)) :
    PointInside.segments (a :: t) =
      ((a :: t).zip t).map (fun q => seg2_from_end_points q.1 q.2) ++
        [seg2_from_end_points (t.getLast?.getD a) a] := by
  unfold PointInside.segments
  rw [cyclicPairs_cons]
  rfl

omit [LinearOrder α] in
/-- Segment `i` of a polygon runs from vertex `i` to its cyclic successor. -/
theorem segments_getElem? (vs : List (V2 α)) (i : Nat) (hi : i < vs.length) :
    (PointInside.segments vs)[i]? =
      some (seg2_from_end_points (vs.getD i ⟨0, 0⟩) (nextV vs i)) := by
  cases vs with
  | nil => simp at hi
  | cons a t =>
    rw [segments_cons]
    unfold nextV
    have hlen : (((a :: t).zip t).map (fun q => seg2_from_end_points q.1 q.2)).length = t.length := by
      simp
    by_cases h : i < t.length
    · rw [List.getElem?_append_left (by rw [hlen]; exact h)]
      have h1 : (i + 1) % (a :: t).length = i + 1 := Nat.mod_eq_of_lt (by simp; omega)
      rw [h1]
      have h2 : i < ((a :: t).zip t).length := by simp; omega
      rw [List.getElem?_eq_getElem (by rw [hlen]; exact h)]
      simp only [List.getElem_map, List.getElem_zip, List.getD_eq_getElem?_getD]
      rw [List.getElem?_eq_getElem (by simp; omega), List.getElem?_eq_getElem (by simp; omega)]
      simp
    · have hi' : i = t.length := by simp at hi; omega
      subst hi'
      rw [List.getElem?_append_right (by rw [hlen])]
      simp only [hlen, Nat.sub_self, List.getElem?_cons_zero]
      have h1 : (t.length + 1) % (a :: t).length = 0 := by simp
      rw [h1]
      congr 2
      cases t with
      | nil => rfl
      | cons b t' =>
        simp only [List.getD_eq_getElem?_getD, List.length_cons, List.getElem?_cons_succ]
        rw [List.getLast?_eq_getElem?]
        simp

omit [LinearOrder α] in
theorem segments_length (vs : List (V2 α)) : (PointInside.segments vs).length = vs.length := by
  cases vs with
  | nil => rfl
  | cons a t => rw [segments_cons]; simp

/-! ### What `_insert_updates_in_order` preserves, for ANY update list -/

theorem insertStep_fst (dist : V2 α → V2 α → α) (st : List (V2 α) × Nat × Nat) (u : Nat × V2 α) :
    ∃ k, (insertStep dist st u).1 = insertAt st.1 k u.2 := by
  unfold insertStep
  simp only []
  split_ifs with h
  · split
    · exact ⟨_, rfl⟩
    · exact ⟨_, rfl⟩
  · exact ⟨_, rfl⟩

theorem foldl_insertStep_perm (dist : V2 α → V2 α → α) (R : List (Nat × V2 α))
    (st : List (V2 α) × Nat × Nat) :
    (R.foldl (insertStep dist) st).1.Perm (st.1 ++ R.map (·.2)) := by
  induction R generalizing st with
  | nil => simp
  | cons u t ih =>
    rw [List.foldl_cons]
    refine (ih _).trans ?_
    obtain ⟨k, hk⟩ := insertStep_fst dist st u
    rw [hk, List.map_cons]
    refine ((insertAt_perm st.1 k u.2).append_right _).trans ?_
    simp only [List.cons_append]
    exact List.perm_middle.symm

theorem foldl_insertStep_sublist (dist : V2 α → V2 α → α) (R : List (Nat × V2 α))
    (st : List (V2 α) × Nat × Nat) :
    st.1.Sublist (R.foldl (insertStep dist) st).1 := by
  induction R generalizing st with
  | nil => simp
  | cons u t ih =>
    rw [List.foldl_cons]
    obtain ⟨k, hk⟩ := insertStep_fst dist st u
    exact ((insertAt_sublist st.1 k u.2).trans (by rw [← hk])).trans (ih _)

/-- The vertex multiset after the insertion is the old one plus the inserted points. -/
theorem insertUpdates_perm (dist : V2 α → V2 α → α) (vs : List (V2 α)) (ups : List (Nat × V2 α)) :
    (insertUpdates dist vs ups).Perm (vs ++ ups.map (·.2)) := by
  unfold insertUpdates
  refine (foldl_insertStep_perm dist _ (vs, 0, 0)).trans ?_
  refine List.Perm.append_left _ ?_
  exact ((List.reverse_perm _).trans (sortByIdx_perm ups)).map _

/-- The original vertices stay, in their order. -/
theorem insertUpdates_sublist (dist : V2 α → V2 α → α) (vs : List (V2 α))
    (ups : List (Nat × V2 α)) : vs.Sublist (insertUpdates dist vs ups) :=
  foldl_insertStep_sublist dist _ (vs, 0, 0)

/-- Members of a block come from updates with that index. -/
theorem mem_blockOf {β γ : Type} [LinearOrder γ] (d : β → γ) (i : Nat) (R : List (Nat × β)) (p : β)
    (hp : p ∈ blockOf d i R) : (i, p) ∈ R := by
  have := (blockOf_perm d i R).mem_iff.1 hp
  obtain ⟨u, hu, rfl⟩ := List.mem_map.1 this
  obtain ⟨hu1, hu2⟩ := List.mem_filter.1 hu
  have : u.1 = i := by simpa using hu2
  subst this
  exact hu1

/-- **The region is unchanged**: if every update point lies on the line of its segment, the
shoelace sum of the polygon is the same after the insertion. -/
theorem insertUpdates_shoelace (dist : V2 α → V2 α → α) (vs : List (V2 α))
    (ups : List (Nat × V2 α)) (hlt : ∀ u ∈ ups, u.1 < vs.length)
    (hon : ∀ u ∈ ups, OnLine (vs.getD u.1 ⟨0, 0⟩) (nextV vs u.1) u.2) :
    shoelace (insertUpdates dist vs ups) = shoelace vs := by
  rw [insertUpdates_eq_expand dist vs ups hlt]
  apply shoelace_expand
  intro i _ p hp
  have h1 := mem_blockOf _ i _ p hp
  have h2 : (i, p) ∈ ups := (sortByIdx_perm ups).mem_iff.1 (List.mem_reverse.1 h1)
  exact hon (i, p) h2

/-! ### The update lists of `intersect_segments` -/

/-- The rule of `polygon1_updates`, as coded. -/
theorem mem_updatesOnto (dist : V2 α → V2 α → α) (tol : α) (p1 p2 : List (V2 α)) (i : Nat)
    (x : V2 α) :
    (i, x) ∈ updatesOnto dist tol p1 p2 ↔
      ∃ s1 s2, (PointInside.segments p1)[i]? = some s1 ∧ s2 ∈ PointInside.segments p2 ∧
        x = closest_point2d_on_line2d_s s2.p s1 ∧ ¬ tol < dist x s2.p ∧
        farFromAll dist tol p1 x = true := by
  unfold updatesOnto
  simp only [List.mem_flatMap, List.mem_filterMap]
  constructor
  · rintro ⟨⟨s1, k⟩, hs1, s2, hs2, h⟩
    simp only [] at h
    split_ifs at h with hc
    · simp only [Option.some.injEq, Prod.mk.injEq] at h
      obtain ⟨rfl, rfl⟩ := h
      have := List.mem_zipIdx_iff_getElem?.1 hs1
      simp only [Bool.and_eq_true, decide_eq_true_eq] at hc
      exact ⟨s1, s2, this, hs2, rfl, hc.1, hc.2⟩
  · rintro ⟨s1, s2, h1, h2, rfl, h3, h4⟩
    refine ⟨(s1, i), List.mem_zipIdx_iff_getElem?.2 h1, s2, h2, ?_⟩
    simp only []
    rw [if_pos (by simp [h3, h4])]

/-- The rule of `polygon2_updates`, as coded. -/
theorem mem_updatesOnto' (dist : V2 α → V2 α → α) (tol : α) (p1 p2 : List (V2 α)) (i : Nat)
    (y : V2 α) :
    (i, y) ∈ updatesOnto' dist tol p1 p2 ↔
      ∃ s1 s2, s1 ∈ PointInside.segments p1 ∧ (PointInside.segments p2)[i]? = some s2 ∧
        y = closest_point2d_on_line2d_s s1.p s2 ∧ ¬ tol < dist y s1.p ∧
        farFromAll dist tol p2 y = true := by
  unfold updatesOnto'
  simp only [List.mem_flatMap, List.mem_filterMap]
  constructor
  · rintro ⟨s1, hs1, ⟨s2, k⟩, hs2, h⟩
    simp only [] at h
    split_ifs at h with hc
    · simp only [Option.some.injEq, Prod.mk.injEq] at h
      obtain ⟨rfl, rfl⟩ := h
      have := List.mem_zipIdx_iff_getElem?.1 hs2
      simp only [Bool.and_eq_true, decide_eq_true_eq] at hc
      exact ⟨s1, s2, hs1, this, rfl, hc.1, hc.2⟩
  · rintro ⟨s1, s2, h1, h2, rfl, h3, h4⟩
    refine ⟨s1, h1, (s2, i), List.mem_zipIdx_iff_getElem?.2 h2, ?_⟩
    simp only []
    rw [if_pos (by simp [h3, h4])]

/-- An update `(i, x)` produced against the segments of `vs` has a valid index and `x` lies on
the line of segment `i`. -/
theorem update_valid (vs : List (V2 α)) (i : Nat) (s : LR2 α) (q x : V2 α)
    (hs : (PointInside.segments vs)[i]? = some s) (hx : x = closest_point2d_on_line2d_s q s) :
    i < vs.length ∧ OnLine (vs.getD i ⟨0, 0⟩) (nextV vs i) x := by
  have hi : i < vs.length := by
    have := (List.getElem?_eq_some_iff.1 hs).1
    rwa [segments_length] at this
  refine ⟨hi, ?_⟩
  rw [segments_getElem? vs i hi] at hs
  have : s = seg2_from_end_points (vs.getD i ⟨0, 0⟩) (nextV vs i) := by
    simpa using hs.symm
  rw [hx, this]
  exact closest_onLine _ _ _

/-- One polygon refines another: same vertices in order plus extra ones, same shoelace sum. -/
def Refines (a b : List (V2 α)) : Prop := a.Sublist b ∧ shoelace b = shoelace a

omit [LinearOrder α] in
theorem Refines.refl (a : List (V2 α)) : Refines a a := ⟨List.Sublist.refl _, rfl⟩
omit [LinearOrder α] in
theorem Refines.trans {a b c : List (V2 α)} (h1 : Refines a b) (h2 : Refines b c) : Refines a c :=
  ⟨h1.1.trans h2.1, h2.2.trans h1.2⟩

/-- `intersect_segments` refines both polygons. -/
theorem intersectSegments_refines (dist : V2 α → V2 α → α) (tol : α) (p1 p2 : List (V2 α)) :
    Refines p1 (intersectSegments dist tol p1 p2).1 ∧
      Refines p2 (intersectSegments dist tol p1 p2).2 := by
  unfold intersectSegments
  split_ifs with hb
  · refine ⟨⟨insertUpdates_sublist _ _ _, ?_⟩, ⟨insertUpdates_sublist _ _ _, ?_⟩⟩
    · apply insertUpdates_shoelace
      · intro u hu
        obtain ⟨s1, s2, h1, _, h3, _⟩ := (mem_updatesOnto dist tol p1 p2 u.1 u.2).1 hu
        exact (update_valid p1 u.1 s1 s2.p u.2 h1 h3).1
      · intro u hu
        obtain ⟨s1, s2, h1, _, h3, _⟩ := (mem_updatesOnto dist tol p1 p2 u.1 u.2).1 hu
        exact (update_valid p1 u.1 s1 s2.p u.2 h1 h3).2
    · apply insertUpdates_shoelace
      · intro u hu
        obtain ⟨s1, s2, _, h2, h3, _⟩ := (mem_updatesOnto' dist tol p1 p2 u.1 u.2).1 hu
        exact (update_valid p2 u.1 s2 s1.p u.2 h2 h3).1
      · intro u hu
        obtain ⟨s1, s2, _, h2, h3, _⟩ := (mem_updatesOnto' dist tol p1 p2 u.1 u.2).1 hu
        exact (update_valid p2 u.1 s2 s1.p u.2 h2 h3).2
  · exact ⟨Refines.refl _, Refines.refl _⟩

/-! ### `intersect_polygon_segments` -/

omit [LinearOrder α] in
theorem forall2_set {R : List (V2 α) → List (V2 α) → Prop} (orig cur : List (List (V2 α)))
    (h : List.Forall₂ R orig cur) (i : Nat) (x : List (V2 α))
    (hx : ∀ o, orig[i]? = some o → R o x) : List.Forall₂ R orig (cur.set i x) := by
  induction h generalizing i with
  | nil => simp
  | cons hab _ ih =>
    cases i with
    | zero => exact List.Forall₂.cons (hx _ (by simp)) ‹_›
    | succ i => exact List.Forall₂.cons hab (ih i (fun o ho => hx o (by simpa using ho)))

omit [LinearOrder α] in
theorem forall2_getD {R : List (V2 α) → List (V2 α) → Prop} (orig cur : List (List (V2 α)))
    (h : List.Forall₂ R orig cur) (i : Nat) (o : List (V2 α)) (ho : orig[i]? = some o) :
    R o (cur.getD i []) := by
  induction h generalizing i with
  | nil => simp at ho
  | cons hab _ ih =>
    cases i with
    | zero => simp at ho; subst ho; simpa using hab
    | succ i => simpa using ih i (by simpa using ho)

theorem isectPairStep_refines (dist : V2 α → V2 α → α) (tol : α)
    (orig cur : List (List (V2 α))) (ij : Nat × Nat) (h : List.Forall₂ Refines orig cur) :
    List.Forall₂ Refines orig (isectPairStep dist tol cur ij) := by
  unfold isectPairStep
  simp only []
  have hr := intersectSegments_refines dist tol (cur.getD ij.1 []) (cur.getD ij.2 [])
  apply forall2_set
  · apply forall2_set _ _ h
    intro o ho
    exact (forall2_getD orig cur h ij.1 o ho).trans hr.1
  · intro o ho
    exact (forall2_getD orig cur h ij.2 o ho).trans hr.2

/-- **`intersect_polygon_segments` refines every polygon**: the list keeps its length, every
polygon keeps its original vertices in their order (extra vertices are only inserted) and its
shoelace sum. -/
theorem intersectPolygonSegments_refines (dist : V2 α → V2 α → α) (tol : α)
    (polys : List (List (V2 α))) :
    List.Forall₂ Refines polys (intersectPolygonSegments dist tol polys) := by
  unfold intersectPolygonSegments
  have gen : ∀ (ps : List (Nat × Nat)) (cur : List (List (V2 α))),
      List.Forall₂ Refines polys cur →
      List.Forall₂ Refines polys (ps.foldl (isectPairStep dist tol) cur) := by
    intro ps
    induction ps with
    | nil => intro cur h; exact h
    | cons ij t ih =>
      intro cur h
      exact ih _ (isectPairStep_refines dist tol polys cur ij h)
  exact gen _ polys (List.forall₂_same.2 (fun a _ => Refines.refl a))

end Isect

end Lbg.Lemmas.JoinOutline
