/-
  Lemmas.JoinOutlineExact — the vertex de-duplication of `joined_intersected_boundary` when
  `is_equivalent` only accepts equal points (tolerance 0, or lattice inputs whose coincident
  vertices are bitwise equal): the index loops are the point loops renamed injectively, hence the
  naked SEGMENTS are the point edges of undirected multiplicity one.
-/
import LbgVerif.Lemmas.JoinOutlineNaked

set_option linter.unusedSectionVars false

namespace Lbg.Lemmas.JoinOutline
open Lbg Lbg.Model.JoinOutline

section Rename
variable {K K' : Type} [DecidableEq K] [DecidableEq K']

theorem cyclicPairs_map {β γ : Type} (f : β → γ) (l : List β) :
    cyclicPairs (l.map f) = (cyclicPairs l).map (Prod.map f f) := by
  unfold cyclicPairs
  rw [List.getLast?_map]
  cases l.getLast? with
  | none => rfl
  | some z =>
    simp only [Option.map_some]
    rw [← List.map_cons, List.zip_map]

theorem allEdges_map (f : K → K') (loops : List (List K)) :
    allEdges (loops.map (·.map f)) = (allEdges loops).map (Prod.map f f) := by
  unfold allEdges
  induction loops with
  | nil => rfl
  | cons l t ih =>
    simp only [List.map_cons, List.flatMap_cons, List.map_append, ih, cyclicPairs_map]

theorem umult_eq_countP (A : List (K × K)) (e : K × K) :
    umult A e = A.countP (fun a => decide (und a = und e)) := by
  unfold umult
  rw [List.count_eq_countP, List.countP_map]
  congr 1

/-- Renaming the vertices injectively (on the vertices that occur) commutes with the selection
of the naked edges. -/
theorem naked_map (f : K → K') (A : List (K × K))
    (hinj : ∀ e ∈ A, ∀ e' ∈ A, ∀ x ∈ [e.1, e.2], ∀ y ∈ [e'.1, e'.2], f x = f y → x = y) :
    (A.map (Prod.map f f)).filter (isNaked (A.map (Prod.map f f))) =
      (A.filter (isNaked A)).map (Prod.map f f) := by
  rw [List.filter_map]
  congr 1
  apply List.filter_congr
  intro e he
  simp only [Function.comp]
  unfold isNaked
  have hd : decide ((Prod.map f f e).1 ≠ (Prod.map f f e).2) = decide (e.1 ≠ e.2) := by
    simp only [Prod.map_fst, Prod.map_snd]
    congr 1
    apply propext
    constructor
    · intro h h'; exact h (by rw [h'])
    · intro h h'; exact h (hinj e he e he e.1 (by simp) e.2 (by simp) h')
  have hu : umult (A.map (Prod.map f f)) (Prod.map f f e) = umult A e := by
    rw [umult_eq_countP, umult_eq_countP, List.countP_map]
    apply List.countP_congr
    intro a ha
    simp only [Function.comp, decide_eq_true_eq]
    rw [und_eq_iff, und_eq_iff]
    constructor
    · rintro (h | h)
      · left
        have h1 := congrArg Prod.fst h
        have h2 := congrArg Prod.snd h
        simp only [Prod.map_fst, Prod.map_snd] at h1 h2
        exact Prod.ext (hinj a ha e he a.1 (by simp) e.1 (by simp) h1)
          (hinj a ha e he a.2 (by simp) e.2 (by simp) h2)
      · right
        have h1 := congrArg Prod.fst h
        have h2 := congrArg Prod.snd h
        simp only [Prod.map_fst, Prod.map_snd] at h1 h2
        exact Prod.ext (hinj a ha e he a.1 (by simp) e.2 (by simp) h1)
          (hinj a ha e he a.2 (by simp) e.1 (by simp) h2)
    · rintro (h | h)
      · left; rw [h]
      · right; rw [h]; rfl
  rw [hd, hu]

theorem mem_allEdges_verts (loops : List (List K)) (e : K × K) (he : e ∈ allEdges loops) :
    (∃ l ∈ loops, e.1 ∈ l) ∧ (∃ l ∈ loops, e.2 ∈ l) := by
  unfold allEdges at he
  obtain ⟨l, hl, hel⟩ := List.mem_flatMap.1 he
  unfold cyclicPairs at hel
  cases hz : l.getLast? with
  | none => rw [hz] at hel; simp at hel
  | some z =>
    rw [hz] at hel
    simp only [] at hel
    have h1 := (List.of_mem_zip hel).1
    have h2 := (List.of_mem_zip hel).2
    refine ⟨⟨l, hl, ?_⟩, ⟨l, hl, h2⟩⟩
    rcases List.mem_cons.1 h1 with h | h
    · rw [h]; exact List.mem_of_getLast? hz
    · exact h

end Rename

section Dedup
variable {P : Type} [DecidableEq P]

theorem findIdx?_exact (eqv : P → P → Bool) (hex : ∀ a b, eqv a b = true ↔ a = b)
    (verts : List P) (v : P) :
    verts.findIdx? (fun vert => eqv v vert) = if v ∈ verts then some (verts.idxOf v) else none := by
  induction verts with
  | nil => simp
  | cons a t ih =>
    rw [List.findIdx?_cons]
    by_cases h : v = a
    · subst h
      simp [(hex v v).2 rfl]
    · have h' : eqv v a = false := by
        cases hc : eqv v a with
        | false => rfl
        | true => exact absurd ((hex v a).1 hc) h
      have h2 : ¬ a = v := fun hc => h hc.symm
      simp only [h', Bool.false_eq_true, if_false, ih, List.mem_cons, h, false_or]
      by_cases hm : v ∈ t
      · simp [hm, List.idxOf_cons, h2]
      · simp [hm]

/-- One vertex: the vertex list is extended by `v` if `v` is new; the recorded index is the
position of `v` in the new list. -/
theorem dedupStep_exact (eqv : P → P → Bool) (hex : ∀ a b, eqv a b = true ↔ a = b)
    (st : List P × List Nat) (v : P) :
    dedupStep eqv st v =
      ((if v ∈ st.1 then st.1 else st.1 ++ [v]),
        st.2 ++ [(if v ∈ st.1 then st.1 else st.1 ++ [v]).idxOf v]) := by
  unfold dedupStep
  rw [findIdx?_exact eqv hex]
  by_cases hm : v ∈ st.1
  · simp [hm]
  · simp only [hm, if_false]
    congr 2
    rw [List.idxOf_append_of_notMem hm]
    simp

theorem dedupLoop_exact (eqv : P → P → Bool) (hex : ∀ a b, eqv a b = true ↔ a = b)
    (loop : List P) (st : List P × List Nat) (hnd : st.1.Nodup) :
    let r := loop.foldl (dedupStep eqv) st
    st.1 <+: r.1 ∧ r.1.Nodup ∧ r.2 = st.2 ++ loop.map (r.1.idxOf ·) ∧ ∀ v ∈ loop, v ∈ r.1 := by
  induction loop generalizing st with
  | nil => simp [hnd]
  | cons v t ih =>
    simp only [List.foldl_cons]
    rw [dedupStep_exact eqv hex]
    set V1 := (if v ∈ st.1 then st.1 else st.1 ++ [v]) with hV1
    have hpre : st.1 <+: V1 := by
      rw [hV1]; split_ifs
      · exact List.prefix_refl _
      · exact List.prefix_append _ _
    have hnd1 : V1.Nodup := by
      rw [hV1]; split_ifs with hm
      · exact hnd
      · rw [List.nodup_append]
        exact ⟨hnd, by simp, by
          intro a ha b hb; rw [List.mem_singleton.1 hb]; exact fun h => hm (h ▸ ha)⟩
    have hv1 : v ∈ V1 := by
      rw [hV1]; split_ifs with hm
      · exact hm
      · simp
    obtain ⟨h1, h2, h3, h4⟩ := ih (V1, st.2 ++ [V1.idxOf v]) hnd1
    refine ⟨hpre.trans h1, h2, ?_, ?_⟩
    · rw [h3, List.map_cons, List.append_assoc]
      congr 2
      obtain ⟨s, hs⟩ := h1
      simp only [List.singleton_append, List.cons.injEq, and_true]
      rw [← hs, List.idxOf_append_of_mem hv1]
    · intro w hw
      rcases List.mem_cons.1 hw with rfl | hw
      · exact h1.subset hv1
      · exact h4 w hw

theorem dedupAll_exact_gen (eqv : P → P → Bool) (hex : ∀ a b, eqv a b = true ↔ a = b)
    (loops : List (List P)) (st : List P × List (List Nat)) (hnd : st.1.Nodup) :
    let r := loops.foldl (fun st loop =>
      let q := loop.foldl (dedupStep eqv) (st.1, [])
      (q.1, st.2 ++ [q.2])) st
    st.1 <+: r.1 ∧ r.1.Nodup ∧
      (∃ news : List (List Nat), r.2 = st.2 ++ news ∧ news.length = loops.length ∧
        ∀ (k : Nat), ∀ l : List P, loops[k]? = some l →
          ∃ V' : List P, V' <+: r.1 ∧ (∀ v ∈ l, v ∈ V') ∧ news[k]? = some (l.map (V'.idxOf ·))) := by
  induction loops generalizing st with
  | nil =>
    simp only [List.foldl_nil]
    exact ⟨List.prefix_refl _, hnd, [], by simp, rfl, by simp⟩
  | cons l t ih =>
    simp only [List.foldl_cons]
    obtain ⟨a1, a2, a3, a4⟩ := dedupLoop_exact eqv hex l (st.1, []) hnd
    simp only [List.nil_append] at a3
    obtain ⟨b1, b2, news, b3, b5, b4⟩ := ih ((l.foldl (dedupStep eqv) (st.1, [])).1,
      st.2 ++ [(l.foldl (dedupStep eqv) (st.1, [])).2]) a2
    refine ⟨a1.trans b1, b2, (l.foldl (dedupStep eqv) (st.1, [])).2 :: news, ?_, ?_, ?_⟩
    · rw [b3]; simp
    · simp [b5]
    · intro k l' hk
      cases k with
      | zero =>
        simp only [List.getElem?_cons_zero, Option.some.injEq] at hk
        subst hk
        exact ⟨_, b1, a4, by simp [a3]⟩
      | succ k =>
        simp only [List.getElem?_cons_succ] at hk ⊢
        exact b4 k l' hk

/-- **De-duplication in the exact case**: the vertex list has no repetitions, every input
vertex is in it, and every loop is recorded as the list of positions of its vertices. -/
theorem dedupAll_exact (eqv : P → P → Bool) (hex : ∀ a b, eqv a b = true ↔ a = b)
    (loops : List (List P)) :
    (dedupAll eqv loops).1.Nodup ∧ (∀ l ∈ loops, ∀ v ∈ l, v ∈ (dedupAll eqv loops).1) ∧
      (dedupAll eqv loops).2 = loops.map (·.map ((dedupAll eqv loops).1.idxOf ·)) := by
  obtain ⟨_, h2, news, h3, h5, h4⟩ := dedupAll_exact_gen eqv hex loops ([], []) List.nodup_nil
  simp only [List.nil_append] at h3
  have hd : dedupAll eqv loops = loops.foldl (fun st loop =>
      let q := loop.foldl (dedupStep eqv) (st.1, [])
      (q.1, st.2 ++ [q.2])) ([], []) := rfl
  rw [hd]
  refine ⟨h2, ?_, ?_⟩
  · intro l hl v hv
    obtain ⟨k, hk⟩ := List.getElem?_of_mem hl
    obtain ⟨V', hV', hmem, _⟩ := h4 k l hk
    exact hV'.subset (hmem v hv)
  · rw [h3]
    apply List.ext_getElem?
    intro k
    rw [List.getElem?_map]
    cases hk : loops[k]? with
    | none =>
      simp only [Option.map_none]
      rw [List.getElem?_eq_none_iff] at hk ⊢
      omega
    | some l =>
      obtain ⟨V', hV', hmem, hn⟩ := h4 k l hk
      rw [hn]
      simp only [Option.map_some, Option.some.injEq]
      apply List.map_congr_left
      intro v hv
      obtain ⟨s, hs⟩ := hV'
      rw [← hs, List.idxOf_append_of_mem (hmem v hv)]

end Dedup

section Segments
variable {α : Type} [Field α] [LinearOrder α] [DecidableEq α]

/-- **Naked segments in the exact case.**  When `is_equivalent` accepts only equal points, the
segments handed to `join_segments` are exactly the directed polygon edges
`(poly[i-1], poly[i])` that are non-degenerate and whose undirected edge occurs once among all
edges of all polygons, in order of appearance. -/
theorem nakedSegments_exact (eqv : V2 α → V2 α → Bool) (hex : ∀ a b, eqv a b = true ↔ a = b)
    (polys : List (List (V2 α))) :
    nakedSegments eqv polys = (allEdges polys).filter (isNaked (allEdges polys)) := by
  obtain ⟨hnd, hmem, hidx⟩ := dedupAll_exact eqv hex polys
  unfold nakedSegments
  simp only []
  rw [hidx, nakedEdges_eq_filter, allEdges_map]
  have hV : ∀ e ∈ allEdges polys, e.1 ∈ (dedupAll eqv polys).1 ∧ e.2 ∈ (dedupAll eqv polys).1 := by
    intro e he
    obtain ⟨⟨l1, hl1, h1⟩, ⟨l2, hl2, h2⟩⟩ := mem_allEdges_verts polys e he
    exact ⟨hmem l1 hl1 _ h1, hmem l2 hl2 _ h2⟩
  rw [naked_map]
  · rw [List.map_map]
    conv_rhs => rw [← List.map_id ((allEdges polys).filter (isNaked (allEdges polys)))]
    apply List.map_congr_left
    intro e he
    have heA := (List.mem_filter.1 he).1
    obtain ⟨h1, h2⟩ := hV e heA
    simp only [Function.comp, Prod.map_fst, Prod.map_snd, id]
    have g1 : (dedupAll eqv polys).1.getD ((dedupAll eqv polys).1.idxOf e.1) ⟨0, 0⟩ = e.1 := by
      rw [List.getD_eq_getElem?_getD, List.getElem?_eq_getElem (List.idxOf_lt_length_of_mem h1)]
      simp
    have g2 : (dedupAll eqv polys).1.getD ((dedupAll eqv polys).1.idxOf e.2) ⟨0, 0⟩ = e.2 := by
      rw [List.getD_eq_getElem?_getD, List.getElem?_eq_getElem (List.idxOf_lt_length_of_mem h2)]
      simp
    rw [g1, g2]
  · intro e he e' he' x hx y hy hxy
    have hxV : x ∈ (dedupAll eqv polys).1 := by
      rcases List.mem_cons.1 hx with rfl | hx
      · exact (hV e he).1
      · rw [List.mem_singleton.1 hx]; exact (hV e he).2
    exact (List.idxOf_inj hxV).1 hxy

end Segments

end Lbg.Lemmas.JoinOutline
