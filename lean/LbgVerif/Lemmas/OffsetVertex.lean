/-
  Lemmas.OffsetVertex — algebra of the mitred offset vertex: the bisector identity and the
  half-angle form `Polygon2D.offset` uses (`rotate(∓ang).normalize() * (±d / sin ang)`).
-/
import LbgVerif.Model.Offset
import Mathlib.Tactic.Ring
import Mathlib.Tactic.FieldSimp
import Mathlib.Tactic.Linarith
import Mathlib.Tactic.LinearCombination
import Mathlib.Tactic.SplitIfs
import Mathlib.Tactic.Positivity

set_option linter.unusedSectionVars false
set_option linter.unusedVariables false

namespace Lbg.Lemmas
open Lbg Lbg.Gen Lbg.Model
variable {α : Type} [Field α] [LinearOrder α] [IsStrictOrderedRing α]

/-- Under the `sqrt` law the length of a non-zero vector is positive and squares to `v·v`. -/
theorem v2_len_pos (M : MathOps α)
    (hsqrt : ∀ x, 0 ≤ x → M.sqrt x * M.sqrt x = x ∧ 0 ≤ M.sqrt x)
    (v : V2 α) (hv : v.x * v.x + v.y * v.y ≠ 0) :
    M.sqrt (v.x * v.x + v.y * v.y) * M.sqrt (v.x * v.x + v.y * v.y) = v.x * v.x + v.y * v.y ∧
    0 < M.sqrt (v.x * v.x + v.y * v.y) := by
  have h0 : 0 ≤ v.x * v.x + v.y * v.y := by nlinarith [mul_self_nonneg v.x, mul_self_nonneg v.y]
  obtain ⟨h1, h2⟩ := hsqrt _ h0
  refine ⟨h1, lt_of_le_of_ne h2 ?_⟩
  intro h; rw [← h] at h1; apply hv; rw [← h1]; ring

/-- The rotated-and-normalised vector `v.rotate(θ).normalize()` with `(c, s) = (cos θ, sin θ)`,
`c² + s² = 1`, is the rotated vector divided by `|v|`. -/
theorem v2_normalize_rotate (M : MathOps α)
    (hsqrt : ∀ x, 0 ≤ x → M.sqrt x * M.sqrt x = x ∧ 0 ≤ M.sqrt x)
    (v : V2 α) (hv : v.x * v.x + v.y * v.y ≠ 0) (θ : α)
    (hcs : M.cos θ * M.cos θ + M.sin θ * M.sin θ = 1) :
    v2_normalize M (v2_rotate M v θ) =
      ⟨(M.cos θ * v.x - M.sin θ * v.y) / M.sqrt (v.x * v.x + v.y * v.y),
       (M.sin θ * v.x + M.cos θ * v.y) / M.sqrt (v.x * v.x + v.y * v.y)⟩ := by
  obtain ⟨_, hr⟩ := v2_len_pos M hsqrt v hv
  have hN : (M.cos θ * v.x - M.sin θ * v.y) * (M.cos θ * v.x - M.sin θ * v.y) +
      (M.sin θ * v.x + M.cos θ * v.y) * (M.sin θ * v.x + M.cos θ * v.y) =
      v.x * v.x + v.y * v.y := by
    linear_combination (v.x * v.x + v.y * v.y) * hcs
  simp only [v2_normalize, v2_rotate, hN, if_neg (ne_of_gt hr)]

/-- **Bisector identity.**  For unit vectors `u₁, u₂` with `u₁·u₂ ≠ -1` the vector
`m = (u₁ + u₂) / (1 + u₁·u₂)` has `m·u₁ = m·u₂ = 1`. -/
theorem bisector_dot (u1 u2 : V2 α) (h1 : V2.normSq u1 = 1) (h2 : V2.normSq u2 = 1)
    (hne : 1 + V2.dot u1 u2 ≠ 0) :
    V2.dot (V2.smul (1 / (1 + V2.dot u1 u2)) (V2.add u1 u2)) u1 = 1 ∧
    V2.dot (V2.smul (1 / (1 + V2.dot u1 u2)) (V2.add u1 u2)) u2 = 1 := by
  simp only [V2.normSq, V2.dot, V2.smul, V2.add] at *
  constructor
  · field_simp
    linear_combination h1
  · field_simp
    linear_combination h2

end Lbg.Lemmas
