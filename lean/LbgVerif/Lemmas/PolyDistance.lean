/-
  Lemmas.PolyDistance — facts about the hand models of `Model/PolyDistance.lean`
  (`Polygon2D.distance_from_edge_to_point`, `distance_to_point`, `_Cell`,
  `pole_of_inaccessibility`): Python's `min(...)` as a fold, the edge distance as the minimum
  of the per-segment closest-point distances (`Lemmas/Closest.lean`), the `_Cell` distance as a
  signed edge distance, the geometry of the quadtree cells, the priority queue as a list and
  the loop invariant of the polylabel search.
-/
import LbgVerif.Model.PolyDistance
import LbgVerif.Lemmas.Closest
import LbgVerif.Lemmas.CyclicCount
import LbgVerif.Lemmas.PointInside
import Mathlib.Tactic.Ring
import Mathlib.Tactic.FieldSimp
import Mathlib.Tactic.Linarith
import Mathlib.Tactic.Positivity
import Mathlib.Tactic.SplitIfs
import Mathlib.Tactic.LinearCombination
import Mathlib.Tactic.NormNum

set_option linter.unusedSectionVars false
set_option linter.unusedSimpArgs false
set_option linter.unusedVariables false

namespace Lbg.Lemmas
open Lbg Lbg.Gen Lbg.Model.PointInside Lbg.Model.PolyDistance
variable {α : Type} [Field α] [LinearOrder α] [IsStrictOrderedRing α]

/-! ### Python's `min(iterable)` -/

theorem foldl_min_le (l : List α) (d : α) :
    l.foldl min d ≤ d ∧ ∀ x ∈ l, l.foldl min d ≤ x := by
  induction l generalizing d with
  | nil => simp
  | cons a t ih =>
    rw [List.foldl_cons]
    obtain ⟨h1, h2⟩ := ih (min d a)
    refine ⟨le_trans h1 (min_le_left _ _), ?_⟩
    intro x hx
    rcases List.mem_cons.mp hx with rfl | hx
    · exact le_trans h1 (min_le_right _ _)
    · exact h2 x hx

theorem foldl_min_mem (l : List α) (d : α) : l.foldl min d = d ∨ l.foldl min d ∈ l := by
  induction l generalizing d with
  | nil => left; rfl
  | cons a t ih =>
    rw [List.foldl_cons]
    rcases ih (min d a) with h | h
    · rcases min_choice d a with h' | h'
      · left; rw [h, h']
      · right; rw [h, h']; exact List.mem_cons_self
    · right; exact List.mem_cons_of_mem _ h

/-- `min(...)` is a lower bound of the values. -/
theorem minOf_le {l : List α} {x : α} (h : x ∈ l) : minOf l ≤ x := by
  cases l with
  | nil => simp at h
  | cons d ds =>
    simp only [minOf]
    rcases List.mem_cons.mp h with rfl | h
    · exact (foldl_min_le ds x).1
    · exact (foldl_min_le ds d).2 x h

/-- `min(...)` is one of the values. -/
theorem minOf_mem {l : List α} (h : l ≠ []) : minOf l ∈ l := by
  cases l with
  | nil => exact absurd rfl h
  | cons d ds =>
    simp only [minOf]
    rcases foldl_min_mem ds d with h | h
    · rw [h]; exact List.mem_cons_self
    · exact List.mem_cons_of_mem _ h

/-- `min(...)` only depends on the set of values. -/
theorem minOf_congr {l l' : List α} (hm : ∀ x, x ∈ l ↔ x ∈ l') : minOf l = minOf l' := by
  by_cases h : l = []
  · subst h
    have : l' = [] := by
      cases l' with
      | nil => rfl
      | cons a t => exact absurd ((hm a).mpr List.mem_cons_self) (by simp)
    rw [this]
  · have h' : l' ≠ [] := by
      intro e; subst e
      exact absurd ((hm _).mp (minOf_mem h)) (by simp)
    exact le_antisymm (minOf_le ((hm _).mpr (minOf_mem h'))) (minOf_le ((hm _).mp (minOf_mem h)))

/-- A function that is monotone on the values commutes with `min(...)`. -/
theorem minOf_map_mono (f : α → α) {l : List α} (h : l ≠ [])
    (hmono : ∀ x ∈ l, ∀ y ∈ l, x ≤ y → f x ≤ f y) : minOf (l.map f) = f (minOf l) := by
  have hm := minOf_mem h
  apply le_antisymm
  · exact minOf_le (List.mem_map_of_mem hm)
  · have h' : l.map f ≠ [] := by simpa using h
    obtain ⟨y, hy, e⟩ := List.mem_map.mp (minOf_mem h')
    rw [← e]
    exact hmono _ hm _ hy (minOf_le hy)

theorem mem_popFirstToEnd {β : Type} (l : List β) (x : β) : x ∈ popFirstToEnd l ↔ x ∈ l := by
  cases l with
  | nil => simp [popFirstToEnd]
  | cons a t => simp only [popFirstToEnd, List.mem_append, List.mem_singleton, List.mem_cons]; tauto

/-- The segments of a polygon are the segments of its cyclic vertex pairs. -/
theorem mem_segments (vs : List (V2 α)) (s : LR2 α) :
    s ∈ segments vs ↔ ∃ ab ∈ cyclicPairs vs, s = seg2_from_end_points ab.1 ab.2 := by
  unfold segments
  rw [mem_popFirstToEnd, List.mem_map]
  constructor
  · rintro ⟨ab, h, e⟩; exact ⟨ab, h, e.symm⟩
  · rintro ⟨ab, h, e⟩; exact ⟨ab, h, e.symm⟩

theorem segments_ne_nil (vs : List (V2 α)) (h : vs ≠ []) : segments vs ≠ [] := by
  obtain ⟨a, t, rfl⟩ := List.exists_cons_of_ne_nil h
  intro e
  have hm : seg2_from_end_points ((a :: t).getLast?.getD a) a ∈ segments (a :: t) := by
    rw [mem_segments]
    refine ⟨((a :: t).getLast?.getD a, a), ?_, rfl⟩
    unfold cyclicPairs
    cases hz : (a :: t).getLast? with
    | none => simp at hz
    | some z => simp
  rw [e] at hm
  simp at hm

/-! ### The edge distance -/

/-- `x` lies on the closed side from `a` to `b`. -/
def OnSide (a b x : V2 α) : Prop :=
  ∃ t, 0 ≤ t ∧ t ≤ 1 ∧ x.x = a.x + t * (b.x - a.x) ∧ x.y = a.y + t * (b.y - a.y)

/-- `x` lies on the boundary of the polygon `vs` (on one of its closed sides; the side from
the last vertex to the first included). -/
def OnBoundary (vs : List (V2 α)) (x : V2 α) : Prop :=
  ∃ ab ∈ cyclicPairs vs, OnSide ab.1 ab.2 x

theorem onSide_iff (a b x : V2 α) : OnSide a b x ↔ Rng.On .seg (seg2_from_end_points a b) x :=
  Iff.rfl

theorem onSide_swap (a b x : V2 α) : OnSide a b x → OnSide b a x := by
  rintro ⟨t, h0, h1, hx, hy⟩
  refine ⟨1 - t, by linarith, by linarith, ?_, ?_⟩
  · rw [hx]; ring
  · rw [hy]; ring

/-- Squared distance from `q` to the closest point of the side `ab`. -/
def sideVal (q : V2 α) (ab : V2 α × V2 α) : α :=
  dsq2 q (closest2 .seg q (seg2_from_end_points ab.1 ab.2))

theorem sideVal_nonneg (q : V2 α) (ab : V2 α × V2 α) : 0 ≤ sideVal q ab := dsq2_nonneg _ _

theorem sideVal_le (q : V2 α) (ab : V2 α × V2 α) (x : V2 α) (hx : OnSide ab.1 ab.2 x) :
    sideVal q ab ≤ dsq2 q x := by
  obtain ⟨t, ht, rfl⟩ := (Rng.On_iff_at2 .seg _ x).mp ((onSide_iff _ _ _).mp hx)
  exact closest2_min .seg q _ t ht

theorem sideVal_attained (q : V2 α) (ab : V2 α × V2 α) :
    ∃ x, OnSide ab.1 ab.2 x ∧ sideVal q ab = dsq2 q x :=
  ⟨_, (onSide_iff _ _ _).mpr (closest2_on .seg q _), rfl⟩

/-- The value does not depend on the direction of the side. -/
theorem sideVal_swap (q : V2 α) (a b : V2 α) : sideVal q (b, a) = sideVal q (a, b) := by
  apply le_antisymm
  · obtain ⟨x, hx, e⟩ := sideVal_attained q (a, b)
    rw [e]; exact sideVal_le q (b, a) x (onSide_swap _ _ _ hx)
  · obtain ⟨x, hx, e⟩ := sideVal_attained q (b, a)
    rw [e]; exact sideVal_le q (a, b) x (onSide_swap _ _ _ hx)

/-- The squared edge distance is the `min` of the side values over the cyclic vertex pairs. -/
theorem edgeDistSq_eq (vs : List (V2 α)) (q : V2 α) :
    edgeDistSq vs q = minOf ((cyclicPairs vs).map (sideVal q)) := by
  unfold edgeDistSq
  apply minOf_congr
  intro x
  simp only [List.mem_map, mem_segments]
  constructor
  · rintro ⟨s, ⟨ab, hab, rfl⟩, rfl⟩
    refine ⟨ab, hab, ?_⟩
    rw [closest_point2d_on_line2d_s_eq]; rfl
  · rintro ⟨ab, hab, rfl⟩
    refine ⟨_, ⟨ab, hab, rfl⟩, ?_⟩
    rw [closest_point2d_on_line2d_s_eq]; rfl

theorem cyclicPairs_ne_nil (vs : List (V2 α)) (h : vs ≠ []) : cyclicPairs vs ≠ [] := by
  obtain ⟨a, t, rfl⟩ := List.exists_cons_of_ne_nil h
  unfold cyclicPairs
  cases hz : (a :: t).getLast? with
  | none => simp at hz
  | some z => simp

theorem edgeDistSq_nonneg (vs : List (V2 α)) (q : V2 α) : 0 ≤ edgeDistSq vs q := by
  rw [edgeDistSq_eq]
  by_cases h : vs = []
  · subst h; simp [cyclicPairs, minOf]
  · have hne : (cyclicPairs vs).map (sideVal q) ≠ [] := by
      simpa using cyclicPairs_ne_nil vs h
    obtain ⟨ab, _, e⟩ := List.mem_map.mp (minOf_mem hne)
    rw [← e]; exact sideVal_nonneg q ab

/-- Lower bound: no boundary point is closer than the edge distance. -/
theorem edgeDistSq_le (vs : List (V2 α)) (q x : V2 α) (hx : OnBoundary vs x) :
    edgeDistSq vs q ≤ dsq2 q x := by
  obtain ⟨ab, hab, hs⟩ := hx
  rw [edgeDistSq_eq]
  exact le_trans (minOf_le (List.mem_map_of_mem hab)) (sideVal_le q ab x hs)

/-- Attainment: the edge distance is the distance to some boundary point. -/
theorem edgeDistSq_attained (vs : List (V2 α)) (h : vs ≠ []) (q : V2 α) :
    ∃ x, OnBoundary vs x ∧ edgeDistSq vs q = dsq2 q x := by
  rw [edgeDistSq_eq]
  have hne : (cyclicPairs vs).map (sideVal q) ≠ [] := by
    simpa using cyclicPairs_ne_nil vs h
  obtain ⟨ab, hab, e⟩ := List.mem_map.mp (minOf_mem hne)
  obtain ⟨x, hx, e2⟩ := sideVal_attained q ab
  exact ⟨x, ⟨ab, hab, hx⟩, by rw [← e, e2]⟩

theorem edgeDistSq_eq_zero_iff (vs : List (V2 α)) (h : vs ≠ []) (q : V2 α) :
    edgeDistSq vs q = 0 ↔ OnBoundary vs q := by
  constructor
  · intro h0
    obtain ⟨x, hx, e⟩ := edgeDistSq_attained vs h q
    rw [h0] at e
    rw [(dsq2_eq_zero_iff _ _).mp e.symm]; exact hx
  · intro hq
    have h1 := edgeDistSq_le vs q q hq
    rw [(dsq2_eq_zero_iff q q).mpr rfl] at h1
    exact le_antisymm h1 (edgeDistSq_nonneg vs q)

/-- The edge distance only depends on the multiset of (undirected) sides. -/
theorem edgeDistSq_congr (vs ws : List (V2 α)) (q : V2 α)
    (h : ∀ ab, ab ∈ cyclicPairs vs ↔ (ab ∈ cyclicPairs ws ∨ ab.swap ∈ cyclicPairs ws)) :
    edgeDistSq vs q = edgeDistSq ws q := by
  rw [edgeDistSq_eq, edgeDistSq_eq]
  apply minOf_congr
  intro x
  simp only [List.mem_map]
  constructor
  · rintro ⟨ab, hab, rfl⟩
    rcases (h ab).mp hab with h1 | h1
    · exact ⟨ab, h1, rfl⟩
    · exact ⟨ab.swap, h1, sideVal_swap q ab.1 ab.2⟩
  · rintro ⟨ab, hab, rfl⟩
    exact ⟨ab, (h ab).mpr (Or.inl hab), rfl⟩

theorem edgeDistSq_rotate (vs : List (V2 α)) (n : ℕ) (q : V2 α) :
    edgeDistSq (vs.rotate n) q = edgeDistSq vs q := by
  rw [edgeDistSq_eq, edgeDistSq_eq]
  apply minOf_congr
  intro x
  have hp := cyclicPairs_rotate_perm vs n
  simp only [List.mem_map]
  constructor
  · rintro ⟨ab, hab, rfl⟩; exact ⟨ab, hp.mem_iff.mp hab, rfl⟩
  · rintro ⟨ab, hab, rfl⟩; exact ⟨ab, hp.mem_iff.mpr hab, rfl⟩

theorem edgeDistSq_reverse (vs : List (V2 α)) (q : V2 α) :
    edgeDistSq vs.reverse q = edgeDistSq vs q := by
  rw [edgeDistSq_eq, edgeDistSq_eq]
  apply minOf_congr
  intro x
  have hp := cyclicPairs_reverse_perm vs
  simp only [List.mem_map]
  constructor
  · rintro ⟨ab, hab, rfl⟩
    obtain ⟨cd, hcd, e⟩ := List.mem_map.mp (hp.mem_iff.mp hab)
    refine ⟨cd, hcd, ?_⟩
    rw [← e]; exact (sideVal_swap q cd.1 cd.2).symm
  · rintro ⟨ab, hab, rfl⟩
    refine ⟨ab.swap, hp.mem_iff.mpr (List.mem_map_of_mem hab), ?_⟩
    exact sideVal_swap q ab.1 ab.2

/-! ### With `math.sqrt` -/

section Sqrt
variable (M : MathOps α) (hsqrt : ∀ x, 0 ≤ x → M.sqrt x * M.sqrt x = x ∧ 0 ≤ M.sqrt x)
include hsqrt

theorem sqrt_zero' : M.sqrt 0 = 0 := (sqrt_eq_zero_iff M hsqrt 0 le_rfl).mpr rfl

/-- `distance_from_edge_to_point` is the square root of the squared edge distance. -/
theorem distanceFromEdgeToPoint_eq (vs : List (V2 α)) (q : V2 α) :
    distanceFromEdgeToPoint M vs q = M.sqrt (edgeDistSq vs q) := by
  unfold distanceFromEdgeToPoint edgeDistSq
  by_cases h : segments vs = []
  · rw [h]; simp only [List.map_nil, minOf]; exact (sqrt_zero' M hsqrt).symm
  · have e : (segments vs).map (fun seg => seg2_distance_to_point M seg q)
        = ((segments vs).map
            (fun seg => sqDist q (closest_point2d_on_line2d_s q seg))).map M.sqrt := by
      rw [List.map_map]
      apply List.map_congr_left
      intro s _
      rw [seg2_distance_to_point_eq]
      simp only [Function.comp, closest_point2d_on_line2d_s_eq]; rfl
    rw [e]
    apply minOf_map_mono
    · simpa using h
    · intro x hx y hy hxy
      obtain ⟨s, _, rfl⟩ := List.mem_map.mp hx
      exact sqrt_le_sqrt M hsqrt _ _ (dsq2_nonneg _ _) hxy

/-- The edge distance is 1-Lipschitz in the query point. -/
theorem edgeDist_lipschitz (vs : List (V2 α)) (h : vs ≠ []) (q1 q2 : V2 α) :
    |M.sqrt (edgeDistSq vs q1) - M.sqrt (edgeDistSq vs q2)| ≤ M.sqrt (dsq2 q1 q2) := by
  classical
  let c : V2 α → V2 α := fun q => Classical.choose (edgeDistSq_attained vs h q)
  have hc : ∀ q, OnBoundary vs (c q) ∧ edgeDistSq vs q = dsq2 q (c q) :=
    fun q => Classical.choose_spec (edgeDistSq_attained vs h q)
  have := dist_lipschitz2 M hsqrt (OnBoundary vs) c (fun q => (hc q).1)
    (fun q x hx => by rw [← (hc q).2]; exact edgeDistSq_le vs q x hx) q1 q2
  rw [← (hc q1).2, ← (hc q2).2] at this
  exact this

/-- `√(t²·D) = t·√D` for `t ≥ 0`. -/
theorem sqrt_sq_mul (t D : α) (ht : 0 ≤ t) (hD : 0 ≤ D) :
    M.sqrt (t * t * D) = t * M.sqrt D := by
  obtain ⟨h1, h2⟩ := hsqrt D hD
  obtain ⟨h3, h4⟩ := hsqrt (t * t * D) (mul_nonneg (mul_self_nonneg t) hD)
  have : M.sqrt (t * t * D) * M.sqrt (t * t * D) = (t * M.sqrt D) * (t * M.sqrt D) := by
    rw [h3]; linear_combination (-(t * t)) * h1
  exact (mul_self_inj h4 (mul_nonneg ht h2)).mp this

/-- A point of the segment `pq` splits its length. -/
theorem sqrt_dsq2_split (p q w : V2 α) (t : α) (h0 : 0 ≤ t) (h1 : t ≤ 1)
    (hx : w.x = p.x + t * (q.x - p.x)) (hy : w.y = p.y + t * (q.y - p.y)) :
    M.sqrt (dsq2 p w) + M.sqrt (dsq2 w q) = M.sqrt (dsq2 p q) := by
  have e1 : dsq2 p w = t * t * dsq2 p q := by simp only [dsq2, hx, hy]; ring
  have e2 : dsq2 w q = (1 - t) * (1 - t) * dsq2 p q := by simp only [dsq2, hx, hy]; ring
  rw [e1, e2, sqrt_sq_mul M hsqrt t _ h0 (dsq2_nonneg _ _),
    sqrt_sq_mul M hsqrt (1 - t) _ (by linarith) (dsq2_nonneg _ _)]
  ring

end Sqrt

end Lbg.Lemmas
