/-
  Lemmas.Earcut — algebra behind the segment-intersection predicate of `triangulation.py`
  (`_area`, `_intersects`): the four orientation values of two segments in terms of the
  crossing parameters, and back (Cramer).
-/
import LbgVerif.Gen.Tri
import Mathlib.Tactic.Ring
import Mathlib.Tactic.FieldSimp
import Mathlib.Tactic.Linarith
import Mathlib.Tactic.LinearCombination

namespace Lbg.Lemmas
open Lbg Lbg.Gen

set_option linter.unusedSectionVars false

variable {α : Type} [Field α] [LinearOrder α] [IsStrictOrderedRing α]

/-- Python's `(x > 0) != (y > 0)`: exactly one of the two values is positive. -/
def SignDiffers (x y : α) : Prop := decide (0 < x) ≠ decide (0 < y)

/-- `SignDiffers` as a proposition about the two sign tests. -/
theorem signDiffers_iff_not_iff (x y : α) : SignDiffers x y ↔ ¬ ((0 < x) ↔ (0 < y)) := by
  unfold SignDiffers
  by_cases hx : 0 < x <;> by_cases hy : 0 < y <;> simp [hx, hy]

/-- `SignDiffers`: one value is positive, the other is not. -/
theorem signDiffers_iff (x y : α) :
    SignDiffers x y ↔ (0 < x ∧ y ≤ 0) ∨ (x ≤ 0 ∧ 0 < y) := by
  rw [signDiffers_iff_not_iff]
  by_cases hx : 0 < x <;> by_cases hy : 0 < y <;> simp [hx, hy, not_lt.mp]

/-- If the signs differ then `x / (x − y)` lies in `[0, 1]`; if moreover neither value is zero
it lies in `(0, 1)`. -/
theorem signDiffers_frac {x y : α} (h : SignDiffers x y) :
    x - y ≠ 0 ∧ 0 ≤ x / (x - y) ∧ x / (x - y) ≤ 1 ∧
      (x ≠ 0 → y ≠ 0 → 0 < x / (x - y) ∧ x / (x - y) < 1) := by
  rcases (signDiffers_iff x y).mp h with ⟨hx, hy⟩ | ⟨hx, hy⟩
  · have hd : 0 < x - y := by linarith
    refine ⟨hd.ne', div_nonneg hx.le hd.le, (div_le_one hd).mpr (by linarith), ?_⟩
    intro _ hy0
    have hy' : y < 0 := lt_of_le_of_ne hy hy0
    exact ⟨div_pos hx hd, (div_lt_one hd).mpr (by linarith)⟩
  · have hd : 0 < y - x := by linarith
    have hrw : x / (x - y) = (-x) / (y - x) := by
      rw [← neg_div_neg_eq, neg_sub]
    rw [hrw]
    refine ⟨by intro h0; linarith, div_nonneg (by linarith) hd.le,
      (div_le_one hd).mpr (by linarith), ?_⟩
    intro hx0 _
    have hx' : x < 0 := lt_of_le_of_ne hx hx0
    exact ⟨div_pos (by linarith) hd, (div_lt_one hd).mpr (by linarith)⟩

/-- `area(p1,q1,p2) − area(p1,q1,q2)` is the direction determinant `det(q1−p1, q2−p2)`. -/
theorem earcut_area_diff₁ (p1 q1 p2 q2 : V2 α) :
    earcut_area p1 q1 p2 - earcut_area p1 q1 q2 =
      V2.det (V2.sub q1 p1) (V2.sub q2 p2) := by
  simp only [earcut_area, V2.det, V2.sub]; ring

/-- `area(p2,q2,p1) − area(p2,q2,q1)` is minus the direction determinant. -/
theorem earcut_area_diff₂ (p1 q1 p2 q2 : V2 α) :
    earcut_area p2 q2 p1 - earcut_area p2 q2 q1 =
      - V2.det (V2.sub q1 p1) (V2.sub q2 p2) := by
  simp only [earcut_area, V2.det, V2.sub]; ring

/-- If `p1 + s(q1−p1) = p2 + t(q2−p2)` then the four orientation values are
`t·D, −(1−t)·D, −s·D, (1−s)·D` with `D = det(q1−p1, q2−p2)`. -/
theorem earcut_areas_of_crossing (p1 q1 p2 q2 : V2 α) (s t : α)
    (hx : p1.x + s * (q1.x - p1.x) = p2.x + t * (q2.x - p2.x))
    (hy : p1.y + s * (q1.y - p1.y) = p2.y + t * (q2.y - p2.y)) :
    earcut_area p1 q1 p2 = t * V2.det (V2.sub q1 p1) (V2.sub q2 p2) ∧
    earcut_area p1 q1 q2 = -(1 - t) * V2.det (V2.sub q1 p1) (V2.sub q2 p2) ∧
    earcut_area p2 q2 p1 = -s * V2.det (V2.sub q1 p1) (V2.sub q2 p2) ∧
    earcut_area p2 q2 q1 = (1 - s) * V2.det (V2.sub q1 p1) (V2.sub q2 p2) := by
  simp only [earcut_area, V2.det, V2.sub]
  refine ⟨?_, ?_, ?_, ?_⟩
  · linear_combination (-(q1.y - p1.y)) * hx + (q1.x - p1.x) * hy
  · linear_combination (-(q1.y - p1.y)) * hx + (q1.x - p1.x) * hy
  · linear_combination ((q2.y - p2.y)) * hx - (q2.x - p2.x) * hy
  · linear_combination ((q2.y - p2.y)) * hx - (q2.x - p2.x) * hy

/-- Cramer: with `D = det(q1−p1, q2−p2) ≠ 0`, `t = area(p1,q1,p2)/D` and
`s = −area(p2,q2,p1)/D` are the parameters of the intersection of the carrier lines. -/
theorem earcut_cramer (p1 q1 p2 q2 : V2 α)
    (hD : V2.det (V2.sub q1 p1) (V2.sub q2 p2) ≠ 0) :
    p1.x + (-earcut_area p2 q2 p1 / V2.det (V2.sub q1 p1) (V2.sub q2 p2)) * (q1.x - p1.x) =
      p2.x + (earcut_area p1 q1 p2 / V2.det (V2.sub q1 p1) (V2.sub q2 p2)) * (q2.x - p2.x) ∧
    p1.y + (-earcut_area p2 q2 p1 / V2.det (V2.sub q1 p1) (V2.sub q2 p2)) * (q1.y - p1.y) =
      p2.y + (earcut_area p1 q1 p2 / V2.det (V2.sub q1 p1) (V2.sub q2 p2)) * (q2.y - p2.y) := by
  have he : V2.det (V2.sub q1 p1) (V2.sub q2 p2) * (V2.det (V2.sub q1 p1) (V2.sub q2 p2))⁻¹ = 1 :=
    mul_inv_cancel₀ hD
  simp only [div_eq_mul_inv]
  generalize (V2.det (V2.sub q1 p1) (V2.sub q2 p2))⁻¹ = e at he ⊢
  simp only [earcut_area, V2.det, V2.sub] at he ⊢
  constructor
  · linear_combination (-(p1.x - p2.x)) * he
  · linear_combination (-(p1.y - p2.y)) * he

end Lbg.Lemmas
