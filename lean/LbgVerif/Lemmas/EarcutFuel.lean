/-
  Lemmas.EarcutFuel — the fuel arguments of `Model/Earcut.lean` are irrelevant once large
  enough: one more unit of fuel does not change the result of `filterLoop`, `cureLoop`,
  `linked` as soon as the fuel is at least an explicit polynomial in the ring length, and
  the fuel the model passes (`filterFuel`, `linkedFuel`) is above that bound.
-/
import LbgVerif.Model.Earcut
import LbgVerif.Lemmas.EarcutRun
import Mathlib.Tactic.Ring
import Mathlib.Tactic.Linarith

namespace Lbg.Lemmas
open Lbg Lbg.Gen Lbg.Model.Earcut

set_option linter.unusedSectionVars false

section fuel
variable {α : Type} [Field α] [LinearOrder α]
variable (v : Nat → V2 α)

/-! ### `_filter_points` -/

/-- One more unit of fuel does not change `filterLoop` once `length² + r ≤ fuel`. -/
theorem filterLoop_succ (f : Nat) (ring : Ring) (r : Nat) (acc : List Ev)
    (pos : Option (Nat × Bool)) (h : ring.length * ring.length + r ≤ f) :
    filterLoop v (f + 1) ring r acc pos = filterLoop v f ring r acc pos := by
  induction f generalizing ring r acc pos with
  | zero =>
    have hr : r = 0 := by omega
    simp [filterLoop, hr]
  | succ f ih =>
    unfold filterLoop
    by_cases hr : r = 0
    · simp [hr]
    · simp only [hr, if_false]
      cases ring with
      | nil => rfl
      | cons b tl =>
        simp only []
        have hlen : (b :: tl).length = tl.length + 1 := rfl
        split_ifs with hrem hl
        · rfl
        · apply ih
          rw [length_rotR]
          rw [hlen] at h
          nlinarith
        · apply ih
          simp only [List.length_append, List.length_singleton]
          rw [hlen] at h
          omega

/-- `filterLoop` does not depend on the fuel above `length² + r`. -/
theorem filterLoop_fuel (f g : Nat) (ring : Ring) (r : Nat) (acc : List Ev)
    (pos : Option (Nat × Bool)) (hf : ring.length * ring.length + r ≤ f) (hg : f ≤ g) :
    filterLoop v g ring r acc pos = filterLoop v f ring r acc pos := by
  induction g with
  | zero =>
    have : f = 0 := by omega
    subst this; rfl
  | succ g ih =>
    by_cases h : f = g + 1
    · subst h; rfl
    · rw [filterLoop_succ v g ring r acc pos (by omega)]
      exact ih (by omega)

/-- The fuel `filterAll`/`filterTwo` pass is enough: any larger fuel gives the same result. -/
theorem filterFuel_enough (ring : Ring) (r : Nat) (hr : r ≤ ring.length) (g : Nat)
    (hg : filterFuel ring.length ≤ g) (acc : List Ev) (pos : Option (Nat × Bool)) :
    filterLoop v g ring r acc pos = filterLoop v (filterFuel ring.length) ring r acc pos := by
  apply filterLoop_fuel v _ _ _ _ _ _ _ hg
  unfold filterFuel
  nlinarith

/-! ### `_cure_local_intersections` -/

/-- One more unit of fuel does not change `cureLoop` once `length² + r ≤ fuel`. -/
theorem cureLoop_succ (f : Nat) (ring : Ring) (r : Nat) (acc : List Ev)
    (h : ring.length * ring.length + r ≤ f) :
    cureLoop v (f + 1) ring r acc = cureLoop v f ring r acc := by
  induction f generalizing ring r acc with
  | zero =>
    have hr : r = 0 := by omega
    simp [cureLoop, hr]
  | succ f ih =>
    unfold cureLoop
    by_cases hr : r = 0
    · simp [hr]
    · simp only [hr, if_false]
      rcases ring with _ | ⟨p, _ | ⟨q, _ | ⟨b, _ | ⟨bn, rest⟩⟩⟩⟩
      · rfl
      · exact ih _ _ _ (by simp at h ⊢; omega)
      · exact ih _ _ _ (by simp at h ⊢; omega)
      · exact ih _ _ _ (by simp at h ⊢; omega)
      · simp only []
        split_ifs with hc
        · apply ih
          simp only [List.length_cons, List.length_append, List.length_nil] at h ⊢
          nlinarith
        · apply ih
          simp only [List.length_cons, List.length_append, List.length_nil, zero_add] at h ⊢
          omega

/-- `cureLoop` does not depend on the fuel above `length² + r`. -/
theorem cureLoop_fuel (f g : Nat) (ring : Ring) (r : Nat) (acc : List Ev)
    (hf : ring.length * ring.length + r ≤ f) (hg : f ≤ g) :
    cureLoop v g ring r acc = cureLoop v f ring r acc := by
  induction g with
  | zero =>
    have : f = 0 := by omega
    subst this; rfl
  | succ g ih =>
    by_cases h : f = g + 1
    · subst h; rfl
    · rw [cureLoop_succ v g ring r acc (by omega)]
      exact ih (by omega)

/-- The fuel `cure` passes is enough: any larger fuel gives the same result. -/
theorem cureFuel_enough (ring : Ring) (g : Nat) (hg : filterFuel ring.length ≤ g) :
    cureLoop v g ring ring.length [] = cure v ring := by
  unfold cure
  apply cureLoop_fuel v _ _ _ _ _ _ hg
  unfold filterFuel
  nlinarith

/-! ### Lengths -/

/-- `_filter_points` never makes a ring longer. -/
theorem filterLoop_length (f : Nat) (ring : Ring) (r : Nat) (acc : List Ev)
    (pos : Option (Nat × Bool)) : (filterLoop v f ring r acc pos).ring.length ≤ ring.length := by
  induction f generalizing ring r acc pos with
  | zero => simp [filterLoop]
  | succ f ih =>
    unfold filterLoop
    by_cases hr : r = 0
    · simp [hr]
    · simp only [hr, if_false]
      cases ring with
      | nil => simp
      | cons b tl =>
        simp only []
        split_ifs with hrem hl
        · simp
        · exact (ih _ _ _ _).trans (by simp)
        · exact (ih _ _ _ _).trans (by simp)

/-- `_cure_local_intersections` never makes a ring longer. -/
theorem cureLoop_length (f : Nat) (ring : Ring) (r : Nat) (acc : List Ev) :
    (cureLoop v f ring r acc).2.length ≤ ring.length := by
  induction f generalizing ring r acc with
  | zero => simp [cureLoop]
  | succ f ih =>
    unfold cureLoop
    by_cases hr : r = 0
    · simp [hr]
    · simp only [hr, if_false]
      rcases ring with _ | ⟨p, _ | ⟨q, _ | ⟨b, _ | ⟨bn, rest⟩⟩⟩⟩
      · simp
      · exact (ih _ _ _).trans (by simp)
      · exact (ih _ _ _).trans (by simp)
      · exact (ih _ _ _).trans (by simp)
      · simp only []
        split_ifs with hc
        · exact (ih _ _ _).trans (by simp)
        · exact (ih _ _ _).trans (by simp)

/-- Both parts of a split are strictly shorter than the ring. -/
theorem splitAt_length (rg : Ring) (j : Nat) (h1 : 2 ≤ j) (h2 : j + 2 ≤ rg.length) :
    (splitAt rg j).1.length + 1 ≤ rg.length ∧ (splitAt rg j).2.length + 1 ≤ rg.length := by
  cases rg with
  | nil => simp at h2
  | cons a tl =>
    simp only [splitAt, List.length_cons, List.length_drop, List.length_take] at h2 ⊢
    omega

/-! ### `_earcut_linked` -/

/-- Fuel bound for `linked` on a ring of `n` nodes in pass `p` after `k` cursor steps. -/
def phi (n p k : Nat) : Nat := n * (3 * n + 3) + (2 - p) * (n + 1) + (n - k)

/-- A cursor step lowers `phi`. -/
theorem phi_step (n p k : Nat) (h : k + 1 < n) : phi n p (k + 1) + 1 ≤ phi n p k := by
  unfold phi; omega

/-- Cutting an ear lowers `phi`. -/
theorem phi_ear (m p k : Nat) (h : k ≤ m) : phi m p 0 + 1 ≤ phi (m + 1) p k := by
  unfold phi
  have h1 : (2 - p) * (m + 1) ≤ (2 - p) * (m + 1 + 1) := Nat.mul_le_mul_left _ (by omega)
  have h2 : (m + 1) * (3 * (m + 1) + 3) = m * (3 * m + 3) + 6 * m + 6 := by ring
  rw [h2]; omega

/-- `phi` is monotone in the ring length. -/
theorem phi_mono (n' n p : Nat) (h : n' ≤ n) : phi n' p 0 ≤ phi n p 0 := by
  unfold phi
  have h1 : n' * (3 * n' + 3) ≤ n * (3 * n + 3) := Nat.mul_le_mul h (by omega)
  have h2 : (2 - p) * (n' + 1) ≤ (2 - p) * (n + 1) := Nat.mul_le_mul_left _ (by omega)
  omega

/-- Going to the next pass on a ring that is not longer lowers `phi`. -/
theorem phi_pass (n' n p k : Nat) (h : n' ≤ n) (hp : p < 2) (hk : k + 1 = n) :
    phi n' (p + 1) 0 + 1 ≤ phi n p k := by
  refine (Nat.add_le_add_right (phi_mono n' n (p + 1) h) 1).trans ?_
  unfold phi
  have : 2 - p = (2 - (p + 1)) + 1 := by omega
  rw [this, Nat.add_mul]
  omega

/-- Restarting at pass 0 on a strictly shorter ring lowers `phi`. -/
theorem phi_split (n' n k : Nat) (h : n' + 1 ≤ n) (hk : k + 1 = n) :
    phi n' 0 0 + 1 ≤ phi n 2 k := by
  obtain ⟨m, rfl⟩ : ∃ m, n = m + 1 := ⟨n - 1, by omega⟩
  refine (Nat.add_le_add_right (phi_mono n' m 0 (by omega)) 1).trans ?_
  unfold phi
  have h2 : (m + 1) * (3 * (m + 1) + 3) = m * (3 * m + 3) + 6 * m + 6 := by ring
  rw [h2]; omega

/-- **Fuel is irrelevant for `linked` once above `phi`**: one more unit changes nothing. -/
theorem linked_succ (f : Nat) (ring : Ring) (k pass : Nat) (hp : pass ≤ 2)
    (hk : k < ring.length ∨ ring.length < 3) (hf : phi ring.length pass k < f) :
    linked v (f + 1) ring k pass = linked v f ring k pass := by
  induction f generalizing ring k pass with
  | zero => omega
  | succ f ih =>
    rcases ring with _ | ⟨b, _ | ⟨c, _ | ⟨d, rest⟩⟩⟩
    · simp [linked]
    · simp [linked]
    · simp [linked]
    · have hk' : k < (b :: c :: d :: rest).length := by
        rcases hk with h | h
        · exact h
        · simp only [List.length_cons] at h; omega
      unfold linked
      simp only []
      have hlen' : (c :: d :: rest ++ [b]).length = (b :: c :: d :: rest).length := by simp
      split_ifs with hear hkk h0 hdead h1
      · -- ear
        congr 1
        apply ih _ _ _ hp (Or.inl (by simp))
        have := phi_ear (rest.length + 1 + 1) pass k (by simp at hk'; omega)
        simp only [List.length_cons, List.length_append, List.length_nil, zero_add] at hf ⊢
        omega
      · rfl
      · congr 1
        apply ih _ _ _ (by omega) (by omega)
        have hl := filterLoop_length v (filterFuel (c :: d :: rest ++ [b]).length)
          (c :: d :: rest ++ [b]) (c :: d :: rest ++ [b]).length [] none
        have := phi_pass (filterAll v (c :: d :: rest ++ [b])).ring.length
          (b :: c :: d :: rest).length pass k (by rw [← hlen']; exact hl) (by omega) hkk
        simp only [h0, zero_add] at this hf ⊢
        omega
      · congr 1
        apply ih _ _ _ (by omega) (by omega)
        have hl := cureLoop_length v (filterFuel (c :: d :: rest ++ [b]).length)
          (c :: d :: rest ++ [b]) (c :: d :: rest ++ [b]).length []
        have := phi_pass (cure v (c :: d :: rest ++ [b])).2.length
          (b :: c :: d :: rest).length pass k (by rw [← hlen']; exact hl) (by omega) hkk
        simp only [h1, Nat.reduceAdd] at this hf ⊢
        omega
      · have hp2 : pass = 2 := by omega
        subst hp2
        split
        · rfl
        · rename_i rg j hfs
          obtain ⟨⟨s, hs⟩, hj1, hj2⟩ := findSplit_spec hfs
          have hrg : rg.length = (b :: c :: d :: rest).length := by
            rw [hs, List.length_rotate, hlen']
          have hsp := splitAt_length rg j hj1 hj2
          have hl1 := filterLoop_length v (filterFuel (splitAt rg j).1.length)
            (splitAt rg j).1 1 [] none
          have hl2 := filterLoop_length v (filterFuel (splitAt rg j).2.length)
            (splitAt rg j).2 1 [] none
          have e1 : linked v (f + 1) (filterTwo v (splitAt rg j).1).ring 0 0 =
              linked v f (filterTwo v (splitAt rg j).1).ring 0 0 := by
            apply ih _ _ _ (by omega) (by omega)
            have := phi_split (filterTwo v (splitAt rg j).1).ring.length
              (b :: c :: d :: rest).length k (by
                have : (filterTwo v (splitAt rg j).1).ring.length ≤ (splitAt rg j).1.length := hl1
                omega) hkk
            omega
          have e2 : linked v (f + 1) (filterTwo v (splitAt rg j).2).ring 0 0 =
              linked v f (filterTwo v (splitAt rg j).2).ring 0 0 := by
            apply ih _ _ _ (by omega) (by omega)
            have := phi_split (filterTwo v (splitAt rg j).2).ring.length
              (b :: c :: d :: rest).length k (by
                have : (filterTwo v (splitAt rg j).2).ring.length ≤ (splitAt rg j).2.length := hl2
                omega) hkk
            omega
          simp only [e1, e2]
      · apply ih _ _ _ hp
        · left; rw [hlen']; omega
        · have := phi_step (b :: c :: d :: rest).length pass k (by omega)
          rw [hlen']; omega

/-- `linked` does not depend on the fuel above `phi`. -/
theorem linked_fuel (f g : Nat) (ring : Ring) (k pass : Nat) (hp : pass ≤ 2)
    (hk : k < ring.length ∨ ring.length < 3) (hf : phi ring.length pass k < f) (hg : f ≤ g) :
    linked v g ring k pass = linked v f ring k pass := by
  induction g with
  | zero => omega
  | succ g ih =>
    by_cases h : f = g + 1
    · subst h; rfl
    · rw [linked_succ v g ring k pass hp hk (by omega)]
      exact ih (by omega)

/-- **The fuel `earcut` passes is enough**: any larger fuel gives the same run, so the
result of the model is that of the unbounded Python loop. -/
theorem linkedFuel_enough (ring : Ring) (g : Nat) (hg : linkedFuel ring.length ≤ g) :
    linked v g ring 0 0 = linked v (linkedFuel ring.length) ring 0 0 := by
  apply linked_fuel v _ _ _ _ _ (by omega) (by omega) _ hg
  unfold phi linkedFuel
  have : ring.length * (3 * ring.length + 3) + (2 - 0) * (ring.length + 1) + (ring.length - 0) =
      3 * ring.length * ring.length + 6 * ring.length + 2 := by
    simp only [Nat.sub_zero]; ring
  rw [this]
  have h2 : 4 * (ring.length + 2) * (ring.length + 2) * (ring.length + 2) =
      4 * ring.length * ring.length * ring.length + 24 * ring.length * ring.length +
        48 * ring.length + 32 := by ring
  rw [h2]
  nlinarith [Nat.zero_le (ring.length * ring.length * ring.length)]

/-- With the fuel `earcut` passes, the run never stops for lack of fuel. -/
theorem linkedFuel_no_oof_succ (ring : Ring) :
    linked v (linkedFuel ring.length + 1) ring 0 0 = linked v (linkedFuel ring.length) ring 0 0 :=
  linkedFuel_enough v ring _ (by omega)

end fuel
end Lbg.Lemmas
