/-
  Helper lemmas for the sweep theorems (Props/C04d): a generic "every stored segment is good"
  invariant that is carried through every operation of the `_Intersecter` model
  (`Model/PolyBool.lean`): `eventAdd`, `eventAddSegment`, `eventDivide`, `checkIntersection`,
  `checkBoth`, `stepStart`, `stepEnd`, `loop`.
-/
import LbgVerif.Model.PolyBool

set_option linter.unusedSectionVars false

namespace Lbg.Lemmas.PolyBool
open Lbg Lbg.Gen Lbg.Model.PolyBool

variable {α : Type} [Field α] [LinearOrder α]

/-! ## Store access -/

theorem seg_of_lt (st : St α) (i : Nat) (h : i < st.segs.length) : st.seg i = st.segs[i] := by
  unfold St.seg
  simp [List.getD_eq_getElem?_getD, List.getElem?_eq_getElem h]

theorem seg_of_ge (st : St α) (i : Nat) (h : st.segs.length ≤ i) : st.seg i = SegRec.dflt := by
  unfold St.seg
  simp [List.getD_eq_getElem?_getD, List.getElem?_eq_none h]

theorem seg_mem (st : St α) (i : Nat) (h : i < st.segs.length) : st.seg i ∈ st.segs := by
  rw [seg_of_lt st i h]; exact List.getElem_mem h

theorem lt_of_hasStatus (st : St α) (i : Nat) (h : (st.seg i).hasStatus = true) :
    i < st.segs.length := by
  by_contra hn
  rw [seg_of_ge st i (by omega)] at h
  simp [SegRec.dflt] at h

theorem setSeg_seg (st : St α) (i j : Nat) (s : SegRec α) :
    (st.setSeg i s).seg j = if j = i ∧ i < st.segs.length then s else st.seg j := by
  unfold St.setSeg St.seg
  simp only [List.getD_eq_getElem?_getD, List.getElem?_set]
  by_cases hji : j = i
  · subst hji
    by_cases hl : j < st.segs.length
    · simp [hl]
    · simp [hl]
  · have : ¬ i = j := fun e => hji e.symm
    simp [hji, this]

/-! ## The invariant -/

theorem mem_insertBefore {β : Type} (x : β) (c : β → Bool) (l : List β) (y : β) :
    y ∈ insertBefore x c l ↔ y = x ∨ y ∈ l := by
  induction l with
  | nil => simp [insertBefore]
  | cons h t ih =>
    unfold insertBefore
    split_ifs
    · simp
    · simp [ih]; tauto

/-- Every stored segment satisfies `G`; every event refers to a stored segment; the segments in
the status list and in the output all have had their start event processed (`hasStatus`). -/
structure WF (G : SegRec α → Prop) (st : St α) : Prop where
  good : ∀ s ∈ st.segs, G s
  events : ∀ e ∈ st.events, e.1 < st.segs.length
  status : ∀ b ∈ st.status, (st.seg b).hasStatus = true
  out : ∀ b ∈ st.out, (st.seg b).hasStatus = true

/-- Overwriting a segment by a good one that does not lose `hasStatus`. -/
theorem WF.setSeg {G : SegRec α → Prop} {st : St α} (h : WF G st) (i : Nat) (s : SegRec α)
    (hs : i < st.segs.length → G s)
    (hmono : (st.seg i).hasStatus = true → s.hasStatus = true) : WF G (st.setSeg i s) := by
  refine ⟨?_, ?_, ?_, ?_⟩
  · intro x hx
    by_cases hi : i < st.segs.length
    · rcases List.mem_or_eq_of_mem_set hx with hm | rfl
      · exact h.good x hm
      · exact hs hi
    · have : (st.setSeg i s).segs = st.segs := by
        unfold St.setSeg; simp [List.set_eq_of_length_le (not_lt.mp hi)]
      rw [this] at hx; exact h.good x hx
  · intro e he
    have : (st.setSeg i s).segs.length = st.segs.length := by unfold St.setSeg; simp
    rw [this]; exact h.events e he
  · intro b hb
    have hb' := h.status b hb
    rw [setSeg_seg]
    split_ifs with hc
    · rw [hc.1] at hb'; exact hmono hb'
    · exact hb'
  · intro b hb
    have hb' := h.out b hb
    rw [setSeg_seg]
    split_ifs with hc
    · rw [hc.1] at hb'; exact hmono hb'
    · exact hb'

/-- Same store, status and output; events only removed. -/
theorem WF.of_same {G : SegRec α → Prop} {st st' : St α} (h : WF G st)
    (h1 : st'.segs = st.segs) (h2 : st'.status = st.status) (h3 : st'.out = st.out)
    (h4 : ∀ e ∈ st'.events, e ∈ st.events) : WF G st' := by
  have hseg : ∀ b, st'.seg b = st.seg b := by intro b; unfold St.seg; rw [h1]
  refine ⟨?_, ?_, ?_, ?_⟩
  · rw [h1]; exact h.good
  · rw [h1]; intro e he; exact h.events e (h4 e he)
  · rw [h2]; intro b hb; rw [hseg]; exact h.status b hb
  · rw [h3]; intro b hb; rw [hseg]; exact h.out b hb

theorem WF.eventAdd {G : SegRec α → Prop} {st : St α} (h : WF G st) (tol : α) (e : Ev)
    (he : e.1 < st.segs.length) : WF G (eventAdd tol st e) := by
  refine ⟨h.good, ?_, h.status, h.out⟩
  intro x hx
  unfold Lbg.Model.PolyBool.eventAdd at hx
  simp only at hx
  rcases (mem_insertBefore _ _ _ _).mp hx with rfl | hm
  · exact he
  · exact h.events x hm

/-- Appending a new good segment. -/
theorem WF.push {G : SegRec α → Prop} {st : St α} (h : WF G st) (s : SegRec α) (hs : G s) :
    WF G { st with segs := st.segs ++ [s] } := by
  have hseg : ∀ b, (st.seg b).hasStatus = true →
      ({ st with segs := st.segs ++ [s] } : St α).seg b = st.seg b := by
    intro b hb
    have hlt := lt_of_hasStatus st b hb
    unfold St.seg
    simp [List.getD_eq_getElem?_getD, List.getElem?_append_left hlt]
  refine ⟨?_, ?_, ?_, ?_⟩
  · intro x hx
    rcases List.mem_append.mp hx with hm | hm
    · exact h.good x hm
    · simp at hm; subst hm; exact hs
  · intro e he
    have := h.events e he
    simp only [List.length_append, List.length_cons, List.length_nil]; omega
  · intro b hb; rw [hseg b (h.status b hb)]; exact h.status b hb
  · intro b hb; rw [hseg b (h.out b hb)]; exact h.out b hb

theorem WF.eventAddSegment {G : SegRec α → Prop} {st : St α} (h : WF G st) (tol : α)
    (s : SegRec α) (hs : G s) : WF G (eventAddSegment tol st s).1 := by
  unfold Lbg.Model.PolyBool.eventAddSegment
  have w1 := h.push s hs
  have w2 := w1.eventAdd tol (st.segs.length, true) (by simp)
  exact w2.eventAdd tol (st.segs.length, false) (by
    show st.segs.length < (Lbg.Model.PolyBool.eventAdd tol _ _).segs.length
    simp [Lbg.Model.PolyBool.eventAdd])

theorem removeEvent_ok {st st' : St α} {e : Ev} (hr : removeEvent st e = .ok st') :
    e ∈ st.events ∧ st' = { st with events := st.events.erase e } := by
  unfold Lbg.Model.PolyBool.removeEvent at hr
  split_ifs at hr with hc
  · cases hr
    exact ⟨by simpa using hc, rfl⟩

theorem WF.removeEvent {G : SegRec α → Prop} {st st' : St α} (h : WF G st) (e : Ev)
    (hr : removeEvent st e = .ok st') : WF G st' := by
  obtain ⟨_, rfl⟩ := removeEvent_ok hr
  exact h.of_same rfl rfl rfl (fun x hx => List.mem_of_mem_erase hx)

/-- A point at which segments may be cut without leaving `G`. -/
def CutOK (G : SegRec α → Prop) (pt : V2 α) : Prop :=
  ∀ s, G s → G { s with stop := pt } ∧ G ⟨pt, s.stop, s.myfill, none, s.primary, false⟩

theorem WF.eventDivide {G : SegRec α → Prop} {st st' : St α} (h : WF G st) (tol : α) (i : Nat)
    (pt : V2 α) (hpt : CutOK G pt) (hr : eventDivide tol st i pt = .ok st') : WF G st' := by
  unfold Lbg.Model.PolyBool.eventDivide at hr
  simp only [bind, Except.bind] at hr
  cases h1 : Lbg.Model.PolyBool.removeEvent st (i, false) with
  | error e => rw [h1] at hr; cases hr
  | ok st1 =>
    rw [h1] at hr
    simp only [pure, Except.pure, Except.ok.injEq] at hr
    subst hr
    obtain ⟨hmem, hst1⟩ := removeEvent_ok h1
    have hi : i < st.segs.length := h.events _ hmem
    have w1 := h.removeEvent _ h1
    have hsame : st1.segs = st.segs := by rw [hst1]
    have hsegi : st1.seg i = st.seg i := by unfold St.seg; rw [hsame]
    have hg := hpt _ (h.good _ (seg_mem st i hi))
    have w2 : WF G (st1.setSeg i { st.seg i with stop := pt }) :=
      w1.setSeg i _ (fun _ => hg.1) (by rw [hsegi]; exact id)
    have w3 := w2.eventAdd tol (i, false) (by
      show i < (st1.setSeg i _).segs.length
      unfold St.setSeg; simpa [hsame] using hi)
    exact w3.eventAddSegment tol _ hg.2

/-- A list of divides, each at an admissible point. -/
theorem WF.divides {G : SegRec α → Prop} (tol : α) (plan : List (Nat × V2 α))
    (hplan : ∀ d ∈ plan, CutOK G d.2) {st st' : St α} (h : WF G st)
    (hr : plan.foldlM (fun s d => Lbg.Model.PolyBool.eventDivide tol s d.1 d.2) st = .ok st') :
    WF G st' := by
  induction plan generalizing st with
  | nil => simp only [List.foldlM_nil, pure, Except.pure, Except.ok.injEq] at hr; subst hr; exact h
  | cons d plan ih =>
    simp only [List.foldlM_cons, bind, Except.bind] at hr
    cases h1 : Lbg.Model.PolyBool.eventDivide tol st d.1 d.2 with
    | error e => rw [h1] at hr; cases hr
    | ok st1 =>
      rw [h1] at hr
      exact ih (fun d' hd' => hplan d' (by simp [hd'])) (h.eventDivide tol _ _ (hplan d (by simp)) h1) hr

theorem WF.checkIntersection {G : SegRec α → Prop} (tol : α) {st : St α} (h : WF G st)
    (e1 e2 : Nat) (hplan : ∀ d ∈ (intersectionPlan tol st e1 e2).1, CutOK G d.2)
    {r : St α × Option Nat} (hr : checkIntersection tol st e1 e2 = .ok r) : WF G r.1 := by
  unfold Lbg.Model.PolyBool.checkIntersection at hr
  simp only [bind, Except.bind] at hr
  cases h1 : (intersectionPlan tol st e1 e2).1.foldlM
      (fun s d => Lbg.Model.PolyBool.eventDivide tol s d.1 d.2) st with
  | error e => rw [h1] at hr; cases hr
  | ok st1 =>
    rw [h1] at hr
    simp only [pure, Except.pure, Except.ok.injEq] at hr
    subst hr
    exact h.divides tol _ hplan h1

/-! ## What the divides leave alone -/

/-- `st'` has the same status list and output as `st`, at least as many segments, and no
segment lost its `hasStatus` mark. -/
structure Ext (st st' : St α) : Prop where
  status : st'.status = st.status
  out : st'.out = st.out
  len : st.segs.length ≤ st'.segs.length
  mono : ∀ j, (st.seg j).hasStatus = true → (st'.seg j).hasStatus = true

theorem Ext.refl (st : St α) : Ext st st := ⟨rfl, rfl, le_refl _, fun _ h => h⟩

theorem Ext.trans {a b c : St α} (h1 : Ext a b) (h2 : Ext b c) : Ext a c :=
  ⟨h2.status.trans h1.status, h2.out.trans h1.out, le_trans h1.len h2.len,
    fun j h => h2.mono j (h1.mono j h)⟩

theorem Ext.eventDivide {st st' : St α} (tol : α) (i : Nat) (pt : V2 α)
    (hr : eventDivide tol st i pt = .ok st') : Ext st st' := by
  unfold Lbg.Model.PolyBool.eventDivide at hr
  simp only [bind, Except.bind] at hr
  cases h1 : Lbg.Model.PolyBool.removeEvent st (i, false) with
  | error e => rw [h1] at hr; cases hr
  | ok st1 =>
    rw [h1] at hr
    simp only [pure, Except.pure, Except.ok.injEq] at hr
    subst hr
    obtain ⟨_, rfl⟩ := removeEvent_ok h1
    refine ⟨rfl, rfl, ?_, ?_⟩
    · simp [Lbg.Model.PolyBool.eventAddSegment, Lbg.Model.PolyBool.eventAdd, St.setSeg]
    · intro j hj
      have hlt := lt_of_hasStatus st j hj
      have : ∀ (l : List (SegRec α)) (x : SegRec α), j < l.length →
          (l ++ [x]).getD j SegRec.dflt = l.getD j SegRec.dflt := by
        intro l x hl
        simp [List.getD_eq_getElem?_getD, List.getElem?_append_left hl]
      simp only [Lbg.Model.PolyBool.eventAddSegment, Lbg.Model.PolyBool.eventAdd, St.setSeg,
        St.seg] at hj ⊢
      rw [this _ _ (by simpa using hlt)]
      simp only [List.getD_eq_getElem?_getD, List.getElem?_set]
      by_cases hij : i = j
      · subst hij
        simp only [hlt, ↓reduceIte, Option.getD_some]
        simpa [List.getD_eq_getElem?_getD] using hj
      · simpa [hij, List.getD_eq_getElem?_getD] using hj

theorem Ext.divides (tol : α) (plan : List (Nat × V2 α)) {st st' : St α}
    (hr : plan.foldlM (fun s d => Lbg.Model.PolyBool.eventDivide tol s d.1 d.2) st = .ok st') :
    Ext st st' := by
  induction plan generalizing st with
  | nil =>
    simp only [List.foldlM_nil, pure, Except.pure, Except.ok.injEq] at hr; subst hr
    exact Ext.refl _
  | cons d plan ih =>
    simp only [List.foldlM_cons, bind, Except.bind] at hr
    cases h1 : Lbg.Model.PolyBool.eventDivide tol st d.1 d.2 with
    | error e => rw [h1] at hr; cases hr
    | ok st1 =>
      rw [h1] at hr
      exact Ext.trans (Ext.eventDivide tol _ _ h1) (ih hr)

theorem Ext.checkIntersection (tol : α) {st : St α} (e1 e2 : Nat) {r : St α × Option Nat}
    (hr : checkIntersection tol st e1 e2 = .ok r) : Ext st r.1 := by
  unfold Lbg.Model.PolyBool.checkIntersection at hr
  simp only [bind, Except.bind] at hr
  cases h1 : (intersectionPlan tol st e1 e2).1.foldlM
      (fun s d => Lbg.Model.PolyBool.eventDivide tol s d.1 d.2) st with
  | error e => rw [h1] at hr; cases hr
  | ok st1 =>
    rw [h1] at hr
    simp only [pure, Except.pure, Except.ok.injEq] at hr
    subst hr
    exact Ext.divides tol _ h1

/-! ## The sweep keeps the invariant -/

/-- What a per-segment predicate `G` must satisfy to be carried through a sweep with
configuration `cfg`. -/
structure Kept (cfg : Cfg α) (G : SegRec α → Prop) : Prop where
  plan : ∀ st e1 e2, WF G st → e1 < st.segs.length → e2 < st.segs.length →
    ∀ d ∈ (intersectionPlan cfg.tol st e1 e2).1, CutOK G d.2
  eve : ∀ sv se, G sv → G se → G (eveUpdate cfg sv se)
  annot : ∀ s below s', G s → (∀ sb, below = some sb → G sb ∧ sb.hasStatus = true) →
    annotateSeg cfg s below = .ok s' → G { s' with hasStatus := true }
  finish : ∀ s s', G s → finishSeg s = .ok s' → G s'

theorem eveUpdate_hasStatus (cfg : Cfg α) (sv se : SegRec α) :
    (eveUpdate cfg sv se).hasStatus = se.hasStatus := by
  unfold eveUpdate; split_ifs <;> rfl

theorem finishSeg_hasStatus {s s' : SegRec α} (h : finishSeg s = .ok s') :
    s'.hasStatus = s.hasStatus := by
  unfold finishSeg at h
  split_ifs at h
  · split at h
    · cases h
    · cases h; rfl
  · cases h; rfl

theorem WF.checkBoth {cfg : Cfg α} {G : SegRec α → Prop} (hk : Kept cfg G) {st : St α}
    (h : WF G st) (above : Option Nat) (e : Nat) (below : Option Nat)
    (he : e < st.segs.length) (ha : ∀ a, above = some a → a < st.segs.length)
    (hb : ∀ b, below = some b → b < st.segs.length)
    {r : St α × Option Nat} (hr : checkBoth cfg.tol st above e below = .ok r) :
    WF G r.1 ∧ Ext st r.1 := by
  unfold Lbg.Model.PolyBool.checkBoth at hr
  have second : ∀ (st1 : St α), WF G st1 → Ext st st1 → ∀ r2,
      (match below with
        | some b => Lbg.Model.PolyBool.checkIntersection cfg.tol st1 e b
        | none => pure (st1, none)) = Except.ok r2 → WF G r2.1 ∧ Ext st r2.1 := by
    intro st1 w1 x1 r2 h2
    cases below with
    | none =>
      simp only [pure, Except.pure, Except.ok.injEq] at h2; subst h2; exact ⟨w1, x1⟩
    | some b =>
      exact ⟨w1.checkIntersection cfg.tol e b (hk.plan st1 e b w1 (lt_of_lt_of_le he x1.len)
          (lt_of_lt_of_le (hb b rfl) x1.len)) h2,
        Ext.trans x1 (Ext.checkIntersection cfg.tol e b h2)⟩
  cases above with
  | none =>
    simp only [bind, Except.bind, pure, Except.pure] at hr
    exact second st h (Ext.refl _) r hr
  | some a =>
    simp only [bind, Except.bind] at hr
    cases h1 : Lbg.Model.PolyBool.checkIntersection cfg.tol st e a with
    | error err => rw [h1] at hr; cases hr
    | ok r1 =>
      rw [h1] at hr
      have w1 := h.checkIntersection cfg.tol e a (hk.plan st e a h he (ha a rfl)) h1
      have x1 := Ext.checkIntersection cfg.tol e a h1
      obtain ⟨st1, ret1⟩ := r1
      cases ret1 with
      | some eve =>
        simp only [pure, Except.pure, Except.ok.injEq] at hr; subst hr; exact ⟨w1, x1⟩
      | none =>
        simp only at hr
        exact second st1 w1 x1 r hr

theorem mem_of_mem_insertIdx {β : Type} {l : List β} {k : Nat} {a x : β}
    (h : x ∈ l.insertIdx k a) : x = a ∨ x ∈ l := by
  induction l generalizing k with
  | nil =>
    cases k with
    | zero => simp at h; exact Or.inl h
    | succ k => simp at h
  | cons b l ih =>
    cases k with
    | zero => simp at h; rcases h with h | h | h <;> simp [h]
    | succ k =>
      simp only [List.insertIdx_succ_cons, List.mem_cons] at h
      rcases h with h | h
      · simp [h]
      · rcases ih h with h' | h'
        · exact Or.inl h'
        · exact Or.inr (List.mem_cons_of_mem _ h')

theorem WF.applyEve {cfg : Cfg α} {G : SegRec α → Prop} (hk : Kept cfg G) {st1 st2 : St α}
    (h : WF G st1) (i : Nat) (eve : Option Nat) (hr : applyEve cfg st1 i eve = .ok st2) :
    WF G st2 ∧ st2.status = st1.status := by
  cases eve with
  | none =>
    simp only [Lbg.Model.PolyBool.applyEve, pure, Except.pure, Except.ok.injEq] at hr
    subst hr; exact ⟨h, rfl⟩
  | some e =>
    simp only [Lbg.Model.PolyBool.applyEve, bind, Except.bind] at hr
    cases h1 : Lbg.Model.PolyBool.removeEvent
        (st1.setSeg e (eveUpdate cfg (st1.seg i) (st1.seg e))) (i, false) with
    | error err => rw [h1] at hr; cases hr
    | ok st' =>
      rw [h1] at hr
      obtain ⟨hmem, hst'⟩ := removeEvent_ok h1
      have hi : i < st1.segs.length := h.events (i, false) (by simpa [St.setSeg] using hmem)
      have w0 : WF G (st1.setSeg e (eveUpdate cfg (st1.seg i) (st1.seg e))) :=
        h.setSeg e _ (fun he => hk.eve _ _ (h.good _ (seg_mem st1 i hi))
          (h.good _ (seg_mem st1 e he))) (by rw [eveUpdate_hasStatus]; exact id)
      have w1 := w0.removeEvent _ h1
      have w2 := w1.removeEvent _ hr
      obtain ⟨_, hst2⟩ := removeEvent_ok hr
      refine ⟨w2, ?_⟩
      rw [hst2, hst']; rfl

theorem WF.placeStart {cfg : Cfg α} {G : SegRec α → Prop} (hk : Kept cfg G) {st2 st3 : St α}
    (h : WF G st2) (i k : Nat) (below : Option Nat) (hi : i < st2.segs.length)
    (hb : ∀ b, below = some b → b ∈ st2.status)
    (hr : placeStart cfg st2 i k below = .ok st3) : WF G st3 := by
  unfold Lbg.Model.PolyBool.placeStart at hr
  simp only [bind, Except.bind] at hr
  cases h1 : annotateSeg cfg (st2.seg i) (below.map st2.seg) with
  | error err => rw [h1] at hr; cases hr
  | ok s' =>
    rw [h1] at hr
    simp only [pure, Except.pure, Except.ok.injEq] at hr
    subst hr
    have hg : G { s' with hasStatus := true } := by
      apply hk.annot _ _ _ (h.good _ (seg_mem st2 i hi)) _ h1
      intro sb hsb
      cases below with
      | none => simp at hsb
      | some b =>
        simp only [Option.map_some, Option.some.injEq] at hsb
        subst hsb
        have hst := h.status b (hb b rfl)
        exact ⟨h.good _ (seg_mem st2 b (lt_of_hasStatus st2 b hst)), hst⟩
    have w := h.setSeg i { s' with hasStatus := true } (fun _ => hg) (fun _ => rfl)
    refine ⟨w.good, ?_, ?_, w.out⟩
    · intro e he
      exact w.events e (List.mem_of_mem_tail he)
    · intro b hb'
      rcases mem_of_mem_insertIdx hb' with rfl | hm
      · show ((st2.setSeg b _).seg b).hasStatus = true
        rw [setSeg_seg]; simp [hi]
      · exact w.status b hm

theorem WF.stepStart {cfg : Cfg α} {G : SegRec α → Prop} (hk : Kept cfg G) {st st' : St α}
    (h : WF G st) (i : Nat) (hi0 : i < st.segs.length)
    (hr : stepStart cfg st i = .ok st') : WF G st' := by
  unfold Lbg.Model.PolyBool.stepStart at hr
  simp only [bind, Except.bind] at hr
  generalize hk' : st.status.findIdx
    (fun here => decide (statusCompare cfg.tol st i here > 0)) = k at hr
  cases h1 : Lbg.Model.PolyBool.checkBoth cfg.tol st
      (if k = 0 then none else st.status[k - 1]?) i st.status[k]? with
  | error err => rw [h1] at hr; cases hr
  | ok r =>
    rw [h1] at hr
    obtain ⟨w1, x1⟩ := h.checkBoth hk _ i _ hi0
      (by
        intro a ha
        split_ifs at ha
        exact lt_of_hasStatus st a (h.status a (List.mem_of_getElem? ha)))
      (fun b hb => lt_of_hasStatus st b (h.status b (List.mem_of_getElem? hb))) h1
    simp only at hr
    cases h2 : Lbg.Model.PolyBool.applyEve cfg r.1 i r.2 with
    | error err => rw [h2] at hr; cases hr
    | ok st2 =>
      rw [h2] at hr
      obtain ⟨w2, hs2⟩ := w1.applyEve hk i r.2 h2
      simp only at hr
      split_ifs at hr with hc
      · simp only [pure, Except.pure, Except.ok.injEq] at hr; subst hr; exact w2
      · have hhead : st2.events.head? = some (i, true) := by
          by_contra hne; exact hc hne
        have hi : i < st2.segs.length :=
          w2.events (i, true) (List.mem_of_mem_head? hhead)
        apply w2.placeStart hk i k _ hi _ hr
        intro b hb
        rw [hs2, x1.status]
        exact List.mem_of_getElem? hb

theorem WF.finishEnd {cfg : Cfg α} {G : SegRec α → Prop} (hk : Kept cfg G) {st1 st' : St α}
    (h : WF G st1) (i idx : Nat) (hi : (st1.seg i).hasStatus = true)
    (hr : finishEnd st1 i idx = .ok st') : WF G st' := by
  unfold Lbg.Model.PolyBool.finishEnd at hr
  simp only [bind, Except.bind] at hr
  split_ifs at hr with hc
  · simp only [pure, Except.pure] at hr
    have w2 : WF G ({ st1 with status := st1.status.eraseIdx idx } : St α) :=
      ⟨h.good, h.events, fun b hb => h.status b (List.mem_of_mem_eraseIdx hb), h.out⟩
    have hseg : ({ st1 with status := st1.status.eraseIdx idx } : St α).seg i = st1.seg i := rfl
    rw [hseg] at hr
    cases h1 : finishSeg (st1.seg i) with
    | error err => rw [h1] at hr; cases hr
    | ok s' =>
      rw [h1] at hr
      simp only at hr
      have hil := lt_of_hasStatus st1 i hi
      have hs' : s'.hasStatus = true := by rw [finishSeg_hasStatus h1]; exact hi
      have w3 := w2.setSeg i s' (fun _ => hk.finish _ _ (h.good _ (seg_mem st1 i hil)) h1)
        (fun _ => hs')
      split at hr
      · cases hr
      · rename_i hd rest hev
        simp only [Except.ok.injEq] at hr
        subst hr
        refine ⟨w3.good, ?_, w3.status, ?_⟩
        · intro e he
          apply w3.events e
          rw [hev]; exact List.mem_cons_of_mem _ he
        · intro b hb
          rcases List.mem_append.mp hb with hm | hm
          · exact w3.out b hm
          · simp only [List.mem_singleton] at hm
            subst hm
            show ((St.setSeg _ b s').seg b).hasStatus = true
            rw [setSeg_seg]
            simp [hil, hs']

theorem WF.stepEnd {cfg : Cfg α} {G : SegRec α → Prop} (hk : Kept cfg G) {st st' : St α}
    (h : WF G st) (i : Nat) (hr : stepEnd cfg st i = .ok st') : WF G st' := by
  unfold Lbg.Model.PolyBool.stepEnd at hr
  simp only [bind, Except.bind] at hr
  split_ifs at hr with hc hcond
  · have hi : (st.seg i).hasStatus = true := by simpa using hc
    cases h1 : Lbg.Model.PolyBool.checkIntersection cfg.tol st
        (st.status.getD (st.status.idxOf i - 1) 0) (st.status.getD (st.status.idxOf i + 1) 0) with
    | error err => rw [h1] at hr; cases hr
    | ok r =>
      rw [h1] at hr
      simp only [pure, Except.pure] at hr
      have hv : ∀ j, j < st.status.length → st.status.getD j 0 < st.segs.length := by
        intro j hj
        apply lt_of_hasStatus st _ (h.status _ _)
        rw [List.getD_eq_getElem?_getD, List.getElem?_eq_getElem hj]
        exact List.getElem_mem hj
      have w1 := h.checkIntersection cfg.tol _ _
        (hk.plan st _ _ h (hv _ (by omega)) (hv _ hcond.2)) h1
      have x1 := Ext.checkIntersection cfg.tol _ _ h1
      exact w1.finishEnd hk i _ (x1.mono i hi) hr
  · have hi : (st.seg i).hasStatus = true := by simpa using hc
    simp only [pure, Except.pure] at hr
    exact h.finishEnd hk i _ hi hr

theorem WF.stepEvent {cfg : Cfg α} {G : SegRec α → Prop} (hk : Kept cfg G) {st st' : St α}
    (h : WF G st) (hr : stepEvent cfg st = .ok st') : WF G st' := by
  unfold Lbg.Model.PolyBool.stepEvent at hr
  split at hr
  · simp only [pure, Except.pure, Except.ok.injEq] at hr; subst hr; exact h
  · rename_i i hhead
    exact h.stepStart hk _ (h.events (i, true) (List.mem_of_mem_head? hhead)) hr
  · exact h.stepEnd hk _ hr

theorem WF.loop {cfg : Cfg α} {G : SegRec α → Prop} (hk : Kept cfg G) (fuel : Nat)
    {st st' : St α} (h : WF G st) (hr : loop cfg fuel st = .ok st') : WF G st' := by
  induction fuel generalizing st with
  | zero =>
    unfold Lbg.Model.PolyBool.loop at hr
    split_ifs at hr
    · simp only [pure, Except.pure, Except.ok.injEq] at hr; subst hr; exact h
  | succ n ih =>
    unfold Lbg.Model.PolyBool.loop at hr
    split_ifs at hr
    · simp only [pure, Except.pure, Except.ok.injEq] at hr; subst hr; exact h
    · simp only [bind, Except.bind] at hr
      cases h1 : Lbg.Model.PolyBool.stepEvent cfg st with
      | error err => rw [h1] at hr; cases hr
      | ok st1 =>
        rw [h1] at hr
        exact ih (h.stepEvent hk h1) hr

/-- The segments `calculate` returns all satisfy `G` and have `hasStatus`. -/
theorem WF.outSegs {G : SegRec α → Prop} {st : St α} (h : WF G st) (s : FSeg α)
    (hs : s ∈ outSegs st) :
    ∃ r : SegRec α, G r ∧ r.hasStatus = true ∧
      s = ⟨r.start, r.stop, r.myfill, r.otherfill⟩ := by
  unfold Lbg.Model.PolyBool.outSegs at hs
  obtain ⟨i, hi, rfl⟩ := List.mem_map.mp hs
  have hst := h.out i hi
  exact ⟨st.seg i, h.good _ (seg_mem st i (lt_of_hasStatus st i hst)), hst, rfl⟩

end Lbg.Lemmas.PolyBool
