/-
  Lemmas.JoinOutlineFaces — closed polylines → polygons, the stable sort by area, sums over
  refined polygon lists.
-/
import LbgVerif.Lemmas.JoinOutlineIsect
import LbgVerif.Lemmas.JoinOutlineDirected
import LbgVerif.Lemmas.JoinOutlineGroup

set_option linter.unusedSectionVars false

namespace Lbg.Lemmas.JoinOutline
open Lbg Lbg.Gen Lbg.Lemmas Lbg.Model Lbg.Model.JoinOutline Lbg.Model.JoinSegments

section Closed
variable {P : Type}

/-- When no exception is raised, the returned polygons are the closed chains without their
repeated last vertex, in the order of the chains. -/
theorem closedPolys_eq (eqv : P → P → Bool) (chains ps : List (List P))
    (h : closedPolys eqv chains = some ps) :
    ps = (chains.filter (isClosedChain eqv)).map List.dropLast ∧
      ∀ p ∈ ps, 3 ≤ p.length := by
  induction chains generalizing ps with
  | nil => simp [closedPolys] at h; subst h; simp
  | cons c t ih =>
    unfold closedPolys at h
    by_cases hc : isClosedChain eqv c = true
    · rw [if_pos hc] at h
      split_ifs at h with h3
      simp only [Option.map_eq_some_iff] at h
      obtain ⟨ps', hps', rfl⟩ := h
      obtain ⟨e1, e2⟩ := ih ps' hps'
      refine ⟨by rw [List.filter_cons, if_pos hc, List.map_cons, e1], ?_⟩
      intro p hp
      rcases List.mem_cons.1 hp with rfl | hp
      · exact h3
      · exact e2 p hp
    · rw [if_neg hc] at h
      obtain ⟨e1, e2⟩ := ih ps h
      exact ⟨by rw [List.filter_cons, if_neg hc, e1], e2⟩

end Closed

section SortArea
variable {L α : Type} [LinearOrder α]

instance instTotalArea (area : L → α) : Std.Total (fun a b : L => area b ≤ area a) :=
  ⟨fun a b => le_total (area b) (area a)⟩
instance instTransArea (area : L → α) : IsTrans L (fun a b : L => area b ≤ area a) :=
  ⟨fun _ _ _ h1 h2 => le_trans h2 h1⟩

theorem sortByAreaDesc_perm (area : L → α) (xs : List L) : (sortByAreaDesc area xs).Perm xs :=
  List.perm_insertionSort _ _

theorem sortByAreaDesc_sorted (area : L → α) (xs : List L) :
    (sortByAreaDesc area xs).Pairwise (fun a b => area b ≤ area a) :=
  List.pairwise_insertionSort (fun a b : L => area b ≤ area a) xs

theorem sortByAreaDesc_length (area : L → α) (xs : List L) :
    (sortByAreaDesc area xs).length = xs.length := (sortByAreaDesc_perm area xs).length_eq

end SortArea

section Sums
variable {α : Type} [Field α]

/-- Refined polygon lists have the same total shoelace sum. -/
theorem sum_shoelace_refines (a b : List (List (V2 α))) (h : List.Forall₂ Refines a b) :
    (b.map shoelace).sum = (a.map shoelace).sum := by
  induction h with
  | nil => rfl
  | cons hab _ ih => simp only [List.map_cons, List.sum_cons, ih, hab.2]

/-- The shoelace sums of all loops add up to the sum of `det` over all directed edges. -/
theorem sum_shoelace_eq_sum_edges (T : List (List (V2 α))) :
    (T.map shoelace).sum = ((allEdges T).map (fun e => V2.det e.1 e.2)).sum := by
  unfold allEdges
  induction T with
  | nil => rfl
  | cons t rest ih =>
    simp only [List.map_cons, List.sum_cons, List.flatMap_cons, List.map_append, List.sum_append,
      ih, shoelace_eq_sum_cyclicPairs]

theorem sum_chainSum_eq_sum_edges (chains : List (List (V2 α))) :
    (chains.map chainSum).sum = ((chains.flatMap edges).map (fun e => V2.det e.1 e.2)).sum := by
  induction chains with
  | nil => rfl
  | cons c rest ih =>
    simp only [List.map_cons, List.sum_cons, List.flatMap_cons, List.map_append, List.sum_append,
      ih, chainSum_eq_sum_edges]

/-- A closed chain (first vertex = last vertex, at least two vertices): the polygon without the
repeated vertex has the chain's sum as shoelace sum. -/
theorem shoelace_dropLast_of_closed (c : List (V2 α)) (h2 : 2 ≤ c.length)
    (hc : c.head? = c.getLast?) : shoelace c.dropLast = chainSum c := by
  cases c with
  | nil => simp at h2
  | cons a t =>
    have hne : t ≠ [] := by intro h; subst h; simp at h2
    obtain ⟨t', b, rfl⟩ : ∃ t' b, t = t' ++ [b] := ⟨t.dropLast, t.getLast hne,
      (List.dropLast_append_getLast hne).symm⟩
    have hb : b = a := by
      simp only [List.head?_cons] at hc
      rw [← List.cons_append, List.getLast?_append] at hc
      simpa using hc.symm
    subst hb
    have : (b :: (t' ++ [b])).dropLast = b :: t' := by
      rw [← List.cons_append, List.dropLast_concat]
    rw [this, shoelace_of_closed_chain]
    rfl

end Sums

end Lbg.Lemmas.JoinOutline
