/-
  Helper lemmas for the `_segmentChainer` theorems (Props/C04b), part 6: facts that need no
  hypothesis on the tolerance predicates (stored chains have at least two points), parity of
  degrees, and glue for the statements of Props/C04b.
-/
import LbgVerif.Lemmas.ChainerRun

namespace Lbg.Lemmas.Chainer
open Lbg Lbg.Model.Chainer

variable {α : Type}
variable {eqv : V2 α → V2 α → Bool} {col : V2 α → V2 α → V2 α → Bool} {z : V2 α}

/-! ## Stored chains always have at least two points (any `eqv`, `col`) -/

def Len2 (cs : List (List (V2 α))) : Prop := ∀ c ∈ cs, 2 ≤ c.length

theorem Len2.getD {cs : List (List (V2 α))} (h : Len2 cs) (i : Nat) (hi : i < cs.length) :
    2 ≤ (cs.getD i []).length := by
  rw [getD_of_lt _ _ _ hi]; exact h _ (List.getElem_mem hi)

theorem reverseChain_len2 {cs : List (List (V2 α))} (h : Len2 cs) (i : Nat) :
    Len2 (reverseChain cs i) ∧ (reverseChain cs i).length = cs.length := by
  unfold reverseChain
  refine ⟨?_, by simp⟩
  intro c hc
  rcases List.mem_or_eq_of_mem_set hc with hm | rfl
  · exact h c hm
  · by_cases hi : i < cs.length
    · simpa using h.getD i hi
    · -- out of range: `set` did nothing, cannot happen for a member
      rw [List.set_eq_of_length_le (by omega)] at hc
      have := h _ hc
      simpa using this

theorem appendChain_len2 {cs : List (List (V2 α))} (h : Len2 cs) (i1 i2 : Nat)
    (h1 : i1 < cs.length) (h2 : i2 < cs.length) : Len2 (appendChain col z cs i1 i2) := by
  unfold appendChain
  intro c hc
  rcases List.mem_or_eq_of_mem_set (List.mem_of_mem_eraseIdx hc) with hm | rfl
  · exact h c hm
  · have l1 := h.getD i1 h1
    have l2 := h.getD i2 h2
    simp only [List.length_append]
    have a1 : (cs.getD i1 []).length - 1 ≤
        (if col (nthBack (cs.getD i1 []) 1 z) (nthBack (cs.getD i1 []) 0 z)
          (nth (cs.getD i2 []) 0 z) = true then (cs.getD i1 []).dropLast
          else cs.getD i1 []).length := by
      split_ifs <;> simp
    generalize (if col (nthBack (cs.getD i1 []) 1 z) (nthBack (cs.getD i1 []) 0 z)
      (nth (cs.getD i2 []) 0 z) = true then nthBack (cs.getD i1 []) 1 z
      else nthBack (cs.getD i1 []) 0 z) = t'
    have a2 : (cs.getD i2 []).length - 1 ≤
        (if col t' (nth (cs.getD i2 []) 0 z) (nth (cs.getD i2 []) 1 z) = true
          then (cs.getD i2 []).tail else cs.getD i2 []).length := by
      split_ifs <;> simp
    omega

theorem step_len2 (st : State α) (h : Len2 st.chains) (seg : V2 α × V2 α) :
    Len2 (step eqv col z st seg).chains := by
  unfold step
  by_cases heq : eqv seg.1 seg.2 = true
  · simpa [heq] using h
  simp only [heq, Bool.false_eq_true, ↓reduceIte]
  cases hm : findMatches eqv z st.chains seg.1 seg.2 with
  | nil =>
    intro c hc
    rcases List.mem_append.mp hc with hm' | hm'
    · exact h c hm'
    · simp at hm'; subst hm'; simp
  | cons m1 rest =>
    cases rest with
    | nil =>
      obtain ⟨hidx, _, _⟩ := findMatches_single eqv z hm
      have l1 := h.getD m1.index hidx
      simp only []
      unfold growChain
      simp only []
      split_ifs <;> intro c hc
      all_goals first
        | exact h c (List.mem_of_mem_eraseIdx hc)
        | (rcases List.mem_or_eq_of_mem_set hc with hm' | rfl
           · exact h c hm'
           · simp only [List.length_cons, List.length_append, List.length_tail,
               List.length_dropLast, List.length_nil]; omega)
    | cons m2 rest =>
      obtain ⟨hlt, hs, _, _⟩ := findMatches_pair eqv z hm
      have hf : m1.index < st.chains.length := lt_trans hlt hs
      simp only []
      unfold joinChains
      simp only []
      have r1 := reverseChain_len2 h m1.index
      have r2 := reverseChain_len2 h m2.index
      split_ifs
      · exact appendChain_len2 r1.1 _ _ (by rw [r1.2]; exact hf) (by rw [r1.2]; exact hs)
      · exact appendChain_len2 r2.1 _ _ (by rw [r2.2]; exact hs) (by rw [r2.2]; exact hf)
      · exact appendChain_len2 h _ _ hs hf
      · exact appendChain_len2 h _ _ hf hs
      · exact appendChain_len2 r1.1 _ _ (by rw [r1.2]; exact hs) (by rw [r1.2]; exact hf)
      · exact appendChain_len2 r2.1 _ _ (by rw [r2.2]; exact hf) (by rw [r2.2]; exact hs)

theorem run_len2 (segs : List (V2 α × V2 α)) : Len2 (run eqv col z segs).chains := by
  unfold run
  have : ∀ (rest : List (V2 α × V2 α)) (st : State α), Len2 st.chains →
      Len2 (rest.foldl (step eqv col z) st).chains := by
    intro rest
    induction rest with
    | nil => intro st h; exact h
    | cons seg rest ih => intro st h; exact ih _ (step_len2 st h seg)
  exact this segs _ (by intro c hc; simp at hc)

/-! ## Parity of degrees -/

section Parity
variable [DecidableEq α] {P : V2 α → Prop}

theorem degree_chainEdges_mod_two (v : V2 α) (M : Multiset (GChain α))
    (hok : ∀ cf ∈ M, ChainOK col P cf) :
    degree v (chainEdges M) % 2 = (M.bind (ends z)).count v % 2 := by
  induction M using Multiset.induction_on with
  | empty => simp [chainEdges]
  | cons cf M ih =>
    have okc := hok cf (Multiset.mem_cons_self _ _)
    have ih' := ih (fun c hc => hok c (Multiset.mem_cons_of_mem hc))
    rw [chainEdges_cons, degree_add, Multiset.cons_bind, Multiset.count_add]
    have hp := degree_pathEdges_mod_two v cf.2 (hd z cf) (tl z cf) okc.head?_eq okc.getLast?_eq
    have hc : (ends z cf).count v = ind (hd z cf = v) + ind (tl z cf = v) := by
      unfold ends ind
      rw [Multiset.count_cons, Multiset.count_singleton]
      have e1 : (v = hd z cf) = (hd z cf = v) := propext eq_comm
      have e2 : (v = tl z cf) = (tl z cf = v) := propext eq_comm
      simp only [e1, e2]
      omega
    omega

theorem degree_regionEdges_even (v : V2 α) (R : List (GChain α)) :
    degree v (regionEdges R) % 2 = 0 := by
  unfold regionEdges
  induction R with
  | nil => simp
  | cons cf R ih =>
    simp only [List.map_cons, List.sum_cons, degree_add]
    have := degree_loopEdges_even v cf.2
    omega

end Parity

/-! ## Glue -/

theorem forall₂_map_snd_fst {β γ : Type} (R : γ → β → Prop) (l : List (β × γ)) :
    List.Forall₂ R (l.map Prod.snd) (l.map Prod.fst) ↔ ∀ x ∈ l, R x.2 x.1 := by
  induction l with
  | nil => simp
  | cons a l ih => simp [ih]

theorem forall₂_exists_left {β γ : Type} {R : γ → β → Prop} {l1 : List γ} {l2 : List β}
    (h : List.Forall₂ R l1 l2) (y : β) (hy : y ∈ l2) : ∃ x ∈ l1, R x y := by
  induction h with
  | nil => simp at hy
  | cons hab _ ih =>
    rcases List.mem_cons.mp hy with rfl | hm
    · exact ⟨_, List.mem_cons_self, hab⟩
    · obtain ⟨x, hx, h⟩ := ih hm
      exact ⟨x, List.mem_cons_of_mem _ hx, h⟩

theorem segEdges_perm {segs segs' : List (V2 α × V2 α)} (h : segs.Perm segs') :
    segEdges eqv segs = segEdges eqv segs' := by
  unfold segEdges
  exact (h.map _).sum_eq

end Lbg.Lemmas.Chainer
