/-
  Boolean list checkers used by the C14 effect-table certificate (Props/C14.lean) and
  their specifications.  Everything is over `Nat` with `Nat.beq`, so that the kernel
  (`decide +kernel`) evaluates the checks with its built-in natural-number arithmetic.
-/
namespace Lbg.Lemmas

/-- `x ∈ l`, as a Boolean -/
def memN (x : Nat) : List Nat → Bool
  | [] => false
  | y :: ys => Nat.beq x y || memN x ys

theorem memN_iff {x : Nat} {l : List Nat} : memN x l = true ↔ x ∈ l := by
  induction l with
  | nil => simp [memN]
  | cons y ys ih =>
    simp only [memN, Bool.or_eq_true, ih, List.mem_cons]
    constructor
    · rintro (h | h)
      · exact Or.inl (Nat.eq_of_beq_eq_true h)
      · exact Or.inr h
    · rintro (h | h)
      · subst h; exact Or.inl (Nat.beq_refl x)
      · exact Or.inr h

/-- `a ⊆ b`, as a Boolean -/
def subsetN (a b : List Nat) : Bool := a.all (fun x => memN x b)

theorem subsetN_iff {a b : List Nat} : subsetN a b = true ↔ ∀ x ∈ a, x ∈ b := by
  simp [subsetN, List.all_eq_true, memN_iff]

/-- equality of two lists of naturals, as a Boolean -/
def eqN : List Nat → List Nat → Bool
  | [], [] => true
  | x :: xs, y :: ys => Nat.beq x y && eqN xs ys
  | _, _ => false

theorem eqN_iff {a b : List Nat} : eqN a b = true ↔ a = b := by
  induction a generalizing b with
  | nil => cases b <;> simp [eqN]
  | cons x xs ih =>
    cases b with
    | nil => simp [eqN]
    | cons y ys =>
      simp only [eqN, Bool.and_eq_true, ih, List.cons.injEq]
      constructor
      · rintro ⟨h1, h2⟩; exact ⟨Nat.eq_of_beq_eq_true h1, h2⟩
      · rintro ⟨h1, h2⟩; subst h1; exact ⟨Nat.beq_refl x, h2⟩

/-- value stored under key `g` in an association list, `[]` when absent -/
def lookupN (g : Nat) : List (Nat × List Nat) → List Nat
  | [] => []
  | (k, v) :: r => if Nat.beq g k then v else lookupN g r

/-- the `idx` fields of a list are `k, k+1, k+2, …` -/
def idxFrom {α : Type} (idx : α → Nat) : Nat → List α → Bool
  | _, [] => true
  | k, e :: r => Nat.beq (idx e) k && idxFrom idx (k + 1) r

theorem idxFrom_getElem? {α : Type} {idx : α → Nat} {l : List α} {k i : Nat} {e : α}
    (h : idxFrom idx k l = true) (he : l[i]? = some e) : idx e = k + i := by
  induction l generalizing k i with
  | nil => simp at he
  | cons a r ih =>
    simp only [idxFrom, Bool.and_eq_true] at h
    cases i with
    | zero =>
      simp at he; subst he
      exact Nat.eq_of_beq_eq_true h.1
    | succ j =>
      simp at he
      have := ih h.2 he
      omega

theorem mem_of_getElem?_eq_some {α : Type} {l : List α} {i : Nat} {e : α}
    (h : l[i]? = some e) : e ∈ l :=
  List.mem_of_getElem? h

end Lbg.Lemmas
