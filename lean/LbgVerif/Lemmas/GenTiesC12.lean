/-
  Lemmas.GenTiesC12 — generic shape lemmas used to tie the GENERATED composite kernels of C11 /
  C12 (`Gen/PolyMore.lean`, `Gen/Polyline.lean`) to the hand models `Model/PolyDistance.lean`,
  `Model/IsectComposite.lean`:

    * `min(f(x) for x in l)`                         → `foldl min (headD 0) (drop 1)` = `minOf`
    * `for s in l: r = k(s); if r is not None: out.append(r)` with the kernel `k` inlined as a
      chain of early exits                           → `collect k`
    * `zip(l[:-1], l[1:])`                           → `l.zip l.tail`
    * `if a: return m … if d: return m; if par: return m; return 0` against
      `if inside_bound_rect: return 0; return m`

  Independent of the names of generated `let` variables.
-/
import LbgVerif.Model.PolyDistance
import LbgVerif.Model.IsectComposite
import Mathlib.Data.List.Basic
import Mathlib.Tactic.SplitIfs

namespace Lbg.Lemmas.GenTiesC12
open Lbg Lbg.Model.PolyDistance Lbg.Model.IsectComposite

section minOf
variable {α : Type} [Field α] [LinearOrder α]

/-- The translator's rendering of Python `min(iterable)` — fold `min` over the tail starting
from the head (`0` for the unreachable empty iterable) — is the hand model's `minOf`. -/
theorem foldl_min_headD_eq_minOf (l : List α) :
    List.foldl min (l.headD (0 : α)) (List.drop 1 l) = minOf l := by
  cases l with
  | nil => rfl
  | cons d ds => rfl

/-- The same for `min(f(x) for x in l)`. -/
theorem foldl_min_map_eq_minOf {β : Type} (f : β → α) (l : List β) :
    List.foldl min ((l.map f).headD (0 : α)) (List.drop 1 (l.map f)) = minOf (l.map f) :=
  foldl_min_headD_eq_minOf _

end minOf

section collect
variable {σ τ : Type}

/-- A loop whose body either leaves the accumulator alone or appends the kernel's answer —
whatever chain of early exits the inlined kernel is written as — is `collect k`. -/
theorem foldl_step_eq_collect (k : σ → Option τ) (step : List τ → σ → List τ)
    (hstep : ∀ st s, step st s = match k s with | none => st | some r => st ++ [r])
    (l : List σ) : l.foldl step [] = collect k l := by
  unfold collect
  congr 1
  funext st s
  exact hstep st s

end collect

section zip
variable {β : Type}

/-- `zip(l[:-1], l[1:])` pairs the same elements as `zip(l, l[1:])` (zip stops at the shorter
list). -/
theorem zip_dropLast_drop_one (l : List β) : List.zip l.dropLast (l.drop 1) = l.zip l.tail := by
  rw [List.drop_one]
  induction l with
  | nil => rfl
  | cons a t ih =>
    cases t with
    | nil => rfl
    | cons b u =>
      simp only [List.dropLast_cons_cons, List.tail_cons, List.zip_cons_cons] at ih ⊢
      rw [ih]

end zip

section shape

/-- Shape of `Polygon2D.distance_to_point` with `is_point_inside_bound_rect` inlined (four
bounding-rectangle rejections, then the parity test) against the hand model's
`if inside_bound_rect then 0 else m`. -/
theorem dist_shape {β : Type} (c1 c2 c3 c4 par : Prop) [Decidable c1] [Decidable c2]
    [Decidable c3] [Decidable c4] [Decidable par] (m z : β) :
    (if c1 then m else if c2 then m else if c3 then m else if c4 then m
      else if par then m else z) =
    (if (if c1 then false else if c2 then false else if c3 then false
        else if c4 then false else decide (¬ par)) = true then z else m) := by
  by_cases c1 <;> by_cases c2 <;> by_cases c3 <;> by_cases c4 <;> by_cases par <;> simp [*]

end shape

end Lbg.Lemmas.GenTiesC12
