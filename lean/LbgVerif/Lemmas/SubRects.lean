/-
  Lemmas.SubRects — algebra behind `Model/SubRects.lean`:

  * `PRect`: an axis-parallel rectangle in plane coordinates and its two vertex orders;
  * `segOf`: the canonical segment `(u0, v) → (u1, v)` of a plane, and what `from_end_points`,
    `move` (along the plane's y-axis), `scale` about the own midpoint, `length` and the
    "extrusion" `(p1, p2, p2 + h, p1 + h)` do to it;
  * `ptsFrom`: consecutive values `f j, f (j+1), …`, the closed form of the `while` loop of
    `subdivide_evenly` and of the pairing `zip(pts, pts[1:])`;
  * Python's `round` (half to even) through `M.floor`: integrality and the bracket
    `|round x - x| ≤ 1/2`;
  * the `enforce_right_hand` step on a rectangle given in either order.
-/
import LbgVerif.Model.SubRects
import LbgVerif.Lemmas.Shoelace
import LbgVerif.Lemmas.Isometry
import LbgVerif.Lemmas.Measure
import Mathlib.Tactic.Ring
import Mathlib.Tactic.FieldSimp
import Mathlib.Tactic.Linarith
import Mathlib.Tactic.Positivity
import Mathlib.Tactic.LinearCombination
import Mathlib.Tactic.SplitIfs
import Mathlib.Tactic.NormNum
import Mathlib.Tactic.Push
import Mathlib.Algebra.Order.Floor.Defs

set_option linter.unusedSectionVars false
set_option linter.unusedVariables false
set_option linter.unusedSimpArgs false

namespace Lbg.Lemmas
open Lbg Lbg.Gen Lbg.Model

/-- Axis-parallel rectangle `[u0, u1] × [v0, v1]` in the coordinates of a plane. -/
structure PRect (α : Type) where
  u0 : α
  u1 : α
  v0 : α
  v1 : α
deriving DecidableEq, Repr

section lists
variable {β γ : Type}

/-- `[f j, f (j+1), …, f (j+m-1)]`. -/
def ptsFrom (f : ℕ → β) : ℕ → ℕ → List β
  | _, 0 => []
  | j, m + 1 => f j :: ptsFrom f (j + 1) m

theorem ptsFrom_length (f : ℕ → β) (j m : ℕ) : (ptsFrom f j m).length = m := by
  induction m generalizing j with
  | zero => rfl
  | succ m ih => simp [ptsFrom, ih]

theorem ptsFrom_append_single (f : ℕ → β) (j m : ℕ) :
    ptsFrom f j m ++ [f (j + m)] = ptsFrom f j (m + 1) := by
  induction m generalizing j with
  | zero => simp [ptsFrom]
  | succ m ih =>
    have := ih (j + 1)
    simp only [ptsFrom, List.cons_append] at this ⊢
    rw [show j + (m + 1) = j + 1 + m by omega, this]

theorem ptsFrom_map (g : β → γ) (f : ℕ → β) (j m : ℕ) :
    (ptsFrom f j m).map g = ptsFrom (fun i => g (f i)) j m := by
  induction m generalizing j with
  | zero => rfl
  | succ m ih => simp [ptsFrom, ih]

theorem ptsFrom_eq_range (f : ℕ → β) (j m : ℕ) :
    ptsFrom f j m = (List.range m).map (fun i => f (j + i)) := by
  induction m generalizing j with
  | zero => rfl
  | succ m ih =>
    rw [List.range_succ_eq_map]
    simp only [ptsFrom, List.map_cons, List.map_map, Nat.add_zero, ih]
    congr 1
    apply List.map_congr_left
    intro i _
    simp only [Function.comp, Nat.succ_eq_add_one]
    congr 1; omega

/-- `zip(pts, pts[1:])` of consecutive values. -/
theorem ptsFrom_zip_tail (f : ℕ → β) (j m : ℕ) :
    (ptsFrom f j (m + 1)).zip (ptsFrom f j (m + 1)).tail =
      ptsFrom (fun i => (f i, f (i + 1))) j m := by
  induction m generalizing j with
  | zero => simp [ptsFrom]
  | succ m ih =>
    have := ih (j + 1)
    simp only [ptsFrom, List.tail_cons, List.zip_cons_cons] at this ⊢
    rw [this]

theorem range_map_eq_ptsFrom (f : ℕ → β) (n : ℕ) : (List.range n).map f = ptsFrom f 0 n := by
  rw [ptsFrom_eq_range]
  apply List.map_congr_left
  intro i _
  rw [Nat.zero_add]

theorem ptsFrom_congr {f g : ℕ → β} (j m : ℕ) (h : ∀ i, j ≤ i → i < j + m → f i = g i) :
    ptsFrom f j m = ptsFrom g j m := by
  induction m generalizing j with
  | zero => rfl
  | succ m ih =>
    simp only [ptsFrom]
    rw [h j (le_refl _) (by omega), ih (j + 1) (fun i h1 h2 => h i (by omega) (by omega))]

end lists

variable {α : Type} [Field α] [LinearOrder α] [IsStrictOrderedRing α]

namespace PRect
/-- Counter-clockwise from the lower left corner: `(u0,v0), (u1,v0), (u1,v1), (u0,v1)`. -/
def verts (pl : PlaneS α) (R : PRect α) : List (V3 α) :=
  [plane_xy_to_xyz pl ⟨R.u0, R.v0⟩, plane_xy_to_xyz pl ⟨R.u1, R.v0⟩,
   plane_xy_to_xyz pl ⟨R.u1, R.v1⟩, plane_xy_to_xyz pl ⟨R.u0, R.v1⟩]
/-- Counter-clockwise from the upper right corner: `(u1,v1), (u0,v1), (u0,v0), (u1,v0)`. -/
def vertsUR (pl : PlaneS α) (R : PRect α) : List (V3 α) :=
  [plane_xy_to_xyz pl ⟨R.u1, R.v1⟩, plane_xy_to_xyz pl ⟨R.u0, R.v1⟩,
   plane_xy_to_xyz pl ⟨R.u0, R.v0⟩, plane_xy_to_xyz pl ⟨R.u1, R.v0⟩]
def width (R : PRect α) : α := R.u1 - R.u0
def height (R : PRect α) : α := R.v1 - R.v0
def area (R : PRect α) : α := (R.u1 - R.u0) * (R.v1 - R.v0)
end PRect

/-- The segment from `(u0, v)` to `(u1, v)` in plane coordinates. -/
def segOf (pl : PlaneS α) (u0 u1 v : α) : LR3 α :=
  ⟨plane_xy_to_xyz pl ⟨u0, v⟩, v3Mul pl.x (u1 - u0)⟩

theorem segOf_p2 (pl : PlaneS α) (u0 u1 v : α) :
    seg3_p2 (segOf pl u0 u1 v) = plane_xy_to_xyz pl ⟨u1, v⟩ := by
  simp only [seg3_p2, segOf, plane_xy_to_xyz, v3Mul]
  ext <;> simp only [] <;> ring

theorem segOf_from_end_points (pl : PlaneS α) (a b v : α) :
    seg3_from_end_points (plane_xy_to_xyz pl ⟨a, v⟩) (plane_xy_to_xyz pl ⟨b, v⟩) =
      segOf pl a b v := by
  apply lr3_ext
  · simp only [seg3_from_end_points, segOf]
  · simp only [seg3_from_end_points, segOf, plane_xy_to_xyz, v3Mul]
    ext <;> simp only [] <;> ring

theorem segOf_move (pl : PlaneS α) (u0 u1 v d : α) :
    seg3_move (segOf pl u0 u1 v) (v3Mul pl.y d) = segOf pl u0 u1 (v + d) := by
  apply lr3_ext
  · simp only [seg3_move, segOf, plane_xy_to_xyz, v3Mul]
    ext <;> simp only [] <;> ring
  · simp only [seg3_move, segOf, v3Mul]

/-- `seg.scale(f, seg.midpoint)`: same midpoint, length multiplied by `f`. -/
theorem segOf_scale_mid (pl : PlaneS α) (u0 u1 v f : α) :
    seg3_scale (segOf pl u0 u1 v) f (seg3_midpoint (segOf pl u0 u1 v)) =
      segOf pl ((u0 + u1) / 2 - f * (u1 - u0) / 2) ((u0 + u1) / 2 + f * (u1 - u0) / 2) v := by
  apply lr3_ext
  · simp only [seg3_scale, seg3_midpoint, segOf, plane_xy_to_xyz, v3Mul]
    ext <;> simp only [] <;> ring
  · simp only [seg3_scale, seg3_midpoint, segOf, plane_xy_to_xyz, v3Mul]
    ext <;> simp only [] <;> ring

/-- `seg.scale(f, seg.point_at(0.5))` — the same thing written with `point_at`. -/
theorem segOf_scale_point_at (pl : PlaneS α) (u0 u1 v f : α) :
    seg3_scale (segOf pl u0 u1 v) f (seg3_point_at (segOf pl u0 u1 v) (1 / 2)) =
      segOf pl ((u0 + u1) / 2 - f * (u1 - u0) / 2) ((u0 + u1) / 2 + f * (u1 - u0) / 2) v := by
  apply lr3_ext
  · simp only [seg3_scale, seg3_point_at, segOf, plane_xy_to_xyz, v3Mul]
    ext <;> simp only [] <;> ring
  · simp only [seg3_scale, seg3_point_at, segOf, plane_xy_to_xyz, v3Mul]
    ext <;> simp only [] <;> ring

theorem segOf_point_at (pl : PlaneS α) (u0 u1 v t : α) :
    seg3_point_at (segOf pl u0 u1 v) t = plane_xy_to_xyz pl ⟨u0 + (u1 - u0) * t, v⟩ := by
  simp only [seg3_point_at, segOf, plane_xy_to_xyz, v3Mul]
  ext <;> simp only [] <;> ring

/-- Length of a canonical segment when the plane's x-axis is a unit vector. -/
theorem segOf_length (M : MathOps α)
    (hsqrt : ∀ x, 0 ≤ x → M.sqrt x * M.sqrt x = x ∧ 0 ≤ M.sqrt x)
    (pl : PlaneS α) (hx : V3.normSq pl.x = 1) (u0 u1 v : α) :
    seg3_length M (segOf pl u0 u1 v) = |u1 - u0| := by
  simp only [seg3_length, segOf, v3Mul]
  apply sqrt_unique M hsqrt (abs_nonneg _)
  rw [abs_mul_abs_self]
  simp only [V3.normSq] at hx
  linear_combination (-(u1 - u0) * (u1 - u0)) * hx

/-- The extrusion `(p1, p2, p2 + h, p1 + h)` of a canonical segment along the y-axis. -/
theorem segOf_extrude (pl : PlaneS α) (u0 u1 v hh : α) :
    [(segOf pl u0 u1 v).p, seg3_p2 (segOf pl u0 u1 v),
      p3_move (seg3_p2 (segOf pl u0 u1 v)) (v3Mul pl.y hh),
      p3_move (segOf pl u0 u1 v).p (v3Mul pl.y hh)] =
    PRect.verts pl ⟨u0, u1, v, v + hh⟩ := by
  have e1 : p3_move (seg3_p2 (segOf pl u0 u1 v)) (v3Mul pl.y hh) =
      plane_xy_to_xyz pl ⟨u1, v + hh⟩ := by
    simp only [p3_move, seg3_p2, segOf, plane_xy_to_xyz, v3Mul]
    ext <;> simp only [] <;> ring
  have e2 : p3_move (segOf pl u0 u1 v).p (v3Mul pl.y hh) = plane_xy_to_xyz pl ⟨u0, v + hh⟩ := by
    simp only [p3_move, segOf, plane_xy_to_xyz, v3Mul]
    ext <;> simp only [] <;> ring
  rw [e1, e2, segOf_p2]
  rfl

/-- The other tuple `(p2, p1, p1 + h, p2 + h)`. -/
theorem segOf_extrude_rev (pl : PlaneS α) (u0 u1 v hh : α) :
    [seg3_p2 (segOf pl u0 u1 v), (segOf pl u0 u1 v).p,
      p3_move (segOf pl u0 u1 v).p (v3Mul pl.y hh),
      p3_move (seg3_p2 (segOf pl u0 u1 v)) (v3Mul pl.y hh)] =
    (PRect.vertsUR pl ⟨u0, u1, v, v + hh⟩).reverse := by
  have h := segOf_extrude pl u0 u1 v hh
  simp only [PRect.verts, List.cons.injEq, and_true] at h
  obtain ⟨h1, h2, h3, h4⟩ := h
  rw [h3, h4, h1, h2]
  rfl

/-- `LineSegment3D.from_sdl(o, x, B)` in a plane whose x-axis has length `m ≠ 0` is the
canonical bottom segment `(0,0) → (B/m·…)`; for a unit x-axis it is `(0,0) → (B,0)`. -/
theorem fromSdl_eq_segOf (M : MathOps α)
    (hsqrt : ∀ x, 0 ≤ x → M.sqrt x * M.sqrt x = x ∧ 0 ≤ M.sqrt x)
    (pl : PlaneS α) (hx : V3.normSq pl.x = 1) (B : α) :
    seg3FromSdl M pl.o pl.x B = segOf pl 0 B 0 := by
  have hm : v3_magnitude M pl.x = 1 := by
    simp only [v3_magnitude]
    apply sqrt_eq_one M hsqrt
    simpa only [V3.normSq] using hx
  apply lr3_ext
  · simp only [seg3FromSdl, segOf, plane_xy_to_xyz]
    ext <;> simp only [] <;> ring
  · simp only [seg3FromSdl, hm, segOf, v3Div, v3Mul]
    ext <;> simp only [] <;> ring

/-! ## The `enforce_right_hand` step on rectangles -/

/-- `Polygon2D.is_clockwise` is the sign test `shoelace < 0`. -/
theorem is_clockwise_iff' (cs : List (V2 α)) :
    polygon2d_is_clockwise cs = true ↔ shoelace cs < 0 := by
  have e : polygon2d_is_clockwise cs = decide (shoelace cs / 2 < 0) := by
    unfold polygon2d_is_clockwise shoelace
    simp only [V2.det]
    exact decide_eq_decide.mpr Iff.rfl
  rw [e, decide_eq_true_iff]
  constructor
  · intro h; have : (0 : α) < 2 := two_pos; by_contra hc
    have := div_nonneg (not_lt.mp hc) this.le; linarith
  · intro h; exact div_neg_of_neg_of_pos h two_pos

theorem shoelace_rect (u0 u1 v0 v1 : α) :
    shoelace [(⟨u0, v0⟩ : V2 α), ⟨u1, v0⟩, ⟨u1, v1⟩, ⟨u0, v1⟩] = 2 * ((u1 - u0) * (v1 - v0)) := by
  rw [shoelace_quad]
  simp only [V2.det, V2.sub]
  ring

/-- The extrusion followed by `enforce_right_hand`: a counter-clockwise rectangle is kept.  `hrt`
is the round trip `xyz_to_xy ∘ xy_to_xyz = id` of a valid plane (`C06.plane_xy_roundtrip`). -/
theorem faceInit_rect (pl : PlaneS α)
    (hrt : ∀ q, plane_xyz_to_xy pl (plane_xy_to_xyz pl q) = q) (R : PRect α)
    (h : 0 ≤ (R.u1 - R.u0) * (R.v1 - R.v0)) : faceInit pl (R.verts pl) = R.verts pl := by
  unfold faceInit
  rw [if_neg]
  rw [is_clockwise_iff']
  simp only [PRect.verts, List.map_cons, List.map_nil, hrt, shoelace_rect]
  linarith

/-- … and a clockwise one is reversed. -/
theorem faceInit_rect_rev (pl : PlaneS α)
    (hrt : ∀ q, plane_xyz_to_xy pl (plane_xy_to_xyz pl q) = q) (R : PRect α)
    (h : 0 < (R.u1 - R.u0) * (R.v1 - R.v0)) :
    faceInit pl (R.vertsUR pl).reverse = R.vertsUR pl := by
  unfold faceInit
  rw [if_pos, List.reverse_reverse]
  rw [is_clockwise_iff']
  have e : (R.vertsUR pl).map (plane_xyz_to_xy pl) =
      ([(⟨R.u0, R.v0⟩ : V2 α), ⟨R.u1, R.v0⟩, ⟨R.u1, R.v1⟩, ⟨R.u0, R.v1⟩].rotate 2) := by
    simp only [PRect.vertsUR, List.map_cons, List.map_nil, hrt]
    rfl
  rw [List.map_reverse, shoelace_reverse, e, shoelace_rotate, shoelace_rect]
  linarith

/-! ## `subdivide_evenly` -/

theorem nat_mul_inv_le_one {n k : ℕ} (hn : 0 < n) : ((k : α) * (1 / (n : α)) ≤ 1) ↔ k ≤ n := by
  have hn' : (0 : α) < n := Nat.cast_pos.mpr hn
  rw [mul_one_div, div_le_one hn', Nat.cast_le]

/-- The `while parameter <= 1` loop started at `parameter = k · (1/n)`: it appends the points at
`k/n, (k+1)/n, …, n/n` (exact arithmetic), whatever fuel is left beyond `n + 1 - k`. -/
theorem seg3_subdivLoop_spec (l : LR3 α) (n : ℕ) (hn : 0 < n) (fuel k : ℕ) (acc : List (V3 α))
    (hk : k ≤ n + 1) (hf : n + 1 - k ≤ fuel) :
    subdivLoop l (1 / (n : α)) fuel ((k : α) * (1 / (n : α))) acc =
      acc ++ ptsFrom (fun i => seg3_point_at l ((i : α) * (1 / (n : α)))) k (n + 1 - k) := by
  induction fuel generalizing k acc with
  | zero =>
    have : n + 1 - k = 0 := by omega
    simp [subdivLoop, this, ptsFrom]
  | succ fuel ih =>
    simp only [subdivLoop]
    by_cases hkn : k ≤ n
    · rw [if_pos ((nat_mul_inv_le_one hn).mpr hkn)]
      have e : (k : α) * (1 / (n : α)) + 1 / (n : α) = ((k + 1 : ℕ) : α) * (1 / (n : α)) := by
        push_cast; ring
      rw [e, ih (k + 1) _ (by omega) (by omega)]
      have e2 : n + 1 - k = (n + 1 - (k + 1)) + 1 := by omega
      rw [e2]
      simp [ptsFrom]
    · rw [if_neg (fun h => hkn ((nat_mul_inv_le_one hn).mp h))]
      have : n + 1 - k = 0 := by omega
      simp [this, ptsFrom]

/-- `subdivide_evenly(n)` for a positive integer `n` in exact arithmetic: the `n + 1` points at
parameters `0, 1/n, …, n/n`; the "tolerance issue" branch is not taken. -/
theorem seg3_subdivideEvenly_spec (l : LR3 α) (n : ℕ) (hn : 0 < n) (fuel : ℕ) (hf : n ≤ fuel) :
    subdivideEvenly fuel l (n : α) =
      ptsFrom (fun i => seg3_point_at l ((i : α) * (1 / (n : α)))) 0 (n + 1) := by
  unfold subdivideEvenly
  have h1 : (1 : α) / n = ((1 : ℕ) : α) * (1 / (n : α)) := by simp
  have h0 : l.p = seg3_point_at l (((0 : ℕ) : α) * (1 / (n : α))) := by
    simp only [seg3_point_at, Nat.cast_zero, zero_mul, mul_zero, add_zero]
  have hl := seg3_subdivLoop_spec l n hn fuel 1 [l.p] (by omega) (by omega)
  rw [← h1] at hl
  have e : subdivLoop l (1 / (n : α)) fuel (1 / (n : α)) [l.p] =
      ptsFrom (fun i => seg3_point_at l ((i : α) * (1 / (n : α)))) 0 (n + 1) := by
    rw [hl]
    conv_lhs => rw [h0]
    simp [ptsFrom]
  simp only [e, ptsFrom_length]
  rw [if_neg]
  push_cast
  simp

/-! ## Python `round` through `M.floor` -/

/-- `round x` is an integer. -/
theorem pyRound_int (M : MathOps α) (hint : ∀ x, ∃ n : ℤ, M.floor x = n) (x : α) :
    ∃ z : ℤ, pyRound M x = z := by
  obtain ⟨z, hz⟩ := hint x
  unfold pyRound
  simp only []
  split_ifs
  · exact ⟨z, hz⟩
  · exact ⟨z + 1, by rw [hz]; push_cast; ring⟩
  · exact ⟨z, hz⟩
  · exact ⟨z + 1, by rw [hz]; push_cast; ring⟩

/-- `|round x - x| ≤ 1/2`. -/
theorem pyRound_bracket (M : MathOps α) (hfl : ∀ x, M.floor x ≤ x ∧ x < M.floor x + 1) (x : α) :
    x - 1 / 2 ≤ pyRound M x ∧ pyRound M x ≤ x + 1 / 2 := by
  obtain ⟨h1, h2⟩ := hfl x
  unfold pyRound
  simp only []
  split_ifs with a b c
  · constructor <;> linarith
  · constructor <;> linarith
  · constructor <;> linarith
  · have : x - M.floor x = 1 / 2 := le_antisymm (not_lt.mp b) (not_lt.mp a)
    constructor <;> linarith

/-- A real number above `1/2` rounds to a positive natural number. -/
theorem pyRound_pos_nat (M : MathOps α) (hfl : ∀ x, M.floor x ≤ x ∧ x < M.floor x + 1)
    (hint : ∀ x, ∃ n : ℤ, M.floor x = n) (x : α) (hx : 1 / 2 < x) :
    ∃ n : ℕ, 1 ≤ n ∧ pyRound M x = n := by
  obtain ⟨z, hz⟩ := pyRound_int M hint x
  obtain ⟨h1, _⟩ := pyRound_bracket M hfl x
  have hz0 : (0 : α) < z := by rw [← hz]; linarith
  have hz1 : 0 < z := by exact_mod_cast hz0
  refine ⟨z.toNat, by omega, ?_⟩
  rw [hz]
  have : ((z.toNat : ℤ) : α) = z := by rw [Int.toNat_of_nonneg hz1.le]
  exact_mod_cast this.symm

/-- `num_div` of `sub_rects_from_rect_ratio` is a positive natural number (for a positive base
and a positive separation). -/
theorem ratioNumDiv_nat (M : MathOps α) (hfl : ∀ x, M.floor x ≤ x ∧ x < M.floor x + 1)
    (hint : ∀ x, ∃ n : ℤ, M.floor x = n) (B hs : α) (hhs : 0 < hs) :
    ∃ n : ℕ, 1 ≤ n ∧ ratioNumDiv M B hs = n := by
  unfold ratioNumDiv
  split_ifs with h
  · apply pyRound_pos_nat M hfl hint
    rw [lt_div_iff₀ hhs]
    linarith
  · exact ⟨1, le_refl _, by simp⟩

/-! ## The pipeline "subdivide – pair up – move – scale about the midpoint – extrude" -/

theorem ite_v3Mul (c : Prop) [Decidable c] (y : V3 α) (a b : α) :
    (if c then v3Mul y a else v3Mul y b) = v3Mul y (if c then a else b) := by
  split_ifs <;> rfl

/-- The pieces `from_end_points(pts[i], pts[i+1])` of a canonical segment subdivided evenly into
`n` parts are the canonical segments between the parameters `i/n` and `(i+1)/n`. -/
theorem btmDivSegs_spec (pl : PlaneS α) (u0 u1 v : α) (n : ℕ) (hn : 0 < n) (fuel : ℕ)
    (hf : n ≤ fuel) :
    segsOfPts (subdivideEvenly fuel (segOf pl u0 u1 v) (n : α)) =
      ptsFrom (fun i => segOf pl (u0 + (u1 - u0) * ((i : α) * (1 / (n : α))))
        (u0 + (u1 - u0) * (((i + 1 : ℕ) : α) * (1 / (n : α)))) v) 0 n := by
  unfold segsOfPts
  rw [seg3_subdivideEvenly_spec _ n hn fuel hf, ptsFrom_zip_tail, ptsFrom_map]
  apply ptsFrom_congr
  intro i _ _
  simp only [segOf_point_at, segOf_from_end_points]

theorem ptsFrom_head (f : ℕ → LR3 α) (j m : ℕ) : headSeg (ptsFrom f j (m + 1)) = f j := by
  simp [headSeg, ptsFrom]

/-- Axis-parallel rectangles of one row: `n` rectangles of width `w` centred in the `n` equal
parts of `[0, B]`, between the heights `v0` and `v1`. -/
def rowRects (n : ℕ) (B w v0 v1 : α) : List (PRect α) :=
  (List.range n).map (fun (i : ℕ) =>
    (⟨((i : α) + 1 / 2) * (B / n) - w / 2, ((i : α) + 1 / 2) * (B / n) + w / 2, v0, v1⟩ : PRect α))

/-- The scaled bottom segments of one row: segment `i` is centred at `(i + 1/2)·B/n`, has
width `w` and lies at height `v`. -/
def rowSegs (pl : PlaneS α) (n : ℕ) (B w v : α) : List (LR3 α) :=
  ptsFrom (fun (i : ℕ) => segOf pl (((i : α) + 1 / 2) * (B / n) - w / 2)
    (((i : α) + 1 / 2) * (B / n) + w / 2) v) 0 n

/-- The `n` pieces of the bottom edge `[0, B]`, moved up by `d` and scaled about their midpoints
by `w / (B/n)`. -/
theorem scaledSegs_spec (pl : PlaneS α) (B w d : α) (n : ℕ) (hn : 0 < n) (fuel : ℕ)
    (hf : n ≤ fuel) (hB : 0 < B) :
    (((segsOfPts (subdivideEvenly fuel (segOf pl 0 B 0) (n : α))).map
        (fun s => seg3_move s (v3Mul pl.y d))).map
        (fun s => seg3_scale s (w / (B / n)) (seg3_midpoint s))) = rowSegs pl n B w d := by
  have hn' : (0 : α) < n := Nat.cast_pos.mpr hn
  have hBn : B / (n : α) ≠ 0 := ne_of_gt (div_pos hB hn')
  rw [btmDivSegs_spec pl 0 B 0 n hn fuel hf]
  simp only [ptsFrom_map, segOf_move, segOf_scale_mid]
  unfold rowSegs
  apply ptsFrom_congr
  intro i _ _
  have e1 : (0 + (B - 0) * ((i : α) * (1 / (n : α))) + (0 + (B - 0) * (((i + 1 : ℕ) : α) * (1 / (n : α))))) / 2
      - w / (B / n) * (0 + (B - 0) * (((i + 1 : ℕ) : α) * (1 / (n : α))) - (0 + (B - 0) * ((i : α) * (1 / (n : α))))) / 2
      = ((i : α) + 1 / 2) * (B / n) - w / 2 := by
    push_cast; field_simp; ring
  have e2 : (0 + (B - 0) * ((i : α) * (1 / (n : α))) + (0 + (B - 0) * (((i + 1 : ℕ) : α) * (1 / (n : α))))) / 2
      + w / (B / n) * (0 + (B - 0) * (((i + 1 : ℕ) : α) * (1 / (n : α))) - (0 + (B - 0) * ((i : α) * (1 / (n : α))))) / 2
      = ((i : α) + 1 / 2) * (B / n) + w / 2 := by
    push_cast; field_simp; ring
  rw [e1, e2, zero_add]

/-- `seg_width = div_segs[0].length` is `B / n`. -/
theorem segWidth_spec (M : MathOps α)
    (hsqrt : ∀ x, 0 ≤ x → M.sqrt x * M.sqrt x = x ∧ 0 ≤ M.sqrt x)
    (pl : PlaneS α) (hx : V3.normSq pl.x = 1) (B d : α) (n : ℕ) (hn : 0 < n) (fuel : ℕ)
    (hf : n ≤ fuel) (hB : 0 < B) :
    seg3_length M (headSeg ((segsOfPts (subdivideEvenly fuel (segOf pl 0 B 0) (n : α))).map
        (fun s => seg3_move s (v3Mul pl.y d)))) = B / n := by
  have hn' : (0 : α) < n := Nat.cast_pos.mpr hn
  rw [btmDivSegs_spec pl 0 B 0 n hn fuel hf]
  obtain ⟨m, rfl⟩ : ∃ m, n = m + 1 := ⟨n - 1, by omega⟩
  simp only [ptsFrom_map, ptsFrom_head, segOf_move, segOf_length M hsqrt pl hx]
  have e : (0 + (B - 0) * (((0 + 1 : ℕ) : α) * (1 / ((m + 1 : ℕ) : α))) -
      (0 + (B - 0) * (((0 : ℕ) : α) * (1 / ((m + 1 : ℕ) : α))))) = B / ((m + 1 : ℕ) : α) := by
    push_cast; field_simp; ring
  rw [e]
  exact abs_of_pos (div_pos hB hn')

theorem rowSegs_move (pl : PlaneS α) (n : ℕ) (B w v d : α) :
    (rowSegs pl n B w v).map (fun s => seg3_move s (v3Mul pl.y d)) = rowSegs pl n B w (v + d) := by
  unfold rowSegs
  simp only [ptsFrom_map, segOf_move]

theorem rowSegs_rects (pl : PlaneS α) (hrt : ∀ q, plane_xyz_to_xy pl (plane_xy_to_xyz pl q) = q)
    (n : ℕ) (B w v hh : α) (hw : 0 ≤ w) (hhh : 0 ≤ hh) :
    (rowSegs pl n B w v).map (fun s => rectUp pl s (v3Mul pl.y hh)) =
      (rowRects n B w v (v + hh)).map (PRect.verts pl) := by
  unfold rowSegs rowRects
  simp only [ptsFrom_map, rectUp, segOf_extrude]
  rw [List.map_map, range_map_eq_ptsFrom]
  apply ptsFrom_congr
  intro i _ _
  simp only [Function.comp]
  apply faceInit_rect pl hrt
  simp only []
  have : 0 ≤ w * hh := mul_nonneg hw hhh
  linarith

/-! ## `sub_rects_from_rect_ratio` in plane coordinates -/

/-- `sub_rect_height` after the clamp to `0.98 · parent_height`. -/
def ratioSubH (H h0 : α) : α := if h0 > (49 / 50) * H then (49 / 50) * H else h0

/-- `sill_height` after the clamp to at least `0.01 · parent_height`. -/
def ratioSill0 (H s0 : α) : α := if s0 < (1 / 100) * H then (1 / 100) * H else s0

/-- The branch test `target_area < max_area_subdiv` (several narrow rectangles vs one wide). -/
abbrev ratioSeveral (B H r h0 : α) : Prop := B * H * r < B * (49 / 50) * h0

/-- Total glazed height of one column: the clamped `sub_rect_height`, or
`target_area / (0.98 · parent_base)` in the single-rectangle branch. -/
def ratioRectH (B H r h0 : α) : α :=
  if ratioSeveral B H r h0 then ratioSubH H h0 else B * H * r / (B * (49 / 50))

/-- The height of the bottom edge of the rectangles above the parent's bottom edge. -/
def ratioSill (B H r h0 s0 : α) : α :=
  if ratioSill0 H s0 < H * (99 / 100) - ratioRectH B H r h0 then ratioSill0 H s0
  else H * (99 / 100) - ratioRectH B H r h0

/-- The effective `vertical_separation` (0 = no split into a lower and an upper row). -/
def ratioVertSep (B H r h0 s0 vs0 : α) : α :=
  clampVertSep vs0 (H - ratioSill0 H s0 - ratioRectH B H r h0 - (1 / 50) * H)

/-- What `sub_rects_from_rect_ratio` returns, as rectangles in the coordinates of the base plane
(`n` = the number of divisions `num_div`). -/
def ratioPlan (n : ℕ) (B H r h0 s0 vs0 : α) : List (PRect α) :=
  let h := ratioRectH B H r h0
  let sill := ratioSill B H r h0 s0
  let vs := ratioVertSep B H r h0 s0 vs0
  if ratioSeveral B H r h0 then
    let w := B * H * r / h / n
    if vs ≠ 0 then
      rowRects n B w sill (sill + h / 2) ++
        rowRects n B w (sill + (h / 2 + vs)) (sill + (h / 2 + vs) + h / 2)
    else rowRects n B w sill (sill + h)
  else
    if vs ≠ 0 then
      [⟨B / 100, 99 / 100 * B, sill, sill + h / 2⟩,
       ⟨B / 100, 99 / 100 * B, sill + (h / 2 + vs), sill + (h / 2 + vs) + h / 2⟩]
    else [⟨B / 100, 99 / 100 * B, sill, sill + h⟩]

/-- The single wide segment of the second branch. -/
theorem single_seg_spec (pl : PlaneS α) (B d : α) :
    seg3_scale (seg3_move (segOf pl 0 B 0) (v3Mul pl.y d)) (49 / 50)
      (seg3_midpoint (seg3_move (segOf pl 0 B 0) (v3Mul pl.y d))) =
    segOf pl (B / 100) (99 / 100 * B) d := by
  rw [segOf_move, segOf_scale_mid]
  have e1 : (0 + B) / 2 - 49 / 50 * (B - 0) / 2 = B / 100 := by ring
  have e2 : (0 + B) / 2 + 49 / 50 * (B - 0) / 2 = 99 / 100 * B := by ring
  rw [e1, e2, zero_add]

theorem rectUp_segOf (pl : PlaneS α) (hrt : ∀ q, plane_xyz_to_xy pl (plane_xy_to_xyz pl q) = q)
    (u0 u1 v hh : α) (h : 0 ≤ (u1 - u0) * hh) :
    rectUp pl (segOf pl u0 u1 v) (v3Mul pl.y hh) = PRect.verts pl ⟨u0, u1, v, v + hh⟩ := by
  rw [rectUp, segOf_extrude]
  apply faceInit_rect pl hrt
  simp only []
  linarith

/-- **The model of `sub_rects_from_rect_ratio` in plane coordinates.**  For a plane with unit
x-axis and the round trip property, positive base / height / target height and a non-negative
ratio, `num_div = n ≥ 1` and enough fuel, the straight-line model returns exactly the
rectangles of `ratioPlan`, each listed counter-clockwise from its lower left corner. -/
theorem subRectsRatioCore_eq_plan (M : MathOps α)
    (hsqrt : ∀ x, 0 ≤ x → M.sqrt x * M.sqrt x = x ∧ 0 ≤ M.sqrt x)
    (pl : PlaneS α) (hx : V3.normSq pl.x = 1)
    (hrt : ∀ q, plane_xyz_to_xy pl (plane_xy_to_xyz pl q) = q)
    (fuel n : ℕ) (hn : 1 ≤ n) (hf : n ≤ fuel) (B H r h0 s0 hs vs0 : α)
    (hB : 0 < B) (hH : 0 < H) (hr : 0 ≤ r) (hh0 : 0 < h0)
    (hnd : ratioNumDiv M B hs = n) :
    subRectsRatioCore M fuel pl B H r h0 s0 hs vs0 =
      (ratioPlan n B H r h0 s0 vs0).map (PRect.verts pl) := by
  have hbs := fromSdl_eq_segOf M hsqrt pl hx B
  have hn0 : 0 < n := hn
  have hn' : (0 : α) < n := Nat.cast_pos.mpr hn0
  have hpos : 0 < (if h0 > (49 / 50) * H then (49 / 50) * H else h0) := by
    split_ifs
    · positivity
    · exact hh0
  have htgt : 0 ≤ B * H * r := by positivity
  unfold subRectsRatioCore ratioPlan ratioVertSep ratioSill ratioRectH ratioSeveral ratioSubH
    ratioSill0
  simp only [hbs, hnd, ite_v3Mul]
  generalize (if h0 > (49 / 50) * H then (49 / 50) * H else h0) = h at hpos ⊢
  generalize (if s0 < (1 / 100) * H then (1 / 100) * H else s0) = s
  by_cases hb : B * H * r < B * (49 / 50) * h0
  · simp only [if_pos hb]
    rw [segWidth_spec M hsqrt pl hx B _ n hn0 fuel hf hB]
    rw [scaledSegs_spec pl B _ _ n hn0 fuel hf hB]
    have hw : 0 ≤ B * H * r / h / n := div_nonneg (div_nonneg htgt hpos.le) hn'.le
    generalize (if s < H * (99 / 100) - h then s else H * (99 / 100) - h) = sill
    generalize clampVertSep vs0 (H - s - h - 1 / 50 * H) = vs
    split_ifs with hvs
    · rw [List.map_append, rowSegs_move, List.map_append,
        rowSegs_rects pl hrt _ _ _ _ _ hw (by linarith),
        rowSegs_rects pl hrt _ _ _ _ _ hw (by linarith)]
    · rw [rowSegs_rects pl hrt _ _ _ _ _ hw hpos.le]
  · simp only [if_neg hb, single_seg_spec]
    have hs1 : 0 ≤ B * H * r / (B * (49 / 50)) := div_nonneg htgt (by positivity)
    have hwd : 0 ≤ 99 / 100 * B - B / 100 := by linarith
    generalize (if s < H * (99 / 100) - B * H * r / (B * (49 / 50)) then s
      else H * (99 / 100) - B * H * r / (B * (49 / 50))) = sill
    generalize clampVertSep vs0 (H - s - B * H * r / (B * (49 / 50)) - 1 / 50 * H) = vs
    split_ifs with hvs
    · simp only [List.map_cons, List.map_nil, segOf_move]
      rw [rectUp_segOf pl hrt _ _ _ _ (mul_nonneg hwd (by linarith)),
        rectUp_segOf pl hrt _ _ _ _ (mul_nonneg hwd (by linarith))]
    · simp only [List.map_cons, List.map_nil]
      rw [rectUp_segOf pl hrt _ _ _ _ (mul_nonneg hwd hs1)]

/-- `seg_width` as the wrapper computes it (before the move). -/
theorem segWidth_spec0 (M : MathOps α)
    (hsqrt : ∀ x, 0 ≤ x → M.sqrt x * M.sqrt x = x ∧ 0 ≤ M.sqrt x)
    (pl : PlaneS α) (hx : V3.normSq pl.x = 1) (B : α) (n : ℕ) (hn : 0 < n) (fuel : ℕ)
    (hf : n ≤ fuel) (hB : 0 < B) :
    seg3_length M (headSeg (segsOfPts (subdivideEvenly fuel (segOf pl 0 B 0) (n : α)))) = B / n := by
  have hn' : (0 : α) < n := Nat.cast_pos.mpr hn
  rw [btmDivSegs_spec pl 0 B 0 n hn fuel hf]
  obtain ⟨m, rfl⟩ : ∃ m, n = m + 1 := ⟨n - 1, by omega⟩
  simp only [ptsFrom_head, segOf_length M hsqrt pl hx]
  have e : (0 + (B - 0) * (((0 + 1 : ℕ) : α) * (1 / ((m + 1 : ℕ) : α))) -
      (0 + (B - 0) * (((0 : ℕ) : α) * (1 / ((m + 1 : ℕ) : α))))) = B / ((m + 1 : ℕ) : α) := by
    push_cast; field_simp; ring
  rw [e]
  exact abs_of_pos (div_pos hB hn')

/-- Under the documented preconditions `sub_rects_from_rect_ratio` raises nothing. -/
theorem subRectsRatio_ok (M : MathOps α)
    (hsqrt : ∀ x, 0 ≤ x → M.sqrt x * M.sqrt x = x ∧ 0 ≤ M.sqrt x)
    (pl : PlaneS α) (hx : V3.normSq pl.x = 1)
    (fuel n : ℕ) (hn : 1 ≤ n) (hf : n ≤ fuel) (B H r h0 s0 hs vs0 : α)
    (hB : 0 < B) (hH : 0 < H) (hh0 : 0 < h0) (hhs : 0 < hs)
    (hnd : ratioNumDiv M B hs = n) :
    subRectsRatio M fuel pl B H r h0 s0 hs vs0 =
      .ok (subRectsRatioCore M fuel pl B H r h0 s0 hs vs0) := by
  have hbs := fromSdl_eq_segOf M hsqrt pl hx B
  have hn0 : 0 < n := hn
  have hn' : (0 : α) < n := Nat.cast_pos.mpr hn0
  have hm : v3_magnitude M pl.x = 1 := by
    simp only [v3_magnitude]
    apply sqrt_eq_one M hsqrt
    simpa only [V3.normSq] using hx
  have hpos : (if h0 > (49 / 50) * H then (49 / 50) * H else h0) ≠ 0 := by
    split_ifs
    · positivity
    · exact ne_of_gt hh0
  unfold subRectsRatio
  simp only [hm, hbs, hnd, one_ne_zero, if_false]
  have c2 : ¬ (B > hs / 2 ∧ hs = 0) := fun h => ne_of_gt hhs h.2
  have c3 : ¬ ¬ ((n : α) > 0) := not_not.mpr hn'
  have c5 : ¬ seg3_length M (headSeg (segsOfPts (subdivideEvenly fuel (segOf pl 0 B 0) (n : α)))) = 0 := by
    rw [segWidth_spec0 M hsqrt pl hx B n hn0 fuel hf hB]
    exact ne_of_gt (div_pos hB hn')
  have c6 : ¬ B * (49 / 50) = 0 := by positivity
  rw [if_neg c2, if_neg c3, if_neg hpos, if_neg c5, if_neg c6]
  split_ifs <;> rfl

/-! ## `sub_rects_from_rect_dimensions` in plane coordinates -/

theorem seg3_subdivideEvenly_length (l : LR3 α) (n : ℕ) (hn : 0 < n) (fuel : ℕ) (hf : n ≤ fuel) :
    (subdivideEvenly fuel l (n : α)).length = n + 1 := by
  rw [seg3_subdivideEvenly_spec l n hn fuel hf, ptsFrom_length]

/-- The effective separation is positive and at least the width. -/
theorem dimsHorizSep_gt (w0 hs0 : α) (hw : 0 < w0) : w0 < dimsHorizSep w0 hs0 := by
  unfold dimsHorizSep
  split_ifs with h
  · linarith
  · exact not_le.mp h

/-- `sub_rect_height` after the clamp to `0.98 · parent_height`. -/
def dimsH (H h0 : α) : α := if h0 ≥ H - (1 / 50) * H then H - (1 / 50) * H else h0

/-- `sill_hgt`: at least `0.01·H`, lowered to `H − h − 0.01·H` when the rectangle would not fit. -/
def dimsSill (H h0 s0 : α) : α :=
  if dimsH H h0 + (if s0 < (1 / 100) * H then (1 / 100) * H else s0) ≥ H then
    H - dimsH H h0 - H * (1 / 100) else (if s0 < (1 / 100) * H then (1 / 100) * H else s0)

/-- What `sub_rects_from_rect_dimensions` returns, as rectangles in the coordinates of the base
plane (`n` = the final `num_div`). -/
def dimsPlan (M : MathOps α) (n : ℕ) (B H h0 w0 s0 hs0 : α) : List (PRect α) :=
  let h := dimsH H h0
  let sh := dimsSill H h0 s0
  let hs := dimsHorizSep w0 hs0
  if w0 < B / 2 then
    let dd := if dimsNumDiv0 M B hs = 1 then B / 2 else hs
    (List.range n).map (fun (i : ℕ) =>
      (⟨B / 2 - dd * n / 2 + ((i : α) + 1 / 2) * dd - w0 / 2,
        B / 2 - dd * n / 2 + ((i : α) + 1 / 2) * dd + w0 / 2, sh, sh + h⟩ : PRect α))
  else
    let w := if w0 ≥ B then B * (49 / 50) else w0
    [⟨B / 2 - w / 2, B / 2 + w / 2, sh, sh + h⟩]

/-- The clamped height is positive and at most `0.98·H`; the sill is at least `0.01·H` and the
rectangle ends at or below the parent's top edge. -/
theorem dims_vertical {H h0 : α} (s0 : α) (hH : 0 < H) (hh0 : 0 < h0) :
    0 < dimsH H h0 ∧ 1 / 100 * H ≤ dimsSill H h0 s0 ∧ dimsSill H h0 s0 + dimsH H h0 ≤ H := by
  unfold dimsSill dimsH
  refine ⟨?_, ?_, ?_⟩
  · split_ifs <;> linarith
  · split_ifs <;> linarith
  · split_ifs <;> linarith

theorem rectUpRev_segOf (pl : PlaneS α) (hrt : ∀ q, plane_xyz_to_xy pl (plane_xy_to_xyz pl q) = q)
    (u0 u1 v hh : α) (h : 0 < (u1 - u0) * hh) :
    rectUpRev pl (segOf pl u0 u1 v) (v3Mul pl.y hh) = PRect.vertsUR pl ⟨u0, u1, v, v + hh⟩ := by
  rw [rectUpRev, segOf_extrude_rev]
  apply faceInit_rect_rev pl hrt
  simp only []
  linarith

/-- **The model of `sub_rects_from_rect_dimensions` in plane coordinates**: the rectangles of
`dimsPlan`, each listed counter-clockwise from its UPPER RIGHT corner (the code builds them
clockwise and `Face3D.__init__` reverses them). -/
theorem subRectsDimsCore_eq_plan (M : MathOps α)
    (hsqrt : ∀ x, 0 ≤ x → M.sqrt x * M.sqrt x = x ∧ 0 ≤ M.sqrt x)
    (pl : PlaneS α) (hx : V3.normSq pl.x = 1)
    (hrt : ∀ q, plane_xyz_to_xy pl (plane_xy_to_xyz pl q) = q)
    (fuel n : ℕ) (hn : 1 ≤ n) (hf : n ≤ fuel) (B H h0 w0 s0 hs0 : α)
    (hB : 0 < B) (hH : 0 < H) (hh0 : 0 < h0) (hw0 : 0 < w0)
    (hnd : w0 < B / 2 → dimsNumDiv M B w0 (dimsHorizSep w0 hs0) = n) :
    subRectsDimsCore M fuel pl B H h0 w0 s0 hs0 =
      (dimsPlan M n B H h0 w0 s0 hs0).map (PRect.vertsUR pl) := by
  have hbs := fromSdl_eq_segOf M hsqrt pl hx B
  have hn0 : 0 < n := hn
  have hn' : (0 : α) < n := Nat.cast_pos.mpr hn0
  have hpos : 0 < (if h0 ≥ H - (1 / 50) * H then H - (1 / 50) * H else h0) := by
    split_ifs
    · linarith
    · exact hh0
  have hhs := dimsHorizSep_gt w0 hs0 hw0
  unfold subRectsDimsCore dimsPlan dimsSill dimsH
  simp only [hbs]
  generalize (if h0 ≥ H - (1 / 50) * H then H - (1 / 50) * H else h0) = h at hpos ⊢
  generalize (if h + (if s0 < (1 / 100) * H then (1 / 100) * H else s0) ≥ H then
    H - h - H * (1 / 100) else (if s0 < (1 / 100) * H then (1 / 100) * H else s0)) = sh
  by_cases hw : w0 < B / 2
  · simp only [if_pos hw, hnd hw]
    have hdd : 0 < (if dimsNumDiv0 M B (dimsHorizSep w0 hs0) = 1 then B / 2
        else dimsHorizSep w0 hs0) := by
      split_ifs
      · linarith
      · linarith
    generalize (if dimsNumDiv0 M B (dimsHorizSep w0 hs0) = 1 then B / 2
        else dimsHorizSep w0 hs0) = dd at hdd ⊢
    rw [segOf_scale_point_at, segOf_move]
    rw [if_neg (by
      rw [seg3_subdivideEvenly_length _ n hn0 fuel hf]; push_cast; linarith)]
    rw [btmDivSegs_spec pl _ _ _ n hn0 fuel hf]
    simp only [ptsFrom_map, segOf_scale_point_at]
    rw [List.map_map, range_map_eq_ptsFrom]
    apply ptsFrom_congr
    intro i _ _
    simp only [Function.comp]
    have hdd0 : dd ≠ 0 := ne_of_gt hdd
    have hB0 : B ≠ 0 := ne_of_gt hB
    have hn0' : (n : α) ≠ 0 := ne_of_gt hn'
    rw [rectUpRev_segOf pl hrt]
    · congr 1
      simp only [PRect.mk.injEq]
      refine ⟨?_, ?_, by ring, by ring⟩
      · push_cast; field_simp; ring
      · push_cast; field_simp; ring
    · apply mul_pos _ hpos
      have : ∀ a b : α, a + w0 / dd * b / 2 - (a - w0 / dd * b / 2) = w0 / dd * b := by
        intro a b; ring
      rw [this]
      have e : (0 + B) / 2 + dd * n / B * (B - 0) / 2 - ((0 + B) / 2 - dd * n / B * (B - 0) / 2)
          = dd * n := by field_simp; ring
      have e2 : ∀ a c : α, a + c * (((i + 1 : ℕ) : α) * (1 / (n : α))) - (a + c * ((i : α) * (1 / (n : α))))
          = c / n := by
        intro a c; push_cast; field_simp; ring
      rw [e2, e]
      have : w0 / dd * (dd * n / n) = w0 := by field_simp
      rw [this]; exact hw0
  · simp only [if_neg hw, List.map_cons, List.map_nil]
    rw [segOf_scale_point_at, segOf_move]
    have hB0 : B ≠ 0 := ne_of_gt hB
    generalize hwdef : (if w0 ≥ B then B * (49 / 50) else w0) = w
    have hwpos : 0 < w := by
      rw [← hwdef]; split_ifs
      · positivity
      · exact hw0
    rw [rectUpRev_segOf pl hrt]
    · congr 2
      simp only [PRect.mk.injEq]
      refine ⟨?_, ?_, by ring, by ring⟩
      · field_simp; ring
      · field_simp; ring
    · apply mul_pos _ hpos
      have : (0 + B) / 2 + w / B * (B - 0) / 2 - ((0 + B) / 2 - w / B * (B - 0) / 2) = w := by
        field_simp; ring
      rw [this]; exact hwpos

/-- The final `num_div` of `sub_rects_from_rect_dimensions` (several-rectangles branch,
`0 < w < B/2`, `w < hs`) is a positive natural number `n`, and the `n` rectangles fit:
`(n - 1)·div_dist + w ≤ B`. -/
theorem dimsNumDiv_nat (M : MathOps α) (hfl : ∀ x, M.floor x ≤ x ∧ x < M.floor x + 1)
    (hint : ∀ x, ∃ n : ℤ, M.floor x = n) (B w0 hs : α) (hw0 : 0 < w0) (hhs : w0 < hs)
    (hw : w0 < B / 2) :
    ∃ n : ℕ, 1 ≤ n ∧ dimsNumDiv M B w0 hs = n ∧
      ((n : α) - 1) * (if dimsNumDiv0 M B hs = 1 then B / 2 else hs) + w0 ≤ B := by
  have hhs0 : 0 < hs := lt_trans hw0 hhs
  have hB : 0 < B := by linarith
  obtain ⟨n0, hn0, hn0eq⟩ := ratioNumDiv_nat M hfl hint B hs hhs0
  have hd0 : dimsNumDiv0 M B hs = (n0 : α) := hn0eq
  unfold dimsNumDiv
  simp only [hd0]
  by_cases hover : (n0 : α) * w0 + ((n0 : α) - 1) * (hs - w0) > B
  · rw [if_pos hover]
    have hne1 : n0 ≠ 1 := by
      rintro rfl
      simp only [Nat.cast_one, one_mul, sub_self, zero_mul, add_zero] at hover
      linarith
    have hn2 : (2 : α) ≤ n0 := by
      have : 2 ≤ n0 := by omega
      exact_mod_cast this
    -- the rounded quotient is within 1/2 of the quotient
    have hq : (n0 : α) ≤ B / hs + 1 / 2 := by
      have hbr : dimsNumDiv0 M B hs = pyRound M (B / hs) := by
        unfold dimsNumDiv0
        split_ifs with hc
        · rfl
        · exfalso
          have : dimsNumDiv0 M B hs = 1 := by unfold dimsNumDiv0; rw [if_neg hc]
          rw [hd0] at this
          exact hne1 (by exact_mod_cast this)
      rw [← hd0, hbr]
      exact (pyRound_bracket M hfl _).2
    obtain ⟨z, hz⟩ := hint (B / hs)
    obtain ⟨f1, f2⟩ := hfl (B / hs)
    rw [hz] at f1 f2
    have hz0 : (0 : α) < z := by linarith
    have hz1 : 0 < z := by exact_mod_cast hz0
    refine ⟨z.toNat, by omega, ?_, ?_⟩
    · rw [hz]
      have : ((z.toNat : ℤ) : α) = z := by rw [Int.toNat_of_nonneg hz1.le]
      exact_mod_cast this.symm
    · have hc : ((z.toNat : ℕ) : α) = z := by
        have : ((z.toNat : ℤ) : α) = z := by rw [Int.toNat_of_nonneg hz1.le]
        exact_mod_cast this
      rw [hc, if_neg (by intro h; exact hne1 (by exact_mod_cast h))]
      have : (z : α) * hs ≤ B := (le_div_iff₀ hhs0).mp f1
      nlinarith
  · rw [if_neg hover]
    refine ⟨n0, hn0, rfl, ?_⟩
    by_cases h1 : (n0 : α) = 1
    · rw [if_pos h1, h1]; linarith
    · rw [if_neg h1]
      have := not_lt.mp hover
      linarith

/-- Under the documented preconditions `sub_rects_from_rect_dimensions` raises nothing. -/
theorem subRectsDims_ok (M : MathOps α)
    (hsqrt : ∀ x, 0 ≤ x → M.sqrt x * M.sqrt x = x ∧ 0 ≤ M.sqrt x)
    (pl : PlaneS α) (hx : V3.normSq pl.x = 1) (fuel : ℕ) (B H h0 w0 s0 hs0 : α)
    (hB : 0 < B) (hw0 : 0 < w0)
    (hnd : w0 < B / 2 → 0 < dimsNumDiv M B w0 (dimsHorizSep w0 hs0)) :
    subRectsDims M fuel pl B H h0 w0 s0 hs0 = .ok (subRectsDimsCore M fuel pl B H h0 w0 s0 hs0) := by
  have hm : v3_magnitude M pl.x = 1 := by
    simp only [v3_magnitude]
    apply sqrt_eq_one M hsqrt
    simpa only [V3.normSq] using hx
  have hhs := dimsHorizSep_gt w0 hs0 hw0
  have hhs0 : dimsHorizSep w0 hs0 ≠ 0 := ne_of_gt (lt_trans hw0 hhs)
  have hB0 : B ≠ 0 := ne_of_gt hB
  unfold subRectsDims
  simp only [hm, one_ne_zero, if_false, hhs0, and_false, hB0]
  by_cases h1 : w0 < B / 2
  · have c2 : ¬ ¬ (dimsNumDiv M B w0 (dimsHorizSep w0 hs0) > 0) := not_not.mpr (hnd h1)
    have c3 : ¬ (if dimsNumDiv0 M B (dimsHorizSep w0 hs0) = 1 then B / 2
        else dimsHorizSep w0 hs0) = 0 := by
      split_ifs
      · exact ne_of_gt (by linarith)
      · exact hhs0
    rw [if_pos h1, if_neg c2, if_neg c3]
  · rw [if_neg h1]

/-! ## Arithmetic of the rows and of the clamped scalars -/

theorem rowRects_length (n : ℕ) (B w v0 v1 : α) : (rowRects n B w v0 v1).length = n := by
  simp [rowRects]

theorem rowRects_mem {n : ℕ} {B w v0 v1 : α} {R : PRect α} (h : R ∈ rowRects n B w v0 v1) :
    ∃ i : ℕ, i < n ∧ R = ⟨((i : α) + 1 / 2) * (B / n) - w / 2,
      ((i : α) + 1 / 2) * (B / n) + w / 2, v0, v1⟩ := by
  unfold rowRects at h
  obtain ⟨i, hi, rfl⟩ := List.mem_map.mp h
  exact ⟨i, List.mem_range.mp hi, rfl⟩

/-- Every rectangle of a row of total width `n·w < B` lies strictly between the left and the
right edge of the parent, has width `w` and spans `[v0, v1]`. -/
theorem rowRects_inside {n : ℕ} {B w v0 v1 : α} (hB : 0 < B) (hw : 0 < w)
    (hwn : w * n < B) {R : PRect α} (h : R ∈ rowRects n B w v0 v1) :
    0 < R.u0 ∧ R.u1 < B ∧ R.u1 - R.u0 = w ∧ R.v0 = v0 ∧ R.v1 = v1 := by
  obtain ⟨i, hi, rfl⟩ := rowRects_mem h
  have hn0 : 0 < n := by omega
  have hn' : (0 : α) < n := Nat.cast_pos.mpr hn0
  have hi' : (i : α) + 1 ≤ n := by exact_mod_cast hi
  have hi0 : (0 : α) ≤ i := Nat.cast_nonneg i
  have hwB : w < B / n := by rw [lt_div_iff₀ hn']; exact hwn
  have hBn : 0 < B / (n : α) := div_pos hB hn'
  have hnB : (n : α) * (B / n) = B := by field_simp
  refine ⟨?_, ?_, by ring, rfl, rfl⟩
  · simp only []
    nlinarith
  · simp only []
    nlinarith

/-- Consecutive (indeed any two) rectangles of a row are separated by a positive gap when
`n·w < B`. -/
theorem rowRects_pairwise_gap (n : ℕ) (B w v0 v1 : α) (hB : 0 < B) (hwn : w * n < B) :
    (rowRects n B w v0 v1).Pairwise (fun R S => R.u1 < S.u0) := by
  unfold rowRects
  rw [List.pairwise_map]
  apply List.Pairwise.imp_of_mem _ List.pairwise_lt_range
  intro i j hi hj hij
  have hn0 : 0 < n := by have := List.mem_range.mp hi; omega
  have hn' : (0 : α) < n := Nat.cast_pos.mpr hn0
  have hwB : w < B / n := by rw [lt_div_iff₀ hn']; exact hwn
  have hBn : 0 < B / (n : α) := div_pos hB hn'
  have hij' : (i : α) + 1 ≤ j := by exact_mod_cast hij
  simp only []
  nlinarith

theorem rowRects_area_sum (n : ℕ) (B w v0 v1 : α) :
    ((rowRects n B w v0 v1).map PRect.area).sum = n * (w * (v1 - v0)) := by
  unfold rowRects
  rw [List.map_map]
  have : (PRect.area ∘ fun (i : ℕ) => (⟨((i : α) + 1 / 2) * (B / n) - w / 2,
      ((i : α) + 1 / 2) * (B / n) + w / 2, v0, v1⟩ : PRect α)) = fun _ => w * (v1 - v0) := by
    funext i
    simp only [Function.comp, PRect.area]
    ring
  rw [this]
  simp

theorem clampVertSep_nonneg (vs m : α) : 0 ≤ clampVertSep vs m := by
  unfold clampVertSep
  split_ifs with h1 h2 h3
  · exact le_refl _
  · push Not at h2; exact h2.2
  · push Not at h2; exact h2.1
  · push Not at h1; rw [h1]

/-- When the split is made the separation is positive and leaves the top margin. -/
theorem clampVertSep_pos {vs m : α} (h : clampVertSep vs m ≠ 0) :
    0 < clampVertSep vs m ∧ clampVertSep vs m ≤ m := by
  refine ⟨lt_of_le_of_ne (clampVertSep_nonneg vs m) (Ne.symm h), ?_⟩
  unfold clampVertSep at h ⊢
  split_ifs at h ⊢ with h1 h2 h3
  · exact absurd rfl h
  · exact le_refl _
  · exact not_lt.mp h3
  · push Not at h1; exact absurd h1 h

theorem ratioSubH_pos {H h0 : α} (hH : 0 < H) (hh0 : 0 < h0) : 0 < ratioSubH H h0 := by
  unfold ratioSubH; split_ifs
  · positivity
  · exact hh0

theorem ratioSubH_le (H h0 : α) : ratioSubH H h0 ≤ 49 / 50 * H ∧ ratioSubH H h0 ≤ h0 := by
  unfold ratioSubH; split_ifs with h
  · exact ⟨le_refl _, le_of_lt h⟩
  · exact ⟨not_lt.mp h, le_refl _⟩

theorem ratioSill0_ge (H s0 : α) : 1 / 100 * H ≤ ratioSill0 H s0 := by
  unfold ratioSill0; split_ifs with h
  · exact le_refl _
  · exact not_lt.mp h

theorem ratioSill_le (B H r h0 s0 : α) :
    ratioSill B H r h0 s0 ≤ H * (99 / 100) - ratioRectH B H r h0 ∧
    ratioSill B H r h0 s0 ≤ ratioSill0 H s0 := by
  unfold ratioSill; split_ifs with h
  · exact ⟨le_of_lt h, le_refl _⟩
  · exact ⟨le_refl _, not_lt.mp h⟩

/-- The column height is positive (for a positive ratio). -/
theorem ratioRectH_pos {B H r h0 : α} (hB : 0 < B) (hH : 0 < H) (hr : 0 < r) (hh0 : 0 < h0) :
    0 < ratioRectH B H r h0 := by
  unfold ratioRectH; split_ifs
  · exact ratioSubH_pos hH hh0
  · positivity

/-- `ratioRectH` in the single branch is `H·r / 0.98`. -/
theorem ratioRectH_single {B H r h0 : α} (hB : 0 < B) (h : ¬ ratioSeveral B H r h0) :
    ratioRectH B H r h0 = H * r / (49 / 50) := by
  unfold ratioRectH; rw [if_neg h]; field_simp

/-- The sill is at least `0.01·H` — always in the several-rectangles branch, and for
`r ≤ 0.98² = 0.9604` in the single-rectangle branch; it is non-negative for `r ≤ 0.9702`. -/
theorem ratioSill_ge {B H r h0 s0 : α} (hB : 0 < B) (hH : 0 < H) :
    (ratioSeveral B H r h0 ∨ r ≤ 2401 / 2500 → 1 / 100 * H ≤ ratioSill B H r h0 s0) ∧
    (r ≤ 4851 / 5000 → 0 ≤ ratioSill B H r h0 s0) := by
  have hs := ratioSill0_ge H s0
  constructor
  · intro hc
    unfold ratioSill; split_ifs with h
    · exact hs
    · by_cases hb : ratioSeveral B H r h0
      · have := (ratioSubH_le H h0).1
        unfold ratioRectH; rw [if_pos hb]; linarith
      · rw [ratioRectH_single hB hb]
        have hr : r ≤ 2401 / 2500 := hc.resolve_left hb
        have : H * r / (49 / 50) ≤ H * (49 / 50) := by
          rw [div_le_iff₀ (by norm_num)]; nlinarith
        linarith
  · intro hr
    unfold ratioSill; split_ifs with h
    · linarith
    · by_cases hb : ratioSeveral B H r h0
      · have := (ratioSubH_le H h0).1
        unfold ratioRectH; rw [if_pos hb]; linarith
      · rw [ratioRectH_single hB hb]
        have : H * r / (49 / 50) ≤ H * (99 / 100) := by
          rw [div_le_iff₀ (by norm_num)]; nlinarith
        linarith

/-- In the several-rectangles branch the total width `n·w = B·H·r / h` is below `B` as soon as
`r < 0.98` or the requested height is at most `0.98·H`. -/
theorem ratio_total_width_lt {B H r h0 : α} (hB : 0 < B) (hH : 0 < H) (hh0 : 0 < h0)
    (hb : ratioSeveral B H r h0) (hc : r < 49 / 50 ∨ h0 ≤ 49 / 50 * H) :
    B * H * r / ratioSubH H h0 < B := by
  have hpos := ratioSubH_pos hH hh0
  rw [div_lt_iff₀ hpos]
  have hb' : H * r < 49 / 50 * h0 := by
    have : B * (H * r) < B * (49 / 50 * h0) := by
      unfold ratioSeveral at hb; linarith
    exact lt_of_mul_lt_mul_left this hB.le
  unfold ratioSubH
  split_ifs with h
  · rcases hc with hc | hc
    · have := mul_pos hB hH
      nlinarith
    · linarith
  · have := mul_pos hB hH
    nlinarith

end Lbg.Lemmas
