/-
  Lemmas.Shoelace — the shoelace (doubled signed area) functional of a vertex list exactly as
  the Python code computes it (`_a += vs[i-1].x * pt.y - vs[i-1].y * pt.x` over
  `enumerate(vs)`), and the centroid numerators.  Pure Lean/Mathlib, independent of the
  generated kernels; every statement holds for every list (induction, no length bound).

  Consumers: C01 (area/centroid exact), C03 (cached area across reverse/move/rotate/reflect/
  scale), C06, C15, C16, C19.
-/
import LbgVerif.Lemmas.Cyclic
import Mathlib.Tactic.FieldSimp
import Mathlib.Tactic.LinearCombination
import Mathlib.Algebra.Order.Field.Rat

namespace Lbg.Lemmas
open Lbg

variable {α : Type} [Field α]

/-- Doubled signed area of the closed polygon `vs`, as accumulated by the Python loop. -/
def shoelace (vs : List (V2 α)) : α :=
  (cyclicPairs vs).foldl (fun acc p => acc + V2.det p.1 p.2) 0

/-- Open chain: `Σ det(v_i, v_{i+1})` without the closing edge. -/
def chainSum : List (V2 α) → α
  | [] => 0
  | [_] => 0
  | a :: b :: t => V2.det a b + chainSum (b :: t)

/-- The linear map with matrix `[[a, b], [c, d]]`. -/
def linMap (a b c d : α) (p : V2 α) : V2 α := ⟨a * p.x + b * p.y, c * p.x + d * p.y⟩

/-! ### Bridges to the generic cyclic-sum machinery -/

/-- The accumulated loop value is the cyclic sum of `det`. -/
theorem shoelace_eq_cycSum (l : List (V2 α)) : shoelace l = cycSum V2.det l := by
  simp only [shoelace, foldl_add_eq_sum, zero_add, cycSum]

/-- `chainSum` is the generic chain sum of `det`. -/
theorem chainSum_eq_chainS (l : List (V2 α)) : chainSum l = chainS V2.det l := by
  induction l with
  | nil => rfl
  | cons a t ih =>
    cases t with
    | nil => rfl
    | cons b t => simp only [chainSum, chainS, ih]

/-- `det` is antisymmetric. -/
theorem det_antisymm (x y : V2 α) : V2.det y x = - V2.det x y := by
  simp only [V2.det]; ring

/-- `det a a = 0`. -/
theorem det_self (a : V2 α) : V2.det a a = 0 := by
  simp only [V2.det]; ring

/-! ### 2. Closing edge + open chain; tiny lists -/

/-- The empty polygon has zero area. -/
@[simp] theorem shoelace_nil : shoelace ([] : List (V2 α)) = 0 := rfl

/-- A single point has zero area (`det a a = 0`). -/
theorem shoelace_singleton (a : V2 α) : shoelace [a] = 0 := by
  rw [shoelace_eq_cycSum, cycSum_singleton, det_self]

/-- A two-point "polygon" has zero area (`det a b + det b a = 0`). -/
theorem shoelace_pair (a b : V2 α) : shoelace [a, b] = 0 := by
  rw [shoelace_eq_cycSum, cycSum_pair, det_antisymm a b]; ring

/-- Shoelace = closing edge `(last, first)` + open chain. -/
theorem shoelace_closed (d : V2 α) (l : List (V2 α)) (hl : l ≠ []) :
    shoelace l = V2.det (l.getLast?.getD d) (l.head?.getD d) + chainSum l := by
  rw [shoelace_eq_cycSum, chainSum_eq_chainS, cycSum_closed V2.det d l hl]

/-! ### 3. Open chains: append and reverse -/

/-- Appending one vertex to a non-empty chain adds the edge from the old last vertex. -/
theorem chainSum_append_single (d : V2 α) (l : List (V2 α)) (b : V2 α) (hl : l ≠ []) :
    chainSum (l ++ [b]) = chainSum l + V2.det (l.getLast?.getD d) b := by
  simp only [chainSum_eq_chainS, chainS_append_single V2.det d l b hl]

/-- Chain of a concatenation = chains of the parts + the connecting edge. -/
theorem chainSum_append (d : V2 α) (l₁ l₂ : List (V2 α)) (h₁ : l₁ ≠ []) (h₂ : l₂ ≠ []) :
    chainSum (l₁ ++ l₂) =
      chainSum l₁ + V2.det (l₁.getLast?.getD d) (l₂.head?.getD d) + chainSum l₂ := by
  simp only [chainSum_eq_chainS, chainS_append V2.det d l₁ l₂ h₁ h₂]

/-- Reversing an open chain negates its sum. -/
theorem chainSum_reverse (l : List (V2 α)) : chainSum l.reverse = - chainSum l := by
  simp only [chainSum_eq_chainS, chainS_reverse_of_antisymm V2.det det_antisymm]

/-! ### 4, 5. Orientation and start point -/

/-- Reversing the vertex order negates the signed area. -/
theorem shoelace_reverse (l : List (V2 α)) : shoelace l.reverse = - shoelace l := by
  simp only [shoelace_eq_cycSum, cycSum_reverse_of_antisymm V2.det det_antisymm]

/-- The signed area does not depend on where the loop is cut open. -/
theorem shoelace_append_comm (l₁ l₂ : List (V2 α)) :
    shoelace (l₁ ++ l₂) = shoelace (l₂ ++ l₁) := by
  simp only [shoelace_eq_cycSum, cycSum_append_comm]

/-- Cyclic start invariance, in terms of `List.rotate`. -/
theorem shoelace_rotate (l : List (V2 α)) (n : ℕ) : shoelace (l.rotate n) = shoelace l := by
  simp only [shoelace_eq_cycSum, cycSum_rotate]

/-! ### 6, 7. Affine maps -/

/-- Master lemma: if `g` acts as the affine map `p ↦ [[a,b],[c,d]] p + (e,f)` then the
signed area is multiplied by the determinant `a*d - b*c`.  (Hypotheses are coordinatewise so
that a generated kernel can be plugged in by `intro p; simp only [kernel]; ring`.) -/
theorem shoelace_affine_of (g : V2 α → V2 α) (a b c d e f : α)
    (hx : ∀ p, (g p).x = a * p.x + b * p.y + e) (hy : ∀ p, (g p).y = c * p.x + d * p.y + f)
    (l : List (V2 α)) : shoelace (l.map g) = (a * d - b * c) * shoelace l := by
  simp only [shoelace_eq_cycSum, cycSum_map]
  rw [cycSum_congr (g := fun x y => (a * d - b * c) * V2.det x y +
      ((fun p : V2 α => e * (c * p.x + d * p.y) - f * (a * p.x + b * p.y)) y -
       (fun p : V2 α => e * (c * p.x + d * p.y) - f * (a * p.x + b * p.y)) x))]
  · rw [cycSum_add_telescope, cycSum_mul_left]
  · intro x y
    simp only [V2.det, hx, hy]
    ring

/-- Translation does not change the signed area. -/
theorem shoelace_translate (t : V2 α) (l : List (V2 α)) :
    shoelace (l.map (fun p => V2.add p t)) = shoelace l := by
  rw [shoelace_affine_of _ 1 0 0 1 t.x t.y (fun p => by simp [V2.add])
    (fun p => by simp [V2.add])]
  ring

/-- Translation by `-t` (written with `V2.sub`) does not change the signed area. -/
theorem shoelace_translate_sub (t : V2 α) (l : List (V2 α)) :
    shoelace (l.map (fun p => V2.sub p t)) = shoelace l := by
  rw [shoelace_affine_of _ 1 0 0 1 (-t.x) (-t.y) (fun p => by simp [V2.sub]; ring)
    (fun p => by simp [V2.sub]; ring)]
  ring

/-- A linear map multiplies the signed area by its determinant. -/
theorem shoelace_linear (a b c d : α) (l : List (V2 α)) :
    shoelace (l.map (fun p => (⟨a * p.x + b * p.y, c * p.x + d * p.y⟩ : V2 α))) =
      (a * d - b * c) * shoelace l :=
  shoelace_affine_of _ a b c d 0 0 (fun p => by simp) (fun p => by simp) l

/-- Same, with the named map `linMap`. -/
theorem shoelace_linMap (a b c d : α) (l : List (V2 α)) :
    shoelace (l.map (linMap a b c d)) = (a * d - b * c) * shoelace l :=
  shoelace_linear a b c d l

/-- Affine map about centres: `p ↦ L (p - o) + o'` multiplies the signed area by `det L`. -/
theorem shoelace_affine (a b c d : α) (o o' : V2 α) (l : List (V2 α)) :
    shoelace (l.map (fun p => V2.add (linMap a b c d (V2.sub p o)) o')) =
      (a * d - b * c) * shoelace l :=
  shoelace_affine_of _ a b c d (o'.x - (a * o.x + b * o.y)) (o'.y - (c * o.x + d * o.y))
    (fun p => by simp only [V2.add, V2.sub, linMap]; ring)
    (fun p => by simp only [V2.add, V2.sub, linMap]; ring) l

/-- A rotation (`c² + s² = 1`) about the world origin preserves the signed area. -/
theorem shoelace_rot (c s : α) (h : c * c + s * s = 1) (l : List (V2 α)) :
    shoelace (l.map (fun p => (⟨c * p.x - s * p.y, s * p.x + c * p.y⟩ : V2 α))) =
      shoelace l := by
  rw [shoelace_affine_of _ c (-s) s c 0 0 (fun p => by simp; ring) (fun p => by simp)]
  have : c * c - -s * s = 1 := by linear_combination h
  rw [this, one_mul]

/-- A rotation (`c² + s² = 1`) about the point `o` preserves the signed area. -/
theorem shoelace_rot_about (c s : α) (h : c * c + s * s = 1) (o : V2 α) (l : List (V2 α)) :
    shoelace (l.map (fun p => (⟨c * (p.x - o.x) - s * (p.y - o.y) + o.x,
      s * (p.x - o.x) + c * (p.y - o.y) + o.y⟩ : V2 α))) = shoelace l := by
  rw [shoelace_affine_of _ c (-s) s c (o.x - (c * o.x - s * o.y)) (o.y - (s * o.x + c * o.y))
    (fun p => by simp only []; ring) (fun p => by simp only []; ring)]
  have : c * c - -s * s = 1 := by linear_combination h
  rw [this, one_mul]

/-- The Householder reflection `p ↦ p - 2 (p·n) n` with `n·n = 1` negates the signed area. -/
theorem shoelace_reflect (n : V2 α) (hn : n.x * n.x + n.y * n.y = 1) (l : List (V2 α)) :
    shoelace (l.map (fun p => (⟨p.x - 2 * (p.x * n.x + p.y * n.y) * n.x,
      p.y - 2 * (p.x * n.x + p.y * n.y) * n.y⟩ : V2 α))) = - shoelace l := by
  rw [shoelace_affine_of _ (1 - 2 * n.x * n.x) (-2 * n.x * n.y) (-2 * n.x * n.y)
    (1 - 2 * n.y * n.y) 0 0 (fun p => by simp only []; ring) (fun p => by simp only []; ring)]
  have : (1 - 2 * n.x * n.x) * (1 - 2 * n.y * n.y) - -2 * n.x * n.y * (-2 * n.x * n.y) = -1 := by
    linear_combination (-2 : α) * hn
  rw [this]; ring

/-- Reflection across the line through `o` with unit normal `n` negates the signed area. -/
theorem shoelace_reflect_about (n o : V2 α) (hn : n.x * n.x + n.y * n.y = 1)
    (l : List (V2 α)) :
    shoelace (l.map (fun p => (⟨(p.x - o.x) -
        2 * ((p.x - o.x) * n.x + (p.y - o.y) * n.y) * n.x + o.x,
      (p.y - o.y) - 2 * ((p.x - o.x) * n.x + (p.y - o.y) * n.y) * n.y + o.y⟩ : V2 α))) =
      - shoelace l := by
  rw [shoelace_affine_of _ (1 - 2 * n.x * n.x) (-2 * n.x * n.y) (-2 * n.x * n.y)
    (1 - 2 * n.y * n.y)
    (o.x - ((1 - 2 * n.x * n.x) * o.x + (-2 * n.x * n.y) * o.y))
    (o.y - ((-2 * n.x * n.y) * o.x + (1 - 2 * n.y * n.y) * o.y))
    (fun p => by simp only []; ring) (fun p => by simp only []; ring)]
  have : (1 - 2 * n.x * n.x) * (1 - 2 * n.y * n.y) - -2 * n.x * n.y * (-2 * n.x * n.y) = -1 := by
    linear_combination (-2 : α) * hn
  rw [this]; ring

/-- Uniform scaling by `k` about the world origin multiplies the signed area by `k²`. -/
theorem shoelace_scale (k : α) (l : List (V2 α)) :
    shoelace (l.map (fun p => V2.smul k p)) = k * k * shoelace l := by
  rw [shoelace_affine_of _ k 0 0 k 0 0 (fun p => by simp [V2.smul]) (fun p => by simp [V2.smul])]
  ring

/-- Uniform scaling by `k` about the point `o` (`p ↦ o + k (p - o)`) multiplies the signed
area by `k²`. -/
theorem shoelace_scale_about (k : α) (o : V2 α) (l : List (V2 α)) :
    shoelace (l.map (fun p => V2.add o (V2.smul k (V2.sub p o)))) = k * k * shoelace l := by
  rw [shoelace_affine_of _ k 0 0 k (o.x - k * o.x) (o.y - k * o.y)
    (fun p => by simp only [V2.add, V2.smul, V2.sub]; ring)
    (fun p => by simp only [V2.add, V2.smul, V2.sub]; ring)]
  ring

/-! ### 8. Fan triangulations -/

/-- The signed area is the sum of the doubled signed triangle areas `(o, a, b)` over the
cyclic edges `(a, b)`, for ANY base point `o`. -/
theorem shoelace_eq_fan (o : V2 α) (l : List (V2 α)) :
    shoelace l =
      ((cyclicPairs l).map (fun p => V2.det (V2.sub p.1 o) (V2.sub p.2 o))).sum := by
  rw [← shoelace_translate_sub o l, shoelace_eq_cycSum, cycSum_map]
  rfl

/-- Same as `shoelace_eq_fan`, as the Python-style accumulation loop. -/
theorem shoelace_eq_fan_foldl (o : V2 α) (l : List (V2 α)) :
    shoelace l = (cyclicPairs l).foldl
      (fun acc p => acc + V2.det (V2.sub p.1 o) (V2.sub p.2 o)) 0 := by
  rw [foldl_add_eq_sum, zero_add, ← shoelace_eq_fan]

/-- Fan triangulation `(0, i, i+1)` from the first vertex (generic chain form). -/
theorem shoelace_fan_head_chainS (p0 : V2 α) (rest : List (V2 α)) :
    shoelace (p0 :: rest) =
      chainS (fun a b => V2.det (V2.sub a p0) (V2.sub b p0)) rest := by
  rw [← shoelace_translate_sub p0 (p0 :: rest), shoelace_eq_cycSum, cycSum_map]
  exact cycSum_cons_of_zero _ p0 (fun x => by simp [V2.det, V2.sub])
    (fun x => by simp [V2.det, V2.sub]) rest

/-- Fan triangulation `(0, i, i+1)` from the first vertex: the signed area of `p0 :: rest` is
the sum over consecutive pairs `(a, b)` of `rest` of `det (a - p0) (b - p0)`. -/
theorem shoelace_fan_head (p0 : V2 α) (rest : List (V2 α)) :
    shoelace (p0 :: rest) =
      ((rest.zip rest.tail).map (fun p => V2.det (V2.sub p.1 p0) (V2.sub p.2 p0))).sum := by
  rw [shoelace_fan_head_chainS, chainS_eq_zip_tail]

/-! ### 12. Triangles and quads -/

/-- Triangle: `shoelace [a,b,c] = det (b - a) (c - a)`. -/
theorem shoelace_triangle (a b c : V2 α) :
    shoelace [a, b, c] = V2.det (V2.sub b a) (V2.sub c a) := by
  simp only [shoelace_eq_cycSum, cycSum_cons, seg_cons, seg_nil, V2.det, V2.sub]; ring

/-- Quad: diagonal cross-product formula `shoelace [a,b,c,d] = det (c - a) (d - b)`. -/
theorem shoelace_quad (a b c d : V2 α) :
    shoelace [a, b, c, d] = V2.det (V2.sub c a) (V2.sub d b) := by
  simp only [shoelace_eq_cycSum, cycSum_cons, seg_cons, seg_nil, V2.det, V2.sub]; ring

/-! ### 9, 10. Loop surgery -/

/-- Cutting a loop along the chord `a — b` is additive in signed area. -/
theorem shoelace_split (pre mid post : List (V2 α)) (a b : V2 α) :
    shoelace (pre ++ [a] ++ mid ++ [b] ++ post) =
      shoelace ([a] ++ mid ++ [b]) + shoelace (pre ++ [a, b] ++ post) := by
  simp only [shoelace_eq_cycSum]
  exact cycSum_split V2.det det_antisymm pre mid post a b

/-- Clipping the ear `(a, b, c)`: the area drops by the ear triangle. -/
theorem shoelace_ear (pre post : List (V2 α)) (a b c : V2 α) :
    shoelace (pre ++ [a, b, c] ++ post) =
      V2.det (V2.sub b a) (V2.sub c a) + shoelace (pre ++ [a, c] ++ post) := by
  have := shoelace_split pre [b] post a c
  simp only [List.append_assoc, List.cons_append, List.nil_append] at this ⊢
  rw [this, shoelace_triangle]

/-- Merging a hole `H = h1 ++ [q] ++ h2` into a boundary `B = b1 ++ [p] ++ b2` through the
doubled bridge edge `p — q`: the merged loop has signed area `shoelace B + shoelace H`. -/
theorem shoelace_bridge (b1 b2 h1 h2 : List (V2 α)) (p q : V2 α) :
    shoelace (b1 ++ [p] ++ ([q] ++ h2 ++ h1 ++ [q]) ++ [p] ++ b2) =
      shoelace (b1 ++ [p] ++ b2) + shoelace (h1 ++ [q] ++ h2) := by
  simp only [shoelace_eq_cycSum]
  exact cycSum_bridge V2.det det_antisymm b1 b2 h1 h2 p q

/-! ### 11. Centroid numerators -/

/-- `Σ (a.x + b.x) * det a b` over the cyclic edges: `6·area·centroid.x`. -/
def cx (l : List (V2 α)) : α :=
  ((cyclicPairs l).map (fun p => (p.1.x + p.2.x) * V2.det p.1 p.2)).sum

/-- `Σ (a.y + b.y) * det a b` over the cyclic edges: `6·area·centroid.y`. -/
def cy (l : List (V2 α)) : α :=
  ((cyclicPairs l).map (fun p => (p.1.y + p.2.y) * V2.det p.1 p.2)).sum

/-- `cx` as a generic cyclic sum. -/
theorem cx_eq_cycSum (l : List (V2 α)) :
    cx l = cycSum (fun a b => (a.x + b.x) * V2.det a b) l := rfl

/-- `cy` as a generic cyclic sum. -/
theorem cy_eq_cycSum (l : List (V2 α)) :
    cy l = cycSum (fun a b => (a.y + b.y) * V2.det a b) l := rfl

/-- The accumulation-loop form of `cx`. -/
theorem cx_eq_foldl (l : List (V2 α)) :
    (cyclicPairs l).foldl (fun acc p => acc + (p.1.x + p.2.x) * V2.det p.1 p.2) 0 = cx l := by
  rw [foldl_add_eq_sum, zero_add]; rfl

/-- The accumulation-loop form of `cy`. -/
theorem cy_eq_foldl (l : List (V2 α)) :
    (cyclicPairs l).foldl (fun acc p => acc + (p.1.y + p.2.y) * V2.det p.1 p.2) 0 = cy l := by
  rw [foldl_add_eq_sum, zero_add]; rfl

/-- Reversal negates `cx`. -/
theorem cx_reverse (l : List (V2 α)) : cx l.reverse = - cx l := by
  simp only [cx_eq_cycSum]
  exact cycSum_reverse_of_antisymm _ (fun x y => by simp only [V2.det]; ring) l

/-- Reversal negates `cy`. -/
theorem cy_reverse (l : List (V2 α)) : cy l.reverse = - cy l := by
  simp only [cy_eq_cycSum]
  exact cycSum_reverse_of_antisymm _ (fun x y => by simp only [V2.det]; ring) l

/-- `cx` does not depend on where the loop is cut open. -/
theorem cx_append_comm (l₁ l₂ : List (V2 α)) : cx (l₁ ++ l₂) = cx (l₂ ++ l₁) := by
  simp only [cx_eq_cycSum, cycSum_append_comm]

/-- `cy` does not depend on where the loop is cut open. -/
theorem cy_append_comm (l₁ l₂ : List (V2 α)) : cy (l₁ ++ l₂) = cy (l₂ ++ l₁) := by
  simp only [cy_eq_cycSum, cycSum_append_comm]

/-- `cx` does not depend on the start vertex. -/
theorem cx_rotate (l : List (V2 α)) (n : ℕ) : cx (l.rotate n) = cx l := by
  simp only [cx_eq_cycSum, cycSum_rotate]

/-- `cy` does not depend on the start vertex. -/
theorem cy_rotate (l : List (V2 α)) (n : ℕ) : cy (l.rotate n) = cy l := by
  simp only [cy_eq_cycSum, cycSum_rotate]

/-- Master law for `cx` under the affine map `p ↦ [[a,b],[c,d]] p + (e,f)`. -/
theorem cx_affine_of (g : V2 α → V2 α) (a b c d e f : α)
    (hx : ∀ p, (g p).x = a * p.x + b * p.y + e) (hy : ∀ p, (g p).y = c * p.x + d * p.y + f)
    (l : List (V2 α)) :
    cx (l.map g) = (a * d - b * c) * (a * cx l + b * cy l + 3 * e * shoelace l) := by
  simp only [cx_eq_cycSum, cy_eq_cycSum, shoelace_eq_cycSum, cycSum_map]
  rw [cycSum_congr (g := fun x y =>
      ((a * d - b * c) * a * ((x.x + y.x) * V2.det x y) +
        ((a * d - b * c) * b * ((x.y + y.y) * V2.det x y) +
          (a * d - b * c) * (3 * e) * V2.det x y)) +
      ((fun p : V2 α => -f * ((a * p.x + b * p.y) * (a * p.x + b * p.y)
            + 2 * e * (a * p.x + b * p.y))
          + e * (a * p.x + b * p.y) * (c * p.x + d * p.y)
          + 2 * e * e * (c * p.x + d * p.y)) y -
       (fun p : V2 α => -f * ((a * p.x + b * p.y) * (a * p.x + b * p.y)
            + 2 * e * (a * p.x + b * p.y))
          + e * (a * p.x + b * p.y) * (c * p.x + d * p.y)
          + 2 * e * e * (c * p.x + d * p.y)) x))]
  · rw [cycSum_add_telescope, cycSum_add, cycSum_add, cycSum_mul_left, cycSum_mul_left,
      cycSum_mul_left]
    ring
  · intro x y
    simp only [V2.det, hx, hy]
    ring

/-- Master law for `cy` under the affine map `p ↦ [[a,b],[c,d]] p + (e,f)`. -/
theorem cy_affine_of (g : V2 α → V2 α) (a b c d e f : α)
    (hx : ∀ p, (g p).x = a * p.x + b * p.y + e) (hy : ∀ p, (g p).y = c * p.x + d * p.y + f)
    (l : List (V2 α)) :
    cy (l.map g) = (a * d - b * c) * (c * cx l + d * cy l + 3 * f * shoelace l) := by
  simp only [cx_eq_cycSum, cy_eq_cycSum, shoelace_eq_cycSum, cycSum_map]
  rw [cycSum_congr (g := fun x y =>
      ((a * d - b * c) * c * ((x.x + y.x) * V2.det x y) +
        ((a * d - b * c) * d * ((x.y + y.y) * V2.det x y) +
          (a * d - b * c) * (3 * f) * V2.det x y)) +
      ((fun p : V2 α => e * ((c * p.x + d * p.y) * (c * p.x + d * p.y)
            + 2 * f * (c * p.x + d * p.y))
          - f * (a * p.x + b * p.y) * (c * p.x + d * p.y)
          - 2 * f * f * (a * p.x + b * p.y)) y -
       (fun p : V2 α => e * ((c * p.x + d * p.y) * (c * p.x + d * p.y)
            + 2 * f * (c * p.x + d * p.y))
          - f * (a * p.x + b * p.y) * (c * p.x + d * p.y)
          - 2 * f * f * (a * p.x + b * p.y)) x))]
  · rw [cycSum_add_telescope, cycSum_add, cycSum_add, cycSum_mul_left, cycSum_mul_left,
      cycSum_mul_left]
    ring
  · intro x y
    simp only [V2.det, hx, hy]
    ring

/-- Translation law: `cx (l + t) = cx l + 3 t.x · shoelace l`. -/
theorem cx_translate (t : V2 α) (l : List (V2 α)) :
    cx (l.map (fun p => V2.add p t)) = cx l + 3 * t.x * shoelace l := by
  rw [cx_affine_of _ 1 0 0 1 t.x t.y (fun p => by simp [V2.add]) (fun p => by simp [V2.add])]
  ring

/-- Translation law: `cy (l + t) = cy l + 3 t.y · shoelace l`. -/
theorem cy_translate (t : V2 α) (l : List (V2 α)) :
    cy (l.map (fun p => V2.add p t)) = cy l + 3 * t.y * shoelace l := by
  rw [cy_affine_of _ 1 0 0 1 t.x t.y (fun p => by simp [V2.add]) (fun p => by simp [V2.add])]
  ring

/-- Scaling law: `cx (k·l) = k³ cx l`. -/
theorem cx_scale (k : α) (l : List (V2 α)) :
    cx (l.map (fun p => V2.smul k p)) = k * k * k * cx l := by
  rw [cx_affine_of _ k 0 0 k 0 0 (fun p => by simp [V2.smul]) (fun p => by simp [V2.smul])]
  ring

/-- Scaling law: `cy (k·l) = k³ cy l`. -/
theorem cy_scale (k : α) (l : List (V2 α)) :
    cy (l.map (fun p => V2.smul k p)) = k * k * k * cy l := by
  rw [cy_affine_of _ k 0 0 k 0 0 (fun p => by simp [V2.smul]) (fun p => by simp [V2.smul])]
  ring

/-- Linear maps: `cx (L l) = det L · (a cx l + b cy l)`. -/
theorem cx_linear (a b c d : α) (l : List (V2 α)) :
    cx (l.map (fun p => (⟨a * p.x + b * p.y, c * p.x + d * p.y⟩ : V2 α))) =
      (a * d - b * c) * (a * cx l + b * cy l) := by
  rw [cx_affine_of _ a b c d 0 0 (fun p => by simp) (fun p => by simp)]
  ring

/-- Linear maps: `cy (L l) = det L · (c cx l + d cy l)`. -/
theorem cy_linear (a b c d : α) (l : List (V2 α)) :
    cy (l.map (fun p => (⟨a * p.x + b * p.y, c * p.x + d * p.y⟩ : V2 α))) =
      (a * d - b * c) * (c * cx l + d * cy l) := by
  rw [cy_affine_of _ a b c d 0 0 (fun p => by simp) (fun p => by simp)]
  ring

/-! ### Centroid -/

/-- Area centroid `(cx / (3·shoelace), cy / (3·shoelace))` (meaningful when `shoelace ≠ 0`). -/
def centroid (l : List (V2 α)) : V2 α :=
  ⟨cx l / (3 * shoelace l), cy l / (3 * shoelace l)⟩

/-- The centroid is orientation independent. -/
theorem centroid_reverse (l : List (V2 α)) : centroid l.reverse = centroid l := by
  simp only [centroid, cx_reverse, cy_reverse, shoelace_reverse, mul_neg, neg_div_neg_eq]

/-- The centroid is start-vertex independent. -/
theorem centroid_rotate (l : List (V2 α)) (n : ℕ) : centroid (l.rotate n) = centroid l := by
  simp only [centroid, cx_rotate, cy_rotate, shoelace_rotate]

/-- The centroid is equivariant under every invertible affine map (`3 ≠ 0` in `α`,
non-degenerate polygon, non-singular map). -/
theorem centroid_affine_of (g : V2 α → V2 α) (a b c d e f : α)
    (hx : ∀ p, (g p).x = a * p.x + b * p.y + e) (hy : ∀ p, (g p).y = c * p.x + d * p.y + f)
    (l : List (V2 α)) (h3 : (3 : α) ≠ 0) (hA : shoelace l ≠ 0) (hD : a * d - b * c ≠ 0) :
    centroid (l.map g) =
      ⟨a * (centroid l).x + b * (centroid l).y + e,
       c * (centroid l).x + d * (centroid l).y + f⟩ := by
  simp only [centroid, cx_affine_of g a b c d e f hx hy, cy_affine_of g a b c d e f hx hy,
    shoelace_affine_of g a b c d e f hx hy]
  congr 1 <;> · field_simp

/-- The centroid moves with a translation. -/
theorem centroid_translate (t : V2 α) (l : List (V2 α)) (h3 : (3 : α) ≠ 0)
    (hA : shoelace l ≠ 0) :
    centroid (l.map (fun p => V2.add p t)) = V2.add (centroid l) t := by
  rw [centroid_affine_of _ 1 0 0 1 t.x t.y (fun p => by simp [V2.add])
    (fun p => by simp [V2.add]) l h3 hA (by simp)]
  simp [V2.add]

/-- The centroid scales with a uniform scaling `k ≠ 0`. -/
theorem centroid_scale (k : α) (hk : k ≠ 0) (l : List (V2 α)) (h3 : (3 : α) ≠ 0)
    (hA : shoelace l ≠ 0) :
    centroid (l.map (fun p => V2.smul k p)) = V2.smul k (centroid l) := by
  rw [centroid_affine_of _ k 0 0 k 0 0 (fun p => by simp [V2.smul])
    (fun p => by simp [V2.smul]) l h3 hA (by simp [hk])]
  simp [V2.smul]

/-! ### Sanity checks of the definitions on concrete data (ℚ) -/

/-- Unit square, counter-clockwise: doubled area 2. -/
example : shoelace ([⟨0, 0⟩, ⟨1, 0⟩, ⟨1, 1⟩, ⟨0, 1⟩] : List (V2 ℚ)) = 2 := by decide +kernel
/-- Its centroid is (1/2, 1/2). -/
example : centroid ([⟨0, 0⟩, ⟨1, 0⟩, ⟨1, 1⟩, ⟨0, 1⟩] : List (V2 ℚ)) = ⟨1 / 2, 1 / 2⟩ := by
  decide +kernel
/-- An L-shaped hexagon (area 3, doubled 6), clockwise: negative sign. -/
example : shoelace ([⟨0, 0⟩, ⟨0, 2⟩, ⟨1, 2⟩, ⟨1, 1⟩, ⟨2, 1⟩, ⟨2, 0⟩] : List (V2 ℚ)) = -6 := by
  decide +kernel

end Lbg.Lemmas
