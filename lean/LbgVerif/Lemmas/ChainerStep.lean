/-
  Helper lemmas for the `_segmentChainer` theorems (Props/C04b), part 4: one step and the whole
  run of the ghost chainer keep the invariant.
-/
import LbgVerif.Lemmas.ChainerInv

namespace Lbg.Lemmas.Chainer
open Lbg Lbg.Model.Chainer

variable {α : Type}
variable {eqv : V2 α → V2 α → Bool} {col : V2 α → V2 α → V2 α → Bool} {z : V2 α}
variable {P : V2 α → Prop}

theorem getLast?_cons_snoc (a : V2 α) (l : List (V2 α)) (x : V2 α) :
    (a :: (l ++ [x])).getLast? = some x := by
  rw [show a :: (l ++ [x]) = (a :: l) ++ [x] by simp, List.getLast?_concat]

/-! ## The chain produced by the single-match branch -/

theorem extend_head_reduces {f c : List (V2 α)} (h : Reduces col f c) (l2 : 2 ≤ c.length)
    (pt : V2 α) :
    Reduces col (pt :: f) (pt :: (if col (nth c 1 z) (nth c 0 z) pt = true then c.tail else c)) ∧
      2 ≤ (pt :: (if col (nth c 1 z) (nth c 0 z) pt = true then c.tail else c)).length := by
  obtain ⟨g, g2, r, rfl⟩ := exists_cons_cons c l2
  have e0 : nth (g :: g2 :: r) 0 z = g := rfl
  have e1 : nth (g :: g2 :: r) 1 z = g2 := rfl
  simp only [e0, e1]
  by_cases hc : col g2 g pt = true
  · simp only [hc, ↓reduceIte, List.tail_cons]
    refine ⟨(h.cons pt).step ?_, by simp⟩
    exact DropStep.mk [] pt g g2 r (Or.inr hc)
  · simp only [hc, ↓reduceIte, Bool.false_eq_true]
    exact ⟨h.cons pt, by simp⟩

theorem extend_tail_reduces {f c : List (V2 α)} (h : Reduces col f c) (l2 : 2 ≤ c.length)
    (pt : V2 α) :
    Reduces col (f ++ [pt])
        ((if col (nthBack c 1 z) (nthBack c 0 z) pt = true then c.dropLast else c) ++ [pt]) ∧
      2 ≤ ((if col (nthBack c 1 z) (nthBack c 0 z) pt = true then c.dropLast else c)
        ++ [pt]).length := by
  obtain ⟨init, t2, t, rfl⟩ := exists_snoc_snoc c l2
  have e0 : nthBack (init ++ [t2, t]) 0 z = t := by simp [nthBack]
  have e1 : nthBack (init ++ [t2, t]) 1 z = t2 := by simp [nthBack]
  have d1 : (init ++ [t2, t]).dropLast = init ++ [t2] := by
    rw [show init ++ [t2, t] = (init ++ [t2]) ++ [t] by simp, List.dropLast_concat]
  simp only [e0, e1]
  by_cases hc : col t2 t pt = true
  · simp only [hc, ↓reduceIte, d1]
    refine ⟨(h.append_right [pt]).step ?_, by simp⟩
    have := DropStep.mk (col := col) init t2 t pt [] (Or.inl hc)
    simpa using this
  · simp only [hc, ↓reduceIte, Bool.false_eq_true]
    exact ⟨h.append_right [pt], by simp⟩

theorem close_head_aux {f : List (V2 α)} {g g2 : V2 α} {r' : List (V2 α)} {o : V2 α}
    (base : LoopReduces col f (g :: g2 :: (r' ++ [o]))) :
    LoopReduces col f
      (if col (nthBack (g :: g2 :: (r' ++ [o])) 1 z) (nthBack (g :: g2 :: (r' ++ [o])) 0 z)
            (if col g2 g (nthBack (g :: g2 :: (r' ++ [o])) 0 z) = true then g2 else g) = true
        then (if col g2 g (nthBack (g :: g2 :: (r' ++ [o])) 0 z) = true
          then (g :: g2 :: (r' ++ [o])).tail else g :: g2 :: (r' ++ [o])).dropLast
        else (if col g2 g (nthBack (g :: g2 :: (r' ++ [o])) 0 z) = true
          then (g :: g2 :: (r' ++ [o])).tail else g :: g2 :: (r' ++ [o]))) := by
  obtain ⟨q, hq⟩ : ∃ q, (g2 :: r').getLast? = some q := by
    cases hh : (g2 :: r').getLast? with
    | none => simp at hh
    | some q => exact ⟨q, rfl⟩
  have b0 : nthBack (g :: g2 :: (r' ++ [o])) 0 z = o := by
    rw [nthBack_zero]
    show (g :: ((g2 :: r') ++ [o])).getLast?.getD z = o
    rw [getLast?_cons_snoc]; rfl
  have dl : (g :: g2 :: (r' ++ [o])).dropLast = g :: g2 :: r' := by
    rw [show g :: g2 :: (r' ++ [o]) = (g :: g2 :: r') ++ [o] by simp, List.dropLast_concat]
  have b1 : nthBack (g :: g2 :: (r' ++ [o])) 1 z = q := by
    rw [nthBack_one, dl, List.getLast?_cons_cons, hq]; rfl
  have dl2 : (g2 :: (r' ++ [o])).dropLast = g2 :: r' := by
    rw [show g2 :: (r' ++ [o]) = (g2 :: r') ++ [o] by simp, List.dropLast_concat]
  simp only [b0, b1]
  by_cases hA : col g2 g o = true
  · have sA : LoopReduces col f (g2 :: (r' ++ [o])) :=
      base.tail (LoopDropStep.head g (g2 :: (r' ++ [o])) o g2 (getLast?_cons_snoc _ _ _) rfl (Or.inr hA))
    by_cases hB : col q o g2 = true
    · simp only [hA, hB, ↓reduceIte, List.tail_cons, dl2]
      have : LoopDropStep col ((g2 :: r') ++ [o]) (g2 :: r') :=
        LoopDropStep.last (g2 :: r') o q g2 hq rfl (Or.inl hB)
      exact sA.tail (by simpa using this)
    · simp only [hA, hB, ↓reduceIte, List.tail_cons, Bool.false_eq_true]
      exact sA
  · by_cases hB : col q o g = true
    · simp only [hA, hB, ↓reduceIte, Bool.false_eq_true, dl]
      have : LoopDropStep col ((g :: g2 :: r') ++ [o]) (g :: g2 :: r') :=
        LoopDropStep.last (g :: g2 :: r') o q g
          (by rw [List.getLast?_cons_cons]; exact hq) rfl (Or.inl hB)
      exact base.tail (by simpa using this)
    · simp only [hA, hB, ↓reduceIte, Bool.false_eq_true]
      exact base


/-- Closing a chain whose HEAD matched: the region is the chain as a loop, possibly without
its first and / or last point. -/
theorem close_head_reduces {f c : List (V2 α)} (h : Reduces col f c) (l2 : 2 ≤ c.length) :
    LoopReduces col f
      (if col (nthBack c 1 z) (nthBack c 0 z)
            (if col (nth c 1 z) (nth c 0 z) (nthBack c 0 z) = true then nth c 1 z
              else nth c 0 z) = true
        then (if col (nth c 1 z) (nth c 0 z) (nthBack c 0 z) = true then c.tail else c).dropLast
        else (if col (nth c 1 z) (nth c 0 z) (nthBack c 0 z) = true then c.tail else c)) := by
  obtain ⟨g, g2, r, rfl⟩ := exists_cons_cons c l2
  have e0 : nth (g :: g2 :: r) 0 z = g := rfl
  have e1 : nth (g :: g2 :: r) 1 z = g2 := rfl
  have base : LoopReduces col f (g :: g2 :: r) := h.toLoop
  rcases List.eq_nil_or_concat r with rfl | ⟨r', o, hr⟩
  rotate_left
  · rw [List.concat_eq_append] at hr; subst hr
    simp only [e0, e1]
    exact close_head_aux base
  · -- the chain is `[g, g2]`
    simp only [e0, e1]
    have b0 : nthBack [g, g2] 0 z = g2 := rfl
    have b1 : nthBack [g, g2] 1 z = g := rfl
    simp only [b0, b1]
    by_cases hA : col g2 g g2 = true
    · have sA : LoopReduces col f [g2] :=
        base.tail (LoopDropStep.head g [g2] g2 g2 rfl rfl (Or.inl hA))
      by_cases hB : col g g2 g2 = true
      · simp only [hA, hB, ↓reduceIte, List.tail_cons, List.dropLast_singleton]
        exact sA.tail (LoopDropStep.point g2)
      · simp only [hA, hB, ↓reduceIte, List.tail_cons, Bool.false_eq_true]
        exact sA
    · by_cases hB : col g g2 g = true
      · simp only [hA, hB, ↓reduceIte, Bool.false_eq_true]
        have : LoopDropStep col ([g] ++ [g2]) [g] :=
          LoopDropStep.last [g] g2 g g rfl rfl (Or.inl hB)
        exact base.tail (by simpa using this)
      · simp only [hA, hB, ↓reduceIte, Bool.false_eq_true]
        exact base

/-- Closing a chain whose TAIL matched. -/
theorem close_tail_reduces {f c : List (V2 α)} (h : Reduces col f c) (l2 : 2 ≤ c.length) :
    LoopReduces col f
      (if col (nth c 1 z) (nth c 0 z)
            (if col (nthBack c 1 z) (nthBack c 0 z) (nth c 0 z) = true then nthBack c 1 z
              else nthBack c 0 z) = true
        then (if col (nthBack c 1 z) (nthBack c 0 z) (nth c 0 z) = true
          then c.dropLast else c).tail
        else (if col (nthBack c 1 z) (nthBack c 0 z) (nth c 0 z) = true
          then c.dropLast else c)) := by
  obtain ⟨init, t2, t, rfl⟩ := exists_snoc_snoc c l2
  have e0 : nthBack (init ++ [t2, t]) 0 z = t := by simp [nthBack]
  have e1 : nthBack (init ++ [t2, t]) 1 z = t2 := by simp [nthBack]
  have d1 : (init ++ [t2, t]).dropLast = init ++ [t2] := by
    rw [show init ++ [t2, t] = (init ++ [t2]) ++ [t] by simp, List.dropLast_concat]
  have base : LoopReduces col f (init ++ [t2, t]) := h.toLoop
  simp only [e0, e1]
  cases init with
  | nil =>
    have b0 : nth ([] ++ [t2, t]) 0 z = t2 := rfl
    have b1 : nth ([] ++ [t2, t]) 1 z = t := rfl
    simp only [b0, b1]
    simp only [List.nil_append] at base d1 ⊢
    by_cases hA : col t2 t t2 = true
    · have sA : LoopReduces col f [t2] := by
        have : LoopDropStep col ([t2] ++ [t]) [t2] :=
          LoopDropStep.last [t2] t t2 t2 rfl rfl (Or.inl hA)
        exact base.tail (by simpa using this)
      by_cases hB : col t t2 t2 = true
      · simp only [hA, hB, ↓reduceIte, d1, List.tail_cons]
        exact sA.tail (LoopDropStep.point t2)
      · simp only [hA, hB, ↓reduceIte, d1, Bool.false_eq_true]
        exact sA
    · by_cases hB : col t t2 t = true
      · simp only [hA, hB, ↓reduceIte, Bool.false_eq_true, List.tail_cons]
        exact base.tail (LoopDropStep.head t2 [t] t t rfl rfl (Or.inl hB))
      · simp only [hA, hB, ↓reduceIte, Bool.false_eq_true]
        exact base
  | cons o init' =>
    simp only [List.cons_append] at base d1 e0 e1 ⊢
    obtain ⟨q, hq⟩ : ∃ q, (init' ++ [t2]).head? = some q := by
      cases hh : (init' ++ [t2]).head? with
      | none => simp at hh
      | some q => exact ⟨q, rfl⟩
    have hq' : (init' ++ [t2, t]).head? = some q := by
      cases init' with
      | nil => simpa using hq
      | cons x xs => simpa using hq
    have b0 : nth (o :: (init' ++ [t2, t])) 0 z = o := rfl
    have b1 : nth (o :: (init' ++ [t2, t])) 1 z = q := by
      rw [nth_one]; simp only [List.tail_cons, hq']; rfl
    simp only [b0, b1]
    by_cases hA : col t2 t o = true
    · have sA : LoopReduces col f (o :: (init' ++ [t2])) := by
        have : LoopDropStep col ((o :: (init' ++ [t2])) ++ [t]) (o :: (init' ++ [t2])) :=
          LoopDropStep.last (o :: (init' ++ [t2])) t t2 o (getLast?_cons_snoc _ _ _) rfl
            (Or.inl hA)
        exact base.tail (by simpa using this)
      by_cases hB : col q o t2 = true
      · simp only [hA, hB, ↓reduceIte, d1, List.tail_cons]
        exact sA.tail (LoopDropStep.head o (init' ++ [t2]) t2 q (by simp) hq (Or.inr hB))
      · simp only [hA, hB, ↓reduceIte, d1, Bool.false_eq_true]
        exact sA
    · by_cases hB : col q o t = true
      · simp only [hA, hB, ↓reduceIte, Bool.false_eq_true, List.tail_cons]
        exact base.tail (LoopDropStep.head o (init' ++ [t2, t]) t q (by simp) hq' (Or.inr hB))
      · simp only [hA, hB, ↓reduceIte, Bool.false_eq_true]
        exact base

/-! ## What the search loop found -/

section Found
variable (eqv) (z)

theorem take_two_nil {β : Type} {l : List β} (h : l.take 2 = []) : l = [] := by
  cases l with
  | nil => rfl
  | cons a l => cases l <;> simp at h

theorem take_two_single {β : Type} {l : List β} {m : β} (h : l.take 2 = [m]) : l = [m] := by
  cases l with
  | nil => simp at h
  | cons a l =>
    cases l with
    | nil => simpa using h
    | cons b l => simp at h

theorem take_two_pair {β : Type} {l : List β} {m1 m2 : β} {r : List β}
    (h : l.take 2 = m1 :: m2 :: r) : ∃ r', l = m1 :: m2 :: r' := by
  cases l with
  | nil => simp at h
  | cons a l =>
    cases l with
    | nil => simp at h
    | cons b l =>
      simp at h
      obtain ⟨rfl, rfl, _⟩ := h
      exact ⟨l, rfl⟩

theorem findMatches_nil {cs : List (List (V2 α))} {pt1 pt2 : V2 α}
    (h : findMatches eqv z cs pt1 pt2 = []) (j : Nat) (hj : j < cs.length) :
    matchChain eqv z (cs.getD j []) pt1 pt2 = none := by
  unfold findMatches at h
  have hA := take_two_nil h
  apply allMatches_complete eqv z pt1 pt2 cs 0 j hj
  rw [hA]; simp

theorem findMatches_single {cs : List (List (V2 α))} {pt1 pt2 : V2 α} {m : Matcher}
    (h : findMatches eqv z cs pt1 pt2 = [m]) :
    m.index < cs.length ∧
      matchChain eqv z (cs.getD m.index []) pt1 pt2 = some (m.matchesHead, m.matchesPt1) ∧
      ∀ j, j < cs.length → j ≠ m.index → matchChain eqv z (cs.getD j []) pt1 pt2 = none := by
  unfold findMatches at h
  have hA := take_two_single h
  have hs := allMatches_spec eqv z pt1 pt2 cs 0 m (by rw [hA]; simp)
  refine ⟨by simpa using hs.2.1, by simpa using hs.2.2, ?_⟩
  intro j hj hne
  apply allMatches_complete eqv z pt1 pt2 cs 0 j hj
  rw [hA]
  intro m' hm'
  simp at hm'; subst hm'
  simpa using fun e => hne e.symm

theorem findMatches_pair {cs : List (List (V2 α))} {pt1 pt2 : V2 α} {m1 m2 : Matcher}
    {r : List Matcher} (h : findMatches eqv z cs pt1 pt2 = m1 :: m2 :: r) :
    m1.index < m2.index ∧ m2.index < cs.length ∧
      matchChain eqv z (cs.getD m1.index []) pt1 pt2 = some (m1.matchesHead, m1.matchesPt1) ∧
      matchChain eqv z (cs.getD m2.index []) pt1 pt2 = some (m2.matchesHead, m2.matchesPt1) := by
  unfold findMatches at h
  obtain ⟨r', hA⟩ := take_two_pair h
  have hs1 := allMatches_spec eqv z pt1 pt2 cs 0 m1 (by rw [hA]; simp)
  have hs2 := allMatches_spec eqv z pt1 pt2 cs 0 m2 (by rw [hA]; simp)
  have hsort := allMatches_sorted eqv z pt1 pt2 cs 0
  rw [hA] at hsort
  have hlt : m1.index < m2.index := by
    simp only [List.pairwise_cons] at hsort
    exact hsort.1 m2 (by simp)
  exact ⟨hlt, by simpa using hs2.2.1, by simpa using hs1.2.2, by simpa using hs2.2.2⟩

end Found

/-! ## Joining two chains -/

theorem LInv.ends_disjoint {l : List (GChain α)} {C : Multiset (Sym2 (V2 α))}
    (h : LInv col z P l C) (i1 i2 : Nat) (h1 : i1 < l.length) (h2 : i2 < l.length)
    (hne : i1 ≠ i2) (e : V2 α) (he1 : e ∈ ends z l[i1]) (he2 : e ∈ ends z l[i2]) : False := by
  obtain ⟨rest, hl, _⟩ := set_eraseIdx_decomp l i1 i2 h1 h2 hne l[i1]
  have hnd := (h.cons_inv hl).1
  rw [Multiset.cons_bind, Multiset.nodup_add] at hnd
  have hd' := hnd.2.2
  rw [Multiset.disjoint_left] at hd'
  exact hd' he1 (Multiset.mem_add.mpr (Or.inl he2))

theorem LInv.gappend_rev1 {l : List (GChain α)} {C : Multiset (Sym2 (V2 α))}
    (h : LInv col z P l C) (i1 i2 : Nat) (h1 : i1 < l.length) (h2 : i2 < l.length)
    (hne : i1 ≠ i2) :
    LInv col z P (gappendChain col z (greverseChain l i1) i1 i2)
      (s(hd z l[i1], hd z l[i2]) ::ₘ C) := by
  have h1' : i1 < (greverseChain l i1).length := by rw [greverse_length]; exact h1
  have h2' : i2 < (greverseChain l i1).length := by rw [greverse_length]; exact h2
  have := (h.greverse i1 h1).gappend i1 i2 h1' h2' hne
  rw [greverse_getElem_self l i1 h1, greverse_getElem_ne l i1 i2 h2 hne, tl_reverse] at this
  exact this

theorem LInv.gappend_rev2 {l : List (GChain α)} {C : Multiset (Sym2 (V2 α))}
    (h : LInv col z P l C) (i1 i2 : Nat) (h1 : i1 < l.length) (h2 : i2 < l.length)
    (hne : i1 ≠ i2) :
    LInv col z P (gappendChain col z (greverseChain l i2) i1 i2)
      (s(tl z l[i1], tl z l[i2]) ::ₘ C) := by
  have h1' : i1 < (greverseChain l i2).length := by rw [greverse_length]; exact h1
  have h2' : i2 < (greverseChain l i2).length := by rw [greverse_length]; exact h2
  have := (h.greverse i2 h2).gappend i1 i2 h1' h2' hne
  rw [greverse_getElem_self l i2 h2, greverse_getElem_ne l i2 i1 h1 (Ne.symm hne),
    hd_reverse] at this
  exact this

theorem join_edge {a b pt1 pt2 : V2 α} {p1 p2 : Bool} (ha : a = if p1 then pt1 else pt2)
    (hb : b = if p2 then pt1 else pt2) (hne : p1 ≠ p2) :
    s(a, b) = s(pt1, pt2) ∧ s(b, a) = s(pt1, pt2) := by
  subst ha hb
  cases p1 <;> cases p2 <;> simp at hne ⊢

end Lbg.Lemmas.Chainer
