/-
  Lemmas.GenLoops2 — further generic facts about the `List.foldl` shapes the translator
  (py2lean) emits, used to tie generated kernels to hand-written models:

    * `for i, x in enumerate(l): …` with a mutable state         → `foldl` over `List.zipIdx l`,
      simulated by a `foldl` over `List.range l.length` on an abstract state (`foldl_zipIdx_sim`);
    * `seq[k]` with a Python (possibly negative) index            → `getD (Int.toNat (if k < 0 …))`
      = `Model.Colinear.pyIdx`;
    * `tuple(x for i, x in enumerate(l) if not R(x, l[i-1]))`     → `filterMap` over `cyclicPairs`
      = the list recursion `dedupFrom`.

  Independent of the generated kernels.
-/
import LbgVerif.Basic
import LbgVerif.Model.Colinear
import LbgVerif.Lemmas.Colinear
import LbgVerif.Lemmas.ColinearRuns
import LbgVerif.Lemmas.GenLoops
import LbgVerif.Lemmas.Cyclic

namespace Lbg.Lemmas.GenLoops2
open Lbg Lbg.Model.Colinear Lbg.Lemmas.Colinear

/-! ### Indexed loops with a state -/

section sim
variable {σ τ β : Type}

/-- Simulation of an indexed loop.  `F` is the generated loop body on the generated state `σ`
(over `List.zipIdx l`), `G` the body of the model loop on the model state `τ` (over the
positions `0 … l.length-1`), `enc` reads a model state as a generated state and `Inv i t` is an
invariant of the model state before iteration `i`.  If one generated step on an encoded state
is the encoded model step, the two loops end in corresponding states. -/
theorem foldl_zipIdx_sim_inv (F : σ → β × Nat → σ) (G : τ → Nat → τ) (enc : τ → σ)
    (Inv : Nat → τ → Prop) (l : List β) (s0 : σ) (t0 : τ) (h0 : s0 = enc t0) (hI0 : Inv 0 t0)
    (hstep : ∀ (i : Nat) (hi : i < l.length) (t : τ), Inv i t →
      F (enc t) (l[i], i) = enc (G t i) ∧ Inv (i + 1) (G t i)) :
    l.zipIdx.foldl F s0 = enc ((List.range l.length).foldl G t0) ∧
      Inv l.length ((List.range l.length).foldl G t0) := by
  subst h0
  induction l using List.reverseRecOn with
  | nil => exact ⟨rfl, hI0⟩
  | append_singleton l a ih =>
    have ih' := ih (fun i hi t hinv => by
      have := hstep i (by simp; omega) t hinv
      rwa [List.getElem_append_left hi] at this)
    obtain ⟨e, hinv⟩ := ih'
    have hz : (l ++ [a]).zipIdx = l.zipIdx ++ [(a, l.length)] := by
      rw [List.zipIdx_append]; simp
    have hr : List.range (l ++ [a]).length = List.range l.length ++ [l.length] := by
      rw [List.length_append, List.length_singleton, List.range_succ]
    rw [hz, hr, List.foldl_append, List.foldl_append, e]
    simp only [List.foldl_cons, List.foldl_nil]
    have := hstep l.length (by simp) _ hinv
    rw [List.getElem_append_right (le_refl _)] at this
    simp only [Nat.sub_self, List.getElem_cons_zero] at this
    simpa using this

/-- Equation part of `foldl_zipIdx_sim_inv` (for rewriting). -/
theorem foldl_zipIdx_sim (F : σ → β × Nat → σ) (G : τ → Nat → τ) (enc : τ → σ)
    (Inv : Nat → τ → Prop) (l : List β) (s0 : σ) (t0 : τ) (h0 : s0 = enc t0) (hI0 : Inv 0 t0)
    (hstep : ∀ (i : Nat) (hi : i < l.length) (t : τ), Inv i t →
      F (enc t) (l[i], i) = enc (G t i) ∧ Inv (i + 1) (G t i)) :
    l.zipIdx.foldl F s0 = enc ((List.range l.length).foldl G t0) :=
  (foldl_zipIdx_sim_inv F G enc Inv l s0 t0 h0 hI0 hstep).1

end sim

/-! ### Early-return loops with an arbitrary test -/

section early
variable {β : Type}

/-- `for x in l: <body that may return>`: the state `Option Bool` is filled by the first element
whose body `step x` returns; some return happened iff `step x` returns for some element —
whatever the shape (nested early exits) of the inlined body. -/
theorem foldl_return_any (step : β → Option Bool) (l : List β) :
    (l.foldl (fun (st : Option Bool) x => if Option.isSome st = true then st else step x)
      none).isSome = l.any (fun x => (step x).isSome) := by
  suffices h : ∀ (st : Option Bool), (l.foldl (fun (st : Option Bool) x =>
        if Option.isSome st = true then st else step x) st).isSome
      = (st.isSome || l.any (fun x => (step x).isSome)) by simpa using h none
  induction l with
  | nil => intro st; simp
  | cons a t ih =>
    intro st
    simp only [List.foldl_cons, List.any_cons, ih]
    cases st with
    | some b => simp
    | none => simp

/-- `if b: return True` as a loop body: it returns exactly when `b`. -/
theorem isSome_ite_some_none (b : Bool) :
    (if b = true then some true else (none : Option Bool)).isSome = b := by
  cases b <;> rfl

end early

/-! ### Python indexing as emitted by the translator -/

/-- The position the translator computes for `seq[k]` (`len(seq) = n`) is `pyIdx n k`. -/
theorem toNat_ite_eq_pyIdx (n : Nat) (k : Int) :
    Int.toNat (if k < (0 : Int) then (n : Int) + k else k) = pyIdx n k := by
  unfold pyIdx
  split_ifs
  · rw [add_comm]
  · rfl

/-- `seq[-1]` as emitted (`getLastD`) is the element at position `pyIdx n (-1)`. -/
theorem getLastD_eq_getD_pyIdx {V : Type} (l : List V) (d : V) :
    l.getLastD d = l.getD (pyIdx l.length (-1)) d := by
  rw [pyIdx_neg_one, List.getLastD_eq_getLast?, List.getLast?_eq_getElem?,
    List.getD_eq_getElem?_getD]

/-! ### Adjacent-duplicate filter -/

section dedup
variable {V : Type}

/-- `(x for i, x in enumerate(l) if not R(x, l[i-1]))` over the (predecessor, element) pairs is
the list recursion `dedupFrom`. -/
theorem filterMap_zip_eq_dedupFrom (R : V → V → Bool) (g : V × V → Option V)
    (hg : ∀ a b, g (a, b) = if R b a = true then none else some b) (p : V) (l : List V) :
    List.filterMap g ((p :: l).zip l) = dedupFrom R p l := by
  induction l generalizing p with
  | nil => rfl
  | cons x t ih =>
    rw [List.zip_cons_cons, List.filterMap_cons, hg]
    unfold dedupFrom
    by_cases h : R x p = true
    · simp only [h, if_true]; exact ih x
    · simp only [h]; rw [ih x]; rfl

/-- The same over `cyclicPairs` (the predecessor of the first element is the last one). -/
theorem filterMap_cyclicPairs_eq_dedupCyc (R : V → V → Bool) (g : V × V → Option V)
    (hg : ∀ a b, g (a, b) = if R b a = true then none else some b) (l : List V) :
    List.filterMap g (cyclicPairs l) = dedupCyc R l := by
  unfold cyclicPairs dedupCyc
  cases l.getLast? with
  | none => rfl
  | some z => exact filterMap_zip_eq_dedupFrom R g hg z l

end dedup

/-! ### The `skip`-counter scans of `Model/Colinear.lean` as generated loop states -/

/-- `enumerate(self.vertices[1:-1])` visits `self.vertices[i + 1]` at index `i`. -/
theorem mid_getElem {V : Type} (d : V) (vs : List V) (i : Nat)
    (hi : i < (List.drop 1 (List.dropLast vs)).length) :
    (List.drop 1 (List.dropLast vs))[i] = vs.getD (i + 1) d := by
  simp only [List.length_drop, List.length_dropLast] at hi
  rw [List.getElem_drop, List.getElem_dropLast, List.getD_eq_getElem?_getD]
  have : i + 1 < vs.length := by omega
  simp [Nat.add_comm, this]

/-- Reading of a model loop state (`Model.Colinear.St`) as the state tuple of the generated
closed-loop scan: no `IndexError` so far, `new_vertices` (the vertices of `ws` at the kept
positions), `skip`, `is_first`, `first_skip`. -/
def encSt {W : Type} (d : W) (ws : List W) (st : St) : Bool × List W × Int × Bool × Int :=
  (false, verts d ws st.out, (st.skip : Int), st.isFirst, st.firstSkip)

/-- After the whole closed-loop scan `skip ≤ n` and `first_skip` is a legal Python index. -/
theorem scan_bounds (n : Nat) (keep : Nat → Nat → Nat → Bool) (hn : 1 ≤ n) :
    (polygonScan n keep).skip ≤ n ∧ -1 ≤ (polygonScan n keep).firstSkip ∧
      (polygonScan n keep).firstSkip < n := by
  have h1 := (skipAt_spec n keep n).1
  have h2 := firstSkip_spec n keep n
  refine ⟨h1, ?_⟩
  cases hf : (polygonScanTo n keep n).isFirst with
  | true => have := h2.1 hf; unfold polygonScan; omega
  | false =>
    obtain ⟨i, hi, _, _, e⟩ := h2.2 hf
    unfold polygonScan; omega

/-- The positions returned by the closed-loop routine are the scan's `new_vertices`, possibly
followed by the last position (seam patch). -/
theorem polygonIdx_cases (n : Nat) (keep : Nat → Nat → Nat → Bool) (idx : List Nat)
    (h : polygonIdx n keep = some idx) :
    idx = (polygonScan n keep).out ∨ idx = (polygonScan n keep).out ++ [pyIdx n (-1)] := by
  unfold polygonIdx at h
  simp only [] at h
  split_ifs at h <;> first
    | (left; exact (Option.some.inj h).symm)
    | (right; exact (Option.some.inj h).symm)

/-! ### Shapes of inlined constructors: pushing a continuation through a decision tree -/

section trees
variable {β γ : Type}

/-- Three nested tests with one special leaf (`A` when all three hold, `B` otherwise). -/
theorem tree3 (a b c : Prop) [Decidable a] [Decidable b] [Decidable c]
    (A B : Option β) (A' B' : Option γ) (f : γ → Option β)
    (hA : A = A'.bind f) (hB : B = B'.bind f) :
    (if a then if b then if c then A else B else B else B) =
      Option.bind (if a then if b then if c then A' else B' else B' else B') f := by
  split_ifs <;> assumption

/-- Two nested tests with three successful leaves. -/
theorem tree2 (a b : Prop) [Decidable a] [Decidable b] (X1 X2 X3 : Option β)
    (P1 P2 P3 : γ) (f : γ → Option β) (h1 : X1 = f P1) (h2 : X2 = f P2) (h3 : X3 = f P3) :
    (if a then if b then X1 else X2 else X3) =
      Option.bind (if a then if b then some P1 else some P2 else some P3) f := by
  split_ifs <;> assumption

/-- An exception exit in front of a tree. -/
theorem treeD (d : Prop) [Decidable d] (T : Option β) (T' : Option γ)
    (f : γ → Option β) (h : T = T'.bind f) :
    (if d then none else T) = Option.bind (if d then none else T') f := by
  split_ifs
  · rfl
  · exact h

/-- Two constructor checks (`len < 3`) that cannot fail, around an orientation test. -/
theorem ctor_leaf (n n' : Int) (c : Bool) (Y Z : β) (hn : ¬ n < 3) (hn' : ¬ n' < 3) :
    (if n < 3 then none else if c = true then (if n' < 3 then none else some Y) else some Z)
      = if c = true then some Y else some Z := by
  rw [if_neg hn, if_neg hn']

end trees

/-! ### Loops that append a value or stop with an error code -/

section tryloop
variable {β γ : Type}

/-- Append the value, or stop with error code `2` (the exception raised by the loop body). -/
def tryPush (out : List γ) : Option γ → Int × List γ
  | some y => (0, out ++ [y])
  | none => (2, out)

/-- One model pass of a loop that appends `g i` or stops with error code `2`. -/
def tryStep (g : Nat → Option γ) (st : Int × List γ) (i : Nat) : Int × List γ :=
  if st.1 ≠ 0 then st else tryPush st.2 (g i)

/-- After an error the model pass does nothing. -/
theorem tryStep_of_ne (g : Nat → Option γ) (st : Int × List γ) (i : Nat) (h : st.1 ≠ 0) :
    tryStep g st i = st := by
  unfold tryStep; rw [if_pos h]

/-- On a clean state the model pass appends or raises. -/
theorem tryStep_clean (g : Nat → Option γ) (out : List γ) (i : Nat) :
    tryStep g (0, out) i = tryPush out (g i) := by
  unfold tryStep; rw [if_neg (by simp)]

/-- A pass whose body returns a value appends it. -/
theorem tryStep_some (g : Nat → Option γ) (out : List γ) (i : Nat) (y : γ) (h : g i = some y) :
    tryStep g (0, out) i = (0, out ++ [y]) := by
  rw [tryStep_clean, h]; rfl

/-- A pass whose body raises sets the error code `2`. -/
theorem tryStep_none (g : Nat → Option γ) (out : List γ) (i : Nat) (h : g i = none) :
    tryStep g (0, out) i = (2, out) := by
  rw [tryStep_clean, h]; rfl

/-- The shape of a generated loop body with two exception exits before the `append`. -/
theorem tryPush_shape2 (a b : Prop) [Decidable a] [Decidable b] (out : List γ) (y : γ) :
    (if a then ((2 : Int), out) else if b then ((2 : Int), out) else ((0 : Int), out ++ [y])) =
      tryPush out (if a then none else if b then none else some y) := by
  split_ifs <;> rfl

/-- The model loop: if every pass returns a value the result is the list of values (and no
error); if some pass raises, the error code is `2`. -/
theorem foldl_tryStep_spec (g : Nat → Option γ) (n : Nat) :
    ((∀ i, i < n → (g i).isSome = true) →
        (List.range n).foldl (tryStep g) (0, []) = (0, (List.range n).filterMap g)) ∧
    ((∃ i, i < n ∧ g i = none) → ((List.range n).foldl (tryStep g) (0, [])).1 = 2) := by
  induction n with
  | zero => exact ⟨fun _ => rfl, fun ⟨i, hi, _⟩ => absurd hi (Nat.not_lt_zero i)⟩
  | succ n ih =>
    rw [List.range_succ, List.foldl_append, List.filterMap_append]
    simp only [List.foldl_cons, List.foldl_nil, List.filterMap_cons, List.filterMap_nil]
    constructor
    · intro hall
      rw [ih.1 (fun i hi => hall i (by omega))]
      have := hall n (Nat.lt_succ_self n)
      cases hg : g n with
      | none => rw [hg] at this; cases this
      | some y => rw [tryStep_some g _ n y hg]
    · rintro ⟨i, hi, hgi⟩
      by_cases hin : i < n
      · have := ih.2 ⟨i, hin, hgi⟩
        rw [tryStep_of_ne g _ n (by rw [this]; decide)]
        exact this
      · have hi' : i = n := by omega
        subst hi'
        by_cases hall : ∀ j, j < i → (g j).isSome = true
        · rw [ih.1 hall, tryStep_none g _ i hgi]
        · have : ∃ j, j < i ∧ g j = none := by
            by_contra hcon
            apply hall
            intro j hj
            cases hgj : g j with
            | none => exact absurd ⟨j, hj, hgj⟩ hcon
            | some y => rfl
          have h2 := ih.2 this
          rw [tryStep_of_ne g _ i (by rw [h2]; decide)]
          exact h2

/-- `for i, x in enumerate(l): <append g(i) or raise>` as emitted (error flag `0/1/2` + list):
if the generated body on a clean state is the model pass `tryStep`, the generated loop is the
model loop. -/
theorem foldl_zipIdx_try (F : Int × List γ → β × Nat → Int × List γ) (g : Nat → Option γ)
    (l : List β)
    (hskip : ∀ (st : Int × List γ) (x : β × Nat), st.1 ≠ 0 → F st x = st)
    (hstep : ∀ (i : Nat) (hi : i < l.length) (out : List γ),
      F (0, out) (l[i], i) = tryStep g (0, out) i) :
    l.zipIdx.foldl F (0, []) = (List.range l.length).foldl (tryStep g) (0, []) := by
  refine foldl_zipIdx_sim F (tryStep g) id (fun _ _ => True) l _ _ rfl trivial ?_
  intro i hi t _
  refine ⟨?_, trivial⟩
  by_cases h0 : t.1 = 0
  · obtain ⟨a, out⟩ := t
    simp only at h0
    subst h0
    exact hstep i hi out
  · simp only [id]
    rw [hskip t _ h0, tryStep_of_ne g t i h0]

end tryloop

end Lbg.Lemmas.GenLoops2
