/-
  Lemmas.ArcBox — machinery for the 2D arc bounding box (C10 `arc2d_box`).

  1. `TrigQuadrants M`: the abstract facts about `M.cos`, `M.sin`, `M.pi` on `[0, 2π]` the
     box argument needs (cardinal values and piecewise monotonicity; NO addition formulas).
  2. `InSpan` / `NotInside`: "angle `t` lies in the counter-clockwise span from `a1` to `a2`",
     "`t` is not strictly inside the span".
  3. Analytic lemmas: extreme values of cos / sin over a span that does not contain the
     corresponding cardinal direction strictly inside are attained at the end points.
  4. Table lemmas (`arc2_max_x_cases` …): pure order reasoning on the generated
     `arc2_min` / `arc2_max` (4 × 4 quadrant pairs + the inverted diagonal): the selected
     matrix entry is `±r` only if the cardinal direction is in the span, and the end-point
     extreme only if the cardinal direction is not strictly inside.  A wrong matrix entry or
     quadrant threshold makes these fail.
-/
import LbgVerif.Gen.Arc
import Mathlib.Tactic.Ring
import Mathlib.Tactic.Linarith
import Mathlib.Tactic.SplitIfs
import Mathlib.Algebra.Order.Field.Basic

namespace Lbg.Lemmas
open Lbg Lbg.Gen
set_option linter.unusedSectionVars false
set_option linter.unusedVariables false
set_option linter.unusedTactic false
set_option linter.unreachableTactic false
set_option linter.unnecessarySeqFocus false
variable {α : Type} [Field α] [LinearOrder α] [IsStrictOrderedRing α]

/-- Facts about `cos`, `sin`, `π` on `[0, 2π]` used by the arc box: values at the cardinal
angles and monotonicity on the quadrant pieces.  (All hold for the real functions; see
`Props/C10Real.lean`.) -/
structure TrigQuadrants (M : MathOps α) : Prop where
  pi_pos : 0 < M.pi
  cos_zero : M.cos 0 = 1
  cos_pi : M.cos M.pi = -1
  cos_two_pi : M.cos (2 * M.pi) = 1
  sin_zero : M.sin 0 = 0
  sin_half_pi : M.sin (M.pi / 2) = 1
  sin_three_half_pi : M.sin (M.pi * (3 / 2)) = -1
  sin_two_pi : M.sin (2 * M.pi) = 0
  /-- cos is antitone on `[0, π]` -/
  cos_anti : ∀ s t, 0 ≤ s → s ≤ t → t ≤ M.pi → M.cos t ≤ M.cos s
  /-- cos is monotone on `[π, 2π]` -/
  cos_mono : ∀ s t, M.pi ≤ s → s ≤ t → t ≤ 2 * M.pi → M.cos s ≤ M.cos t
  /-- sin is monotone on `[0, π/2]` -/
  sin_mono1 : ∀ s t, 0 ≤ s → s ≤ t → t ≤ M.pi / 2 → M.sin s ≤ M.sin t
  /-- sin is antitone on `[π/2, 3π/2]` -/
  sin_anti : ∀ s t, M.pi / 2 ≤ s → s ≤ t → t ≤ M.pi * (3 / 2) → M.sin t ≤ M.sin s
  /-- sin is monotone on `[3π/2, 2π]` -/
  sin_mono2 : ∀ s t, M.pi * (3 / 2) ≤ s → s ≤ t → t ≤ 2 * M.pi → M.sin s ≤ M.sin t

/-- `t ∈ [0, 2π]` lies in the counter-clockwise span of the arc from `a1` to `a2`:
`a1 ≤ t ≤ a2` for an ordinary arc, `t ≥ a1 ∨ t ≤ a2` for an inverted one (`a2 < a1`). -/
def InSpan (M : MathOps α) (a : Arc2S α) (t : α) : Prop :=
  0 ≤ t ∧ t ≤ 2 * M.pi ∧
  (a.a2 < a.a1 → (a.a1 ≤ t ∨ t ≤ a.a2)) ∧ (¬ a.a2 < a.a1 → (a.a1 ≤ t ∧ t ≤ a.a2))

/-- `t` is not strictly inside the span (it is outside, or an end point). -/
def NotInside (a : Arc2S α) (t : α) : Prop :=
  (a.a2 < a.a1 → (t ≤ a.a1 ∧ a.a2 ≤ t)) ∧ (¬ a.a2 < a.a1 → (t ≤ a.a1 ∨ a.a2 ≤ t))

/-- Angle range of a constructed arc: `0 ≤ a1, a2 ≤ 2π`. -/
def AnglesOk (M : MathOps α) (a : Arc2S α) : Prop :=
  0 ≤ a.a1 ∧ a.a1 ≤ 2 * M.pi ∧ 0 ≤ a.a2 ∧ a.a2 ≤ 2 * M.pi

/-- The point of the arc's circle at absolute angle `t`. -/
def arcPoint (M : MathOps α) (a : Arc2S α) (t : α) : V2 α :=
  ⟨a.c.x + M.cos t * a.r, a.c.y + M.sin t * a.r⟩

/-- The caches `_cos_a1 … _sin_a2` hold the cos / sin of the end angles (as set by
`Arc2D.__init__`, see `arc2_init`). -/
def CachesOk (M : MathOps α) (a : Arc2S α) : Prop :=
  a.cos_a1 = M.cos a.a1 ∧ a.sin_a1 = M.sin a.a1 ∧ a.cos_a2 = M.cos a.a2 ∧ a.sin_a2 = M.sin a.a2

/-- The angle `Arc2D.point_at(u)` evaluates cos / sin at: `a1 + angle·u`, minus `2π` when
that exceeds `2π`. -/
def paramAngle (M : MathOps α) (a : Arc2S α) (u : α) : α :=
  if ¬ (M.pi * 2 < a.a1 + arc2_angle M a * u) then a.a1 + arc2_angle M a * u
  else a.a1 + arc2_angle M a * u - M.pi * 2

/-- `Arc2D.point_at(u)` is the circle point at `paramAngle u`. -/
theorem arc2_point_at_eq (M : MathOps α) (a : Arc2S α) (u : α) :
    arc2_point_at M a u = arcPoint M a (paramAngle M a u) := rfl

/-- For `u ∈ [0, 1]` the angle used by `point_at` lies in the arc's span. -/
theorem paramAngle_inSpan (M : MathOps α) (a : Arc2S α) (hp : 0 < M.pi) (hA : AnglesOk M a)
    {u : α} (h0 : 0 ≤ u) (h1 : u ≤ 1) : InSpan M a (paramAngle M a u) := by
  obtain ⟨a0, a1, b0, b1⟩ := hA
  have key : 0 ≤ arc2_angle M a ∧ (a.a2 < a.a1 → arc2_angle M a = 2 * M.pi + (a.a2 - a.a1)) ∧
      (¬ a.a2 < a.a1 → arc2_angle M a = a.a2 - a.a1) := by
    unfold arc2_angle
    simp only []
    split_ifs with hi
    · exact ⟨by linarith, fun _ => rfl, fun h => absurd hi h⟩
    · exact ⟨by linarith [not_lt.mp hi], fun h => absurd h hi, fun _ => rfl⟩
  unfold paramAngle InSpan
  generalize arc2_angle M a = A at *
  obtain ⟨hA0, hAi, hAn⟩ := key
  have e1 := mul_nonneg hA0 h0
  have e2 := mul_le_of_le_one_right hA0 h1
  split_ifs with hw
  · by_cases hi : a.a2 < a.a1
    · have hA := hAi hi
      subst hA
      exact ⟨by linarith, by linarith, fun _ => Or.inr (by linarith), fun h => absurd hi h⟩
    · have hA := hAn hi
      subst hA
      exfalso; linarith
  · refine ⟨by linarith, by linarith [not_lt.mp hw], fun _ => Or.inl (by linarith), fun hi => ?_⟩
    have hA := hAn hi
    subst hA
    exact ⟨by linarith, by linarith⟩

/-- The start angle `a1` is in the span. -/
theorem inSpan_a1 (M : MathOps α) (a : Arc2S α) (h : AnglesOk M a) : InSpan M a a.a1 := by
  obtain ⟨h1, h2, h3, h4⟩ := h
  exact ⟨h1, h2, fun _ => Or.inl (le_refl _), fun hn => ⟨le_refl _, not_lt.mp hn⟩⟩

/-- The end angle `a2` is in the span. -/
theorem inSpan_a2 (M : MathOps α) (a : Arc2S α) (h : AnglesOk M a) : InSpan M a a.a2 := by
  obtain ⟨h1, h2, h3, h4⟩ := h
  exact ⟨h3, h4, fun _ => Or.inr (le_refl _), fun hn => ⟨not_lt.mp hn, le_refl _⟩⟩

/-! ### global bounds on `[0, 2π]` -/

section trig
variable {M : MathOps α} (T : TrigQuadrants M)
include T

/-- `cos t ≤ 1` on `[0, 2π]` (from monotonicity and the cardinal values). -/
theorem TrigQuadrants.cos_le_one {t : α} (h0 : 0 ≤ t) (h1 : t ≤ 2 * M.pi) : M.cos t ≤ 1 := by
  rcases le_total t M.pi with h | h
  · rw [← T.cos_zero]; exact T.cos_anti 0 t (le_refl _) h0 h
  · rw [← T.cos_two_pi]; exact T.cos_mono t _ h h1 (le_refl _)

/-- `-1 ≤ cos t` on `[0, 2π]`. -/
theorem TrigQuadrants.neg_one_le_cos {t : α} (h0 : 0 ≤ t) (h1 : t ≤ 2 * M.pi) :
    -1 ≤ M.cos t := by
  have hp := T.pi_pos
  rcases le_total t M.pi with h | h
  · rw [← T.cos_pi]; exact T.cos_anti t _ h0 h (le_refl _)
  · rw [← T.cos_pi]; exact T.cos_mono _ t (le_refl _) h h1

/-- `sin t ≤ 1` on `[0, 2π]`. -/
theorem TrigQuadrants.sin_le_one {t : α} (h0 : 0 ≤ t) (h1 : t ≤ 2 * M.pi) : M.sin t ≤ 1 := by
  have hp := T.pi_pos
  rcases le_total t (M.pi / 2) with h | h
  · rw [← T.sin_half_pi]; exact T.sin_mono1 t _ h0 h (le_refl _)
  · rcases le_total t (M.pi * (3 / 2)) with h' | h'
    · rw [← T.sin_half_pi]; exact T.sin_anti _ t (le_refl _) h h'
    · have := T.sin_mono2 t _ h' h1 (le_refl _)
      rw [T.sin_two_pi] at this; linarith

/-- `-1 ≤ sin t` on `[0, 2π]`. -/
theorem TrigQuadrants.neg_one_le_sin {t : α} (h0 : 0 ≤ t) (h1 : t ≤ 2 * M.pi) :
    -1 ≤ M.sin t := by
  have hp := T.pi_pos
  rcases le_total t (M.pi / 2) with h | h
  · have := T.sin_mono1 0 t (le_refl _) h0 h
    rw [T.sin_zero] at this; linarith
  · rcases le_total t (M.pi * (3 / 2)) with h' | h'
    · rw [← T.sin_three_half_pi]; exact T.sin_anti t _ h h' (le_refl _)
    · rw [← T.sin_three_half_pi]; exact T.sin_mono2 _ t (le_refl _) h' h1

/-! ### extreme values over a span -/

/-- cos over an ordinary (non-inverted) span is at most the larger end value. -/
theorem cos_le_max_ends (a : Arc2S α) (hA : AnglesOk M a) (hni : ¬ a.a2 < a.a1) {t : α}
    (ht : InSpan M a t) : M.cos t ≤ max (M.cos a.a1) (M.cos a.a2) := by
  obtain ⟨h1, h2, h3, h4⟩ := hA
  obtain ⟨t0, t1, _, hs⟩ := ht
  obtain ⟨l, u⟩ := hs hni
  rcases le_total t M.pi with h | h
  · exact le_max_of_le_left (T.cos_anti _ _ h1 l h)
  · exact le_max_of_le_right (T.cos_mono _ _ h u h4)

/-- If `π` is not strictly inside the span, cos over the span is at least the smaller end
value. -/
theorem min_ends_le_cos (a : Arc2S α) (hA : AnglesOk M a) (hn : NotInside a M.pi) {t : α}
    (ht : InSpan M a t) : min (M.cos a.a1) (M.cos a.a2) ≤ M.cos t := by
  obtain ⟨h1, h2, h3, h4⟩ := hA
  obtain ⟨t0, t1, hsi, hsn⟩ := ht
  by_cases hi : a.a2 < a.a1
  · obtain ⟨p1, p2⟩ := hn.1 hi
    rcases hsi hi with l | u
    · exact min_le_of_left_le (T.cos_mono _ _ p1 l t1)
    · exact min_le_of_right_le (T.cos_anti _ _ t0 u p2)
  · obtain ⟨l, u⟩ := hsn hi
    rcases hn.2 hi with p | p
    · exact min_le_of_left_le (T.cos_mono _ _ p l t1)
    · exact min_le_of_right_le (T.cos_anti _ _ t0 u p)

/-- If `π/2` is not strictly inside the span, sin over the span is at most the larger end
value. -/
theorem sin_le_max_ends (a : Arc2S α) (hA : AnglesOk M a) (hn : NotInside a (M.pi / 2)) {t : α}
    (ht : InSpan M a t) : M.sin t ≤ max (M.sin a.a1) (M.sin a.a2) := by
  have hp := T.pi_pos
  obtain ⟨h1, h2, h3, h4⟩ := hA
  obtain ⟨t0, t1, hsi, hsn⟩ := ht
  by_cases hi : a.a2 < a.a1
  · obtain ⟨p1, p2⟩ := hn.1 hi
    rcases hsi hi with l | u
    · rcases le_total t (M.pi * (3 / 2)) with h | h
      · exact le_max_of_le_left (T.sin_anti _ _ p1 l h)
      · have e1 := T.sin_mono2 t _ h t1 (le_refl _)
        have e2 := T.sin_mono1 0 _ (le_refl _) h3 p2
        rw [T.sin_two_pi] at e1; rw [T.sin_zero] at e2
        exact le_max_of_le_right (le_trans e1 e2)
    · exact le_max_of_le_right (T.sin_mono1 _ _ t0 u p2)
  · obtain ⟨l, u⟩ := hsn hi
    rcases hn.2 hi with p | p
    · rcases le_total t (M.pi * (3 / 2)) with h | h
      · exact le_max_of_le_left (T.sin_anti _ _ p l h)
      · exact le_max_of_le_right (T.sin_mono2 _ _ h u h4)
    · exact le_max_of_le_right (T.sin_mono1 _ _ t0 u p)

/-- If `3π/2` is not strictly inside the span, sin over the span is at least the smaller end
value. -/
theorem min_ends_le_sin (a : Arc2S α) (hA : AnglesOk M a) (hn : NotInside a (M.pi * (3 / 2)))
    {t : α} (ht : InSpan M a t) : min (M.sin a.a1) (M.sin a.a2) ≤ M.sin t := by
  have hp := T.pi_pos
  obtain ⟨h1, h2, h3, h4⟩ := hA
  obtain ⟨t0, t1, hsi, hsn⟩ := ht
  by_cases hi : a.a2 < a.a1
  · obtain ⟨p1, p2⟩ := hn.1 hi
    rcases hsi hi with l | u
    · exact min_le_of_left_le (T.sin_mono2 _ _ p1 l t1)
    · rcases le_total t (M.pi / 2) with h | h
      · have e1 := T.sin_mono1 0 t (le_refl _) t0 h
        have e2 := T.sin_mono2 _ _ p1 h2 (le_refl _)
        rw [T.sin_zero] at e1; rw [T.sin_two_pi] at e2
        exact min_le_of_left_le (le_trans e2 e1)
      · exact min_le_of_right_le (T.sin_anti _ _ h u p2)
  · obtain ⟨l, u⟩ := hsn hi
    rcases hn.2 hi with p | p
    · exact min_le_of_left_le (T.sin_mono2 _ _ p l t1)
    · rcases le_total t (M.pi / 2) with h | h
      · exact min_le_of_left_le (T.sin_mono1 _ _ h1 l h)
      · exact min_le_of_right_le (T.sin_anti _ _ h u p)

end trig

/-! ### table lemmas: which matrix entry the generated code selects -/

/-- Discharges the span side conditions of the table lemmas by linear arithmetic. -/
macro "span_tac" : tactic =>
  `(tactic|
    (first
      | (refine ⟨by linarith, by linarith, fun h => ?_, fun h => ?_⟩ <;>
          first
            | (exfalso; linarith)
            | (left; linarith)
            | (right; linarith)
            | (constructor <;> linarith))
      | (refine ⟨fun h => ?_, fun h => ?_⟩ <;>
          first
            | (exfalso; linarith)
            | (left; linarith)
            | (right; linarith)
            | (constructor <;> linarith))))

/-- Closes one leaf of a table lemma: either the entry is `±r` and the cardinal angle is in the
span, or it is the end-point extreme and the cardinal angle is not strictly inside. -/
macro "leaf_tac" : tactic =>
  `(tactic|
    (first
      | (left; exact ⟨by simp only []; ring1, by span_tac⟩)
      | (right; exact ⟨by simp only []; ring1, by span_tac⟩)))

/-- x-max: the generated code selects `r` only for inverted arcs (angle `0 ≡ 2π` in the span),
the larger end-point abscissa only for ordinary arcs. -/
theorem arc2_max_x_cases (M : MathOps α) (a : Arc2S α) (hp : 0 < M.pi) (hA : AnglesOk M a) :
    ((arc2_max M a).x = a.c.x + a.r ∧ a.a2 < a.a1) ∨
    ((arc2_max M a).x = a.c.x + max (a.cos_a1 * a.r) (a.cos_a2 * a.r) ∧ ¬ a.a2 < a.a1) := by
  obtain ⟨h1, h2, h3, h4⟩ := hA
  unfold arc2_max
  split_ifs <;>
    first
      | (left; exact ⟨by simp only []; ring1, by linarith⟩)
      | (right; exact ⟨by simp only []; ring1, by linarith⟩)

/-- x-min: `-r` only if `π` is in the span, the smaller end-point abscissa only if `π` is not
strictly inside the span. -/
theorem arc2_min_x_cases (M : MathOps α) (a : Arc2S α) (hp : 0 < M.pi) (hA : AnglesOk M a) :
    ((arc2_min M a).x = a.c.x + -a.r ∧ InSpan M a M.pi) ∨
    ((arc2_min M a).x = a.c.x + min (a.cos_a1 * a.r) (a.cos_a2 * a.r) ∧ NotInside a M.pi) := by
  obtain ⟨h1, h2, h3, h4⟩ := hA
  unfold arc2_min InSpan NotInside
  split_ifs <;> leaf_tac

/-- y-max: `r` only if `π/2` is in the span, the larger end-point ordinate only if `π/2` is
not strictly inside the span. -/
theorem arc2_max_y_cases (M : MathOps α) (a : Arc2S α) (hp : 0 < M.pi) (hA : AnglesOk M a) :
    ((arc2_max M a).y = a.c.y + a.r ∧ InSpan M a (M.pi / 2)) ∨
    ((arc2_max M a).y = a.c.y + max (a.sin_a1 * a.r) (a.sin_a2 * a.r) ∧
      NotInside a (M.pi / 2)) := by
  obtain ⟨h1, h2, h3, h4⟩ := hA
  unfold arc2_max InSpan NotInside
  split_ifs <;> leaf_tac

/-- y-min: `-r` only if `3π/2` is in the span, the smaller end-point ordinate only if `3π/2`
is not strictly inside the span. -/
theorem arc2_min_y_cases (M : MathOps α) (a : Arc2S α) (hp : 0 < M.pi) (hA : AnglesOk M a) :
    ((arc2_min M a).y = a.c.y + -a.r ∧ InSpan M a (M.pi * (3 / 2))) ∨
    ((arc2_min M a).y = a.c.y + min (a.sin_a1 * a.r) (a.sin_a2 * a.r) ∧
      NotInside a (M.pi * (3 / 2))) := by
  obtain ⟨h1, h2, h3, h4⟩ := hA
  unfold arc2_min InSpan NotInside
  split_ifs <;> leaf_tac

end Lbg.Lemmas
