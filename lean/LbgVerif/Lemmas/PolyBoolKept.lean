/-
  Helper lemmas for the sweep theorems (Props/C04d): three per-segment invariants that the
  sweep keeps (`Kept`): complete fill flags in a self-intersection sweep, complete fill flags
  in a combine sweep, and "every end point is an input vertex or a computed intersection point".
-/
import LbgVerif.Lemmas.PolyBoolInv

set_option linter.unusedSectionVars false

namespace Lbg.Lemmas.PolyBool
open Lbg Lbg.Gen Lbg.Model.PolyBool

variable {α : Type} [Field α] [LinearOrder α]

/-- Both flags of a fill are set (not `None`). -/
def Complete (f : Fill) : Prop := f.above ≠ none ∧ f.below ≠ none

/-- Self-intersection sweep: processed segments have complete `myfill`; all segments are
primary and have no `otherfill`. -/
def GSelf (s : SegRec α) : Prop :=
  (s.hasStatus = true → Complete s.myfill) ∧ s.primary = true ∧ s.otherfill = none

/-- Combine sweep: `myfill` is complete, an `otherfill` that is present is complete, and
processed segments have one. -/
def GComb (s : SegRec α) : Prop :=
  Complete s.myfill ∧ (∀ f, s.otherfill = some f → Complete f) ∧
    (s.hasStatus = true → s.otherfill ≠ none)

theorem kept_self (tol : α) (inv sec : Bool) : Kept ⟨true, tol, inv, sec⟩ (GSelf (α := α)) where
  plan := by
    intro st e1 e2 _ _ _ d _ s hs
    unfold GSelf at hs ⊢
    exact ⟨⟨hs.1, hs.2.1, hs.2.2⟩, ⟨by intro h; simp at h, hs.2.1, rfl⟩⟩
  eve := by
    intro sv se _ hse
    unfold eveUpdate
    simp only [↓reduceIte]
    split_ifs
    · unfold GSelf at hse ⊢
      refine ⟨?_, hse.2.1, hse.2.2⟩
      intro h
      exact ⟨by simp, (hse.1 h).2⟩
    · exact hse
  annot := by
    intro s below s' hs hb h
    unfold annotateSeg at h
    simp only [↓reduceIte, pure, Except.pure, Except.ok.injEq] at h
    subst h
    unfold GSelf at hs ⊢
    refine ⟨fun _ => ?_, hs.2.1, hs.2.2⟩
    have hnb : (match below with
        | none => some inv
        | some sb => sb.myfill.above) ≠ none := by
      cases below with
      | none => simp
      | some sb =>
        obtain ⟨hg, hst⟩ := hb sb rfl
        unfold GSelf at hg
        exact (hg.1 hst).1
    refine ⟨?_, hnb⟩
    simp only
    split_ifs
    · simp
    · exact hnb
  finish := by
    intro s s' hs h
    unfold finishSeg at h
    have hp : s.primary = true := hs.2.1
    simp only [hp, Bool.not_true, Bool.false_eq_true, ↓reduceIte, pure, Except.pure,
      Except.ok.injEq] at h
    subst h; exact hs

theorem kept_comb (tol : α) (inv1 inv2 : Bool) :
    Kept ⟨false, tol, inv1, inv2⟩ (GComb (α := α)) where
  plan := by
    intro st e1 e2 _ _ _ d _ s hs
    unfold GComb at hs ⊢
    exact ⟨⟨hs.1, hs.2.1, hs.2.2⟩, ⟨hs.1, by intro f h; simp at h, by intro h; simp at h⟩⟩
  eve := by
    intro sv se hsv hse
    unfold eveUpdate
    simp only [Bool.false_eq_true, ↓reduceIte]
    unfold GComb at hsv hse ⊢
    refine ⟨hse.1, ?_, by intro _ h; simp at h⟩
    intro f hf
    simp only [Option.some.injEq] at hf
    subst hf
    exact hsv.1
  annot := by
    intro s below s' hs hb h
    unfold annotateSeg at h
    simp only [Bool.false_eq_true, ↓reduceIte] at h
    unfold GComb at hs ⊢
    cases ho : s.otherfill with
    | some o =>
      rw [ho] at h
      simp only [pure, Except.pure, Except.ok.injEq] at h
      subst h
      exact ⟨hs.1, hs.2.1, by intro _; simp [ho]⟩
    | none =>
      rw [ho] at h
      cases below with
      | none =>
        simp only [pure, Except.pure, Except.ok.injEq] at h
        subst h
        refine ⟨hs.1, ?_, by intro _ h; simp at h⟩
        intro f hf
        simp only [Option.some.injEq] at hf
        subst hf
        exact ⟨by simp, by simp⟩
      | some sb =>
        obtain ⟨hg, _⟩ := hb sb rfl
        unfold GComb at hg
        simp only at h
        split_ifs at h
        · cases hso : sb.otherfill with
          | none => rw [hso] at h; cases h
          | some o =>
            rw [hso] at h
            simp only [pure, Except.pure, Except.ok.injEq] at h
            subst h
            refine ⟨hs.1, ?_, by intro _ h; simp at h⟩
            intro f hf
            simp only [Option.some.injEq] at hf
            subst hf
            exact ⟨(hg.2.1 o hso).1, (hg.2.1 o hso).1⟩
        · simp only [pure, Except.pure, Except.ok.injEq] at h
          subst h
          refine ⟨hs.1, ?_, by intro _ h; simp at h⟩
          intro f hf
          simp only [Option.some.injEq] at hf
          subst hf
          exact ⟨hg.1.1, hg.1.1⟩
  finish := by
    intro s s' hs h
    unfold finishSeg at h
    unfold GComb at hs ⊢
    split_ifs at h
    · cases ho : s.otherfill with
      | none => rw [ho] at h; cases h
      | some o =>
        rw [ho] at h
        simp only [pure, Except.pure, Except.ok.injEq] at h
        subst h
        refine ⟨hs.2.1 o ho, ?_, by intro _ h; simp at h⟩
        intro f hf
        simp only [Option.some.injEq] at hf
        subst hf
        exact hs.1
    · simp only [pure, Except.pure, Except.ok.injEq] at h
      subst h; exact hs

/-! ## End points -/

/-- Points obtainable from the input vertices `V` by repeatedly intersecting segments between
already obtained points with `_lines_intersect`. -/
inductive Reach (tol : α) (V : V2 α → Prop) : V2 α → Prop
  | base {p : V2 α} : V p → Reach tol V p
  | isect {a0 a1 b0 b1 p : V2 α} {x y : Int} : Reach tol V a0 → Reach tol V a1 →
      Reach tol V b0 → Reach tol V b1 → linesIntersect a0 a1 b0 b1 tol = some (x, y, p) →
      Reach tol V p

/-- Both end points of a stored segment are reachable. -/
def GPts (tol : α) (V : V2 α → Prop) (s : SegRec α) : Prop :=
  Reach tol V s.start ∧ Reach tol V s.stop

/-- Every point at which `__checkIntersection` divides a segment is an end point of one of the
two segments or the point computed by `_lines_intersect` for them. -/
theorem plan_points (tol : α) (st : St α) (e1 e2 : Nat) :
    ∀ d ∈ (intersectionPlan tol st e1 e2).1,
      d.2 = (st.seg e1).start ∨ d.2 = (st.seg e1).stop ∨ d.2 = (st.seg e2).start ∨
        d.2 = (st.seg e2).stop ∨
        ∃ x y, linesIntersect (st.seg e1).start (st.seg e1).stop (st.seg e2).start
          (st.seg e2).stop tol = some (x, y, d.2) := by
  intro d hd
  unfold intersectionPlan at hd
  simp only at hd
  split at hd
  · split_ifs at hd <;> simp at hd <;> (try (rcases hd with rfl | rfl)) <;> simp
  · rename_i alongA alongB ipt hli
    simp only [List.mem_append] at hd
    rcases hd with hd | hd <;> split_ifs at hd <;> simp at hd <;> subst hd <;> simp [hli]

/-- Which of the two segments a planned divide cuts. -/
theorem plan_index (tol : α) (st : St α) (e1 e2 : Nat) :
    ∀ d ∈ (intersectionPlan tol st e1 e2).1, d.1 = e1 ∨ d.1 = e2 := by
  intro d hd
  unfold intersectionPlan at hd
  simp only at hd
  split at hd
  · split_ifs at hd <;> simp at hd <;> (try (rcases hd with rfl | rfl)) <;> simp
  · simp only [List.mem_append] at hd
    rcases hd with hd | hd <;> split_ifs at hd <;> simp at hd <;> subst hd <;> simp

/-- `__checkIntersection` makes at most two divides. -/
theorem plan_length (tol : α) (st : St α) (e1 e2 : Nat) :
    (intersectionPlan tol st e1 e2).1.length ≤ 2 := by
  unfold intersectionPlan
  simp only
  split
  · split_ifs <;> simp
  · split_ifs <;> simp

theorem annotateSeg_pts {cfg : Cfg α} {s s' : SegRec α} {below : Option (SegRec α)}
    (h : annotateSeg cfg s below = .ok s') : s'.start = s.start ∧ s'.stop = s.stop := by
  unfold annotateSeg at h
  repeat' split at h
  all_goals (try simp only [pure, Except.pure] at h)
  all_goals (cases h <;> exact ⟨rfl, rfl⟩)

theorem kept_pts (cfg : Cfg α) (V : V2 α → Prop) : Kept cfg (GPts cfg.tol V) where
  plan := by
    intro st e1 e2 hw h1 h2 d hd s hs
    have g1 := hw.good _ (seg_mem st e1 h1)
    have g2 := hw.good _ (seg_mem st e2 h2)
    have hr : Reach cfg.tol V d.2 := by
      rcases plan_points cfg.tol st e1 e2 d hd with h | h | h | h | ⟨x, y, h⟩
      · rw [h]; exact g1.1
      · rw [h]; exact g1.2
      · rw [h]; exact g2.1
      · rw [h]; exact g2.2
      · exact Reach.isect g1.1 g1.2 g2.1 g2.2 h
    exact ⟨⟨hs.1, hr⟩, ⟨hr, hs.2⟩⟩
  eve := by
    intro sv se _ hse
    unfold eveUpdate
    split_ifs <;> exact hse
  annot := by
    intro s below s' hs _ h
    have := annotateSeg_pts h
    show Reach cfg.tol V s'.start ∧ Reach cfg.tol V s'.stop
    rw [this.1, this.2]; exact hs
  finish := by
    intro s s' hs h
    unfold finishSeg at h
    split_ifs at h
    · split at h
      · cases h
      · simp only [pure, Except.pure, Except.ok.injEq] at h; subst h; exact hs
    · simp only [pure, Except.pure, Except.ok.injEq] at h; subst h; exact hs

/-! ## Initial states -/

theorem WF.empty (G : SegRec α → Prop) : WF G (St.empty : St α) := by
  refine ⟨?_, ?_, ?_, ?_⟩ <;> intro x hx <;> simp [St.empty] at hx

theorem WF.addSegs {G : SegRec α → Prop} (tol : α) (segs : List (FSeg α)) (primary : Bool)
    (hg : ∀ s ∈ segs, G ⟨s.start, s.stop, s.myfill, none, primary, false⟩) {st : St α}
    (h : WF G st) : WF G (addSegs tol st segs primary) := by
  unfold Lbg.Model.PolyBool.addSegs
  induction segs generalizing st with
  | nil => exact h
  | cons s segs ih =>
    simp only [List.foldl_cons]
    exact ih (fun x hx => hg x (by simp [hx])) (h.eventAddSegment tol _ (hg s (by simp)))

theorem WF.addRegion {G : SegRec α → Prop} (tol : α) (region : List (V2 α))
    (hg : ∀ p q, p ∈ region → q ∈ region → G ⟨p, q, ⟨none, none⟩, none, true, false⟩)
    {st st' : St α} (h : WF G st) (hr : addRegion tol st region = .ok st') : WF G st' := by
  unfold Lbg.Model.PolyBool.addRegion at hr
  cases hl : region.getLast? with
  | none => rw [hl] at hr; cases hr
  | some last =>
    rw [hl] at hr
    simp only [pure, Except.pure, Except.ok.injEq] at hr
    subst hr
    have hlast : last ∈ region := List.mem_of_mem_getLast? hl
    -- generalise the fold
    have key : ∀ (l : List (V2 α)) (acc : St α × V2 α), (∀ p ∈ l, p ∈ region) → WF G acc.1 →
        acc.2 ∈ region →
        WF G (l.foldl (fun (acc : St α × V2 α) pt2 =>
          if bool_compare acc.2 pt2 tol = 0 then (acc.1, pt2)
          else
            ((Lbg.Model.PolyBool.eventAddSegment tol acc.1
              ⟨if bool_compare acc.2 pt2 tol < 0 then acc.2 else pt2,
               if bool_compare acc.2 pt2 tol < 0 then pt2 else acc.2,
               ⟨none, none⟩, none, true, false⟩).1, pt2)) acc).1 := by
      intro l
      induction l with
      | nil => intro acc _ hw _; exact hw
      | cons p l ih =>
        intro acc hl' hw hacc
        simp only [List.foldl_cons]
        apply ih
        · intro q hq; exact hl' q (by simp [hq])
        · split_ifs with hc h2
          · exact hw
          · exact hw.eventAddSegment tol _ (hg _ _ hacc (hl' p (by simp)))
          · exact hw.eventAddSegment tol _ (hg _ _ (hl' p (by simp)) hacc)
        · split_ifs <;> exact hl' p (by simp)
    exact key region (st, last) (fun p hp => hp) h hlast

end Lbg.Lemmas.PolyBool
