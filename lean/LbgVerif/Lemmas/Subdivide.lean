/-
  Lemmas.Subdivide — exact-field model of the accumulating-parameter loop of
  `subdivide_evenly`:

      interval = 1 / number
      parameter = interval
      sub_pts = [self.p]
      while parameter <= LIM:            # LIM = 1 (segments), 1.000000001 (arcs)
          sub_pts.append(self.point_at(parameter))
          parameter += interval

  written with fuel.  Over an ordered field (no rounding) the parameter after `k` additions is
  exactly `(k+1)/n`, so the loop emits `point_at (j/n)` for `j = 1 … n` and stops — for EVERY
  fuel `≥ n + 1` (the loop stops because of its own condition, not because fuel ran out).
  Float rounding of the accumulated parameter is outside this model (checked exhaustively for
  `n ≤ 500` by the harness, and repaired in the source by "append p2 if short").
-/
import Mathlib.Algebra.Order.Field.Basic
import Mathlib.Data.List.Range
import Mathlib.Tactic.Ring
import Mathlib.Tactic.FieldSimp
import Mathlib.Tactic.Linarith
import Mathlib.Tactic.Positivity

namespace Lbg.Lemmas
set_option linter.unusedSectionVars false
set_option linter.unusedVariables false
variable {α : Type} [Field α] [LinearOrder α] [IsStrictOrderedRing α] {β : Type}

/-- The `while parameter <= lim` loop with fuel: state `(parameter, sub_pts)`. -/
def subdivLoop (pointAt : α → β) (interval lim : α) : ℕ → α → List β → List β
  | 0, _, acc => acc
  | fuel + 1, param, acc =>
    if param ≤ lim then
      subdivLoop pointAt interval lim fuel (param + interval) (acc ++ [pointAt param])
    else acc

/-- Loop invariant: started with parameter `(k+1)/n` and `m = n - k` values still to emit, the
loop appends `point_at ((k+j+1)/n)` for `j = 0 … m-1` and stops, for every fuel `≥ m + 1`,
provided the limit satisfies `1 ≤ lim < (n+1)/n`. -/
theorem subdivLoop_spec (pointAt : α → β) (n : ℕ) (hn : 0 < n) (lim : α) (hl1 : 1 ≤ lim)
    (hl2 : lim < ((n : α) + 1) / n) :
    ∀ (m k fuel : ℕ) (acc : List β), k + m = n → m + 1 ≤ fuel →
      subdivLoop pointAt (1 / (n : α)) lim fuel (((k : α) + 1) / n) acc =
        acc ++ (List.range m).map (fun (j : ℕ) => pointAt ((((k + j : ℕ) : α) + 1) / n)) := by
  have hn' : (0 : α) < n := Nat.cast_pos.mpr hn
  intro m
  induction m with
  | zero =>
    intro k fuel acc hk hf
    obtain ⟨f', rfl⟩ : ∃ f', fuel = f' + 1 := ⟨fuel - 1, by omega⟩
    have hkn : k = n := by omega
    subst hkn
    simp only [subdivLoop, List.range_zero, List.map_nil, List.append_nil]
    rw [if_neg (not_le.mpr hl2)]
  | succ m ih =>
    intro k fuel acc hk hf
    obtain ⟨f', rfl⟩ : ∃ f', fuel = f' + 1 := ⟨fuel - 1, by omega⟩
    have hle : ((k : α) + 1) / n ≤ lim := by
      have h1 : ((k : α) + 1) ≤ n := by
        have : k + 1 ≤ n := by omega
        exact_mod_cast this
      have : ((k : α) + 1) / n ≤ 1 := (div_le_one hn').mpr h1
      linarith
    simp only [subdivLoop]
    rw [if_pos hle]
    have e : ((k : α) + 1) / n + 1 / n = (((k + 1 : ℕ) : α) + 1) / n := by
      push_cast; field_simp
    have hk' : k + 1 + m = n := by omega
    have hf' : m + 1 ≤ f' := by omega
    rw [e, ih (k + 1) f' _ hk' hf', List.range_succ_eq_map, List.map_cons,
      List.map_map, List.append_assoc]
    congr 1
    simp only [List.singleton_append, Nat.add_zero]
    congr 1
    apply List.map_congr_left
    intro j _
    simp only [Function.comp]
    have : k + 1 + j = k + j.succ := by omega
    rw [this]

/-- `subdivide_evenly(number)` with limit `lim`, fuel `fuel`, and the segments' repair step
("append `p2` if the list is short"). -/
def subdivideEvenly (pointAt : α → β) (p p2 : β) (lim : α) (fuel n : ℕ) (repair : Bool) :
    List β :=
  let pts := subdivLoop pointAt (1 / (n : α)) lim fuel (1 / (n : α)) [p]
  if repair && decide (pts.length ≠ n + 1) then pts ++ [p2] else pts

/-- Exact-field result: for `n ≥ 1`, any fuel `≥ n + 1` and `1 ≤ lim < (n+1)/n`, the list is
`p` followed by `point_at (j/n)` for `j = 1 … n`; it has exactly `n + 1` entries and the repair
step does nothing. -/
theorem subdivideEvenly_spec (pointAt : α → β) (p p2 : β) (n : ℕ) (hn : 0 < n) (lim : α)
    (hl1 : 1 ≤ lim) (hl2 : lim < ((n : α) + 1) / n) (fuel : ℕ) (hf : n + 1 ≤ fuel)
    (repair : Bool) :
    subdivideEvenly pointAt p p2 lim fuel n repair =
      p :: (List.range n).map (fun (j : ℕ) => pointAt (((j : α) + 1) / n)) ∧
    (subdivideEvenly pointAt p p2 lim fuel n repair).length = n + 1 := by
  have h := subdivLoop_spec pointAt n hn lim hl1 hl2 n 0 fuel [p] (by omega) hf
  simp only [Nat.cast_zero, zero_add, List.singleton_append] at h
  have hlen : (p :: (List.range n).map (fun (j : ℕ) => pointAt (((j : α) + 1) / n))).length = n + 1 := by
    simp
  unfold subdivideEvenly
  simp only [h, hlen, ne_eq, not_true_eq_false, decide_false, Bool.and_false, Bool.false_eq_true,
    if_false, and_self]

end Lbg.Lemmas
