/-
  Lemmas.OffsetLoop — list plumbing for the `move_vecs` loop of `Polygon2D.offset`
  (`Model.polygonOffset`): `cyclicPairs` / `cyclicTriples` commute with `rotate`, the
  duplicate filter is the identity on loops without repeated neighbours, `is_clockwise` does
  not depend on the start vertex.
-/
import LbgVerif.Model.SubRects
import LbgVerif.Lemmas.Cyclic
import LbgVerif.Lemmas.CyclicCount
import LbgVerif.Lemmas.Annulus
import LbgVerif.Lemmas.Shoelace
import LbgVerif.Lemmas.SubRects
import Mathlib.Data.List.Rotate
import Mathlib.Tactic.Ring
import Mathlib.Tactic.Linarith

set_option linter.unusedSectionVars false
set_option linter.unusedVariables false

namespace Lbg.Lemmas
open Lbg Lbg.Gen Lbg.Model

section lists
variable {β γ : Type}

theorem zip_cons_snoc (x y : β) (s : List β) :
    (x :: (s ++ [y])).zip (s ++ [y]) = (x :: s).zip s ++ [(s.getLast?.getD x, y)] := by
  induction s generalizing x with
  | nil => simp
  | cons c s ih =>
    simp only [List.cons_append, List.zip_cons_cons, ih c, List.getLast?_cons, Option.getD_some]

/-- Moving the first vertex to the end rotates the cyclic pairs by one. -/
theorem cyclicPairs_rotate_one (a : β) (t : List β) :
    cyclicPairs (t ++ [a]) = (cyclicPairs (a :: t)).rotate 1 := by
  rw [cyclicPairs_cons, List.rotate_cons_succ, List.rotate_zero]
  unfold cyclicPairs
  rw [List.getLast?_append_of_ne_nil _ (by simp)]
  simp only [List.getLast?_singleton]
  exact zip_cons_snoc a a t

/-- `cyclicPairs` commutes with `rotate`. -/
theorem cyclicPairs_rotate (l : List β) (k : ℕ) :
    cyclicPairs (l.rotate k) = (cyclicPairs l).rotate k := by
  induction k with
  | zero => simp
  | succ k ih =>
    rw [← List.rotate_rotate l k 1, ← List.rotate_rotate (cyclicPairs l) k 1, ← ih]
    cases l.rotate k with
    | nil => simp
    | cons a t =>
      rw [List.rotate_cons_succ, List.rotate_zero]
      exact cyclicPairs_rotate_one a t

theorem cyclicTriples_length (l : List β) : (cyclicTriples l).length = l.length := by
  simp [cyclicTriples, cyclicPairs_length, List.length_rotate]

/-- `cyclicTriples` commutes with `rotate`: the loop body sees the same neighbourhoods whatever
the start vertex. -/
theorem cyclicTriples_rotate (l : List β) (k : ℕ) :
    cyclicTriples (l.rotate k) = (cyclicTriples l).rotate k := by
  unfold cyclicTriples
  rw [cyclicPairs_rotate, List.rotate_rotate, Nat.add_comm, ← List.rotate_rotate,
    ← List.map_rotate, List.zip_eq_zipWith, List.zip_eq_zipWith,
    List.zipWith_rotate_distrib _ _ _ _ (by rw [cyclicPairs_length, List.length_rotate])]

/-- The second components of the cyclic pairs are the list itself. -/
theorem cyclicPairs_map_snd (l : List β) : (cyclicPairs l).map Prod.snd = l := by
  unfold cyclicPairs
  cases h : l.getLast? with
  | none => simp [List.getLast?_eq_none_iff.mp h]
  | some z =>
    simp only
    rw [List.map_snd_zip]
    simp

/-- The i-th triple is centred at the i-th vertex. -/
theorem cyclicTriples_map_mid (l : List β) : (cyclicTriples l).map (fun t => t.2.1) = l := by
  unfold cyclicTriples
  rw [List.map_map]
  have : ((fun t : β × β × β => t.2.1) ∘ fun p : (β × β) × β => (p.1.1, p.1.2, p.2)) =
      (Prod.snd ∘ Prod.fst) := by funext p; rfl
  rw [this, ← List.map_map, List.map_fst_zip, cyclicPairs_map_snd]
  rw [cyclicPairs_length, List.length_rotate]

end lists

section
variable {α : Type} [Field α] [LinearOrder α] [IsStrictOrderedRing α]

/-- No vertex equals its cyclic predecessor. -/
def NoRepeat (l : List (V2 α)) : Prop := ∀ p ∈ cyclicPairs l, p.2 ≠ p.1

theorem dropRepeated_of_noRepeat {l : List (V2 α)} (h : NoRepeat l) : dropRepeated l = l := by
  unfold dropRepeated
  have : (cyclicPairs l).filterMap (fun p => if p.2 ≠ p.1 then some p.2 else none) =
      (cyclicPairs l).map Prod.snd := by
    rw [← List.filterMap_eq_map]
    apply List.filterMap_congr
    intro p hp
    simp only [h p hp, ne_eq, not_false_eq_true, if_true, Function.comp]
  rw [this, cyclicPairs_map_snd]

theorem NoRepeat.rotate {l : List (V2 α)} (h : NoRepeat l) (k : ℕ) : NoRepeat (l.rotate k) := by
  intro p hp
  rw [cyclicPairs_rotate, List.mem_rotate] at hp
  exact h p hp

theorem NoRepeat.reverse {l : List (V2 α)} (h : NoRepeat l) : NoRepeat l.reverse := by
  intro p hp
  have := (cyclicPairs_reverse_perm l).mem_iff.mp hp
  obtain ⟨q, hq, rfl⟩ := List.mem_map.mp this
  exact fun e => h q hq e.symm

/-- `Polygon2D.is_clockwise` does not depend on the start vertex. -/
theorem is_clockwise_rotate (l : List (V2 α)) (k : ℕ) :
    polygon2d_is_clockwise (l.rotate k) = polygon2d_is_clockwise l := by
  rw [Bool.eq_iff_iff, is_clockwise_iff', is_clockwise_iff', shoelace_rotate]

/-- Reversing, rotating back and reversing again is a rotation by the same amount. -/
theorem rotate_reverse_roundtrip {γ : Type} (X : List γ) (n k : ℕ) (hX : X.length = n) :
    (X.rotate (n - k % n)).reverse = X.reverse.rotate k := by
  rw [List.reverse_rotate, hX]
  by_cases hn : n = 0
  · subst hn
    have : X = [] := List.length_eq_zero_iff.mp hX
    subst this
    simp
  · have hn0 : 0 < n := Nat.pos_of_ne_zero hn
    have hk : k % n < n := Nat.mod_lt _ hn0
    rw [← List.rotate_mod _ k, List.length_reverse, hX]
    by_cases hk0 : k % n = 0
    · rw [hk0, Nat.sub_zero, Nat.mod_self, Nat.sub_zero]
      have : X.reverse.rotate n = X.reverse := by
        rw [← hX, ← List.length_reverse, List.rotate_length]
      rw [this, List.rotate_zero]
    · have : (n - k % n) % n = n - k % n := Nat.mod_eq_of_lt (by omega)
      rw [this]
      congr 1
      omega

end

end Lbg.Lemmas
