/-
  LbgVerif.Lemmas.ColinearRuns — the scans of `Model/Colinear.lean` as a list recursion
  (`lscan`: thread the vertex kept last through the list), the proof that the index/`skip`
  loops of the models compute exactly that recursion, and the behaviour of the recursion on
  runs of redundant vertices between corners.
-/
import LbgVerif.Model.Colinear
import LbgVerif.Lemmas.Colinear

namespace Lbg.Lemmas.Colinear
open Lbg Lbg.Gen Lbg.Model.Colinear
open scoped List

/-! ### The scan as a list recursion -/

section LScan
variable {V : Type} (crit : V → V → V → Bool)

/-- `lscan crit p X`: walk through `X`; an element `v` followed by `q` is kept iff
`crit p v q`, where `p` is the element kept last (initially the given anchor).  The last
element of `X` only serves as look-ahead. -/
def lscan (p : V) : List V → List V
  | [] => []
  | [_] => []
  | v :: q :: rest => if crit p v q then v :: lscan v (q :: rest) else lscan p (q :: rest)

/-- The element kept last by `lscan` (the anchor if nothing was kept). -/
def lastKept (p : V) (X : List V) : V := (lscan crit p X).getLast?.getD p

theorem lscan_cons_cons (p v q : V) (rest : List V) :
    lscan crit p (v :: q :: rest) =
      if crit p v q then v :: lscan crit v (q :: rest) else lscan crit p (q :: rest) := rfl

/-- Extending the input by one element at the end decides one more vertex, against the chord
from the element kept last. -/
theorem lscan_snoc (p : V) (xs : List V) (y z : V) :
    lscan crit p (xs ++ [y, z]) =
      lscan crit p (xs ++ [y]) ++ (if crit (lastKept crit p (xs ++ [y])) y z then [y] else []) := by
  induction xs generalizing p with
  | nil =>
    simp only [List.nil_append, lastKept, lscan]
    split_ifs <;> simp_all
  | cons x xs' ih =>
    obtain ⟨q, rest, hq⟩ : ∃ q rest, xs' ++ [y] = q :: rest := by
      cases xs' with
      | nil => exact ⟨y, [], rfl⟩
      | cons a t => exact ⟨a, t ++ [y], rfl⟩
    have hq2 : xs' ++ [y, z] = q :: (rest ++ [z]) := by
      have : xs' ++ [y, z] = (xs' ++ [y]) ++ [z] := by simp
      rw [this, hq]; rfl
    have e1 : x :: xs' ++ [y, z] = x :: q :: (rest ++ [z]) := by rw [List.cons_append, hq2]
    have e2 : x :: xs' ++ [y] = x :: q :: rest := by rw [List.cons_append, hq]
    rw [e1, e2, lscan_cons_cons, lscan_cons_cons]
    by_cases hc : crit p x q = true
    · simp only [hc, if_true]
      have := ih x
      rw [hq2, hq] at this
      rw [this, List.cons_append]
      congr 2
      unfold lastKept
      rw [lscan_cons_cons]
      simp only [hc, if_true]
      rw [List.getLast?_cons]
      simp
    · have hc' : crit p x q = false := by simpa using hc
      simp only [hc', Bool.false_eq_true, if_false]
      have := ih p
      rw [hq2, hq] at this
      rw [this]
      congr 2
      unfold lastKept
      rw [lscan_cons_cons]
      simp only [hc', Bool.false_eq_true, if_false]

/-- `lscan` commutes with reading positions through a map. -/
theorem lscan_map {W : Type} (g : W → V) (p : W) (X : List W) :
    lscan crit (g p) (X.map g) = (lscan (fun a b c => crit (g a) (g b) (g c)) p X).map g := by
  induction X generalizing p with
  | nil => rfl
  | cons v t ih =>
    cases t with
    | nil => rfl
    | cons q rest =>
      simp only [List.map_cons, lscan_cons_cons]
      by_cases hc : crit (g p) (g v) (g q) = true
      · simp only [hc, if_true, List.map_cons]
        have := ih v
        simp only [List.map_cons] at this
        rw [this]
      · simp only [hc]
        have := ih p
        simp only [List.map_cons] at this
        simpa using this

/-- A run `D` of vertices that all fail the test against the chord from the anchor `c` to any
later vertex of the run (or to the vertex `c'` that ends it) is skipped entirely. -/
theorem lscan_run (c c' : V) (D tail : List V)
    (h : ∀ d ∈ D, ∀ q ∈ D ++ [c'], crit c d q = false) :
    lscan crit c (D ++ c' :: tail) = lscan crit c (c' :: tail) := by
  induction D with
  | nil => rfl
  | cons d D1 ih =>
    obtain ⟨q, rest, hq⟩ : ∃ q rest, D1 ++ c' :: tail = q :: rest ∧ q ∈ (d :: D1) ++ [c'] := by
      cases D1 with
      | nil => exact ⟨c', tail, rfl, by simp⟩
      | cons a t => exact ⟨a, t ++ c' :: tail, rfl, by simp⟩
    obtain ⟨hq1, hq2⟩ := hq
    rw [List.cons_append, hq1, lscan_cons_cons, h d List.mem_cons_self q hq2]
    simp only [Bool.false_eq_true, if_false]
    rw [← hq1]
    apply ih
    intro d' hd' q' hq'
    exact h d' (List.mem_cons_of_mem _ hd') q' (by
      rcases List.mem_append.1 hq' with h1 | h1
      · exact List.mem_append_left _ (List.mem_cons_of_mem _ h1)
      · exact List.mem_append_right _ h1)

end LScan

/-! ### The open-chain loop computes `lscan` -/

section PolylineTie
variable (n : Nat) (keep : Nat → Nat → Nat → Bool)

theorem lout_getLast (m : Nat) :
    (polylineScanTo n keep m).1.getLast? = some (m - lskipAt n keep m) := by
  induction m with
  | zero => rfl
  | succ m ih =>
    have hs := (lskipAt_spec n keep m).1
    rw [lskipAt_succ, lstep_eq]
    by_cases h : lkeptAt n keep m = true
    · simp [h]
    · have h' : lkeptAt n keep m = false := by simpa using h
      simp only [h', Bool.false_eq_true, if_false, ih]
      congr 1; omega

/-- `new_vertices` of the open-chain loop after `m` iterations = `0 :: lscan` over the
positions `1 … m+1`. -/
theorem polylineScanTo_eq_lscan (m : Nat) :
    (polylineScanTo n keep m).1 = 0 :: lscan keep 0 (List.range' 1 (m + 1)) := by
  induction m with
  | zero => rfl
  | succ m ih =>
    have e : List.range' 1 (m + 1 + 1) = List.range' 1 m ++ [m + 1, m + 2] := by
      rw [List.range'_concat, List.range'_concat]
      simp [Nat.add_comm]; omega
    have e' : List.range' 1 m ++ [m + 1] = List.range' 1 (m + 1) := by
      rw [List.range'_concat]; simp [Nat.add_comm]
    rw [e, lscan_snoc, e', lstep_eq]
    have hl : lastKept keep 0 (List.range' 1 (m + 1)) = m - lskipAt n keep m := by
      have := lout_getLast n keep m
      rw [ih, List.getLast?_cons] at this
      unfold lastKept
      exact Option.some.inj this
    have hk : lkeptAt n keep m = keep (m - lskipAt n keep m) (m + 1) (m + 2) := by
      have hs := (lskipAt_spec n keep m).1
      have e1 : pyIdx n ((m : Int) - lskipAt n keep m) = m - lskipAt n keep m := by
        unfold pyIdx; split_ifs <;> omega
      have e2 : pyIdx n ((m : Int) + 2) = m + 2 := by
        unfold pyIdx; split_ifs <;> omega
      unfold lkeptAt; rw [e1, e2]
    rw [hl, ← hk, ih]
    by_cases h : lkeptAt n keep m = true
    · simp [h]
    · simp [h]

/-- Vertex form of the open-chain routine, for `n ≠ 3`: first vertex, `lscan` over the rest
anchored at the first vertex, last vertex. -/
theorem verts_polylineIdx_eq_lscan {V : Type} (d : V) (crit : V → V → V → Bool) (a : V)
    (rest : List V) (h3 : (a :: rest).length ≠ 3) (hne : rest ≠ []) :
    verts d (a :: rest) (polylineIdx (a :: rest).length (keepAt crit d (a :: rest))) =
      a :: lscan crit a rest ++ [rest.getLast?.getD a] := by
  unfold polylineIdx
  rw [if_neg h3]
  have hn : (a :: rest).length - 2 + 1 = rest.length := by
    have : 0 < rest.length := List.length_pos_iff.2 hne
    simp; omega
  rw [polylineScanTo_eq_lscan, hn]
  unfold verts
  rw [List.map_append, List.map_cons]
  have hmap : (List.range' 1 rest.length).map (fun i => (a :: rest).getD i d) = rest := by
    apply List.ext_getElem
    · simp
    · intro i h1 h2
      simp [List.getD_eq_getElem?_getD, h2, Nat.add_comm]
  have h0 : (a :: rest).getD 0 d = a := rfl
  have hl := lscan_map crit (fun i => (a :: rest).getD i d) 0 (List.range' 1 rest.length)
  rw [hmap] at hl
  have hl' : lscan crit a rest = List.map (fun i => (a :: rest).getD i d)
      (lscan (keepAt crit d (a :: rest)) 0 (List.range' 1 rest.length)) := hl
  rw [← hl']
  congr 2
  simp only [List.map_cons, List.map_nil, pyIdx_neg_one, List.getD_eq_getElem?_getD]
  rw [List.getLast?_eq_getElem?]
  have : 0 < rest.length := List.length_pos_iff.2 hne
  have e : (a :: rest).length - 1 = (rest.length - 1) + 1 := by simp; omega
  rw [e, List.getElem?_cons_succ]
  have hlt : rest.length - 1 < rest.length := by omega
  simp [hlt]

end PolylineTie

/-! ### The closed-loop loop computes `lscan` -/

section PolygonTie
variable (n : Nat) (keep : Nat → Nat → Nat → Bool)

theorem out_getLast (m : Nat) :
    (polygonScanTo n keep m).out.getLast?.getD (pyIdx n (-2)) = chordStart n keep m := by
  induction m with
  | zero => rfl
  | succ m ih =>
    have hs := (skipAt_spec n keep m).1
    unfold chordStart at ih ⊢
    rw [skipAt_succ, step_eq]
    by_cases h : keptAt n keep m = true
    · simp only [h, if_true, List.getLast?_concat, Option.getD_some]
      unfold tested
      congr 1
      push_cast; omega
    · have h' : keptAt n keep m = false := by simpa using h
      simp only [h', Bool.false_eq_true, if_false]
      rw [show (({ polygonScanTo n keep m with skip := (polygonScanTo n keep m).skip + 1 } : St).out
        = (polygonScanTo n keep m).out) from rfl, ih]
      congr 1
      push_cast; omega

/-- `new_vertices` of the closed-loop scan after `m` iterations = `lscan` anchored at position
`-2` over the tested positions `-1, 0, 1, …` (with the look-ahead of the last iteration). -/
theorem polygonScanTo_eq_lscan (m : Nat) :
    (polygonScanTo n keep m).out =
      lscan keep (pyIdx n (-2)) ((List.range (m + 1)).map (tested n)) := by
  induction m with
  | zero => rfl
  | succ m ih =>
    have e : (List.range (m + 1 + 1)).map (tested n) =
        (List.range m).map (tested n) ++ [tested n m, m] := by
      rw [List.range_succ, List.range_succ, List.map_append, List.map_append, List.append_assoc]
      congr 1
      simp only [List.map_cons, List.map_nil, List.cons_append, List.nil_append]
      congr 2
      exact pyIdx_succ_pred n m
    have e' : (List.range m).map (tested n) ++ [tested n m] = (List.range (m + 1)).map (tested n) := by
      rw [List.range_succ, List.map_append]; rfl
    rw [e, lscan_snoc, e', step_eq, ← ih]
    have hl : lastKept keep (pyIdx n (-2)) ((List.range (m + 1)).map (tested n)) =
        chordStart n keep m := by
      unfold lastKept; rw [← ih]; exact out_getLast n keep m
    rw [hl]
    have hk : keep (chordStart n keep m) (tested n m) m = keptAt n keep m := rfl
    rw [hk]
    by_cases h : keptAt n keep m = true
    · simp [h]
    · simp [h]

end PolygonTie

/-! ### The closed-loop routine (scan + seam patch) in terms of `lscan` -/

section PolygonResult
variable (n : Nat) (keep : Nat → Nat → Nat → Bool)

/-- Until something is kept `new_vertices` is empty; afterwards its first entry is the
position `first_skip` addresses. -/
theorem head_out (m : Nat) :
    ((polygonScanTo n keep m).isFirst = true ∧ (polygonScanTo n keep m).out = []) ∨
    ((polygonScanTo n keep m).isFirst = false ∧
      (polygonScanTo n keep m).out.head? = some (pyIdx n (polygonScanTo n keep m).firstSkip)) := by
  induction m with
  | zero => left; exact ⟨rfl, rfl⟩
  | succ m ih =>
    rw [step_eq]
    by_cases h : keptAt n keep m = true
    · simp only [h, if_true]
      right
      refine ⟨by simp, ?_⟩
      rcases ih with ⟨h1, h2⟩ | ⟨h1, h2⟩
      · simp only [h1, h2, if_true, List.nil_append, List.head?_cons]; rfl
      · simp only [h1, Bool.false_eq_true, if_false]
        cases ho : (polygonScanTo n keep m).out with
        | nil => rw [ho] at h2; simp at h2
        | cons a t => rw [ho] at h2; simpa using h2
    · have h' : keptAt n keep m = false := by simpa using h
      simp only [h', Bool.false_eq_true, if_false]
      exact ih

/-- **The seam patch does nothing** (and the assertion holds) whenever either the first
iteration kept `self[-1]`, or something was kept and `self[-1]` fails the test against the chord
from the position kept last to the position kept first. -/
theorem polygonIdx_eq_out
    (h : keptAt n keep 0 = true ∨
      ((polygonScan n keep).out ≠ [] ∧ ∀ a b, (polygonScan n keep).out.getLast? = some a →
        (polygonScan n keep).out.head? = some b → keep a (pyIdx n (-1)) b = false)) :
    polygonIdx n keep = some (polygonScan n keep).out := by
  unfold polygonIdx
  simp only []
  split_ifs with hc hle hk
  · -- patch would append: impossible
    exfalso
    obtain ⟨hskip, hfs⟩ := hc
    have hn : 0 < n := by
      have := (skipAt_spec n keep n).1
      unfold skipAt at this; unfold polygonScan at hskip; omega
    have h0 : keptAt n keep 0 = false := by
      have := (firstSkip_eq_neg_one_iff n keep n).not.1 hfs
      by_contra hh
      exact this ⟨hn, by simpa using hh⟩
    rcases h with h | ⟨hne, htest⟩
    · rw [h0] at h; cases h
    · obtain ⟨hs1, hs2, hs3⟩ := skipAt_spec n keep n
      have hlast := out_getLast n keep n
      unfold chordStart at hlast
      rcases head_out n keep n with ⟨_, h2⟩ | ⟨_, h2⟩
      · exact hne h2
      · cases hg : (polygonScan n keep).out.getLast? with
        | none => exact hne (List.getLast?_eq_none_iff.1 hg)
        | some a =>
          have ha : a = pyIdx n (-2 - ((polygonScan n keep).skip : Int)) := by
            unfold polygonScan at hg
            rw [hg] at hlast
            simp only [Option.getD_some] at hlast
            rw [hlast]
            unfold polygonScan skipAt
            unfold polygonScan at hle
            unfold pyIdx
            split_ifs <;> omega
          have := htest a _ hg h2
          rw [ha] at this
          have hk' : keep (pyIdx n (-2 - ((polygonScan n keep).skip : Int))) (pyIdx n (-1))
              (pyIdx n (polygonScanTo n keep n).firstSkip) = true := hk
          rw [this] at hk'; cases hk'
  · rfl
  · -- assertion fails: impossible
    exfalso
    obtain ⟨hskip, hfs⟩ := hc
    have hn : 0 < n := by
      have := (skipAt_spec n keep n).1
      unfold skipAt at this; unfold polygonScan at hskip; omega
    have h0 : keptAt n keep 0 = false := by
      have := (firstSkip_eq_neg_one_iff n keep n).not.1 hfs
      by_contra hh
      exact this ⟨hn, by simpa using hh⟩
    rcases h with h | ⟨hne, _⟩
    · rw [h0] at h; cases h
    · obtain ⟨hs1, hs2, hs3⟩ := skipAt_spec n keep n
      unfold skipAt at hs1 hs2 hs3
      unfold polygonScan at hle hne
      by_cases hlt : (polygonScanTo n keep n).skip < n
      · have hk1 := hs3 hlt
        have : n - (polygonScanTo n keep n).skip - 1 ≠ 0 := by
          intro e; rw [e, h0] at hk1; cases hk1
        omega
      · have hall : ∀ j, j < n → keptAt n keep j = false := by
          intro j hj; exact hs2 j (by omega) hj
        have := (isFirst_iff n keep n).2 hall
        rcases head_out n keep n with ⟨_, h2⟩ | ⟨h1, _⟩
        · exact hne h2
        · rw [this] at h1; cases h1
  · rfl

/-- Vertex form of the closed-loop scan: `lscan` anchored at `l[n-2]` over `l[n-1] :: l`. -/
theorem verts_polygonScan_eq_lscan {V : Type} (d : V) (crit : V → V → V → Bool)
    (pre : List V) (a z : V) :
    verts d (pre ++ [a, z])
        (polygonScan (pre ++ [a, z]).length (keepAt crit d (pre ++ [a, z]))).out =
      lscan crit a (z :: (pre ++ [a, z])) := by
  set l := pre ++ [a, z] with hl
  have hlen : l.length = pre.length + 2 := by simp [hl]
  unfold polygonScan verts
  rw [polygonScanTo_eq_lscan]
  have hm := lscan_map crit (fun i => l.getD i d) (pyIdx l.length (-2))
    ((List.range (l.length + 1)).map (tested l.length))
  have e1 : l.getD (pyIdx l.length (-2)) d = a := by
    have : pyIdx l.length (-2) = pre.length := by
      unfold pyIdx; split_ifs <;> omega
    rw [this, hl]; simp [List.getD_eq_getElem?_getD]
  have e2 : ((List.range (l.length + 1)).map (tested l.length)).map (fun i => l.getD i d) =
      z :: l := by
    rw [range_succ_eq_cons, List.map_cons, List.map_cons, List.map_map, List.map_map]
    congr 1
    · have : tested l.length 0 = pre.length + 1 := by
        unfold tested pyIdx; split_ifs <;> omega
      rw [this, hl]; simp [List.getD_eq_getElem?_getD]
    · conv_rhs => rw [← map_getD_range d l]
      apply List.map_congr_left
      intro j _
      simp only [Function.comp]
      rw [show tested l.length (Nat.succ j) = j from pyIdx_succ_pred _ j]
  rw [e1, e2] at hm
  rw [hm]; rfl

end PolygonResult

/-! ### Corners with runs of redundant vertices -/

section Decorated
variable {V : Type} (crit : V → V → V → Bool)

/-- `[(c₀, D₀), (c₁, D₁), …] ↦ c₀ :: D₀ ++ c₁ :: D₁ ++ …` -/
def flat (cs : List (V × List V)) : List V := cs.flatMap (fun cd => cd.1 :: cd.2)

theorem flat_cons (c : V) (D : List V) (rest : List (V × List V)) :
    flat ((c, D) :: rest) = c :: D ++ flat rest := by
  simp [flat]

theorem flat_append (a b : List (V × List V)) : flat (a ++ b) = flat a ++ flat b := by
  simp [flat]

/-- The vertex that follows corner `c'` in `c' :: D' ++ flat rest ++ [e]`. -/
def firstAfter (D' : List V) (rest : List (V × List V)) (e : V) : V :=
  (D' ++ flat rest ++ [e]).head?.getD e

/-- After the kept vertex `c` come the run `D`, then corners with their runs, then `e`:
every run vertex fails the test against the chord from the corner before it to any later
vertex of the run or to the vertex ending the run; every corner passes the test against the
chord from the previous corner to the vertex following it in the list. -/
def Good : V → List V → List (V × List V) → V → Prop
  | c, D, [], e => ∀ d ∈ D, ∀ q ∈ D ++ [e], crit c d q = false
  | c, D, (c', D') :: rest, e =>
      (∀ d ∈ D, ∀ q ∈ D ++ [c'], crit c d q = false) ∧
      crit c c' (firstAfter D' rest e) = true ∧ Good c' D' rest e

/-- On such a list the scan keeps exactly the corners. -/
theorem lscan_good (c : V) (D : List V) (rest : List (V × List V)) (e : V)
    (h : Good crit c D rest e) :
    lscan crit c (D ++ flat rest ++ [e]) = rest.map Prod.fst := by
  induction rest generalizing c D with
  | nil =>
    simp only [flat, List.flatMap_nil, List.append_nil, List.map_nil]
    have := lscan_run crit c e D [] h
    rw [this]; rfl
  | cons cd rest ih =>
    obtain ⟨c', D'⟩ := cd
    obtain ⟨h1, h2, h3⟩ := h
    have e1 : D ++ flat ((c', D') :: rest) ++ [e] = D ++ c' :: (D' ++ flat rest ++ [e]) := by
      rw [flat_cons]; simp
    rw [e1, lscan_run crit c c' D _ h1]
    obtain ⟨q, T, hT⟩ : ∃ q T, D' ++ flat rest ++ [e] = q :: T := by
      cases hh : D' ++ flat rest ++ [e] with
      | nil => simp at hh
      | cons q T => exact ⟨q, T, rfl⟩
    have hq : firstAfter D' rest e = q := by
      unfold firstAfter; rw [hT]; rfl
    rw [hq] at h2
    rw [hT, lscan_cons_cons, h2]
    simp only [if_true, List.map_cons]
    rw [← hT, ih c' D' h3]

end Decorated

/-! ### The adjacent-duplicate filter as a list recursion, idempotence -/

section Dedup
variable {V : Type} (R : V → V → Bool)

/-- Keep `x` unless it is equivalent to its predecessor (initially `prev`). -/
def dedupFrom (prev : V) : List V → List V
  | [] => []
  | x :: t => if R x prev then dedupFrom x t else x :: dedupFrom x t

/-- The cyclic filter: the predecessor of the first vertex is the last one. -/
def dedupCyc (l : List V) : List V :=
  match l.getLast? with
  | none => []
  | some last => dedupFrom R last l

theorem dup_tie_aux (d : V) (l : List V) (suf pre : List V) (hl : l = pre ++ suf) (prev : V)
    (hprev : l.getD (pyIdx l.length ((pre.length : Int) - 1)) d = prev) :
    verts d l ((List.range' pre.length suf.length).filter
      (fun i => !eqvAt R d l i (pyIdx l.length ((i : Int) - 1)))) = dedupFrom R prev suf := by
  induction suf generalizing pre prev with
  | nil => rfl
  | cons x t ih =>
    have hx : l.getD pre.length d = x := by
      rw [hl]; simp [List.getD_eq_getElem?_getD]
    have hnext := ih (pre ++ [x]) (by rw [hl]; simp) x (by
      have : ((pre ++ [x]).length : Int) - 1 = ((pre.length : Nat) : Int) := by simp
      rw [this, pyIdx_nonneg]; exact hx)
    have hlen : (pre ++ [x]).length = pre.length + 1 := by simp
    rw [hlen] at hnext
    rw [List.length_cons, List.range'_succ, List.filter_cons]
    have hphi : eqvAt R d l pre.length (pyIdx l.length ((pre.length : Int) - 1)) = R x prev := by
      unfold eqvAt; rw [hx, hprev]
    rw [hphi]
    unfold dedupFrom
    by_cases h : R x prev = true
    · simp only [h, Bool.not_true, Bool.false_eq_true, if_false, if_true]
      exact hnext
    · have h' : R x prev = false := by simpa using h
      simp only [h', Bool.not_false, if_true, Bool.false_eq_true, if_false]
      unfold verts at hnext ⊢
      rw [List.map_cons, hx, hnext]

/-- The position model of `remove_duplicate_vertices` computes the list recursion. -/
theorem verts_dupIdx_eq (d : V) (l : List V) :
    verts d l (dupIdx l.length (eqvAt R d l)) = dedupCyc R l := by
  unfold dupIdx dedupCyc
  cases hlast : l.getLast? with
  | none =>
    have : l = [] := List.getLast?_eq_none_iff.1 hlast
    subst this; rfl
  | some last =>
    have := dup_tie_aux R d l l [] rfl last (by
      simp only [List.length_nil, Nat.cast_zero, zero_sub, pyIdx_neg_one,
        List.getD_eq_getElem?_getD]
      rw [List.getLast?_eq_getElem?] at hlast
      rw [hlast]; rfl)
    simp only [List.length_nil] at this
    rw [List.range_eq_range']
    exact this

variable (S : V → Prop)
  (hrefl : ∀ a, R a a = true) (hsymm : ∀ a b, R a b = R b a)
  (htrans : ∀ a b c, S a → S b → S c → R a b = true → R b c = true → R a c = true)

/-- No element of `out` is equivalent to its predecessor (`p` before the first). -/
def NoAdj : V → List V → Prop
  | _, [] => True
  | p, x :: t => R x p = false ∧ NoAdj x t

theorem dedupFrom_of_noAdj (p : V) (out : List V) (h : NoAdj R p out) : dedupFrom R p out = out := by
  induction out generalizing p with
  | nil => rfl
  | cons x t ih =>
    obtain ⟨h1, h2⟩ := h
    unfold dedupFrom
    simp only [h1, Bool.false_eq_true, if_false]
    rw [ih x h2]

include hsymm htrans in
theorem dedupFrom_congr_prev (x p : V) (t : List V) (hx : S x) (hp : S p) (ht : ∀ y ∈ t, S y)
    (h : R x p = true) : dedupFrom R x t = dedupFrom R p t := by
  cases t with
  | nil => rfl
  | cons y t' =>
    have hy := ht y List.mem_cons_self
    have e : R y x = R y p := by
      cases h1 : R y x with
      | true => exact (htrans y x p hy hx hp h1 h).symm
      | false =>
        cases h2 : R y p with
        | false => rfl
        | true =>
          have := htrans y p x hy hp hx h2 (by rw [hsymm]; exact h)
          rw [h1] at this; cases this
    unfold dedupFrom
    rw [e]

include hsymm htrans in
theorem noAdj_dedupFrom (p : V) (l : List V) (hp : S p) (hl : ∀ y ∈ l, S y) :
    NoAdj R p (dedupFrom R p l) := by
  induction l generalizing p with
  | nil => trivial
  | cons x t ih =>
    have hx := hl x List.mem_cons_self
    have ht : ∀ y ∈ t, S y := fun y hy => hl y (List.mem_cons_of_mem _ hy)
    unfold dedupFrom
    by_cases h : R x p = true
    · simp only [h, if_true]
      rw [dedupFrom_congr_prev R S hsymm htrans x p t hx hp ht h]
      exact ih p hp ht
    · have h' : R x p = false := by simpa using h
      simp only [h', Bool.false_eq_true, if_false]
      exact ⟨h', ih x hx ht⟩

theorem mem_dedupFrom (p : V) (l : List V) : ∀ y ∈ dedupFrom R p l, y ∈ l := by
  induction l generalizing p with
  | nil => intro y hy; simp [dedupFrom] at hy
  | cons x t ih =>
    intro y hy
    unfold dedupFrom at hy
    split_ifs at hy
    · exact List.mem_cons_of_mem _ (ih x y hy)
    · rcases List.mem_cons.1 hy with e | hy
      · rw [e]; exact List.mem_cons_self
      · exact List.mem_cons_of_mem _ (ih x y hy)

include hrefl hsymm htrans in
/-- The element kept last is equivalent to the last element of the input. -/
theorem last_dedupFrom (p : V) (l : List V) (hp : S p) (hl : ∀ y ∈ l, S y) :
    S ((dedupFrom R p l).getLast?.getD p) ∧ S (l.getLast?.getD p) ∧
    R ((dedupFrom R p l).getLast?.getD p) (l.getLast?.getD p) = true := by
  induction l generalizing p with
  | nil => exact ⟨hp, hp, hrefl p⟩
  | cons x t ih =>
    have hx := hl x List.mem_cons_self
    have ht : ∀ y ∈ t, S y := fun y hy => hl y (List.mem_cons_of_mem _ hy)
    obtain ⟨i1, i2, i3⟩ := ih x hx ht
    have e : (x :: t).getLast?.getD p = t.getLast?.getD x := by
      rw [List.getLast?_cons]; rfl
    rw [e]
    unfold dedupFrom
    by_cases h : R x p = true
    · simp only [h, if_true]
      cases ho : dedupFrom R x t with
      | nil =>
        rw [ho] at i3
        simp only [List.getLast?_nil, Option.getD_none] at i3 ⊢
        refine ⟨hp, i2, htrans p x _ hp hx i2 (by rw [hsymm]; exact h) i3⟩
      | cons a o =>
        rw [ho] at i1 i3
        simp only [List.getLast?_cons, Option.getD_some] at i1 i3 ⊢
        exact ⟨i1, i2, i3⟩
    · have h' : R x p = false := by simpa using h
      simp only [h', Bool.false_eq_true, if_false]
      rw [List.getLast?_cons]
      exact ⟨i1, i2, i3⟩

include hrefl hsymm htrans in
/-- **Idempotence of the cyclic duplicate filter** when `R` is reflexive, symmetric and, on
the points of the list, transitive. -/
theorem dedupCyc_idem (l : List V) (hl : ∀ y ∈ l, S y) :
    dedupCyc R (dedupCyc R l) = dedupCyc R l := by
  unfold dedupCyc
  cases hlast : l.getLast? with
  | none => rfl
  | some last =>
    simp only []
    have hlm : last ∈ l := List.mem_of_getLast? hlast
    have hSl := hl last hlm
    have hno := noAdj_dedupFrom R S hsymm htrans last l hSl hl
    obtain ⟨f1, f2, f3⟩ := last_dedupFrom R S hrefl hsymm htrans last l hSl hl
    rw [hlast] at f3 f2
    simp only [Option.getD_some] at f3 f2
    cases ho : dedupFrom R last l with
    | nil => rfl
    | cons y o =>
      rw [ho] at hno f3 f1
      obtain ⟨n1, n2⟩ := hno
      cases hz : (y :: o).getLast? with
      | none => simp at hz
      | some z =>
        rw [hz] at f3 f1
        simp only [Option.getD_some] at f3 f1
        simp only []
        apply dedupFrom_of_noAdj
        refine ⟨?_, n2⟩
        cases hyz : R y z with
        | false => rfl
        | true =>
          have hy : S y := hl y (mem_dedupFrom R last l y (by rw [ho]; exact List.mem_cons_self))
          have := htrans y z last hy f1 hSl hyz f3
          rw [n1] at this; cases this

end Dedup

end Lbg.Lemmas.Colinear
