/-
  LbgVerif.Lemmas.ColinearGeom — the collinearity test of `Model/Colinear.lean` read
  geometrically: the drop condition on squares, points exactly on a line, decorated chains
  (corners with runs of exactly collinear points) and the bridge from those geometric
  hypotheses to the abstract run lemmas of `Lemmas/ColinearRuns.lean`.
-/
import LbgVerif.Model.Colinear
import LbgVerif.Lemmas.Colinear
import LbgVerif.Lemmas.ColinearRuns

set_option linter.unusedSectionVars false

namespace Lbg.Lemmas.Colinear
open Lbg Lbg.Gen Lbg.Model.Colinear
open scoped List

variable {α : Type} [Field α] [LinearOrder α] [IsStrictOrderedRing α]

/-- The drop condition on squares: with `a` = twice the triangle area and `b` the chord
length, `4a² < max(b², tol²)·tol²`, i.e. `|a| < max(b, tol)·tol/2`. -/
def Drop2 (tol : α) (v2 v1 v : V2 α) : Prop :=
  4 * (twiceArea2 v2 v1 v * twiceArea2 v2 v1 v) < max (chordSq2 v2 v) (tol * tol) * (tol * tol)

/-- The 3D drop condition on squares (`|cross|²` in place of `a²`). -/
def Drop3 (tol : α) (v2 v1 v3 : V3 α) : Prop :=
  4 * v3_magnitude_squared (cross3 v2 v1 v3) < max (chordSq3 v2 v3) (tol * tol) * (tol * tol)

omit [IsStrictOrderedRing α] in
/-- The model's test fails exactly when the drop condition holds. -/
theorem keep2_false_iff (tol : α) (v2 v1 v : V2 α) :
    keep2 tol v2 v1 v = false ↔ Drop2 tol v2 v1 v := by
  unfold keep2 Drop2
  simp only [decide_eq_false_iff_not, not_le]
  rw [max_def]
  by_cases h : chordSq2 v2 v < tol * tol
  · simp [h, le_of_lt h]
  · have h' := not_lt.1 h
    by_cases he : chordSq2 v2 v = tol * tol
    · simp [he]
    · have : ¬ chordSq2 v2 v ≤ tol * tol := fun hle => he (le_antisymm hle h')
      simp [h, this]

omit [IsStrictOrderedRing α] in
/-- The 3D model test fails exactly when the 3D drop condition holds. -/
theorem keep3_false_iff (tol : α) (v2 v1 v3 : V3 α) :
    keep3 tol v2 v1 v3 = false ↔ Drop3 tol v2 v1 v3 := by
  unfold keep3 Drop3
  simp only [decide_eq_false_iff_not, not_le]
  rw [max_def]
  by_cases h : chordSq3 v2 v3 < tol * tol
  · simp [h, le_of_lt h]
  · have h' := not_lt.1 h
    by_cases he : chordSq3 v2 v3 = tol * tol
    · simp [he]
    · have : ¬ chordSq3 v2 v3 ≤ tol * tol := fun hle => he (le_antisymm hle h')
      simp [h, this]

/-- `d` lies exactly on the line through `c` and `c'` (`d = c + t (c' - c)`; a point strictly
between `c` and `c'` has `0 < t < 1`). -/
def OnLine (c c' d : V2 α) : Prop :=
  ∃ t : α, d.x = c.x + t * (c'.x - c.x) ∧ d.y = c.y + t * (c'.y - c.y)

/-- A decorated open chain, read after an already kept vertex `c`: the run `D` of decorations
that follows `c` lies on the line from `c` to the next corner `c'`; each corner `c'` passes the
library's test `keep2` against the chord from the previous corner `c` to the vertex that
follows `c'` in the list (a decoration or the next corner — this is the chord the scan really
looks at); the last run, and the final vertex `e`, lie on the line from the last corner to `w`
(`w = e` for an open chain; for a loop `e` is itself a decoration of the closing edge and `w`
the corner that edge leads to). -/
def DecoratedChain (tol : α) (w : V2 α) :
    V2 α → List (V2 α) → List (V2 α × List (V2 α)) → V2 α → Prop
  | c, D, [], e => (∀ d ∈ D, OnLine c w d) ∧ OnLine c w e
  | c, D, (c', D') :: rest, e =>
      (∀ d ∈ D, OnLine c c' d) ∧ keep2 tol c c' (firstAfter D' rest e) = true ∧
      DecoratedChain tol w c' D' rest e

omit [LinearOrder α] [IsStrictOrderedRing α] in
/-- Three points on one line through `c` span no area. -/
theorem area_zero_of_onLine (c w d q : V2 α) (hd : OnLine c w d) (hq : OnLine c w q) :
    twiceArea2 c d q = 0 := by
  obtain ⟨t, hdx, hdy⟩ := hd
  obtain ⟨s, hqx, hqy⟩ := hq
  unfold twiceArea2 v2_determinant
  rw [hdx, hdy, hqx, hqy]; ring

omit [LinearOrder α] [IsStrictOrderedRing α] in
theorem onLine_end (c w : V2 α) : OnLine c w w := ⟨1, by ring, by ring⟩

omit [LinearOrder α] [IsStrictOrderedRing α] in
theorem onLine_start (c w : V2 α) : OnLine c w c := ⟨0, by ring, by ring⟩

/-- An exactly collinear vertex fails the test (is dropped) for every positive tolerance. -/
theorem keep2_false_of_area_zero (tol : α) (htol : 0 < tol) (p d q : V2 α)
    (h : twiceArea2 p d q = 0) : keep2 tol p d q = false := by
  unfold keep2
  simp only [h, mul_zero, decide_eq_false_iff_not, not_le]
  have ht : 0 < tol * tol := mul_pos htol htol
  split_ifs with hb
  · exact mul_pos ht ht
  · exact mul_pos (lt_of_lt_of_le ht (not_lt.1 hb)) ht

/-- Geometric sufficient condition for a corner to pass the test: the chord is at least `tol`
long and the corner is at least `tol/2` away from the chord line (squared distance
`a²/b² ≥ (tol/2)²`) — in particular every corner "farther than the tolerance from the chord". -/
theorem keep2_of_far (tol : α) (p c q : V2 α) (hb : tol * tol ≤ chordSq2 p q)
    (hfar : chordSq2 p q * ((tol / 2) * (tol / 2)) ≤ twiceArea2 p c q * twiceArea2 p c q) :
    keep2 tol p c q = true := by
  unfold keep2
  simp only [decide_eq_true_eq]
  rw [if_neg (not_lt.2 hb)]
  have e : chordSq2 p q * ((tol / 2) * (tol / 2)) = chordSq2 p q * (tol * tol) / 4 := by ring
  rw [e] at hfar
  linarith

theorem good_of_decoratedChain (tol : α) (htol : 0 < tol) (w c : V2 α) (D : List (V2 α))
    (rest : List (V2 α × List (V2 α))) (e : V2 α) (h : DecoratedChain tol w c D rest e) :
    Good (keep2 tol) c D rest e := by
  induction rest generalizing c D with
  | nil =>
    obtain ⟨h1, h2⟩ := h
    intro d hd q hq
    apply keep2_false_of_area_zero tol htol
    apply area_zero_of_onLine c w d q (h1 d hd)
    rcases List.mem_append.1 hq with hq | hq
    · exact h1 q hq
    · simp at hq; rw [hq]; exact h2
  | cons cd rest ih =>
    obtain ⟨c', D'⟩ := cd
    obtain ⟨h1, h2, h3⟩ := h
    refine ⟨?_, h2, ih c' D' h3⟩
    intro d hd q hq
    apply keep2_false_of_area_zero tol htol
    apply area_zero_of_onLine c c' d q (h1 d hd)
    rcases List.mem_append.1 hq with hq | hq
    · exact h1 q hq
    · simp at hq; rw [hq]; exact onLine_end c c'

omit [IsStrictOrderedRing α] in
/-- The last run of a decorated chain (and the final vertex) lies on the line to `w`. -/
theorem decoratedChain_last (tol : α) (w c : V2 α) (D : List (V2 α))
    (rest : List (V2 α × List (V2 α))) (cL : V2 α) (DL' : List (V2 α)) (z : V2 α)
    (h : DecoratedChain tol w c D (rest ++ [(cL, DL')]) z) :
    (∀ d ∈ DL', OnLine cL w d) ∧ OnLine cL w z := by
  induction rest generalizing c D with
  | nil => exact h.2.2
  | cons m rest ih =>
    obtain ⟨c1, D1⟩ := m
    exact ih c1 D1 h.2.2

omit [LinearOrder α] [IsStrictOrderedRing α] in
/-- Three points on the line through `cL` and `c0`, the third given relative to the first:
`a`, `z` on the line, `q` on the line through `a` and `c0` — no area. -/
theorem area_zero_of_onLine_rel (cL c0 a z q : V2 α) (ha : OnLine cL c0 a) (hz : OnLine cL c0 z)
    (hq : OnLine a c0 q) : twiceArea2 a z q = 0 := by
  obtain ⟨t, hax, hay⟩ := ha
  obtain ⟨s, hzx, hzy⟩ := hz
  obtain ⟨r, hqx, hqy⟩ := hq
  unfold twiceArea2 v2_determinant
  rw [hqx, hqy, hax, hay, hzx, hzy]; ring

end Lbg.Lemmas.Colinear
