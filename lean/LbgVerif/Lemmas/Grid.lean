/-
  Lemmas.Grid — closed forms of the nested accumulation loops of `Model/Grid.lean`:
  a `for` loop that appends `g(counter)` and advances the counter is a `flatMap` over the
  iterates of the counter; nested: row-major tables with index `i * rowLength + j`.
-/
import LbgVerif.Model.Grid
import Mathlib.Logic.Function.Iterate
import Mathlib.Tactic.Ring
import Mathlib.Tactic.Linarith
import Mathlib.Tactic.Push
import Mathlib.Data.Nat.Cast.Basic

set_option linter.unusedSectionVars false
set_option linter.unusedVariables false

namespace Lbg.Lemmas
open Lbg Lbg.Model

section loops
variable {σ β : Type}

/-- A loop `for _ in range(n): out += g(c); c = nxt(c)` emits `g` at the iterates of `nxt`. -/
theorem foldl_range_emit (nxt : σ → σ) (g : σ → List β) (n : ℕ) (acc : List β) (c0 : σ) :
    (List.range n).foldl (fun (st : List β × σ) _ => (st.1 ++ g st.2, nxt st.2)) (acc, c0) =
      (acc ++ (List.range n).flatMap (fun j => g (nxt^[j] c0)), nxt^[n] c0) := by
  induction n with
  | zero => simp
  | succ n ih =>
    rw [List.range_succ, List.foldl_append, ih]
    simp only [List.foldl_cons, List.foldl_nil, List.flatMap_append, List.flatMap_cons,
      List.flatMap_nil, List.append_nil, List.append_assoc, Function.iterate_succ_apply']

/-- Emitting one item per step is a `map`. -/
theorem flatMap_singleton_fn {γ : Type} (f : γ → β) (l : List γ) :
    l.flatMap (fun x => [f x]) = l.map f := by
  induction l with
  | nil => rfl
  | cons a t ih => simp only [List.flatMap_cons, List.map_cons, ih, List.singleton_append]

/-- Iterating `y ↦ y + d`. -/
theorem iterate_add_const {R : Type} [CommSemiring R] (d y0 : R) (j : ℕ) :
    (fun y : R => y + d)^[j] y0 = y0 + (j : R) * d := by
  induction j with
  | zero => simp
  | succ j ih => rw [Function.iterate_succ_apply', ih, Nat.cast_succ]; ring

/-- Length of a row-major table. -/
theorem table_length (n m : ℕ) (f : ℕ → ℕ → β) :
    ((List.range n).flatMap (fun i => (List.range m).map (f i))).length = n * m := by
  induction n with
  | zero => simp
  | succ n ih =>
    rw [List.range_succ, List.flatMap_append, List.length_append, ih]
    simp only [List.flatMap_cons, List.flatMap_nil, List.append_nil, List.length_map,
      List.length_range]
    ring

/-- Entry `(i, j)` of a row-major table sits at index `i * m + j`. -/
theorem table_getElem? (n m : ℕ) (f : ℕ → ℕ → β) (i j : ℕ) (hi : i < n) (hj : j < m) :
    ((List.range n).flatMap (fun i => (List.range m).map (f i)))[i * m + j]? = some (f i j) := by
  induction n with
  | zero => omega
  | succ n ih =>
    rw [List.range_succ, List.flatMap_append]
    by_cases hin : i < n
    · have hlt : i * m + j < n * m := by
        calc i * m + j < i * m + m := by omega
          _ = (i + 1) * m := by ring
          _ ≤ n * m := Nat.mul_le_mul_right m hin
      rw [List.getElem?_append_left (by rw [table_length]; exact hlt)]
      exact ih hin
    · have hi' : i = n := by omega
      subst hi'
      rw [List.getElem?_append_right (by rw [table_length]; omega), table_length]
      simp only [List.flatMap_cons, List.flatMap_nil, List.append_nil, Nat.add_sub_cancel_left]
      rw [List.getElem?_map, List.getElem?_range hj]
      rfl

/-- Membership in a row-major table. -/
theorem mem_table (n m : ℕ) (f : ℕ → ℕ → β) (x : β) :
    x ∈ (List.range n).flatMap (fun i => (List.range m).map (f i)) ↔
      ∃ i j, i < n ∧ j < m ∧ x = f i j := by
  simp only [List.mem_flatMap, List.mem_range, List.mem_map]
  constructor
  · rintro ⟨i, hi, j, hj, rfl⟩; exact ⟨i, j, hi, hj, rfl⟩
  · rintro ⟨i, j, hi, hj, rfl⟩; exact ⟨i, hi, j, hj, rfl⟩

end loops

variable {α : Type} [Field α] [LinearOrder α]

/-- Closed form of `_grid_vertices`: column-major lattice `base + (i·x_dim, j·y_dim)`,
`i = 0 … num_x` outer, `j = 0 … num_y` inner. -/
theorem gridVertices_eq (base : V2 α) (nx ny : ℕ) (xd yd : α) :
    gridVertices base nx ny xd yd =
      (List.range (nx + 1)).flatMap (fun (i : ℕ) => (List.range (ny + 1)).map (fun (j : ℕ) =>
        (⟨base.x + (i : α) * xd, base.y + (j : α) * yd⟩ : V2 α))) := by
  unfold gridVertices
  have hstep : (fun (st : List (V2 α) × α) (_i : ℕ) =>
      let inner := (List.range (ny + 1)).foldl (fun (st2 : List (V2 α) × α) _j =>
          (st2.1 ++ [(⟨st.2, st2.2⟩ : V2 α)], st2.2 + yd)) (st.1, base.y)
      (inner.1, st.2 + xd)) =
      (fun (st : List (V2 α) × α) (_i : ℕ) =>
        (st.1 ++ (fun x => (List.range (ny + 1)).map (fun (j : ℕ) =>
          (⟨x, base.y + (j : α) * yd⟩ : V2 α))) st.2, (fun x => x + xd) st.2)) := by
    funext st _i
    have := foldl_range_emit (fun y : α => y + yd) (fun y => [(⟨st.2, y⟩ : V2 α)]) (ny + 1)
      st.1 base.y
    simp only [] at this ⊢
    rw [this]
    simp only [iterate_add_const, flatMap_singleton_fn]
  rw [hstep, foldl_range_emit (fun x : α => x + xd) (fun x => (List.range (ny + 1)).map
    (fun (j : ℕ) => (⟨x, base.y + (j : α) * yd⟩ : V2 α))) (nx + 1) [] base.x]
  simp only [iterate_add_const, List.nil_append]

/-- Closed form of `_grid_centroids`: cell centres `base + ((i+½)·x_dim, (j+½)·y_dim)`. -/
theorem gridCentroids_eq (base : V2 α) (nx ny : ℕ) (xd yd : α) :
    gridCentroids base nx ny xd yd =
      (List.range nx).flatMap (fun (i : ℕ) => (List.range ny).map (fun (j : ℕ) =>
        (⟨base.x + (i : α) * xd + xd / 2, base.y + (j : α) * yd + yd / 2⟩ : V2 α))) := by
  unfold gridCentroids
  have hstep : (fun (st : List (V2 α) × α) (_i : ℕ) =>
      let inner := (List.range ny).foldl (fun (st2 : List (V2 α) × α) _j =>
          (st2.1 ++ [(⟨st.2 + xd / 2, st2.2 + yd / 2⟩ : V2 α)], st2.2 + yd)) (st.1, base.y)
      (inner.1, st.2 + xd)) =
      (fun (st : List (V2 α) × α) (_i : ℕ) =>
        (st.1 ++ (fun x => (List.range ny).map (fun (j : ℕ) =>
          (⟨x + xd / 2, base.y + (j : α) * yd + yd / 2⟩ : V2 α))) st.2,
          (fun x => x + xd) st.2)) := by
    funext st _i
    have := foldl_range_emit (fun y : α => y + yd)
      (fun y => [(⟨st.2 + xd / 2, y + yd / 2⟩ : V2 α)]) ny st.1 base.y
    simp only [] at this ⊢
    rw [this]
    simp only [iterate_add_const, flatMap_singleton_fn]
  simp only []
  rw [hstep, foldl_range_emit (fun x : α => x + xd) (fun x => (List.range ny).map
    (fun (j : ℕ) => (⟨x + xd / 2, base.y + (j : α) * yd + yd / 2⟩ : V2 α))) nx [] base.x]
  simp only [iterate_add_const, List.nil_append]

/-- The face tuple `_grid_faces` appends when the running counter is `c`. -/
def gridQuad (ny c : ℕ) : List ℕ := [c, c + ny + 1, c + ny + 2, c + 1]

/-- Closed form of `_grid_faces`: when cell `(i, j)` is reached the counter is
`i·(num_y+1) + j`. -/
theorem gridFaces_eq (nx ny : ℕ) :
    gridFaces nx ny =
      (List.range nx).flatMap (fun i => (List.range ny).map (fun j =>
        gridQuad ny (i * (ny + 1) + j))) := by
  unfold gridFaces
  have hstep : (fun (st : List (List ℕ) × ℕ) (_i : ℕ) =>
      let inner := (List.range ny).foldl (fun (st2 : List (List ℕ) × ℕ) _j =>
          (st2.1 ++ [[st2.2, st2.2 + ny + 1, st2.2 + ny + 2, st2.2 + 1]], st2.2 + 1))
          (st.1, st.2)
      (inner.1, inner.2 + 1)) =
      (fun (st : List (List ℕ) × ℕ) (_i : ℕ) =>
        (st.1 ++ (fun c => (List.range ny).map (fun j => gridQuad ny (c + j))) st.2,
          (fun c => c + (ny + 1)) st.2)) := by
    funext st _i
    have := foldl_range_emit (fun c : ℕ => c + 1)
      (fun c => [[c, c + ny + 1, c + ny + 2, c + 1]]) ny st.1 st.2
    simp only [] at this ⊢
    rw [this]
    simp only [iterate_add_const, Nat.cast_id, mul_one, gridQuad]
    rw [flatMap_singleton_fn (fun j => [st.2 + j, st.2 + j + ny + 1, st.2 + j + ny + 2,
      st.2 + j + 1])]
    rfl
  rw [hstep, foldl_range_emit (fun c : ℕ => c + (ny + 1))
    (fun c => (List.range ny).map (fun j => gridQuad ny (c + j))) nx [] 0]
  simp only [iterate_add_const, List.nil_append, Nat.cast_id, zero_add]

end Lbg.Lemmas
