/-
  Lemmas.JoinOutlineArea — inserting points that lie on the line of their edge leaves the
  shoelace sum unchanged; the segments of a polygon by index; the closest point on a segment lies
  on the segment's line.
-/
import LbgVerif.Lemmas.JoinOutlineInsert
import LbgVerif.Gen.Line
import Mathlib.Tactic.Ring
import Mathlib.Tactic.LinearCombination

namespace Lbg.Lemmas.JoinOutline
open Lbg Lbg.Gen Lbg.Lemmas Lbg.Model.JoinOutline

section Area
variable {α : Type} [Field α]

/-- `p = a + t (b - a)` for some `t`: `p` lies on the line through `a` and `b` (and `p = a` when
`a = b`). -/
def OnLine (a b p : V2 α) : Prop := ∃ t : α, p = ⟨a.x + t * (b.x - a.x), a.y + t * (b.y - a.y)⟩

theorem onLine_left (a b : V2 α) : OnLine a b a := ⟨0, by ext <;> simp⟩
theorem onLine_right (a b : V2 α) : OnLine a b b := ⟨1, by ext <;> simp⟩

/-- On a line through `a`, `det p q = det a q - det a p`. -/
theorem det_onLine (a b p q : V2 α) (hp : OnLine a b p) (hq : OnLine a b q) :
    V2.det p q = V2.det a q - V2.det a p := by
  obtain ⟨s, rfl⟩ := hp
  obtain ⟨t, rfl⟩ := hq
  simp only [V2.det]; ring

theorem path_onLine (a b : V2 α) (l : List (V2 α)) (x : V2 α) (hx : OnLine a b x)
    (hl : ∀ p ∈ l, OnLine a b p) :
    path V2.det x l = V2.det a (l.getLast?.getD x) - V2.det a x := by
  induction l generalizing x with
  | nil => simp
  | cons q t ih =>
    rw [path_cons, ih q (hl q List.mem_cons_self) (fun p hp => hl p (List.mem_cons_of_mem _ hp)),
      det_onLine a b x q hx (hl q List.mem_cons_self)]
    have e : ((q :: t).getLast?.getD x) = (t.getLast?.getD q) := by
      cases t with
      | nil => rfl
      | cons r t' =>
        rw [List.getLast?_cons_cons]
        cases hz : (r :: t').getLast? with
        | none => simp at hz
        | some z => rfl
    rw [e]; ring

/-- The path `a → blk → b` through points of the line `a b` contributes `det a b`. -/
theorem seg_onLine (a b : V2 α) (blk : List (V2 α)) (h : ∀ p ∈ blk, OnLine a b p) :
    seg V2.det a blk b = V2.det a b := by
  unfold seg
  rw [path_onLine a b (blk ++ [b]) a (onLine_left a b)
    (fun p hp => by
      rcases List.mem_append.1 hp with hp | hp
      · exact h p hp
      · rw [List.mem_singleton.1 hp]; exact onLine_right a b)]
  simp [det_self]

/-- Block `off + k` lies on the line of the `k`-th edge of the closed path `a → t → e`. -/
def BlocksOn (B : Nat → List (V2 α)) : V2 α → List (V2 α) → V2 α → Nat → Prop
  | a, [], e, off => ∀ p ∈ B off, OnLine a e p
  | a, b :: t, e, off => (∀ p ∈ B off, OnLine a b p) ∧ BlocksOn B b t e (off + 1)

theorem seg_expand (B : Nat → List (V2 α)) (a : V2 α) (t : List (V2 α)) (e : V2 α) (off : Nat)
    (h : BlocksOn B a t e off) :
    seg V2.det a (B off ++ expand B t (off + 1)) e = seg V2.det a t e := by
  induction t generalizing a off with
  | nil =>
    simp only [expand, List.append_nil, seg_nil]
    exact seg_onLine a e (B off) h
  | cons b t ih =>
    obtain ⟨h1, h2⟩ := h
    simp only [expand]
    rw [seg_append_cons, seg_onLine a b (B off) h1, ih b (off + 1) h2, seg_cons]

/-- Successor of vertex `i` on the closed loop `vs`. -/
def nextV (vs : List (V2 α)) (i : Nat) : V2 α := vs.getD ((i + 1) % vs.length) ⟨0, 0⟩

theorem blocksOn_of_index (B : Nat → List (V2 α)) (a : V2 α) (t : List (V2 α)) (e : V2 α)
    (off : Nat)
    (h : ∀ k, k < (a :: t).length → ∀ p ∈ B (off + k),
      OnLine ((a :: t).getD k ⟨0, 0⟩) (if k + 1 < (a :: t).length then (a :: t).getD (k + 1) ⟨0, 0⟩ else e) p) :
    BlocksOn B a t e off := by
  induction t generalizing a off with
  | nil =>
    intro p hp
    have := h 0 (by simp) p (by simpa using hp)
    simpa using this
  | cons b t ih =>
    refine ⟨?_, ?_⟩
    · intro p hp
      have := h 0 (by simp) p (by simpa using hp)
      simpa using this
    · apply ih
      intro k hk p hp
      have hk' : k + 1 < (a :: b :: t).length := by simp at hk ⊢; omega
      have hp' : p ∈ B (off + (k + 1)) := by
        have e0 : off + 1 + k = off + (k + 1) := by omega
        rwa [e0] at hp
      have := h (k + 1) hk' p hp'
      simp only [List.length_cons, List.getD_cons_succ] at this hk ⊢
      by_cases hc : k + 1 < t.length + 1
      · rw [if_pos (by omega)] at this
        rw [if_pos hc]
        exact this
      · rw [if_neg (by omega)] at this
        rw [if_neg hc]
        exact this

/-- **Collinear insertion keeps the shoelace sum.**  If every point of block `i` lies on the
line through vertex `i` and its successor, the expanded loop has the same shoelace sum. -/
theorem shoelace_expand (B : Nat → List (V2 α)) (vs : List (V2 α))
    (h : ∀ i, i < vs.length → ∀ p ∈ B i, OnLine (vs.getD i ⟨0, 0⟩) (nextV vs i) p) :
    shoelace (expand B vs 0) = shoelace vs := by
  cases vs with
  | nil => rfl
  | cons a t =>
    simp only [expand, shoelace_eq_cycSum, cycSum_cons]
    apply seg_expand
    apply blocksOn_of_index
    intro k hk p hp
    have := h k hk p (by simpa using hp)
    unfold nextV at this
    by_cases hk1 : k + 1 < (a :: t).length
    · rw [if_pos hk1]
      rwa [Nat.mod_eq_of_lt hk1] at this
    · rw [if_neg hk1]
      have : k + 1 = (a :: t).length := by omega
      rename_i this'
      rw [this, Nat.mod_self] at this'
      simpa using this'

end Area

end Lbg.Lemmas.JoinOutline
