/-
  Lemmas.CyclicCount — counting over the cyclic consecutive pairs of a list
  (`cyclicPairs`): the number of pairs satisfying a predicate does not depend on the start
  vertex, and reversing the list flips every pair.  Derived from the `cycSum` lemmas of
  `Lemmas/Cyclic.lean` by summing indicator functions in ℤ.
-/
import LbgVerif.Lemmas.Cyclic
import Mathlib.Data.List.Perm.Basic
import Mathlib.Data.List.Count
import Mathlib.Data.Int.Basic
import Mathlib.Algebra.Ring.Int.Defs
import Mathlib.Tactic.Ring

namespace Lbg.Lemmas
open Lbg

section
variable {β : Type}

/-- `countP` as a sum of indicators. -/
theorem countP_eq_sum_ind (p : β → Bool) (L : List β) :
    (L.countP p : ℤ) = (L.map (fun q => if p q then (1 : ℤ) else 0)).sum := by
  induction L with
  | nil => simp
  | cons a t ih =>
    by_cases h : p a
    · simp only [List.countP_cons_of_pos h, List.map_cons, List.sum_cons, h, if_true, ← ih]
      push_cast; ring
    · simp only [List.countP_cons_of_neg h, List.map_cons, List.sum_cons, h, ← ih]
      simp

/-- Counting cyclic pairs = cyclic sum of the indicator. -/
theorem countP_cyclicPairs_eq (p : β × β → Bool) (l : List β) :
    ((cyclicPairs l).countP p : ℤ) = cycSum (fun a b => if p (a, b) then (1 : ℤ) else 0) l := by
  rw [countP_eq_sum_ind]; rfl

/-- The number of cyclic pairs satisfying `p` does not depend on the start vertex. -/
theorem countP_cyclicPairs_rotate (p : β × β → Bool) (l : List β) (n : ℕ) :
    (cyclicPairs (l.rotate n)).countP p = (cyclicPairs l).countP p := by
  have := cycSum_rotate (fun a b => if p (a, b) then (1 : ℤ) else 0) l n
  rw [← countP_cyclicPairs_eq, ← countP_cyclicPairs_eq] at this
  exact_mod_cast this

/-- Cutting the loop open at another place does not change the count. -/
theorem countP_cyclicPairs_append_comm (p : β × β → Bool) (l₁ l₂ : List β) :
    (cyclicPairs (l₁ ++ l₂)).countP p = (cyclicPairs (l₂ ++ l₁)).countP p := by
  have := cycSum_append_comm (fun a b => if p (a, b) then (1 : ℤ) else 0) l₁ l₂
  rw [← countP_cyclicPairs_eq, ← countP_cyclicPairs_eq] at this
  exact_mod_cast this

/-- Reversing the list flips every cyclic pair. -/
theorem countP_cyclicPairs_reverse (p : β × β → Bool) (l : List β) :
    (cyclicPairs l.reverse).countP p = (cyclicPairs l).countP (fun q => p (q.2, q.1)) := by
  have := cycSum_reverse_flip (fun a b => if p (a, b) then (1 : ℤ) else 0) l
  rw [← countP_cyclicPairs_eq] at this
  have h2 := countP_cyclicPairs_eq (fun q => p (q.2, q.1)) l
  simp only at h2
  rw [← h2] at this
  exact_mod_cast this

/-- The cyclic pairs of a mapped list. -/
theorem cyclicPairs_map {γ : Type} (g : β → γ) (l : List β) :
    cyclicPairs (l.map g) = (cyclicPairs l).map (fun q => (g q.1, g q.2)) := by
  unfold cyclicPairs
  rw [List.getLast?_map]
  cases l.getLast? with
  | none => rfl
  | some z =>
    simp only [Option.map_some]
    rw [← List.map_cons, List.zip_map]
    rfl

/-- Both components of a cyclic pair are elements of the list. -/
theorem mem_of_mem_cyclicPairs {l : List β} {q : β × β} (h : q ∈ cyclicPairs l) :
    q.1 ∈ l ∧ q.2 ∈ l := by
  unfold cyclicPairs at h
  cases hz : l.getLast? with
  | none => rw [hz] at h; simp at h
  | some z =>
    rw [hz] at h
    simp only at h
    obtain ⟨x, y⟩ := q
    have := List.of_mem_zip h
    refine ⟨?_, this.2⟩
    rcases List.mem_cons.mp this.1 with rfl | h1
    · exact List.mem_of_getLast? hz
    · exact h1

end

section
variable {β : Type} [DecidableEq β]

/-- The multiset of cyclic pairs does not depend on the start vertex. -/
theorem cyclicPairs_rotate_perm (l : List β) (n : ℕ) :
    (cyclicPairs (l.rotate n)).Perm (cyclicPairs l) := by
  rw [List.perm_iff_count]
  intro a
  simp only [List.count_eq_countP]
  exact countP_cyclicPairs_rotate _ l n

/-- Reversal: the multiset of cyclic pairs is the multiset of flipped pairs. -/
theorem cyclicPairs_reverse_perm (l : List β) :
    (cyclicPairs l.reverse).Perm ((cyclicPairs l).map Prod.swap) := by
  rw [List.perm_iff_count]
  intro a
  rw [List.count_eq_countP, countP_cyclicPairs_reverse, List.count_eq_countP, List.countP_map]
  congr 1

end

end Lbg.Lemmas
