/-
  Lemmas.GenLoops — generic facts about the `List.foldl` shapes the translator (py2lean, v2)
  emits for Python loops over lists:

    * `acc.append(f(x))` inside `for x in l`            → `foldl (fun st x => st ++ [f x])`
    * `for x in l: if p(x): return True`                → `foldl` over `Option Bool`
    * `n += 1` under a condition                        → `foldl` over `Int`
    * `if lo(g) < mn: mn = lo(g)` / `if hi(g) > mx: …`  → running minimum / maximum
    * `_segs.append(_segs.pop(0))`                      → `drop 1 l ++ [l.headD d]`

  Independent of the generated kernels.
-/
import Mathlib.Order.Basic
import Mathlib.Order.Lattice
import Mathlib.Data.List.Basic
import Mathlib.Algebra.Order.Group.Int
import Mathlib.Tactic.SplitIfs
import Mathlib.Tactic.Ring
import Mathlib.Tactic.Linarith

namespace Lbg.Lemmas

section snoc
variable {β γ : Type}

/-- A loop that appends one item per iteration builds `init ++ map f l`. -/
theorem foldl_snoc_eq_map (f : β → γ) (l : List β) (init : List γ) :
    l.foldl (fun st x => st ++ [f x]) init = init ++ l.map f := by
  induction l generalizing init with
  | nil => simp
  | cons a t ih => simp [List.foldl_cons, ih]

/-- A loop that appends an item only when the element passes a test builds a `filterMap`. -/
theorem foldl_snoc_eq_filterMap (f : β → Option γ) (l : List β) (init : List γ) :
    l.foldl (fun st x => match f x with | some y => st ++ [y] | none => st) init
      = init ++ l.filterMap f := by
  induction l generalizing init with
  | nil => simp
  | cons a t ih =>
    simp only [List.foldl_cons, List.filterMap_cons]
    cases h : f a with
    | none => simp [ih]
    | some y => simp [ih]

/-- `l.append(l.pop(0))` on a non-empty list moves the head to the end. -/
theorem drop_one_append_head (l : List γ) (d : γ) (h : l ≠ []) :
    l.drop 1 ++ [l.headD d] = (match l with | [] => [] | s :: t => t ++ [s]) := by
  cases l with
  | nil => exact absurd rfl h
  | cons s t => simp

end snoc

section early_return
variable {β : Type}

/-- `for x in l: if p x: return True` — the state is `some true` exactly when some element
passes the test. -/
theorem foldl_return_true (p : β → Prop) [DecidablePred p] (l : List β) :
    (l.foldl (fun (st : Option Bool) x =>
        if Option.isSome st = true then st else if p x then some true else none) none).isSome
      = l.any (fun x => decide (p x)) := by
  suffices h : ∀ (st : Option Bool), (l.foldl (fun (st : Option Bool) x =>
        if Option.isSome st = true then st else if p x then some true else none) st).isSome
      = (st.isSome || l.any (fun x => decide (p x))) by simpa using h none
  induction l with
  | nil => intro st; simp
  | cons a t ih =>
    intro st
    simp only [List.foldl_cons, List.any_cons, ih]
    cases st with
    | some b => simp
    | none =>
      by_cases hp : p a <;> simp [hp]

/-- `for x in l: if p x: return c` for any constant `c`: some return happened exactly when
some element passes the test. -/
theorem foldl_return_const (c : Bool) (p : β → Prop) [DecidablePred p] (l : List β) :
    (l.foldl (fun (st : Option Bool) x =>
        if Option.isSome st = true then st else if p x then some c else none) none).isSome
      = l.any (fun x => decide (p x)) := by
  suffices h : ∀ (st : Option Bool), (l.foldl (fun (st : Option Bool) x =>
        if Option.isSome st = true then st else if p x then some c else none) st).isSome
      = (st.isSome || l.any (fun x => decide (p x))) by simpa using h none
  induction l with
  | nil => intro st; simp
  | cons a t ih =>
    intro st
    simp only [List.foldl_cons, List.any_cons, ih]
    cases st with
    | some b => simp
    | none =>
      by_cases hp : p a <;> simp [hp]

/-- A loop whose body appends `g x` (possibly by cases on `x`) is a `map`. -/
theorem foldl_snoc_fun_eq_map {γ : Type} (g : β → γ) (l : List β) (init : List γ)
    (step : List γ → β → List γ) (hstep : ∀ st x, step st x = st ++ [g x]) :
    l.foldl step init = init ++ l.map g := by
  induction l generalizing init with
  | nil => simp
  | cons a t ih => simp [List.foldl_cons, hstep, ih]

end early_return

section count
variable {β : Type}

/-- A conditional integer counter `if c x: n += 1` counts the elements passing the test. -/
theorem foldl_int_count (c : β → Prop) [DecidablePred c] (l : List β) (n : Int) :
    l.foldl (fun (st : Int) x => if c x then st + 1 else st) n
      = n + (l.countP (fun x => decide (c x)) : Int) := by
  induction l generalizing n with
  | nil => simp
  | cons a t ih =>
    simp only [List.foldl_cons, ih, List.countP_cons]
    by_cases h : c a <;> simp [h] <;> ring

/-- Parity of an integer that is a natural number. -/
theorem int_natCast_mod_two_eq_zero (k : Nat) : ((k : Int) % 2 = 0) ↔ (k % 2 = 0) := by
  omega

end count

section minmax
variable {β γ : Type} [LinearOrder β]

/-- One iteration of `if lo g < mn: mn = lo g` / `if hi g > mx: mx = hi g`. -/
def mmStep (lo hi : γ → β) (st : β × β) (g : γ) : β × β :=
  (if lo g < st.1 then lo g else st.1, if st.2 < hi g then hi g else st.2)

/-- The running minimum / maximum loop, for an arbitrary start value: the result bounds the
start value and every element, and each bound is attained (by the start or by an element). -/
theorem foldl_mmStep_spec (lo hi : γ → β) (l : List γ) (st : β × β) :
    (l.foldl (mmStep lo hi) st).1 ≤ st.1 ∧ st.2 ≤ (l.foldl (mmStep lo hi) st).2 ∧
    (∀ g ∈ l, (l.foldl (mmStep lo hi) st).1 ≤ lo g ∧ hi g ≤ (l.foldl (mmStep lo hi) st).2) ∧
    ((l.foldl (mmStep lo hi) st).1 = st.1 ∨ ∃ g ∈ l, (l.foldl (mmStep lo hi) st).1 = lo g) ∧
    ((l.foldl (mmStep lo hi) st).2 = st.2 ∨ ∃ g ∈ l, (l.foldl (mmStep lo hi) st).2 = hi g) := by
  induction l generalizing st with
  | nil => simp
  | cons a t ih =>
    obtain ⟨h1, h2, h3, h4, h5⟩ := ih (mmStep lo hi st a)
    have e1 : (mmStep lo hi st a).1 ≤ st.1 ∧ (mmStep lo hi st a).1 ≤ lo a := by
      unfold mmStep; dsimp only; split_ifs with h
      · exact ⟨h.le, le_refl _⟩
      · exact ⟨le_refl _, not_lt.mp h⟩
    have e2 : st.2 ≤ (mmStep lo hi st a).2 ∧ hi a ≤ (mmStep lo hi st a).2 := by
      unfold mmStep; dsimp only; split_ifs with h
      · exact ⟨h.le, le_refl _⟩
      · exact ⟨le_refl _, not_lt.mp h⟩
    have e3 : (mmStep lo hi st a).1 = st.1 ∨ (mmStep lo hi st a).1 = lo a := by
      unfold mmStep; dsimp only; split_ifs <;> simp
    have e4 : (mmStep lo hi st a).2 = st.2 ∨ (mmStep lo hi st a).2 = hi a := by
      unfold mmStep; dsimp only; split_ifs <;> simp
    simp only [List.foldl_cons]
    refine ⟨h1.trans e1.1, e2.1.trans h2, ?_, ?_, ?_⟩
    · intro g hg
      rcases List.mem_cons.mp hg with rfl | hg
      · exact ⟨h1.trans e1.2, e2.2.trans h2⟩
      · exact h3 g hg
    · rcases h4 with h4 | ⟨g, hg, h4⟩
      · rcases e3 with e3 | e3
        · exact Or.inl (h4.trans e3)
        · exact Or.inr ⟨a, List.mem_cons_self, h4.trans e3⟩
      · exact Or.inr ⟨g, List.mem_cons_of_mem _ hg, h4⟩
    · rcases h5 with h5 | ⟨g, hg, h5⟩
      · rcases e4 with e4 | e4
        · exact Or.inl (h5.trans e4)
        · exact Or.inr ⟨a, List.mem_cons_self, h5.trans e4⟩
      · exact Or.inr ⟨g, List.mem_cons_of_mem _ hg, h5⟩

end minmax

end Lbg.Lemmas
