/-
  Lemmas.GenTiesOffset — list plumbing for tying the generated `Polygon2D.offset` loop
  (`for i, pt in enumerate(init_verts): v1 = init_verts[i - 1] - pt; end_i = i + 1 if i != max_i
  else 0; v2 = init_verts[end_i] - pt; …`) to the hand model's `cyclicTriples`.
-/
import LbgVerif.Lemmas.GenLoops2
import LbgVerif.Lemmas.OffsetLoop
namespace Lbg.Lemmas.GenTiesOffset
open Lbg Lbg.Model Lbg.Model.Colinear Lbg.Lemmas.Colinear

/-- The neighbourhood `(seq[i-1], seq[i], seq[0] if i == len-1 else seq[i+1])` the `move_vecs`
loop of `Polygon2D.offset` reads at index `i`, with the translator's indexing. -/
def tripleAt {β : Type} (d : β) (l : List β) (i : Nat) : β × β × β :=
  (l.getD (pyIdx l.length ((i : Int) - 1)) d, l.getD i d,
    if (i : Int) = (l.length : Int) - 1 then l.headD d else l.getD (i + 1) d)

/-- The hand model's `cyclicTriples` lists exactly the neighbourhoods the generated loop reads,
in order. -/
theorem cyclicTriples_eq_map_range {β : Type} (d : β) (l : List β) :
    cyclicTriples l = (List.range l.length).map (tripleAt d l) := by
  have hlen := cyclicTriples_length l
  unfold cyclicTriples at hlen ⊢
  apply List.ext_getElem
  · simp [hlen]
  · intro i h1 h2
    have hi : i < l.length := by rw [hlen] at h1; exact h1
    simp only [List.getElem_map, List.getElem_zip, List.getElem_range, List.getElem_rotate]
    unfold tripleAt
    have hl : l ≠ [] := by intro h; rw [h] at hi; simp at hi
    obtain ⟨z, hz⟩ : ∃ z, l.getLast? = some z := by
      cases h : l.getLast? with
      | none => exact absurd (List.getLast?_eq_none_iff.mp h) hl
      | some z => exact ⟨z, rfl⟩
    have hcp : cyclicPairs l = (z :: l).zip l := by unfold cyclicPairs; rw [hz]
    have e1 : ((cyclicPairs l)[i]'(by rw [cyclicPairs_length]; exact hi)) =
        ((z :: l)[i]'(by simp; omega), l[i]) := by
      simp [hcp]
    rw [e1]
    have e2 : (z :: l)[i]'(by simp; omega) = l.getD (pyIdx l.length ((i : Int) - 1)) d := by
      rw [pyIdx_pred]
      by_cases h0 : i = 0
      · subst h0
        simp only [List.getElem_cons_zero, if_true]
        rw [List.getLast?_eq_getElem?] at hz
        rw [List.getD_eq_getElem?_getD, hz]; rfl
      · rw [if_neg h0]
        obtain ⟨j, rfl⟩ : ∃ j, i = j + 1 := ⟨i - 1, by omega⟩
        simp [List.getD_eq_getElem?_getD, show j < l.length by omega]
    have e3 : l[i] = l.getD i d := by simp [List.getD_eq_getElem?_getD, hi]
    have e4 : l[(i + 1) % l.length]'(Nat.mod_lt _ (by omega)) =
        (if (i : Int) = (l.length : Int) - 1 then l.headD d else l.getD (i + 1) d) := by
      by_cases hlast : (i : Int) = (l.length : Int) - 1
      · rw [if_pos hlast]
        have : (i + 1) % l.length = 0 := by
          have : i + 1 = l.length := by omega
          rw [this, Nat.mod_self]
        simp only [this]
        cases l with
        | nil => exact absurd rfl hl
        | cons a t => rfl
      · rw [if_neg hlast]
        have hlt : i + 1 < l.length := by omega
        simp [Nat.mod_eq_of_lt hlt, List.getD_eq_getElem?_getD, hlt]
    simp only [e2, e3, e4]
end Lbg.Lemmas.GenTiesOffset
