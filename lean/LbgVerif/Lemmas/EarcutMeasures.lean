/-
  Lemmas.EarcutMeasures — the measures the C05b statements use (emitted / dropped area and
  node counts per event, the per-event cleanliness tests) and the bookkeeping lemmas that
  connect them with the invariants of `Lemmas/EarcutRun.lean`.
-/
import LbgVerif.Model.Earcut
import LbgVerif.Lemmas.EarcutRun
import Mathlib.Tactic.Ring
import Mathlib.Tactic.Linarith
import Mathlib.Tactic.NormNum

namespace Lbg.Lemmas
open Lbg Lbg.Gen Lbg.Model.Earcut

set_option linter.unusedSectionVars false

variable {α : Type} [Field α] [LinearOrder α]

/-- Doubled signed area of the triangle an event emits (`0` for events that emit none):
`(prev, ear, next)` for an ear, `(a, p, b)` for a cure. -/
def emitArea (v : Nat → V2 α) : Ev → α
  | Ev.ear a b c => triArea v a b c
  | Ev.cure a p _ b => triArea v a p b
  | _ => 0

/-- Doubled signed area an event drops without covering it by a triangle: the triangle
`(p, p.next, b)` of a cure, an abandoned ring, a bridged-in hole ring (negative: the hole is
cut out of the shape). -/
def lostArea (v : Nat → V2 α) : Ev → α
  | Ev.cure _ p q b => triArea v p q b
  | Ev.left r => ringArea v r
  | Ev.oof r => ringArea v r
  | Ev.hole r true => - ringArea v r
  | _ => 0

/-- Number of triangles an event emits. -/
def emitCount : Ev → ℤ
  | Ev.ear _ _ _ => 1
  | Ev.cure _ _ _ _ => 1
  | _ => 0

/-- Nodes an event takes out of the rings without emitting a triangle for them. -/
def lostCount : Ev → ℤ
  | Ev.cure _ _ _ _ => 1
  | Ev.filt _ _ _ => 1
  | Ev.left r => (r.length : ℤ) - 2
  | Ev.oof r => (r.length : ℤ) - 2
  | Ev.hole r true => - ((r.length : ℤ) + 2)
  | _ => 0

/-- Per-event test of `CleanArea`. -/
def okArea : Ev → Bool
  | Ev.cure _ _ _ _ => false
  | Ev.oof _ => false
  | Ev.left r => decide (r.length < 3)
  | Ev.hole _ _ => false
  | _ => true

/-- Per-event test of `CleanCount`. -/
def okCount : Ev → Bool
  | Ev.cure _ _ _ _ => false
  | Ev.oof _ => false
  | Ev.filt _ _ _ => false
  | Ev.left r => decide (r.length = 2)
  | Ev.hole _ _ => false
  | _ => true

/-- Every index in the flat triangle list comes from a node some event mentions. -/
theorem mem_trianglesOf {evs : List Ev} {i : Nat} (h : i ∈ trianglesOf evs) :
    ∃ e ∈ evs, ∃ n ∈ evNodes e, n.i = i := by
  induction evs with
  | nil => simp [trianglesOf] at h
  | cons e t ih =>
    cases e with
    | ear a b c =>
      simp only [trianglesOf, List.mem_cons] at h
      rcases h with rfl | rfl | rfl | h
      · exact ⟨Ev.ear a b c, by simp, a, by simp [evNodes], rfl⟩
      · exact ⟨Ev.ear a b c, by simp, b, by simp [evNodes], rfl⟩
      · exact ⟨Ev.ear a b c, by simp, c, by simp [evNodes], rfl⟩
      · obtain ⟨e, he, n, hn, rfl⟩ := ih h
        exact ⟨e, by simp [he], n, hn, rfl⟩
    | cure a p q b =>
      simp only [trianglesOf, List.mem_cons] at h
      rcases h with rfl | rfl | rfl | h
      · exact ⟨Ev.cure a p q b, by simp, a, by simp [evNodes], rfl⟩
      · exact ⟨Ev.cure a p q b, by simp, p, by simp [evNodes], rfl⟩
      · exact ⟨Ev.cure a p q b, by simp, b, by simp [evNodes], rfl⟩
      · obtain ⟨e, he, n, hn, rfl⟩ := ih h
        exact ⟨e, by simp [he], n, hn, rfl⟩
    | _ =>
      simp only [trianglesOf] at h
      obtain ⟨e, he, n, hn, rfl⟩ := ih h
      exact ⟨e, by simp [he], n, hn, rfl⟩

/-- `_is_ear` only accepts a strictly convex corner: `_area(prev, ear, next) < 0`. -/
theorem isEar_area_neg (v : Nat → V2 α) (a b c : Node) (mid : Ring)
    (h : isEar v (b :: c :: (mid ++ [a])) = true) : area v a b c < 0 := by
  have hl : (c :: (mid ++ [a])).getLast?.getD b = a := by
    rw [show c :: (mid ++ [a]) = (c :: mid) ++ [a] from rfl, List.getLast?_concat]; rfl
  simp only [isEar, hl, List.head?_cons, Option.getD_some] at h
  split_ifs at h with h0
  exact not_le.mp h0

/-- The quadrilateral a cure removes is the emitted triangle plus the dropped one. -/
theorem quad_split (v : Nat → V2 α) (a p q b : Node) :
    ringArea v [a, p, q, b] = triArea v a p b + triArea v p q b := by
  simp only [ringArea, ringPts, List.map_cons, List.map_nil, shoelace_quad, triArea, V2.det,
    V2.sub]
  ring

/-- Event by event, the area value splits into emitted and dropped area. -/
theorem evArea_split (v : Nat → V2 α) (evs : List Ev) :
    evSum (evArea v) evs = evSum (emitArea v) evs + evSum (lostArea v) evs := by
  induction evs with
  | nil => simp
  | cons e t ih =>
    simp only [evSum_cons, ih]
    cases e with
    | cure a p q b => simp only [evArea, emitArea, lostArea, quad_split]; ring
    | hole r b => cases b <;> simp only [evArea, emitArea, lostArea] <;> ring
    | _ => simp only [evArea, emitArea, lostArea]; ring

/-- Rings of fewer than three nodes have no area. -/
theorem ringArea_small (v : Nat → V2 α) (r : Ring) (h : r.length < 3) : ringArea v r = 0 := by
  rcases r with _ | ⟨a, _ | ⟨b, _ | ⟨c, t⟩⟩⟩
  · simp [ringArea, ringPts]
  · simp [ringArea, ringPts, shoelace_singleton]
  · simp [ringArea, ringPts, shoelace_pair]
  · simp at h; omega

/-- A clean run drops no area. -/
theorem lostArea_clean (v : Nat → V2 α) (evs : List Ev) (h : ∀ e ∈ evs, okArea e = true) :
    evSum (lostArea v) evs = 0 := by
  induction evs with
  | nil => simp
  | cons e t ih =>
    have ht : ∀ e ∈ t, okArea e = true := fun e he => h e (by simp [he])
    have he := h e (by simp)
    rw [evSum_cons, ih ht, add_zero]
    cases e with
    | left r => exact ringArea_small v r (by simpa [okArea] using he)
    | cure a p q b => simp [okArea] at he
    | oof r => simp [okArea] at he
    | hole r b => simp [okArea] at he
    | _ => rfl

/-- Event by event, the count value splits into emitted triangles and lost nodes. -/
theorem evCount_split (evs : List Ev) :
    evSum evCount evs = evSum emitCount evs + evSum lostCount evs := by
  induction evs with
  | nil => simp
  | cons e t ih =>
    simp only [evSum_cons, ih]
    cases e with
    | hole r b => cases b <;> simp only [evCount, emitCount, lostCount] <;> ring
    | _ => simp only [evCount, emitCount, lostCount]; ring

/-- The flat list has three indices per emitted triangle. -/
theorem trianglesOf_length (evs : List Ev) :
    ((trianglesOf evs).length : ℤ) = 3 * evSum emitCount evs := by
  induction evs with
  | nil => simp [trianglesOf]
  | cons e t ih =>
    cases e <;> simp only [trianglesOf, List.length_cons, evSum_cons, emitCount, Nat.cast_add,
      Nat.cast_one, ih] <;> ring

/-- A plain run loses no nodes. -/
theorem lostCount_clean (evs : List Ev) (h : ∀ e ∈ evs, okCount e = true) : evSum lostCount evs = 0 := by
  induction evs with
  | nil => simp
  | cons e t ih =>
    have ht : ∀ e ∈ t, okCount e = true := fun e he => h e (by simp [he])
    have he := h e (by simp)
    rw [evSum_cons, ih ht, add_zero]
    cases e with
    | left r =>
      have : r.length = 2 := by simpa [okCount] using he
      simp only [lostCount, this]; norm_num
    | cure a p q b => simp [okCount] at he
    | oof r => simp [okCount] at he
    | filt a b c => simp [okCount] at he
    | hole r b => simp [okCount] at he
    | _ => rfl

/-- Per-event test of `CleanHoles`. -/
def okHoles : Ev → Bool
  | Ev.cure _ _ _ _ => false
  | Ev.oof _ => false
  | Ev.left r => decide (r.length < 3)
  | Ev.hole _ b => b
  | _ => true

/-- In a clean run with holes the dropped area is minus the area of the hole rings. -/
theorem lostArea_cleanHoles (v : Nat → V2 α) (evs : List Ev) (h : ∀ e ∈ evs, okHoles e = true) :
    evSum (lostArea v) evs = - ((holeRings evs).map (ringArea v)).sum := by
  induction evs with
  | nil => simp [holeRings]
  | cons e t ih =>
    have ht : ∀ e ∈ t, okHoles e = true := fun e he => h e (by simp [he])
    have he := h e (by simp)
    rw [evSum_cons, ih ht]
    cases e with
    | left r =>
      simp only [lostArea, holeRings]
      rw [ringArea_small v r (by simpa [okHoles] using he)]; ring
    | cure a p q b => simp [okHoles] at he
    | oof r => simp [okHoles] at he
    | hole r b =>
      have : b = true := by simpa [okHoles] using he
      subst this
      simp only [lostArea, holeRings, List.map_cons, List.sum_cons]; ring
    | _ => simp only [lostArea, holeRings]; ring

end Lbg.Lemmas
