/-
  Lemmas.Siblings — helper lemmas for C16 (2D and 3D sibling classes agree):

  * closed forms of the generated closest-point kernels (2D and 3D, segment / ray / infinite)
    as "origin + clamp(projection parameter) • direction";
  * algebra of the plane chart `lift` / `liftV` with respect to `add`, `smul`;
  * the abstract statement "the 3D closest point of lifted data is the lift of the 2D closest
    point" for an orthonormal frame and ANY clamp function.
-/
import LbgVerif.Gen.Isect2
import LbgVerif.Gen.Isect3
import LbgVerif.Gen.Line
import LbgVerif.Gen.Plane
import LbgVerif.Lemmas.Measure
import Mathlib.Tactic.Ring
import Mathlib.Tactic.SplitIfs
import Mathlib.Tactic.LinearCombination

set_option linter.unusedSectionVars false
set_option linter.unusedTactic false
set_option linter.unreachableTactic false
set_option linter.unnecessarySeqFocus false

namespace Lbg.Lemmas
open Lbg Lbg.Gen
variable {α : Type} [Field α] [LinearOrder α] [IsStrictOrderedRing α]

/-- The clamp of `LineSegment*.closest_point`: parameters outside `[0, 1]` are clamped. -/
def clampSeg (u : α) : α := if ¬ (¬ u < 0 ∧ ¬ 1 < u) then max (min u 1) 0 else u

/-- The clamp of `Ray*.closest_point`: negative parameters are clamped. -/
def clampRay (u : α) : α := if u < 0 then max (min u 1) 0 else u

/-- Model of the 2D closest-point kernels for a clamp function `c`. -/
def cp2 (c : α → α) (q : V2 α) (l : LR2 α) : V2 α :=
  if V2.dot l.v l.v = 0 then l.p
  else V2.add l.p (V2.smul (c (V2.dot (V2.sub q l.p) l.v / V2.dot l.v l.v)) l.v)

/-- Model of the 3D closest-point kernels for a clamp function `c`. -/
def cp3 (c : α → α) (q : V3 α) (l : LR3 α) : V3 α :=
  if V3.dot l.v l.v = 0 then l.p
  else V3.add l.p (V3.smul (c (V3.dot (V3.sub q l.p) l.v / V3.dot l.v l.v)) l.v)

/-- `closest_point2d_on_line2d` (segment) in closed form. -/
theorem closest2_s_form (q : V2 α) (l : LR2 α) :
    closest_point2d_on_line2d_s q l = cp2 clampSeg q l := by
  unfold closest_point2d_on_line2d_s cp2
  by_cases h : l.v.x * l.v.x + l.v.y * l.v.y = 0
  · simp only [V2.dot, h, if_true]
  · simp only [V2.dot, V2.sub, V2.add, V2.smul, clampSeg, h, if_false] <;> rfl

/-- `closest_point2d_on_line2d` (ray) in closed form. -/
theorem closest2_r_form (q : V2 α) (l : LR2 α) :
    closest_point2d_on_line2d_r q l = cp2 clampRay q l := by
  unfold closest_point2d_on_line2d_r cp2
  by_cases h : l.v.x * l.v.x + l.v.y * l.v.y = 0
  · simp only [V2.dot, h, if_true]
  · simp only [V2.dot, V2.sub, V2.add, V2.smul, clampRay, h, if_false] <;> rfl

/-- `closest_point2d_on_line2d_infinite` (segment receiver) in closed form. -/
theorem closest2_is_form (q : V2 α) (l : LR2 α) :
    closest_point2d_on_line2d_infinite_s q l = cp2 id q l := by
  unfold closest_point2d_on_line2d_infinite_s cp2
  by_cases h : l.v.x * l.v.x + l.v.y * l.v.y = 0
  · simp only [V2.dot, h, if_true]
  · simp only [V2.dot, V2.sub, V2.add, V2.smul, id, h, if_false] <;> rfl

/-- `closest_point2d_on_line2d_infinite` (ray receiver) in closed form. -/
theorem closest2_ir_form (q : V2 α) (l : LR2 α) :
    closest_point2d_on_line2d_infinite_r q l = cp2 id q l := by
  unfold closest_point2d_on_line2d_infinite_r cp2
  by_cases h : l.v.x * l.v.x + l.v.y * l.v.y = 0
  · simp only [V2.dot, h, if_true]
  · simp only [V2.dot, V2.sub, V2.add, V2.smul, id, h, if_false] <;> rfl

/-- `closest_point3d_on_line3d` (segment) in closed form. -/
theorem closest3_s_form (q : V3 α) (l : LR3 α) :
    closest_point3d_on_line3d_s q l = cp3 clampSeg q l := by
  unfold closest_point3d_on_line3d_s cp3
  by_cases h : l.v.x * l.v.x + l.v.y * l.v.y + l.v.z * l.v.z = 0
  · simp only [V3.dot, h, if_true]
  · simp only [V3.dot, V3.sub, V3.add, V3.smul, clampSeg, h, if_false] <;> rfl

/-- `closest_point3d_on_line3d` (ray) in closed form. -/
theorem closest3_r_form (q : V3 α) (l : LR3 α) :
    closest_point3d_on_line3d_r q l = cp3 clampRay q l := by
  unfold closest_point3d_on_line3d_r cp3
  by_cases h : l.v.x * l.v.x + l.v.y * l.v.y + l.v.z * l.v.z = 0
  · simp only [V3.dot, h, if_true]
  · simp only [V3.dot, V3.sub, V3.add, V3.smul, clampRay, h, if_false] <;> rfl

/-- `closest_point3d_on_line3d_infinite` (segment receiver) in closed form. -/
theorem closest3_is_form (q : V3 α) (l : LR3 α) :
    closest_point3d_on_line3d_infinite_s q l = cp3 id q l := by
  unfold closest_point3d_on_line3d_infinite_s cp3
  by_cases h : l.v.x * l.v.x + l.v.y * l.v.y + l.v.z * l.v.z = 0
  · simp only [V3.dot, h, if_true]
  · simp only [V3.dot, V3.sub, V3.add, V3.smul, id, h, if_false] <;> rfl

/-- `closest_point3d_on_line3d_infinite` (ray receiver) in closed form. -/
theorem closest3_ir_form (q : V3 α) (l : LR3 α) :
    closest_point3d_on_line3d_infinite_r q l = cp3 id q l := by
  unfold closest_point3d_on_line3d_infinite_r cp3
  by_cases h : l.v.x * l.v.x + l.v.y * l.v.y + l.v.z * l.v.z = 0
  · simp only [V3.dot, h, if_true]
  · simp only [V3.dot, V3.sub, V3.add, V3.smul, id, h, if_false] <;> rfl

/-- `liftV` commutes with scalar multiplication. -/
theorem liftV_smul (x y : V3 α) (k : α) (v : V2 α) :
    liftV x y (V2.smul k v) = V3.smul k (liftV x y v) := by
  apply V3.ext' <;> simp only [liftV, V2.smul, V3.smul] <;> ring

/-- `liftV` is additive. -/
theorem liftV_add (x y : V3 α) (u v : V2 α) :
    liftV x y (V2.add u v) = V3.add (liftV x y u) (liftV x y v) := by
  apply V3.ext' <;> simp only [liftV, V2.add, V3.add] <;> ring

/-- **Closest points commute with an orthonormal chart**, for any clamp function: the 3D
closest point of the lifted query on the lifted line is the lift of the 2D closest point. -/
theorem cp3_lift (c : α → α) (o x y : V3 α) (hx : V3.normSq x = 1) (hy : V3.normSq y = 1)
    (hxy : V3.dot x y = 0) (q : V2 α) (l : LR2 α) :
    cp3 c (lift o x y q) ⟨lift o x y l.p, liftV x y l.v⟩ = lift o x y (cp2 c q l) := by
  unfold cp3 cp2
  simp only []
  rw [lift_sub_lift, dot_liftV x y hx hy hxy, dot_liftV x y hx hy hxy]
  split_ifs with h
  · rfl
  · rw [lift_add, liftV_smul]

/-- The round trip `xyz_to_xy ∘ xy_to_xyz` is the identity for an orthonormal frame. -/
theorem plane_xyz_to_xy_lift (pl : PlaneS α) (hx : V3.normSq pl.x = 1) (hy : V3.normSq pl.y = 1)
    (hxy : V3.dot pl.x pl.y = 0) (c : V2 α) :
    plane_xyz_to_xy pl (lift pl.o pl.x pl.y c) = c := by
  obtain ⟨h1, h2⟩ := dot_lift_sub pl.o pl.x pl.y hx hy hxy c
  unfold plane_xyz_to_xy
  apply V2.ext'
  · simpa only [V3.dot, V3.sub] using h1
  · simpa only [V3.dot, V3.sub] using h2

end Lbg.Lemmas
