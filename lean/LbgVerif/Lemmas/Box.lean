/-
  Lemmas.Box — scalar facts behind the bounding boxes (C10): a point of a segment lies
  between the end-point min and max; `|d| ≤ r` from `d² ≤ r²`; the Cauchy–Schwarz bound for
  one coordinate of a circle point in an orthonormal frame.
-/
import LbgVerif.Basic
import Mathlib.Tactic.Ring
import Mathlib.Tactic.Linarith
import Mathlib.Tactic.Positivity
import Mathlib.Tactic.LinearCombination
import Mathlib.Tactic.FieldSimp
import Mathlib.Algebra.Order.Field.Basic

namespace Lbg.Lemmas
open Lbg
set_option linter.unusedSectionVars false
set_option linter.unusedVariables false
variable {α : Type} [Field α] [LinearOrder α] [IsStrictOrderedRing α]

/-- `p + v·t` for `t ∈ [0, 1]` lies between `min p (p+v)` and `max p (p+v)`. -/
theorem lerp_between (p v t : α) (h0 : 0 ≤ t) (h1 : t ≤ 1) :
    min p (p + v) ≤ p + v * t ∧ p + v * t ≤ max p (p + v) := by
  rcases le_total 0 v with hv | hv
  · have e1 := mul_nonneg hv h0
    have e2 := mul_le_of_le_one_right hv h1
    exact ⟨min_le_of_left_le (by linarith), le_max_of_le_right (by linarith)⟩
  · have e1 : v * t ≤ 0 := mul_nonpos_of_nonpos_of_nonneg hv h0
    have e2 : v ≤ v * t := by
      have := mul_le_mul_of_nonpos_left h1 hv
      linarith
    exact ⟨min_le_of_right_le (by linarith), le_max_of_le_left (by linarith)⟩

/-- `min p (p+v)` is one of the two end values. -/
theorem min_end (p v : α) : min p (p + v) = p + v * 0 ∨ min p (p + v) = p + v * 1 := by
  rcases min_choice p (p + v) with h | h
  · left; rw [h]; ring
  · right; rw [h]; ring

/-- `max p (p+v)` is one of the two end values. -/
theorem max_end (p v : α) : max p (p + v) = p + v * 0 ∨ max p (p + v) = p + v * 1 := by
  rcases max_choice p (p + v) with h | h
  · left; rw [h]; ring
  · right; rw [h]; ring

/-- Midpoint of the end-point min and max is `p + v/2`. -/
theorem min_max_mid (p v : α) : p + v / 2 = (min p (p + v) + max p (p + v)) / 2 := by
  rw [min_add_max]; ring

/-- `d² ≤ r²` with `r ≥ 0` gives `-r ≤ d ≤ r`. -/
theorem abs_le_of_sq_le (d r : α) (hr : 0 ≤ r) (h : d * d ≤ r * r) : -r ≤ d ∧ d ≤ r := by
  constructor
  · by_contra hc
    have hc' : d < -r := not_le.mp hc
    nlinarith
  · by_contra hc
    have hc' : r < d := not_le.mp hc
    nlinarith

/-- Cauchy–Schwarz in the plane: `(c·x + s·y)² ≤ (c² + s²)(x² + y²)`. -/
theorem cs2 (c s x y : α) : (c * x + s * y) * (c * x + s * y) ≤ (c * c + s * s) * (x * x + y * y) := by
  have := mul_self_nonneg (c * y - s * x)
  nlinarith

/-- One coordinate of a circle point in an orthonormal frame: with `c² + s² = 1`, the frame-row
identity `x² + y² + n² = 1` and `w = sqrt(1 - n²)` (`w ≥ 0`, `w² = 1 - n²`), the offset
`x·(c r) + y·(s r)` lies in `[-w r, w r]`. -/
theorem circle_coord_bound (c s x y n w r : α) (hcs : c * c + s * s = 1)
    (hrow : x * x + y * y + n * n = 1) (hw0 : 0 ≤ w) (hw : w * w = 1 - n * n) (hr : 0 ≤ r) :
    -(w * r) ≤ x * (c * r) + y * (s * r) ∧ x * (c * r) + y * (s * r) ≤ w * r := by
  have h1 := cs2 c s x y
  have h2 : (c * x + s * y) * (c * x + s * y) ≤ w * w := by
    rw [hcs, one_mul] at h1; linarith
  obtain ⟨l, u⟩ := abs_le_of_sq_le (c * x + s * y) w hw0 h2
  have l' := mul_le_mul_of_nonneg_right l hr
  have u' := mul_le_mul_of_nonneg_right u hr
  constructor <;> nlinarith

/-- The bound of `circle_coord_bound` is attained: some point `(c, s)` of the unit circle gives
offset exactly `w r` (and `(-c, -s)` gives `-w r`). -/
theorem circle_coord_attained (x y n w r : α)
    (hrow : x * x + y * y + n * n = 1) (hw0 : 0 ≤ w) (hw : w * w = 1 - n * n) :
    ∃ c s, c * c + s * s = 1 ∧ x * (c * r) + y * (s * r) = w * r ∧
      x * (-c * r) + y * (-s * r) = -(w * r) := by
  by_cases h0 : w = 0
  · have hxy : x * x + y * y = 0 := by rw [h0] at hw; linarith
    have hx := mul_self_nonneg x; have hy := mul_self_nonneg y
    have hx0 : x = 0 := mul_self_eq_zero.mp (by linarith)
    have hy0 : y = 0 := mul_self_eq_zero.mp (by linarith)
    exact ⟨1, 0, by ring, by rw [hx0, hy0, h0]; ring, by rw [hx0, hy0, h0]; ring⟩
  · have hxy : x * x + y * y = w * w := by linarith
    refine ⟨x / w, y / w, ?_, ?_, ?_⟩
    · field_simp; linear_combination hxy
    · field_simp; linear_combination r * hxy
    · field_simp; linear_combination (-r) * hxy

/-- Convex hull of an apex `v` and a value `q ∈ [lo, hi]`: every `v + λ (q - v)`, `λ ∈ [0,1]`,
lies in `[min lo v, max hi v]` (cone: apex and base circle). -/
theorem hull_between (lo hi v q lam : α) (hl : lo ≤ q) (hh : q ≤ hi) (h0 : 0 ≤ lam) (h1 : lam ≤ 1) :
    min lo v ≤ v + lam * (q - v) ∧ v + lam * (q - v) ≤ max hi v := by
  rcases le_total v q with h | h
  · have e1 := mul_nonneg h0 (sub_nonneg.mpr h)
    have e2 := mul_le_of_le_one_left (sub_nonneg.mpr h) h1
    exact ⟨min_le_of_right_le (by linarith), le_max_of_le_left (by linarith)⟩
  · have e1 : lam * (q - v) ≤ 0 := mul_nonpos_of_nonneg_of_nonpos h0 (sub_nonpos.mpr h)
    have e2 : q - v ≤ lam * (q - v) := by
      have := mul_le_mul_of_nonpos_right h1 (sub_nonpos.mpr h)
      linarith
    exact ⟨min_le_of_left_le (by linarith), le_max_of_le_right (by linarith)⟩

/-- Translation sweep of a value `q ∈ [c - w, c + w]` by `λ a`, `λ ∈ [0,1]`: the result lies in
the union box of the interval and its translate (cylinder: bottom and top circle). -/
theorem prism_between (c a w q lam : α) (hl : c - w ≤ q) (hh : q ≤ c + w) (h0 : 0 ≤ lam)
    (h1 : lam ≤ 1) :
    min (c - w) (c + a - w) ≤ q + lam * a ∧ q + lam * a ≤ max (c + w) (c + a + w) := by
  rcases le_total 0 a with h | h
  · have e1 := mul_nonneg h0 h
    have e2 := mul_le_of_le_one_left h h1
    exact ⟨min_le_of_left_le (by linarith), le_max_of_le_right (by linarith)⟩
  · have e1 : lam * a ≤ 0 := mul_nonpos_of_nonneg_of_nonpos h0 h
    have e2 : a ≤ lam * a := by
      have := mul_le_mul_of_nonpos_right h1 h
      linarith
    exact ⟨min_le_of_right_le (by linarith), le_max_of_le_left (by linarith)⟩

end Lbg.Lemmas
