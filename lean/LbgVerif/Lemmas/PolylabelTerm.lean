/-
  Lemmas.PolylabelTerm — termination of the polylabel search of `Model/PolyDistance.lean`:
  a cell whose half diagonal `h·√2` is at most the tolerance is never split, the half size
  halves with every split, so a cell with `h·√2 ≤ tol·2^r` generates at most
  `wt r = (4^(r+1) − 1)/3` iterations of the loop.
-/
import LbgVerif.Lemmas.Polylabel
import Mathlib.Data.Nat.Find

set_option linter.unusedSectionVars false
set_option linter.unusedSimpArgs false
set_option linter.unusedVariables false

namespace Lbg.Lemmas
open Lbg Lbg.Gen Lbg.Model.PointInside Lbg.Model.PolyDistance
variable {α : Type} [Field α] [LinearOrder α] [IsStrictOrderedRing α]

/-- Number of nodes of a complete quadtree of depth `r`: `(4^(r+1) − 1)/3`. -/
def wt : ℕ → ℕ
  | 0 => 1
  | r + 1 => 1 + 4 * wt r

theorem wt_pos (r : ℕ) : 1 ≤ wt r := by cases r <;> simp [wt]

theorem wt_mono {r s : ℕ} (h : r ≤ s) : wt r ≤ wt s := by
  induction h with
  | refl => exact le_rfl
  | step _ ih => exact le_trans ih (by simp only [wt]; omega)

theorem wt_closed (r : ℕ) : 3 * wt r + 1 = 4 ^ (r + 1) := by
  induction r with
  | zero => simp [wt]
  | succ n ih => simp only [wt]; rw [pow_succ]; omega

section
variable (M : MathOps α) (tol : α)

/-- The half diagonal of a cell of half size `h` is at most `tol·2^r`. -/
def Small (h : α) (r : ℕ) : Prop := h * M.sqrt 2 ≤ tol * 2 ^ r

open Classical in
/-- Least `r` with `Small h r` (0 when there is none). -/
noncomputable def rank (h : α) : ℕ :=
  if H : ∃ r, Small M tol h r then Nat.find H else 0

open Classical in
theorem rank_le (h : α) (r : ℕ) (hs : Small M tol h r) : rank M tol h ≤ r := by
  unfold rank
  rw [dif_pos ⟨r, hs⟩]
  exact Nat.find_min' _ hs

open Classical in
theorem rank_spec (h : α) (H : ∃ r, Small M tol h r) : Small M tol h (rank M tol h) := by
  unfold rank
  rw [dif_pos H]
  exact Nat.find_spec H

theorem small_half (h : α) (r : ℕ) (hs : Small M tol h (r + 1)) : Small M tol (h / 2) r := by
  unfold Small at hs ⊢
  rw [pow_succ] at hs
  have : h / 2 * M.sqrt 2 = (h * M.sqrt 2) / 2 := by ring
  rw [this, div_le_iff₀ (by norm_num : (0 : α) < 2)]
  linarith

theorem rank_half (h : α) (H : ∃ r, Small M tol h r) (hr : 1 ≤ rank M tol h) :
    rank M tol (h / 2) + 1 ≤ rank M tol h ∧ ∃ r, Small M tol (h / 2) r := by
  obtain ⟨k, hk⟩ : ∃ k, rank M tol h = k + 1 := ⟨rank M tol h - 1, by omega⟩
  have hs := rank_spec M tol h H
  rw [hk] at hs
  have h2 := small_half M tol h k hs
  exact ⟨by rw [hk]; exact Nat.succ_le_succ (rank_le M tol _ k h2), ⟨k, h2⟩⟩

/-- The measure: every queued cell is charged the size of its complete quadtree. -/
noncomputable def mu (q : List (Cell α)) : ℕ := (q.map (fun c => wt (rank M tol c.h))).sum

theorem mu_qInsert (c : Cell α) (q : List (Cell α)) :
    mu M tol (qInsert c q) = wt (rank M tol c.h) + mu M tol q := by
  induction q with
  | nil => simp [qInsert, mu]
  | cons a t ih =>
    simp only [qInsert]
    split_ifs
    · simp only [mu, List.map_cons, List.sum_cons] at ih ⊢
      omega
    · simp only [mu, List.map_cons, List.sum_cons]

theorem mu_foldl_qInsert (l q : List (Cell α)) :
    mu M tol (l.foldl (fun q c => qInsert c q) q) = mu M tol l + mu M tol q := by
  induction l generalizing q with
  | nil => simp [mu]
  | cons a t ih =>
    rw [List.foldl_cons, ih, mu_qInsert]
    simp only [mu, List.map_cons, List.sum_cons]
    omega

theorem mu_le (q : List (Cell α)) (R : ℕ) (h : ∀ c ∈ q, Small M tol c.h R) :
    mu M tol q ≤ q.length * wt R := by
  induction q with
  | nil => simp [mu]
  | cons a t ih =>
    have h1 := wt_mono (rank_le M tol a.h R (h a List.mem_cons_self))
    have h2 := ih (fun c hc => h c (List.mem_cons_of_mem _ hc))
    simp only [mu, List.map_cons, List.sum_cons, List.length_cons] at h2 ⊢
    have : (t.length + 1) * wt R = t.length * wt R + wt R := by ring
    omega

/-- Invariant for termination: queued cells are constructor-made and have a finite rank. -/
def TermInv (vs : List (V2 α)) (st : PState α) : Prop :=
  ∀ c ∈ st.queue, CellOK M vs c ∧ ∃ r, Small M tol c.h r

theorem step_term (vs : List (V2 α)) (st st' : PState α)
    (h : step M vs tol st = some st') (hinv : TermInv M tol vs st) :
    TermInv M tol vs st' ∧ mu M tol st'.queue + 1 ≤ mu M tol st.queue := by
  cases hq : st.queue with
  | nil => simp [step, hq] at h
  | cons cell rest =>
    obtain ⟨hcell, hfin⟩ := hinv cell (by rw [hq]; exact List.mem_cons_self)
    have hrest : ∀ c ∈ rest, CellOK M vs c ∧ ∃ r, Small M tol c.h r :=
      fun c hc => hinv c (by rw [hq]; exact List.mem_cons_of_mem _ hc)
    obtain ⟨best, hbdef⟩ : ∃ b, b = (if cell.d > st.best.d then cell else st.best) := ⟨_, rfl⟩
    have hb2 : cell.d ≤ best.d := by
      rw [hbdef]; split_ifs with hgt
      · exact le_rfl
      · exact not_lt.mp hgt
    simp only [step, hq] at h
    rw [← hbdef] at h
    have hmu : mu M tol (cell :: rest) = wt (rank M tol cell.h) + mu M tol rest := by
      simp only [mu, List.map_cons, List.sum_cons]
    split_ifs at h with hprune
    · simp only [Option.some.injEq] at h
      subst h
      refine ⟨hrest, ?_⟩
      simp only []
      rw [hmu]
      have := wt_pos (rank M tol cell.h)
      omega
    · simp only [Option.some.injEq] at h
      subst h
      have hr : 1 ≤ rank M tol cell.h := by
        by_contra hn
        have h0 : rank M tol cell.h = 0 := by omega
        have hs := rank_spec M tol cell.h hfin
        rw [h0] at hs
        unfold Small at hs
        apply hprune
        rw [hcell.max_eq]
        simp only [pow_zero, mul_one] at hs
        linarith
      obtain ⟨hlt, hfin'⟩ := rank_half M tol cell.h hfin hr
      have hh : 0 ≤ cell.h / 2 := by have := hcell.2; linarith
      constructor
      · intro c hc
        simp only [mem_qInsert] at hc
        rcases hc with rfl | rfl | rfl | rfl | hc
        · exact ⟨cellOK_mkCell M vs _ _ _ hh, hfin'⟩
        · exact ⟨cellOK_mkCell M vs _ _ _ hh, hfin'⟩
        · exact ⟨cellOK_mkCell M vs _ _ _ hh, hfin'⟩
        · exact ⟨cellOK_mkCell M vs _ _ _ hh, hfin'⟩
        · exact hrest c hc
      · simp only [mu_qInsert, mkCell]
        rw [hmu]
        obtain ⟨k, hk⟩ : ∃ k, rank M tol cell.h = k + 1 := ⟨rank M tol cell.h - 1, by omega⟩
        have hw := wt_mono (show rank M tol (cell.h / 2) ≤ k by omega)
        rw [hk]
        simp only [wt]
        omega

/-- With fuel at least the measure of the queue the loop runs until the queue is empty. -/
theorem run_term (vs : List (V2 α)) : ∀ (fuel : Nat) (st : PState α),
    TermInv M tol vs st → mu M tol st.queue ≤ fuel → (run M vs tol fuel st).queue = [] := by
  intro fuel
  induction fuel with
  | zero =>
    intro st _ hmu
    simp only [run]
    cases hq : st.queue with
    | nil => rfl
    | cons c t =>
      rw [hq] at hmu
      simp only [mu, List.map_cons, List.sum_cons] at hmu
      have := wt_pos (rank M tol c.h)
      omega
  | succ n ih =>
    intro st hinv hmu
    simp only [run]
    cases hs : step M vs tol st with
    | none =>
      simp only []
      cases hq : st.queue with
      | nil => rfl
      | cons c t => simp [step, hq] at hs; split_ifs at hs
    | some st' =>
      obtain ⟨h1, h2⟩ := step_term M tol vs st st' hs hinv
      exact ih st' h1 (by omega)

end

end Lbg.Lemmas
