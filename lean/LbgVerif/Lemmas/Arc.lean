/-
  Lemmas.Arc — closed-form models of the 2D arc kernels (`arc2_pt_in`, `arc2_a_from_pt`,
  `intersect_line2d_arc2d_*`, `intersect_line2d_infinite_arc2d_*`, `arc2_closest_point`) and
  their properties.  Trigonometry stays abstract (`M.acos`, `M.sqrt`, `M.pi`).
-/
import LbgVerif.Gen.Arc
import LbgVerif.Lemmas.Isect2
import LbgVerif.Lemmas.Isect3
import LbgVerif.Lemmas.Closest
import Mathlib.Tactic.Ring
import Mathlib.Tactic.FieldSimp
import Mathlib.Tactic.Linarith
import Mathlib.Tactic.Positivity
import Mathlib.Tactic.SplitIfs
import Mathlib.Tactic.LinearCombination
import Mathlib.Tactic.NormNum

set_option linter.unusedSectionVars false
set_option linter.unusedSimpArgs false
set_option linter.unusedTactic false
set_option linter.unreachableTactic false
set_option linter.unnecessarySeqFocus false

namespace Lbg.Lemmas
open Lbg Lbg.Gen
variable {α : Type} [Field α] [LinearOrder α] [IsStrictOrderedRing α]

/-! ### The angular filter -/

/-- `Vector2D(1,0).angle_counterclockwise((x,y))` as computed by the library. -/
@[reducible] def angOf (M : MathOps α) (x y : α) : α :=
  if ¬ ((1 : α) * y - 0 * x < 0) then
    M.acos ((1 * x + 0 * y) / (M.sqrt 1 * M.sqrt (x * x + y * y)))
  else 2 * M.pi - M.acos ((1 * x + 0 * y) / (M.sqrt 1 * M.sqrt (x * x + y * y)))

theorem angOf_unfold (M : MathOps α) (x y : α) :
    angOf M x y = if ¬ ((1 : α) * y - 0 * x < 0) then
      M.acos ((1 * x + 0 * y) / (M.sqrt 1 * M.sqrt (x * x + y * y)))
    else 2 * M.pi - M.acos ((1 * x + 0 * y) / (M.sqrt 1 * M.sqrt (x * x + y * y))) := rfl

/-- The open counter-clockwise span from `a1` to `a2` (non-circle part of `_pt_in`). -/
def spanNC (a : Arc2S α) (ang : α) : Prop :=
  (¬ a.a2 < a.a1 ∧ a.a1 < ang ∧ ang < a.a2) ∨ (a.a2 < a.a1 ∧ (a.a1 < ang ∨ ang < a.a2))

instance (a : Arc2S α) (ang : α) : Decidable (spanNC a ang) := by
  unfold spanNC; infer_instance

/-- `is_circle`. -/
def isCirc (M : MathOps α) (a : Arc2S α) : Prop := a.a1 = 0 ∧ a.a2 = 2 * M.pi

instance (M : MathOps α) (a : Arc2S α) : Decidable (isCirc M a) := by
  unfold isCirc; infer_instance

/-- The full filter `Arc2D._pt_in` on an angle. -/
def arcSpan (M : MathOps α) (a : Arc2S α) (ang : α) : Prop := isCirc M a ∨ spanNC a ang

instance (M : MathOps α) (a : Arc2S α) (ang : α) : Decidable (arcSpan M a ang) := by
  unfold arcSpan; infer_instance

/-- The nested-`if` chain the translator emits for the non-circle part of the filter. -/
theorem chainNC {β : Type} (a : Arc2S α) (ang : α) (X Y : β) :
    (if a.a2 < a.a1 then (if a.a1 < ang then X else if ang < a.a2 then X else Y)
      else (if a.a1 < ang then (if ang < a.a2 then X else Y) else Y))
      = if spanNC a ang then X else Y := by
  unfold spanNC
  split_ifs <;> simp_all [not_le_of_gt, not_lt_of_ge]

/-- Generic `if` chains emitted by the translator for `p or q` and `p and q`. -/
theorem ite_or_chain {β : Type} {p q : Prop} [Decidable p] [Decidable q] (X Y : β) :
    (if p then X else if q then X else Y) = if p ∨ q then X else Y := by
  split_ifs <;> simp_all

theorem ite_and_chain {β : Type} {p q : Prop} [Decidable p] [Decidable q] (X Y : β) :
    (if p then (if q then X else Y) else Y) = if p ∧ q then X else Y := by
  split_ifs <;> simp_all

/-- Angle of the point `q` about the arc centre. -/
def angPt (M : MathOps α) (a : Arc2S α) (q : V2 α) : α := angOf M (q.x - a.c.x) (q.y - a.c.y)

theorem arc2_a_from_pt_eq (M : MathOps α) (a : Arc2S α) (q : V2 α) :
    arc2_a_from_pt M a q = angPt M a q := rfl

theorem arc2_pt_in_eq (M : MathOps α) (a : Arc2S α) (q : V2 α) :
    arc2_pt_in M a q = decide (arcSpan M a (angPt M a q)) := by
  unfold arc2_pt_in
  simp only [← angOf_unfold]
  apply decide_eq_decide.mpr
  unfold arcSpan isCirc spanNC angPt
  by_cases hC : a.a1 = 0 ∧ a.a2 = 2 * M.pi
  · simp only [hC, true_or, and_self]
  · simp only [hC, false_or, not_false_eq_true, true_and]

/-! ### Line / arc -/

/-- Quadratic coefficients for line × circle. -/
@[reducible] def arcA (l : LR2 α) : α := l.v.x * l.v.x + l.v.y * l.v.y
@[reducible] def arcB (l : LR2 α) (a : Arc2S α) : α :=
  2 * (l.v.x * (l.p.x - a.c.x) + l.v.y * (l.p.y - a.c.y))
@[reducible] def arcC (l : LR2 α) (a : Arc2S α) : α :=
  a.c.x * a.c.x + a.c.y * a.c.y + (l.p.x * l.p.x + l.p.y * l.p.y)
    - 2 * (a.c.x * l.p.x + a.c.y * l.p.y) - a.r * a.r
@[reducible] def arcDisc (l : LR2 α) (a : Arc2S α) : α := arcB l a * arcB l a - 4 * arcA l * arcC l a
@[reducible] def arcR1 (M : MathOps α) (l : LR2 α) (a : Arc2S α) : α :=
  (-(arcB l a) + M.sqrt (arcDisc l a)) / (2 * arcA l)
@[reducible] def arcR2 (M : MathOps α) (l : LR2 α) (a : Arc2S α) : α :=
  (-(arcB l a) - M.sqrt (arcDisc l a)) / (2 * arcA l)

/-- The filter applied to the point `l.p + t·l.v`. -/
def arcOk (M : MathOps α) (l : LR2 α) (a : Arc2S α) (t : α) : Prop :=
  arcSpan M a (angOf M (l.p.x + t * l.v.x - a.c.x) (l.p.y + t * l.v.y - a.c.y))

instance (M : MathOps α) (l : LR2 α) (a : Arc2S α) (t : α) : Decidable (arcOk M l a t) := by
  unfold arcOk; infer_instance

/-- Model of `intersect_line2d_arc2d_*` / `intersect_line2d_infinite_arc2d_*`: each crossing is kept
when its parameter is in range and the point passes the angular filter (a tangent crossing is
listed once). -/
def arcPts (k : Rng) (M : MathOps α) (l : LR2 α) (a : Arc2S α) : List (V2 α) :=
  if arcDisc l a < 0 then []
  else if arcR1 M l a = arcR2 M l a then
    (if k.ok (arcR1 M l a) ∧ arcOk M l a (arcR1 M l a) then [at2 l (arcR1 M l a)] else [])
  else
    (if k.ok (arcR1 M l a) ∧ arcOk M l a (arcR1 M l a) then [at2 l (arcR1 M l a)] else [])
      ++ (if k.ok (arcR2 M l a) ∧ arcOk M l a (arcR2 M l a) then [at2 l (arcR2 M l a)] else [])

theorem arcDisc_unfold (l : LR2 α) (a : Arc2S α) :
    arcDisc l a = 2 * (l.v.x * (l.p.x - a.c.x) + l.v.y * (l.p.y - a.c.y)) *
        (2 * (l.v.x * (l.p.x - a.c.x) + l.v.y * (l.p.y - a.c.y))) -
      4 * (l.v.x * l.v.x + l.v.y * l.v.y) *
        (a.c.x * a.c.x + a.c.y * a.c.y + (l.p.x * l.p.x + l.p.y * l.p.y)
          - 2 * (a.c.x * l.p.x + a.c.y * l.p.y) - a.r * a.r) := rfl

theorem arcR1_unfold (M : MathOps α) (l : LR2 α) (a : Arc2S α) :
    arcR1 M l a = (-(2 * (l.v.x * (l.p.x - a.c.x) + l.v.y * (l.p.y - a.c.y))) +
      M.sqrt (2 * (l.v.x * (l.p.x - a.c.x) + l.v.y * (l.p.y - a.c.y)) *
        (2 * (l.v.x * (l.p.x - a.c.x) + l.v.y * (l.p.y - a.c.y))) -
      4 * (l.v.x * l.v.x + l.v.y * l.v.y) *
        (a.c.x * a.c.x + a.c.y * a.c.y + (l.p.x * l.p.x + l.p.y * l.p.y)
          - 2 * (a.c.x * l.p.x + a.c.y * l.p.y) - a.r * a.r))) /
      (2 * (l.v.x * l.v.x + l.v.y * l.v.y)) := rfl

theorem arcR2_unfold (M : MathOps α) (l : LR2 α) (a : Arc2S α) :
    arcR2 M l a = (-(2 * (l.v.x * (l.p.x - a.c.x) + l.v.y * (l.p.y - a.c.y))) -
      M.sqrt (2 * (l.v.x * (l.p.x - a.c.x) + l.v.y * (l.p.y - a.c.y)) *
        (2 * (l.v.x * (l.p.x - a.c.x) + l.v.y * (l.p.y - a.c.y))) -
      4 * (l.v.x * l.v.x + l.v.y * l.v.y) *
        (a.c.x * a.c.x + a.c.y * a.c.y + (l.p.x * l.p.x + l.p.y * l.p.y)
          - 2 * (a.c.x * l.p.x + a.c.y * l.p.y) - a.r * a.r))) /
      (2 * (l.v.x * l.v.x + l.v.y * l.v.y)) := rfl

/-! Compact forms of the filter chains emitted by the translator. -/

theorem filter1 {β : Type} (C I P Q : Prop) [Decidable C] [Decidable I] [Decidable P] [Decidable Q]
    (x : β) :
    (if C then [x] else if I then (if P ∨ Q then [x] else []) else (if P ∧ Q then [x] else []))
      = if C ∨ (¬ I ∧ P ∧ Q) ∨ (I ∧ (P ∨ Q)) then [x] else [] := by
  by_cases C <;> by_cases I <;> by_cases P <;> by_cases Q <;> simp [*]

theorem filter2 {β : Type} (C I P1 Q1 P2 Q2 : Prop) [Decidable C] [Decidable I] [Decidable P1]
    [Decidable Q1] [Decidable P2] [Decidable Q2] (x y : β) :
    (if C then [x, y]
      else if I then
        (if P1 ∨ Q1 then (if P2 ∨ Q2 then [x, y] else [x]) else (if P2 ∨ Q2 then [y] else []))
      else
        (if P1 ∧ Q1 then (if P2 ∧ Q2 then [x, y] else [x]) else (if P2 ∧ Q2 then [y] else [])))
      = (if C ∨ (¬ I ∧ P1 ∧ Q1) ∨ (I ∧ (P1 ∨ Q1)) then [x] else [])
        ++ (if C ∨ (¬ I ∧ P2 ∧ Q2) ∨ (I ∧ (P2 ∨ Q2)) then [y] else []) := by
  by_cases C <;> by_cases I <;> by_cases P1 <;> by_cases Q1 <;> by_cases P2 <;> by_cases Q2 <;>
    simp [*]


theorem intersect_line2d_infinite_arc2d_s_eq (M : MathOps α) (l : LR2 α) (a : Arc2S α) :
    intersect_line2d_infinite_arc2d_s M l a = arcPts .line M l a := by
  unfold intersect_line2d_infinite_arc2d_s
  simp only [← angOf_unfold]
  simp only [← arcR1_unfold, ← arcR2_unfold]
  simp only [← arcDisc_unfold]
  simp only [ite_or_chain, ite_and_chain]
  simp only [filter1, filter2]
  simp only [arcPts, arcOk, arcSpan, isCirc, spanNC, Rng.ok, at2, ← not_lt, true_and] <;>
  (by_cases hT : arcR1 M l a = arcR2 M l a <;>
    simp only [hT, not_true_eq_false, not_false_eq_true, false_and, true_and, and_true,
      and_false, or_true, true_or, or_false, false_or, or_self, and_self, ↓reduceIte,
      List.append_nil, List.nil_append])

theorem intersect_line2d_infinite_arc2d_r_eq (M : MathOps α) (l : LR2 α) (a : Arc2S α) :
    intersect_line2d_infinite_arc2d_r M l a = arcPts .line M l a := by
  unfold intersect_line2d_infinite_arc2d_r
  simp only [← angOf_unfold]
  simp only [← arcR1_unfold, ← arcR2_unfold]
  simp only [← arcDisc_unfold]
  simp only [ite_or_chain, ite_and_chain]
  simp only [filter1, filter2]
  simp only [arcPts, arcOk, arcSpan, isCirc, spanNC, Rng.ok, at2, ← not_lt, true_and] <;>
  (by_cases hT : arcR1 M l a = arcR2 M l a <;>
    simp only [hT, not_true_eq_false, not_false_eq_true, false_and, true_and, and_true,
      and_false, or_true, true_or, or_false, false_or, or_self, and_self, ↓reduceIte,
      List.append_nil, List.nil_append])

theorem intersect_line2d_arc2d_r_eq (M : MathOps α) (l : LR2 α) (a : Arc2S α) :
    intersect_line2d_arc2d_r M l a = arcPts .ray M l a := by
  unfold intersect_line2d_arc2d_r
  simp only [← angOf_unfold]
  simp only [← arcR1_unfold, ← arcR2_unfold]
  simp only [← arcDisc_unfold]
  simp only [ite_or_chain, ite_and_chain]
  simp only [filter1, filter2]
  simp only [arcPts, arcOk, arcSpan, isCirc, spanNC, Rng.ok, at2, ← not_lt, true_and] <;>
  (by_cases hA : arcR1 M l a < 0 <;> by_cases hB : arcR2 M l a < 0 <;> by_cases hT : arcR1 M l a = arcR2 M l a <;>
    simp only [hA, hB, hT, not_true_eq_false, not_false_eq_true, false_and, true_and, and_true,
      and_false, or_true, true_or, or_false, false_or, or_self, and_self, ↓reduceIte,
      List.append_nil, List.nil_append])

theorem intersect_line2d_arc2d_s_eq (M : MathOps α) (l : LR2 α) (a : Arc2S α) :
    intersect_line2d_arc2d_s M l a = arcPts .seg M l a := by
  unfold intersect_line2d_arc2d_s
  simp only [← angOf_unfold]
  simp only [← arcR1_unfold, ← arcR2_unfold]
  simp only [← arcDisc_unfold]
  simp only [ite_or_chain, ite_and_chain]
  simp only [filter1, filter2]
  simp only [arcPts, arcOk, arcSpan, isCirc, spanNC, Rng.ok, at2, ← not_lt, true_and] <;>
  (by_cases hA : arcR1 M l a < 0 <;> by_cases hA' : 1 < arcR1 M l a <;> by_cases hB : arcR2 M l a < 0 <;> by_cases hB' : 1 < arcR2 M l a <;> by_cases hT : arcR1 M l a = arcR2 M l a <;>
    simp only [hA, hA', hB, hB', hT, not_true_eq_false, not_false_eq_true, false_and, true_and, and_true,
      and_false, or_true, true_or, or_false, false_or, or_self, and_self, ↓reduceIte,
      List.append_nil, List.nil_append])

/-! ### Properties of the line / arc model -/

/-- Circle equation `|q − c|² = r²`, spelled out. -/
def onCirc (a : Arc2S α) (q : V2 α) : Prop :=
  (q.x - a.c.x) * (q.x - a.c.x) + (q.y - a.c.y) * (q.y - a.c.y) = a.r * a.r

theorem circle_quadratic (l : LR2 α) (a : Arc2S α) (t : α) :
    ((at2 l t).x - a.c.x) * ((at2 l t).x - a.c.x) + ((at2 l t).y - a.c.y) * ((at2 l t).y - a.c.y)
      - a.r * a.r = arcA l * (t * t) + arcB l a * t + arcC l a := by
  simp only [at2, arcA, arcB, arcC]; ring

theorem onCirc_at2_iff (l : LR2 α) (a : Arc2S α) (t : α) :
    onCirc a (at2 l t) ↔ arcA l * (t * t) + arcB l a * t + arcC l a = 0 := by
  rw [← circle_quadratic, onCirc, sub_eq_zero]

theorem arcOk_iff_pt_in (M : MathOps α) (l : LR2 α) (a : Arc2S α) (t : α) :
    arcOk M l a t ↔ arc2_pt_in M a (at2 l t) = true := by
  rw [arc2_pt_in_eq, decide_eq_true_eq]; rfl

/-- Every listed point is `l.p + t·l.v` for a closed-form root `t` that is within range and passes
the angular filter. -/
theorem mem_arcPts (k : Rng) (M : MathOps α) (l : LR2 α) (a : Arc2S α) (q : V2 α)
    (h : q ∈ arcPts k M l a) :
    0 ≤ arcDisc l a ∧ ∃ t, (t = arcR1 M l a ∨ t = arcR2 M l a) ∧ q = at2 l t ∧ arcOk M l a t ∧
      k.ok t := by
  unfold arcPts at h
  by_cases h1 : arcDisc l a < 0
  · rw [if_pos h1] at h; simp at h
  rw [if_neg h1] at h
  refine ⟨not_lt.mp h1, ?_⟩
  by_cases h2 : arcR1 M l a = arcR2 M l a
  · rw [if_pos h2] at h
    by_cases h3 : k.ok (arcR1 M l a) ∧ arcOk M l a (arcR1 M l a)
    · rw [if_pos h3] at h
      simp only [List.mem_singleton] at h
      exact ⟨_, Or.inl rfl, h, h3.2, h3.1⟩
    · rw [if_neg h3] at h; simp at h
  · rw [if_neg h2] at h
    rcases List.mem_append.mp h with h' | h'
    · by_cases h4 : k.ok (arcR1 M l a) ∧ arcOk M l a (arcR1 M l a)
      · rw [if_pos h4] at h'
        simp only [List.mem_singleton] at h'
        exact ⟨_, Or.inl rfl, h', h4.2, h4.1⟩
      · rw [if_neg h4] at h'; simp at h'
    · by_cases h4 : k.ok (arcR2 M l a) ∧ arcOk M l a (arcR2 M l a)
      · rw [if_pos h4] at h'
        simp only [List.mem_singleton] at h'
        exact ⟨_, Or.inr rfl, h', h4.2, h4.1⟩
      · rw [if_neg h4] at h'; simp at h'

/-- With the square-root law and `v ≠ 0`, the two closed-form roots coincide iff the discriminant
vanishes (tangency). -/
theorem arc_roots_eq_iff (M : MathOps α) (l : LR2 α) (a : Arc2S α) (ha : arcA l ≠ 0)
    (hs : M.sqrt (arcDisc l a) * M.sqrt (arcDisc l a) = arcDisc l a) :
    arcR1 M l a = arcR2 M l a ↔ arcDisc l a = 0 := by
  have h2a : (2 : α) * arcA l ≠ 0 := mul_ne_zero two_ne_zero ha
  constructor
  · intro h
    have h' := (div_left_inj' h2a).mp h
    have : M.sqrt (arcDisc l a) = 0 := by linarith
    rw [this, mul_zero] at hs; exact hs.symm
  · intro h
    rw [h] at hs
    have : M.sqrt (arcDisc l a) = 0 := by rw [h]; exact mul_self_eq_zero.mp hs
    show (-(arcB l a) + M.sqrt (arcDisc l a)) / _ = (-(arcB l a) - M.sqrt (arcDisc l a)) / _
    rw [this, add_zero, sub_zero]

/-- Soundness of the model. -/
theorem arcPts_sound (k : Rng) (M : MathOps α) (l : LR2 α) (a : Arc2S α) (q : V2 α)
    (ha : arcA l ≠ 0)
    (hs : 0 ≤ arcDisc l a → M.sqrt (arcDisc l a) * M.sqrt (arcDisc l a) = arcDisc l a)
    (h : q ∈ arcPts k M l a) :
    onCirc a q ∧ k.On l q ∧ arc2_pt_in M a q = true := by
  obtain ⟨h0, t, ht, rfl, hok, hrng⟩ := mem_arcPts k M l a q h
  refine ⟨?_, (Rng.On_iff_at2 k l _).mpr ⟨t, hrng, rfl⟩, (arcOk_iff_pt_in M l a t).mp hok⟩
  rw [onCirc_at2_iff]
  exact (quadratic_root_iff _ _ _ _ _ ha (hs h0)).mpr ht

/-- Completeness of the model: every in-range crossing that passes the filter is listed. -/
theorem arcPts_complete (k : Rng) (M : MathOps α) (l : LR2 α) (a : Arc2S α)
    (ha : arcA l ≠ 0)
    (hs : 0 ≤ arcDisc l a → M.sqrt (arcDisc l a) * M.sqrt (arcDisc l a) = arcDisc l a)
    (t : α) (ht : k.ok t) (hc : onCirc a (at2 l t)) (hf : arc2_pt_in M a (at2 l t) = true) :
    at2 l t ∈ arcPts k M l a := by
  rw [onCirc_at2_iff] at hc
  have hok := (arcOk_iff_pt_in M l a t).mpr hf
  have h0 : 0 ≤ arcDisc l a := by
    have : arcDisc l a = (2 * arcA l * t + arcB l a) * (2 * arcA l * t + arcB l a) := by
      simp only [arcDisc]; linear_combination (-4 * arcA l) * hc
    rw [this]; exact mul_self_nonneg _
  have hr := (quadratic_root_iff _ _ _ _ _ ha (hs h0)).mp hc
  unfold arcPts
  rw [if_neg (not_lt.mpr h0)]
  by_cases h2 : arcR1 M l a = arcR2 M l a
  · rw [if_pos h2]
    have e : t = arcR1 M l a := by rcases hr with hr | hr; exact hr; exact hr.trans h2.symm
    subst e
    rw [if_pos ⟨ht, hok⟩]; simp
  · rw [if_neg h2]
    rcases hr with hr | hr
    · subst hr
      rw [if_pos ⟨ht, hok⟩]; simp
    · subst hr
      rw [if_pos (⟨ht, hok⟩ : k.ok (arcR2 M l a) ∧ arcOk M l a (arcR2 M l a))]; simp

/-! ### Closest point on an arc -/

theorem filterC {β : Type} (C I P Q : Prop) [Decidable C] [Decidable I] [Decidable P]
    [Decidable Q] (X E : β) :
    (if C then X else if I then (if P ∨ Q then X else E) else (if P ∧ Q then X else E))
      = if C ∨ (¬ I ∧ P ∧ Q) ∨ (I ∧ (P ∨ Q)) then X else E := by
  by_cases C <;> by_cases I <;> by_cases P <;> by_cases Q <;> simp [*]

/-- `|q − c|` as computed by the kernel. -/
@[reducible] def acD (M : MathOps α) (a : Arc2S α) (q : V2 α) : α :=
  M.sqrt ((q.x - a.c.x) * (q.x - a.c.x) + (q.y - a.c.y) * (q.y - a.c.y))
/-- Radial vector `normalize(q − c)·r`, x component (unnormalised when `|q − c| = 0`). -/
@[reducible] def acVx (M : MathOps α) (a : Arc2S α) (q : V2 α) : α :=
  (if acD M a q = 0 then q.x - a.c.x else (q.x - a.c.x) / acD M a q) * a.r
/-- Radial vector, y component. -/
@[reducible] def acVy (M : MathOps α) (a : Arc2S α) (q : V2 α) : α :=
  (if acD M a q = 0 then q.y - a.c.y else (q.y - a.c.y) / acD M a q) * a.r

theorem acD_unfold (M : MathOps α) (a : Arc2S α) (q : V2 α) :
    acD M a q = M.sqrt ((q.x - a.c.x) * (q.x - a.c.x) + (q.y - a.c.y) * (q.y - a.c.y)) := rfl
theorem acVx_unfold (M : MathOps α) (a : Arc2S α) (q : V2 α) :
    acVx M a q = (if acD M a q = 0 then q.x - a.c.x else (q.x - a.c.x) / acD M a q) * a.r := rfl
theorem acVy_unfold (M : MathOps α) (a : Arc2S α) (q : V2 α) :
    acVy M a q = (if acD M a q = 0 then q.y - a.c.y else (q.y - a.c.y) / acD M a q) * a.r := rfl

/-- The radial candidate `c + normalize(q − c)·r`. -/
def acRad (M : MathOps α) (a : Arc2S α) (q : V2 α) : V2 α :=
  ⟨a.c.x + acVx M a q, a.c.y + acVy M a q⟩

/-- The nearer end point (ties to `p1`), compared through `math.sqrt` as the code does. -/
def acEnd (M : MathOps α) (a : Arc2S α) (q : V2 α) : V2 α :=
  if M.sqrt ((a.c.x + a.cos_a2 * a.r - q.x) * (a.c.x + a.cos_a2 * a.r - q.x)
        + (a.c.y + a.sin_a2 * a.r - q.y) * (a.c.y + a.sin_a2 * a.r - q.y))
      < M.sqrt ((a.c.x + a.cos_a1 * a.r - q.x) * (a.c.x + a.cos_a1 * a.r - q.x)
        + (a.c.y + a.sin_a1 * a.r - q.y) * (a.c.y + a.sin_a1 * a.r - q.y))
  then ⟨a.c.x + a.cos_a2 * a.r, a.c.y + a.sin_a2 * a.r⟩
  else ⟨a.c.x + a.cos_a1 * a.r, a.c.y + a.sin_a1 * a.r⟩

/-- Model of `arc2_closest_point`. -/
def arcClosest (M : MathOps α) (a : Arc2S α) (q : V2 α) : V2 α :=
  if arcSpan M a (angOf M (acVx M a q) (acVy M a q)) then acRad M a q else acEnd M a q

theorem arc2_closest_point_eq (M : MathOps α) (a : Arc2S α) (q : V2 α) :
    arc2_closest_point M a q = arcClosest M a q := by
  unfold arc2_closest_point
  simp only [← angOf_unfold]
  simp only [← acD_unfold]
  simp only [← acVx_unfold, ← acVy_unfold]
  simp only [ite_or_chain, ite_and_chain]
  simp only [filterC]
  simp only [arcClosest, arcSpan, isCirc, spanNC, acRad, acEnd]
  rfl

/-- The radial candidate without the zero-length guard. -/
def acRad' (M : MathOps α) (a : Arc2S α) (q : V2 α) : V2 α :=
  ⟨a.c.x + (q.x - a.c.x) / acD M a q * a.r, a.c.y + (q.y - a.c.y) / acD M a q * a.r⟩

theorem acRad_eq (M : MathOps α) (a : Arc2S α) (q : V2 α) (hd0 : acD M a q ≠ 0) :
    acRad M a q = acRad' M a q := by
  simp only [acRad, acRad', acVx, acVy, if_neg hd0]

/-- The code's angular test on the radial vector is `_pt_in` of the radial candidate. -/
theorem arcClosest_filter_iff (M : MathOps α) (a : Arc2S α) (q : V2 α) :
    arcSpan M a (angOf M (acVx M a q) (acVy M a q)) ↔ arc2_pt_in M a (acRad M a q) = true := by
  rw [arc2_pt_in_eq, decide_eq_true_eq]
  simp only [angPt, acRad, add_sub_cancel_left]

theorem arcClosest_of_in (M : MathOps α) (a : Arc2S α) (q : V2 α)
    (h : arc2_pt_in M a (acRad M a q) = true) : arcClosest M a q = acRad M a q := by
  unfold arcClosest; rw [if_pos ((arcClosest_filter_iff M a q).mpr h)]

theorem arcClosest_of_not_in (M : MathOps α) (a : Arc2S α) (q : V2 α)
    (h : ¬ arc2_pt_in M a (acRad M a q) = true) : arcClosest M a q = acEnd M a q := by
  unfold arcClosest; rw [if_neg (fun h' => h ((arcClosest_filter_iff M a q).mp h'))]

theorem arcClosest_of_circle (M : MathOps α) (a : Arc2S α) (q : V2 α) (hc : isCirc M a) :
    arcClosest M a q = acRad M a q := by
  unfold arcClosest
  rw [if_pos (show arcSpan M a (angOf M (acVx M a q) (acVy M a q)) from Or.inl hc)]

/-- The radial candidate is on the circle (for `q ≠ c`). -/
theorem acRad_onCirc (M : MathOps α) (a : Arc2S α) (q : V2 α)
    (hd : acD M a q * acD M a q
      = (q.x - a.c.x) * (q.x - a.c.x) + (q.y - a.c.y) * (q.y - a.c.y))
    (hd0 : acD M a q ≠ 0) : onCirc a (acRad M a q) := by
  rw [acRad_eq M a q hd0]
  simp only [onCirc, acRad', add_sub_cancel_left]
  generalize acD M a q = d at hd hd0
  field_simp
  linear_combination (-(a.r * a.r)) * hd

/-- The end points are on the circle when the cached cosines/sines are consistent. -/
theorem acEnd_onCirc (M : MathOps α) (a : Arc2S α) (q : V2 α)
    (h1 : a.cos_a1 * a.cos_a1 + a.sin_a1 * a.sin_a1 = 1)
    (h2 : a.cos_a2 * a.cos_a2 + a.sin_a2 * a.sin_a2 = 1) : onCirc a (acEnd M a q) := by
  unfold acEnd
  split_ifs
  · simp only [onCirc, add_sub_cancel_left]; linear_combination (a.r * a.r) * h2
  · simp only [onCirc, add_sub_cancel_left]; linear_combination (a.r * a.r) * h1

/-- Squared distance from `q` to the radial candidate is `(|q − c| − r)²`. -/
theorem dsq2_acRad (M : MathOps α) (a : Arc2S α) (q : V2 α)
    (hd : acD M a q * acD M a q
      = (q.x - a.c.x) * (q.x - a.c.x) + (q.y - a.c.y) * (q.y - a.c.y)) :
    dsq2 q (acRad M a q) = (acD M a q - a.r) * (acD M a q - a.r)
      ∨ (acD M a q = 0 ∧ dsq2 q (acRad M a q) = 0) := by
  by_cases hd0 : acD M a q = 0
  · right
    refine ⟨hd0, ?_⟩
    rw [hd0, mul_zero] at hd
    have hx := mul_self_nonneg (q.x - a.c.x)
    have hy := mul_self_nonneg (q.y - a.c.y)
    have ex : q.x - a.c.x = 0 := mul_self_eq_zero.mp (by linarith)
    have ey : q.y - a.c.y = 0 := mul_self_eq_zero.mp (by linarith)
    simp only [dsq2, acRad, acVx, acVy, if_pos hd0, ex, ey]
    have e1 : q.x = a.c.x := sub_eq_zero.mp ex
    have e2 : q.y = a.c.y := sub_eq_zero.mp ey
    rw [e1, e2]; ring
  · left
    rw [acRad_eq M a q hd0]
    simp only [dsq2, acRad']
    generalize acD M a q = d at hd hd0
    field_simp
    linear_combination (-((d - a.r) * (d - a.r))) * hd

/-- Full circle: the radial candidate is a nearest point of the circle (`r ≥ 0`). -/
theorem acRad_min (M : MathOps α) (a : Arc2S α) (q x : V2 α)
    (hd : acD M a q * acD M a q
      = (q.x - a.c.x) * (q.x - a.c.x) + (q.y - a.c.y) * (q.y - a.c.y))
    (hdn : 0 ≤ acD M a q) (hr : 0 ≤ a.r) (hx : onCirc a x) :
    dsq2 q (acRad M a q) ≤ dsq2 q x := by
  rcases dsq2_acRad M a q hd with h | ⟨_, h⟩
  · rw [h]
    have hc := cauchy2 (q.x - a.c.x) (q.y - a.c.y) (x.x - a.c.x) (x.y - a.c.y)
    simp only [onCirc] at hx
    rw [← hd, hx] at hc
    have hle := le_mul_of_sq _ _ _ hdn hr hc
    simp only [dsq2]
    nlinarith
  · rw [h]; exact dsq2_nonneg _ _

/-- The chosen end point is the nearer one (squared distances, via the square-root laws). -/
theorem acEnd_nearer (M : MathOps α)
    (hsqrt : ∀ x, 0 ≤ x → M.sqrt x * M.sqrt x = x ∧ 0 ≤ M.sqrt x) (a : Arc2S α) (q : V2 α) :
    (acEnd M a q = arc2_p1 a ∨ acEnd M a q = arc2_p2 a) ∧
      dsq2 (acEnd M a q) q ≤ dsq2 (arc2_p1 a) q ∧ dsq2 (acEnd M a q) q ≤ dsq2 (arc2_p2 a) q ∧
      (dsq2 (arc2_p1 a) q ≤ dsq2 (arc2_p2 a) q → acEnd M a q = arc2_p1 a) := by
  have e1 : arc2_p1 a = ⟨a.c.x + a.cos_a1 * a.r, a.c.y + a.sin_a1 * a.r⟩ := rfl
  have e2 : arc2_p2 a = ⟨a.c.x + a.cos_a2 * a.r, a.c.y + a.sin_a2 * a.r⟩ := rfl
  rw [e1, e2]
  obtain ⟨s1, n1⟩ := hsqrt _ (dsq2_nonneg (⟨a.c.x + a.cos_a1 * a.r, a.c.y + a.sin_a1 * a.r⟩ : V2 α) q)
  obtain ⟨s2, n2⟩ := hsqrt _ (dsq2_nonneg (⟨a.c.x + a.cos_a2 * a.r, a.c.y + a.sin_a2 * a.r⟩ : V2 α) q)
  simp only [dsq2] at s1 s2 n1 n2 ⊢
  unfold acEnd
  split_ifs with h
  · refine ⟨Or.inr rfl, ?_, le_refl _, ?_⟩
    · nlinarith
    · intro hle; exfalso
      nlinarith
  · refine ⟨Or.inl rfl, le_refl _, ?_, fun _ => rfl⟩
    have := not_lt.mp h
    nlinarith

end Lbg.Lemmas
