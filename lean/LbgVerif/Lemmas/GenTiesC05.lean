/-
  Lemmas.GenTiesC05 — shape lemmas used by the ties `generated kernel = hand model` of
  `Props/C05g.lean` (ear clipping) and by the 2D/3D sibling ties of `Props/C16g.lean`.

  Part 1 (earcut): the Boolean / `if` shapes in which the translator emits the predicates of
  `triangulation.py` on rings of fixed size, against the shapes in which `Model/Earcut.lean`
  writes them.  All statements are about arbitrary field elements (the arithmetic expressions
  are abstracted away), so they do not depend on how the generated terms are spelled.

  Part 2 (siblings): folds over `vs.map embed` (`(x, y) ↦ (x, y, 0)`): the running
  minimum / maximum scan of `Base2DIn3D` / `Polyline3D` against the 2D scan, sums of mapped
  lists, `getD` / `zipIdx` of mapped lists.

  Independent of the generated kernels.
-/
import LbgVerif.Basic
import LbgVerif.Lemmas.Measure
import Mathlib.Order.Basic
import Mathlib.Data.List.Basic
import Mathlib.Tactic.SplitIfs
import Mathlib.Tactic.Ring
import Mathlib.Tactic.Linarith

set_option linter.unusedSectionVars false
set_option linter.unusedVariables false
set_option linter.unnecessarySeqFocus false
set_option linter.unusedTactic false
set_option linter.unreachableTactic false

namespace Lbg.Lemmas.GenTiesC05
open Lbg Lbg.Lemmas

/-! ## Part 1 — shapes of the earcut predicates -/

section earcut
variable {α : Type} [Field α] [LinearOrder α]

/-- `_locally_inside`: the hand model's `if area < 0 then … && … else … || …` against the
translator's single `decide` of `(c ∧ (¬ … ∧ ¬ …)) ∨ (¬ c ∧ (… ∨ …))` (`x >= 0` is emitted as
`¬ x < 0`). -/
theorem locallyInside_shape (A B C D E : α) :
    (if A < 0 then decide (0 ≤ B) && decide (0 ≤ C) else decide (D < 0) || decide (E < 0)) =
      decide ((A < 0 ∧ (¬ B < 0 ∧ ¬ C < 0)) ∨ (¬ A < 0 ∧ (D < 0 ∨ E < 0))) := by
  by_cases hA : A < 0 <;> simp [hA, not_lt]

/-- `_is_ear` on a triangle: `if area >= 0: return False; return True`. -/
theorem isEar3_shape (A : α) :
    (if 0 ≤ A then false else true) = (if A < 0 then true else false) := by
  by_cases hA : A < 0
  · simp [hA, not_le.mpr hA]
  · simp [hA, not_lt.mp hA]

/-- `_is_ear` on a quadrilateral: one pass of the `while p != ear.prev` loop.  `c1 c2 c3` are
the three orientation values of `_point_in_triangle`, `A2` the area at the tested node. -/
theorem isEar4_shape (A c1 c2 c3 A2 : α) :
    (if 0 ≤ A then false
      else if (decide ((¬ c1 < 0 ∧ ¬ c2 < 0) ∧ ¬ c3 < 0) && decide (0 ≤ A2)) = true then false
      else true) =
    (if A < 0 then
      if c1 < 0 then true else if c2 < 0 then true else if c3 < 0 then true
        else if A2 < 0 then true else false
     else false) := by
  by_cases hA : A < 0
  · rw [if_neg (not_le.mpr hA), if_pos hA]
    by_cases h1 : c1 < 0 <;> by_cases h2 : c2 < 0 <;> by_cases h3 : c3 < 0 <;>
      by_cases h4 : A2 < 0 <;> simp [h1, h2, h3, h4, not_le.mpr, not_lt.mp]
  · rw [if_pos (not_lt.mp hA), if_neg hA]

/-- One iteration of `_middle_inside` in the hand model: flip `inside` when the edge `p → n`
straddles the horizontal through `(px, py)` and lies to the right of it. -/
def midStepM (px py : α) (p n : V2 α) (inside : Bool) : Bool :=
  if (decide (py < p.y) != decide (py < n.y)) &&
      decide (px < (n.x - p.x) * (py - p.y) / (n.y - p.y) + p.x)
  then !inside else inside

/-- One iteration of `_middle_inside` the way the translator emits it: `inside = not inside`
under the condition `c` becomes `decide ((c ∧ ¬ inside) ∨ (¬ c ∧ inside))`, and
`(p.y > py) != (p.next.y > py)` becomes "not (both or neither)". -/
def midStepG (px py : α) (p n : V2 α) (inside : Bool) : Bool :=
  decide ((((¬ ((py < p.y ∧ py < n.y) ∨ (¬ py < p.y ∧ ¬ py < n.y))) ∧
      px < (n.x - p.x) * (py - p.y) / (n.y - p.y) + p.x) ∧ ¬ inside = true) ∨
    ((¬ ((¬ ((py < p.y ∧ py < n.y) ∨ (¬ py < p.y ∧ ¬ py < n.y))) ∧
      px < (n.x - p.x) * (py - p.y) / (n.y - p.y) + p.x)) ∧ inside = true))

/-- The first iteration (`inside = False`) as the translator emits it. -/
def midStepG0 (px py : α) (p n : V2 α) : Bool :=
  decide ((¬ ((py < p.y ∧ py < n.y) ∨ (¬ py < p.y ∧ ¬ py < n.y))) ∧
      px < (n.x - p.x) * (py - p.y) / (n.y - p.y) + p.x)

/-- Hand step = generated step. -/
theorem midStepM_eq_G (px py : α) (p n : V2 α) (inside : Bool) :
    midStepM px py p n inside = midStepG px py p n inside := by
  unfold midStepM midStepG
  by_cases h1 : py < p.y <;> by_cases h2 : py < n.y <;>
    by_cases h3 : px < (n.x - p.x) * (py - p.y) / (n.y - p.y) + p.x <;>
    cases inside <;> simp [h1, h2, h3]

/-- Hand step from `false` = generated first step. -/
theorem midStepM_false (px py : α) (p n : V2 α) :
    midStepM px py p n false = midStepG0 px py p n := by
  unfold midStepM midStepG0
  by_cases h1 : py < p.y <;> by_cases h2 : py < n.y <;>
    by_cases h3 : px < (n.x - p.x) * (py - p.y) / (n.y - p.y) + p.x <;> simp [h1, h2, h3]

/-- `_is_valid_diagonal` when the index tests are decided: `decide ((P ∧ Q) ∧ X)` against
`P && Q && X`. -/
theorem validDiagonal_shape (P Q : Prop) [Decidable P] [Decidable Q] (X : Bool) :
    decide ((P ∧ Q) ∧ X = true) = (decide P && decide Q && X) := by
  by_cases hP : P <;> by_cases hQ : Q <;> cases X <;> simp [hP, hQ]

/-- The update test of `_get_leftmost`, on bare points:
`p.x < best.x or (p.x == best.x and p.y < best.y)`. -/
def lexLt (p best : V2 α) : Prop := p.x < best.x ∨ (p.x = best.x ∧ p.y < best.y)

instance (p best : V2 α) : Decidable (lexLt p best) := by unfold lexLt; infer_instance

/-- A point is not lexicographically left of itself. -/
@[simp] theorem lexLt_self (p : V2 α) : ¬ lexLt p p := by
  simp [lexLt]

/-- The translator's rendering of `if a or (b and c)` as nested `if`s with duplicated
branches is the single `if` on the lexicographic test. -/
theorem ite_lex {β : Type} (p b : V2 α) (T F : β) :
    (if p.x < b.x then T else if p.x = b.x then (if p.y < b.y then T else F) else F) =
      if lexLt p b then T else F := by
  unfold lexLt
  by_cases h1 : p.x < b.x <;> by_cases h2 : p.x = b.x <;> by_cases h3 : p.y < b.y <;>
    simp [h1, h2, h3]

/-- `_get_leftmost` on a ring of three nodes: the running "first lexicographic minimum" scan of
the hand model (`(position, point)` pairs) picks what a decision tree on the same tests
picks. -/
theorem leftmost3_shape {β : Type} (f : Nat → β) (p0 p1 p2 : V2 α) :
    f (let s1 : Nat × V2 α := if lexLt p1 p0 then (1, p1) else (0, p0)
       let s2 : Nat × V2 α := if lexLt p2 s1.2 then (2, p2) else s1
       s2.1) =
    (if lexLt p1 p0 then (if lexLt p2 p1 then f 2 else f 1)
     else (if lexLt p2 p0 then f 2 else f 0)) := by
  by_cases h1 : lexLt p1 p0 <;> by_cases h2 : lexLt p2 p1 <;> by_cases h3 : lexLt p2 p0 <;>
    simp [h1, h2, h3]

/-- `_get_leftmost` on a ring of four nodes. -/
theorem leftmost4_shape {β : Type} (f : Nat → β) (p0 p1 p2 p3 : V2 α) :
    f (let s1 : Nat × V2 α := if lexLt p1 p0 then (1, p1) else (0, p0)
       let s2 : Nat × V2 α := if lexLt p2 s1.2 then (2, p2) else s1
       let s3 : Nat × V2 α := if lexLt p3 s2.2 then (3, p3) else s2
       s3.1) =
    (if lexLt p1 p0 then
      (if lexLt p2 p1 then (if lexLt p3 p2 then f 3 else f 2)
       else (if lexLt p3 p1 then f 3 else f 1))
     else
      (if lexLt p2 p0 then (if lexLt p3 p2 then f 3 else f 2)
       else (if lexLt p3 p0 then f 3 else f 0))) := by
  by_cases h1 : lexLt p1 p0 <;> by_cases h2 : lexLt p2 p1 <;> by_cases h3 : lexLt p2 p0 <;>
    by_cases h4 : lexLt p3 p2 <;> by_cases h5 : lexLt p3 p1 <;> by_cases h6 : lexLt p3 p0 <;>
    simp [h1, h2, h3, h4, h5, h6]

end earcut

/-! ## Part 2 — folds over embedded vertex lists (2D / 3D siblings) -/

section siblings
variable {α : Type} [Field α] [LinearOrder α]

/-- One iteration of `Base2DIn2D._calculate_min_max` (`if v.x < min: … elif v.x > max: …` on
both coordinates); state `(min.x, min.y, max.x, max.y)`. -/
def mm2Step (st : α × α × α × α) (p : V2 α) : α × α × α × α :=
  ((if p.x < st.1 then p.x else st.1), (if p.y < st.2.1 then p.y else st.2.1),
   (if p.x < st.1 then st.2.2.1 else if st.2.2.1 < p.x then p.x else st.2.2.1),
   (if p.y < st.2.1 then st.2.2.2 else if st.2.2.2 < p.y then p.y else st.2.2.2))

/-- One iteration of `Base2DIn3D._calculate_min_max`; state
`(min.x, min.y, min.z, max.x, max.y, max.z)`. -/
def mm3Step (st : α × α × α × α × α × α) (p : V3 α) : α × α × α × α × α × α :=
  ((if p.x < st.1 then p.x else st.1), (if p.y < st.2.1 then p.y else st.2.1),
   (if p.z < st.2.2.1 then p.z else st.2.2.1),
   (if p.x < st.1 then st.2.2.2.1 else if st.2.2.2.1 < p.x then p.x else st.2.2.2.1),
   (if p.y < st.2.1 then st.2.2.2.2.1 else if st.2.2.2.2.1 < p.y then p.y else st.2.2.2.2.1),
   (if p.z < st.2.2.1 then st.2.2.2.2.2 else if st.2.2.2.2.2 < p.z then p.z else st.2.2.2.2.2))

/-- The 3D scan state of a 2D scan state in the plane `z = 0`. -/
def mmUp (s : α × α × α × α) : α × α × α × α × α × α := (s.1, s.2.1, 0, s.2.2.1, s.2.2.2, 0)

/-- One 3D step on an embedded point is the 2D step (the z-extent stays `[0, 0]`). -/
theorem mm3Step_embed (s : α × α × α × α) (p : V2 α) :
    mm3Step (mmUp s) (embed p) = mmUp (mm2Step s p) := by
  simp only [mm3Step, mm2Step, mmUp, embed, lt_irrefl, if_false]
  rfl

/-- The 3D min / max scan over embedded vertices is the 2D scan, with z-extent `[0, 0]`. -/
theorem foldl_mm3_embed (vs : List (V2 α)) (s : α × α × α × α) :
    (vs.map embed).foldl mm3Step (mmUp s) = mmUp (vs.foldl mm2Step s) := by
  induction vs generalizing s with
  | nil => rfl
  | cons a t ih => simp only [List.map_cons, List.foldl_cons, mm3Step_embed, ih]

/-- Head of an embedded list, with the defaults of the two generated kernels. -/
theorem headD_map_embed (vs : List (V2 α)) :
    (vs.map embed).headD (⟨0, 0, 0⟩ : V3 α) = embed (vs.headD ⟨0, 0⟩) := by
  cases vs <;> rfl

/-- Last element of an embedded list, with the defaults of the two generated kernels. -/
theorem getLastD_map_embed (vs : List (V2 α)) :
    (vs.map embed).getLastD (⟨0, 0, 0⟩ : V3 α) = embed (vs.getLastD ⟨0, 0⟩) := by
  induction vs with
  | nil => rfl
  | cons a t ih =>
    cases t with
    | nil => rfl
    | cons b u => simpa [List.getLastD] using ih

/-- Indexing an embedded list, with the defaults of the two generated kernels. -/
theorem getD_map_embed (vs : List (V2 α)) (k : Nat) :
    (vs.map embed).getD k (⟨0, 0, 0⟩ : V3 α) = embed (vs.getD k ⟨0, 0⟩) := by
  induction vs generalizing k with
  | nil => rfl
  | cons a t ih =>
    cases k with
    | zero => rfl
    | succ k => simpa using ih k

/-- `enumerate` of a mapped list. -/
theorem zipIdx_map {β γ : Type} (f : β → γ) (l : List β) (n : Nat) :
    (l.map f).zipIdx n = (l.zipIdx n).map (fun q => (f q.1, q.2)) := by
  induction l generalizing n with
  | nil => rfl
  | cons a t ih => simp [List.zipIdx_cons, ih]

/-- Two folds with related states over a list and its image stay related. -/
theorem foldl_map_rel {σ τ β γ : Type} (R : σ → τ → Prop) (f : β → γ) (g₁ : σ → β → σ)
    (g₂ : τ → γ → τ) (h : ∀ s t x, R s t → R (g₁ s x) (g₂ t (f x))) (l : List β) (s : σ) (t : τ)
    (hst : R s t) : R (l.foldl g₁ s) ((l.map f).foldl g₂ t) := by
  induction l generalizing s t with
  | nil => exact hst
  | cons a u ih => exact ih _ _ (h s t a hst)

/-- Two related folds followed by related post-processing. -/
theorem foldl_map_rel_post {σ τ β γ δ ε : Type} (R : σ → τ → Prop) (f : β → γ) (g₁ : σ → β → σ)
    (g₂ : τ → γ → τ) (h : ∀ s t x, R s t → R (g₁ s x) (g₂ t (f x))) (l : List β) (s : σ) (t : τ)
    (hst : R s t) (post₁ : σ → δ) (post₂ : τ → ε) (F : δ → ε)
    (hpost : ∀ s t, R s t → post₂ t = F (post₁ s)) :
    post₂ ((l.map f).foldl g₂ t) = F (post₁ (l.foldl g₁ s)) :=
  hpost _ _ (foldl_map_rel R f g₁ g₂ h l s t hst)

/-- Loop states of `Polyline2D / Polyline3D.remove_colinear_vertices`
(`(raised, new_vertices, skip)`) that correspond under the embedding. -/
def rcRel (s : Bool × List (V2 α) × Int) (t : Bool × List (V3 α) × Int) : Prop :=
  t = (s.1, s.2.1.map embed, s.2.2)

/-- Last step of one iteration of `remove_colinear_vertices`: equal test values give
corresponding states (`skip += 1`, or append the vertex and reset `skip`). -/
theorem rcRel_step (l : List (V2 α)) (k : Int) (p : V2 α) (S3 A T3 T2 : α)
    (hS : S3 = |A|) (hT : T3 = T2) :
    rcRel (if |A| < T2 then (false, l, k + 1) else (false, l ++ [(⟨p.x, p.y⟩ : V2 α)], 0))
      (if S3 < T3 then (false, l.map embed, k + 1)
        else (false, l.map embed ++ [(⟨(embed p).x, (embed p).y, (embed p).z⟩ : V3 α)], 0)) := by
  subst hS hT
  unfold rcRel
  split_ifs
  · rfl
  · simp only [List.map_append, List.map_cons, List.map_nil]

/-- A loop whose body appends an item or leaves the list alone, according to an optional
result `f x` (possibly computed by nested `if`s), is a `filterMap`. -/
theorem foldl_snoc_fun_eq_filterMap {β γ : Type} (f : β → Option γ) (l : List β)
    (init : List γ) (step : List γ → β → List γ)
    (hstep : ∀ st x, step st x = match f x with | some y => st ++ [y] | none => st) :
    l.foldl step init = init ++ l.filterMap f := by
  induction l generalizing init with
  | nil => simp
  | cons a t ih =>
    simp only [List.foldl_cons, List.filterMap_cons, hstep, ih]
    cases f a <;> simp

end siblings

end Lbg.Lemmas.GenTiesC05
