/-
  Lemmas.Frame — helper lemmas for the plane-frame properties (C06, C10 circle boxes).

  * `v3_normalize` under the `sqrt` law: the result is `a / |a|`, a unit vector;
  * `Plane.__init__` without x-axis (`plane_init`) as "normalise, choose the x-axis by the
    branch `n.x = n.y = 0`, assemble": `plane_init_eq`;
  * `Plane.__init__` with an x-axis (`plane_init_x`) as "normalise both, assemble";
  * algebra of an orthonormal right-handed frame: `x × (n × x) = n`, the coordinate
    identity `xᵢ² + yᵢ² + nᵢ² = 1`, Lagrange-type identities used by the round trips.
-/
import LbgVerif.Gen.Vec
import LbgVerif.Gen.Plane
import LbgVerif.Lemmas.Isometry
import Mathlib.Tactic.Ring
import Mathlib.Tactic.FieldSimp
import Mathlib.Tactic.Linarith
import Mathlib.Tactic.LinearCombination
import Mathlib.Tactic.SplitIfs

namespace Lbg.Lemmas
open Lbg Lbg.Gen
set_option linter.unusedSectionVars false
set_option linter.unusedVariables false
set_option linter.unnecessarySeqFocus false
set_option linter.unreachableTactic false
set_option linter.unusedTactic false
variable {α : Type} [Field α] [LinearOrder α] [IsStrictOrderedRing α]

/-- The canonical assembly of a `Plane` from normal, origin and x-axis. -/
def mkPlane (n o x : V3 α) : PlaneS α := ⟨n, o, V3.dot n o, x, V3.cross n x⟩

/-- Under the `sqrt` law the length of a non-zero vector is positive. -/
theorem sqrt_pos_of_ne (M : MathOps α)
    (hsqrt : ∀ x, 0 ≤ x → M.sqrt x * M.sqrt x = x ∧ 0 ≤ M.sqrt x) {x : α} (hx0 : 0 ≤ x)
    (hx : x ≠ 0) : 0 < M.sqrt x := by
  obtain ⟨h1, h2⟩ := hsqrt x hx0
  rcases h2.lt_or_eq with h | h
  · exact h
  · exfalso; apply hx; rw [← h1, ← h]; ring

/-- `normSq` is non-negative. -/
theorem v3_normSq_nonneg (a : V3 α) : 0 ≤ V3.normSq a := by
  unfold V3.normSq
  have := mul_self_nonneg a.x; have := mul_self_nonneg a.y; have := mul_self_nonneg a.z
  linarith

/-- `Vector3D.normalize` of a non-zero vector, under the `sqrt` law: it is `a` divided by
the positive number `sqrt (a·a)`. -/
theorem v3_normalize_eq (M : MathOps α)
    (hsqrt : ∀ x, 0 ≤ x → M.sqrt x * M.sqrt x = x ∧ 0 ≤ M.sqrt x) (a : V3 α)
    (ha : V3.normSq a ≠ 0) :
    v3_normalize M a = V3.smul (1 / M.sqrt (V3.normSq a)) a := by
  have hpos := sqrt_pos_of_ne M hsqrt (v3_normSq_nonneg a) ha
  unfold V3.normSq at hpos
  unfold v3_normalize V3.smul V3.normSq
  simp only [hpos.ne', if_false]
  ext <;> simp only [] <;> field_simp

/-- `Vector3D.normalize` of a non-zero vector is a unit vector (under the `sqrt` law). -/
theorem v3_normalize_normSq (M : MathOps α)
    (hsqrt : ∀ x, 0 ≤ x → M.sqrt x * M.sqrt x = x ∧ 0 ≤ M.sqrt x) (a : V3 α)
    (ha : V3.normSq a ≠ 0) : V3.normSq (v3_normalize M a) = 1 := by
  rw [v3_normalize_eq M hsqrt a ha, v3_smul_normSq]
  have hpos := sqrt_pos_of_ne M hsqrt (v3_normSq_nonneg a) ha
  obtain ⟨h1, _⟩ := hsqrt _ (v3_normSq_nonneg a)
  field_simp
  linear_combination -h1

/-- `Plane.__init__(n, o)` (no x-axis given) is: normalise `n`; if the normalised normal has
`x = y = 0` take the world x-axis, otherwise normalise `(n.y, -n.x, 0)`; assemble with
`y = n × x`, `k = n·o`. -/
theorem plane_init_eq (M : MathOps α) (n o : V3 α) :
    plane_init M n o =
      if (v3_normalize M n).x = 0 ∧ (v3_normalize M n).y = 0 then
        mkPlane (v3_normalize M n) o ⟨1, 0, 0⟩
      else
        mkPlane (v3_normalize M n) o
          (v3_normalize M ⟨(v3_normalize M n).y, -(v3_normalize M n).x, 0⟩) := by
  generalize hN : v3_normalize M n = N
  unfold v3_normalize at hN
  obtain ⟨X, Y, Z⟩ := N
  simp only [V3.mk.injEq] at hN
  obtain ⟨hX, hY, hZ⟩ := hN
  unfold plane_init mkPlane
  simp only [hX, hY, hZ]
  generalize hN : v3_normalize M ⟨Y, -X, 0⟩ = N
  unfold v3_normalize at hN
  obtain ⟨X', Y', Z'⟩ := N
  simp only [V3.mk.injEq, mul_zero, add_zero] at hN
  obtain ⟨hX', hY', hZ'⟩ := hN
  simp only [add_zero, hX', hY', hZ', V3.dot, V3.cross]
  split_ifs <;>
    first
    | (exfalso; tauto)
    | (refine plane_ext ?_ ?_ ?_ ?_ ?_ <;>
        first | rfl | (simp only []; ring1) | (ext <;> simp only [] <;> ring1))

/-- `Plane.__init__(n, o, x)` is: normalise `n` and `x`, assemble. -/
theorem plane_init_x_eq (M : MathOps α) (n o x : V3 α) :
    plane_init_x M n o x = mkPlane (v3_normalize M n) o (v3_normalize M x) := by
  unfold plane_init_x mkPlane
  simp only [v3_normalize, V3.dot, V3.cross]
  refine plane_ext ?_ ?_ ?_ ?_ ?_ <;> first | rfl | (ext <;> simp only [] <;> ring1)

/-- In an orthonormal frame `x × (n × x) = n` (right-handedness of `x, y = n × x, n`). -/
theorem cross_x_cross_n_x (n x : V3 α) (hx : V3.normSq x = 1) (hnx : V3.dot n x = 0) :
    V3.cross x (V3.cross n x) = n := by
  simp only [V3.normSq, V3.dot, V3.cross] at *
  ext <;> simp only []
  · linear_combination n.x * hx - x.x * hnx
  · linear_combination n.y * hx - x.y * hnx
  · linear_combination n.z * hx - x.z * hnx

/-- Rows of an orthonormal frame matrix are unit vectors too: for each world axis `i`,
`xᵢ² + yᵢ² + nᵢ² = 1` with `y = n × x`.  (x-coordinate.) -/
theorem frame_row_x (n x : V3 α) (hn : V3.normSq n = 1) (hx : V3.normSq x = 1)
    (hnx : V3.dot n x = 0) :
    x.x * x.x + (V3.cross n x).x * (V3.cross n x).x + n.x * n.x = 1 := by
  simp only [V3.normSq, V3.dot, V3.cross] at *
  linear_combination (x.x * x.x + x.y * x.y + x.z * x.z - x.x * x.x) * hn + (1 - n.x * n.x) * hx
    + (2 * n.x * x.x - (n.x * x.x + n.y * x.y + n.z * x.z)) * hnx

/-- y-coordinate row of the frame matrix. -/
theorem frame_row_y (n x : V3 α) (hn : V3.normSq n = 1) (hx : V3.normSq x = 1)
    (hnx : V3.dot n x = 0) :
    x.y * x.y + (V3.cross n x).y * (V3.cross n x).y + n.y * n.y = 1 := by
  simp only [V3.normSq, V3.dot, V3.cross] at *
  linear_combination (x.x * x.x + x.y * x.y + x.z * x.z - x.y * x.y) * hn + (1 - n.y * n.y) * hx
    + (2 * n.y * x.y - (n.x * x.x + n.y * x.y + n.z * x.z)) * hnx

/-- z-coordinate row of the frame matrix. -/
theorem frame_row_z (n x : V3 α) (hn : V3.normSq n = 1) (hx : V3.normSq x = 1)
    (hnx : V3.dot n x = 0) :
    x.z * x.z + (V3.cross n x).z * (V3.cross n x).z + n.z * n.z = 1 := by
  simp only [V3.normSq, V3.dot, V3.cross] at *
  linear_combination (x.x * x.x + x.y * x.y + x.z * x.z - x.z * x.z) * hn + (1 - n.z * n.z) * hx
    + (2 * n.z * x.z - (n.x * x.x + n.y * x.y + n.z * x.z)) * hnx

end Lbg.Lemmas
