/-
  Lemmas.MeshRemove — closed forms of the loops of `Model/MeshRemove.lean`:
  the dictionary `_vdict` is the order-preserving re-indexing `k ↦ #kept before k`,
  the enumerate-comprehension is a filter, the face loop is a `filterMap`; alignment lemmas.
-/
import LbgVerif.Model.MeshRemove
import Mathlib.Tactic.Linarith

set_option linter.unusedSectionVars false
set_option linter.unusedVariables false

namespace Lbg.Lemmas
open Lbg Lbg.Model

variable {β γ δ : Type}

/-- Filter `data` by a parallel Boolean pattern (recursive specification). -/
def keepSpec : List γ → List Bool → List γ
  | d :: ds, true :: ps => d :: keepSpec ds ps
  | _ :: ds, false :: ps => keepSpec ds ps
  | _, _ => []

/-- `kept pattern k`: vertex `k` is in range and flagged `True`. -/
def kept (pattern : List Bool) (k : ℕ) : Bool := pattern.getD k false

/-- `newIdx pattern k`: number of kept vertices before `k`. -/
def newIdx (pattern : List Bool) (k : ℕ) : ℕ := (pattern.take k).count true

@[simp] theorem keepSpec_nil_left (p : List Bool) : keepSpec ([] : List γ) p = [] := by
  cases p with
  | nil => rfl
  | cons b t => cases b <;> rfl

@[simp] theorem keepSpec_nil_right (d : List γ) : keepSpec d [] = [] := by
  cases d <;> rfl

@[simp] theorem keepSpec_cons_true (d : γ) (ds : List γ) (ps : List Bool) :
    keepSpec (d :: ds) (true :: ps) = d :: keepSpec ds ps := rfl

@[simp] theorem keepSpec_cons_false (d : γ) (ds : List γ) (ps : List Bool) :
    keepSpec (d :: ds) (false :: ps) = keepSpec ds ps := rfl

/-- Peeling a `False` flag off the pattern advances the data by one. -/
theorem keepSpec_drop_false (data : List γ) (t : List Bool) (n : ℕ) :
    keepSpec (data.drop n) (false :: t) = keepSpec (data.drop (n + 1)) t := by
  by_cases hn : n < data.length
  · rw [List.drop_eq_getElem_cons hn]; rfl
  · rw [List.drop_eq_nil_of_le (by omega : data.length ≤ n),
      List.drop_eq_nil_of_le (by omega : data.length ≤ n + 1)]
    simp

/-- Peeling a `True` flag off the pattern emits `data[n]`. -/
theorem keepSpec_drop_true (data : List γ) (t : List Bool) (n : ℕ) :
    keepSpec (data.drop n) (true :: t) = (data[n]?).toList ++ keepSpec (data.drop (n + 1)) t := by
  by_cases hn : n < data.length
  · rw [List.drop_eq_getElem_cons hn, List.getElem?_eq_getElem hn]; rfl
  · rw [List.drop_eq_nil_of_le (by omega : data.length ≤ n),
      List.drop_eq_nil_of_le (by omega : data.length ≤ n + 1),
      List.getElem?_eq_none (by omega)]
    simp

/-- The enumerate-comprehension from offset `n` is the filter of the dropped data. -/
theorem keepBy_from (data : List γ) (pattern : List Bool) (n : ℕ) :
    (pattern.zipIdx n).filterMap
        (fun (pi : Bool × ℕ) => if pi.1 = true then data[pi.2]? else none) =
      keepSpec (data.drop n) pattern := by
  induction pattern generalizing n with
  | nil => simp
  | cons b t ih =>
    rw [List.zipIdx_cons]
    cases b
    · simp only [List.filterMap_cons, Bool.false_eq_true, if_false, keepSpec_drop_false]
      exact ih (n + 1)
    · rw [keepSpec_drop_true, List.filterMap_cons]
      simp only [if_true]
      cases hd : data[n]? with
      | none => simpa using ih (n + 1)
      | some d => simpa using ih (n + 1)

/-- `tuple(data[i] for i, _p in enumerate(pattern) if _p)` is the filter by the pattern. -/
theorem keepBy_eq (data : List γ) (pattern : List Bool) :
    keepBy data pattern = keepSpec data pattern := by
  have := keepBy_from data pattern 0
  simpa [keepBy] using this

/-- `keepSpec` in terms of `zip` / `filter` / `map`. -/
theorem keepSpec_eq_filter (data : List γ) (pattern : List Bool) :
    keepSpec data pattern = ((data.zip pattern).filter (fun x => x.2)).map Prod.fst := by
  induction data generalizing pattern with
  | nil => simp
  | cons d ds ih =>
    cases pattern with
    | nil => simp
    | cons b ps => cases b <;> simp [ih]

/-- Filtering two parallel lists by the SAME pattern keeps them aligned. -/
theorem keepSpec_zip (a : List γ) (b : List δ) (p : List Bool) :
    keepSpec (a.zip b) p = (keepSpec a p).zip (keepSpec b p) := by
  induction p generalizing a b with
  | nil => simp
  | cons x ps ih =>
    cases a with
    | nil => simp
    | cons a0 as =>
      cases b with
      | nil => simp
      | cons b0 bs => cases x <;> simp [ih]

/-- Number of survivors. -/
theorem keepSpec_length (data : List γ) (p : List Bool) (h : data.length = p.length) :
    (keepSpec data p).length = p.count true := by
  induction p generalizing data with
  | nil => simp
  | cons x ps ih =>
    cases data with
    | nil => simp at h
    | cons d ds =>
      have h' : ds.length = ps.length := by simpa using h
      cases x <;> simp [ih ds h']

/-- The survivor with new index `newIdx k` is the old item `k`. -/
theorem keepSpec_getElem? (data : List γ) (p : List Bool) (k : ℕ) (hk : kept p k = true) :
    (keepSpec data p)[newIdx p k]? = data[k]? := by
  induction p generalizing data k with
  | nil => simp [kept] at hk
  | cons x ps ih =>
    cases data with
    | nil => simp
    | cons d ds =>
      cases k with
      | zero =>
        cases x
        · simp [kept] at hk
        · simp [newIdx]
      | succ m =>
        have hk' : kept ps m = true := by simpa [kept] using hk
        cases x
        · simpa [newIdx] using ih ds m hk'
        · have := ih ds m hk'
          simp only [newIdx, List.take_succ_cons, List.count_cons_self, keepSpec_cons_true,
            List.getElem?_cons_succ] at this ⊢
          exact this

/-- Re-indexing is monotone. -/
theorem newIdx_mono (p : List Bool) {u v : ℕ} (h : u ≤ v) : newIdx p u ≤ newIdx p v := by
  unfold newIdx
  exact List.Sublist.count_le true (List.take_sublist_take_left h)

/-- Stepping over a kept index increases the new index by one. -/
theorem newIdx_succ (p : List Bool) {u : ℕ} (hu : kept p u = true) :
    newIdx p (u + 1) = newIdx p u + 1 := by
  induction p generalizing u with
  | nil => simp [kept] at hu
  | cons x ps ih =>
    cases u with
    | zero =>
      cases x
      · simp [kept] at hu
      · simp [newIdx]
    | succ m =>
      have hu' : kept ps m = true := by simpa [kept] using hu
      have := ih hu'
      cases x <;> simp only [newIdx, List.take_succ_cons, List.count_cons_self,
        List.count_cons_of_ne (by decide : (false : Bool) ≠ true)] at this ⊢ <;> omega

/-- Re-indexing is strictly increasing on kept indices (order-preserving injection). -/
theorem newIdx_strictMono (p : List Bool) {u v : ℕ} (h : u < v) (hu : kept p u = true) :
    newIdx p u < newIdx p v := by
  have h1 := newIdx_succ p hu
  have h2 := newIdx_mono p (show u + 1 ≤ v from h)
  omega

/-- A kept index maps below the number of kept vertices. -/
theorem newIdx_lt_count (p : List Bool) {u : ℕ} (hu : kept p u = true) :
    newIdx p u < p.count true := by
  have hlt : u < p.length := by
    by_contra hc
    simp [kept, List.getElem?_eq_none (not_lt.mp hc)] at hu
  have h := newIdx_strictMono p hlt hu
  have : newIdx p p.length = p.count true := by simp [newIdx]
  omega

/-- The pairs inserted into `_vdict` from offset `n` with counter `c`. -/
def keptPairs : List Bool → ℕ → ℕ → List (ℕ × ℕ)
  | [], _, _ => []
  | true :: t, n, c => (n, c) :: keptPairs t (n + 1) (c + 1)
  | false :: t, n, c => keptPairs t (n + 1) c

/-- Looking a key up in the inserted pairs. -/
theorem lookup_keptPairs (p : List Bool) (n c k : ℕ) :
    (keptPairs p n c).lookup k =
      if n ≤ k ∧ kept p (k - n) = true then some (c + newIdx p (k - n)) else none := by
  induction p generalizing n c with
  | nil => simp [keptPairs, kept]
  | cons x t ih =>
    cases x
    · simp only [keptPairs, ih]
      by_cases h1 : n + 1 ≤ k
      · have e : k - n = (k - (n + 1)) + 1 := by omega
        have hn : n ≤ k := by omega
        simp [h1, hn, e, kept, newIdx]
      · by_cases h2 : n ≤ k
        · have e : k - n = 0 := by omega
          simp [h1, h2, e, kept]
        · simp [h1, h2]
    · simp only [keptPairs, List.lookup_cons, ih]
      by_cases hkn : k = n
      · subst hkn
        simp [kept, newIdx]
      · have hb : (k == n) = false := by simpa using hkn
        rw [hb]
        simp only []
        by_cases h1 : n + 1 ≤ k
        · have e : k - n = (k - (n + 1)) + 1 := by omega
          have hn : n ≤ k := by omega
          simp only [h1, hn, e, kept, newIdx, true_and, List.getD_cons_succ,
            List.take_succ_cons, List.count_cons_self]
          split_ifs <;> simp <;> omega
        · have h2 : ¬ n ≤ k := by omega
          simp [h1, h2]

/-- Generalised closed form of the vertex loop started at offset `n` in state `st`. -/
theorem vertexLoop_from (verts : List β) (pattern : List Bool) (n : ℕ) (st : VState β) :
    (pattern.zipIdx n).foldl (fun (st : VState β) (pi : Bool × ℕ) =>
      if pi.1 = true then
        { vdict := st.vdict ++ [(pi.2, st.vcount)],
          vcount := st.vcount + 1,
          newVerts := st.newVerts ++ (verts[pi.2]?).toList }
      else st) st =
    { vdict := st.vdict ++ keptPairs pattern n st.vcount,
      vcount := st.vcount + pattern.count true,
      newVerts := st.newVerts ++ keepSpec (verts.drop n) pattern } := by
  induction pattern generalizing n st with
  | nil => simp [keptPairs]
  | cons b t ih =>
    rw [List.zipIdx_cons, List.foldl_cons]
    cases b
    · simp only [Bool.false_eq_true, if_false, ih, keptPairs, keepSpec_drop_false]
      simp
    · simp only [if_true, ih, keptPairs, keepSpec_drop_true, List.append_assoc,
        List.singleton_append]
      simp only [List.count_cons_self]
      congr 1
      omega

/-- Closed form of the first loop of `_remove_vertices`. -/
theorem vertexLoop_eq (verts : List β) (pattern : List Bool) :
    vertexLoop verts pattern =
      { vdict := keptPairs pattern 0 0, vcount := pattern.count true,
        newVerts := keepSpec verts pattern } := by
  unfold vertexLoop
  rw [vertexLoop_from]
  simp

/-- `_vdict[k]` after the loop: `newIdx k` if `k` is kept, `KeyError` otherwise. -/
theorem vdict_lookup (verts : List β) (pattern : List Bool) (k : ℕ) :
    (vertexLoop verts pattern).vdict.lookup k =
      if kept pattern k = true then some (newIdx pattern k) else none := by
  rw [vertexLoop_eq]
  simp [lookup_keptPairs]

/-- `mapM` of a guarded total function in the `Option` monad. -/
theorem mapM_guard (g : ℕ → Option ℕ) (kp : ℕ → Bool) (h : ℕ → ℕ)
    (hg : ∀ v, g v = if kp v = true then some (h v) else none) (l : List ℕ) :
    l.mapM g = if l.all kp = true then some (l.map h) else none := by
  induction l with
  | nil => simp
  | cons a t ih =>
    rw [List.mapM_cons, ih, hg a]
    by_cases ha : kp a = true
    · by_cases ht : t.all kp = true
      · simp [ha, ht]
      · simp [ha, ht]
    · simp [ha]

/-- Closed form of the face loop: kept faces re-indexed, pattern = "no `KeyError`". -/
theorem faceLoop_eq (vdict : List (ℕ × ℕ)) (faces : List (List ℕ)) :
    faceLoop vdict faces =
      (faces.filterMap (remapFace vdict), faces.map (fun f => (remapFace vdict f).isSome)) := by
  unfold faceLoop
  have gen : ∀ (fs : List (List ℕ)) (a : List (List ℕ)) (b : List Bool),
      fs.foldl (faceStep vdict) (a, b) =
      (a ++ fs.filterMap (remapFace vdict),
        b ++ fs.map (fun f => (remapFace vdict f).isSome)) := by
    intro fs
    induction fs with
    | nil => intro a b; simp
    | cons f t ih =>
      intro a b
      rw [List.foldl_cons]
      cases hf : remapFace vdict f with
      | none => simp [faceStep, ih, hf]
      | some nf => simp [faceStep, ih, hf]
  simpa using gen faces [] []

/-- Alignment of the re-indexed faces with per-face data filtered by the face pattern. -/
theorem faces_data_aligned (r : List ℕ → Option (List ℕ)) (faces : List (List ℕ))
    (data : List γ) (h : data.length = faces.length) :
    (faces.filterMap r).zip (keepSpec data (faces.map (fun f => (r f).isSome))) =
      (faces.zip data).filterMap (fun fd => (r fd.1).map (fun nf => (nf, fd.2))) := by
  induction faces generalizing data with
  | nil => simp
  | cons f t ih =>
    cases data with
    | nil => simp at h
    | cons d ds =>
      have h' : ds.length = t.length := by simpa using h
      cases hf : r f with
      | none => simp [hf, ih ds h']
      | some nf => simp [hf, ih ds h']

end Lbg.Lemmas

namespace Lbg.Lemmas
open Lbg Lbg.Model

/-- `for j in face: vertex_pattern[j] = True` keeps the length. -/
theorem setAll_length (js : List ℕ) (vp : List Bool) :
    (js.foldl (fun (vp : List Bool) j => vp.set j true) vp).length = vp.length := by
  induction js generalizing vp with
  | nil => rfl
  | cons j t ih => rw [List.foldl_cons, ih, List.length_set]

/-- `for j in face: vertex_pattern[j] = True`: entry `k` is set iff it was set or `k ∈ face`. -/
theorem setAll_getD (js : List ℕ) (vp : List Bool) (k : ℕ) :
    (js.foldl (fun (vp : List Bool) j => vp.set j true) vp).getD k false = true ↔
      vp.getD k false = true ∨ (k < vp.length ∧ k ∈ js) := by
  induction js generalizing vp with
  | nil => simp
  | cons j t ih =>
    rw [List.foldl_cons, ih, List.length_set]
    simp only [List.getD_eq_getElem?_getD, List.getElem?_set, List.mem_cons]
    by_cases hjk : j = k
    · subst hjk
      by_cases hl : j < vp.length
      · simp [hl]
      · have : vp[j]? = none := List.getElem?_eq_none (by omega)
        simp [hl, this]
    · have hkj : ¬ k = j := fun h => hjk h.symm
      simp [hjk, hkj]

/-- Closed form of `_vertex_pattern_from_remove_faces` started at face offset `n`. -/
theorem vertexPattern_from (faces : List (List ℕ)) (pattern : List Bool) (n : ℕ)
    (vp : List Bool) (k : ℕ) :
    ((pattern.zipIdx n).foldl (fun (vp : List Bool) (pi : Bool × ℕ) =>
        if pi.1 = true then
          (faces.getD pi.2 []).foldl (fun (vp : List Bool) j => vp.set j true) vp
        else vp) vp).getD k false = true ↔
      vp.getD k false = true ∨
        (k < vp.length ∧ ∃ i, pattern[i]? = some true ∧ k ∈ faces.getD (n + i) []) := by
  induction pattern generalizing n vp with
  | nil => simp
  | cons b t ih =>
    rw [List.zipIdx_cons, List.foldl_cons]
    cases b
    · simp only [Bool.false_eq_true, if_false]
      rw [ih (n + 1) vp]
      constructor
      · rintro (h | ⟨hk, i, hi, hm⟩)
        · exact Or.inl h
        · exact Or.inr ⟨hk, i + 1, by simpa using hi, by rwa [show n + (i + 1) = n + 1 + i by omega]⟩
      · rintro (h | ⟨hk, i, hi, hm⟩)
        · exact Or.inl h
        · cases i with
          | zero => simp at hi
          | succ i =>
            exact Or.inr ⟨hk, i, by simpa using hi, by rwa [show n + 1 + i = n + (i + 1) by omega]⟩
    · simp only [if_true]
      rw [ih (n + 1), setAll_getD, setAll_length]
      constructor
      · rintro ((h | ⟨hk, hm⟩) | ⟨hk, i, hi, hm⟩)
        · exact Or.inl h
        · exact Or.inr ⟨hk, 0, by simp, by simpa using hm⟩
        · exact Or.inr ⟨hk, i + 1, by simpa using hi, by rwa [show n + (i + 1) = n + 1 + i by omega]⟩
      · rintro (h | ⟨hk, i, hi, hm⟩)
        · exact Or.inl (Or.inl h)
        · cases i with
          | zero => exact Or.inl (Or.inr ⟨hk, by simpa using hm⟩)
          | succ i =>
            exact Or.inr ⟨hk, i, by simpa using hi, by rwa [show n + 1 + i = n + (i + 1) by omega]⟩

end Lbg.Lemmas
