/-
  Lemmas.Interop — helper lemmas about `Model/Interop.lean` (token-line models of the OBJ / STL
  writers and readers) used by `Props/C20b.lean`.
-/
import LbgVerif.Model.Interop
import Mathlib.Tactic.Ring
import Mathlib.Tactic.Linarith
import Mathlib.Tactic.SplitIfs
import Mathlib.Tactic.NormNum

set_option linter.unusedSectionVars false
set_option linter.unusedVariables false
set_option linter.unusedSimpArgs false

namespace Lbg.Lemmas.Interop
open Lbg Lbg.Gen Lbg.Model Lbg.Model.Interop

variable {α : Type} [Field α] [LinearOrder α]

/-! ## Generic facts about `Except` loops -/

theorem mapM_ok {β γ : Type} (f : β → Except String γ) (g : β → γ) (l : List β)
    (h : ∀ x ∈ l, f x = .ok (g x)) : l.mapM f = .ok (l.map g) := by
  induction l with
  | nil => rfl
  | cons a t ih =>
    rw [List.mapM_cons, h a (by simp), ih (fun x hx => h x (by simp [hx]))]
    rfl

theorem forM_cons' {β : Type} (f : β → Except String Unit) (a : β) (t : List β) :
    (a :: t).forM f = (do f a; t.forM f) := rfl

theorem forM_ok_iff {β : Type} (f : β → Except String Unit) (l : List β) :
    l.forM f = .ok () ↔ ∀ x ∈ l, f x = .ok () := by
  induction l with
  | nil => simp [List.forM]; rfl
  | cons a t ih =>
    rw [forM_cons']
    cases hfa : f a with
    | error e =>
      simp only [List.mem_cons, forall_eq_or_imp, hfa]
      constructor
      · intro h; cases h
      · intro h; cases h.1
    | ok u =>
      simp only [List.mem_cons, forall_eq_or_imp, hfa, true_and]
      exact ih

/-- Folding a reader step over lines each of which is accepted. -/
theorem foldlM_ok {σ β : Type} (step : σ → β → Except String σ) (g : σ → β → σ) (l : List β)
    (st : σ) (h : ∀ s, ∀ x ∈ l, step s x = .ok (g s x)) :
    l.foldlM step st = .ok (l.foldl g st) := by
  induction l generalizing st with
  | nil => rfl
  | cons a t ih =>
    rw [List.foldlM_cons, h st a (by simp)]
    exact ih _ (fun s x hx => h s x (by simp [hx]))

theorem foldlM_append_ok {σ β : Type} (step : σ → β → Except String σ) (l₁ l₂ : List β)
    (st st' : σ) (h : l₁.foldlM step st = .ok st') :
    (l₁ ++ l₂).foldlM step st = l₂.foldlM step st' := by
  rw [List.foldlM_append, h]; rfl

theorem foldlM_map_ok {σ β γ : Type} (step : σ → γ → Except String σ) (line : β → γ)
    (g : σ → β → σ) (xs : List β) (st : σ)
    (h : ∀ s, ∀ x ∈ xs, step s (line x) = .ok (g s x)) :
    (xs.map line).foldlM step st = .ok (xs.foldl g st) := by
  induction xs generalizing st with
  | nil => rfl
  | cons a t ih =>
    rw [List.map_cons, List.foldlM_cons, h st a (by simp)]
    exact ih _ (fun s x hx => h s x (by simp [hx]))

theorem foldlM_cons_ok {σ β : Type} (step : σ → β → Except String σ) (a : β) (l : List β)
    (st st' : σ) (h : step st a = .ok st') :
    (a :: l).foldlM step st = l.foldlM step st' := by
  rw [List.foldlM_cons, h]; rfl

/-! ## Constructors -/

theorem checkFaces_ok_iff (lenOk : ℕ → Bool) (nv : ℕ) (faces : List (List ℤ)) :
    checkFaces lenOk nv faces = .ok () ↔
      faces ≠ [] ∧ ∀ f ∈ faces, lenOk f.length = true ∧ ∀ i ∈ f, (pyIdx nv i).isSome = true := by
  unfold checkFaces
  by_cases h0 : faces.length = 0
  · have : faces = [] := List.length_eq_zero_iff.mp h0
    subst this
    simp
  · have hne : faces ≠ [] := fun h => h0 (by simp [h])
    simp only [h0, if_false]
    rw [forM_ok_iff]
    simp only [hne, ne_eq, not_false_eq_true, true_and]
    apply forall_congr'; intro f
    apply imp_congr_right; intro _
    unfold checkFace
    cases hl : lenOk f.length
    · simp
    · simp only [Bool.not_true, Bool.false_eq_true, if_false, true_and]
      rw [forM_ok_iff]
      apply forall_congr'; intro i
      apply imp_congr_right; intro _
      unfold checkIdx
      cases (pyIdx nv i).isSome <;> simp
      rfl


/-! ## One line of `OBJ.from_file` -/

/-- the point whose coordinates are the values of the printed text. -/
def fmt3 (fmt : α → α) (v : V3 α) : V3 α := ⟨fmt v.x, fmt v.y, fmt v.z⟩
def fmt2 (fmt : α → α) (v : V2 α) : V2 α := ⟨fmt v.x, fmt v.y⟩

theorem objStep_v (fmt : α → α) (st : RState α) (v : V3 α) (cs : List (Tok α)) :
    objStep st (vLineHead fmt v ++ cs) =
      .ok (if cs = [] then { st with vertices := st.vertices ++ [fmt3 fmt v] }
           else { st with vertices := st.vertices ++ [fmt3 fmt v],
                          colors := st.colors ++ [cs.map CVal.str] }) := by
  cases cs with
  | nil => simp [objStep, vLineHead, isComment, keyword, floatAt, wordAt, tokFloat, fmt3]; rfl
  | cons c t =>
    simp [objStep, vLineHead, isComment, keyword, floatAt, wordAt, tokFloat, fmt3]
    rfl

theorem objStep_vt (fmt : α → α) (st : RState α) (v : V2 α) :
    objStep st [.w "vt", .n (fmt v.x), .n (fmt v.y)] =
      .ok { st with vt := st.vt ++ [fmt2 fmt v] } := by
  simp [objStep, isComment, keyword, floatAt, wordAt, tokFloat, fmt2]; rfl

theorem objStep_vn (fmt : α → α) (st : RState α) (v : V3 α) :
    objStep st [.w "vn", .n (fmt v.x), .n (fmt v.y), .n (fmt v.z)] =
      .ok { st with vn := st.vn ++ [fmt3 fmt v] } := by
  simp [objStep, isComment, keyword, floatAt, wordAt, tokFloat, fmt3]; rfl

theorem tokInt_faceTok (a b : Bool) (i : ℤ) : tokInt (faceTok a b i : Tok α) = .ok (i + 1) := by
  cases a <;> cases b <;> rfl

theorem faceToks_parse (a b : Bool) (f : List ℤ) :
    (f.map (faceTok a b : ℤ → Tok α)).mapM (fun fv => do let k ← tokInt fv; pure (k - 1)) =
      .ok f := by
  have := mapM_ok (fun fv : Tok α => do let k ← tokInt fv; pure (k - 1))
    (fun fv => match tokInt fv with | .ok k => k - 1 | .error _ => 0)
    (f.map (faceTok a b))
    (by
      intro x hx
      obtain ⟨i, _, rfl⟩ := List.mem_map.mp hx
      simp only [tokInt_faceTok]; rfl)
  rw [this, List.map_map]
  congr 1
  conv_rhs => rw [← List.map_id f]
  apply List.map_congr_left
  intro i _
  simp [tokInt_faceTok]

theorem objStep_f (a b : Bool) (st : RState α) (f : List ℤ) :
    objStep st (faceLine a b f) =
      .ok { st with faces := st.faces ++ [if f.length > 4 then f.take 4 else f] } := by
  simp only [objStep, faceLine, isComment, keyword, List.drop_succ_cons, List.drop_zero,
    faceToks_parse]
  simp

theorem objStep_usemtl (st : RState α) (nm : Tok α) :
    objStep st [.w "usemtl", nm] = .ok { st with mats := st.mats ++ [(nm, st.faces.length)] } := by
  simp [objStep, isComment, keyword, wordAt]; rfl

theorem objStep_mtllib (st : RState α) (nm : Tok α) :
    objStep st [.w "mtllib", nm] = .ok st := by
  simp [objStep, isComment, keyword]; rfl

theorem objStep_header (st : RState α) : (objHeader : File α).foldlM objStep st = .ok st := by
  simp [objHeader, objStep, isComment, List.foldlM]
  rfl



/-! ## Blocks of lines -/

/-- What `OBJ.to_file` prints after `v x y z` for the colour `c` (`cs` = all colours: the
decision `len(vertex_colors[0]) > 3` is taken on the first one). -/
def colToks (fmt : α → α) (cs : List (Color α)) (c : Color α) : List (Tok α) :=
  if ((cs.head?.map List.length).getD 0) > 3 then (c.take 3).map (cvalTok fmt)
  else c.map (cvalTok fmt)

/-- The colours `OBJ.to_file` can print and `OBJ.from_file` reads back one per vertex:
if the first colour has more than 3 components every colour has at least 3 (`c[0], c[1], c[2]`);
otherwise every colour is a non-empty tuple of `str` (`' '.join(c)`). -/
def ColorsPrintable (cs : List (Color α)) : Prop :=
  if ((cs.head?.map List.length).getD 0) > 3 then ∀ c ∈ cs, 3 ≤ c.length
  else ∀ c ∈ cs, c ≠ [] ∧ c.all cvalIsStr = true

def vLineOf (fmt : α → α) (cs : List (Color α)) (vc : V3 α × Color α) : Line α :=
  vLineHead fmt vc.1 ++ colToks fmt cs vc.2

theorem colToks_ne_nil (fmt : α → α) (cs : List (Color α)) (h : ColorsPrintable cs)
    (c : Color α) (hc : c ∈ cs) : colToks fmt cs c ≠ [] := by
  unfold ColorsPrintable at h
  unfold colToks
  split_ifs at h ⊢ with hl
  · have := h c hc
    match c, this with
    | c0 :: c1 :: c2 :: r, _ => simp
  · have := (h c hc).1
    simpa using this

theorem vLines_some (fmt : α → α) (vs : List (V3 α)) (cs : List (Color α))
    (h : ColorsPrintable cs) :
    vLines fmt vs (some cs) = .ok ((vs.zip cs).map (vLineOf fmt cs)) := by
  unfold ColorsPrintable at h
  unfold vLines
  simp only []
  split_ifs at h ⊢ with hl
  · apply mapM_ok
    intro vc hvc
    have hc : vc.2 ∈ cs := (List.of_mem_zip hvc).2
    have h3 := h vc.2 hc
    simp only [vLineOf, colToks, hl, if_true]
    match hcv : vc.2, h3 with
    | c0 :: c1 :: c2 :: r, _ => simp; rfl
  · apply mapM_ok
    intro vc hvc
    have hc : vc.2 ∈ cs := (List.of_mem_zip hvc).2
    simp only [vLineOf, colToks, hl, if_false, (h vc.2 hc).2, if_true]
    rfl

theorem vLines_none (fmt : α → α) (vs : List (V3 α)) :
    vLines fmt vs none = .ok (vs.map (vLineHead fmt)) := rfl

theorem foldl_vertices {β : Type} (F : β → V3 α) (xs : List β) (st : RState α) :
    xs.foldl (fun s x => { s with vertices := s.vertices ++ [F x] }) st =
      { st with vertices := st.vertices ++ xs.map F } := by
  induction xs generalizing st with
  | nil => simp
  | cons a t ih => simp [List.foldl_cons, ih, List.append_assoc]

theorem foldl_vertices_colors {β : Type} (F : β → V3 α) (G : β → Color α) (xs : List β)
    (st : RState α) :
    xs.foldl (fun s x => { s with vertices := s.vertices ++ [F x],
                                  colors := s.colors ++ [G x] }) st =
      { st with vertices := st.vertices ++ xs.map F, colors := st.colors ++ xs.map G } := by
  induction xs generalizing st with
  | nil => simp
  | cons a t ih => simp [List.foldl_cons, ih, List.append_assoc]

theorem foldl_vt {β : Type} (F : β → V2 α) (xs : List β) (st : RState α) :
    xs.foldl (fun s x => { s with vt := s.vt ++ [F x] }) st =
      { st with vt := st.vt ++ xs.map F } := by
  induction xs generalizing st with
  | nil => simp
  | cons a t ih => simp [List.foldl_cons, ih, List.append_assoc]

theorem foldl_vn {β : Type} (F : β → V3 α) (xs : List β) (st : RState α) :
    xs.foldl (fun s x => { s with vn := s.vn ++ [F x] }) st =
      { st with vn := st.vn ++ xs.map F } := by
  induction xs generalizing st with
  | nil => simp
  | cons a t ih => simp [List.foldl_cons, ih, List.append_assoc]

theorem foldl_faces {β : Type} (F : β → List ℤ) (xs : List β) (st : RState α) :
    xs.foldl (fun s x => { s with faces := s.faces ++ [F x] }) st =
      { st with faces := st.faces ++ xs.map F } := by
  induction xs generalizing st with
  | nil => simp
  | cons a t ih => simp [List.foldl_cons, ih, List.append_assoc]

/-- Reading the `v` lines without colours. -/
theorem read_v_plain (fmt : α → α) (vs : List (V3 α)) (st : RState α) :
    (vs.map (vLineHead fmt)).foldlM objStep st =
      .ok { st with vertices := st.vertices ++ vs.map (fmt3 fmt) } := by
  rw [foldlM_map_ok objStep (vLineHead fmt)
    (fun s v => { s with vertices := s.vertices ++ [fmt3 fmt v] }), foldl_vertices]
  intro s v _
  have := objStep_v fmt s v []
  simp only [List.append_nil, if_true] at this
  exact this

/-- Reading the `v` lines with colours. -/
theorem read_v_colors (fmt : α → α) (vs : List (V3 α)) (cs : List (Color α))
    (h : ColorsPrintable cs) (st : RState α) :
    ((vs.zip cs).map (vLineOf fmt cs)).foldlM objStep st =
      .ok { st with vertices := st.vertices ++ (vs.zip cs).map (fun vc => fmt3 fmt vc.1),
                    colors := st.colors ++
                      (vs.zip cs).map (fun vc => (colToks fmt cs vc.2).map CVal.str) } := by
  rw [foldlM_map_ok objStep (vLineOf fmt cs)
    (fun s vc => { s with vertices := s.vertices ++ [fmt3 fmt vc.1],
                          colors := s.colors ++ [(colToks fmt cs vc.2).map CVal.str] }),
    foldl_vertices_colors]
  intro s vc hvc
  have hne := colToks_ne_nil fmt cs h vc.2 (List.of_mem_zip hvc).2
  have := objStep_v fmt s vc.1 (colToks fmt cs vc.2)
  simp only [hne, if_false] at this
  exact this

theorem read_vt (fmt : α → α) (l : List (V2 α)) (st : RState α) :
    (l.map (fun t => [Tok.w "vt", .n (fmt t.x), .n (fmt t.y)])).foldlM objStep st =
      .ok { st with vt := st.vt ++ l.map (fmt2 fmt) } := by
  rw [foldlM_map_ok objStep _ (fun s v => { s with vt := s.vt ++ [fmt2 fmt v] }), foldl_vt]
  intro s v _
  exact objStep_vt fmt s v

theorem read_vn (fmt : α → α) (l : List (V3 α)) (st : RState α) :
    (l.map (fun v => [Tok.w "vn", .n (fmt v.x), .n (fmt v.y), .n (fmt v.z)])).foldlM objStep st =
      .ok { st with vn := st.vn ++ l.map (fmt3 fmt) } := by
  rw [foldlM_map_ok objStep _ (fun s v => { s with vn := s.vn ++ [fmt3 fmt v] }), foldl_vn]
  intro s v _
  exact objStep_vn fmt s v

theorem read_faces (a b : Bool) (fs : List (List ℤ)) (st : RState α) :
    (fs.map (faceLine a b)).foldlM objStep st =
      .ok { st with faces := st.faces ++
              fs.map (fun f => if f.length > 4 then f.take 4 else f) } := by
  rw [foldlM_map_ok objStep _
    (fun s f => { s with faces := s.faces ++ [if f.length > 4 then f.take 4 else f] }),
    foldl_faces]
  intro s f _
  exact objStep_f a b s f


/-! ## The OBJ object: constructor guards and the file round trip -/

/-- Exactly the guards of `OBJ.__init__` (for an object without material structure, as
`OBJ.from_mesh3d` builds it): at least one face; every face has ≥ 3 indices, each a valid Python
index into the vertices; texture coordinates / normals / colours, if present, one per vertex. -/
structure ObjOk (o : Obj α) : Prop where
  faces_ne : o.faces ≠ []
  faces_ok : ∀ f ∈ o.faces, 3 ≤ f.length ∧ ∀ i ∈ f, (pyIdx o.vertices.length i).isSome = true
  vt_len : ∀ l, o.vt = some l → l.length = o.vertices.length
  vn_len : ∀ l, o.vn = some l → l.length = o.vertices.length
  col_len : ∀ l, o.colors = some l → l.length = o.vertices.length
  mats_none : o.mats = none

theorem pyIdx_zero (i : ℤ) : pyIdx 0 i = none := by
  unfold pyIdx
  split_ifs with h1 h2 h3 <;> first | rfl | (exfalso; omega)

theorem ObjOk.nv_pos {o : Obj α} (h : ObjOk o) : o.vertices.length ≠ 0 := by
  intro h0
  obtain ⟨f, hf⟩ := List.exists_mem_of_ne_nil _ h.faces_ne
  obtain ⟨h3, hi⟩ := h.faces_ok f hf
  match f, h3, hi with
  | i :: _, _, hi =>
    have := hi i (by simp)
    rw [h0, pyIdx_zero] at this
    cases this

theorem alignOpt_getD {β γ : Type} (nv : ℕ) (hnv : nv ≠ 0) (v : Option (List β)) (F : β → γ)
    (h : ∀ l, v = some l → l.length = nv) :
    alignOpt nv (some ((v.getD []).map F)) = .ok (v.map (fun l => l.map F)) := by
  cases v with
  | none => rfl
  | some l =>
    have hl := h l rfl
    simp only [alignOpt, Option.getD_some, List.length_map, hl, hnv, if_false, ne_eq,
      not_true_eq_false, Option.map_some]
    rfl

def trunc4 (f : List ℤ) : List ℤ := if f.length > 4 then f.take 4 else f

theorem trunc4_of_le (f : List ℤ) (h : f.length ≤ 4) : trunc4 f = f := by
  unfold trunc4; rw [if_neg (by omega)]

theorem objSplit_mem (f g : List ℤ) (h3 : 3 ≤ f.length) (hg : g ∈ objSplit f) :
    g.length ≤ 4 ∧ 3 ≤ g.length ∧ ∀ i ∈ g, i ∈ f := by
  match f, h3 with
  | [a, b, c], _ =>
    simp [objSplit] at hg; subst hg; simp
  | a :: b :: c :: d :: r, _ =>
    simp [objSplit] at hg
    rcases hg with rfl | rfl <;> simp

theorem trunc4_mem (f : List ℤ) (h3 : 3 ≤ f.length) :
    3 ≤ (trunc4 f).length ∧ ∀ i ∈ trunc4 f, i ∈ f := by
  unfold trunc4
  split_ifs with h
  · exact ⟨by rw [List.length_take]; omega, fun i hi => List.mem_of_mem_take hi⟩
  · exact ⟨h3, fun i hi => hi⟩

/-- The faces `OBJ.from_file` gets back. -/
def readBackFaces (fs : List (List ℤ)) (tri : Bool) : List (List ℤ) :=
  (if tri then fs.flatMap objSplit else fs).map trunc4

theorem readBackFaces_ok (nv : ℕ) (fs : List (List ℤ)) (tri : Bool) (hne : fs ≠ [])
    (h : ∀ f ∈ fs, 3 ≤ f.length ∧ ∀ i ∈ f, (pyIdx nv i).isSome = true) :
    checkFaces (fun k => decide (3 ≤ k)) nv (readBackFaces fs tri) = .ok () := by
  rw [checkFaces_ok_iff]
  constructor
  · obtain ⟨f, hf⟩ := List.exists_mem_of_ne_nil _ hne
    unfold readBackFaces
    cases tri
    · simpa using hne
    · simp only [if_true, ne_eq, List.map_eq_nil_iff, List.flatMap_eq_nil_iff, not_forall]
      refine ⟨f, hf, ?_⟩
      have h3 := (h f hf).1
      match f, h3 with
      | [a, b, c], _ => simp [objSplit]
      | a :: b :: c :: d :: r, _ => simp [objSplit]
  · intro g hg
    unfold readBackFaces at hg
    obtain ⟨g0, hg0, rfl⟩ := List.mem_map.mp hg
    have key : 3 ≤ g0.length ∧ ∀ i ∈ g0, (pyIdx nv i).isSome = true := by
      cases tri
      · exact h g0 (by simpa using hg0)
      · simp only [if_true, List.mem_flatMap] at hg0
        obtain ⟨f, hf, hgf⟩ := hg0
        obtain ⟨_, h3, hsub⟩ := objSplit_mem f g0 (h f hf).1 hgf
        exact ⟨h3, fun i hi => (h f hf).2 i (hsub i hi)⟩
    obtain ⟨h3, hsub⟩ := trunc4_mem g0 key.1
    exact ⟨by simpa using h3, fun i hi => key.2 i (hsub i hi)⟩

/-- The colours `OBJ.from_file` gets back: tuples of `str`, the text of what was printed. -/
def readBackColors (fmt : α → α) : Option (List (Color α)) → Option (List (Color α))
  | none => none
  | some cs => some (cs.map (fun c => (colToks fmt cs c).map CVal.str))

/-- What `OBJ.from_file` returns for the file `OBJ.to_file` writes. -/
def objReadBack (fmt : α → α) (o : Obj α) (tri mtl : Bool) : Obj α :=
  { vertices := o.vertices.map (fmt3 fmt),
    faces := readBackFaces o.faces tri,
    vt := o.vt.map (fun l => l.map (fmt2 fmt)),
    vn := o.vn.map (fun l => l.map (fmt3 fmt)),
    colors := readBackColors fmt o.colors,
    mats := if mtl then some [(.w "diffuse_0", 0)] else none }

/-- The lines `OBJ.to_file` writes for an object without material structure. -/
def objLines (fmt : α → α) (o : Obj α) (tri mtl : Bool) (name : Tok α) (vl : File α) : File α :=
  objHeader ++ (if mtl then [[.w "mtllib", name], [.w "usemtl", .w "diffuse_0"]] else []) ++ vl ++
    (o.vt.getD []).map (fun t => [.w "vt", .n (fmt t.x), .n (fmt t.y)]) ++
    (o.vn.getD []).map (fun v => [.w "vn", .n (fmt v.x), .n (fmt v.y), .n (fmt v.z)]) ++
    (if tri then o.faces.flatMap objSplit else o.faces).map (faceLine o.vt.isSome o.vn.isSome)

theorem objToFile_eq (fmt : α → α) (o : Obj α) (tri mtl : Bool) (name : Tok α)
    (hm : o.mats = none) :
    objToFile fmt o tri mtl name =
      (vLines fmt o.vertices o.colors).map (objLines fmt o tri mtl name) := by
  unfold objToFile objLines
  rw [hm]
  cases hv : vLines fmt o.vertices o.colors with
  | error e => rfl
  | ok vl =>
    cases o.vt <;> cases o.vn <;> cases tri <;> cases mtl <;> rfl

/-- Reading the lines back: the accumulators after the loop of `OBJ.from_file`. -/
theorem read_objLines (fmt : α → α) (o : Obj α) (tri mtl : Bool) (name : Tok α) (vl : File α)
    (vsR : List (V3 α)) (csR : List (Color α))
    (hvl : ∀ st : RState α, vl.foldlM objStep st =
      .ok { st with vertices := st.vertices ++ vsR, colors := st.colors ++ csR }) :
    (objLines fmt o tri mtl name vl).foldlM objStep objInit =
      .ok ⟨vsR, readBackFaces o.faces tri, (o.vt.getD []).map (fmt2 fmt),
           (o.vn.getD []).map (fmt3 fmt), csR,
           if mtl then [(.w "diffuse_0", 0)] else []⟩ := by
  unfold objLines
  have h1 : (objHeader : File α).foldlM objStep objInit = .ok objInit := objStep_header _
  have h2 : (objHeader ++ (if mtl then [[Tok.w "mtllib", name], [.w "usemtl", .w "diffuse_0"]]
        else [])).foldlM objStep (objInit : RState α) =
      .ok { (objInit : RState α) with mats := if mtl then [(.w "diffuse_0", 0)] else [] } := by
    rw [foldlM_append_ok _ _ _ _ _ h1]
    cases mtl
    · rfl
    · simp only [if_true, List.foldlM_cons, objStep_mtllib, objStep_usemtl, List.foldlM_nil]
      rfl
  rw [foldlM_append_ok _ _ _ _ _ (foldlM_append_ok _ _ _ _ _ (foldlM_append_ok _ _ _ _ _
    (foldlM_append_ok _ _ _ _ _ h2 ▸ hvl _) ▸ read_vt fmt _ _) ▸ read_vn fmt _ _), read_faces]
  simp only [objInit, readBackFaces, List.nil_append]
  congr 2


theorem mkObj_of_ok (o : Obj α) (h : ObjOk o) :
    mkObj o.vertices o.faces o.vt o.vn o.colors none = .ok o := by
  have hnv := h.nv_pos
  have hcf : checkFaces (fun k => decide (3 ≤ k)) o.vertices.length o.faces = .ok () := by
    rw [checkFaces_ok_iff]
    exact ⟨h.faces_ne, fun f hf => ⟨by simpa using (h.faces_ok f hf).1, (h.faces_ok f hf).2⟩⟩
  have al : ∀ {β : Type} (v : Option (List β)), (∀ l, v = some l → l.length = o.vertices.length) →
      alignOpt o.vertices.length v = .ok v := by
    intro β v hv
    cases v with
    | none => rfl
    | some l => simp [alignOpt, hv l rfl, hnv]; rfl
  unfold mkObj
  rw [hcf, al _ h.vt_len, al _ h.vn_len, al _ h.col_len]
  have := h.mats_none
  cases o
  simp only at this
  subst this
  rfl

/-- The constructor on the accumulators of the reader. -/
theorem mkObj_readBack (fmt : α → α) (o : Obj α) (tri mtl : Bool) (h : ObjOk o)
    (csR : List (Color α)) (hcs : csR = ((readBackColors fmt o.colors).getD [])) :
    mkObj (o.vertices.map (fmt3 fmt)) (readBackFaces o.faces tri)
      (some ((o.vt.getD []).map (fmt2 fmt))) (some ((o.vn.getD []).map (fmt3 fmt)))
      (some csR) (some (if mtl then [(.w "diffuse_0", 0)] else [])) =
    .ok (objReadBack fmt o tri mtl) := by
  have hnv := h.nv_pos
  unfold mkObj
  simp only [List.length_map]
  rw [readBackFaces_ok _ _ _ h.faces_ne h.faces_ok,
    alignOpt_getD _ hnv _ _ h.vt_len, alignOpt_getD _ hnv _ _ h.vn_len]
  have hcol : alignOpt o.vertices.length (some csR) = .ok (readBackColors fmt o.colors) := by
    subst hcs
    cases hc : o.colors with
    | none => rfl
    | some cs =>
      simp [readBackColors, alignOpt, h.col_len cs hc, hnv]; rfl
  rw [hcol]
  have hf : (readBackFaces o.faces tri).length ≠ 0 := by
    have := readBackFaces_ok o.vertices.length o.faces tri h.faces_ne h.faces_ok
    rw [checkFaces_ok_iff] at this
    intro h0
    exact this.1 (List.length_eq_zero_iff.mp h0)
  cases mtl
  · rfl
  · simp only [if_true, checkMats]
    have : (0 : ℕ) < (readBackFaces o.faces tri).length := Nat.pos_of_ne_zero hf
    simp [List.forM, this, objReadBack]
    rfl

/-- **OBJ file round trip** (model level): for an OBJ object that satisfies the constructor's
guards and whose colours are printable, `to_file` succeeds and `from_file` of the written lines
returns the object with every number replaced by the value of its printed text, the faces
triangulated if requested (and cut to 4 indices), the colours as tuples of `str`. -/
theorem obj_roundtrip (fmt : α → α) (o : Obj α) (tri mtl : Bool) (name : Tok α) (h : ObjOk o)
    (hc : ∀ cs, o.colors = some cs → ColorsPrintable cs) :
    ∃ file, objToFile fmt o tri mtl name = .ok file ∧
      objFromFile file = .ok (objReadBack fmt o tri mtl) := by
  rw [objToFile_eq fmt o tri mtl name h.mats_none]
  cases hcol : o.colors with
  | none =>
    rw [vLines_none]
    refine ⟨_, rfl, ?_⟩
    unfold objFromFile
    rw [read_objLines fmt o tri mtl name _ (o.vertices.map (fmt3 fmt)) []
      (fun st => by rw [read_v_plain]; simp)]
    exact mkObj_readBack fmt o tri mtl h [] (by simp [hcol, readBackColors])
  | some cs =>
    have hp := hc cs hcol
    have hlen := h.col_len cs hcol
    rw [vLines_some fmt _ _ hp]
    refine ⟨_, rfl, ?_⟩
    unfold objFromFile
    rw [read_objLines fmt o tri mtl name _ (o.vertices.map (fmt3 fmt))
      (cs.map (fun c => (colToks fmt cs c).map CVal.str))
      (fun st => by
        rw [read_v_colors fmt _ _ hp]
        have e1 : (o.vertices.zip cs).map (fun vc => fmt3 fmt vc.1) = o.vertices.map (fmt3 fmt) := by
          have e : (fun vc : V3 α × Color α => fmt3 fmt vc.1) = fmt3 fmt ∘ Prod.fst := rfl
          rw [e, ← List.map_map, List.map_fst_zip (by omega)]
        have e2 : (o.vertices.zip cs).map (fun vc => (colToks fmt cs vc.2).map CVal.str) =
            cs.map (fun c => (colToks fmt cs c).map CVal.str) := by
          have e : (fun vc : V3 α × Color α => (colToks fmt cs vc.2).map CVal.str) =
              (fun c => (colToks fmt cs c).map CVal.str) ∘ Prod.snd := rfl
          rw [e, ← List.map_map, List.map_snd_zip (by omega)]
        rw [e1, e2])]
    exact mkObj_readBack fmt o tri mtl h _ (by simp [hcol, readBackColors])


/-! ## `Mesh3D`: constructor guards, the unrolling of face colours -/

/-- Exactly the guards of `Mesh3D.__init__`: at least one face, every face has 3 or 4 valid
Python indices, and the colours are `None`, one per face (`is_color_by_face`) or one per vertex. -/
structure MeshOk (m : Mesh3I α) : Prop where
  faces_ne : m.faces ≠ []
  faces_ok : ∀ f ∈ m.faces, (f.length = 3 ∨ f.length = 4) ∧
    ∀ i ∈ f, (pyIdx m.vertices.length i).isSome = true
  colors_ok : colorMode m.faces.length m.vertices.length m.colors = .ok (m.colors, m.isColorByFace)

theorem mkMesh_ok_iff (vs : List (V3 α)) (fs : List (List ℤ)) (cs : Option (List (Color α)))
    (m : Mesh3I α) :
    mkMesh vs fs cs = .ok m ↔
      (fs ≠ [] ∧ ∀ f ∈ fs, (f.length = 3 ∨ f.length = 4) ∧ ∀ i ∈ f, (pyIdx vs.length i).isSome = true) ∧
      ∃ cm, colorMode fs.length vs.length cs = .ok cm ∧ m = ⟨vs, fs, cm.1, cm.2, none, none, none⟩ := by
  unfold mkMesh
  cases hcf : checkFaces (fun k => k = 3 || k = 4) vs.length fs with
  | error e =>
    constructor
    · intro h; cases h
    · intro h
      have := (checkFaces_ok_iff (fun k => k = 3 || k = 4) vs.length fs).mpr
        ⟨h.1.1, fun f hf => ⟨by simpa using (h.1.2 f hf).1, (h.1.2 f hf).2⟩⟩
      rw [hcf] at this; cases this
  | ok u =>
    have hc := (checkFaces_ok_iff _ _ _).mp hcf
    have hc' : fs ≠ [] ∧ ∀ f ∈ fs, (f.length = 3 ∨ f.length = 4) ∧
        ∀ i ∈ f, (pyIdx vs.length i).isSome = true :=
      ⟨hc.1, fun f hf => ⟨by simpa using (hc.2 f hf).1, (hc.2 f hf).2⟩⟩
    cases hcm : colorMode fs.length vs.length cs with
    | error e =>
      constructor
      · intro h; cases h
      · rintro ⟨_, cm, h, _⟩; cases h
    | ok cm =>
      constructor
      · intro h
        refine ⟨hc', cm, rfl, ?_⟩
        cases h; rfl
      · rintro ⟨_, cm', h, rfl⟩
        cases h; rfl

/-- A mesh that satisfies the guards is what the constructor returns for its own data. -/
theorem mkMesh_of_ok (m : Mesh3I α) (h : MeshOk m) :
    mkMesh m.vertices m.faces m.colors =
      .ok ⟨m.vertices, m.faces, m.colors, m.isColorByFace, none, none, none⟩ := by
  rw [mkMesh_ok_iff]
  exact ⟨⟨h.faces_ne, h.faces_ok⟩, _, h.colors_ok, rfl⟩

theorem MeshOk.nv_pos {m : Mesh3I α} (h : MeshOk m) : m.vertices.length ≠ 0 := by
  intro h0
  obtain ⟨f, hf⟩ := List.exists_mem_of_ne_nil _ h.faces_ne
  obtain ⟨h3, hi⟩ := h.faces_ok f hf
  match f, h3, hi with
  | i :: _, _, hi =>
    have := hi i (by simp)
    rw [h0, pyIdx_zero] at this
    cases this
  | [], h3, _ => simp at h3

/-- Colours by vertex: one per vertex.  Colours by face: one per face. -/
theorem MeshOk.colors_len {m : Mesh3I α} (h : MeshOk m) (cs : List (Color α))
    (hc : m.colors = some cs) :
    (m.isColorByFace = true → cs.length = m.faces.length) ∧
    (m.isColorByFace = false → cs.length = m.vertices.length) := by
  have := h.colors_ok
  rw [hc] at this
  simp only [colorMode] at this
  split_ifs at this with h1 h2 h3
  · have e : m.isColorByFace = true := by injection this with e; exact (Prod.mk.inj e).2.symm
    simp [h1, e]
  · have e : m.isColorByFace = false := by injection this with e; exact (Prod.mk.inj e).2.symm
    simp [h2, e]
  · injection this with e; cases (Prod.mk.inj e).1

theorem MeshOk.byFace_colors {m : Mesh3I α} (h : MeshOk m) (hb : m.isColorByFace = true) :
    ∃ cs, m.colors = some cs ∧ cs.length = m.faces.length := by
  have := h.colors_ok
  cases hc : m.colors with
  | none => rw [hc] at this; simp [colorMode] at this; rw [hb] at this; cases this
  | some cs => exact ⟨cs, rfl, (h.colors_len cs hc).1 hb⟩

/-- The index block `v_ct, v_ct + 1, …` of one unrolled face. -/
def block (off : ℤ) (n : ℕ) : List ℤ := (List.range n).map (fun (k : ℕ) => off + (k : ℤ))

/-- The faces of the unrolled mesh: consecutive index blocks. -/
def blocks : ℤ → List ℕ → List (List ℤ)
  | _, [] => []
  | off, n :: ns => block off n :: blocks (off + n) ns

theorem unroll_fold (l : List (List (V3 α) × Color α))
    (hl : ∀ p ∈ l, p.1.length = 3 ∨ p.1.length = 4) (st : Unroll α) :
    l.foldl unrollStep st =
      { vertices := st.vertices ++ (l.map Prod.fst).flatten,
        faces := st.faces ++ blocks st.vct (l.map (fun p => p.1.length)),
        colors := st.colors ++ l.flatMap (fun p => List.replicate p.1.length p.2),
        vct := st.vct + ((l.map (fun p => p.1.length)).sum : ℕ) } := by
  induction l generalizing st with
  | nil => simp [blocks]
  | cons p t ih =>
    rw [List.foldl_cons, ih (fun q hq => hl q (by simp [hq]))]
    rcases hl p (by simp) with h3 | h4
    · have hs : unrollStep st p = ⟨st.vertices ++ p.1, st.faces ++ [block st.vct 3],
          st.colors ++ List.replicate 3 p.2, st.vct + 3⟩ := by
        have : ¬ p.1.length = 4 := by omega
        simp [unrollStep, this, block, List.range_succ]
      rw [hs]
      simp only [List.map_cons, List.flatten_cons, List.append_assoc, blocks, List.flatMap_cons,
        h3, List.sum_cons, Nat.cast_add, Nat.cast_ofNat, List.cons_append, List.nil_append]
      congr 1
      ring
    · have hs : unrollStep st p = ⟨st.vertices ++ p.1, st.faces ++ [block st.vct 4],
          st.colors ++ List.replicate 4 p.2, st.vct + 4⟩ := by
        simp [unrollStep, h4, block, List.range_succ]
      rw [hs]
      simp only [List.map_cons, List.flatten_cons, List.append_assoc, blocks, List.flatMap_cons,
        h4, List.sum_cons, Nat.cast_add, Nat.cast_ofNat, List.cons_append, List.nil_append]
      congr 1
      ring

theorem pyGet_natCast {β : Type} (l : List β) (k : ℕ) : pyGet l (k : ℤ) = l[k]? := by
  unfold pyGet pyIdx
  simp only [Int.natCast_nonneg, if_true, Int.toNat_natCast]
  split_ifs with h
  · rfl
  · simp [List.getElem?_eq_none (Nat.le_of_not_lt h)]

theorem faceVertsZ_block (pre fv post : List (V3 α)) :
    faceVertsZ (pre ++ fv ++ post) (block pre.length fv.length) = fv := by
  unfold faceVertsZ block
  rw [List.map_map]
  apply List.ext_getElem
  · simp
  · intro k h1 h2
    simp only [List.length_map, List.length_range] at h1
    simp only [List.getElem_map, List.getElem_range, Function.comp, pyGetD]
    rw [show ((pre.length : ℤ) + (k : ℤ)) = ((pre.length + k : ℕ) : ℤ) by push_cast; ring,
      pyGet_natCast]
    simp [List.getElem?_append_left, List.getElem?_append_right, h1]

theorem blocks_points (fvs : List (List (V3 α))) (pre : List (V3 α)) :
    (blocks pre.length (fvs.map List.length)).map (faceVertsZ (pre ++ fvs.flatten)) = fvs := by
  induction fvs generalizing pre with
  | nil => rfl
  | cons fv t ih =>
    simp only [List.map_cons, blocks, List.flatten_cons]
    congr 1
    · rw [← List.append_assoc]; exact faceVertsZ_block pre fv t.flatten
    · have := ih (pre ++ fv)
      rw [List.length_append, List.append_assoc] at this
      push_cast at this
      exact this

theorem blocks_length (off : ℤ) (ns : List ℕ) : (blocks off ns).length = ns.length := by
  induction ns generalizing off with
  | nil => rfl
  | cons n t ih => simp [blocks, ih]

theorem blocks_mem (off : ℤ) (ns : List ℕ) (f : List ℤ) (hf : f ∈ blocks off ns) :
    f.length ∈ ns ∧ ∀ i ∈ f, off ≤ i ∧ i < off + (ns.sum : ℕ) := by
  induction ns generalizing off with
  | nil => simp [blocks] at hf
  | cons n t ih =>
    simp only [blocks, List.mem_cons] at hf
    rcases hf with rfl | hf
    · refine ⟨by simp [block], ?_⟩
      intro i hi
      simp only [block, List.mem_map, List.mem_range] at hi
      obtain ⟨k, hk, rfl⟩ := hi
      simp only [List.sum_cons, Nat.cast_add]
      constructor <;> omega
    · obtain ⟨h1, h2⟩ := ih _ hf
      refine ⟨by simp [h1], ?_⟩
      intro i hi
      have := h2 i hi
      simp only [List.sum_cons, Nat.cast_add]
      constructor <;> omega

theorem pyIdx_isSome_of_range (n : ℕ) (i : ℤ) (h0 : 0 ≤ i) (h1 : i < n) :
    (pyIdx n i).isSome = true := by
  unfold pyIdx
  rw [if_pos h0, if_pos (by omega)]
  rfl

/-- The vertices, faces and colours `OBJ.from_mesh3d` builds for a face-coloured mesh. -/
theorem unroll_eq (m : Mesh3I α) (h : MeshOk m) (cs : List (Color α)) (hc : m.colors = some cs)
    (hlen : cs.length = m.faces.length) :
    unroll m =
      { vertices := (m.faces.map (faceVertsZ m.vertices)).flatten,
        faces := blocks 0 (m.faces.map List.length),
        colors := (m.faces.zip cs).flatMap (fun p => List.replicate p.1.length p.2),
        vct := ((m.faces.map List.length).sum : ℕ) } := by
  unfold unroll
  rw [hc, Option.getD_some, unroll_fold]
  · have e1 : ((m.faces.map (faceVertsZ m.vertices)).zip cs).map Prod.fst =
        m.faces.map (faceVertsZ m.vertices) := List.map_fst_zip (by simp; omega)
    have e2 : ((m.faces.map (faceVertsZ m.vertices)).zip cs).map (fun p => p.1.length) =
        m.faces.map List.length := by
      have : (fun p : List (V3 α) × Color α => p.1.length) = List.length ∘ Prod.fst := rfl
      rw [this, ← List.map_map, e1, List.map_map]
      apply List.map_congr_left
      intro f _
      simp [faceVertsZ]
    have e3 : ((m.faces.map (faceVertsZ m.vertices)).zip cs).flatMap
          (fun p => List.replicate p.1.length p.2) =
        (m.faces.zip cs).flatMap (fun p => List.replicate p.1.length p.2) := by
      rw [List.zip_map_left, List.flatMap_map]
      congr 1
      funext p
      simp [faceVertsZ]
    rw [e1, e2, e3]
    simp
  · intro p hp
    have := (List.of_mem_zip hp).1
    obtain ⟨f, hf, hfe⟩ := List.mem_map.mp this
    rw [← hfe]
    simpa [faceVertsZ] using (h.faces_ok f hf).1


/-! ## `OBJ.from_mesh3d` and the `Mesh3D` round trip -/

/-- The OBJ object of a mesh that is not unrolled. -/
def plainObj (M : MathOps α) (m : Mesh3I α) (ic inn : Bool) : Obj α :=
  ⟨m.vertices, m.faces, none, if inn then some (vertexNormals M m) else none,
   if ic then m.colors else none, none⟩

theorem objFromMesh3d_plain (M : MathOps α) (m : Mesh3I α) (h : MeshOk m) (ic inn : Bool)
    (hb : (ic && m.isColorByFace) = false)
    (hvn : inn = true → (vertexNormals M m).length = m.vertices.length) :
    objFromMesh3d M m ic inn = .ok (plainObj M m ic inn) ∧ ObjOk (plainObj M m ic inn) := by
  have hok : ObjOk (plainObj M m ic inn) := by
    refine ⟨h.faces_ne, fun f hf => ⟨?_, (h.faces_ok f hf).2⟩, ?_, ?_, ?_, rfl⟩
    · rcases (h.faces_ok f hf).1 with e | e <;> omega
    · intro l hl; cases hl
    · intro l hl
      cases inn
      · cases hl
      · simp only [plainObj, if_true, Option.some.injEq] at hl
        subst hl
        exact hvn rfl
    · intro l hl
      cases ic
      · cases hl
      · simp only [plainObj, if_true] at hl
        have hbf : m.isColorByFace = false := by simpa using hb
        exact (h.colors_len l hl).2 hbf
  refine ⟨?_, hok⟩
  have := mkObj_of_ok _ hok
  unfold objFromMesh3d
  rw [hb]
  simp only [Bool.false_eq_true, if_false]
  cases inn <;> exact this

/-- The OBJ object of a face-coloured mesh written with `include_colors=True`: every face gets
its own copies of its corner points. -/
def unrolledObj (M : MathOps α) (m : Mesh3I α) (cs : List (Color α)) (inn : Bool) : Obj α :=
  ⟨(m.faces.map (faceVertsZ m.vertices)).flatten,
   blocks 0 (m.faces.map List.length),
   none,
   if inn then some (m.faces.flatMap (fun f => f.map (pyGetD (vertexNormals M m) ⟨0, 0, 0⟩)))
   else none,
   some ((m.faces.zip cs).flatMap (fun p => List.replicate p.1.length p.2)),
   none⟩

theorem sum_lengths_flatten (m : Mesh3I α) :
    ((m.faces.map (faceVertsZ m.vertices)).flatten).length = (m.faces.map List.length).sum := by
  rw [List.length_flatten, List.map_map]
  congr 1
  apply List.map_congr_left
  intro f _
  simp [faceVertsZ]

theorem objFromMesh3d_unroll (M : MathOps α) (m : Mesh3I α) (h : MeshOk m)
    (hb : m.isColorByFace = true) (cs : List (Color α)) (hc : m.colors = some cs) (inn : Bool) :
    objFromMesh3d M m true inn = .ok (unrolledObj M m cs inn) ∧ ObjOk (unrolledObj M m cs inn) := by
  have hlen : cs.length = m.faces.length := (h.colors_len cs hc).1 hb
  have hsum := sum_lengths_flatten m
  have hok : ObjOk (unrolledObj M m cs inn) := by
    refine ⟨?_, ?_, ?_, ?_, ?_, rfl⟩
    · intro h0
      have := congrArg List.length h0
      simp only [unrolledObj, blocks_length, List.length_map, List.length_nil] at this
      exact h.faces_ne (List.length_eq_zero_iff.mp this)
    · intro f hf
      obtain ⟨h1, h2⟩ := blocks_mem 0 _ f hf
      constructor
      · obtain ⟨g, hg, e⟩ := List.mem_map.mp h1
        rcases (h.faces_ok g hg).1 with e' | e' <;> omega
      · intro i hi
        have := h2 i hi
        apply pyIdx_isSome_of_range
        · omega
        · simp only [unrolledObj, hsum]; omega
    · intro l hl; cases hl
    · intro l hl
      cases inn
      · cases hl
      · simp only [unrolledObj, if_true, Option.some.injEq] at hl
        subst hl
        simp only [unrolledObj, hsum, List.length_flatMap, List.length_map]
    · intro l hl
      simp only [unrolledObj, Option.some.injEq] at hl
      subst hl
      simp only [unrolledObj, hsum, List.length_flatMap, List.length_replicate]
      have : (fun p : List ℤ × Color α => p.1.length) = List.length ∘ Prod.fst := rfl
      rw [this, ← List.map_map, List.map_fst_zip (by omega)]
  refine ⟨?_, hok⟩
  have hm := mkObj_of_ok _ hok
  unfold objFromMesh3d
  rw [hb]
  simp only [Bool.and_self, if_true]
  rw [unroll_eq m h cs hc hlen]
  cases inn <;> exact hm

theorem printable_unroll (m : Mesh3I α) (h : MeshOk m) (cs : List (Color α))
    (hlen : cs.length = m.faces.length) (hp : ColorsPrintable cs) :
    ColorsPrintable ((m.faces.zip cs).flatMap (fun p => List.replicate p.1.length p.2)) := by
  have hhead : ((m.faces.zip cs).flatMap (fun p => List.replicate p.1.length p.2)).head? =
      cs.head? := by
    match hf : m.faces, hcs : cs with
    | [], _ => exact absurd hf h.faces_ne
    | f :: ft, [] => simp [hf] at hlen
    | f :: ft, c :: ct =>
      have : f.length = 3 ∨ f.length = 4 := (h.faces_ok f (by simp [hf])).1
      rcases this with e | e <;> simp [e, List.replicate_succ]
  have hmem : ∀ c ∈ (m.faces.zip cs).flatMap (fun p => List.replicate p.1.length p.2), c ∈ cs := by
    intro c hc
    obtain ⟨p, hp, hcp⟩ := List.mem_flatMap.mp hc
    rw [(List.mem_replicate.mp hcp).2]
    exact (List.of_mem_zip hp).2
  unfold ColorsPrintable at hp ⊢
  rw [hhead]
  split_ifs at hp ⊢ with hl
  · exact fun c hc => hp c (hmem c hc)
  · exact fun c hc => hp c (hmem c hc)

/-- The OBJ object `Mesh3D.to_obj` writes. -/
def objOfMesh (M : MathOps α) (m : Mesh3I α) (ic inn : Bool) : Obj α :=
  if (ic && m.isColorByFace) = true then unrolledObj M m (m.colors.getD []) inn
  else plainObj M m ic inn

/-- **`Mesh3D.from_obj ∘ Mesh3D.to_obj`** (model level), all option combinations: for a mesh that
satisfies the constructor's guards (and whose colours are printable, if they are written),
`to_obj` succeeds and `from_obj` of the written lines is the `Mesh3D` constructor applied to the
vertices (unrolled per face corner for face colours), the faces (triangulated if requested) and
the read-back colours. -/
theorem mesh_obj_roundtrip (M : MathOps α) (fmt : α → α) (m : Mesh3I α)
    (ic inn tri mtl : Bool) (name : Tok α) (h : MeshOk m)
    (hvn : inn = true → (vertexNormals M m).length = m.vertices.length)
    (hp : ic = true → ∀ cs, m.colors = some cs → ColorsPrintable cs) :
    ObjOk (objOfMesh M m ic inn) ∧
    ∃ file, meshToObj M fmt m ic inn tri mtl name = .ok file ∧
      objFromFile file = .ok (objReadBack fmt (objOfMesh M m ic inn) tri mtl) ∧
      meshFromObj file =
        mkMesh ((objOfMesh M m ic inn).vertices.map (fmt3 fmt))
          (readBackFaces (objOfMesh M m ic inn).faces tri)
          (readBackColors fmt (objOfMesh M m ic inn).colors) := by
  have key : objFromMesh3d M m ic inn = .ok (objOfMesh M m ic inn) ∧
      ObjOk (objOfMesh M m ic inn) ∧
      (∀ cs, (objOfMesh M m ic inn).colors = some cs → ColorsPrintable cs) := by
    unfold objOfMesh
    by_cases hb : (ic && m.isColorByFace) = true
    · rw [if_pos hb]
      have hic : ic = true := by cases ic <;> simp_all
      have hbf : m.isColorByFace = true := by cases ic <;> simp_all
      obtain ⟨cs, hc, hlen⟩ := h.byFace_colors hbf
      subst hic
      rw [hc, Option.getD_some]
      obtain ⟨h1, h2⟩ := objFromMesh3d_unroll M m h hbf cs hc inn
      refine ⟨h1, h2, ?_⟩
      intro cs' hcs'
      simp only [unrolledObj, Option.some.injEq] at hcs'
      subst hcs'
      exact printable_unroll m h cs hlen (hp rfl cs hc)
    · rw [if_neg hb]
      have hb' : (ic && m.isColorByFace) = false := by simpa using hb
      obtain ⟨h1, h2⟩ := objFromMesh3d_plain M m h ic inn hb' hvn
      refine ⟨h1, h2, ?_⟩
      intro cs hcs
      cases ic
      · cases hcs
      · exact hp rfl cs hcs
  obtain ⟨k1, k2, k3⟩ := key
  refine ⟨k2, ?_⟩
  obtain ⟨file, hw, hr⟩ := obj_roundtrip fmt _ tri mtl name k2 k3
  refine ⟨file, ?_, hr, ?_⟩
  · unfold meshToObj
    rw [k1]
    exact hw
  · unfold meshFromObj
    rw [hr]
    rfl



/-! ## STL: the text reader on the writer's lines -/

theorem stlStep_solid (st : SState α) (name : String) :
    stlStep st [.w "solid", .w name] = .ok { st with name := name } := by
  simp [stlStep, keyword, tokText]; rfl

theorem stlStep_endsolid (st : SState α) (name : String) :
    stlStep st [.w "endsolid", .w name] = .ok st := by
  simp [stlStep, keyword]; rfl

theorem stlStep_facet (fmt : α → α) (st : SState α) (nrm : V3 α) :
    stlStep st [.w "facet", .w "normal", .n (fmt nrm.x), .n (fmt nrm.y), .n (fmt nrm.z)] =
      .ok { st with cur := some [], fn := st.fn ++ [fmt3 fmt nrm] } := by
  simp [stlStep, keyword, floatAt, wordAt, tokFloat, fmt3]; rfl

theorem stlStep_outer (st : SState α) : stlStep st [.w "outer", .w "loop"] = .ok st := by
  simp [stlStep, keyword]; rfl

theorem stlStep_endfacet (st : SState α) : stlStep st [.w "endfacet"] = .ok st := by
  simp [stlStep, keyword]; rfl

theorem stlStep_vertex (fmt : α → α) (st : SState α) (acc : List (V3 α)) (p : V3 α)
    (hc : st.cur = some acc) :
    stlStep st [.w "vertex", .n (fmt p.x), .n (fmt p.y), .n (fmt p.z)] =
      .ok { st with cur := some (acc ++ [fmt3 fmt p]) } := by
  simp [stlStep, keyword, hc, floatAt, wordAt, tokFloat, fmt3]; rfl

theorem stlStep_endloop (st : SState α) (acc : List (V3 α)) (hc : st.cur = some acc) :
    stlStep st [.w "endloop"] = .ok { st with fv := st.fv ++ [acc] } := by
  simp [stlStep, keyword, hc]; rfl

theorem read_stl_vertices (fmt : α → α) (pts : List (V3 α)) (st : SState α) (acc : List (V3 α))
    (hc : st.cur = some acc) :
    (pts.map (fun p => [Tok.w "vertex", .n (fmt p.x), .n (fmt p.y), .n (fmt p.z)])).foldlM
        stlStep st = .ok { st with cur := some (acc ++ pts.map (fmt3 fmt)) } := by
  induction pts generalizing st acc with
  | nil => simp [hc.symm]; rfl
  | cons p t ih =>
    rw [List.map_cons, List.foldlM_cons, stlStep_vertex fmt st acc p hc]
    have := ih { st with cur := some (acc ++ [fmt3 fmt p]) } (acc ++ [fmt3 fmt p]) rfl
    simp only [List.append_assoc, List.singleton_append] at this
    exact this

/-- One facet block. -/
theorem read_stl_facet (fmt : α → α) (fn : List (V3 α) × V3 α) (st : SState α) :
    (stlFacetLines fmt fn).foldlM stlStep st =
      .ok ⟨some (fn.1.map (fmt3 fmt)), st.fv ++ [fn.1.map (fmt3 fmt)],
           st.fn ++ [fmt3 fmt fn.2], st.name⟩ := by
  unfold stlFacetLines
  rw [List.append_assoc, List.cons_append, List.cons_append, List.nil_append,
    foldlM_cons_ok _ _ _ _ _ (stlStep_facet fmt st fn.2),
    foldlM_cons_ok _ _ _ _ _ (stlStep_outer _),
    foldlM_append_ok _ _ _ _ _ (read_stl_vertices fmt fn.1 _ [] rfl),
    foldlM_cons_ok _ _ _ _ _ (stlStep_endloop _ ([] ++ fn.1.map (fmt3 fmt)) rfl),
    foldlM_cons_ok _ _ _ _ _ (stlStep_endfacet _)]
  simp
  rfl

/-- All facet blocks: the locals of `_load_text_stl` afterwards (`cur` is whatever the last
facet left). -/
theorem read_stl_facets (fmt : α → α) (l : List (List (V3 α) × V3 α)) (st : SState α) :
    ∃ c, (l.flatMap (stlFacetLines fmt)).foldlM stlStep st =
      .ok ⟨c, st.fv ++ l.map (fun fn => fn.1.map (fmt3 fmt)),
           st.fn ++ l.map (fun fn => fmt3 fmt fn.2), st.name⟩ := by
  induction l generalizing st with
  | nil => exact ⟨st.cur, by simp; rfl⟩
  | cons a t ih =>
    rw [List.flatMap_cons, foldlM_append_ok _ _ _ _ _ (read_stl_facet fmt a st)]
    obtain ⟨c, hc⟩ := ih ⟨some (a.1.map (fmt3 fmt)), st.fv ++ [a.1.map (fmt3 fmt)],
      st.fn ++ [fmt3 fmt a.2], st.name⟩
    refine ⟨c, ?_⟩
    rw [hc]
    simp

/-- Exactly the guards of `STL.__init__`: a legal name, triangles only, one normal per face. -/
structure StlOk (s : Stl α) : Prop where
  name_ok : nameOk s.name = true
  tris : ∀ f ∈ s.faceVertices, f.length = 3
  same_len : s.faceVertices.length = s.faceNormals.length

theorem mkStl_ok (name : String) (fv : List (List (V3 α))) (fn : List (V3 α))
    (h : StlOk (⟨name, fv, fn⟩ : Stl α)) : mkStl name fv fn = .ok ⟨name, fv, fn⟩ := by
  unfold mkStl
  have h1 := h.name_ok
  have h2 : fv.all (fun f => decide (f.length = 3)) = true := by
    rw [List.all_eq_true]; intro f hf; simpa using h.tris f hf
  have h3 := h.same_len
  simp only at h1 h3
  simp [h1, h2, h3]
  rfl

/-- **ASCII STL round trip at the STL level** (model): the text reader applied to the lines
`STL.to_file` writes returns the same name, the same triangles in the same order and the same
normals, every number replaced by the value of its printed text. -/
theorem stl_text_roundtrip (fmt : α → α) (s : Stl α) (h : StlOk s) :
    stlFromFile (.text (stlToFile fmt s)) =
      .ok ⟨s.name, s.faceVertices.map (fun f => f.map (fmt3 fmt)),
           s.faceNormals.map (fmt3 fmt)⟩ := by
  have hs : startsSolid (stlToFile fmt s) = true := by
    simp [startsSolid, stlToFile]
  unfold stlFromFile
  simp only [hs, if_true]
  unfold stlLoadText stlToFile
  obtain ⟨c, hc⟩ := read_stl_facets fmt (s.faceVertices.zip s.faceNormals)
    (⟨none, [], [], s.name⟩ : SState α)
  rw [List.append_assoc, List.singleton_append,
    foldlM_cons_ok _ _ _ _ (⟨none, [], [], s.name⟩ : SState α) (stlStep_solid _ _),
    foldlM_append_ok _ _ _ _ _ hc,
    foldlM_cons_ok _ _ _ _ _ (stlStep_endsolid _ _), List.foldlM_nil]
  have e1 : (s.faceVertices.zip s.faceNormals).map (fun fn => fn.1.map (fmt3 fmt)) =
      s.faceVertices.map (fun f => f.map (fmt3 fmt)) := by
    have : (fun fn : List (V3 α) × V3 α => fn.1.map (fmt3 fmt)) =
        (fun f => f.map (fmt3 fmt)) ∘ Prod.fst := rfl
    rw [this, ← List.map_map, List.map_fst_zip (by have := h.same_len; omega)]
  have e2 : (s.faceVertices.zip s.faceNormals).map (fun fn => fmt3 fmt fn.2) =
      s.faceNormals.map (fmt3 fmt) := by
    have : (fun fn : List (V3 α) × V3 α => fmt3 fmt fn.2) = fmt3 fmt ∘ Prod.snd := rfl
    rw [this, ← List.map_map, List.map_snd_zip (by have := h.same_len; omega)]
  show mkStl _ _ _ = _
  simp only [List.nil_append, e1, e2]
  apply mkStl_ok
  refine ⟨h.name_ok, ?_, by simpa using h.same_len⟩
  intro f hf
  obtain ⟨g, hg, rfl⟩ := List.mem_map.mp hf
  simpa using h.tris g hg


/-! ## `STL.from_mesh3d` -/

theorem stlFaceTris_eq (vs : List (V3 α)) (f : List ℤ) (nrm : V3 α)
    (hf : f.length = 3 ∨ f.length = 4) :
    stlFaceTris vs (f, nrm) = (stlSplit f).map (fun t => (faceVertsZ vs t, nrm)) := by
  rcases hf with h | h
  · match f, h with
    | [a, b, c], _ => simp [stlFaceTris, stlSplit]
  · match f, h with
    | [a, b, c, d], _ => simp [stlFaceTris, stlSplit, faceVertsZ]

theorem stlSplit_length (f : List ℤ) (hf : f.length = 3 ∨ f.length = 4) :
    (stlSplit f).length = if f.length = 3 then 1 else 2 := by
  rcases hf with h | h
  · match f, h with
    | [a, b, c], _ => rfl
  · match f, h with
    | [a, b, c, d], _ => rfl

theorem stlSplit_tri (f t : List ℤ) (hf : f.length = 3 ∨ f.length = 4) (ht : t ∈ stlSplit f) :
    t.length = 3 ∧ ∀ i ∈ t, i ∈ f := by
  rcases hf with h | h
  · match f, h with
    | [a, b, c], _ => simp [stlSplit] at ht; subst ht; simp
  · match f, h with
    | [a, b, c, d], _ =>
      simp [stlSplit] at ht
      rcases ht with rfl | rfl <;> simp

/-- The (triangle, normal) pairs `STL.from_mesh3d` collects. -/
def stlPairs (M : MathOps α) (m : Mesh3I α) : List (List (V3 α) × V3 α) :=
  (m.faces.zip (faceNormals M m)).flatMap
    (fun fn => (stlSplit fn.1).map (fun t => (faceVertsZ m.vertices t, fn.2)))

theorem stlFromMesh3d_eq (M : MathOps α) (m : Mesh3I α) (name : String) (h : MeshOk m)
    (hn : nameOk name = true) :
    stlFromMesh3d M m name =
      .ok ⟨name, (stlPairs M m).map Prod.fst, (stlPairs M m).map Prod.snd⟩ ∧
    StlOk (⟨name, (stlPairs M m).map Prod.fst, (stlPairs M m).map Prod.snd⟩ : Stl α) := by
  have e : (m.faces.zip (faceNormals M m)).flatMap (stlFaceTris m.vertices) = stlPairs M m := by
    unfold stlPairs
    apply List.flatMap_congr
    intro fn hfn
    exact stlFaceTris_eq m.vertices fn.1 fn.2 (h.faces_ok fn.1 (List.of_mem_zip hfn).1).1
  have hok : StlOk (⟨name, (stlPairs M m).map Prod.fst, (stlPairs M m).map Prod.snd⟩ : Stl α) := by
    refine ⟨hn, ?_, by simp⟩
    intro f hf
    obtain ⟨p, hp, rfl⟩ := List.mem_map.mp hf
    unfold stlPairs at hp
    obtain ⟨fn, hfn, hp⟩ := List.mem_flatMap.mp hp
    obtain ⟨t, ht, rfl⟩ := List.mem_map.mp hp
    have := (stlSplit_tri fn.1 t (h.faces_ok fn.1 (List.of_mem_zip hfn).1).1 ht).1
    simpa [faceVertsZ] using this
  refine ⟨?_, hok⟩
  unfold stlFromMesh3d
  simp only [e]
  exact mkStl_ok _ _ _ hok

/-- Number of STL triangles = number of triangle faces + twice the number of quad faces. -/
theorem stlPairs_length (M : MathOps α) (m : Mesh3I α) (h : MeshOk m)
    (hl : (faceNormals M m).length = m.faces.length) :
    (stlPairs M m).length =
      m.faces.countP (fun f => decide (f.length = 3)) +
        2 * m.faces.countP (fun f => decide (f.length = 4)) := by
  unfold stlPairs
  have hf := h.faces_ok
  generalize faceNormals M m = ns at hl
  generalize m.vertices = vs at hf ⊢
  generalize m.faces = fs at hl hf ⊢
  induction fs generalizing ns with
  | nil => simp
  | cons f t ih =>
    match ns, hl with
    | nrm :: nt, hl =>
      have hlt : nt.length = t.length := by simpa using hl
      have := ih nt hlt (fun g hg => hf g (by simp [hg]))
      simp only [List.zip_cons_cons, List.flatMap_cons, List.length_append, List.length_map,
        this, List.countP_cons]
      rcases (hf f (by simp)).1 with e | e
      · rw [stlSplit_length f (Or.inl e)]; simp [e]; ring
      · rw [stlSplit_length f (Or.inr e)]; simp [e]; ring

/-- Cold normals: the normal of a triangle face is the generated kernel
`mesh3d_normal_area_tri` on its three corner points, of a quad face `mesh3d_normal_area_quad`. -/
theorem faceNormals_cold (M : MathOps α) (m : Mesh3I α) (hc : m.faceNormals = none) :
    faceNormals M m = m.faces.map (fun f => (MeshCache3.faceNA M (faceVertsZ m.vertices f)).1) := by
  unfold Interop.faceNormals; rw [hc]

theorem faceNormals_length (M : MathOps α) (m : Mesh3I α)
    (hc : ∀ l, m.faceNormals = some (.inr l) → l.length = m.faces.length) :
    (faceNormals M m).length = m.faces.length := by
  unfold Interop.faceNormals
  cases hfn : m.faceNormals with
  | none => simp
  | some s =>
    cases s with
    | inl v => simp
    | inr l => exact hc l hfn

/-! ## Vertex welding (`from_face_vertices`, purge=True) -/

section weld
variable {β : Type} [DecidableEq β]

theorem idxOf_getElem? (l : List β) (v : β) (h : l.idxOf v < l.length) :
    l[l.idxOf v]? = some v := by
  rw [List.getElem?_eq_getElem h]
  simp

theorem getElem?_append_of_some (l e : List β) (k : ℕ) (x : β) (h : l[k]? = some x) :
    (l ++ e)[k]? = some x := by
  have hk : k < l.length := by
    by_contra hc
    rw [List.getElem?_eq_none (Nat.le_of_not_lt hc)] at h
    cases h
  rw [List.getElem?_append_left hk]; exact h

/-- One face through the welding loop. -/
theorem weld_face (f : List β) (vs : List β) (ind : List ℕ) (hnd : vs.Nodup) :
    ∃ e ind', f.foldl weldStep (vs, ind) = (vs ++ e, ind ++ ind') ∧ (vs ++ e).Nodup ∧
      ind'.map (fun k => (vs ++ e)[k]?) = f.map some := by
  induction f generalizing vs ind with
  | nil => exact ⟨[], [], by simp, by simpa using hnd, rfl⟩
  | cons v t ih =>
    rw [List.foldl_cons]
    by_cases hk : vs.idxOf v < vs.length
    · have hs : weldStep (vs, ind) v = (vs, ind ++ [vs.idxOf v]) := by simp [weldStep, hk]
      rw [hs]
      obtain ⟨e, ind', h1, h2, h3⟩ := ih vs (ind ++ [vs.idxOf v]) hnd
      refine ⟨e, vs.idxOf v :: ind', by rw [h1]; simp, h2, ?_⟩
      simp only [List.map_cons, h3, List.cons.injEq, and_true]
      exact getElem?_append_of_some _ _ _ _ (idxOf_getElem? vs v hk)
    · have hs : weldStep (vs, ind) v = (vs ++ [v], ind ++ [vs.length]) := by simp [weldStep, hk]
      have hnm : v ∉ vs := by
        intro hm; exact hk (List.idxOf_lt_length_of_mem hm)
      rw [hs]
      obtain ⟨e, ind', h1, h2, h3⟩ := ih (vs ++ [v]) (ind ++ [vs.length])
        (by rw [List.nodup_append]; simp [hnd, hnm]; intro a ha hav; subst hav; exact hnm ha)
      refine ⟨v :: e, vs.length :: ind', by rw [h1]; simp, by simpa using h2, ?_⟩
      simp only [List.append_assoc, List.singleton_append] at h3
      simp only [List.map_cons, h3, List.cons.injEq, and_true]
      simp

/-- **Welding specification**: `from_face_vertices` returns pairwise distinct vertices and, for
every face, indices that look up exactly the face's points, in order. -/
theorem weld_spec (faces : List (List β)) :
    (weld faces).1.Nodup ∧
    (weld faces).2.map (fun f => f.map (fun k => (weld faces).1[k]?)) =
      faces.map (fun f => f.map some) := by
  have gen : ∀ (fs : List (List β)) (vs : List β) (fc : List (List ℕ)), vs.Nodup →
      ∃ e fc', fs.foldl (fun (st : List β × List (List ℕ)) f =>
            let r := f.foldl weldStep (st.1, [])
            (r.1, st.2 ++ [r.2])) (vs, fc) = (vs ++ e, fc ++ fc') ∧ (vs ++ e).Nodup ∧
          fc'.map (fun f => f.map (fun k => (vs ++ e)[k]?)) = fs.map (fun f => f.map some) := by
    intro fs
    induction fs with
    | nil => intro vs fc hnd; exact ⟨[], [], by simp, by simpa using hnd, rfl⟩
    | cons f t ih =>
      intro vs fc hnd
      obtain ⟨e, ind', h1, h2, h3⟩ := weld_face f vs [] hnd
      obtain ⟨e2, fc2, g1, g2, g3⟩ := ih (vs ++ e) (fc ++ [ind']) h2
      refine ⟨e ++ e2, ind' :: fc2, ?_, by simpa [List.append_assoc] using g2, ?_⟩
      · rw [List.foldl_cons]
        simp only [h1, List.nil_append]
        rw [g1]; simp [List.append_assoc]
      · simp only [List.map_cons, List.cons.injEq]
        rw [← List.append_assoc]
        refine ⟨?_, g3⟩
        rw [← h3]
        apply List.map_congr_left
        intro k hk
        have : (vs ++ e)[k]? ∈ ind'.map (fun k => (vs ++ e)[k]?) := List.mem_map.mpr ⟨k, hk, rfl⟩
        rw [h3] at this
        obtain ⟨x, _, hx⟩ := List.mem_map.mp this
        rw [getElem?_append_of_some _ e2 _ _ hx.symm, ← hx]
  obtain ⟨e, fc', h1, h2, h3⟩ := gen faces [] [] List.nodup_nil
  unfold weld
  rw [h1]
  simpa using ⟨h2, h3⟩

end weld


/-! ## `Mesh3D.from_stl ∘ Mesh3D.to_stl` -/

theorem meshFromFaceVertices_spec (tris : List (List (V3 α))) (hne : tris ≠ [])
    (h3 : ∀ t ∈ tris, t.length = 3) :
    ∃ m', meshFromFaceVertices tris = .ok m' ∧
      m'.faces.map (faceVertsZ m'.vertices) = tris ∧ m'.vertices.Nodup ∧
      m'.colors = none ∧ m'.faces.length = tris.length := by
  obtain ⟨hnd, hw⟩ := weld_spec tris
  set vs := (weld tris).1 with hvs
  set fc := (weld tris).2 with hfc
  have hlen : fc.length = tris.length := by
    have := congrArg List.length hw
    simpa using this
  -- every index looks up a point
  have hidx : ∀ f ∈ fc, ∀ k ∈ f, ∃ x, vs[k]? = some x := by
    intro f hf k hk
    have : f.map (fun k => vs[k]?) ∈ tris.map (fun f => f.map some) := by
      rw [← hw]; exact List.mem_map.mpr ⟨f, hf, rfl⟩
    obtain ⟨t, _, ht⟩ := List.mem_map.mp this
    have : vs[k]? ∈ t.map some := by rw [ht]; exact List.mem_map.mpr ⟨k, hk, rfl⟩
    obtain ⟨x, _, hx⟩ := List.mem_map.mp this
    exact ⟨x, hx.symm⟩
  have hflen : ∀ f ∈ fc, f.length = 3 := by
    intro f hf
    have : f.map (fun k => vs[k]?) ∈ tris.map (fun f => f.map some) := by
      rw [← hw]; exact List.mem_map.mpr ⟨f, hf, rfl⟩
    obtain ⟨t, ht, he⟩ := List.mem_map.mp this
    have := congrArg List.length he
    simp only [List.length_map] at this
    rw [← this]; exact h3 t ht
  have hpts : (fc.map (fun f => f.map (fun (k : ℕ) => (k : ℤ)))).map (faceVertsZ vs) = tris := by
    have := congrArg (List.map (fun f => f.map (fun o : Option (V3 α) => o.getD ⟨0, 0, 0⟩))) hw
    simp only [List.map_map] at this
    have e2 : (tris.map ((fun f => f.map (fun o : Option (V3 α) => o.getD ⟨0, 0, 0⟩)) ∘
        fun f => f.map some)) = tris := by
      conv_rhs => rw [← List.map_id tris]
      apply List.map_congr_left
      intro t _
      simp
    rw [e2] at this
    rw [← this, List.map_map]
    apply List.map_congr_left
    intro f _
    simp only [Function.comp, faceVertsZ, List.map_map]
    apply List.map_congr_left
    intro k _
    simp [pyGetD, pyGet_natCast]
  refine ⟨⟨vs, fc.map (fun f => f.map (fun (k : ℕ) => (k : ℤ))), none, false, none, none, none⟩,
    ?_, hpts, hnd, rfl, by simpa using hlen⟩
  unfold meshFromFaceVertices
  rw [mkMesh_ok_iff]
  refine ⟨⟨?_, ?_⟩, (none, false), rfl, rfl⟩
  · intro h0
    have := congrArg List.length h0
    simp only [List.length_map, List.length_nil] at this
    rw [← hfc, hlen] at this
    exact hne (List.length_eq_zero_iff.mp this)
  · intro f hf
    obtain ⟨g, hg, rfl⟩ := List.mem_map.mp hf
    refine ⟨Or.inl (by simpa using hflen g hg), ?_⟩
    intro i hi
    obtain ⟨k, hk, rfl⟩ := List.mem_map.mp hi
    obtain ⟨x, hx⟩ := hidx g hg k hk
    apply pyIdx_isSome_of_range
    · omega
    · have : k < vs.length := by
        by_contra hc
        rw [List.getElem?_eq_none (Nat.le_of_not_lt hc)] at hx
        cases hx
      exact_mod_cast this

theorem nameOk_polyhedron : nameOk "polyhedron" = true := by decide +kernel

theorem stlPairs_ne_nil (M : MathOps α) (m : Mesh3I α) (h : MeshOk m)
    (hl : (faceNormals M m).length = m.faces.length) : stlPairs M m ≠ [] := by
  intro h0
  have := stlPairs_length M m h hl
  rw [h0] at this
  obtain ⟨f, hf⟩ := List.exists_mem_of_ne_nil _ h.faces_ne
  have h34 := (h.faces_ok f hf).1
  have c3 : f.length = 3 → 0 < m.faces.countP (fun f => decide (f.length = 3)) :=
    fun e => List.countP_pos_iff.mpr ⟨f, hf, by simpa using e⟩
  have c4 : f.length = 4 → 0 < m.faces.countP (fun f => decide (f.length = 4)) :=
    fun e => List.countP_pos_iff.mpr ⟨f, hf, by simpa using e⟩
  simp only [List.length_nil] at this
  rcases h34 with e | e
  · have := c3 e; omega
  · have := c4 e; omega

/-- **`Mesh3D.from_stl ∘ Mesh3D.to_stl`** (model level). -/
theorem mesh_stl_roundtrip (M : MathOps α) (fmt : α → α) (m : Mesh3I α) (h : MeshOk m)
    (hl : (faceNormals M m).length = m.faces.length) :
    ∃ file, meshToStl M fmt m = .ok file ∧
      stlFromFile (.text file) =
        .ok ⟨"polyhedron", (stlPairs M m).map (fun p => p.1.map (fmt3 fmt)),
             (stlPairs M m).map (fun p => fmt3 fmt p.2)⟩ ∧
      ∃ m', meshFromStl (.text file) = .ok m' ∧
        m'.faces.map (faceVertsZ m'.vertices) =
          (stlPairs M m).map (fun p => p.1.map (fmt3 fmt)) ∧
        m'.vertices.Nodup ∧ m'.colors = none ∧ m'.faces.length = (stlPairs M m).length := by
  obtain ⟨h1, h2⟩ := stlFromMesh3d_eq M m "polyhedron" h nameOk_polyhedron
  have hr := stl_text_roundtrip fmt _ h2
  simp only [List.map_map] at hr
  refine ⟨_, by unfold meshToStl; rw [h1]; rfl, hr, ?_⟩
  have hne : (stlPairs M m).map (fun p => p.1.map (fmt3 fmt)) ≠ [] := by
    simpa using stlPairs_ne_nil M m h hl
  have h3 : ∀ t ∈ (stlPairs M m).map (fun p => p.1.map (fmt3 fmt)), t.length = 3 := by
    intro t ht
    obtain ⟨p, hp, rfl⟩ := List.mem_map.mp ht
    simpa using h2.tris p.1 (List.mem_map.mpr ⟨p, hp, rfl⟩)
  obtain ⟨m', g1, g2, g3, g4, g5⟩ := meshFromFaceVertices_spec _ hne h3
  refine ⟨m', ?_, g2, g3, g4, by simpa using g5⟩
  unfold meshFromStl
  rw [hr]
  exact g1


/-! ## `Mesh2D.triangulated`: colours -/

theorem triangulateFace_length (K : MeshCache.Kern α) (vs : List (V2 α)) (f : List ℕ)
    (hf : f.length = 3 ∨ f.length = 4) :
    (MeshCache.triangulateFace K vs f).length = if f.length = 3 then 1 else 2 := by
  rcases hf with h | h
  · match f, h with
    | [a, b, c], _ => rfl
  · match f, h with
    | [a, b, c, d], _ =>
      simp only [MeshCache.triangulateFace]
      split_ifs <;> simp_all

theorem zipIdx_lookup {γ δ : Type} (F : List ℕ → Option γ → List δ) (faces : List (List ℕ))
    (pre colors : List γ) (hlen : colors.length = faces.length) :
    (faces.zipIdx pre.length).flatMap (fun fi => F fi.1 ((pre ++ colors)[fi.2]?)) =
      (faces.zip colors).flatMap (fun p => F p.1 (some p.2)) := by
  induction faces generalizing pre colors with
  | nil => simp
  | cons f t ih =>
    match colors, hlen with
    | c :: ct, hlen =>
      simp only [List.zipIdx_cons, List.flatMap_cons, List.zip_cons_cons]
      congr 1
      · simp
      · have := ih (pre ++ [c]) ct (by simpa using hlen)
        simp only [List.length_append, List.length_singleton, List.append_assoc,
          List.singleton_append] at this
        exact this

/-- Face colours after `triangulated()`: each face's colour once per triangle it becomes. -/
theorem triColors_eq {γ : Type} (K : MeshCache.Kern α) (vs : List (V2 α)) (faces : List (List ℕ))
    (colors : List γ) (hlen : colors.length = faces.length)
    (hf : ∀ f ∈ faces, f.length = 3 ∨ f.length = 4) :
    triColors faces colors =
      (faces.zip colors).flatMap
        (fun p => List.replicate (MeshCache.triangulateFace K vs p.1).length p.2) := by
  unfold triColors
  have := zipIdx_lookup (fun (f : List ℕ) (o : Option γ) =>
    if f.length = 3 then o.toList else o.toList ++ o.toList) faces [] colors hlen
  simp only [List.length_nil, List.nil_append] at this
  rw [this]
  apply List.flatMap_congr
  intro p hp
  have h34 := hf p.1 (List.of_mem_zip hp).1
  rw [triangulateFace_length K vs p.1 h34]
  split_ifs <;> rfl

theorem zip_replicate_map {γ δ : Type} (l : List δ) (c : γ) :
    l.zip (List.replicate l.length c) = l.map (fun x => (x, c)) := by
  induction l with
  | nil => rfl
  | cons a t ih => simp [List.replicate_succ, ih]

theorem zip_flatMap_replicate {γ δ ε : Type} (l : List ε) (A : ε → List δ) (c : ε → γ) :
    (l.flatMap A).zip (l.flatMap (fun p => List.replicate (A p).length (c p))) =
      l.flatMap (fun p => (A p).map (fun x => (x, c p))) := by
  induction l with
  | nil => rfl
  | cons a t ih =>
    simp only [List.flatMap_cons]
    rw [List.zip_append (by simp), zip_replicate_map, ih]

/-- **Alignment after `triangulated()`**: pairing the new faces with the new face colours gives,
face by face, every triangle of the old face paired with the old face's colour. -/
theorem triangulated_aligned {γ : Type} (K : MeshCache.Kern α) (vs : List (V2 α))
    (faces : List (List ℕ)) (colors : List γ) (hlen : colors.length = faces.length)
    (hf : ∀ f ∈ faces, f.length = 3 ∨ f.length = 4) :
    (faces.flatMap (MeshCache.triangulateFace K vs)).zip (triColors faces colors) =
      (faces.zip colors).flatMap
        (fun p => (MeshCache.triangulateFace K vs p.1).map (fun t => (t, p.2))) ∧
    (triColors faces colors).length = (faces.flatMap (MeshCache.triangulateFace K vs)).length := by
  rw [triColors_eq K vs faces colors hlen hf]
  have e : faces.flatMap (MeshCache.triangulateFace K vs) =
      (faces.zip colors).flatMap (fun p => MeshCache.triangulateFace K vs p.1) := by
    conv_lhs => rw [← List.map_fst_zip (l₁ := faces) (l₂ := colors) (by omega)]
    rw [List.flatMap_map]
  rw [e]
  refine ⟨zip_flatMap_replicate _ _ _, ?_⟩
  simp only [List.length_flatMap, List.length_replicate]


/-! ## Small facts used by the property statements -/

theorem fmt3_id (l : List (V3 α)) : l.map (fmt3 id) = l := by
  conv_rhs => rw [← List.map_id l]
  apply List.map_congr_left; intro v _; cases v; rfl

theorem fmt2_id (l : List (V2 α)) : l.map (fmt2 id) = l := by
  conv_rhs => rw [← List.map_id l]
  apply List.map_congr_left; intro v _; cases v; rfl

theorem readBackFaces_mesh_ok (nv : ℕ) (fs : List (List ℤ)) (tri : Bool)
    (h : ∀ f ∈ fs, 3 ≤ f.length ∧ ∀ i ∈ f, (pyIdx nv i).isSome = true) :
    ∀ g ∈ readBackFaces fs tri, (g.length = 3 ∨ g.length = 4) ∧
      ∀ i ∈ g, (pyIdx nv i).isSome = true := by
  intro g hg
  unfold readBackFaces at hg
  obtain ⟨g0, hg0, rfl⟩ := List.mem_map.mp hg
  have key : 3 ≤ g0.length ∧ ∀ i ∈ g0, (pyIdx nv i).isSome = true := by
    cases tri
    · exact h g0 (by simpa using hg0)
    · simp only [if_true, List.mem_flatMap] at hg0
      obtain ⟨f, hf, hgf⟩ := hg0
      obtain ⟨_, h3, hsub⟩ := objSplit_mem f g0 (h f hf).1 hgf
      exact ⟨h3, fun i hi => (h f hf).2 i (hsub i hi)⟩
  obtain ⟨h3, hsub⟩ := trunc4_mem g0 key.1
  refine ⟨?_, fun i hi => key.2 i (hsub i hi)⟩
  unfold trunc4 at h3 ⊢
  split_ifs at h3 ⊢ with hl
  · right; rw [List.length_take]; omega
  · omega


end Lbg.Lemmas.Interop
