/-
  Lemmas.Outward — helper lemmas about `Model/Outward.lean` used by `Props/C07b.lean`:
  the hit-count loops as `countP`, the bounding rectangle as a function of the vertex SET,
  the volume loop as a list sum.
-/
import LbgVerif.Model.Outward
import LbgVerif.Lemmas.PointInside
import LbgVerif.Lemmas.Isect3
import LbgVerif.Props.C10
import LbgVerif.Props.C01
import LbgVerif.Props.C02
import LbgVerif.Lemmas.Shoelace
import Mathlib.Tactic.SplitIfs
import Mathlib.Tactic.Ring
import Mathlib.Tactic.Linarith
import Mathlib.Data.List.Perm.Basic
import Mathlib.Data.List.Rotate

set_option linter.unusedSectionVars false

namespace Lbg.Lemmas.Outward
open Lbg Lbg.Gen Lbg.Lemmas Lbg.Model.Outward Lbg.Model.PointInside Lbg.Lemmas.PointInside
variable {α : Type} [Field α] [LinearOrder α] [IsStrictOrderedRing α]

/-- The counting loop adds the number of faces hit. -/
theorem countHitsFrom_eq (ray : LR3 α) (n : Nat) (fs : List (Face α)) :
    countHitsFrom ray n fs = n + fs.countP (rayHits ray) := by
  unfold countHitsFrom
  exact foldl_count (rayHits ray) fs n

/-- The faces other than face `i`, in the order `get_outward_faces` visits them. -/
def others (faces : List (Face α)) (i : Nat) : List (Face α) := faces.drop (i + 1) ++ faces.take i

/-- `n_int` of face `i` is the number of OTHER faces hit by its test ray. -/
theorem nInt_eq (M : MathOps α) (faces : List (Face α)) (tol : α) (i : Nat) (face : Face α) :
    nInt M faces tol i face = (others faces i).countP (rayHits (testRay M face tol)) := by
  unfold nInt others
  simp only [countHitsFrom_eq, List.countP_append]
  omega

/-! ### Bounding rectangle -/

theorem boundRect_unique (v0 : V2 α) (rest : List (V2 α)) (w0 : V2 α) (rest' : List (V2 α))
    (h : ∀ v, v ∈ v0 :: rest ↔ v ∈ w0 :: rest') : boundRect v0 rest = boundRect w0 rest' := by
  have e1 : boundRect v0 rest = Lbg.Props.C10.minMax2 v0 rest := rfl
  have e2 : boundRect w0 rest' = Lbg.Props.C10.minMax2 w0 rest' := rfl
  rw [e1, e2]
  obtain ⟨_, _, a3, ⟨ax, hax, eax⟩, ⟨ay, hay, eay⟩, ⟨bx, hbx, ebx⟩, ⟨by', hby, eby⟩⟩ :=
    Lbg.Props.C10.minMax2_spec v0 rest
  obtain ⟨_, _, c3, ⟨cx, hcx, ecx⟩, ⟨cy, hcy, ecy⟩, ⟨dx, hdx, edx⟩, ⟨dy, hdy, edy⟩⟩ :=
    Lbg.Props.C10.minMax2_spec w0 rest'
  generalize Lbg.Props.C10.minMax2 v0 rest = A at *
  generalize Lbg.Props.C10.minMax2 w0 rest' = B at *
  obtain ⟨⟨a1, a2⟩, ⟨b1, b2⟩⟩ := A
  obtain ⟨⟨c1, c2⟩, ⟨d1, d2⟩⟩ := B
  simp only at *
  have h1 : a1 = c1 := le_antisymm (ecx ▸ (a3 cx ((h cx).mpr hcx)).1)
    (eax ▸ (c3 ax ((h ax).mp hax)).1)
  have h2 : a2 = c2 := le_antisymm (ecy ▸ (a3 cy ((h cy).mpr hcy)).2.2.1)
    (eay ▸ (c3 ay ((h ay).mp hay)).2.2.1)
  have h3 : b1 = d1 := le_antisymm (ebx ▸ (c3 bx ((h bx).mp hbx)).2.1)
    (edx ▸ (a3 dx ((h dx).mpr hdx)).2.1)
  have h4 : b2 = d2 := le_antisymm (eby ▸ (c3 by' ((h by').mp hby)).2.2.2)
    (edy ▸ (a3 dy ((h dy).mpr hdy)).2.2.2)
  subst h1 h2 h3 h4
  rfl

/-- `is_point_inside_bound_rect` does not depend on the start vertex. -/
theorem isPointInsideBoundRect_rotate (vs : List (V2 α)) (n : ℕ) (p d : V2 α) :
    isPointInsideBoundRect (vs.rotate n) p d = isPointInsideBoundRect vs p d := by
  have hrot : isPointInside (vs.rotate n) p d = isPointInside vs p d := by
    rw [isPointInside_eq, isPointInside_eq]
    unfold hits
    rw [countP_cyclicPairs_rotate]
  cases hvs : vs with
  | nil => simp
  | cons v0 rest =>
    cases hr : (v0 :: rest).rotate n with
    | nil =>
      have := congrArg List.length hr
      simp at this
    | cons w0 rest' =>
      unfold isPointInsideBoundRect
      simp only []
      have hb : boundRect w0 rest' = boundRect v0 rest := by
        apply boundRect_unique
        intro v
        rw [← hr, List.mem_rotate]
      rw [hb, ← hr, ← hvs, hrot]

/-! ### `Face3D.flip` on a plane built by `Plane.__init__` -/

/-- `Plane.flip()` of a valid plane (unit normal and x-axis, `y = n × x`, `k = n·o`: what
`Plane.__init__` builds under the `sqrt` law, `C06.plane_init_valid`): normal, `k` and y-axis negated, origin and x-axis kept. -/
theorem plane_flip_eq (M : MathOps α) (hs1 : M.sqrt 1 = 1) (pl : PlaneS α)
    (h : Lbg.Props.C02.PlaneValid pl) :
    plane_flip M pl = ⟨V3.neg pl.n, pl.o, -pl.k, pl.x, V3.neg pl.y⟩ := by
  obtain ⟨⟨nx, ny, nz⟩, ⟨ox, oy, oz⟩, k, ⟨xx, xy, xz⟩, y⟩ := pl
  obtain ⟨hn, hx, _, hy, hk⟩ := h
  simp only [V3.normSq, V3.cross, V3.dot] at hn hx hy hk
  subst hy hk
  have e1 : (-nx) * (-nx) + (-ny) * (-ny) + (-nz) * (-nz) = 1 := by
    rw [neg_mul_neg, neg_mul_neg, neg_mul_neg]; exact hn
  unfold plane_flip
  simp only []
  rw [e1, hx, hs1]
  simp only [one_ne_zero, if_false, div_one, V3.neg, PlaneS.mk.injEq, V3.mk.injEq, true_and]
  refine ⟨?_, ?_, ?_, ?_⟩ <;> ring

/-- Plane coordinates in the flipped plane are the mirror image `(X, -Y)`. -/
theorem xyz_to_xy_flip (pl : PlaneS α) (q : V3 α) :
    plane_xyz_to_xy ⟨V3.neg pl.n, pl.o, -pl.k, pl.x, V3.neg pl.y⟩ q =
      ⟨(plane_xyz_to_xy pl q).x, -(plane_xyz_to_xy pl q).y⟩ := by
  simp only [plane_xyz_to_xy, V3.neg, V2.mk.injEq, true_and]
  ring

/-- `Face3D.flip()` keeps the area. -/
theorem area_flip (M : MathOps α) (hs1 : M.sqrt 1 = 1) (f : Face α)
    (h : Lbg.Props.C02.PlaneValid f.plane) :
    area (Lbg.Model.Outward.flip M f) = area f := by
  unfold area poly2d Lbg.Model.Outward.flip
  simp only []
  rw [plane_flip_eq M hs1 f.plane h]
  rw [Lbg.Props.C01.polygon2d_area_eq, Lbg.Props.C01.polygon2d_area_eq]
  have : f.verts.reverse.map (plane_xyz_to_xy ⟨V3.neg f.plane.n, f.plane.o, -f.plane.k, f.plane.x,
      V3.neg f.plane.y⟩) =
      ((f.verts.map (plane_xyz_to_xy f.plane)).map
        (fun p => (⟨1 * p.x + 0 * p.y, 0 * p.x + (-1) * p.y⟩ : V2 α))).reverse := by
    rw [List.map_reverse, List.map_map]
    congr 1
    apply List.map_congr_left
    intro q _
    rw [Function.comp, xyz_to_xy_flip]
    simp
  rw [this, shoelace_reverse, shoelace_linear]
  have e : -((1 * (-1 : α) - 0 * 0) * shoelace (f.verts.map (plane_xyz_to_xy f.plane))) =
      shoelace (f.verts.map (plane_xyz_to_xy f.plane)) := by ring
  rw [e]

/-- The triple `(face[0], normal, area)` of a flipped face: the last vertex, the reversed
normal, the same area. -/
theorem triple_flip (M : MathOps α) (hs1 : M.sqrt 1 = 1) (f : Face α)
    (h : Lbg.Props.C02.PlaneValid f.plane) :
    triple (Lbg.Model.Outward.flip M f) = (f.verts.getLast?.getD ⟨0, 0, 0⟩, V3.neg f.plane.n, area f) := by
  have ha := area_flip M hs1 f h
  unfold triple
  rw [ha]
  unfold Lbg.Model.Outward.flip
  simp only [List.head?_reverse]
  rw [plane_flip_eq M hs1 f.plane h]

end Lbg.Lemmas.Outward
