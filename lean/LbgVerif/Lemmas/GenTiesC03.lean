/-
  Lemmas.GenTiesC03 — fold-to-recursion lemmas used by `Props/C03g.lean` to identify the
  py2lean-generated per-getter computations (`Gen/Polyline.lean`, `Gen/PolyMore.lean`,
  `Gen/FaceMore.lean`, `Gen/MeshMore.lean`, `Gen/Base2D.lean`) with the fresh-value functions of
  the hand-written cache models (`Model/PolylineCache.lean`, `Model/FaceCache.lean`,
  `Model/MeshCache.lean`).

    * list shapes: `zip (dropLast l) (drop 1 l) = zip l l.tail`,
      `drop 1 l ++ [l.headD d] = l.rotate 1`, the slice `_segs[1 : len(_segs) - 1]`;
    * loops with `break` (state `(broke, value)`): `foldl_break_hit`, `foldl_break_outer`;
    * the comprehension `[x for j, x in enumerate(_segs) if j not in (i, i + 1, i + 2)]`;
    * the two nested loops of `is_self_intersecting` (`selfInt_of_steps`, `selfInt_outer_step`);
    * the `if … elif …` bounding-box scans: `mm2Fold` / `mm3Fold` = `calcMinMax` / `calcMinMax3`;
    * the unrolled convexity test / ray-parity count of `Mesh2D._quad_to_triangles`
      (`quad_tree`, `parity_sel`, `quad_tree_sel`, `isPointInside_quad`).

  No statement mentions a generated `let` variable.
-/
import LbgVerif.Model.PolylineCache
import LbgVerif.Model.FaceCache
import LbgVerif.Lemmas.Isect2
import LbgVerif.Lemmas.GenLoops
import LbgVerif.Lemmas.Cyclic
import Mathlib.Data.List.Rotate
import Mathlib.Tactic.SplitIfs

set_option linter.unusedSectionVars false

namespace Lbg.Lemmas.GenTiesC03
open Lbg Lbg.Gen Lbg.Lemmas Lbg.Model Lbg.Model.MeshCache Lbg.Model.PolylineCache Lbg.Model.FaceCache

/-! ### List shapes -/

section lists
variable {β γ : Type}

/-- `zip(l[:-1], l[1:])` visits the same pairs as `zip(l, l[1:])` (zip stops at the shorter
list). -/
theorem zip_dropLast_drop_one (l : List β) :
    List.zip l.dropLast (l.drop 1) = List.zip l l.tail := by
  induction l with
  | nil => rfl
  | cons a t ih =>
    cases t with
    | nil => rfl
    | cons b u =>
      simp only [List.drop_one, List.tail_cons, List.dropLast_cons_cons, List.zip_cons_cons] at ih ⊢
      rw [ih]

/-- `_segs.append(_segs.pop(0))` on a non-empty list is a rotation by one. -/
theorem drop_one_append_headD (l : List γ) (d : γ) (h : l ≠ []) :
    l.drop 1 ++ [l.headD d] = l.rotate 1 := by
  cases l with
  | nil => exact absurd rfl h
  | cons s t => simp [List.rotate_cons_succ]

/-- The python slice `l[1 : len(l) - 1]` as the translator writes it (negative-index
normalisation of the stop) is `take (len - 2) (drop 1 l)`. -/
theorem slice_one_to_len_pred (l : List γ) :
    List.drop 1 (List.take (Int.toNat (if ((l.length : Int) - 1) < 0
        then (l.length : Int) + ((l.length : Int) - 1) else ((l.length : Int) - 1))) l)
      = (l.drop 1).take (l.length - 2) := by
  rw [List.drop_take]
  congr 1
  split_ifs with h <;> omega

end lists

/-! ### Loops with `break` -/

section breaks
variable {β : Type}

/-- Inner `for … : if hit: value = c; break` loop, as the translator emits it (state =
`(broke, value)`): the final state is `(true, c)` when some element hits, else unchanged. -/
theorem foldl_break_hit (hit : β → Prop) [DecidablePred hit] (c : Bool)
    {step : Bool × Bool → β → Bool × Bool}
    (hstep : ∀ st o, step st o =
      if st.1 = true then st else if hit o then (true, c) else (false, st.2))
    (l : List β) (b : Bool) :
    l.foldl step (false, b)
      = if l.any (fun o => decide (hit o)) = true then (true, c) else (false, b) := by
  have hT : ∀ l : List β, l.foldl step (true, c) = (true, c) := by
    intro l
    induction l with
    | nil => rfl
    | cons a t ih => rw [List.foldl_cons, hstep]; simpa using ih
  induction l with
  | nil => simp
  | cons a t ih =>
    rw [List.foldl_cons, hstep]
    by_cases ha : hit a
    · simp [ha, hT]
    · simp [ha, ih]

/-- Outer loop whose body runs an inner search and then `if value is True: break`: started
from `(false, false)` the value ends `true` exactly when some element's inner search hits. -/
theorem foldl_break_outer (hitO : β → Bool) {step : Bool × Bool → β → Bool × Bool}
    (hstep : ∀ st s, step st s =
      if st.1 = true then st else if (hitO s || st.2) = true then (true, true) else (false, false))
    (l : List β) :
    (l.foldl step (false, false)).2 = l.any hitO := by
  have hT : ∀ l : List β, l.foldl step (true, true) = (true, true) := by
    intro l
    induction l with
    | nil => rfl
    | cons a t ih => rw [List.foldl_cons, hstep]; simpa using ih
  induction l with
  | nil => rfl
  | cons a t ih =>
    rw [List.foldl_cons, hstep]
    by_cases ha : hitO a = true
    · simp only [Bool.false_eq_true, if_false, ha, Bool.true_or, if_true, hT, List.any_cons]
    · rw [Bool.not_eq_true] at ha
      simp only [Bool.false_eq_true, if_false, ha, Bool.or_false, ih, List.any_cons,
        Bool.false_or]

/-- A comprehension with a filter on the element (`[f(x) for x in l if keep(x)]`, emitted as
`filterMap`) is `filter` then `map`. -/
theorem filterMap_eq_filter_map {γ : Type} (keep : β → Bool) (g : β → γ)
    {fm : β → Option γ} (hfm : ∀ e, fm e = if keep e = true then some (g e) else none)
    (l : List β) : l.filterMap fm = (l.filter keep).map g := by
  induction l with
  | nil => rfl
  | cons a t ih =>
    rw [List.filterMap_cons, hfm a, List.filter_cons]
    by_cases h : keep a = true <;> simp [h, ih]

end breaks

/-! ### `is_self_intersecting` (Polyline2D, Polygon2D, Face3D) -/

section selfint
variable {α : Type} [Field α] [LinearOrder α] [IsStrictOrderedRing α]

/-- `LineSegment2D.intersect_line_ray(LineSegment2D)` dispatches to
`intersect_line_segment2d`, which adds an `_isclose` consistency test to `intersect_line2d`;
in exact arithmetic the test never fires, so both kernels agree. -/
theorem intersect_line_segment2d_eq_ss (a b : LR2 α) :
    intersect_line_segment2d a b = intersect_line2d_ss a b := by
  rw [Lbg.Lemmas.intersect_line_segment2d_eq, Lbg.Lemmas.intersect_line2d_ss_eq]

/-- An inner-loop body that walks through seven early exits "no hit" and ends in "hit" is the
test `(… the same seven exits returning `None`, else `some q` …).isSome` (shape of
`intersect_line_segment2d` inlined into the `break` loop; the conditions are arbitrary). -/
theorem hit_tree (c1 c2 c3 c4 c5 c6 c7 : Prop) [Decidable c1] [Decidable c2] [Decidable c3]
    [Decidable c4] [Decidable c5] [Decidable c6] [Decidable c7] (q : V2 α) (st : Bool × Bool) :
    (if st.1 = true then st else
      if c1 then (false, st.2) else if c2 then (false, st.2) else if c3 then (false, st.2)
      else if c4 then (false, st.2) else if c5 then (false, st.2) else if c6 then (false, st.2)
      else if c7 then (false, st.2) else (true, true))
    = if st.1 = true then st else
      if (if c1 then (none : Option (V2 α)) else if c2 then none else if c3 then none
          else if c4 then none else if c5 then none else if c6 then none
          else if c7 then none else some q).isSome = true then (true, true) else (false, st.2) := by
  split_ifs <;> first | rfl | simp_all

/-- The skip test `j not in (i, i + 1, i + 2)` of the hand model. -/
def skip3 (i : Nat) (oj : LR2 α × Nat) : Bool := oj.2 != i && oj.2 != i + 1 && oj.2 != i + 2

/-- Body of the outer loop of `is_self_intersecting` after the `if broke: continue` guard:
the comprehension of the other segments, the inner search with `intersect_line_segment2d`, and
the `if self._is_self_intersecting is True: break`. -/
theorem selfInt_outer_step (segs : List (LR2 α)) (si : LR2 α × Nat) (v : Bool)
    {fm : LR2 α × Nat → Option (LR2 α)}
    (hfm : ∀ e, fm e = if ((si.2 : Nat) : Int) = ((e.2 : Nat) : Int) then none
      else if ((si.2 : Nat) : Int) + 1 = ((e.2 : Nat) : Int) then none
      else if ((si.2 : Nat) : Int) + 2 = ((e.2 : Nat) : Int) then none else some e.1)
    {stepIn : Bool × Bool → LR2 α → Bool × Bool}
    (hin : ∀ st o, stepIn st o = if st.1 = true then st
      else if (intersect_line_segment2d si.1 o).isSome = true then (true, true)
      else (false, st.2)) :
    (if ((segs.zipIdx.filterMap fm).foldl stepIn (false, v)).2 = true
      then (true, ((segs.zipIdx.filterMap fm).foldl stepIn (false, v)).2)
      else (false, ((segs.zipIdx.filterMap fm).foldl stepIn (false, v)).2))
    = if (((segs.zipIdx.filter (skip3 si.2)).any
          (fun oj => (intersect_line2d_ss si.1 oj.1).isSome)) || v) = true
        then (true, true) else (false, false) := by
  have h1 : segs.zipIdx.filterMap fm = (segs.zipIdx.filter (skip3 si.2)).map (·.1) := by
    apply filterMap_eq_filter_map (skip3 si.2) (·.1)
    intro e
    rw [hfm e]
    rcases e with ⟨sg, j⟩
    simp only [skip3, bne_iff_ne, Bool.and_eq_true, ne_eq]
    split_ifs <;> first | rfl | (exfalso; omega)
  rw [h1, foldl_break_hit (fun o => (intersect_line_segment2d si.1 o).isSome = true) true hin,
    List.any_map]
  simp only [Function.comp_def, intersect_line_segment2d_eq_ss, Bool.decide_eq_true]
  cases (segs.zipIdx.filter (skip3 si.2)).any (fun oj => (intersect_line2d_ss si.1 oj.1).isSome)
    <;> cases v <;> rfl

/-- The outer loop of `is_self_intersecting` over `_segs[1 : len(_segs) - 1]`: if every
iteration is the guarded body of `selfInt_outer_step`, the returned flag is the hand model's
`selfIntSegs`. -/
theorem selfInt_of_steps (segs : List (LR2 α))
    {stepOut : Bool × Bool → LR2 α × Nat → Bool × Bool}
    (h : ∀ st si, stepOut st si = if st.1 = true then st else
      if (((segs.zipIdx.filter (skip3 si.2)).any
          (fun oj => (intersect_line2d_ss si.1 oj.1).isSome)) || st.2) = true
        then (true, true) else (false, false)) :
    ((List.zipIdx (List.drop 1 (List.take (Int.toNat (if ((segs.length : Int) - 1) < 0
        then (segs.length : Int) + ((segs.length : Int) - 1) else ((segs.length : Int) - 1)))
        segs))).foldl stepOut (false, false)).2 = selfIntSegs segs := by
  rw [slice_one_to_len_pred,
    foldl_break_outer (fun si => (segs.zipIdx.filter (skip3 si.2)).any
      (fun oj => (intersect_line2d_ss si.1 oj.1).isSome)) h]
  rfl

end selfint

/-! ### Bounding-box scans -/

section minmax
variable {α : Type} [Field α] [LinearOrder α]

/-- One iteration of the generated `_calculate_min_max` loop in 2D; state
`(min.x, min.y, max.x, max.y)`. -/
def mm2Step (st : α × α × α × α) (p : V2 α) : α × α × α × α :=
  ((if p.x < st.1 then p.x else st.1), (if p.y < st.2.1 then p.y else st.2.1),
   (if p.x < st.1 then st.2.2.1 else if st.2.2.1 < p.x then p.x else st.2.2.1),
   (if p.y < st.2.1 then st.2.2.2 else if st.2.2.2 < p.y then p.y else st.2.2.2))

/-- The generated 2D scan: start from `vertices[0]` (four separate reads), loop over
`vertices[1:]`. -/
def mm2Fold (vs : List (V2 α)) : α × α × α × α :=
  (vs.drop 1).foldl mm2Step
    ((vs.headD ⟨0, 0⟩).x, (vs.headD ⟨0, 0⟩).y, (vs.headD ⟨0, 0⟩).x, (vs.headD ⟨0, 0⟩).y)

/-- The generated 2D scan is the hand model's `calcMinMax` (for every list; both give the
origin twice on the empty list, where Python raises `IndexError`). -/
theorem mm2Fold_eq (vs : List (V2 α)) :
    ((⟨(mm2Fold vs).1, (mm2Fold vs).2.1⟩ : V2 α), (⟨(mm2Fold vs).2.2.1, (mm2Fold vs).2.2.2⟩ : V2 α))
      = calcMinMax vs := by
  cases vs with
  | nil => rfl
  | cons v0 rest =>
    unfold mm2Fold calcMinMax
    simp only [List.headD_cons, List.drop_one, List.tail_cons]
    have key := List.foldl_hom (l := rest)
      (f := fun (s : V2 α × V2 α) => (s.1.x, s.1.y, s.2.x, s.2.y))
      (g₁ := fun (st : V2 α × V2 α) (v : V2 α) =>
        ((⟨(if v.x < st.1.x then (v.x, st.2.x) else if v.x > st.2.x then (st.1.x, v.x)
              else (st.1.x, st.2.x)).1,
           (if v.y < st.1.y then (v.y, st.2.y) else if v.y > st.2.y then (st.1.y, v.y)
              else (st.1.y, st.2.y)).1⟩ : V2 α),
         (⟨(if v.x < st.1.x then (v.x, st.2.x) else if v.x > st.2.x then (st.1.x, v.x)
              else (st.1.x, st.2.x)).2,
           (if v.y < st.1.y then (v.y, st.2.y) else if v.y > st.2.y then (st.1.y, v.y)
              else (st.1.y, st.2.y)).2⟩ : V2 α)))
      (g₂ := mm2Step) (init := (v0, v0))
      (by intro s v; unfold mm2Step; simp only [gt_iff_lt]; split_ifs <;> rfl)
    simp only at key
    rw [key]

/-- One iteration of the generated `_calculate_min_max` loop in 3D; state
`(min.x, min.y, min.z, max.x, max.y, max.z)`. -/
def mm3Step (st : α × α × α × α × α × α) (p : V3 α) : α × α × α × α × α × α :=
  ((if p.x < st.1 then p.x else st.1), (if p.y < st.2.1 then p.y else st.2.1),
   (if p.z < st.2.2.1 then p.z else st.2.2.1),
   (if p.x < st.1 then st.2.2.2.1 else if st.2.2.2.1 < p.x then p.x else st.2.2.2.1),
   (if p.y < st.2.1 then st.2.2.2.2.1 else if st.2.2.2.2.1 < p.y then p.y else st.2.2.2.2.1),
   (if p.z < st.2.2.1 then st.2.2.2.2.2 else if st.2.2.2.2.2 < p.z then p.z else st.2.2.2.2.2))

/-- The generated 3D scan. -/
def mm3Fold (vs : List (V3 α)) : α × α × α × α × α × α :=
  (vs.drop 1).foldl mm3Step
    ((vs.headD ⟨0, 0, 0⟩).x, (vs.headD ⟨0, 0, 0⟩).y, (vs.headD ⟨0, 0, 0⟩).z,
     (vs.headD ⟨0, 0, 0⟩).x, (vs.headD ⟨0, 0, 0⟩).y, (vs.headD ⟨0, 0, 0⟩).z)

/-- The generated 3D scan is the hand model's `calcMinMax3`. -/
theorem mm3Fold_eq (vs : List (V3 α)) :
    ((⟨(mm3Fold vs).1, (mm3Fold vs).2.1, (mm3Fold vs).2.2.1⟩ : V3 α),
     (⟨(mm3Fold vs).2.2.2.1, (mm3Fold vs).2.2.2.2.1, (mm3Fold vs).2.2.2.2.2⟩ : V3 α))
      = calcMinMax3 vs := by
  cases vs with
  | nil => rfl
  | cons v0 rest =>
    unfold mm3Fold calcMinMax3
    simp only [List.headD_cons, List.drop_one, List.tail_cons]
    have key := List.foldl_hom (l := rest)
      (f := fun (s : V3 α × V3 α) => (s.1.x, s.1.y, s.1.z, s.2.x, s.2.y, s.2.z))
      (g₁ := fun (st : V3 α × V3 α) (v : V3 α) =>
        ((⟨(if v.x < st.1.x then (v.x, st.2.x) else if v.x > st.2.x then (st.1.x, v.x)
              else (st.1.x, st.2.x)).1,
           (if v.y < st.1.y then (v.y, st.2.y) else if v.y > st.2.y then (st.1.y, v.y)
              else (st.1.y, st.2.y)).1,
           (if v.z < st.1.z then (v.z, st.2.z) else if v.z > st.2.z then (st.1.z, v.z)
              else (st.1.z, st.2.z)).1⟩ : V3 α),
         (⟨(if v.x < st.1.x then (v.x, st.2.x) else if v.x > st.2.x then (st.1.x, v.x)
              else (st.1.x, st.2.x)).2,
           (if v.y < st.1.y then (v.y, st.2.y) else if v.y > st.2.y then (st.1.y, v.y)
              else (st.1.y, st.2.y)).2,
           (if v.z < st.1.z then (v.z, st.2.z) else if v.z > st.2.z then (st.1.z, v.z)
              else (st.1.z, st.2.z)).2⟩ : V3 α)))
      (g₂ := mm3Step) (init := (v0, v0))
      (by intro s v; unfold mm3Step; simp only [gt_iff_lt]; split_ifs <;> rfl)
    simp only at key
    rw [key]

end minmax

/-! ### Closed segment loops -/

section loops
variable {α : Type} [Field α] [LinearOrder α]

/-- The `_segments_from_vertices` loop of `Polygon2D` (append one `from_end_points` per cyclic
pair, then move the first segment to the end) is the hand model's `loopSegs2`. -/
theorem loop2_eq (vs : List (V2 α)) (h : vs ≠ []) (d : LR2 α)
    {step : List (LR2 α) → V2 α × V2 α → List (LR2 α)}
    (hstep : ∀ st pq, step st pq = st ++ [seg2_from_end_points pq.1 pq.2]) :
    List.drop 1 ((cyclicPairs vs).foldl step []) ++ [((cyclicPairs vs).foldl step []).headD d]
      = loopSegs2 vs := by
  rw [foldl_snoc_fun_eq_map (fun pq => seg2_from_end_points pq.1 pq.2) _ _ step hstep,
    List.nil_append, drop_one_append_headD]
  · rfl
  · cases vs with
    | nil => exact absurd rfl h
    | cons a t => simp [cyclicPairs_cons]

/-- The boundary-segment loop of `Face3D` is the hand model's `loopSegs3`. -/
theorem loop3_eq (vs : List (V3 α)) (h : vs ≠ []) (d : LR3 α)
    {step : List (LR3 α) → V3 α × V3 α → List (LR3 α)}
    (hstep : ∀ st pq, step st pq = st ++ [seg3_from_end_points pq.1 pq.2]) :
    List.drop 1 ((cyclicPairs vs).foldl step []) ++ [((cyclicPairs vs).foldl step []).headD d]
      = loopSegs3 vs := by
  rw [foldl_snoc_fun_eq_map (fun pq => seg3_from_end_points pq.1 pq.2) _ _ step hstep,
    List.nil_append, drop_one_append_headD]
  · rfl
  · cases vs with
    | nil => exact absurd rfl h
    | cons a t => simp [cyclicPairs_cons]

end loops

/-! ### Quadrilateral faces of `Mesh2D` (`_quad_to_triangles`, `_concave_quad_to_triangles`) -/

section quads
variable {α : Type} [Field α] [LinearOrder α]

/-- The ray test `Polygon2D.is_point_inside` applies to the edge `p → q`: the generated
`does_intersection_exist_line2d` (segment first, ray `pt + t·tv` second). -/
def edgeHit (pt tv p q : V2 α) : Bool :=
  does_intersection_exist_line2d_sr (⟨p, ⟨q.x - p.x, q.y - p.y⟩⟩ : LR2 α) (⟨pt, tv⟩ : LR2 α)

/-- Parity of a `countP` over four tests = parity of the straight-line integer counter the
translator emits for the unrolled loop (edge order `ab, bc, cd, da`). -/
theorem parity4 (b1 b2 b3 b4 : Bool) :
    decide (((0 + (if b3 = true then 1 else 0) + (if b2 = true then 1 else 0)
        + (if b1 = true then 1 else 0) + (if b4 = true then 1 else 0)) % 2 ≠ 0 : Prop))
      = decide (¬ (
        let n1 : Int := if b1 = true then 1 else 0
        let n2 : Int := if b2 = true then n1 + 1 else n1
        let n3 : Int := if b3 = true then n2 + 1 else n2
        let n4 : Int := if b4 = true then n3 + 1 else n3
        n4 % 2 = 0)) := by
  cases b1 <;> cases b2 <;> cases b3 <;> cases b4 <;> decide

/-- The hand `MeshCache.isPointInside` on a quadrilateral, as the unrolled integer counter. -/
theorem isPointInside_quad (a b c d pt tv : V2 α) :
    MeshCache.isPointInside [a, b, c, d] pt tv =
      decide (¬ (
        let n1 : Int := if edgeHit pt tv a b = true then 1 else 0
        let n2 : Int := if edgeHit pt tv b c = true then n1 + 1 else n1
        let n3 : Int := if edgeHit pt tv c d = true then n2 + 1 else n2
        let n4 : Int := if edgeHit pt tv d a = true then n3 + 1 else n3
        n4 % 2 = 0)) := by
  have hc : cyclicPairs [a, b, c, d] = [(d, a), (a, b), (b, c), (c, d)] := rfl
  unfold MeshCache.isPointInside
  rw [hc]
  simp only [List.countP_cons, List.countP_nil]
  exact parity4 (edgeHit pt tv a b) (edgeHit pt tv b c) (edgeHit pt tv c d) (edgeHit pt tv d a)

/-- An unrolled four-test counter followed by `if n % 2 == 0: B else: A`, with arbitrary
decidable tests, in terms of the Boolean counter of `isPointInside_quad`. -/
theorem parity_sel {σ : Type} (p1 p2 p3 p4 : Prop) [Decidable p1] [Decidable p2] [Decidable p3]
    [Decidable p4] (A B : σ) :
    (let n1 : Int := if p1 then 1 else 0
     let n2 : Int := if p2 then n1 + 1 else n1
     let n3 : Int := if p3 then n2 + 1 else n2
     let n4 : Int := if p4 then n3 + 1 else n3
     if n4 % 2 = 0 then B else A)
    = if decide (¬ (
        let n1 : Int := if decide p1 = true then 1 else 0
        let n2 : Int := if decide p2 = true then n1 + 1 else n1
        let n3 : Int := if decide p3 = true then n2 + 1 else n2
        let n4 : Int := if decide p4 = true then n3 + 1 else n3
        n4 % 2 = 0)) = true then A else B := by
  by_cases h1 : p1 <;> by_cases h2 : p2 <;> by_cases h3 : p3 <;> by_cases h4 : p4 <;>
    simp [h1, h2, h3, h4]

/-- The unrolled convexity loop of `Mesh2D._quad_to_triangles` (`start_val`, then three `val`s
with `break` on the first mismatch): `A` when all agree with `start_val`, else `X`. -/
theorem quad_tree {σ : Type} (s v2 v3 v4 : Bool) (A X : σ) :
    (if v2 = true then
        (if s = true then (if v3 = true then (if v4 = true then A else X) else X) else X)
      else (if s = true then X else (if v3 = true then X else (if v4 = true then X else A))))
    = if ((v2 == s) && (v3 == s) && (v4 == s)) = true then A else X := by
  cases s <;> cases v2 <;> cases v3 <;> cases v4 <;> rfl

/-- `if c: A elif e: A else: B`. -/
theorem ite_merge {σ : Type} (c e : Bool) (A B : σ) :
    (if c = true then A else if e = true then A else B)
      = if (if c = true then true else e) = true then A else B := by
  cases c <;> cases e <;> rfl

/-- Area-weighted mean of the centroids of the triangles `pqr`, `stu` (the tail of
`Mesh2D._quad_centroid`), written with the hand model's `triCentroid`, `getArea`, `pySum`. -/
def centOf2Tris (p q r s t u : V2 α) : V2 α :=
  let c0 := triCentroid p q r
  let c1 := triCentroid s t u
  let a0 := getArea [p, q, r]
  let a1 := getArea [s, t, u]
  let tot := pySum [a0, a1]
  ⟨(c0.x * a0 + c1.x * a1) / tot, (c0.y * a0 + c1.y * a1) / tot⟩

/-- The hand `quadCentroid` by cases on the diagonal decision. -/
theorem quadCentroid_ite (K : MeshCache.Kern α) (a b c d : V2 α) :
    quadCentroid K a b c d = if K.diag02 a b c d = true then centOf2Tris a b c c d a
      else centOf2Tris b c d d a b := by
  unfold quadCentroid
  cases K.diag02 a b c d <;> rfl

/-- `quad_tree` with the concave leaves in the shape of `parity_sel`: the whole unrolled
`_quad_to_triangles` + `_concave_quad_to_triangles` selection between two results. -/
theorem quad_tree_sel {σ : Type} (s v2 v3 v4 : Bool) (p1 p2 p3 p4 : Prop) [Decidable p1]
    [Decidable p2] [Decidable p3] [Decidable p4] (A B : σ) :
    (if v2 = true then
        (if s = true then
          (if v3 = true then
            (if v4 = true then A else
              (let n1 : Int := if p1 then 1 else 0
               let n2 : Int := if p2 then n1 + 1 else n1
               let n3 : Int := if p3 then n2 + 1 else n2
               let n4 : Int := if p4 then n3 + 1 else n3
               if n4 % 2 = 0 then B else A))
           else
              (let n1 : Int := if p1 then 1 else 0
               let n2 : Int := if p2 then n1 + 1 else n1
               let n3 : Int := if p3 then n2 + 1 else n2
               let n4 : Int := if p4 then n3 + 1 else n3
               if n4 % 2 = 0 then B else A))
         else
              (let n1 : Int := if p1 then 1 else 0
               let n2 : Int := if p2 then n1 + 1 else n1
               let n3 : Int := if p3 then n2 + 1 else n2
               let n4 : Int := if p4 then n3 + 1 else n3
               if n4 % 2 = 0 then B else A))
      else
        (if s = true then
              (let n1 : Int := if p1 then 1 else 0
               let n2 : Int := if p2 then n1 + 1 else n1
               let n3 : Int := if p3 then n2 + 1 else n2
               let n4 : Int := if p4 then n3 + 1 else n3
               if n4 % 2 = 0 then B else A)
         else
          (if v3 = true then
              (let n1 : Int := if p1 then 1 else 0
               let n2 : Int := if p2 then n1 + 1 else n1
               let n3 : Int := if p3 then n2 + 1 else n2
               let n4 : Int := if p4 then n3 + 1 else n3
               if n4 % 2 = 0 then B else A)
           else
            (if v4 = true then
              (let n1 : Int := if p1 then 1 else 0
               let n2 : Int := if p2 then n1 + 1 else n1
               let n3 : Int := if p3 then n2 + 1 else n2
               let n4 : Int := if p4 then n3 + 1 else n3
               if n4 % 2 = 0 then B else A)
             else A))))
    = if (if ((v2 == s) && (v3 == s) && (v4 == s)) = true then true else
        decide (¬ (
          let n1 : Int := if decide p1 = true then 1 else 0
          let n2 : Int := if decide p2 = true then n1 + 1 else n1
          let n3 : Int := if decide p3 = true then n2 + 1 else n2
          let n4 : Int := if decide p4 = true then n3 + 1 else n3
          n4 % 2 = 0))) = true then A else B := by
  rw [← ite_merge, ← parity_sel p1 p2 p3 p4 A B]
  exact quad_tree s v2 v3 v4 A _

end quads

end Lbg.Lemmas.GenTiesC03
