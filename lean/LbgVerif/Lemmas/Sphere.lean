/-
  Lemmas.Sphere — closed-form model of `intersect_line3d_sphere_*` (after the fix that returns
  nothing when both crossings lie beyond the same end of the operand) and its properties:
  membership in the operand, containment in the closed ball, sphere-or-end-point, completeness,
  and the characterisation of the empty result.
-/
import LbgVerif.Gen.Isect3
import LbgVerif.Lemmas.Isect3
import Mathlib.Tactic.Ring
import Mathlib.Tactic.FieldSimp
import Mathlib.Tactic.Linarith
import Mathlib.Tactic.Positivity
import Mathlib.Tactic.SplitIfs
import Mathlib.Tactic.LinearCombination
import Mathlib.Tactic.NormNum

set_option linter.unusedSectionVars false
set_option linter.unusedSimpArgs false

namespace Lbg.Lemmas
open Lbg Lbg.Gen
variable {α : Type} [Field α] [LinearOrder α] [IsStrictOrderedRing α]

/-! ### Range bookkeeping -/

/-- Both parameters lie beyond the same end of the range (the new early-exit test). -/
def Rng.bothOut : Rng → α → α → Prop
  | .seg, u, w => (u < 0 ∧ w < 0) ∨ (1 < u ∧ 1 < w)
  | .ray, u, w => u < 0 ∧ w < 0
  | .line, _, _ => False

instance (k : Rng) (u w : α) : Decidable (k.bothOut u w) := by
  cases k <;> unfold Rng.bothOut <;> infer_instance

theorem Rng.bothOut_symm (k : Rng) (u w : α) : k.bothOut u w ↔ k.bothOut w u := by
  cases k <;> simp only [Rng.bothOut] <;> tauto

theorem Rng.not_bothOut_of_ok (k : Rng) (u w : α) (h : k.ok u) : ¬ k.bothOut u w := by
  cases k
  · obtain ⟨h0, h1⟩ := h
    rintro (⟨a, _⟩ | ⟨a, _⟩)
    · exact absurd a (not_lt.mpr h0)
    · exact absurd a (not_lt.mpr h1)
  · rintro ⟨a, _⟩; exact absurd a (not_lt.mpr h)
  · exact id

/-- If the two parameters are not beyond the same end, the clamp of one lies between them. -/
theorem Rng.clamp_between (k : Rng) (u w : α) (h : ¬ k.bothOut u w) :
    (k.clamp u - u) * (k.clamp u - w) ≤ 0 := by
  by_cases hu : k.ok u
  · rw [k.clamp_of_ok u hu, sub_self, zero_mul]
  · cases k
    · simp only [Rng.ok, not_and_or, not_le] at hu
      simp only [Rng.bothOut, not_or, not_and, not_lt] at h
      rcases hu with hu | hu
      · have : Rng.seg.clamp u = 0 := by
          simp only [Rng.clamp]
          rw [min_eq_left (le_trans hu.le zero_le_one), max_eq_right hu.le]
        rw [this]; nlinarith [h.1 hu]
      · have : Rng.seg.clamp u = 1 := by
          simp only [Rng.clamp]
          rw [min_eq_right hu.le, max_eq_left zero_le_one]
        rw [this]; nlinarith [h.2 hu]
    · simp only [Rng.ok, not_le] at hu
      simp only [Rng.bothOut, not_and, not_lt] at h
      have : Rng.ray.clamp u = 0 := by simp only [Rng.clamp]; exact max_eq_right hu.le
      rw [this]; nlinarith [h hu]
    · exact absurd trivial hu

/-- A point between the two parameters that is admissible excludes `bothOut`. -/
theorem Rng.not_bothOut_of_between (k : Rng) (u w t : α) (ht : k.ok t)
    (hb : (t - u) * (t - w) ≤ 0) : ¬ k.bothOut u w := by
  cases k
  · obtain ⟨h0, h1⟩ := ht
    rintro (⟨a, b⟩ | ⟨a, b⟩)
    · nlinarith [mul_pos (show 0 < t - u by linarith) (show 0 < t - w by linarith)]
    · nlinarith [mul_pos (show 0 < u - t by linarith) (show 0 < w - t by linarith)]
  · rintro ⟨a, b⟩
    simp only [Rng.ok] at ht
    nlinarith [mul_pos (show 0 < t - u by linarith) (show 0 < t - w by linarith)]
  · exact id

/-! ### The quadratic -/

/-- Quadratic coefficient `a = v·v`. -/
def sphA (l : LR3 α) : α := l.v.x * l.v.x + l.v.y * l.v.y + l.v.z * l.v.z
/-- Quadratic coefficient `b = 2 v·(p − c)`. -/
def sphB (l : LR3 α) (sp : SphereS α) : α :=
  2 * (l.v.x * (l.p.x - sp.center.x) + l.v.y * (l.p.y - sp.center.y)
    + l.v.z * (l.p.z - sp.center.z))
/-- Quadratic coefficient `c = |c|² + |p|² − 2 c·p − r²`. -/
def sphC (l : LR3 α) (sp : SphereS α) : α :=
  sp.center.x * sp.center.x + sp.center.y * sp.center.y + sp.center.z * sp.center.z
    + (l.p.x * l.p.x + l.p.y * l.p.y + l.p.z * l.p.z)
    - 2 * (sp.center.x * l.p.x + sp.center.y * l.p.y + sp.center.z * l.p.z)
    - sp.radius * sp.radius
/-- Discriminant. -/
def sphDisc (l : LR3 α) (sp : SphereS α) : α :=
  sphB l sp * sphB l sp - 4 * sphA l * sphC l sp
/-- The `+` root. -/
def sphR1 (M : MathOps α) (l : LR3 α) (sp : SphereS α) : α :=
  (-(sphB l sp) + M.sqrt (sphDisc l sp)) / (2 * sphA l)
/-- The `−` root. -/
def sphR2 (M : MathOps α) (l : LR3 α) (sp : SphereS α) : α :=
  (-(sphB l sp) - M.sqrt (sphDisc l sp)) / (2 * sphA l)

/-- The (one- or two-element) list of clamped crossing points. -/
def sphList (k : Rng) (M : MathOps α) (l : LR3 α) (sp : SphereS α) : List (V3 α) :=
  if k.clamp (sphR1 M l sp) = k.clamp (sphR2 M l sp) then [at3 l (k.clamp (sphR1 M l sp))]
  else [at3 l (k.clamp (sphR1 M l sp)), at3 l (k.clamp (sphR2 M l sp))]

/-- Model of `intersect_line3d_sphere_*`. -/
def sphPts (k : Rng) (M : MathOps α) (l : LR3 α) (sp : SphereS α) : List (V3 α) :=
  if sphDisc l sp < 0 then []
  else if k.bothOut (sphR1 M l sp) (sphR2 M l sp) then []
  else sphList k M l sp

/-- `a t² + b t + c = a (t − r₁)(t − r₂)` for the closed-form roots. -/
theorem quadratic_factor (a b c s t : α) (ha : a ≠ 0) (hs : s * s = b * b - 4 * a * c) :
    a * (t * t) + b * t + c
      = a * ((t - (-b + s) / (2 * a)) * (t - (-b - s) / (2 * a))) := by
  field_simp
  linear_combination hs

/-- Squared distance of `l.p + t·l.v` from the sphere centre, minus `r²`, is the quadratic. -/
theorem sphere_quadratic (l : LR3 α) (sp : SphereS α) (t : α) :
    ((at3 l t).x - sp.center.x) * ((at3 l t).x - sp.center.x)
      + ((at3 l t).y - sp.center.y) * ((at3 l t).y - sp.center.y)
      + ((at3 l t).z - sp.center.z) * ((at3 l t).z - sp.center.z) - sp.radius * sp.radius
      = sphA l * (t * t) + sphB l sp * t + sphC l sp := by
  simp only [at3, sphA, sphB, sphC]; ring

/-- Sphere equation `|q − c|² = r²`, spelled out. -/
def onSph (sp : SphereS α) (q : V3 α) : Prop :=
  (q.x - sp.center.x) * (q.x - sp.center.x) + (q.y - sp.center.y) * (q.y - sp.center.y)
    + (q.z - sp.center.z) * (q.z - sp.center.z) = sp.radius * sp.radius

/-- Closed ball `|q − c|² ≤ r²`, spelled out. -/
def inBall (sp : SphereS α) (q : V3 α) : Prop :=
  (q.x - sp.center.x) * (q.x - sp.center.x) + (q.y - sp.center.y) * (q.y - sp.center.y)
    + (q.z - sp.center.z) * (q.z - sp.center.z) ≤ sp.radius * sp.radius

theorem onSph_at3_iff (l : LR3 α) (sp : SphereS α) (t : α) :
    onSph sp (at3 l t) ↔ sphA l * (t * t) + sphB l sp * t + sphC l sp = 0 := by
  rw [← sphere_quadratic, onSph, sub_eq_zero]

theorem inBall_at3_iff (l : LR3 α) (sp : SphereS α) (t : α) :
    inBall sp (at3 l t) ↔ sphA l * (t * t) + sphB l sp * t + sphC l sp ≤ 0 := by
  rw [← sphere_quadratic, inBall, sub_nonpos]

theorem sphA_pos (l : LR3 α) (ha : sphA l ≠ 0) : 0 < sphA l :=
  lt_of_le_of_ne (normSq3_nonneg l.v) (Ne.symm ha)

/-- With real roots, a point of the line is in the closed ball iff its parameter lies between
the two roots. -/
theorem inBall_at3_iff_between (M : MathOps α) (l : LR3 α) (sp : SphereS α) (ha : sphA l ≠ 0)
    (hs : M.sqrt (sphDisc l sp) * M.sqrt (sphDisc l sp) = sphDisc l sp) (t : α) :
    inBall sp (at3 l t) ↔ (t - sphR1 M l sp) * (t - sphR2 M l sp) ≤ 0 := by
  rw [inBall_at3_iff, quadratic_factor _ _ _ _ t ha hs]
  have hpos := sphA_pos l ha
  simp only [sphR1, sphR2]
  constructor
  · intro h; by_contra hc
    nlinarith [mul_pos hpos (not_le.mp hc)]
  · intro h; nlinarith [mul_nonneg hpos.le (neg_nonneg.mpr h)]

/-- A point of the line in the closed ball forces a non-negative discriminant. -/
theorem disc_nonneg_of_inBall (l : LR3 α) (sp : SphereS α) (ha : sphA l ≠ 0) (t : α)
    (h : inBall sp (at3 l t)) : 0 ≤ sphDisc l sp := by
  rw [inBall_at3_iff] at h
  have hpos := sphA_pos l ha
  have e : sphDisc l sp = (2 * sphA l * t + sphB l sp) * (2 * sphA l * t + sphB l sp)
      - 4 * sphA l * (sphA l * (t * t) + sphB l sp * t + sphC l sp) := by
    simp only [sphDisc]; ring
  rw [e]
  nlinarith [mul_self_nonneg (2 * sphA l * t + sphB l sp), mul_nonneg hpos.le (neg_nonneg.mpr h)]

/-! ### The generated kernels are instances of the model -/

theorem intersect_line3d_sphere_s_eq (M : MathOps α) (l : LR3 α) (sp : SphereS α) :
    intersect_line3d_sphere_s M l sp = sphPts .seg M l sp := by
  unfold sphPts
  split_ifs with h1 h2
  · unfold intersect_line3d_sphere_s
    simp only [sphDisc, sphA, sphB, sphC] at h1
    simp only [h1, ↓reduceIte]
  · unfold intersect_line3d_sphere_s
    simp only [Rng.bothOut, sphR1, sphR2, sphDisc, sphA, sphB, sphC] at h1 h2
    simp only [h1, ↓reduceIte]
    rcases h2 with ⟨c1, c2⟩ | ⟨c1, c2⟩
    · simp only [c1, c2, ↓reduceIte]
    · have n1 := not_lt.mpr (le_trans zero_le_one c1.le)
      have n2 := not_lt.mpr (le_trans zero_le_one c2.le)
      simp only [c1, c2, n1, n2, ↓reduceIte]
  · by_cases c1 : sphR1 M l sp < 0 <;> by_cases c2 : sphR2 M l sp < 0 <;>
      by_cases c3 : 1 < sphR1 M l sp <;> by_cases c4 : 1 < sphR2 M l sp <;>
      first
      | (have hh : sphR1 M l sp < 0 ∧ sphR2 M l sp < 0 := by constructor <;> assumption
         exact absurd (Or.inl hh) h2)
      | (have hh : 1 < sphR1 M l sp ∧ 1 < sphR2 M l sp := by constructor <;> assumption
         exact absurd (Or.inr hh) h2)
      | (unfold intersect_line3d_sphere_s
         simp only [sphR1, sphR2, sphDisc, sphA, sphB, sphC] at h1 c1 c2 c3 c4
         simp only [h1, ↓reduceIte, clamp_if_seg]
         simp only [c1, c2, c3, c4, ↓reduceIte]
         rfl)

theorem intersect_line3d_sphere_r_eq (M : MathOps α) (l : LR3 α) (sp : SphereS α) :
    intersect_line3d_sphere_r M l sp = sphPts .ray M l sp := by
  unfold sphPts
  split_ifs with h1 h2
  · unfold intersect_line3d_sphere_r
    simp only [sphDisc, sphA, sphB, sphC] at h1
    simp only [h1, ↓reduceIte]
  · unfold intersect_line3d_sphere_r
    simp only [Rng.bothOut, sphR1, sphR2, sphDisc, sphA, sphB, sphC] at h1 h2
    simp only [h1, h2.1, h2.2, ↓reduceIte]
  · by_cases c1 : sphR1 M l sp < 0 <;> by_cases c2 : sphR2 M l sp < 0
    · exact absurd ⟨c1, c2⟩ h2
    · unfold sphList
      simp only [Rng.clamp]
      simp only [max_eq_left (not_lt.mp c2)]
      unfold intersect_line3d_sphere_r
      simp only [sphR1, sphR2, sphDisc, sphA, sphB, sphC] at h1 c1 c2 ⊢
      simp only [h1, c1, c2, ↓reduceIte]
      rw [min_eq_left (le_trans c1.le zero_le_one)]
      rfl
    · unfold sphList
      simp only [Rng.clamp]
      simp only [max_eq_left (not_lt.mp c1)]
      unfold intersect_line3d_sphere_r
      simp only [sphR1, sphR2, sphDisc, sphA, sphB, sphC] at h1 c1 c2 ⊢
      simp only [h1, c1, ↓reduceIte, clamp_if_ray]
      rfl
    · unfold sphList
      simp only [Rng.clamp]
      simp only [max_eq_left (not_lt.mp c1)]
      unfold intersect_line3d_sphere_r
      simp only [sphR1, sphR2, sphDisc, sphA, sphB, sphC] at h1 c1 c2 ⊢
      simp only [h1, c1, ↓reduceIte, clamp_if_ray]
      rfl


/-! ### Properties of the model -/

theorem mem_sphList (k : Rng) (M : MathOps α) (l : LR3 α) (sp : SphereS α) (q : V3 α)
    (h : q ∈ sphList k M l sp) :
    q = at3 l (k.clamp (sphR1 M l sp)) ∨ q = at3 l (k.clamp (sphR2 M l sp)) := by
  unfold sphList at h
  split_ifs at h with h2
  · simp only [List.mem_singleton] at h; exact Or.inl h
  · simp only [List.mem_cons, List.not_mem_nil, or_false] at h; exact h

theorem sphList_ne_nil (k : Rng) (M : MathOps α) (l : LR3 α) (sp : SphereS α) :
    sphList k M l sp ≠ [] := by
  unfold sphList; split_ifs <;> simp

/-- Every listed point is `l.p + (clamp r)·l.v` for one of the two closed-form roots `r`, and the
roots are real and not both beyond the same end. -/
theorem mem_sphPts (k : Rng) (M : MathOps α) (l : LR3 α) (sp : SphereS α) (q : V3 α)
    (h : q ∈ sphPts k M l sp) :
    0 ≤ sphDisc l sp ∧ ¬ k.bothOut (sphR1 M l sp) (sphR2 M l sp) ∧
      (q = at3 l (k.clamp (sphR1 M l sp)) ∨ q = at3 l (k.clamp (sphR2 M l sp))) := by
  unfold sphPts at h
  split_ifs at h with h1 h2
  · simp at h
  · simp at h
  · exact ⟨not_lt.mp h1, h2, mem_sphList k M l sp q h⟩

theorem sphPts_mem_of_root (k : Rng) (M : MathOps α) (l : LR3 α) (sp : SphereS α)
    (h0 : 0 ≤ sphDisc l sp) (t : α) (ht : k.ok t)
    (hr : t = sphR1 M l sp ∨ t = sphR2 M l sp) : at3 l t ∈ sphPts k M l sp := by
  unfold sphPts
  rw [if_neg (not_lt.mpr h0)]
  rcases hr with hr | hr
  · rw [if_neg (hr ▸ k.not_bothOut_of_ok t _ ht)]
    unfold sphList
    rw [← hr, k.clamp_of_ok t ht]
    split_ifs <;> simp
  · rw [if_neg (fun hb => (hr ▸ k.not_bothOut_of_ok t _ ht) ((k.bothOut_symm _ _).mp hb))]
    unfold sphList
    rw [← hr, k.clamp_of_ok t ht]
    split_ifs with h
    · rw [h]; simp
    · simp

theorem sphPts_on (k : Rng) (M : MathOps α) (l : LR3 α) (sp : SphereS α) (q : V3 α)
    (h : q ∈ sphPts k M l sp) : k.On3 l q := by
  rw [Rng.On3_iff]
  obtain ⟨_, _, h | h⟩ := mem_sphPts k M l sp q h
  · exact ⟨_, k.clamp_ok _, h⟩
  · exact ⟨_, k.clamp_ok _, h⟩

/-- Both closed-form roots are crossings of the carrier line with the sphere. -/
theorem sph_roots_on (M : MathOps α) (l : LR3 α) (sp : SphereS α) (ha : sphA l ≠ 0)
    (hs : M.sqrt (sphDisc l sp) * M.sqrt (sphDisc l sp) = sphDisc l sp) :
    onSph sp (at3 l (sphR1 M l sp)) ∧ onSph sp (at3 l (sphR2 M l sp)) := by
  rw [onSph_at3_iff, onSph_at3_iff]
  exact ⟨(quadratic_root_iff _ _ _ _ _ ha hs).mpr (Or.inl rfl),
    (quadratic_root_iff _ _ _ _ _ ha hs).mpr (Or.inr rfl)⟩

/-- Every listed point lies in the closed ball. -/
theorem sphPts_in_ball (k : Rng) (M : MathOps α) (l : LR3 α) (sp : SphereS α) (q : V3 α)
    (ha : sphA l ≠ 0)
    (hs : 0 ≤ sphDisc l sp → M.sqrt (sphDisc l sp) * M.sqrt (sphDisc l sp) = sphDisc l sp)
    (h : q ∈ sphPts k M l sp) : inBall sp q := by
  obtain ⟨h0, hb, hq⟩ := mem_sphPts k M l sp q h
  rcases hq with hq | hq
  · rw [hq, inBall_at3_iff_between M l sp ha (hs h0)]
    have := k.clamp_between _ _ hb
    linarith
  · rw [hq, inBall_at3_iff_between M l sp ha (hs h0)]
    have := k.clamp_between _ _ (fun hb' => hb ((k.bothOut_symm _ _).mp hb'))
    linarith

/-- Every listed point is on the sphere, or is an end point produced by clamping. -/
theorem sphPts_sphere_or_end (k : Rng) (M : MathOps α) (l : LR3 α) (sp : SphereS α) (q : V3 α)
    (ha : sphA l ≠ 0)
    (hs : 0 ≤ sphDisc l sp → M.sqrt (sphDisc l sp) * M.sqrt (sphDisc l sp) = sphDisc l sp)
    (h : q ∈ sphPts k M l sp) :
    onSph sp q ∨ q = at3 l 0 ∨ (k = .seg ∧ q = at3 l 1) := by
  obtain ⟨h0, _, hq⟩ := mem_sphPts k M l sp q h
  obtain ⟨r1, r2⟩ := sph_roots_on M l sp ha (hs h0)
  have key : ∀ r, onSph sp (at3 l r) → q = at3 l (k.clamp r) →
      onSph sp q ∨ q = at3 l 0 ∨ (k = .seg ∧ q = at3 l 1) := by
    intro r hr hq
    by_cases hok : k.ok r
    · rw [k.clamp_of_ok r hok] at hq; left; rw [hq]; exact hr
    · rcases k.clamp_of_not_ok r hok with h' | ⟨hk, h'⟩
      · right; left; rw [hq, h']
      · right; right; exact ⟨hk, by rw [hq, h']⟩
  rcases hq with hq | hq
  · exact key _ r1 hq
  · exact key _ r2 hq

/-- If every crossing of the carrier line with the sphere is inside the range, every listed
point is on the sphere. -/
theorem sphPts_sphere_of_inside (k : Rng) (M : MathOps α) (l : LR3 α) (sp : SphereS α)
    (q : V3 α) (ha : sphA l ≠ 0)
    (hs : 0 ≤ sphDisc l sp → M.sqrt (sphDisc l sp) * M.sqrt (sphDisc l sp) = sphDisc l sp)
    (hin : ∀ t, onSph sp (at3 l t) → k.ok t)
    (h : q ∈ sphPts k M l sp) : onSph sp q := by
  obtain ⟨h0, _, hq⟩ := mem_sphPts k M l sp q h
  obtain ⟨r1, r2⟩ := sph_roots_on M l sp ha (hs h0)
  rcases hq with hq | hq
  · rw [k.clamp_of_ok _ (hin _ r1)] at hq; rw [hq]; exact r1
  · rw [k.clamp_of_ok _ (hin _ r2)] at hq; rw [hq]; exact r2

/-- Every in-range crossing is listed. -/
theorem sphPts_complete (k : Rng) (M : MathOps α) (l : LR3 α) (sp : SphereS α)
    (ha : sphA l ≠ 0)
    (hs : 0 ≤ sphDisc l sp → M.sqrt (sphDisc l sp) * M.sqrt (sphDisc l sp) = sphDisc l sp)
    (t : α) (ht : k.ok t) (hsph : onSph sp (at3 l t)) : at3 l t ∈ sphPts k M l sp := by
  have h0 : 0 ≤ sphDisc l sp := disc_nonneg_of_inBall l sp ha t (le_of_eq hsph)
  rw [onSph_at3_iff] at hsph
  exact sphPts_mem_of_root k M l sp h0 t ht
    ((quadratic_root_iff _ _ _ _ _ ha (hs h0)).mp hsph)

/-- The result is empty exactly when the operand does not meet the closed ball. -/
theorem sphPts_eq_nil_iff (k : Rng) (M : MathOps α) (l : LR3 α) (sp : SphereS α)
    (ha : sphA l ≠ 0)
    (hs : 0 ≤ sphDisc l sp → M.sqrt (sphDisc l sp) * M.sqrt (sphDisc l sp) = sphDisc l sp) :
    sphPts k M l sp = [] ↔ ∀ t, k.ok t → ¬ inBall sp (at3 l t) := by
  constructor
  · intro hnil t ht hball
    have h0 := disc_nonneg_of_inBall l sp ha t hball
    have hb := (inBall_at3_iff_between M l sp ha (hs h0) t).mp hball
    have hnb := k.not_bothOut_of_between _ _ t ht hb
    unfold sphPts at hnil
    rw [if_neg (not_lt.mpr h0), if_neg hnb] at hnil
    exact sphList_ne_nil k M l sp hnil
  · intro hmiss
    rw [List.eq_nil_iff_forall_not_mem]
    intro q hq
    obtain ⟨t, ht, rfl⟩ := (Rng.On3_iff k l q).mp (sphPts_on k M l sp q hq)
    exact hmiss t ht (sphPts_in_ball k M l sp _ ha hs hq)

end Lbg.Lemmas
