/-
  Lemmas.EarcutRun — invariants of the ear-clipping run of `Model/Earcut.lean`.

  The central device is `RunInv`: a ring functional `μ` together with an event value `ε`
  obeying the local laws of the five ring operations (rotate, cut an ear, filter a node,
  cure, split).  For every such pair the run satisfies  Σ ε(events) = μ(input ring)
  (`linked_inv`), for every fuel, cursor state and pass.  Instances: doubled signed area
  (`areaInv`) and node count (`countInv`).
-/
import LbgVerif.Model.Earcut
import LbgVerif.Lemmas.Shoelace
import Mathlib.Tactic.Ring
import Mathlib.Tactic.Abel
import Mathlib.Tactic.Linarith
import Mathlib.Tactic.LinearCombination
import Mathlib.Algebra.BigOperators.Group.List.Basic
import Mathlib.Data.List.GetD

namespace Lbg.Lemmas
open Lbg Lbg.Gen Lbg.Model.Earcut

set_option linter.unusedSectionVars false

/-! ### List shapes -/

/-- A non-empty list is its `dropLast` followed by its last element. -/
theorem snoc_of_ne_nil {β : Type} (l : List β) (d : β) (h : l ≠ []) :
    l = l.dropLast ++ [l.getLast?.getD d] := by
  rcases List.eq_nil_or_concat l with h0 | ⟨m, x, rfl⟩
  · exact absurd h0 h
  · simp

/-- `rotR` of `mid ++ [a]`. -/
@[simp] theorem rotR_concat {β : Type} (mid : List β) (a : β) : rotR (mid ++ [a]) = a :: mid := by
  simp [rotR]

/-- `rotR []`. -/
@[simp] theorem rotR_nil {β : Type} : rotR ([] : List β) = [] := rfl

/-- `rotR` keeps the length. -/
@[simp] theorem length_rotR {β : Type} (l : List β) : (rotR l).length = l.length := by
  rcases List.eq_nil_or_concat l with rfl | ⟨m, x, rfl⟩ <;> simp

/-- `rotR` keeps the elements. -/
theorem mem_rotR {β : Type} (l : List β) (x : β) : x ∈ rotR l ↔ x ∈ l := by
  rcases List.eq_nil_or_concat l with rfl | ⟨m, y, rfl⟩
  · simp
  · simp [or_comm]

/-! ### Sums over events -/

section inv
variable {α : Type} [Field α] [LinearOrder α]
variable {R : Type} [AddCommGroup R]

/-- Sum of an event value over a run. -/
def evSum (ε : Ev → R) (evs : List Ev) : R := (evs.map ε).sum

/-- Empty run. -/
@[simp] theorem evSum_nil (ε : Ev → R) : evSum ε [] = 0 := rfl
/-- One more event. -/
@[simp] theorem evSum_cons (ε : Ev → R) (e : Ev) (t : List Ev) :
    evSum ε (e :: t) = ε e + evSum ε t := by simp [evSum]
/-- Event sums are additive over concatenation. -/
@[simp] theorem evSum_append (ε : Ev → R) (s t : List Ev) :
    evSum ε (s ++ t) = evSum ε s + evSum ε t := by simp [evSum]

/-- A ring functional `μ` and an event value `ε` compatible with the ring operations of the
ear-clipper over the vertex table `v`. -/
structure RunInv (v : Nat → V2 α) (R : Type) [AddCommGroup R] where
  μ : Ring → R
  ε : Ev → R
  /-- moving the cursor does not change `μ` -/
  rot : ∀ l₁ l₂ : Ring, μ (l₁ ++ l₂) = μ (l₂ ++ l₁)
  /-- cutting the ear `a, b, c` -/
  ear : ∀ (a b c : Node) (mid : Ring),
    μ (b :: c :: (mid ++ [a])) = ε (Ev.ear a b c) + μ (c :: (mid ++ [a]))
  /-- `_filter_points` removing the head `b` (neighbours `a`, `c`) -/
  filt : ∀ (a b c : Node) (tl : Ring), removable v a b c = true →
    a = tl.getLast?.getD b → c = tl.head?.getD b →
    μ (b :: tl) = ε (Ev.filt a b c) + μ (rotR tl)
  /-- `_cure_local_intersections` removing `p, q` between `a` and `b` -/
  cure : ∀ (a p q b : Node) (mid : Ring),
    μ (p :: q :: b :: (mid ++ [a])) = ε (Ev.cure a p q b) + μ (b :: (mid ++ [a]))
  /-- `_split_polygon` along the diagonal `a — b` -/
  split : ∀ (x y a b : Node) (mid post : Ring),
    μ (a :: (mid ++ b :: post)) =
      ε (Ev.split x y) + μ (a :: b :: post) + μ (⟨b.i, false⟩ :: ⟨a.i, false⟩ :: mid)
  left : ∀ r, ε (Ev.left r) = μ r
  oof : ∀ r, ε (Ev.oof r) = μ r
  /-- `_split_polygon(a, hole)` linking the hole ring `hole, hrest…` in behind `a` -/
  bridge : ∀ (pre post hrest : Ring) (a hole : Node),
    ε (Ev.hole (hole :: hrest) true) +
      μ (pre ++ a :: (hole :: hrest ++ ⟨hole.i, false⟩ :: ⟨a.i, false⟩ :: post)) =
      μ (pre ++ a :: post)
  nobridge : ∀ r, ε (Ev.hole r false) = 0

variable {v : Nat → V2 α} (I : RunInv v R)

/-- `μ` of a rotated ring. -/
theorem RunInv.rotate (ring : Ring) (n : Nat) : I.μ (ring.rotate n) = I.μ ring := by
  cases ring with
  | nil => simp
  | cons a t =>
    rw [← List.rotate_mod]
    have h : n % (a :: t).length ≤ (a :: t).length := Nat.le_of_lt (Nat.mod_lt _ (by simp))
    rw [List.rotate_eq_drop_append_take h, I.rot, List.take_append_drop]

/-- `μ` after the cursor moved to `p.next`. -/
theorem RunInv.step (b : Node) (tl : Ring) : I.μ (tl ++ [b]) = I.μ (b :: tl) := by
  have := I.rot tl [b]; simpa using this

/-- **`_filter_points`** keeps `Σ ε + μ`. -/
theorem filterLoop_inv (f : Nat) (ring : Ring) (r : Nat) (acc : List Ev)
    (pos : Option (Nat × Bool)) :
    evSum I.ε (filterLoop v f ring r acc pos).evs + I.μ (filterLoop v f ring r acc pos).ring =
      evSum I.ε acc + I.μ ring := by
  induction f generalizing ring r acc pos with
  | zero => simp [filterLoop]
  | succ f ih =>
    unfold filterLoop
    by_cases hr : r = 0
    · simp [hr]
    · simp only [hr, if_false]
      cases ring with
      | nil => simp
      | cons b tl =>
        simp only []
        split_ifs with hrem hlen
        · simp only [evSum_append, evSum_cons, evSum_nil, add_zero]
          rw [I.filt _ b _ tl hrem rfl rfl]; abel
        · rw [ih]
          simp only [evSum_append, evSum_cons, evSum_nil, add_zero]
          rw [I.filt _ b _ tl hrem rfl rfl]; abel
        · rw [ih, I.step]

/-- `_filter_points(start)`. -/
theorem filterAll_inv (ring : Ring) :
    evSum I.ε (filterAll v ring).evs + I.μ (filterAll v ring).ring = I.μ ring := by
  simpa [filterAll] using filterLoop_inv I (filterFuel ring.length) ring ring.length [] none

/-- `_filter_points(start, start.next)`. -/
theorem filterTwo_inv (ring : Ring) :
    evSum I.ε (filterTwo v ring).evs + I.μ (filterTwo v ring).ring = I.μ ring := by
  simpa [filterTwo] using filterLoop_inv I (filterFuel ring.length) ring 1 [] none

/-- **`_cure_local_intersections`** keeps `Σ ε + μ`. -/
theorem cureLoop_inv (f : Nat) (ring : Ring) (r : Nat) (acc : List Ev) :
    evSum I.ε (cureLoop v f ring r acc).1 + I.μ (cureLoop v f ring r acc).2 =
      evSum I.ε acc + I.μ ring := by
  induction f generalizing ring r acc with
  | zero => simp [cureLoop]
  | succ f ih =>
    unfold cureLoop
    by_cases hr : r = 0
    · simp [hr]
    · simp only [hr, if_false]
      rcases ring with _ | ⟨p, _ | ⟨q, _ | ⟨b, _ | ⟨bn, rest⟩⟩⟩⟩
      · simp
      · simp only []; rw [ih]; simp
      · simp only []; rw [ih, I.step]
      · simp only []; rw [ih, I.step]
      · simp only []
        split_ifs with hc
        · rw [ih]
          have hsn := snoc_of_ne_nil (bn :: rest) bn (by simp)
          have e1 : I.μ (p :: q :: b :: bn :: rest) =
              I.ε (Ev.cure ((bn :: rest).getLast?.getD bn) p q b) + I.μ (b :: bn :: rest) := by
            conv_lhs => rw [hsn]
            conv_rhs => rw [hsn]
            simpa using I.cure ((bn :: rest).getLast?.getD bn) p q b (bn :: rest).dropLast
          have e2 : I.μ (bn :: rest ++ [b]) = I.μ (b :: bn :: rest) := I.step b (bn :: rest)
          simp only [evSum_append, evSum_cons, evSum_nil, add_zero]
          rw [e1]
          rw [e2]; abel
        · rw [ih]
          rw [I.step p (q :: b :: bn :: rest)]

/-- `_cure_local_intersections(start)`. -/
theorem cure_inv (ring : Ring) :
    evSum I.ε (cure v ring).1 + I.μ (cure v ring).2 = I.μ ring := by
  simpa [Model.Earcut.cure] using cureLoop_inv I (filterFuel ring.length) ring ring.length []

/-! ### `_split_earcut` -/

omit [Field α] [LinearOrder α] in
/-- Shape of a ring cut at position `j` (`1 ≤ j < length`). -/
theorem ring_cut (a : Node) (tl : Ring) (j : Nat) (h1 : 1 ≤ j) (h2 : j < (a :: tl).length) :
    a :: tl = a :: (tl.take (j - 1) ++ (a :: tl).getD j a :: (a :: tl).drop (j + 1)) := by
  obtain ⟨k, rfl⟩ : ∃ k, j = k + 1 := ⟨j - 1, by omega⟩
  have hk : k < tl.length := by simpa using h2
  simp only [Nat.add_sub_cancel, List.drop_succ_cons, List.getD_cons_succ]
  rw [List.getD_eq_getElem (hn := hk)]
  congr 1
  rw [← List.drop_eq_getElem_cons hk, List.take_append_drop]

/-- What `findB` returns is a position `2 ≤ j ≤ length − 2`. -/
theorem findB_range {ring : Ring} {j : Nat} (h : findB v ring = some j) :
    2 ≤ j ∧ j + 2 ≤ ring.length := by
  unfold findB at h
  have := List.mem_of_find?_eq_some h
  simp only [List.mem_map, List.mem_range] at this
  obtain ⟨k, hk, rfl⟩ := this
  omega

/-- What `findSplit` returns is a rotation of the ring and a position in it. -/
theorem findSplit_spec {ring rg : Ring} {j : Nat} (h : findSplit v ring = some (rg, j)) :
    (∃ s, rg = ring.rotate s) ∧ 2 ≤ j ∧ j + 2 ≤ rg.length := by
  unfold findSplit at h
  obtain ⟨s, _, hs⟩ := List.exists_of_findSome?_eq_some h
  cases hb : findB v (ring.rotate s) with
  | none => simp [hb] at hs
  | some j' =>
    simp only [hb, Option.map_some, Option.some.injEq, Prod.mk.injEq] at hs
    obtain ⟨rfl, rfl⟩ := hs
    exact ⟨⟨s, rfl⟩, findB_range hb⟩

/-- **`_split_polygon`** inside a ring: `μ` of the ring is `ε(split) + μ` of the two parts. -/
theorem splitAt_inv (x y : Node) (rg : Ring) (j : Nat) (h1 : 2 ≤ j) (h2 : j + 2 ≤ rg.length) :
    I.μ rg = I.ε (Ev.split x y) + I.μ (splitAt rg j).1 + I.μ (splitAt rg j).2 := by
  cases rg with
  | nil => simp at h2
  | cons a tl =>
    have hc := ring_cut a tl j (by omega) (by omega)
    conv_lhs => rw [hc]
    simp only [splitAt]
    exact I.split x y a _ _ _

/-! ### `_earcut_linked` -/

/-- **The run conserves `μ`**: for every fuel, ring, cursor state and pass, the event values
of `_earcut_linked` add up to `μ` of the ring it was started on. -/
theorem linked_inv (f : Nat) (ring : Ring) (k pass : Nat) :
    evSum I.ε (linked v f ring k pass) = I.μ ring := by
  induction f generalizing ring k pass with
  | zero => simp [linked, I.oof]
  | succ f ih =>
    rcases ring with _ | ⟨b, _ | ⟨c, _ | ⟨d, rest⟩⟩⟩
    · simp [linked, I.left]
    · simp [linked, I.left]
    · simp [linked, I.left]
    · simp only [linked]
      have hstep : I.μ (c :: d :: rest ++ [b]) = I.μ (b :: c :: d :: rest) :=
        I.step b (c :: d :: rest)
      split_ifs with hear hk h0 hdead h1
      · -- ear
        simp only [evSum_cons]
        rw [ih, I.step c (d :: rest)]
        obtain ⟨mid, a, hma⟩ : ∃ mid a, d :: rest = mid ++ [a] := by
          rcases List.eq_nil_or_concat (d :: rest) with h | ⟨m, x, h⟩
          · simp at h
          · exact ⟨m, x, by simpa using h⟩
        have ha : (mid ++ [a]).getLast?.getD d = a := by simp
        rw [hma, ha]
        exact (I.ear a b c mid).symm
      · -- pass 0, filter returned None
        simp only [evSum_append, evSum_cons, evSum_nil, add_zero, I.left]
        rw [filterAll_inv, hstep]
      · simp only [evSum_append]
        rw [ih, filterAll_inv, hstep]
      · -- pass 1
        simp only [evSum_append]
        rw [ih, cure_inv, hstep]
      · -- pass 2
        split
        · simp only [evSum_cons, evSum_nil, add_zero, I.left]; exact hstep
        · rename_i rg j hfs
          obtain ⟨⟨s, hs⟩, hj1, hj2⟩ := findSplit_spec hfs
          have hrot : I.μ rg = I.μ (b :: c :: d :: rest) := by
            rw [hs, I.rotate, hstep]
          have hsp := splitAt_inv I (rg.head?.getD b) (rg.getD j b) rg j hj1 hj2
          have hf1 := filterTwo_inv I (splitAt rg j).1
          have hf2 := filterTwo_inv I (splitAt rg j).2
          have t1 : evSum I.ε (if (filterTwo v (splitAt rg j).1).dead = true then
              [Ev.left (filterTwo v (splitAt rg j).1).ring]
              else linked v f (filterTwo v (splitAt rg j).1).ring 0 0) =
              I.μ (filterTwo v (splitAt rg j).1).ring := by
            split_ifs <;> simp [I.left, ih]
          have t2 : evSum I.ε (if (filterTwo v (splitAt rg j).2).dead = true then
              [Ev.left (filterTwo v (splitAt rg j).2).ring]
              else linked v f (filterTwo v (splitAt rg j).2).ring 0 0) =
              I.μ (filterTwo v (splitAt rg j).2).ring := by
            split_ifs <;> simp [I.left, ih]
          simp only [evSum_cons, evSum_append, List.cons_append]
          rw [t1, t2, ← hrot, hsp, ← hf1, ← hf2]
          abel
      · exact (ih _ _ _).trans hstep

end inv
/-! ### Instance 1: doubled signed area -/

section area
variable {α : Type} [Field α] [LinearOrder α]

/-- The points of a ring. -/
def ringPts (v : Nat → V2 α) (ring : Ring) : List (V2 α) := ring.map fun n => v n.i

/-- Doubled signed area (shoelace) of a ring over the vertex table `v`. -/
def ringArea (v : Nat → V2 α) (ring : Ring) : α := shoelace (ringPts v ring)

/-- Doubled signed area of the triangle of three nodes: `det(b − a, c − a)`. -/
def triArea (v : Nat → V2 α) (a b c : Node) : α :=
  V2.det (V2.sub (v b.i) (v a.i)) (V2.sub (v c.i) (v a.i))

/-- Area value of an event: the triangle cut off by an ear, the quadrilateral `a p q b`
removed by a cure (of which only the triangle `a p b` is emitted), the abandoned ring;
filtered nodes and splits carry no area. -/
def evArea (v : Nat → V2 α) : Ev → α
  | Ev.ear a b c => triArea v a b c
  | Ev.cure a p q b => ringArea v [a, p, q, b]
  | Ev.filt _ _ _ => 0
  | Ev.split _ _ => 0
  | Ev.hole r true => - ringArea v r
  | Ev.hole _ false => 0
  | Ev.left r => ringArea v r
  | Ev.oof r => ringArea v r

/-- `_area(a, b, c) = − det(b − a, c − a)`. -/
theorem area_eq_neg_triArea (v : Nat → V2 α) (a b c : Node) :
    area v a b c = - triArea v a b c := by
  simp only [area, earcut_area, triArea, V2.det, V2.sub]; ring

/-- A node that passes the removal test of `_filter_points` spans a zero-area triangle with
its neighbours. -/
theorem triArea_of_removable (v : Nat → V2 α) (a b c : Node) (h : removable v a b c = true) :
    triArea v a b c = 0 := by
  simp only [removable, Bool.and_eq_true, Bool.or_eq_true, decide_eq_true_eq] at h
  rcases h.2 with he | ha
  · simp only [eqN, earcut_equals, decide_eq_true_eq] at he
    simp only [triArea, V2.det, V2.sub, he.1, he.2]; ring
  · have := area_eq_neg_triArea v a b c
    rw [ha] at this
    exact neg_eq_zero.mp this.symm

/-- The ring area does not depend on the cursor position. -/
theorem ringArea_comm (v : Nat → V2 α) (l₁ l₂ : Ring) :
    ringArea v (l₁ ++ l₂) = ringArea v (l₂ ++ l₁) := by
  simp only [ringArea, ringPts, List.map_append]
  exact shoelace_append_comm _ _

/-- Cutting the ear `a, b, c` off the ring `b, c, …, a`. -/
theorem ringArea_ear (v : Nat → V2 α) (a b c : Node) (mid : Ring) :
    ringArea v (b :: c :: (mid ++ [a])) = triArea v a b c + ringArea v (c :: (mid ++ [a])) := by
  have h1 : ringArea v (b :: c :: (mid ++ [a])) = ringArea v ([a] ++ (b :: c :: mid)) := by
    have := ringArea_comm v (b :: c :: mid) [a]
    simpa using this
  have h2 : ringArea v (c :: (mid ++ [a])) = ringArea v ([a] ++ (c :: mid)) := by
    have := ringArea_comm v (c :: mid) [a]
    simpa using this
  rw [h1, h2]
  simp only [ringArea, ringPts, List.map_append, List.map_cons, List.map_nil, triArea]
  have := shoelace_ear ([] : List (V2 α)) (mid.map fun n => v n.i) (v a.i) (v b.i) (v c.i)
  simpa using this

/-- Cutting the chord `a — b` in the ring `a, mid…, b, post…`. -/
theorem ringArea_split (v : Nat → V2 α) (a b : Node) (mid post : Ring) :
    ringArea v (a :: (mid ++ b :: post)) =
      ringArea v (a :: b :: post) + ringArea v (a :: (mid ++ [b])) := by
  simp only [ringArea, ringPts, List.map_append, List.map_cons, List.map_nil]
  have := shoelace_split ([] : List (V2 α)) (mid.map fun n => v n.i) (post.map fun n => v n.i)
    (v a.i) (v b.i)
  simp only [List.nil_append, List.append_assoc, List.cons_append] at this
  rw [this]; ring

/-- The doubled-signed-area invariant of the run. -/
def areaInv (v : Nat → V2 α) : RunInv v α where
  μ := ringArea v
  ε := evArea v
  rot := ringArea_comm v
  ear := fun a b c mid => by simp only [evArea]; exact ringArea_ear v a b c mid
  filt := by
    intro a b c tl hrem ha hc
    simp only [evArea, zero_add]
    rcases List.eq_nil_or_concat tl with rfl | ⟨m, x, rfl⟩
    · simp [ringArea, ringPts, shoelace_singleton]
    · have hax : a = x := by simpa using ha
      subst hax
      simp only [List.concat_eq_append, rotR_concat]
      cases m with
      | nil => simp [ringArea, ringPts, shoelace_singleton, shoelace_pair]
      | cons c' m =>
        have hcc : c = c' := by simpa using hc
        subst hcc
        have h := ringArea_ear v a b c m
        rw [triArea_of_removable v a b c hrem, zero_add] at h
        have h2 : ringArea v (c :: (m ++ [a])) = ringArea v (a :: c :: m) := by
          have := ringArea_comm v (c :: m) [a]
          simpa using this
        simpa [h2] using h
  cure := by
    intro a p q b mid
    simp only [evArea]
    have h := ringArea_split v a b [p, q] mid
    have e1 : ringArea v (p :: q :: b :: (mid ++ [a])) = ringArea v (a :: ([p, q] ++ b :: mid)) := by
      have := ringArea_comm v (p :: q :: b :: mid) [a]
      simpa using this
    have e2 : ringArea v (b :: (mid ++ [a])) = ringArea v (a :: b :: mid) := by
      have := ringArea_comm v (b :: mid) [a]
      simpa using this
    rw [e1, e2, h]
    simp only [List.cons_append, List.nil_append]
    ring
  split := by
    intro x y a b mid post
    simp only [evArea, zero_add]
    rw [ringArea_split v a b mid post]
    congr 1
    have := ringArea_comm v (a :: mid) [b]
    simp only [List.cons_append, List.nil_append] at this
    simpa [ringArea, ringPts] using this
  left := fun _ => rfl
  oof := fun _ => rfl
  bridge := by
    intro pre post hrest a hole
    simp only [evArea, ringArea, ringPts, List.map_append, List.map_cons, List.cons_append]
    have := shoelace_bridge (pre.map fun n => v n.i) (post.map fun n => v n.i) []
      (hrest.map fun n => v n.i) (v a.i) (v hole.i)
    simp only [List.append_assoc, List.cons_append, List.nil_append, List.append_nil] at this
    rw [this]; ring
  nobridge := fun _ => rfl

end area

/-! ### Instance 2: node count -/

section count
variable {α : Type} [Field α] [LinearOrder α]

/-- Count value of an event: nodes it takes out of the rings (`left`/`oof`: what is left
over beyond the two nodes of a finished ring). -/
def evCount : Ev → ℤ
  | Ev.ear _ _ _ => 1
  | Ev.cure _ _ _ _ => 2
  | Ev.filt _ _ _ => 1
  | Ev.split _ _ => 0
  | Ev.hole r true => - ((r.length : ℤ) + 2)
  | Ev.hole _ false => 0
  | Ev.left r => (r.length : ℤ) - 2
  | Ev.oof r => (r.length : ℤ) - 2

/-- The node-count invariant of the run: `μ ring = length − 2`. -/
def countInv (v : Nat → V2 α) : RunInv v ℤ where
  μ := fun r => (r.length : ℤ) - 2
  ε := evCount
  rot := fun l₁ l₂ => by simp [add_comm]
  ear := fun a b c mid => by simp [evCount]; ring
  filt := fun a b c tl _ _ _ => by simp [evCount]; ring
  cure := fun a p q b mid => by simp [evCount]; ring
  split := fun x y a b mid post => by simp [evCount]; ring
  left := fun _ => rfl
  oof := fun _ => rfl
  bridge := fun pre post hrest a hole => by simp [evCount]; ring
  nobridge := fun _ => rfl

end count

/-! ### Provenance and justification of every event -/

section good
variable {α : Type} [Field α] [LinearOrder α]
variable (v : Nat → V2 α)

/-- The nodes an event mentions. -/
def evNodes : Ev → List Node
  | Ev.ear a b c => [a, b, c]
  | Ev.cure a p q b => [a, p, q, b]
  | Ev.filt a b c => [a, b, c]
  | Ev.split a b => [a, b]
  | Ev.hole r _ => r
  | Ev.left r => r
  | Ev.oof r => r

/-- The test an event passed when it was emitted: an ear is the head `b` of a ring
`b, c, …, a` on which `_is_ear` returned `True`; a filtered node passed the removal test of
`_filter_points`; a cure passed `not _equals(a, b) and _intersects(a, p, p.next, b)`;
`hole` events are never emitted by `_filter_points` / `_earcut_linked`. -/
def Justified : Ev → Prop
  | Ev.ear a b c => ∃ mid, isEar v (b :: c :: (mid ++ [a])) = true
  | Ev.filt a b c => removable v a b c = true
  | Ev.cure a p q b => eqN v a b = false ∧ isectN v a p q b = true
  | Ev.hole _ _ => False
  | _ => True

/-- An event is good for the index set `S`: justified and mentioning only indices in `S`. -/
def Good (S : Nat → Prop) (e : Ev) : Prop := Justified v e ∧ ∀ n ∈ evNodes e, S n.i

/-- All nodes of a ring carry indices in `S`. -/
def RingIn (S : Nat → Prop) (ring : Ring) : Prop := ∀ n ∈ ring, S n.i

variable {v} {S : Nat → Prop}

/-- Concatenation of rings within `S`. -/
theorem RingIn.append {l₁ l₂ : Ring} (h₁ : RingIn S l₁) (h₂ : RingIn S l₂) :
    RingIn S (l₁ ++ l₂) := by
  intro n hn; rcases List.mem_append.mp hn with h | h
  · exact h₁ n h
  · exact h₂ n h

/-- A ring whose nodes all occur in a ring within `S` is within `S`. -/
theorem RingIn.sub {l l' : Ring} (h : RingIn S l) (hs : ∀ n ∈ l', n ∈ l) : RingIn S l' :=
  fun n hn => h n (hs n hn)

/-- `p.prev` of the head is within `S`. -/
theorem RingIn.getLastD {tl : Ring} {b : Node} (h : RingIn S (b :: tl)) :
    S (tl.getLast?.getD b).i := by
  rcases List.eq_nil_or_concat tl with rfl | ⟨m, x, rfl⟩
  · simpa using h b (by simp)
  · simpa using h x (by simp)

/-- `p.next` of the head is within `S`. -/
theorem RingIn.headD {tl : Ring} {b : Node} (h : RingIn S (b :: tl)) :
    S (tl.head?.getD b).i := by
  cases tl with
  | nil => simpa using h b (by simp)
  | cons c t => simpa using h c (by simp)

/-- `_filter_points`: only removable nodes are removed, nothing new appears. -/
theorem filterLoop_good (f : Nat) (ring : Ring) (r : Nat) (acc : List Ev)
    (pos : Option (Nat × Bool)) (hr : RingIn S ring) (ha : ∀ e ∈ acc, Good v S e) :
    (∀ e ∈ (filterLoop v f ring r acc pos).evs, Good v S e) ∧
      RingIn S (filterLoop v f ring r acc pos).ring := by
  induction f generalizing ring r acc pos with
  | zero => exact ⟨by simpa [filterLoop] using ha, by simpa [filterLoop] using hr⟩
  | succ f ih =>
    unfold filterLoop
    by_cases h0 : r = 0
    · simp only [h0, if_true]; exact ⟨ha, hr⟩
    · simp only [h0, if_false]
      cases ring with
      | nil => exact ⟨ha, hr⟩
      | cons b tl =>
        simp only []
        have hb : S b.i := hr b (by simp)
        have htl : RingIn S tl := hr.sub (fun n hn => by simp [hn])
        have hrot : RingIn S (rotR tl) := htl.sub (fun n hn => (mem_rotR tl n).mp hn)
        split_ifs with hrem hlen
        · refine ⟨?_, hrot⟩
          intro e he
          rcases List.mem_append.mp he with h | h
          · exact ha e h
          · simp only [List.mem_singleton] at h; subst h
            refine ⟨hrem, ?_⟩
            intro n hn
            simp only [evNodes, List.mem_cons, List.not_mem_nil, or_false] at hn
            rcases hn with rfl | rfl | rfl
            · exact hr.getLastD
            · exact hb
            · exact hr.headD
        · apply ih _ _ _ _ hrot
          intro e he
          rcases List.mem_append.mp he with h | h
          · exact ha e h
          · simp only [List.mem_singleton] at h; subst h
            refine ⟨hrem, ?_⟩
            intro n hn
            simp only [evNodes, List.mem_cons, List.not_mem_nil, or_false] at hn
            rcases hn with rfl | rfl | rfl
            · exact hr.getLastD
            · exact hb
            · exact hr.headD
        · exact ih _ _ _ _ (htl.append (fun n hn => by simp at hn; subst hn; exact hb)) ha

/-- `_filter_points(start)`: justified removals only, nothing new appears. -/
theorem filterAll_good (ring : Ring) (hr : RingIn S ring) :
    (∀ e ∈ (filterAll v ring).evs, Good v S e) ∧ RingIn S (filterAll v ring).ring :=
  filterLoop_good _ _ _ _ _ hr (by simp)

/-- `_filter_points(start, start.next)`: justified removals only, nothing new appears. -/
theorem filterTwo_good (ring : Ring) (hr : RingIn S ring) :
    (∀ e ∈ (filterTwo v ring).evs, Good v S e) ∧ RingIn S (filterTwo v ring).ring :=
  filterLoop_good _ _ _ _ _ hr (by simp)

/-- `_cure_local_intersections`: emitted only where the test passed, nothing new appears. -/
theorem cureLoop_good (f : Nat) (ring : Ring) (r : Nat) (acc : List Ev)
    (hr : RingIn S ring) (ha : ∀ e ∈ acc, Good v S e) :
    (∀ e ∈ (cureLoop v f ring r acc).1, Good v S e) ∧ RingIn S (cureLoop v f ring r acc).2 := by
  induction f generalizing ring r acc with
  | zero => exact ⟨by simpa [cureLoop] using ha, by simpa [cureLoop] using hr⟩
  | succ f ih =>
    unfold cureLoop
    by_cases h0 : r = 0
    · simp only [h0, if_true]; exact ⟨ha, hr⟩
    · simp only [h0, if_false]
      have hrotate : ∀ (p : Node) (tl : Ring), RingIn S (p :: tl) → RingIn S (tl ++ [p]) :=
        fun p tl h => h.sub (fun n hn => by
          rcases List.mem_append.mp hn with h' | h'
          · simp [h']
          · simp at h'; simp [h'])
      rcases ring with _ | ⟨p, _ | ⟨q, _ | ⟨b, _ | ⟨bn, rest⟩⟩⟩⟩
      · exact ⟨ha, hr⟩
      · exact ih _ _ _ (hrotate _ _ hr) ha
      · exact ih _ _ _ (hrotate _ _ hr) ha
      · exact ih _ _ _ (hrotate _ _ hr) ha
      · simp only []
        split_ifs with hc
        · apply ih
          · exact hr.sub (fun n hn => by
              rcases List.mem_append.mp hn with h' | h'
              · simp only [List.mem_cons] at h' ⊢; tauto
              · simp at h'; simp [h'])
          · intro e he
            rcases List.mem_append.mp he with h | h
            · exact ha e h
            · simp only [List.mem_singleton] at h; subst h
              simp only [Bool.and_eq_true, Bool.not_eq_true'] at hc
              refine ⟨⟨hc.1.1.1, hc.1.1.2⟩, ?_⟩
              intro n hn
              simp only [evNodes, List.mem_cons, List.not_mem_nil, or_false] at hn
              have hlast : S ((bn :: rest).getLast?.getD bn).i :=
                (hr.sub (l' := bn :: bn :: rest) (fun n hn => by
                  simp only [List.mem_cons] at hn ⊢; tauto)).getLastD
              rcases hn with rfl | rfl | rfl | rfl
              · exact hlast
              · exact hr _ (by simp)
              · exact hr _ (by simp)
              · exact hr _ (by simp)
        · exact ih _ _ _ (hrotate p (q :: b :: bn :: rest) hr) ha

/-- `_cure_local_intersections(start)`: justified cures only, nothing new appears. -/
theorem cure_good (ring : Ring) (hr : RingIn S ring) :
    (∀ e ∈ (cure v ring).1, Good v S e) ∧ RingIn S (cure v ring).2 :=
  cureLoop_good _ _ _ _ hr (by simp)

/-- Any node looked up in a ring within `S` (default within `S`) is within `S`. -/
theorem RingIn.getD {ring : Ring} (h : RingIn S ring) (j : Nat) (d : Node) (hd : S d.i) :
    S (ring.getD j d).i := by
  rw [List.getD_eq_getElem?_getD]
  cases hj : ring[j]? with
  | none => simpa using hd
  | some x => simpa using h x (List.mem_of_getElem? hj)

/-- `_split_polygon`: both parts only carry indices of the ring. -/
theorem splitAt_good (rg : Ring) (j : Nat) (hr : RingIn S rg) :
    RingIn S (splitAt rg j).1 ∧ RingIn S (splitAt rg j).2 := by
  cases rg with
  | nil => exact ⟨hr, hr⟩
  | cons a tl =>
    have ha : S a.i := hr a (by simp)
    have hb : S ((a :: tl).getD j a).i := hr.getD j a ha
    simp only [splitAt]
    constructor
    · intro n hn
      simp only [List.mem_cons] at hn
      rcases hn with rfl | rfl | hn
      · exact ha
      · exact hb
      · exact hr n (List.mem_of_mem_drop hn)
    · intro n hn
      simp only [List.mem_cons] at hn
      rcases hn with rfl | rfl | hn
      · exact hb
      · exact ha
      · exact hr n (by simp [List.mem_of_mem_take hn])

/-- **Every event of `_earcut_linked` is justified and mentions only indices of the ring it
was started on** — for every fuel, cursor state and pass. -/
theorem linked_good (f : Nat) (ring : Ring) (k pass : Nat) (hr : RingIn S ring) :
    ∀ e ∈ linked v f ring k pass, Good v S e := by
  induction f generalizing ring k pass with
  | zero =>
    intro e he
    simp only [linked, List.mem_singleton] at he; subst he
    exact ⟨trivial, hr⟩
  | succ f ih =>
    have hleft : ∀ r : Ring, RingIn S r → ∀ e ∈ [Ev.left r], Good v S e := by
      intro r h e he
      simp only [List.mem_singleton] at he; subst he
      exact ⟨trivial, h⟩
    rcases ring with _ | ⟨b, _ | ⟨c, _ | ⟨d, rest⟩⟩⟩
    · simpa [linked] using hleft _ hr
    · simpa [linked] using hleft _ hr
    · simpa [linked] using hleft _ hr
    · simp only [linked]
      have hstep : RingIn S (c :: d :: rest ++ [b]) := hr.sub (fun n hn => by
        rcases List.mem_append.mp hn with h' | h'
        · simp only [List.mem_cons] at h' ⊢; tauto
        · simp at h'; simp [h'])
      split_ifs with hear hk h0 hdead h1
      · intro e he
        simp only [List.mem_cons] at he
        rcases he with rfl | he
        · obtain ⟨mid, a, hma⟩ : ∃ mid a, d :: rest = mid ++ [a] := by
            rcases List.eq_nil_or_concat (d :: rest) with h | ⟨m, x, h⟩
            · simp at h
            · exact ⟨m, x, by simpa using h⟩
          have ha : (d :: rest).getLast?.getD d = a := by rw [hma]; simp
          refine ⟨?_, ?_⟩
          · rw [ha]; exact ⟨mid, by rw [← hma]; exact hear⟩
          · intro n hn
            simp only [evNodes, List.mem_cons, List.not_mem_nil, or_false] at hn
            rcases hn with rfl | rfl | rfl
            · exact (hr.sub (l' := d :: d :: rest) (fun n hn => by
                simp only [List.mem_cons] at hn ⊢; tauto)).getLastD
            · exact hr _ (by simp)
            · exact hr _ (by simp)
        · exact ih _ _ _ (hr.sub (fun n hn => by
            rcases List.mem_append.mp hn with h' | h'
            · simp only [List.mem_cons] at h' ⊢; tauto
            · simp at h'; simp [h'])) e he
      · have hf := filterAll_good (v := v) _ hstep
        intro e he
        rcases List.mem_append.mp he with h | h
        · exact hf.1 e h
        · exact hleft _ hf.2 e h
      · have hf := filterAll_good (v := v) _ hstep
        intro e he
        rcases List.mem_append.mp he with h | h
        · exact hf.1 e h
        · exact ih _ _ _ hf.2 e h
      · have hc := cure_good (v := v) _ hstep
        intro e he
        rcases List.mem_append.mp he with h | h
        · exact hc.1 e h
        · exact ih _ _ _ hc.2 e h
      · split
        · exact hleft _ hstep
        · rename_i rg j hfs
          obtain ⟨⟨s, hs⟩, _, _⟩ := findSplit_spec hfs
          have hrg : RingIn S rg := by
            rw [hs]; exact hstep.sub (fun n hn => List.mem_rotate.mp hn)
          have hsp := splitAt_good rg j hrg
          have hf1 := filterTwo_good (v := v) _ hsp.1
          have hf2 := filterTwo_good (v := v) _ hsp.2
          intro e he
          simp only [List.cons_append, List.mem_cons, List.mem_append] at he
          rcases he with rfl | (((h | h) | h) | h)
          · refine ⟨trivial, ?_⟩
            intro n hn
            simp only [evNodes, List.mem_cons, List.not_mem_nil, or_false] at hn
            rcases hn with rfl | rfl
            · cases rg with
              | nil => simpa using hr b (by simp)
              | cons a t => simpa using hrg a (by simp)
            · exact hrg.getD j b (hr b (by simp))
          · exact hf1.1 e h
          · exact hf2.1 e h
          · split_ifs at h
            · exact hleft _ hf1.2 e h
            · exact ih _ _ _ hf1.2 e h
          · split_ifs at h
            · exact hleft _ hf2.2 e h
            · exact ih _ _ _ hf2.2 e h
      · exact ih _ _ _ hstep

end good

/-! ### `_linked_list` and `_signed_area` -/

section linkedlist
variable {α : Type} [Field α] [LinearOrder α]

/-- `_signed_area` is the shoelace sum: the extra terms `x_j·y_j − x_i·y_i` telescope. -/
theorem signedArea_eq_shoelace (l : List (V2 α)) : signedArea l = shoelace l := by
  have h1 : signedArea l = cycSum (fun p q : V2 α => (p.x - q.x) * (q.y + p.y)) l := by
    simp only [signedArea, foldl_add_eq_sum, zero_add, cycSum]
  rw [h1, shoelace_eq_cycSum,
    ← cycSum_add_telescope V2.det (fun r : V2 α => - (r.x * r.y)) l]
  apply cycSum_congr
  intro p q
  simp only [V2.det]; ring

variable {R : Type} [AddCommGroup R] {v : Nat → V2 α} (I : RunInv v R)

/-- `μ` after the cursor moved to `p.prev`. -/
theorem RunInv.rotR (l : Ring) : I.μ (rotR l) = I.μ l := by
  rcases List.eq_nil_or_concat l with rfl | ⟨m, x, rfl⟩
  · simp
  · simp only [List.concat_eq_append, rotR_concat]
    have := I.rot [x] m; simpa using this

/-- The nodes `_linked_list` creates, in list order, before the end-duplicate check. -/
def rawNodes (v : Nat → V2 α) (idx : List Nat) (clockwise : Bool) : Ring :=
  (if clockwise == decide (0 < signedArea (idx.map v)) then idx else idx.reverse).map
    fun i => ⟨i, false⟩

/-- The end of `_linked_list`: drop the last node when it duplicates the first one, return
the ring seen from `last`. -/
def closeRing (v : Nat → V2 α) (nodes : Ring) : Ring :=
  match nodes.getLast?, nodes.head? with
  | some last, some first =>
    if nodes.length = 1 then nodes
    else if eqN v last first then nodes.dropLast else rotR nodes
  | _, _ => []

/-- `_linked_list` = create the nodes, then close the ring. -/
theorem linkedList_eq (idx : List Nat) (cw : Bool) :
    linkedList v idx cw = closeRing v (rawNodes v idx cw) := rfl

/-- `closeRing` of no nodes. -/
@[simp] theorem closeRing_nil : closeRing v [] = [] := rfl
/-- `closeRing` of one node (`_remove_node` on a one-node ring is a no-op). -/
@[simp] theorem closeRing_singleton (y : Node) : closeRing v [y] = [y] := rfl

/-- `closeRing` on a list of at least two nodes. -/
theorem closeRing_cons_snoc (y x : Node) (m : Ring) :
    closeRing v (y :: (m ++ [x])) = if eqN v x y then y :: m else x :: y :: m := by
  have hl : (y :: (m ++ [x])).getLast? = some x := by
    rw [show y :: (m ++ [x]) = (y :: m) ++ [x] from rfl, List.getLast?_concat]
  have hdl : (y :: (m ++ [x])).dropLast = y :: m := by
    rw [show y :: (m ++ [x]) = (y :: m) ++ [x] from rfl, List.dropLast_concat]
  have hr : rotR (y :: (m ++ [x])) = x :: y :: m := by
    rw [show y :: (m ++ [x]) = (y :: m) ++ [x] from rfl, rotR_concat]
  have hlen : ¬ (y :: (m ++ [x])).length = 1 := by simp
  simp only [closeRing, hl, List.head?_cons, hlen, if_false, hdl, hr]

/-- `_linked_list`: the returned ring is `rawNodes` up to the cursor position, minus the
last node when it duplicates the first one — which costs one `filt` value. -/
theorem closeRing_inv (nodes : Ring) (hst : ∀ n ∈ nodes, n.st = false) :
    I.μ (closeRing v nodes) = I.μ nodes ∨
    ∃ a b c, removable v a b c = true ∧
      I.μ nodes = I.ε (Ev.filt a b c) + I.μ (closeRing v nodes) := by
  rcases List.eq_nil_or_concat nodes with rfl | ⟨m, x, rfl⟩
  · left; simp
  · cases m with
    | nil => left; simp
    | cons y m' =>
      simp only [List.concat_eq_append, List.cons_append]
      rw [closeRing_cons_snoc]
      have hrot : I.μ (y :: (m' ++ [x])) = I.μ (x :: y :: m') := by
        have := I.rot (y :: m') [x]; simpa using this
      split_ifs with he
      · right
        refine ⟨(y :: m').getLast?.getD x, x, y, ?_, ?_⟩
        · have hx : x.st = false := hst x (by simp)
          simp [removable, hx, he]
        · rw [hrot]
          have hx : x.st = false := hst x (by simp)
          have := I.filt ((y :: m').getLast?.getD x) x y (y :: m')
            (by simp [removable, hx, he]) rfl rfl
          rw [this, I.rotR]
      · left; exact hrot.symm

/-- All nodes `_linked_list` creates are non-Steiner. -/
theorem rawNodes_st (idx : List Nat) (cw : Bool) : ∀ n ∈ rawNodes v idx cw, n.st = false := by
  intro n hn
  simp only [rawNodes, List.mem_map] at hn
  obtain ⟨i, _, rfl⟩ := hn
  rfl

/-- The indices of `rawNodes` are those of `idx`. -/
theorem rawNodes_mem (idx : List Nat) (cw : Bool) (n : Node) (hn : n ∈ rawNodes v idx cw) :
    n.i ∈ idx := by
  simp only [rawNodes, List.mem_map] at hn
  obtain ⟨i, hi, rfl⟩ := hn
  split_ifs at hi
  · exact hi
  · exact List.mem_reverse.mp hi

/-- `closeRing` only keeps nodes it was given. -/
theorem closeRing_mem (nodes : Ring) (n : Node) (hn : n ∈ closeRing v nodes) : n ∈ nodes := by
  rcases List.eq_nil_or_concat nodes with rfl | ⟨m, x, rfl⟩
  · simp at hn
  · cases m with
    | nil => simpa using hn
    | cons y m' =>
      simp only [List.concat_eq_append, List.cons_append] at hn ⊢
      rw [closeRing_cons_snoc] at hn
      split_ifs at hn
      · simp only [List.mem_cons] at hn
        simp only [List.mem_cons, List.mem_append]; tauto
      · simp only [List.mem_cons] at hn
        simp only [List.mem_cons, List.mem_append]; tauto

/-- **Provenance of `_linked_list`**: the ring only carries indices of `idx`. -/
theorem linkedList_ringIn (idx : List Nat) (cw : Bool) :
    RingIn (fun i => i ∈ idx) (linkedList v idx cw) := by
  intro n hn
  rw [linkedList_eq] at hn
  exact rawNodes_mem idx cw n (closeRing_mem _ n hn)

end linkedlist

/-! ### Holes: `_eliminate_holes` -/

section holes
variable {α : Type} [Field α] [LinearOrder α]
variable {R : Type} [AddCommGroup R] {v : Nat → V2 α} (I : RunInv v R)

/-- **`_eliminate_hole` + `_filter_points(outerNode, outerNode.next)`** keep `Σ ε + μ`:
a bridged hole ring enters with the value of its `hole` event. -/
theorem eliminateHole_inv (st st' : HState) (hring : Ring)
    (h : eliminateHole v st hring = .ok st') :
    evSum I.ε st'.evs + I.μ st'.ring = evSum I.ε st.evs + I.μ st.ring := by
  unfold eliminateHole at h
  split_ifs at h with hd
  cases hring with
  | nil => simp at h
  | cons hole hrest =>
    simp only [] at h
    split at h
    · -- no bridge found
      simp only [Except.ok.injEq] at h; subst h
      simp only [evSum_append, evSum_cons, I.nobridge, zero_add]
      rw [add_assoc, filterTwo_inv]
    · rename_i k hk
      split at h
      · simp at h
      · rename_i a post hdrop
        split at h
        · simp at h
        · rename_i q stale hpos
          simp only [Except.ok.injEq] at h; subst h
          have hring : st.ring = st.ring.take k ++ a :: post := by
            rw [← hdrop, List.take_append_drop]
          set merged := st.ring.take k ++
            a :: (hole :: hrest ++ (⟨hole.i, false⟩ : Node) :: ⟨a.i, false⟩ :: post) with hm
          set pb2 := k + 1 + (hole :: hrest).length
          set fr := filterLoop v (filterFuel (merged.rotate pb2).length) (merged.rotate pb2) 1 []
            (some (merged.length - pb2, false)) with hfr
          have h1 : evSum I.ε fr.evs + I.μ fr.ring = I.μ merged := by
            have := filterLoop_inv I (filterFuel (merged.rotate pb2).length) (merged.rotate pb2) 1 []
              (some (merged.length - pb2, false))
            rw [← hfr] at this
            simpa [I.rotate] using this
          have h2 : ∀ fr2 : FRes, (fr2 = filterAll v (fr.ring.rotate q) ∨
              fr2 = filterTwo v (fr.ring.rotate q)) →
              evSum I.ε fr2.evs + I.μ fr2.ring = I.μ fr.ring := by
            intro fr2 hfr2
            rcases hfr2 with rfl | rfl
            · rw [filterAll_inv, I.rotate]
            · rw [filterTwo_inv, I.rotate]
          have hb := I.bridge (st.ring.take k) post hrest a hole
          rw [← hm, ← hring] at hb
          have h3 := h2 (if stale = true then filterAll v (fr.ring.rotate q)
            else filterTwo v (fr.ring.rotate q)) (by split_ifs <;> simp)
          simp only [evSum_append, evSum_cons]
          rw [← hb, ← h1, ← h3]
          abel

/-- **`_eliminate_holes`** keeps `Σ ε + μ` over all holes of the queue. -/
theorem foldlM_eliminateHole_inv (queue : List Ring) (st st' : HState)
    (h : queue.foldlM (eliminateHole v) st = .ok st') :
    evSum I.ε st'.evs + I.μ st'.ring = evSum I.ε st.evs + I.μ st.ring := by
  induction queue generalizing st with
  | nil =>
    simp only [List.foldlM_nil] at h
    cases h; rfl
  | cons r t ih =>
    simp only [List.foldlM_cons] at h
    cases h1 : eliminateHole v st r with
    | error e => rw [h1] at h; cases h
    | ok st1 =>
      rw [h1] at h
      exact (ih st1 h).trans (eliminateHole_inv I st st1 r h1)

/-- **The whole run conserves `μ`**: when `earcut(data, hole_indices)` runs through, the
event values add up to `μ` of the outer ring `_linked_list` built. -/
theorem run_inv (n : Nat) (holes : List Nat) (evs : List Ev) (h : run v n holes = .ok evs) :
    evSum I.ε evs = I.μ (linkedList v (List.range (holes.headD n)) true) := by
  unfold run at h
  cases holes with
  | nil =>
    simp only [Except.ok.injEq] at h; subst h
    simp only [runSimple, List.headD_nil]
    exact linked_inv I _ _ _ _
  | cons h0 t =>
    simp only [List.headD_cons] at h ⊢
    split_ifs at h with he
    · simp only [Except.ok.injEq] at h; subst h
      simp [I.left]
    · cases h1 : eliminateHoles v (linkedList v (List.range h0) true) (h0 :: t) n with
      | error e => rw [h1] at h; cases h
      | ok st =>
        rw [h1] at h
        simp only [] at h
        have hf := foldlM_eliminateHole_inv I _ _ _ h1
        simp only [evSum_nil, zero_add] at hf
        split_ifs at h with hdead
        · simp only [Except.ok.injEq] at h; subst h
          simp only [evSum_append, evSum_cons, evSum_nil, add_zero, I.left]
          exact hf
        · simp only [Except.ok.injEq] at h; subst h
          simp only [evSum_append]
          rw [linked_inv]; exact hf

end holes

/-! ### Holes: provenance and accounting of the hole events -/

section holesgood
variable {α : Type} [Field α] [LinearOrder α]
variable {v : Nat → V2 α} {S : Nat → Prop}

/-- The hole rings recorded by the `hole` events of a run, in order. -/
def holeRings : List Ev → List Ring
  | [] => []
  | Ev.hole r _ :: t => r :: holeRings t
  | _ :: t => holeRings t

/-- `holeRings` distributes over concatenation. -/
theorem holeRings_append (s t : List Ev) : holeRings (s ++ t) = holeRings s ++ holeRings t := by
  induction s with
  | nil => rfl
  | cons e s ih => cases e <;> simp [holeRings, ih]

/-- Justified events are not `hole` events. -/
theorem holeRings_of_justified (evs : List Ev) (h : ∀ e ∈ evs, Justified v e) :
    holeRings evs = [] := by
  induction evs with
  | nil => rfl
  | cons e t ih =>
    have ht := ih (fun e he => h e (by simp [he]))
    have he := h e (by simp)
    cases e with
    | hole r b => exact absurd he id
    | _ => simpa [holeRings] using ht

/-- Good for the hole phase: a good event, or a `hole` event whose ring is within `S`. -/
def GoodH (v : Nat → V2 α) (S : Nat → Prop) (e : Ev) : Prop :=
  Good v S e ∨ ∃ r b, e = Ev.hole r b ∧ RingIn S r

/-- Every index a `GoodH` event mentions is in `S`. -/
theorem GoodH.nodes {e : Ev} (h : GoodH v S e) : ∀ n ∈ evNodes e, S n.i := by
  rcases h with h | ⟨r, b, rfl, hr⟩
  · exact h.2
  · exact hr

/-- One round of `_eliminate_holes`: nothing new appears, exactly one `hole` event is
recorded (for this hole), every other new event is a justified `filt`. -/
theorem eliminateHole_good (st st' : HState) (hring : Ring)
    (h : eliminateHole v st hring = .ok st')
    (hr : RingIn S st.ring) (hh : RingIn S hring) (he : ∀ e ∈ st.evs, GoodH v S e) :
    RingIn S st'.ring ∧ (∀ e ∈ st'.evs, GoodH v S e) ∧
      holeRings st'.evs = holeRings st.evs ++ [hring] := by
  unfold eliminateHole at h
  split_ifs at h with hd
  cases hring with
  | nil => simp at h
  | cons hole hrest =>
    simp only [] at h
    split at h
    · simp only [Except.ok.injEq] at h; subst h
      have hf := filterTwo_good (v := v) _ hr
      refine ⟨hf.2, ?_, ?_⟩
      · intro e hm
        simp only [List.mem_append, List.mem_cons] at hm
        rcases hm with hm | rfl | hm
        · exact he e hm
        · exact Or.inr ⟨_, _, rfl, hh⟩
        · exact Or.inl (hf.1 e hm)
      · rw [holeRings_append]
        simp only [holeRings]
        rw [holeRings_of_justified (v := v) _ (fun e hm => (hf.1 e hm).1)]
    · rename_i k hk
      split at h
      · simp at h
      · rename_i a post hdrop
        split at h
        · simp at h
        · rename_i q stale hpos
          simp only [Except.ok.injEq] at h; subst h
          have hring : st.ring = st.ring.take k ++ a :: post := by
            rw [← hdrop, List.take_append_drop]
          have ha : S a.i := hr a (by rw [hring]; simp)
          have hhole : S hole.i := hh hole (by simp)
          set merged := st.ring.take k ++
            a :: (hole :: hrest ++ (⟨hole.i, false⟩ : Node) :: ⟨a.i, false⟩ :: post) with hm
          set pb2 := k + 1 + (hole :: hrest).length
          set fr := filterLoop v (filterFuel (merged.rotate pb2).length) (merged.rotate pb2) 1 []
            (some (merged.length - pb2, false)) with hfr
          have hmerged : RingIn S merged := by
            intro n hn
            simp only [hm, List.mem_append, List.mem_cons] at hn
            rcases hn with hn | rfl | (rfl | hn) | rfl | rfl | hn
            · exact hr n (List.mem_of_mem_take hn)
            · exact ha
            · exact hhole
            · exact hh n (by simp [hn])
            · exact hhole
            · exact ha
            · exact hr n (by rw [hring]; simp [hn])
          have hrotate : ∀ (l : Ring) (m : Nat), RingIn S l → RingIn S (l.rotate m) :=
            fun l m hl => hl.sub (fun n hn => List.mem_rotate.mp hn)
          have hf : (∀ e ∈ fr.evs, Good v S e) ∧ RingIn S fr.ring :=
            filterLoop_good (v := v) (S := S) _ _ 1 [] _ (hrotate _ pb2 hmerged) (by simp)
          have hf2 : ∀ fr2 : FRes, (fr2 = filterAll v (fr.ring.rotate q) ∨
              fr2 = filterTwo v (fr.ring.rotate q)) →
              (∀ e ∈ fr2.evs, Good v S e) ∧ RingIn S fr2.ring := by
            intro fr2 hfr2
            rcases hfr2 with rfl | rfl
            · exact filterAll_good _ (hrotate _ q hf.2)
            · exact filterTwo_good _ (hrotate _ q hf.2)
          have h3 := hf2 (if stale = true then filterAll v (fr.ring.rotate q)
            else filterTwo v (fr.ring.rotate q)) (by split_ifs <;> simp)
          refine ⟨h3.2, ?_, ?_⟩
          · intro e hm'
            simp only [List.mem_append, List.mem_cons] at hm'
            rcases hm' with (hm' | rfl | hm') | hm'
            · exact he e hm'
            · exact Or.inr ⟨_, _, rfl, hh⟩
            · exact Or.inl (hf.1 e hm')
            · exact Or.inl (h3.1 e hm')
          · rw [holeRings_append, holeRings_append]
            simp only [holeRings]
            rw [holeRings_of_justified (v := v) _ (fun e hm' => (hf.1 e hm').1),
              holeRings_of_justified (v := v) _ (fun e hm' => (h3.1 e hm').1)]
            simp

/-- `_eliminate_holes` over the whole queue: nothing new appears and the `hole` events are
exactly the queue, in order. -/
theorem foldlM_eliminateHole_good (queue : List Ring) (st st' : HState)
    (h : queue.foldlM (eliminateHole v) st = .ok st')
    (hr : RingIn S st.ring) (hq : ∀ r ∈ queue, RingIn S r) (he : ∀ e ∈ st.evs, GoodH v S e) :
    RingIn S st'.ring ∧ (∀ e ∈ st'.evs, GoodH v S e) ∧
      holeRings st'.evs = holeRings st.evs ++ queue := by
  induction queue generalizing st with
  | nil =>
    simp only [List.foldlM_nil] at h
    cases h
    exact ⟨hr, he, by simp⟩
  | cons r t ih =>
    simp only [List.foldlM_cons] at h
    cases h1 : eliminateHole v st r with
    | error e => rw [h1] at h; cases h
    | ok st1 =>
      rw [h1] at h
      obtain ⟨g1, g2, g3⟩ := eliminateHole_good st st1 r h1 hr (hq r (by simp)) he
      obtain ⟨k1, k2, k3⟩ := ih st1 h g1 (fun r' hr' => hq r' (by simp [hr'])) g2
      exact ⟨k1, k2, by rw [k3, g3]; simp⟩

/-- The index ranges of the holes stay below `n` when the hole start indices do. -/
theorem holeRanges_lt (holes : List Nat) (n : Nat) (hh : ∀ h ∈ holes, h ≤ n) :
    ∀ idx ∈ holeRanges holes n, ∀ i ∈ idx, i < n := by
  intro idx hidx i hi
  simp only [holeRanges, List.mem_map] at hidx
  obtain ⟨se, hse, rfl⟩ := hidx
  simp only [List.mem_map, List.mem_range] at hi
  obtain ⟨k, hk, rfl⟩ := hi
  have he : se.2 ≤ n := by
    have := (List.of_mem_zip hse).2
    rcases List.mem_append.mp this with h | h
    · exact hh _ (List.mem_of_mem_drop h)
    · simp at h; omega
  omega

/-- `insertByX` adds exactly the inserted ring. -/
theorem insertByX_perm (r : Ring) (l : List Ring) : (insertByX v r l).Perm (r :: l) := by
  induction l with
  | nil => exact List.Perm.refl _
  | cons s t ih =>
    simp only [insertByX]
    split_ifs
    · exact List.Perm.refl _
    · exact (List.Perm.cons s ih).trans (List.Perm.swap r s t)

/-- `sorted(queue, key=…)` only permutes the queue. -/
theorem sortByX_perm (l : List Ring) : (sortByX v l).Perm l := by
  induction l with
  | nil => exact List.Perm.refl _
  | cons r t ih =>
    simp only [sortByX, List.foldr_cons] at ih ⊢
    exact (insertByX_perm r _).trans (List.Perm.cons r ih)

/-- Every ring of the hole queue only carries indices of some hole range. -/
theorem holeQueue_ringIn (holes : List Nat) (n : Nat) (r : Ring) (hr : r ∈ holeQueue v holes n) :
    ∃ idx ∈ holeRanges holes n, RingIn (fun i => i ∈ idx) r := by
  simp only [holeQueue, (sortByX_perm (v := v) _).mem_iff, List.mem_map] at hr
  obtain ⟨idx, hidx, rfl⟩ := hr
  refine ⟨idx, hidx, ?_⟩
  intro m hm
  have hm' := List.mem_rotate.mp hm
  split_ifs at hm'
  · simp only [List.mem_map] at hm'
    obtain ⟨nd, hnd, rfl⟩ := hm'
    exact linkedList_ringIn idx false nd hnd
  · exact linkedList_ringIn idx false m hm'

/-- **Every event of `earcut(data, hole_indices)` mentions input indices only**, and the
`hole` events are the hole queue in order. -/
theorem run_good (n : Nat) (holes : List Nat) (evs : List Ev) (h : run v n holes = .ok evs)
    (hh : ∀ h ∈ holes, h ≤ n) :
    (∀ e ∈ evs, GoodH v (fun i => i < n) e) ∧
      (holes ≠ [] → linkedList v (List.range (holes.headD n)) true ≠ [] →
        holeRings evs = holeQueue v holes n) := by
  unfold run at h
  cases holes with
  | nil =>
    simp only [Except.ok.injEq] at h; subst h
    refine ⟨?_, fun h => absurd rfl h⟩
    intro e he
    refine Or.inl (linked_good (v := v) _ _ _ _ ?_ e he)
    intro m hm
    simpa using linkedList_ringIn (v := v) (List.range n) true m hm
  | cons h0 t =>
    have h0n : h0 ≤ n := hh h0 (by simp)
    have houter : RingIn (fun i => i < n) (linkedList v (List.range h0) true) := by
      intro m hm
      have := linkedList_ringIn (v := v) (List.range h0) true m hm
      simp only [List.mem_range] at this
      omega
    simp only [List.headD_cons] at h ⊢
    split_ifs at h with he
    · simp only [Except.ok.injEq] at h; subst h
      refine ⟨?_, fun _ hne => absurd (by simpa using he) hne⟩
      intro e hm
      simp only [List.mem_singleton] at hm; subst hm
      exact Or.inl ⟨trivial, houter⟩
    · cases h1 : eliminateHoles v (linkedList v (List.range h0) true) (h0 :: t) n with
      | error e => rw [h1] at h; cases h
      | ok st =>
        rw [h1] at h
        simp only [] at h
        have hq : ∀ r ∈ holeQueue v (h0 :: t) n, RingIn (fun i => i < n) r := by
          intro r hr
          obtain ⟨idx, hidx, hin⟩ := holeQueue_ringIn (v := v) _ _ r hr
          intro m hm
          exact holeRanges_lt _ _ hh idx hidx _ (hin m hm)
        obtain ⟨g1, g2, g3⟩ := foldlM_eliminateHole_good (v := v) (S := fun i => i < n)
          _ _ _ h1 houter hq (by simp)
        simp only [holeRings, List.nil_append] at g3
        split_ifs at h with hdead
        · simp only [Except.ok.injEq] at h; subst h
          refine ⟨?_, fun _ _ => ?_⟩
          · intro e hm
            rcases List.mem_append.mp hm with hm | hm
            · exact g2 e hm
            · simp only [List.mem_singleton] at hm; subst hm
              exact Or.inl ⟨trivial, g1⟩
          · rw [holeRings_append, g3]; simp [holeRings]
        · simp only [Except.ok.injEq] at h; subst h
          refine ⟨?_, fun _ _ => ?_⟩
          · intro e hm
            rcases List.mem_append.mp hm with hm | hm
            · exact g2 e hm
            · exact Or.inl (linked_good (v := v) _ _ _ _ g1 e hm)
          · rw [holeRings_append, g3,
              holeRings_of_justified (v := v) _ (fun e hm =>
                (linked_good (v := v) (S := fun _ => True) _ _ _ _ (fun _ _ => trivial) e hm).1)]
            simp

end holesgood

/-! ### Areas of the rings `_linked_list` builds -/

section llarea
variable {α : Type} [Field α] [LinearOrder α] [IsStrictOrderedRing α]
variable (v : Nat → V2 α)

/-- **`_linked_list` orients the ring**: with `clockwise = True` (outer ring) the ring has
doubled signed area `|shoelace|`, with `clockwise = False` (holes) `−|shoelace|`; a
duplicated closing vertex is dropped at no cost. -/
theorem linkedList_area_gen (idx : List Nat) (cw : Bool) :
    ringArea v (linkedList v idx cw) =
      if cw then |shoelace (idx.map v)| else - |shoelace (idx.map v)| := by
  have h1 : ringArea v (linkedList v idx cw) = ringArea v (rawNodes v idx cw) := by
    rw [linkedList_eq]
    rcases closeRing_inv (areaInv v) _ (rawNodes_st (v := v) idx cw) with h | ⟨a, b, c, _, h⟩
    · exact h
    · have : (areaInv v).ε (Ev.filt a b c) = 0 := rfl
      rw [this, zero_add] at h
      exact h.symm
  rw [h1]
  simp only [ringArea, ringPts, rawNodes, signedArea_eq_shoelace, List.map_map]
  have hid : ((fun nd : Node => v nd.i) ∘ fun i => (⟨i, false⟩ : Node)) = v := rfl
  rw [hid]
  by_cases hp : 0 < shoelace (idx.map v)
  · cases cw
    · simp [hp, abs_of_pos hp, shoelace_reverse]
    · simp [hp, abs_of_pos hp]
  · cases cw
    · simp [hp, abs_of_nonpos (not_lt.mp hp)]
    · simp [hp, abs_of_nonpos (not_lt.mp hp), shoelace_reverse]

/-- Every ring of the hole queue has doubled signed area `−|shoelace|` of its hole. -/
theorem holeRing_area (idx : List Nat) :
    ringArea v ((let l := linkedList v idx false
      let l := if l.length = 1 then l.map fun nd => { nd with st := true } else l
      l.rotate (leftmostPos v l))) = - |shoelace (idx.map v)| := by
  simp only []
  have hrot : ∀ (l : Ring) (m : Nat), ringArea v (l.rotate m) = ringArea v l :=
    fun l m => (areaInv v).rotate l m
  rw [hrot]
  have hst : ∀ l : Ring, ringArea v (l.map fun nd => { nd with st := true }) = ringArea v l := by
    intro l; simp [ringArea, ringPts, List.map_map, Function.comp_def]
  split_ifs
  · rw [hst, linkedList_area_gen]; simp
  · rw [linkedList_area_gen]; simp

/-- **The hole queue carries the holes' areas**: the ring areas of the queue add up to
`−Σ |shoelace(hole)|` over the hole ranges (sorting only permutes them). -/
theorem holeQueue_area_sum (holes : List Nat) (n : Nat) :
    ((holeQueue v holes n).map (ringArea v)).sum =
      - ((holeRanges holes n).map fun idx => |shoelace (idx.map v)|).sum := by
  unfold holeQueue
  simp only []
  rw [((sortByX_perm (v := v) _).map (ringArea v)).sum_eq, List.map_map]
  have : ∀ l : List (List Nat),
      (l.map ((ringArea v) ∘ fun idx =>
        (let l := linkedList v idx false
         let l := if l.length = 1 then l.map fun nd => { nd with st := true } else l
         l.rotate (leftmostPos v l)))).sum =
      - (l.map fun idx => |shoelace (idx.map v)|).sum := by
    intro l
    induction l with
    | nil => simp
    | cons a t ih =>
      simp only [List.map_cons, List.sum_cons, ih, Function.comp_apply]
      rw [holeRing_area]; ring
  exact this _

end llarea

end Lbg.Lemmas
