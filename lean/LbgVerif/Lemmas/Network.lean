/-
  Lemmas.Network — facts about the hand model `Model/Network.lean` (graph-based splitting of
  `ladybug_geometry/network.py`), for every ordered field, key type, key function and `math`
  operations: walks produced by the cycle search, the node bookkeeping of `all_min_cycles`,
  where the pieces of `_intersect_segments` lie, and the shoelace accounting of a split.

  Consumers: Props/C09b.
-/
import LbgVerif.Model.Network
import LbgVerif.Lemmas.Cyclic
import LbgVerif.Lemmas.Shoelace
import LbgVerif.Lemmas.Isect2
import Mathlib.Tactic.Ring
import Mathlib.Tactic.Linarith
import Mathlib.Tactic.SplitIfs
import Mathlib.Algebra.BigOperators.Group.List.Basic

set_option linter.unusedSectionVars false
set_option linter.unusedSimpArgs false

namespace Lbg.Lemmas.Net
open Lbg Lbg.Gen Lbg.Model.Net

variable {α : Type} [Field α] [LinearOrder α] {κ : Type} [DecidableEq κ]

/-! ## Stable sorts keep the elements -/

theorem mem_insertAsc {β : Type} (x y : α × β) (l : List (α × β)) :
    y ∈ insertAsc x l ↔ y = x ∨ y ∈ l := by
  induction l with
  | nil => simp [insertAsc]
  | cons z zs ih =>
    unfold insertAsc
    split_ifs
    · simp only [List.mem_cons, ih]; tauto
    · simp only [List.mem_cons]

theorem mem_foldl_insertAsc {β : Type} (l acc : List (α × β)) (y : α × β) :
    y ∈ l.foldl (fun acc x => insertAsc x acc) acc ↔ y ∈ acc ∨ y ∈ l := by
  induction l generalizing acc with
  | nil => simp
  | cons x xs ih => simp only [List.foldl_cons, ih, mem_insertAsc, List.mem_cons]; tauto

/-- `sortAsc` is a rearrangement: same members. -/
theorem mem_sortAsc {β : Type} (l : List (α × β)) (y : α × β) : y ∈ sortAsc l ↔ y ∈ l := by
  simp [sortAsc, mem_foldl_insertAsc]

/-! ## Walks -/

/-- Consecutive elements are joined by a directed edge of the graph. -/
def IsWalk (g : Graph α κ) : List κ → Prop
  | [] => True
  | [_] => True
  | a :: b :: t => b ∈ g.adjOf a ∧ IsWalk g (b :: t)

/-- A walk whose last node has an edge back to its first node. -/
def IsClosedWalk (g : Graph α κ) (c : List κ) : Prop :=
  IsWalk g c ∧ ∀ l h, c.getLast? = some l → c.head? = some h → h ∈ g.adjOf l

theorem isWalk_append_single (g : Graph α κ) (p : List κ) (x : κ) (hp : IsWalk g p)
    (hx : ∀ l, p.getLast? = some l → x ∈ g.adjOf l) : IsWalk g (p ++ [x]) := by
  induction p with
  | nil => simp [IsWalk]
  | cons a t ih =>
    cases t with
    | nil =>
      simp only [List.cons_append, List.nil_append, IsWalk, and_true]
      exact hx a (by simp)
    | cons b t =>
      simp only [List.cons_append, IsWalk] at hp ⊢
      refine ⟨hp.1, ?_⟩
      apply ih hp.2
      intro l hl
      apply hx l
      simpa [List.getLast?_cons_cons] using hl

theorem isWalk_last_step (g : Graph α κ) (p : List κ) (x l : κ) (h : IsWalk g (p ++ [x]))
    (hl : p.getLast? = some l) : x ∈ g.adjOf l := by
  induction p with
  | nil => simp at hl
  | cons a t ih =>
    cases t with
    | nil =>
      simp only [List.getLast?_singleton, Option.some.injEq] at hl
      subst hl
      simpa [IsWalk] using h
    | cons b t =>
      simp only [List.cons_append, IsWalk] at h
      apply ih h.2
      simpa [List.getLast?_cons_cons] using hl

theorem isWalk_prefix (g : Graph α κ) (p q : List κ) (h : IsWalk g (p ++ q)) : IsWalk g p := by
  induction p with
  | nil => simp [IsWalk]
  | cons a t ih =>
    cases t with
    | nil => simp [IsWalk]
    | cons b t =>
      simp only [List.cons_append, IsWalk] at h ⊢
      exact ⟨h.1, ih h.2⟩

/-- The adjacency of a node found by `find?` is the adjacency the walk predicates use. -/
theorem adjOf_of_find (g : Graph α κ) (k : κ) (n : GNode α κ) (h : g.find? k = some n) :
    g.adjOf k = n.adj := by
  simp [Graph.adjOf, h]

theorem key_of_find (g : Graph α κ) (k : κ) (n : GNode α κ) (h : g.find? k = some n) :
    n.key = k := by
  have := List.find?_some h
  simpa using this

/-! ## The counter-clockwise search only follows edges -/

/-- `pickNeighbor` returns one of the adjacent nodes. -/
theorem pickNeighbor_mem (M : MathOps α) (g : Graph α κ) (node : GNode α κ)
    (prev : Option (V2 α)) (k : κ) (h : pickNeighbor M g node prev = some k) : k ∈ node.adj := by
  unfold pickNeighbor at h
  simp only [] at h
  rw [Option.map_eq_some_iff] at h
  obtain ⟨ak, hak, rfl⟩ := h
  have hmem := List.mem_of_mem_head? hak
  -- membership in the candidates
  have hcand : ak ∈ node.adj.filterMap (fun k =>
      (g.find? k).map (fun nb => (cwAngle M prev (V2.sub nb.pt node.pt), k))) := by
    split_ifs at hmem with h1 h2 h2
    · rw [mem_sortAsc] at hmem; exact (List.mem_filter.mp hmem).1
    · exact (List.mem_filter.mp hmem).1
    · rw [mem_sortAsc] at hmem; exact (List.mem_filter.mp hmem).1
    · exact (List.mem_filter.mp hmem).1
  rw [List.mem_filterMap] at hcand
  obtain ⟨k', hk', hk2⟩ := hcand
  rw [Option.map_eq_some_iff] at hk2
  obtain ⟨nb, _, rfl⟩ := hk2
  exact hk'

/-- Invariant of the `while queue` loop of `min_cycle(ccw_only=True)`: a result extends the
current path along edges of the graph and ends in the goal node. -/
theorem minCycleWalk_spec (M : MathOps α) (g : Graph α κ) (goal : κ) (od : Option (V2 α))
    (fuel : Nat) (explored path c : List κ)
    (h : minCycleWalk M g goal od fuel explored path = some c) (hw : IsWalk g path) :
    IsWalk g c ∧ c.getLast? = some goal ∧ ∃ rest, c = path ++ rest := by
  induction fuel generalizing explored path with
  | zero => simp [minCycleWalk] at h
  | succ n ih =>
    unfold minCycleWalk at h
    split at h
    · exact absurd h (by simp)
    · rename_i nk hnk
      split_ifs at h with hex
      split at h
      · exact absurd h (by simp)
      · rename_i node hnode
        have hadj := adjOf_of_find g nk node hnode
        split_ifs at h with hg
        · simp only [Option.some.injEq] at h
          subst h
          refine ⟨?_, by simp, ⟨[goal], rfl⟩⟩
          apply isWalk_append_single g path goal hw
          intro l hl
          rw [hnk] at hl
          cases hl
          rw [hadj]; exact hg
        · simp only [] at h
          split at h
          · exact absurd h (by simp)
          · rename_i nx hnx
            have hnxmem := pickNeighbor_mem M g node _ nx hnx
            have hw' : IsWalk g (path ++ [nx]) := by
              apply isWalk_append_single g path nx hw
              intro l hl
              rw [hnk] at hl
              cases hl
              rw [hadj]; exact hnxmem
            obtain ⟨h1, h2, rest, h3⟩ := ih (explored ++ [nk]) (path ++ [nx]) h hw'
            exact ⟨h1, h2, ⟨[nx] ++ rest, by simp [h3]⟩⟩

/-- `min_cycle(base, goal, ccw_only=True)`: a result is a walk from `base` to `goal`. -/
theorem minCycle_spec (M : MathOps α) (g : Graph α κ) (b gk : κ) (c : List κ)
    (h : minCycle M g b gk = some c) :
    IsWalk g c ∧ c.head? = some b ∧ c.getLast? = some gk := by
  unfold minCycle at h
  obtain ⟨h1, h2, rest, h3⟩ := minCycleWalk_spec M g gk _ _ [] [b] c h (by simp [IsWalk])
  exact ⟨h1, by simp [h3], h2⟩

/-- No node is adjacent to itself (`add_adj` never appends the node's own key). -/
def NoSelfLoop (g : Graph α κ) : Prop := ∀ k, k ∉ g.adjOf k

/-- The search never visits a node twice: with `explored` = the path without its last node
(as in the code), a result without its final goal node has no repetition, and only its first
node can be the goal. -/
theorem minCycleWalk_nodup (M : MathOps α) (g : Graph α κ) (goal : κ) (od : Option (V2 α))
    (fuel : Nat) (explored path c : List κ)
    (h : minCycleWalk M g goal od fuel explored path = some c)
    (hex : explored = path.dropLast) (hnd : explored.Nodup)
    (hg : ∀ x ∈ path.drop 1, x ≠ goal) :
    c.dropLast.Nodup ∧ ∀ x ∈ c.dropLast.drop 1, x ≠ goal := by
  induction fuel generalizing explored path with
  | zero => simp [minCycleWalk] at h
  | succ n ih =>
    unfold minCycleWalk at h
    split at h
    · exact absurd h (by simp)
    · rename_i nk hnk
      have hpath : path = explored ++ [nk] := by
        rw [hex]; exact (List.dropLast_append_getLast? nk (by simpa using hnk)).symm
      split_ifs at h with hexp
      split at h
      · exact absurd h (by simp)
      · rename_i node hnode
        have hpnd : path.Nodup := by
          rw [hpath]
          exact List.Nodup.append hnd (List.nodup_singleton nk) (by
            intro a ha hb
            simp only [List.mem_singleton] at hb
            subst hb; exact hexp ha)
        split_ifs at h with hgoal
        · simp only [Option.some.injEq] at h
          subst h
          simp only [List.dropLast_concat]
          exact ⟨hpnd, hg⟩
        · simp only [] at h
          split at h
          · exact absurd h (by simp)
          · rename_i nx hnx
            have hnxmem := pickNeighbor_mem M g node _ nx hnx
            apply ih (explored ++ [nk]) (path ++ [nx]) h
            · simp only [List.dropLast_concat]; exact hpath.symm
            · rw [← hpath]; exact hpnd
            · intro x hx
              have hne : path ≠ [] := by rw [hpath]; simp
              have : (path ++ [nx]).drop 1 = path.drop 1 ++ [nx] := by
                cases path with
                | nil => exact absurd rfl hne
                | cons a t => simp
              rw [this, List.mem_append, List.mem_singleton] at hx
              rcases hx with hx | rfl
              · exact hg x hx
              · intro hxg; exact hgoal (hxg ▸ hnxmem)

/-- `min_cycle(base, goal, ccw_only=True)` visits no node twice: the result without its last
node has no repetition, and if `base ≠ goal` neither has the result. -/
theorem minCycle_nodup (M : MathOps α) (g : Graph α κ) (b gk : κ) (c : List κ)
    (h : minCycle M g b gk = some c) : c.dropLast.Nodup ∧ (b ≠ gk → c.Nodup) := by
  have hs := minCycle_spec M g b gk c h
  unfold minCycle at h
  obtain ⟨h1, h2⟩ := minCycleWalk_nodup M g gk _ _ [] [b] c h (by simp) (by simp) (by simp)
  refine ⟨h1, fun hne => ?_⟩
  have hc : c = c.dropLast ++ [gk] :=
    (List.dropLast_append_getLast? gk (by simpa using hs.2.2)).symm
  rw [hc]
  apply List.Nodup.append h1 (List.nodup_singleton gk)
  intro a ha hb
  simp only [List.mem_singleton] at hb
  subst hb
  -- a = goal is in c.dropLast: it is the head (= b) or in the tail
  have hhead := hs.2.1
  cases hd : c.dropLast with
  | nil => rw [hd] at ha; simp at ha
  | cons x t =>
    rw [hd] at ha h2
    have hx : x = b := by
      have : c.head? = some x := by rw [hc, hd]; rfl
      rw [hhead] at this; cases this; rfl
    simp only [List.mem_cons] at ha
    rcases ha with ha | ha
    · exact hne (hx ▸ ha.symm)
    · exact h2 a (by simpa using ha) rfl

/-! ## `all_min_cycles`: every cycle of the main loop is a closed walk -/

/-- `next_exterior_node` returns an adjacent node. -/
theorem nextExteriorNode_mem (g : Graph α κ) (n : GNode α κ) (k : κ)
    (h : nextExteriorNode g n = some k) : k ∈ n.adj := by
  unfold nextExteriorNode at h
  obtain ⟨a, ha, hk⟩ := List.exists_of_findSome?_eq_some h
  have : a = k := by
    split at hk
    · exact absurd hk (by simp)
    · split at hk
      · simpa using hk
      · exact absurd hk (by simp)
      · split_ifs at hk; simpa using hk
  exact this ▸ ha

/-- The partner node chosen for a cycle root: adjacent to the root when `ext_cycle` is set,
the root itself otherwise. -/
theorem chooseNext_spec (g : Graph α κ) (counts : List (κ × Int)) (root : GNode α κ) :
    ((chooseNext g counts root).2 = true → (chooseNext g counts root).1 ∈ root.adj) ∧
    ((chooseNext g counts root).2 = false → (chooseNext g counts root).1 = root.key) := by
  unfold chooseNext
  simp only []
  split
  · rename_i k hk
    refine ⟨fun _ => ?_, fun h => absurd h (by simp)⟩
    split_ifs at hk with hr
    · exact nextExteriorNode_mem g root k hk
  · split
    · rename_i k hk
      exact ⟨fun _ => List.mem_of_find?_eq_some hk, fun h => absurd h (by simp)⟩
    · exact ⟨fun h => absurd h (by simp), fun _ => rfl⟩

/-- Accepting a cycle only appends it. -/
theorem acceptCycle_cycles (s : AmcState κ) (c : List κ) :
    (acceptCycle s c).cycles = s.cycles ++ [c] := rfl

/-- One iteration of the main loop keeps the recorded cycles closed walks. -/
theorem amcStep_closed (M : MathOps α) (g : Graph α κ) (s : AmcState κ)
    (h : ∀ c ∈ s.cycles, IsClosedWalk g c) : ∀ c ∈ (amcStep M g s).cycles, IsClosedWalk g c := by
  unfold amcStep
  split
  · exact h
  · rename_i rootK rest hrem
    split
    · exact h
    · rename_i root hroot
      have hkey := key_of_find g rootK root hroot
      have hadj := adjOf_of_find g rootK root hroot
      simp only []
      split
      · exact h
      · rename_i c0 hc0
        obtain ⟨hw, hhead, hlast⟩ := minCycle_spec M g _ rootK c0 hc0
        obtain ⟨hne1, hne2⟩ := chooseNext_spec g s.counts root
        split_ifs with hlen hext hall hall
        · -- exterior cycle accepted as it is
          intro c hc
          rw [acceptCycle_cycles, List.mem_append, List.mem_singleton] at hc
          rcases hc with hc | rfl
          · exact h c hc
          · refine ⟨hw, ?_⟩
            intro l hd hl hh
            rw [hlast] at hl; rw [hhead] at hh
            cases hl; cases hh
            rw [hadj]; exact hne1 hext
        · exact h
        · -- the root closes on itself: the duplicated last node is dropped
          intro c hc
          rw [acceptCycle_cycles, List.mem_append, List.mem_singleton] at hc
          rcases hc with hc | rfl
          · exact h c hc
          · have hb : (chooseNext g s.counts root).1 = rootK := by
              rw [hne2 (by simpa using hext), hkey]
            rw [hb] at hhead
            obtain ⟨p, hp⟩ : ∃ p, c0 = p ++ [rootK] := by
              refine ⟨c0.dropLast, ?_⟩
              have hne : c0 ≠ [] := by intro h0; simp [h0] at hlen
              have h2 := List.dropLast_append_getLast? rootK (by simpa using hlast)
              exact h2.symm
            subst hp
            simp only [List.dropLast_concat]
            refine ⟨isWalk_prefix g p [rootK] hw, ?_⟩
            intro l hd hl hh
            have hstep := isWalk_last_step g p rootK l hw hl
            have hp0 : p ≠ [] := by intro h0; simp [h0] at hl
            have : (p ++ [rootK]).head? = p.head? := by
              cases p with
              | nil => exact absurd rfl hp0
              | cons a t => rfl
            rw [this, hh] at hhead
            cases hhead
            exact hstep
        · exact h
        · exact h

/-- The main loop of `all_min_cycles` only records closed walks of the graph. -/
theorem amcLoop_closed (M : MathOps α) (g : Graph α κ) (fuel : Nat) (s : AmcState κ)
    (h : ∀ c ∈ s.cycles, IsClosedWalk g c) :
    ∀ c ∈ (amcLoop M g fuel s).cycles, IsClosedWalk g c := by
  induction fuel generalizing s with
  | zero => exact h
  | succ n ih =>
    unfold amcLoop
    split_ifs
    · exact ih _ (amcStep_closed M g s h)
    · exact h

/-- Invariant of the fallback loop: the chain built so far is a walk and `curAdj` is the
adjacency of its last node. -/
theorem lastCycleLoop_walk (g : Graph α κ) (fuel : Nat) (curAdj rem cyc : List κ)
    (hw : IsWalk g cyc) (hadj : ∀ l, cyc.getLast? = some l → curAdj = g.adjOf l)
    (hne : cyc ≠ []) : IsWalk g (lastCycleLoop g fuel curAdj rem cyc) := by
  induction fuel generalizing curAdj rem cyc with
  | zero => exact hw
  | succ n ih =>
    unfold lastCycleLoop
    split_ifs
    · exact hw
    · split
      · rename_i k hk
        have hk2 := List.find?_some hk
        simp only [decide_eq_true_eq] at hk2
        apply ih
        · apply isWalk_append_single g cyc k hw
          intro l hl
          rw [← hadj l hl]; exact hk2
        · intro l hl
          simp only [List.getLast?_append, List.getLast?_singleton, Option.some_or] at hl
          cases hl; rfl
        · simp
      · exact ih _ _ _ hw hadj hne

/-- The fallback cycle ("see if they are all in the same loop") is a walk of the graph — not
necessarily closed. -/
theorem lastCycle_walk (g : Graph α κ) (remaining c : List κ)
    (h : lastCycle g remaining = some c) : IsWalk g c := by
  unfold lastCycle at h
  split_ifs at h
  split at h
  · exact absurd h (by simp)
  · rename_i cur rest
    simp only [] at h
    split_ifs at h
    simp only [Option.some.injEq] at h
    subst h
    apply lastCycleLoop_walk
    · simp [IsWalk]
    · intro l hl
      simp only [List.getLast?_singleton, Option.some.injEq] at hl
      subst hl; rfl
    · simp

/-- Every cycle returned by `all_min_cycles` is a closed walk along edges of the graph, except
possibly the last one when the fallback produced it, which is a walk. -/
theorem allMinCycles_walks (M : MathOps α) (g : Graph α κ) (c : List κ)
    (h : c ∈ allMinCycles M g) :
    IsClosedWalk g c ∨
      (IsWalk g c ∧ lastCycle g (amcLoop M g g.nodes.length (amcInit g)).remaining = some c) := by
  unfold allMinCycles at h
  simp only [] at h
  have hmain := amcLoop_closed M g g.nodes.length (amcInit g) (by simp [amcInit])
  split at h
  · rename_i lc hlc
    rw [List.mem_append, List.mem_singleton] at h
    rcases h with h | rfl
    · exact Or.inl (hmain c h)
    · exact Or.inr ⟨lastCycle_walk g _ _ hlc, hlc⟩
  · exact Or.inl (hmain c h)

/-! ## The node bookkeeping of `all_min_cycles` (`node_cycle_counts`) -/

theorem countOf_cons (p : κ × Int) (t : List (κ × Int)) (k : κ) :
    countOf (p :: t) k = if p.1 = k then p.2 else countOf t k := by
  unfold countOf
  by_cases h : p.1 = k <;> simp [List.find?_cons, h]

theorem decCount_keys (cs : List (κ × Int)) (k' : κ) :
    (decCount cs k').map Prod.fst = cs.map Prod.fst := by
  unfold decCount
  rw [List.map_map]
  apply List.map_congr_left
  intro p _
  by_cases h : p.1 = k' <;> simp [h]

theorem countOf_decCount (cs : List (κ × Int)) (k k' : κ) (hk : k ∈ cs.map Prod.fst) :
    countOf (decCount cs k') k = countOf cs k - (if k = k' then 1 else 0) := by
  induction cs with
  | nil => simp at hk
  | cons p t ih =>
    have hd : decCount (p :: t) k' = (if p.1 = k' then (p.1, p.2 - 1) else p) :: decCount t k' := by
      simp [decCount]
    rw [hd, countOf_cons, countOf_cons]
    by_cases hp : p.1 = k
    · by_cases hq : p.1 = k'
      · have : k = k' := hp ▸ hq
        simp [hp, hq, this]
      · have : ¬ k = k' := fun h => hq (hp.trans h)
        simp [hp, hq, this]
    · have hk' : k ∈ t.map Prod.fst := by
        simp only [List.map_cons, List.mem_cons] at hk
        rcases hk with hk | hk
        · exact absurd hk.symm hp
        · exact hk
      by_cases hq : p.1 = k'
      · simp only [hq, if_true]
        have : ¬ k' = k := fun h => hp (hq.trans h)
        simp only [this, if_false, hp]
        exact ih hk'
      · simp only [hq, if_false, hp]
        exact ih hk'

theorem foldl_decCount_keys (c : List κ) (cs : List (κ × Int)) :
    (c.foldl decCount cs).map Prod.fst = cs.map Prod.fst := by
  induction c generalizing cs with
  | nil => rfl
  | cons a t ih => simp only [List.foldl_cons, ih, decCount_keys]

theorem countOf_foldl_decCount (c : List κ) (cs : List (κ × Int)) (k : κ)
    (hk : k ∈ cs.map Prod.fst) :
    countOf (c.foldl decCount cs) k = countOf cs k - (c.count k : Int) := by
  induction c generalizing cs with
  | nil => simp
  | cons a t ih =>
    simp only [List.foldl_cons]
    rw [ih _ (by rw [decCount_keys]; exact hk), countOf_decCount cs k a hk, List.count_cons]
    by_cases h : k = a
    · subst h; simp; ring
    · have : ¬ a = k := fun h' => h h'.symm
      simp [h, this]

theorem acceptCycle_counts (s : AmcState κ) (c : List κ) :
    (acceptCycle s c).counts = c.foldl decCount s.counts := by
  unfold acceptCycle
  simp only []
  generalize s.remaining = rem
  generalize s.counts = cs
  induction c generalizing cs rem with
  | nil => rfl
  | cons a t ih => simp only [List.foldl_cons]; exact ih _ _

/-- What one iteration does to the bookkeeping: either nothing, or one cycle `c` is recorded
and the counts of its nodes are decremented — and that happens only if every node of `c`
still had a positive count; in a graph without self-loops `c` has no repeated node. -/
theorem amcStep_bookkeeping (M : MathOps α) (g : Graph α κ) (s : AmcState κ) :
    ((amcStep M g s).counts = s.counts ∧ (amcStep M g s).cycles = s.cycles) ∨
    ∃ c, (amcStep M g s).counts = c.foldl decCount s.counts ∧
      (amcStep M g s).cycles = s.cycles ++ [c] ∧ (∀ k ∈ c, 1 ≤ countOf s.counts k) ∧
      (NoSelfLoop g → c.Nodup) := by
  unfold amcStep
  split
  · exact Or.inl ⟨rfl, rfl⟩
  · rename_i rootK rest hrem
    split
    · exact Or.inl ⟨rfl, rfl⟩
    · rename_i root hroot
      have hkey := key_of_find g rootK root hroot
      have hadj := adjOf_of_find g rootK root hroot
      simp only []
      split
      · exact Or.inl ⟨rfl, rfl⟩
      · rename_i c0 hc0
        obtain ⟨hnd1, hnd2⟩ := minCycle_nodup M g _ rootK c0 hc0
        obtain ⟨hne1, hne2⟩ := chooseNext_spec g s.counts root
        split_ifs with h1 h2 h3 h3
        · refine Or.inr ⟨_, acceptCycle_counts s _, rfl, ?_, ?_⟩
          · intro k hk
            have := List.all_eq_true.mp h3 k hk
            simp only [decide_eq_true_eq] at this
            omega
          · intro hns
            apply hnd2
            intro hb
            have := hne1 h2
            rw [hb, ← hadj] at this
            exact hns rootK this
        · exact Or.inl ⟨rfl, rfl⟩
        · refine Or.inr ⟨_, acceptCycle_counts s _, rfl, ?_, fun _ => hnd1⟩
          intro k hk
          have := List.all_eq_true.mp h3 k hk
          simp only [decide_eq_true_eq] at this
          omega
        · exact Or.inl ⟨rfl, rfl⟩
        · exact Or.inl ⟨rfl, rfl⟩

/-- Invariant of the main loop: for every node, remaining count + number of recorded cycles
through the node = the initial count. -/
theorem amcLoop_count_identity (M : MathOps α) (g : Graph α κ) (fuel : Nat) (s0 s : AmcState κ)
    (hk : s.counts.map Prod.fst = s0.counts.map Prod.fst)
    (hI : ∀ k ∈ s0.counts.map Prod.fst,
      countOf s.counts k + (s.cycles.flatten.count k : Int) = countOf s0.counts k) :
    (amcLoop M g fuel s).counts.map Prod.fst = s0.counts.map Prod.fst ∧
    ∀ k ∈ s0.counts.map Prod.fst,
      countOf (amcLoop M g fuel s).counts k + ((amcLoop M g fuel s).cycles.flatten.count k : Int)
        = countOf s0.counts k := by
  induction fuel generalizing s with
  | zero => exact ⟨hk, hI⟩
  | succ n ih =>
    unfold amcLoop
    split_ifs
    · rcases amcStep_bookkeeping M g s with ⟨h1, h2⟩ | ⟨c, h1, h2, _, _⟩
      · apply ih
        · rw [h1]; exact hk
        · rw [h1, h2]; exact hI
      · apply ih
        · rw [h1, foldl_decCount_keys]; exact hk
        · intro k hkk
          rw [h1, h2, countOf_foldl_decCount c s.counts k (hk ▸ hkk)]
          have := hI k hkk
          simp only [List.flatten_append, List.flatten_singleton, List.flatten_nil,
            List.append_nil, List.count_append, Nat.cast_add] at this ⊢
          linarith
    · exact ⟨hk, hI⟩

/-- The initial count of a node is its out-degree. -/
theorem countOf_amcInit (g : Graph α κ) (k : κ) :
    countOf (amcInit g).counts k = ((g.adjOf k).length : Int) := by
  unfold amcInit Graph.adjOf Graph.find?
  simp only []
  induction g.nodes with
  | nil => simp [countOf]
  | cons n t ih =>
    rw [List.map_cons, countOf_cons]
    by_cases h : n.key = k
    · simp [h, List.find?_cons]
    · simp only [h, if_false, List.find?_cons, decide_false]
      exact ih

/-- `node_cycle_counts` after the main loop: out-degree minus the number of recorded cycles
through the node (for every node of the graph). -/
theorem amcLoop_counts (M : MathOps α) (g : Graph α κ) (fuel : Nat) (k : κ)
    (hk : k ∈ g.nodes.map (·.key)) :
    countOf (amcLoop M g fuel (amcInit g)).counts k =
      ((g.adjOf k).length : Int) - ((amcLoop M g fuel (amcInit g)).cycles.flatten.count k : Int) := by
  have hkeys : (amcInit g).counts.map Prod.fst = g.nodes.map (·.key) := by
    simp [amcInit, List.map_map, Function.comp_def]
  have h := (amcLoop_count_identity M g fuel (amcInit g) (amcInit g) rfl
    (by intro k _; simp [amcInit])).2 k (hkeys ▸ hk)
  rw [countOf_amcInit] at h
  linarith

/-- In a graph without self-loops the counts never become negative and no recorded cycle
repeats a node: a node is used by at most out-degree many cycles, once in each. -/
theorem amcLoop_nonneg (M : MathOps α) (g : Graph α κ) (hns : NoSelfLoop g) (fuel : Nat)
    (s : AmcState κ) (h0 : ∀ k ∈ s.counts.map Prod.fst, 0 ≤ countOf s.counts k)
    (hn : ∀ c ∈ s.cycles, c.Nodup) :
    (∀ k ∈ s.counts.map Prod.fst, 0 ≤ countOf (amcLoop M g fuel s).counts k) ∧
    ∀ c ∈ (amcLoop M g fuel s).cycles, c.Nodup := by
  induction fuel generalizing s with
  | zero => exact ⟨h0, hn⟩
  | succ n ih =>
    unfold amcLoop
    split_ifs
    · rcases amcStep_bookkeeping M g s with ⟨h1, h2⟩ | ⟨c, h1, h2, h3, h4⟩
      · have := ih (amcStep M g s) (by rw [h1]; exact h0) (by rw [h2]; exact hn)
        rw [h1] at this; exact this
      · have hkeys : (amcStep M g s).counts.map Prod.fst = s.counts.map Prod.fst := by
          rw [h1, foldl_decCount_keys]
        have := ih (amcStep M g s) (by
            intro k hk
            rw [hkeys] at hk
            rw [h1, countOf_foldl_decCount c s.counts k hk]
            have hc := h4 hns
            by_cases hkc : k ∈ c
            · have : c.count k = 1 := List.count_eq_one_of_mem hc hkc
              have := h3 k hkc
              omega
            · have : c.count k = 0 := List.count_eq_zero_of_not_mem hkc
              have := h0 k hk
              omega) (by
            intro c' hc'
            rw [h2, List.mem_append, List.mem_singleton] at hc'
            rcases hc' with hc' | rfl
            · exact hn c' hc'
            · exact h4 hns)
        rw [hkeys] at this; exact this
    · exact ⟨h0, hn⟩

/-! ## How the graph is built: where adjacencies come from -/

theorem find?_append_single (l : List (GNode α κ)) (n : GNode α κ) (k : κ) :
    (l ++ [n]).find? (fun m => decide (m.key = k)) =
      ((l.find? (fun m => decide (m.key = k))).or (if n.key = k then some n else none)) := by
  rw [List.find?_append]
  congr 1
  by_cases h : n.key = k <;> simp [List.find?_cons, h]

/-- `_add_node` does not change any adjacency list. -/
theorem adjOf_ensure (g : Graph α κ) (k : κ) (pt : V2 α) (ext : Option Bool) (k' : κ) :
    (g.ensure k pt ext).adjOf k' = g.adjOf k' := by
  unfold Graph.ensure
  split_ifs
  · rfl
  · unfold Graph.adjOf Graph.find?
    simp only [find?_append_single]
    cases hf : g.nodes.find? (fun m => decide (m.key = k')) with
    | some n => simp
    | none =>
      by_cases h : k = k' <;> simp [h]

/-- Mutating the node `k` with a key-preserving `f`: other nodes keep their adjacency, the node
`k` gets the adjacency of its image. -/
theorem adjOf_modify (g : Graph α κ) (k : κ) (f : GNode α κ → GNode α κ)
    (hf : ∀ n, (f n).key = n.key) (k' : κ) :
    (g.modify k f).adjOf k' =
      if k' = k then (match g.find? k with
        | some n => (f n).adj
        | none => []) else g.adjOf k' := by
  unfold Graph.modify Graph.adjOf Graph.find?
  simp only []
  induction g.nodes with
  | nil => simp
  | cons n t ih =>
    simp only [List.map_cons, List.find?_cons]
    by_cases hk : n.key = k
    · by_cases hkk : k' = k
      · subst hkk
        simp [hk, hf]
      · have h1 : ¬ n.key = k' := fun h => hkk (h.symm.trans hk)
        have h2 : ¬ (f n).key = k' := by rw [hf]; exact h1
        have h4 : ¬ k = k' := fun h => hkk h.symm
        simp only [hk, if_true, h2, decide_false, hkk, if_false, h1, h4] at ih ⊢
        exact ih
    · by_cases hkk : k' = k
      · subst hkk
        simp only [hk, if_false, decide_false, if_true] at ih ⊢
        exact ih
      · simp only [hk, if_false, hkk] at ih ⊢
        by_cases h3 : n.key = k'
        · simp [h3]
        · simp only [h3, decide_false]
          exact ih

/-- Every adjacency after `add_adj(node k, vals)` was there before or is a new edge
`k → hash v` with `hash v ≠ k`. -/
theorem adjOf_addAdj (hash : V2 α → κ) (g : Graph α κ) (k : κ) (vals : List (V2 α))
    (a b : κ) (h : b ∈ (addAdj hash g k vals).adjOf a) :
    b ∈ g.adjOf a ∨ (a = k ∧ b ≠ k ∧ ∃ v ∈ vals, b = hash v) := by
  unfold addAdj at h
  induction vals generalizing g with
  | nil => exact Or.inl h
  | cons v vs ih =>
    simp only [List.foldl_cons] at h
    rcases ih _ h with h1 | ⟨h1, h2, v', hv', h3⟩
    · split_ifs at h1 with hc
      · exact Or.inl h1
      · rw [adjOf_modify (g.ensure (hash v) v none) k
          (fun n => { n with adj := n.adj ++ [hash v] }) (fun n => rfl) a] at h1
        split_ifs at h1 with hak
        · subst hak
          split at h1
          · rename_i n hn
            simp only [List.mem_append, List.mem_singleton] at h1
            rcases h1 with h1 | h1
            · left
              have := adjOf_of_find _ _ _ hn
              rw [adjOf_ensure] at this
              rw [this]; exact h1
            · right
              refine ⟨rfl, ?_, v, by simp, h1⟩
              rw [h1]; intro hh; exact hc (Or.inl hh)
          · simp at h1
        · left; rw [adjOf_ensure] at h1; exact h1
    · exact Or.inr ⟨h1, h2, v', by simp [hv'], h3⟩

/-- Every adjacency after `add_node(val, adj_lst, exterior)` was there before or is a new edge
`hash val → hash v`, `v ∈ adj_lst`, between different keys. -/
theorem adjOf_addNode (hash : V2 α → κ) (g : Graph α κ) (val : V2 α) (adjVals : List (V2 α))
    (ext : Option Bool) (a b : κ) (h : b ∈ (addNode hash g val adjVals ext).1.adjOf a) :
    b ∈ g.adjOf a ∨ (a = hash val ∧ b ≠ a ∧ ∃ v ∈ adjVals, b = hash v) := by
  unfold addNode at h
  simp only [] at h
  have h2 : b ∈ (addAdj hash (g.ensure (hash val) val ext) (hash val) adjVals).adjOf a := by
    split at h
    · exact h
    · rename_i e
      rw [adjOf_modify (addAdj hash (g.ensure (hash val) val (some e)) (hash val) adjVals)
        (hash val) (fun n => { n with ext := some e }) (fun n => rfl) a] at h
      split_ifs at h with ha
      · subst ha
        split at h
        · rename_i n hn
          rw [adjOf_of_find _ _ _ hn]; exact h
        · simp at h
      · exact h
  rcases adjOf_addAdj hash _ _ _ a b h2 with h3 | ⟨h3, h4, h5⟩
  · left; rw [adjOf_ensure] at h3; exact h3
  · right; exact ⟨h3, h3 ▸ h4, h5⟩

/-- The adjacency lists depend on the node list only. -/
theorem adjOf_congr_nodes (g g' : Graph α κ) (h : g'.nodes = g.nodes) (k : κ) :
    g'.adjOf k = g.adjOf k := by
  unfold Graph.adjOf Graph.find?; rw [h]

/-- `P` holds for every edge of the graph, read on the keys. -/
def EdgesSat (g : Graph α κ) (P : κ → κ → Prop) : Prop := ∀ a b, b ∈ g.adjOf a → P a b

theorem edgesSat_addNode (hash : V2 α → κ) (g : Graph α κ) (val : V2 α) (adjVals : List (V2 α))
    (ext : Option Bool) (P : κ → κ → Prop) (hg : EdgesSat g P)
    (hnew : ∀ v ∈ adjVals, hash v ≠ hash val → P (hash val) (hash v)) :
    EdgesSat (addNode hash g val adjVals ext).1 P := by
  intro a b hab
  rcases adjOf_addNode hash g val adjVals ext a b hab with h | ⟨h1, h2, v, hv, h3⟩
  · exact hg a b h
  · subst h1 h3; exact hnew v hv h2

/-- One loop of `from_shape_with_holes`: every new edge joins the keys of two cyclically
consecutive vertices of the loop. -/
theorem edgesSat_addLoop (hash : V2 α → κ) (g : Graph α κ) (o : Bool) (vs : List (V2 α))
    (P : κ → κ → Prop) (hg : EdgesSat g P)
    (hnew : ∀ pq ∈ cyclicPairs vs, hash pq.2 ≠ hash pq.1 → P (hash pq.1) (hash pq.2)) :
    EdgesSat (addLoop hash g o vs) P := by
  unfold addLoop
  simp only []
  -- the pairs (v[j], v[j+1]) are cyclic pairs
  have hzip : ∀ pq ∈ vs.zip (vs.drop 1), pq ∈ cyclicPairs vs := by
    intro pq hpq
    unfold cyclicPairs
    cases vs with
    | nil => simp at hpq
    | cons v0 t =>
      have hl : (v0 :: t).getLast? = some ((v0 :: t).getLast (by simp)) := List.getLast?_eq_getLast_of_ne_nil (by simp)
      rw [hl]
      simp only [List.drop_succ_cons, List.drop_zero] at hpq
      simp only [List.zip_cons_cons, List.mem_cons]
      right
      cases t with
      | nil => simp at hpq
      | cons v1 t' => simpa using hpq
  have hfold : ∀ (l : List ((V2 α × V2 α) × Nat)) (g0 : Graph α κ), EdgesSat g0 P →
      (∀ pj ∈ l, pj.1 ∈ cyclicPairs vs) →
      EdgesSat (l.foldl (fun g pj =>
        let r := addNode hash g pj.1.1 [pj.1.2] (some true)
        if pj.2 = 0 then
          (if o then { r.1 with outerRoot := some r.2 }
           else { r.1 with holeRoots := r.1.holeRoots ++ [r.2] })
        else r.1) g0) P := by
    intro l
    induction l with
    | nil => intro g0 h0 _; exact h0
    | cons pj t ih =>
      intro g0 h0 hl
      simp only [List.foldl_cons]
      apply ih
      · have hstep : EdgesSat (addNode hash g0 pj.1.1 [pj.1.2] (some true)).1 P := by
          apply edgesSat_addNode hash g0 _ _ _ P h0
          intro v hv hne
          simp only [List.mem_singleton] at hv
          subst hv
          exact hnew pj.1 (hl pj (by simp)) hne
        intro a b hab
        apply hstep a b
        split_ifs at hab <;> exact hab
      · intro pj' hpj'; exact hl pj' (by simp [hpj'])
  have h1 := hfold ((vs.zip (vs.drop 1)).zipIdx) g hg (by
    intro pj hpj
    exact hzip _ (List.fst_mem_of_mem_zipIdx hpj))
  split
  · rename_i l hd hl hh
    apply edgesSat_addNode hash _ _ _ _ P h1
    intro v hv hne
    simp only [List.mem_singleton] at hv
    subst hv
    apply hnew (l, v) _ hne
    unfold cyclicPairs
    rw [hl]
    cases vs with
    | nil => simp at hh
    | cons v0 t =>
      simp only [List.head?_cons, Option.some.injEq] at hh
      subst hh
      simp
  · exact h1

/-! ## Completeness: `add_node` really adds its edges, and nothing is ever removed -/

theorem find?_ensure_self (g : Graph α κ) (k : κ) (pt : V2 α) (ext : Option Bool) :
    ((g.ensure k pt ext).find? k).isSome = true := by
  unfold Graph.ensure
  split_ifs with h
  · unfold Graph.has at h
    unfold Graph.find?
    rw [List.find?_isSome]
    rw [List.any_eq_true] at h
    exact h
  · unfold Graph.find?
    simp [find?_append_single]

theorem find?_isSome_ensure (g : Graph α κ) (k k' : κ) (pt : V2 α) (ext : Option Bool)
    (h : (g.find? k').isSome = true) : ((g.ensure k pt ext).find? k').isSome = true := by
  unfold Graph.ensure
  split_ifs
  · exact h
  · unfold Graph.find? at h ⊢
    rw [find?_append_single]
    cases hf : g.nodes.find? (fun m => decide (m.key = k')) with
    | some n => simp
    | none => rw [hf] at h; simp at h

theorem find?_isSome_modify (g : Graph α κ) (k k' : κ) (f : GNode α κ → GNode α κ)
    (hf : ∀ n, (f n).key = n.key) (h : (g.find? k').isSome = true) :
    ((g.modify k f).find? k').isSome = true := by
  unfold Graph.modify Graph.find? at *
  rw [List.find?_isSome] at h ⊢
  obtain ⟨n, hn, hk⟩ := h
  refine ⟨if n.key = k then f n else n, List.mem_map.mpr ⟨n, hn, rfl⟩, ?_⟩
  split_ifs
  · rw [hf]; exact hk
  · exact hk

/-- One step of `add_adj`. -/
def addAdjStep (hash : V2 α → κ) (k : κ) (g : Graph α κ) (v : V2 α) : Graph α κ :=
  if hash v = k ∨ hash v ∈ g.adjOf k then g
  else (g.ensure (hash v) v none).modify k (fun n => { n with adj := n.adj ++ [hash v] })

theorem addAdj_eq_foldl (hash : V2 α → κ) (g : Graph α κ) (k : κ) (vals : List (V2 α)) :
    addAdj hash g k vals = vals.foldl (addAdjStep hash k) g := rfl

theorem addAdjStep_mono (hash : V2 α → κ) (k : κ) (g : Graph α κ) (v : V2 α) (a b : κ)
    (h : b ∈ g.adjOf a) : b ∈ (addAdjStep hash k g v).adjOf a := by
  unfold addAdjStep
  split_ifs with hc
  · exact h
  · rw [adjOf_modify (g.ensure (hash v) v none) k
      (fun n => { n with adj := n.adj ++ [hash v] }) (fun n => rfl) a]
    split_ifs with hak
    · subst hak
      split
      · rename_i n hn
        have := adjOf_of_find _ _ _ hn
        rw [adjOf_ensure] at this
        simp only [List.mem_append]
        left; rw [← this]; exact h
      · rename_i hn
        have h2 : (g.ensure (hash v) v none).adjOf a = [] := by simp [Graph.adjOf, hn]
        rw [adjOf_ensure] at h2
        rw [h2] at h; simp at h
    · rw [adjOf_ensure]; exact h

theorem addAdjStep_isSome (hash : V2 α → κ) (k : κ) (g : Graph α κ) (v : V2 α) (k' : κ)
    (h : (g.find? k').isSome = true) : ((addAdjStep hash k g v).find? k').isSome = true := by
  unfold addAdjStep
  split_ifs
  · exact h
  · exact find?_isSome_modify _ _ _ _ (fun n => rfl) (find?_isSome_ensure _ _ _ _ _ h)

theorem addAdjStep_new (hash : V2 α → κ) (k : κ) (g : Graph α κ) (v : V2 α)
    (hk : (g.find? k).isSome = true) (hne : hash v ≠ k) :
    hash v ∈ (addAdjStep hash k g v).adjOf k := by
  unfold addAdjStep
  split_ifs with hc
  · rcases hc with hc | hc
    · exact absurd hc hne
    · exact hc
  · rw [adjOf_modify (g.ensure (hash v) v none) k
      (fun n => { n with adj := n.adj ++ [hash v] }) (fun n => rfl) k]
    simp only [if_true]
    have := find?_isSome_ensure g (hash v) k v none hk
    split
    · simp
    · rename_i hn; rw [hn] at this; simp at this

theorem addAdj_mono (hash : V2 α → κ) (g : Graph α κ) (k : κ) (vals : List (V2 α)) (a b : κ)
    (h : b ∈ g.adjOf a) : b ∈ (addAdj hash g k vals).adjOf a := by
  rw [addAdj_eq_foldl]
  induction vals generalizing g with
  | nil => exact h
  | cons v vs ih => exact ih _ (addAdjStep_mono hash k g v a b h)

theorem addAdj_isSome (hash : V2 α → κ) (g : Graph α κ) (k : κ) (vals : List (V2 α)) (k' : κ)
    (h : (g.find? k').isSome = true) : ((addAdj hash g k vals).find? k').isSome = true := by
  rw [addAdj_eq_foldl]
  induction vals generalizing g with
  | nil => exact h
  | cons v vs ih => exact ih _ (addAdjStep_isSome hash k g v k' h)

theorem addAdj_new (hash : V2 α → κ) (g : Graph α κ) (k : κ) (vals : List (V2 α)) (v : V2 α)
    (hv : v ∈ vals) (hk : (g.find? k).isSome = true) (hne : hash v ≠ k) :
    hash v ∈ (addAdj hash g k vals).adjOf k := by
  rw [addAdj_eq_foldl]
  induction vals generalizing g with
  | nil => simp at hv
  | cons w ws ih =>
    simp only [List.foldl_cons]
    simp only [List.mem_cons] at hv
    rcases hv with rfl | hv
    · have := addAdjStep_new hash k g v hk hne
      have h2 := addAdj_mono hash _ k ws k (hash v) this
      rw [addAdj_eq_foldl] at h2; exact h2
    · exact ih _ hv (addAdjStep_isSome hash k g w k hk)

theorem adjOf_modify_ext (g : Graph α κ) (k : κ) (e : Bool) (a : κ) :
    (g.modify k (fun n => { n with ext := some e })).adjOf a = g.adjOf a := by
  rw [adjOf_modify g k (fun n => { n with ext := some e }) (fun n => rfl) a]
  split_ifs with h
  · subst h
    unfold Graph.adjOf
    split <;> simp [*]
  · rfl

/-- `add_node` never removes an adjacency. -/
theorem addNode_mono (hash : V2 α → κ) (g : Graph α κ) (val : V2 α) (adjVals : List (V2 α))
    (ext : Option Bool) (a b : κ) (h : b ∈ g.adjOf a) :
    b ∈ (addNode hash g val adjVals ext).1.adjOf a := by
  unfold addNode
  simp only []
  have h2 : b ∈ (addAdj hash (g.ensure (hash val) val ext) (hash val) adjVals).adjOf a :=
    addAdj_mono _ _ _ _ _ _ (by rw [adjOf_ensure]; exact h)
  split
  · exact h2
  · rw [adjOf_modify_ext]; exact h2

/-- `add_node(val, adj_lst)` makes `hash val → hash v` an edge for every `v ∈ adj_lst` with a
different key. -/
theorem addNode_new (hash : V2 α → κ) (g : Graph α κ) (val : V2 α) (adjVals : List (V2 α))
    (ext : Option Bool) (v : V2 α) (hv : v ∈ adjVals) (hne : hash v ≠ hash val) :
    hash v ∈ (addNode hash g val adjVals ext).1.adjOf (hash val) := by
  unfold addNode
  simp only []
  have h2 := addAdj_new hash (g.ensure (hash val) val ext) (hash val) adjVals v hv
    (find?_ensure_self _ _ _ _) hne
  split
  · exact h2
  · rw [adjOf_modify_ext]; exact h2

/-- The loop that adds the cut pieces: both directions of every piece with two different end
keys are edges of the result, and earlier edges stay. -/
theorem pieceFold_complete (hash : V2 α → κ) (l : List (LR2 α)) (g0 : Graph α κ) :
    (∀ a b, b ∈ g0.adjOf a → b ∈ (l.foldl (fun g s =>
      (addNode hash (addNode hash g (seg2_p2 s) [s.p] (some false)).1 s.p [seg2_p2 s]
        (some false)).1) g0).adjOf a) ∧
    ∀ s ∈ l, hash s.p ≠ hash (seg2_p2 s) →
      hash (seg2_p2 s) ∈ (l.foldl (fun g s =>
        (addNode hash (addNode hash g (seg2_p2 s) [s.p] (some false)).1 s.p [seg2_p2 s]
          (some false)).1) g0).adjOf (hash s.p) ∧
      hash s.p ∈ (l.foldl (fun g s =>
        (addNode hash (addNode hash g (seg2_p2 s) [s.p] (some false)).1 s.p [seg2_p2 s]
          (some false)).1) g0).adjOf (hash (seg2_p2 s)) := by
  induction l generalizing g0 with
  | nil => exact ⟨fun a b h => h, fun s hs => absurd hs (by simp)⟩
  | cons s t ih =>
    simp only [List.foldl_cons]
    obtain ⟨ih1, ih2⟩ := ih ((addNode hash (addNode hash g0 (seg2_p2 s) [s.p] (some false)).1 s.p
      [seg2_p2 s] (some false)).1)
    refine ⟨fun a b h => ih1 a b (addNode_mono _ _ _ _ _ _ _ (addNode_mono _ _ _ _ _ _ _ h)), ?_⟩
    intro s' hs' hne
    simp only [List.mem_cons] at hs'
    rcases hs' with rfl | hs'
    · constructor
      · exact ih1 _ _ (addNode_new hash _ s'.p [seg2_p2 s'] (some false) (seg2_p2 s') (by simp)
          (fun h => hne h.symm))
      · exact ih1 _ _ (addNode_mono _ _ _ _ _ _ _
          (addNode_new hash g0 (seg2_p2 s') [s'.p] (some false) s'.p (by simp) hne))
    · exact ih2 s' hs' hne

theorem EdgesSat.mono {g : Graph α κ} {P Q : κ → κ → Prop} (h : EdgesSat g P)
    (hpq : ∀ a b, P a b → Q a b) : EdgesSat g Q := fun a b hab => hpq a b (h a b hab)

/-- The loops `from_shape_with_holes` walks: boundary counter-clockwise, holes clockwise. -/
def orientedLoops (boundary : List (V2 α)) (holes : List (List (V2 α))) : List (List (V2 α)) :=
  (if polygon2d_is_clockwise boundary then boundary.reverse else boundary) ::
    holes.map (fun h => if polygon2d_is_clockwise h then h else h.reverse)

/-- `a → b` joins the keys of two cyclically consecutive vertices of one of the loops. -/
def LoopEdge (hash : V2 α → κ) (loops : List (List (V2 α))) (a b : κ) : Prop :=
  a ≠ b ∧ ∃ l ∈ loops, ∃ pq ∈ cyclicPairs l, a = hash pq.1 ∧ b = hash pq.2

/-- `a → b` joins the keys of the two ends of one of the pieces (either direction). -/
def PieceEdge (hash : V2 α → κ) (pieces : List (LR2 α)) (a b : κ) : Prop :=
  a ≠ b ∧ ∃ s ∈ pieces, (a = hash s.p ∧ b = hash (seg2_p2 s)) ∨
    (a = hash (seg2_p2 s) ∧ b = hash s.p)

theorem edgesSat_empty (P : κ → κ → Prop) : EdgesSat (Graph.empty : Graph α κ) P := by
  intro a b hab
  simp [Graph.empty, Graph.adjOf, Graph.find?] at hab

/-- Every edge of the graph of `from_shape_with_holes` joins two consecutive vertices of the
(oriented) boundary or of a hole. -/
theorem fromShapeWithHoles_edges (hash : V2 α → κ) (boundary : List (V2 α))
    (holes : List (List (V2 α))) :
    EdgesSat (fromShapeWithHoles hash boundary holes)
      (LoopEdge hash (orientedLoops boundary holes)) := by
  unfold fromShapeWithHoles
  simp only []
  set loops := orientedLoops boundary holes with hloops
  have hstep : ∀ (l : List (V2 α)) (o : Bool) (g0 : Graph α κ), l ∈ loops →
      EdgesSat g0 (LoopEdge hash loops) → EdgesSat (addLoop hash g0 o l) (LoopEdge hash loops) := by
    intro l o g0 hl h0
    apply edgesSat_addLoop hash g0 o l _ h0
    intro pq hpq hne
    exact ⟨fun h => hne h.symm, l, hl, pq, hpq, rfl, rfl⟩
  have hfold : ∀ (ls : List (List (V2 α))) (g0 : Graph α κ), (∀ l ∈ ls, l ∈ loops) →
      EdgesSat g0 (LoopEdge hash loops) →
      EdgesSat (ls.foldl (fun g h => addLoop hash g false h) g0) (LoopEdge hash loops) := by
    intro ls
    induction ls with
    | nil => intro g0 _ h0; exact h0
    | cons l t ih =>
      intro g0 hl h0
      simp only [List.foldl_cons]
      exact ih _ (fun l' hl' => hl l' (by simp [hl'])) (hstep l false g0 (hl l (by simp)) h0)
  apply hfold
  · intro l hl
    rw [hloops]; unfold orientedLoops
    exact List.mem_cons_of_mem _ hl
  · apply hstep _ true _ _ (edgesSat_empty _)
    rw [hloops]; unfold orientedLoops
    exact List.mem_cons_self

theorem danglingPass_subset (hash : V2 α → κ) (g : Graph α κ) (segs : List (LR2 α)) :
    ∀ s ∈ danglingPass hash g segs, s ∈ segs := by
  intro s hs
  unfold danglingPass at hs
  simp only [] at hs
  rw [List.mem_filterMap] at hs
  obtain ⟨sk, hsk, h2⟩ := hs
  split_ifs at h2
  simp only [Option.some.injEq] at h2
  subst h2
  exact (List.of_mem_zip hsk).1

theorem removeDangling_subset (hash : V2 α → κ) (g : Graph α κ) (fuel : Nat)
    (segs : List (LR2 α)) : ∀ s ∈ removeDangling hash g fuel segs, s ∈ segs := by
  induction fuel generalizing segs with
  | zero => intro s hs; exact hs
  | succ n ih =>
    intro s hs
    unfold removeDangling at hs
    simp only [] at hs
    split_ifs at hs
    · exact hs
    · exact hs
    · exact danglingPass_subset hash g segs s (ih _ s hs)

/-- The cut pieces added to the graph are among the pieces of `_intersect_segments` of the
cutting segments (for the code as it is and for the repaired variant). -/
theorem cutPiecesG_subset (fixed : Bool) (M : MathOps α) (hash : V2 α → κ) (dg : Graph α κ)
    (b : List (V2 α)) (holes : List (List (V2 α))) (cuts : List (LR2 α)) (tol : α) :
    ∀ s ∈ cutPiecesG fixed M hash dg b holes cuts tol,
      s ∈ intersectSegments M cuts
        (polygon2d_segments b ++ holes.flatMap polygon2d_segments) tol := by
  intro s hs
  unfold cutPiecesG at hs
  simp only [] at hs
  split_ifs at hs
  · have := removeDangling_subset hash dg _ _ s hs
    unfold removeOutsideFixed at this
    exact (List.mem_filter.mp this).1
  · unfold removeOutside at hs
    exact (List.mem_filter.mp hs).1

/-- Edge provenance of the graph of `from_shape_to_split` (as it is, and repaired): there are
oriented loops (the split boundary and holes) and cut pieces, all pieces of
`_intersect_segments`, such that every edge of the graph joins the keys of two consecutive
loop vertices or of the two ends of a cut piece. -/
theorem fromShapeToSplitG_edges (fixed : Bool) (M : MathOps α) (hash : V2 α → κ)
    (boundary : List (V2 α)) (holes : List (List (V2 α))) (cuts : List (LR2 α)) (tol : α)
    (g : Graph α κ) (h : fromShapeToSplitG fixed M hash boundary holes cuts tol = some g) :
    ∃ (b : List (V2 α)) (hs : List (List (V2 α))) (pieces : List (LR2 α)),
      polygon2d_remove_colinear_vertices M boundary tol = some b ∧
      allSome (holes.map (fun h => polygon2d_remove_colinear_vertices M h tol)) = some hs ∧
      (∀ s ∈ pieces, s ∈ intersectSegments M cuts
        (polygon2d_segments b ++ holes.flatMap polygon2d_segments) tol) ∧
      EdgesSat g (fun x y =>
        LoopEdge hash (orientedLoops
          ((intersectSegments M (polygon2d_segments b) cuts tol).map (·.p))
          (hs.map (fun h => (intersectSegments M (polygon2d_segments h) cuts tol).map (·.p))))
          x y ∨ PieceEdge hash pieces x y) ∧
      (∀ s ∈ pieces, hash s.p ≠ hash (seg2_p2 s) →
        hash (seg2_p2 s) ∈ g.adjOf (hash s.p) ∧ hash s.p ∈ g.adjOf (hash (seg2_p2 s))) := by
  unfold fromShapeToSplitG at h
  split at h
  · exact absurd h (by simp)
  · rename_i b hb
    split at h
    · exact absurd h (by simp)
    · rename_i hs hhs
      simp only [Option.some.injEq] at h
      refine ⟨b, hs, cutPiecesG fixed M hash (fromShapeWithHoles hash
          ((intersectSegments M (polygon2d_segments b) cuts tol).map (·.p))
          (hs.map (fun h => (intersectSegments M (polygon2d_segments h) cuts tol).map (·.p))))
          b holes cuts tol, hb, hhs, cutPiecesG_subset fixed M hash _ b holes cuts tol, ?_, ?_⟩
      swap
      · subst h
        exact (pieceFold_complete hash _ _).2
      subst h
      set pieces := cutPiecesG fixed M hash (fromShapeWithHoles hash
          ((intersectSegments M (polygon2d_segments b) cuts tol).map (·.p))
          (hs.map (fun h => (intersectSegments M (polygon2d_segments h) cuts tol).map (·.p))))
          b holes cuts tol with hp
      set P : κ → κ → Prop := fun x y =>
        LoopEdge hash (orientedLoops
          ((intersectSegments M (polygon2d_segments b) cuts tol).map (·.p))
          (hs.map (fun h => (intersectSegments M (polygon2d_segments h) cuts tol).map (·.p))))
          x y ∨ PieceEdge hash pieces x y with hP
      have h0 : EdgesSat (fromShapeWithHoles hash
          ((intersectSegments M (polygon2d_segments b) cuts tol).map (·.p))
          (hs.map (fun h => (intersectSegments M (polygon2d_segments h) cuts tol).map (·.p)))) P :=
        (fromShapeWithHoles_edges hash _ _).mono (fun a b hab => Or.inl hab)
      have hfold : ∀ (l : List (LR2 α)) (g0 : Graph α κ), (∀ s ∈ l, s ∈ pieces) →
          EdgesSat g0 P → EdgesSat (l.foldl (fun g s =>
            (addNode hash (addNode hash g (seg2_p2 s) [s.p] (some false)).1 s.p [seg2_p2 s]
              (some false)).1) g0) P := by
        intro l
        induction l with
        | nil => intro g0 _ hg0; exact hg0
        | cons s t ih =>
          intro g0 hl hg0
          simp only [List.foldl_cons]
          apply ih _ (fun s' hs' => hl s' (by simp [hs']))
          apply edgesSat_addNode
          · apply edgesSat_addNode _ _ _ _ _ _ hg0
            intro v hv hne
            simp only [List.mem_singleton] at hv
            subst hv
            exact Or.inr ⟨fun h => hne h.symm, s, hl s (by simp), Or.inr ⟨rfl, rfl⟩⟩
          · intro v hv hne
            simp only [List.mem_singleton] at hv
            subst hv
            exact Or.inr ⟨fun h => hne h.symm, s, hl s (by simp), Or.inl ⟨rfl, rfl⟩⟩
      exact hfold pieces _ (fun s hs => hs) h0

/-- ONE-WAY EDGES ARE BOUNDARY / HOLE EDGES.  In the graph of `from_shape_to_split` (old and
current code) every cut piece is present in BOTH directions, so an edge whose reverse is
missing joins the keys of two consecutive vertices of the split boundary or of a split hole. -/
theorem fromShapeToSplitG_one_way (fixed : Bool) (M : MathOps α) (hash : V2 α → κ)
    (boundary : List (V2 α)) (holes : List (List (V2 α))) (cuts : List (LR2 α)) (tol : α)
    (g : Graph α κ) (h : fromShapeToSplitG fixed M hash boundary holes cuts tol = some g)
    (a b : κ) (hab : b ∈ g.adjOf a) (hba : a ∉ g.adjOf b) :
    ∃ (b' : List (V2 α)) (hs : List (List (V2 α))),
      polygon2d_remove_colinear_vertices M boundary tol = some b' ∧
      allSome (holes.map (fun h => polygon2d_remove_colinear_vertices M h tol)) = some hs ∧
      LoopEdge hash (orientedLoops
        ((intersectSegments M (polygon2d_segments b') cuts tol).map (·.p))
        (hs.map (fun h => (intersectSegments M (polygon2d_segments h) cuts tol).map (·.p)))) a b := by
  obtain ⟨b', hs, pieces, h1, h2, h3, h4, h5⟩ :=
    fromShapeToSplitG_edges fixed M hash boundary holes cuts tol g h
  refine ⟨b', hs, h1, h2, ?_⟩
  rcases h4 a b hab with hl | hp
  · exact hl
  · exfalso
    obtain ⟨hne, s, hs', hcase⟩ := hp
    rcases hcase with ⟨ha, hb⟩ | ⟨ha, hb⟩
    · subst ha hb
      exact hba (h5 s hs' hne).2
    · subst ha hb
      exact hba (h5 s hs' (fun h => hne h.symm)).1

/-! ## List helpers for the dangling-piece filter -/

theorem all_of_filterMap_length {β γ : Type} (p : β → Bool) (f : β → γ) (l : List β)
    (h : (l.filterMap (fun x => if p x then some (f x) else none)).length = l.length) :
    ∀ x ∈ l, p x = true := by
  induction l with
  | nil => intro x hx; simp at hx
  | cons a t ih =>
    by_cases hp : p a = true
    · simp only [List.filterMap_cons, hp, if_true, List.length_cons, Nat.add_right_cancel_iff] at h
      intro x hx
      simp only [List.mem_cons] at hx
      rcases hx with rfl | hx
      · exact hp
      · exact ih h x hx
    · simp only [List.filterMap_cons, hp, List.length_cons] at h
      have := List.length_filterMap_le (fun x => if p x then some (f x) else none) t
      simp only [Bool.false_eq_true, if_false] at h
      omega

theorem zip_map_self {β γ : Type} (f : β → γ) (l : List β) :
    l.zip (l.map f) = l.map (fun s => (s, f s)) := by
  induction l with
  | nil => rfl
  | cons a t ih => simp [ih]

/-! ## No self-loops -/

theorem noSelfLoop_of_edgesSat (g : Graph α κ) (P : κ → κ → Prop) (h : EdgesSat g P)
    (hP : ∀ a b, P a b → a ≠ b) : NoSelfLoop g := fun k hk => hP k k (h k k hk) rfl

/-- The graph of `from_shape_to_split` has no node adjacent to itself. -/
theorem fromShapeToSplitG_noSelfLoop (fixed : Bool) (M : MathOps α) (hash : V2 α → κ)
    (boundary : List (V2 α)) (holes : List (List (V2 α))) (cuts : List (LR2 α)) (tol : α)
    (g : Graph α κ) (h : fromShapeToSplitG fixed M hash boundary holes cuts tol = some g) :
    NoSelfLoop g := by
  obtain ⟨b, hs, pieces, _, _, _, he, _⟩ :=
    fromShapeToSplitG_edges fixed M hash boundary holes cuts tol g h
  apply noSelfLoop_of_edgesSat g _ he
  intro a b hab
  rcases hab with hab | hab
  · exact hab.1
  · exact hab.1

/-! ## Where the pieces of `_intersect_segments` lie -/

section geometry
variable [IsStrictOrderedRing α]

/-- `q` lies on the segment `l` (parameter in [0, 1]). -/
abbrev OnSeg (l : LR2 α) (q : V2 α) : Prop := Rng.seg.On l q

theorem onSeg_p (l : LR2 α) : OnSeg l l.p := ⟨0, le_refl 0, zero_le_one, by simp, by simp⟩

theorem onSeg_p2 (l : LR2 α) : OnSeg l (seg2_p2 l) :=
  ⟨1, zero_le_one, le_refl 1, by simp [seg2_p2], by simp [seg2_p2]⟩

theorem p2_from_end_points (a b : V2 α) : seg2_p2 (seg2_from_end_points a b) = b := by
  apply V2.ext' <;> simp [seg2_p2, seg2_from_end_points]

theorem p_from_end_points (a b : V2 α) : (seg2_from_end_points a b).p = a := by
  apply V2.ext' <;> simp [seg2_from_end_points]

/-- Every split point kept for a segment lies on it and on one of the other (extended)
segments. -/
theorem intersectPts_on (tol : α) (seg : LR2 α) (others : List (LR2 α)) (q : V2 α)
    (h : q ∈ intersectPts tol seg others) : OnSeg seg q ∧ ∃ o ∈ others, OnSeg o q := by
  unfold intersectPts at h
  rw [List.mem_filterMap] at h
  obtain ⟨o, ho, h2⟩ := h
  split at h2
  · exact absurd h2 (by simp)
  · rename_i p hp
    split_ifs at h2
    simp only [Option.some.injEq] at h2
    subst h2
    rw [intersect_line_segment2d_eq, isect2_eq_some_iff] at hp
    exact ⟨hp.2.1, o, ho, hp.2.2⟩

/-- The pieces of one segment start and end on it (given split points on it). -/
theorem splitSeg_on (M : MathOps α) (tol : α) (seg : LR2 α) (pts : List (V2 α))
    (hpts : ∀ q ∈ pts, OnSeg seg q) :
    ∀ s ∈ splitSeg M tol seg pts, OnSeg seg s.p ∧ OnSeg seg (seg2_p2 s) := by
  unfold splitSeg
  split
  · intro s hs
    simp only [List.mem_singleton] at hs
    subst hs
    exact ⟨onSeg_p _, onSeg_p2 _⟩
  · rename_i p
    intro s hs
    have hp := hpts p (by simp)
    simp only [List.mem_cons, List.not_mem_nil, or_false] at hs
    rcases hs with rfl | rfl
    · rw [p2_from_end_points, p_from_end_points]; exact ⟨onSeg_p _, hp⟩
    · rw [p2_from_end_points, p_from_end_points]; exact ⟨hp, onSeg_p2 _⟩
  · simp only []
    have hsorted : ∀ q ∈ (sortAsc (pts.map (fun p => (p2_distance_to_point M seg.p p, p)))).map
        (·.2) ++ [seg2_p2 seg], OnSeg seg q := by
      intro q hq
      rw [List.mem_append, List.mem_singleton] at hq
      rcases hq with hq | rfl
      · rw [List.mem_map] at hq
        obtain ⟨dq, hdq, rfl⟩ := hq
        rw [mem_sortAsc, List.mem_map] at hdq
        obtain ⟨q', hq', rfl⟩ := hdq
        exact hpts q' hq'
      · exact onSeg_p2 _
    generalize (sortAsc (pts.map (fun p => (p2_distance_to_point M seg.p p, p)))).map (·.2) ++
      [seg2_p2 seg] = chain at hsorted
    have hfold : ∀ (l : List (V2 α)) (st : V2 α × List (LR2 α)), (∀ q ∈ l, OnSeg seg q) →
        OnSeg seg st.1 → (∀ s ∈ st.2, OnSeg seg s.p ∧ OnSeg seg (seg2_p2 s)) →
        ∀ s ∈ (l.foldl (fun (st : V2 α × List (LR2 α)) s =>
          (s, if a_p2d_is_equivalent st.1 s tol then st.2
              else st.2 ++ [seg2_from_end_points st.1 s])) st).2,
          OnSeg seg s.p ∧ OnSeg seg (seg2_p2 s) := by
      intro l
      induction l with
      | nil => intro st _ _ h; exact h
      | cons q t ih =>
        intro st hl h1 h2
        simp only [List.foldl_cons]
        apply ih _ (fun q' hq' => hl q' (by simp [hq'])) (hl q (by simp))
        intro s hs
        split_ifs at hs
        · exact h2 s hs
        · rw [List.mem_append, List.mem_singleton] at hs
          rcases hs with hs | rfl
          · exact h2 s hs
          · rw [p2_from_end_points, p_from_end_points]; exact ⟨h1, hl q (by simp)⟩
    exact hfold chain (seg.p, []) hsorted (onSeg_p _) (by simp)

/-- `_intersect_segments`: every returned piece starts and ends on one of the input segments —
it is a sub-segment of it. -/
theorem intersectSegments_sub (M : MathOps α) (segs adds : List (LR2 α)) (tol : α) :
    ∀ s ∈ intersectSegments M segs adds tol,
      ∃ s0 ∈ segs, OnSeg s0 s.p ∧ OnSeg s0 (seg2_p2 s) := by
  intro s hs
  unfold intersectSegments at hs
  simp only [] at hs
  rw [List.mem_flatMap] at hs
  obtain ⟨si, hsi, h2⟩ := hs
  refine ⟨si.1, List.fst_mem_of_mem_zipIdx hsi, ?_⟩
  exact splitSeg_on M tol si.1 _ (fun q hq => (intersectPts_on tol si.1 _ q hq).1) s h2

end geometry

/-! ### Splitting a segment conserves its vector (and its length, for one split point) -/

/-- Sum of the direction vectors of a list of segments. -/
def vecSum (l : List (LR2 α)) : V2 α := ⟨(l.map (·.v.x)).sum, (l.map (·.v.y)).sum⟩

/-- One split point on the segment at parameter `t ∈ [0, 1]`: the two pieces are `t·v` and
`(1 - t)·v`, so their vectors add up to `v` and their lengths to the length of the segment. -/
theorem splitSeg_single (M : MathOps α) (tol : α) (seg : LR2 α) (q : V2 α) (t : α)
    (hx : q.x = seg.p.x + t * seg.v.x) (hy : q.y = seg.p.y + t * seg.v.y) :
    ∃ a b, splitSeg M tol seg [q] = [a, b] ∧ a.p = seg.p ∧ seg2_p2 a = q ∧ b.p = q ∧
      seg2_p2 b = seg2_p2 seg ∧
      a.v = ⟨t * seg.v.x, t * seg.v.y⟩ ∧ b.v = ⟨(1 - t) * seg.v.x, (1 - t) * seg.v.y⟩ := by
  refine ⟨seg2_from_end_points seg.p q, seg2_from_end_points q (seg2_p2 seg), rfl, ?_, ?_, ?_, ?_,
    ?_, ?_⟩
  · apply V2.ext' <;> simp [seg2_from_end_points]
  · apply V2.ext' <;> simp [seg2_p2, seg2_from_end_points]
  · apply V2.ext' <;> simp [seg2_from_end_points]
  · apply V2.ext' <;> simp [seg2_p2, seg2_from_end_points]
  · apply V2.ext' <;> simp [seg2_from_end_points, hx, hy]
  · apply V2.ext' <;> simp [seg2_p2, seg2_from_end_points, hx, hy] <;> ring

/-- The chain of pieces built by the loop of `_intersect_segments` through the points `l`
starting from `prev` telescopes: the vectors of the pieces plus the skipped (tolerance-short)
gaps add up to `last - prev`. -/
theorem chain_vec_sum (tol : α) (l : List (V2 α)) (prev : V2 α) (acc : List (LR2 α)) :
    let r := l.foldl (fun (st : V2 α × List (LR2 α)) s =>
      (s, if a_p2d_is_equivalent st.1 s tol then st.2
          else st.2 ++ [seg2_from_end_points st.1 s])) (prev, acc)
    let skipped := l.foldl (fun (st : V2 α × V2 α) s =>
      (s, if a_p2d_is_equivalent st.1 s tol then ⟨st.2.x + (s.x - st.1.x), st.2.y + (s.y - st.1.y)⟩
          else st.2)) (prev, (⟨0, 0⟩ : V2 α))
    r.1 = (l.getLast?).getD prev ∧
    (vecSum r.2).x + skipped.2.x = (vecSum acc).x + (r.1.x - prev.x) ∧
    (vecSum r.2).y + skipped.2.y = (vecSum acc).y + (r.1.y - prev.y) := by
  simp only []
  suffices h : ∀ (l : List (V2 α)) (prev : V2 α) (acc : List (LR2 α)) (sk : V2 α),
      let r := l.foldl (fun (st : V2 α × List (LR2 α)) s =>
        (s, if a_p2d_is_equivalent st.1 s tol then st.2
            else st.2 ++ [seg2_from_end_points st.1 s])) (prev, acc)
      let skipped := l.foldl (fun (st : V2 α × V2 α) s =>
        (s, if a_p2d_is_equivalent st.1 s tol then
              ⟨st.2.x + (s.x - st.1.x), st.2.y + (s.y - st.1.y)⟩
            else st.2)) (prev, sk)
      r.1 = (l.getLast?).getD prev ∧
      (vecSum r.2).x + skipped.2.x = (vecSum acc).x + sk.x + (r.1.x - prev.x) ∧
      (vecSum r.2).y + skipped.2.y = (vecSum acc).y + sk.y + (r.1.y - prev.y) by
    have := h l prev acc ⟨0, 0⟩
    simpa using this
  intro l
  induction l with
  | nil => intro prev acc sk; simp
  | cons q t ih =>
    intro prev acc sk
    simp only [List.foldl_cons]
    have := ih q (if a_p2d_is_equivalent prev q tol then acc
      else acc ++ [seg2_from_end_points prev q])
      (if a_p2d_is_equivalent prev q tol then ⟨sk.x + (q.x - prev.x), sk.y + (q.y - prev.y)⟩
       else sk)
    simp only [] at this
    obtain ⟨h1, h2, h3⟩ := this
    refine ⟨?_, ?_, ?_⟩
    · rw [h1]
      cases t with
      | nil => simp
      | cons a t' =>
        rw [List.getLast?_cons_cons, List.getLast?_eq_getLast_of_ne_nil (by simp)]
        simp
    · rw [h2]
      split_ifs
      · simp only []; ring
      · simp only [vecSum, List.map_append, List.sum_append, List.map_cons, List.map_nil,
          List.sum_cons, List.sum_nil, seg2_from_end_points]; ring
    · rw [h3]
      split_ifs
      · simp only []; ring
      · simp only [vecSum, List.map_append, List.sum_append, List.map_cons, List.map_nil,
          List.sum_cons, List.sum_nil, seg2_from_end_points]; ring

/-! ## Shoelace accounting of a split -/

section area
variable [IsStrictOrderedRing α]

/-- Sum of `det(pt a, pt b)` over a list of directed edges. -/
def edgeSum (pt : κ → V2 α) (E : List (κ × κ)) : α :=
  (E.map (fun e => V2.det (pt e.1) (pt e.2))).sum

theorem edgeSum_append (pt : κ → V2 α) (E F : List (κ × κ)) :
    edgeSum pt (E ++ F) = edgeSum pt E + edgeSum pt F := by
  simp [edgeSum]

theorem edgeSum_perm (pt : κ → V2 α) {E F : List (κ × κ)} (h : E.Perm F) :
    edgeSum pt E = edgeSum pt F := (h.map _).sum_eq

theorem edgeSum_swap (pt : κ → V2 α) (E : List (κ × κ)) :
    edgeSum pt (E.map Prod.swap) = - edgeSum pt E := by
  induction E with
  | nil => simp [edgeSum]
  | cons e t ih =>
    simp only [edgeSum, List.map_cons, List.sum_cons, Prod.fst_swap, Prod.snd_swap] at ih ⊢
    rw [ih, det_antisymm]; ring

/-- The doubled signed area of the polygon through the points of a cycle is the edge sum over
its cyclic consecutive pairs. -/
theorem shoelace_cycle (pt : κ → V2 α) (c : List κ) :
    shoelace (c.map pt) = edgeSum pt (cyclicPairs c) := by
  rw [shoelace_eq_cycSum, cycSum_map]
  rfl

theorem edgeSum_flatMap (pt : κ → V2 α) (cs : List (List κ)) :
    edgeSum pt (cs.flatMap cyclicPairs) = (cs.map (fun c => shoelace (c.map pt))).sum := by
  induction cs with
  | nil => simp [edgeSum]
  | cons c t ih =>
    simp only [List.flatMap_cons, edgeSum_append, ih, List.map_cons, List.sum_cons, shoelace_cycle]

/-- AREA CONSERVATION OF A CLEAN SPLIT.  If the cycles use every directed edge of the graph
exactly once (`hperm`: their edges are a rearrangement of exterior ++ interior edges), and the
interior edges come in opposite pairs (`hint`), then the signed areas of the cycles add up to
the edge sum of the exterior edges alone. -/
theorem area_of_edge_partition (pt : κ → V2 α) (cycles : List (List κ)) (Eext Eint : List (κ × κ))
    (hperm : (cycles.flatMap cyclicPairs).Perm (Eext ++ Eint))
    (hint : Eint.Perm (Eint.map Prod.swap)) :
    (cycles.map (fun c => shoelace (c.map pt))).sum = edgeSum pt Eext := by
  rw [← edgeSum_flatMap, edgeSum_perm pt hperm, edgeSum_append]
  have h2 : edgeSum pt Eint = - edgeSum pt Eint := by
    conv_lhs => rw [edgeSum_perm pt hint]
    exact edgeSum_swap pt Eint
  have : edgeSum pt Eint = 0 := by linarith
  rw [this, add_zero]

/-- …and if the exterior edges are exactly the edges of the boundary / hole loops, that sum is
the signed area of the boundary plus the (negative) signed areas of the clockwise holes. -/
theorem area_of_clean_split (pt : κ → V2 α) (cycles loops : List (List κ))
    (Eext Eint : List (κ × κ))
    (hperm : (cycles.flatMap cyclicPairs).Perm (Eext ++ Eint))
    (hint : Eint.Perm (Eint.map Prod.swap))
    (hext : Eext.Perm (loops.flatMap cyclicPairs)) :
    (cycles.map (fun c => shoelace (c.map pt))).sum =
      (loops.map (fun l => shoelace (l.map pt))).sum := by
  rw [area_of_edge_partition pt cycles Eext Eint hperm hint, edgeSum_perm pt hext,
    edgeSum_flatMap]

end area

end Lbg.Lemmas.Net
