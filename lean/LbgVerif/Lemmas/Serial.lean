/-
  Lemmas.Serial — component-wise characterisations of equality of the carrier structures,
  used by `Props/C13.lean` (serialisation round trips, `__eq__`, `__hash__`).

  Nothing here mentions a generated kernel; these are facts about `LbgVerif/Basic.lean` only.
-/
import LbgVerif.Basic

namespace Lbg.Lemmas.Serial
open Lbg

variable {α : Type}

/-- Two `V2` are equal iff both coordinates are. -/
theorem v2_ext_iff (a b : V2 α) : a = b ↔ a.x = b.x ∧ a.y = b.y := by
  cases a; cases b; simp only [V2.mk.injEq]

/-- Two `V3` are equal iff all three coordinates are. -/
theorem v3_ext_iff (a b : V3 α) : a = b ↔ a.x = b.x ∧ a.y = b.y ∧ a.z = b.z := by
  cases a; cases b; simp only [V3.mk.injEq]

/-- Two `LR2` are equal iff base point and direction are. -/
theorem lr2_ext_iff (a b : LR2 α) : a = b ↔ a.p = b.p ∧ a.v = b.v := by
  cases a; cases b; simp only [LR2.mk.injEq]

/-- Two `LR3` are equal iff base point and direction are. -/
theorem lr3_ext_iff (a b : LR3 α) : a = b ↔ a.p = b.p ∧ a.v = b.v := by
  cases a; cases b; simp only [LR3.mk.injEq]

/-- Two `PlaneS` are equal iff all five slots are. -/
theorem plane_ext_iff (a b : PlaneS α) :
    a = b ↔ a.n = b.n ∧ a.o = b.o ∧ a.k = b.k ∧ a.x = b.x ∧ a.y = b.y := by
  cases a; cases b; simp only [PlaneS.mk.injEq]

/-- Two `Arc2S` are equal iff all eight slots are. -/
theorem arc2_ext_iff (a b : Arc2S α) :
    a = b ↔ a.c = b.c ∧ a.r = b.r ∧ a.a1 = b.a1 ∧ a.a2 = b.a2 ∧ a.cos_a1 = b.cos_a1 ∧
      a.sin_a1 = b.sin_a1 ∧ a.cos_a2 = b.cos_a2 ∧ a.sin_a2 = b.sin_a2 := by
  cases a; cases b; simp only [Arc2S.mk.injEq]

/-- Two `Arc3S` are equal iff plane and 2D arc are. -/
theorem arc3_ext_iff (a b : Arc3S α) : a = b ↔ a.plane = b.plane ∧ a.arc2d = b.arc2d := by
  cases a; cases b; simp only [Arc3S.mk.injEq]

/-- Two `SphereS` are equal iff centre and radius are. -/
theorem sphere_ext_iff (a b : SphereS α) : a = b ↔ a.center = b.center ∧ a.radius = b.radius := by
  cases a; cases b; simp only [SphereS.mk.injEq]

/-- Two `ConeS` are equal iff vertex, axis and angle are. -/
theorem cone_ext_iff (a b : ConeS α) :
    a = b ↔ a.vertex = b.vertex ∧ a.axis = b.axis ∧ a.angle = b.angle := by
  cases a; cases b; simp only [ConeS.mk.injEq]

/-- Two `CylS` are equal iff centre, axis and radius are. -/
theorem cyl_ext_iff (a b : CylS α) :
    a = b ↔ a.center = b.center ∧ a.axis = b.axis ∧ a.radius = b.radius := by
  cases a; cases b; simp only [CylS.mk.injEq]

end Lbg.Lemmas.Serial
