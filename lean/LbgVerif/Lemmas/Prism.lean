/-
  Lemmas.Prism — the index formulas of `Polyface3D._verts_faces_edges_from_boundary`
  (st_i = 0) and of `Polyface3D.from_offset_face` for a face WITHOUT holes, and the counting
  argument showing that every undirected edge of the resulting structure is used exactly
  twice, for every `n ≥ 3`.

      faces_ind = []
      for i in xrange(st_i, st_i + len_faces - 1):
          faces_ind.append((i, i + 1, i + len_faces + 1, i + len_faces))
      faces_ind.append((st_i + len_faces - 1, st_i, st_i + len_faces, st_i + len_faces * 2 - 1))
      edge_i1 = [(st_i + i, st_i + i + 1) for i in xrange(len_faces - 1)]
      edge_i2 = [(st_i + i, st_i + i + len_faces) for i in xrange(len_faces)]
      edge_i3 = [(st_i + len_faces + i, st_i + len_faces + i + 1) for i in xrange(len_faces - 1)]
      edge_indices = edge_i1 + [(st_i + len_faces - 1, st_i)] + edge_i2 + edge_i3 + \
          [(st_i + len_faces * 2 - 1, st_i + len_faces)]
      ...
      face_ind_bottom = [tuple(reversed(xrange(len_faces)))]
      face_ind_top = [tuple(reversed(xrange(len_faces * 2 - 1, len_faces - 1, -1)))]
      faces_ind = [face_ind_bottom] + face_ind_extru + [face_ind_top]
-/
import LbgVerif.Lemmas.EdgeInfo
import Mathlib.Data.List.Range
import Mathlib.Data.List.Nodup
import Mathlib.Data.List.Perm.Basic

namespace Lbg.Lemmas.Prism
open Lbg Lbg.Model.EdgeInfo Lbg.Spec.EdgeCount Lbg.Lemmas.EdgeInfo

/-! ### The literal index formulas -/

/-- `xrange(a, b, -1)` for `b ≤ a`: `a, a-1, …, b+1`. -/
def xrangeDown (a b : Nat) : List Nat := (List.range (a - b)).map (fun i => a - i)

/-- Side faces of the extrusion (`st_i = 0`). -/
def sideFaces (n : Nat) : List (List Nat) :=
  (List.range (n - 1)).map (fun i => [i, i + 1, i + n + 1, i + n]) ++ [[n - 1, 0, n, n * 2 - 1]]

/-- `face_ind_bottom`'s loop: `tuple(reversed(xrange(n)))`. -/
def bottomLoop (n : Nat) : List Nat := (List.range n).reverse

/-- `face_ind_top`'s loop: `tuple(reversed(xrange(2n - 1, n - 1, -1)))`. -/
def topLoop (n : Nat) : List Nat := (xrangeDown (n * 2 - 1) (n - 1)).reverse

/-- `faces_ind` of `from_offset_face` for a face without holes with `n` boundary vertices. -/
def prismFaces (n : Nat) : List (List (List Nat)) :=
  [[bottomLoop n]] ++ (sideFaces n).map (fun fc => [fc]) ++ [[topLoop n]]

/-- The pre-seeded `edge_indices`. -/
def prismEdgeIndices (n : Nat) : List DEdge :=
  (List.range (n - 1)).map (fun i => (i, i + 1)) ++ [(n - 1, 0)] ++
    (List.range n).map (fun i => (i, i + n)) ++
    (List.range (n - 1)).map (fun i => (n + i, n + i + 1)) ++ [(n * 2 - 1, n)]

/-! ### Cyclic pairs of an indexed list -/

theorem cyclicPairs_map_range {β : Type} (f : Nat → β) (k : Nat) :
    cyclicPairs ((List.range (k + 1)).map f) =
      (f k, f 0) :: (List.range k).map (fun i => (f i, f (i + 1))) := by
  unfold cyclicPairs
  have hl : ((List.range (k + 1)).map f).getLast? = some (f k) := by
    rw [List.range_succ, List.map_append]
    simp
  rw [hl]
  simp only
  apply List.ext_getElem
  · simp
  · intro i h1 h2
    cases i with
    | zero => simp
    | succ j => simp

theorem norm_of_le {a b : Nat} (h : a ≤ b) : norm a b = (a, b) := by
  unfold norm; simp [h]

theorem norm_of_ge {a b : Nat} (h : b ≤ a) : norm a b = (b, a) := by
  rw [norm_comm]; exact norm_of_le h

theorem und_cons_ne {a b : Nat} (h : a ≠ b) (t : List DEdge) :
    und ((a, b) :: t) = norm a b :: und t := by
  have : und ((a, b) :: t) = und [(a, b)] ++ und t := und_append [(a, b)] t
  rw [this, und_single]
  simp [h, normP]

theorem und_map_proper (g : Nat → DEdge) (l : List Nat) (h : ∀ i ∈ l, (g i).1 ≠ (g i).2) :
    und (l.map g) = l.map (fun i => normP (g i)) := by
  induction l with
  | nil => rfl
  | cons a t ih =>
    have h1 := h a (by simp)
    rw [List.map_cons, show g a = ((g a).1, (g a).2) from rfl, und_cons_ne h1,
      ih (fun i hi => h i (List.mem_cons_of_mem _ hi))]
    rfl

/-- Sides of a quadrilateral with four proper sides. -/
theorem loopEdges_quad {a b c d : Nat} (hab : a ≠ b) (hbc : b ≠ c) (hcd : c ≠ d) (hda : d ≠ a) :
    loopEdges [a, b, c, d] = [norm d a, norm a b, norm b c, norm c d] := by
  rw [loopEdges_eq]
  have : cyclicPairs [a, b, c, d] = [(d, a), (a, b), (b, c), (c, d)] := by
    simp [cyclicPairs]
  rw [this, und_cons_ne hda, und_cons_ne hab, und_cons_ne hbc, und_cons_ne hcd]
  rfl

/-! ### The pieces -/

theorem reverse_range_eq (n : Nat) :
    (List.range n).reverse = (List.range n).map (fun i => n - 1 - i) := by
  rw [List.range_eq_range', List.reverse_range', ← List.range_eq_range']
  apply List.map_congr_left
  intro i _
  omega

theorem bottomLoop_eq (k : Nat) : bottomLoop (k + 1) = (List.range (k + 1)).map (fun i => k - i) := by
  unfold bottomLoop
  rw [reverse_range_eq]
  apply List.map_congr_left
  intro i _
  omega

theorem topLoop_eq (k : Nat) :
    topLoop (k + 1) = (List.range (k + 1)).map (fun i => k + 1 + i) := by
  unfold topLoop xrangeDown
  have h1 : (k + 1) * 2 - 1 - (k + 1 - 1) = k + 1 := by omega
  rw [h1, ← List.map_reverse, reverse_range_eq, List.map_map]
  apply List.map_congr_left
  intro i hi
  have : i < k + 1 := by simpa using hi
  simp only [Function.comp]
  omega

/-- Sides of the bottom loop: the closing edge `{0, n-1}` and the chain `{i, i+1}` (listed
backwards). -/
theorem loopEdges_bottom (k : Nat) (hk : 1 ≤ k) :
    loopEdges (bottomLoop (k + 1)) =
      (0, k) :: (List.range k).map (fun i => (k - (i + 1), k - i)) := by
  rw [bottomLoop_eq, loopEdges_eq, cyclicPairs_map_range]
  simp only [Nat.sub_self, Nat.sub_zero]
  rw [und_cons_ne (by omega), norm_of_le (by omega), und_map_proper]
  · congr 1
    apply List.map_congr_left
    intro i hi
    have : i < k := by simpa using hi
    exact norm_of_ge (by omega)
  · intro i hi
    have : i < k := by simpa using hi
    simp only
    omega

/-- The bottom chain is the forward chain, reversed. -/
theorem bottom_chain_perm (k : Nat) :
    ((List.range k).map (fun i => ((k - (i + 1), k - i) : Edge))).Perm
      ((List.range k).map (fun i => ((i, i + 1) : Edge))) := by
  have : (List.range k).map (fun i => ((k - (i + 1), k - i) : Edge)) =
      ((List.range k).map (fun i => ((i, i + 1) : Edge))).reverse := by
    rw [← List.map_reverse, reverse_range_eq, List.map_map]
    apply List.map_congr_left
    intro i hi
    have : i < k := by simpa using hi
    simp only [Function.comp, Prod.mk.injEq]
    omega
  rw [this]
  exact List.reverse_perm _

/-- Sides of the top loop. -/
theorem loopEdges_top (k : Nat) (hk : 1 ≤ k) :
    loopEdges (topLoop (k + 1)) =
      (k + 1, k + 1 + k) :: (List.range k).map (fun i => (k + 1 + i, k + 1 + i + 1)) := by
  rw [topLoop_eq, loopEdges_eq, cyclicPairs_map_range]
  rw [und_cons_ne (by omega), norm_of_ge (by omega), und_map_proper]
  · simp only [Nat.add_zero]
    congr 1
    apply List.map_congr_left
    intro i _
    exact norm_of_le (by omega)
  · intro i _
    simp only
    omega

/-- Sides of the `i`-th side face. -/
theorem loopEdges_side (n i : Nat) (hn : 2 ≤ n) :
    loopEdges [i, i + 1, i + n + 1, i + n] =
      [(i, i + n), (i, i + 1), (i + 1, i + 1 + n), (n + i, n + i + 1)] := by
  rw [loopEdges_quad (by omega) (by omega) (by omega) (by omega),
    norm_of_ge (a := i + n) (b := i) (by omega), norm_of_le (a := i) (b := i + 1) (by omega),
    norm_of_le (a := i + 1) (b := i + n + 1) (by omega),
    norm_of_ge (a := i + n + 1) (b := i + n) (by omega)]
  simp only [List.cons.injEq, Prod.mk.injEq, and_true, true_and]
  omega

/-- Sides of the closing side face. -/
theorem loopEdges_lastSide (k : Nat) (hk : 1 ≤ k) :
    loopEdges [k + 1 - 1, 0, k + 1, (k + 1) * 2 - 1] =
      [(k, k + (k + 1)), (0, k), (0, k + 1), (k + 1, k + 1 + k)] := by
  rw [loopEdges_quad (by omega) (by omega) (by omega) (by omega),
    norm_of_ge (a := (k + 1) * 2 - 1) (b := k + 1 - 1) (by omega),
    norm_of_ge (a := k + 1 - 1) (b := 0) (by omega),
    norm_of_le (a := 0) (b := k + 1) (by omega),
    norm_of_le (a := k + 1) (b := (k + 1) * 2 - 1) (by omega)]
  simp only [List.cons.injEq, Prod.mk.injEq, and_true, true_and]
  omega

theorem count_flatMap4 {β : Type} (e : Edge) (f1 f2 f3 f4 : β → Edge) (l : List β) :
    (l.flatMap (fun i => [f1 i, f2 i, f3 i, f4 i])).count e =
      (l.map f1).count e + (l.map f2).count e + (l.map f3).count e + (l.map f4).count e := by
  induction l with
  | nil => simp
  | cons a t ih =>
    simp only [List.flatMap_cons, List.count_append, ih, List.map_cons]
    have h : ∀ (x : Edge) (r : List Edge), (x :: r).count e = [x].count e + r.count e := by
      intro x r
      rw [← List.count_append]; rfl
    rw [h (f1 a) (t.map f1), h (f2 a) (t.map f2), h (f3 a) (t.map f3), h (f4 a) (t.map f4)]
    have : [f1 a, f2 a, f3 a, f4 a].count e =
        [f1 a].count e + [f2 a].count e + [f3 a].count e + [f4 a].count e := by
      rw [h (f1 a), h (f2 a), h (f3 a)]
      omega
    omega

/-- The pre-seeded edges as undirected edges. -/
def prismEdges (k : Nat) : List Edge :=
  (List.range k).map (fun i => (i, i + 1)) ++ [(0, k)] ++
    (List.range (k + 1)).map (fun i => (i, i + (k + 1))) ++
    (List.range k).map (fun i => (k + 1 + i, k + 1 + i + 1)) ++ [(k + 1, k + 1 + k)]

theorem prismEdgeIndices_norm (k : Nat) (hk : 1 ≤ k) :
    (prismEdgeIndices (k + 1)).map normP = prismEdges k := by
  unfold prismEdgeIndices prismEdges
  simp only [List.map_append, List.map_map, List.map_cons, List.map_nil, Nat.add_sub_cancel]
  have e1 : normP (k, 0) = (0, k) := norm_of_ge (by omega)
  have e2 : normP ((k + 1) * 2 - 1, k + 1) = (k + 1, k + 1 + k) := by
    show norm _ _ = _
    rw [norm_of_ge (by omega)]
    simp only [Prod.mk.injEq, true_and]; omega
  rw [e1, e2]
  congr 1
  congr 1
  · congr 1
    · congr 1
      apply List.map_congr_left
      intro i _
      show norm i (i + 1) = (i, i + 1)
      exact norm_of_le (by omega)
    · apply List.map_congr_left
      intro i _
      show norm i (i + (k + 1)) = (i, i + (k + 1))
      exact norm_of_le (by omega)
  · apply List.map_congr_left
    intro i _
    show norm (k + 1 + i) (k + 1 + i + 1) = (k + 1 + i, k + 1 + i + 1)
    exact norm_of_le (by omega)

/-- **Counting argument**: every undirected edge is used exactly twice as often as it occurs
in the pre-seeded edge list. -/
theorem uses_prism (k : Nat) (hk : 1 ≤ k) (e : Edge) :
    uses (prismFaces (k + 1)) e = 2 * (prismEdges k).count e := by
  unfold uses allEdges prismFaces sideFaces
  simp only [List.flatMap_append, List.flatMap_cons, List.flatMap_nil, List.append_nil,
    List.map_append, List.map_map, List.map_cons, List.map_nil, List.flatMap_map, faceEdges,
    Function.comp, Nat.add_sub_cancel]
  have hs : (List.range k).flatMap (fun i => loopEdges [i, i + 1, i + (k + 1) + 1, i + (k + 1)]) =
      (List.range k).flatMap (fun i =>
        [((i, i + (k + 1)) : Edge), (i, i + 1), (i + 1, i + 1 + (k + 1)),
          (k + 1 + i, k + 1 + i + 1)]) := by
    apply List.flatMap_congr
    intro i _
    exact loopEdges_side (k + 1) i (by omega)
  have hl := loopEdges_lastSide k hk
  simp only [Nat.add_sub_cancel] at hl
  rw [hs, loopEdges_bottom k hk, loopEdges_top k hk, hl]
  unfold prismEdges
  have hV1 : (List.range (k + 1)).map (fun i => ((i, i + (k + 1)) : Edge)) =
      (List.range k).map (fun i => ((i, i + (k + 1)) : Edge)) ++ [(k, k + (k + 1))] := by
    rw [List.range_succ, List.map_append]; rfl
  have hV2 : ((List.range (k + 1)).map (fun i => ((i, i + (k + 1)) : Edge))).count e =
      [((0, k + 1) : Edge)].count e +
        ((List.range k).map (fun i => ((i + 1, i + 1 + (k + 1)) : Edge))).count e := by
    rw [List.range_succ_eq_map, List.map_cons, List.map_map, ← List.count_append]
    simp only [Nat.zero_add, List.singleton_append]
    rfl
  have hB := (bottom_chain_perm k).count_eq e
  have hc : ∀ (x : Edge) (r : List Edge), (x :: r).count e = [x].count e + r.count e := by
    intro x r
    rw [← List.count_append]; rfl
  simp only [List.count_append, count_flatMap4]
  rw [hc (0, k) ((List.range k).map _), hc (k + 1, k + 1 + k) ((List.range k).map _),
    hc (k, k + (k + 1)) _, hc (0, k) [_, _], hc (0, k + 1) [_], hB]
  have hV1' := congrArg (List.count e) hV1
  rw [List.count_append] at hV1'
  omega

/-- The pre-seeded edge list has no duplicates (as undirected edges) when `n ≥ 3`. -/
theorem prismEdges_nodup (k : Nat) (hk : 2 ≤ k) : (prismEdges k).Nodup := by
  unfold prismEdges
  have inj1 : ((List.range k).map (fun i => ((i, i + 1) : Edge))).Nodup :=
    List.Nodup.map (fun a b h => by simp only [Prod.mk.injEq] at h; exact h.1) List.nodup_range
  have inj2 : ((List.range (k + 1)).map (fun i => ((i, i + (k + 1)) : Edge))).Nodup :=
    List.Nodup.map (fun a b h => by simp only [Prod.mk.injEq] at h; exact h.1) List.nodup_range
  have inj3 : ((List.range k).map (fun i => ((k + 1 + i, k + 1 + i + 1) : Edge))).Nodup :=
    List.Nodup.map (fun a b h => by simp only [Prod.mk.injEq] at h; omega) List.nodup_range
  simp only [List.nodup_append, inj1, inj2, inj3, List.nodup_cons, List.not_mem_nil,
    not_false_eq_true, List.nodup_nil, List.mem_append, List.mem_map, List.mem_range,
    List.mem_cons, true_and, and_true, ne_eq, or_false]
  refine ⟨⟨⟨?_, ?_⟩, ?_⟩, ?_⟩
  · rintro _ ⟨i, hi, rfl⟩ _ rfl
    simp only [Prod.mk.injEq] at *
    omega
  · rintro _ (⟨i, hi, rfl⟩ | rfl) _ ⟨j, hj, rfl⟩ <;> simp only [Prod.mk.injEq] <;> omega
  · rintro _ ((⟨i, hi, rfl⟩ | rfl) | ⟨i, hi, rfl⟩) _ ⟨j, hj, rfl⟩ <;>
      simp only [Prod.mk.injEq] <;> omega
  · rintro _ (((⟨i, hi, rfl⟩ | rfl) | ⟨i, hi, rfl⟩) | ⟨i, hi, rfl⟩) _ rfl <;>
      simp only [Prod.mk.injEq] <;> omega

end Lbg.Lemmas.Prism
