/-
  Helper lemmas for the `_segmentChainer` theorems (Props/C04b), part 3: the invariant of the
  ghost chainer under the hypothesis that `is_equivalent` is exact equality on the end points
  of the input segments.
-/
import LbgVerif.Lemmas.ChainerGhost
import Mathlib.Tactic.Abel

namespace Lbg.Lemmas.Chainer
open Lbg Lbg.Model.Chainer

variable {α : Type}

/-! ## Accessors -/

theorem nth_zero (l : List (V2 α)) (z : V2 α) : nth l 0 z = l.head?.getD z := by
  cases l <;> rfl

theorem nth_one (l : List (V2 α)) (z : V2 α) : nth l 1 z = l.tail.head?.getD z := by
  cases l with
  | nil => rfl
  | cons a l => cases l <;> rfl

theorem nthBack_zero (l : List (V2 α)) (z : V2 α) : nthBack l 0 z = l.getLast?.getD z := by
  unfold nthBack
  rw [← List.head?_reverse]
  cases l.reverse <;> rfl

theorem nthBack_one (l : List (V2 α)) (z : V2 α) :
    nthBack l 1 z = l.dropLast.getLast?.getD z := by
  unfold nthBack
  rcases List.eq_nil_or_concat l with rfl | ⟨l', x, rfl⟩
  · rfl
  · simp
    rw [← List.head?_reverse]
    cases l'.reverse <;> rfl

theorem getD_of_lt {β : Type} (l : List β) (i : Nat) (d : β) (h : i < l.length) :
    l.getD i d = l[i] := by
  simp [List.getD_eq_getElem?_getD, List.getElem?_eq_getElem h]

theorem exists_cons_cons (l : List (V2 α)) (h : 2 ≤ l.length) :
    ∃ a b r, l = a :: b :: r := by
  match l, h with
  | a :: b :: r, _ => exact ⟨a, b, r, rfl⟩

theorem exists_snoc_snoc (l : List (V2 α)) (h : 2 ≤ l.length) :
    ∃ r a b, l = r ++ [a, b] := by
  obtain ⟨a, b, r, hr⟩ := exists_cons_cons l.reverse (by simpa using h)
  refine ⟨r.reverse, b, a, ?_⟩
  have := congrArg List.reverse hr
  simpa using this

/-! ## The invariant -/

section Inv
variable (eqv : V2 α → V2 α → Bool) (col : V2 α → V2 α → V2 α → Bool) (z : V2 α)
variable (P : V2 α → Prop)

/-- `is_equivalent` decides equality on the points satisfying `P`. -/
def Exact : Prop := ∀ p q, P p → P q → (eqv p q = true ↔ p = q)

/-- A stored chain with its ghost. -/
def ChainOK (cf : GChain α) : Prop :=
  Reduces col cf.2 cf.1 ∧ 2 ≤ cf.1.length ∧ ∀ p ∈ cf.2, P p

/-- First / last point of a chain (read from the ghost; equal to the actual ones). -/
def hd (cf : GChain α) : V2 α := cf.2.head?.getD z
def tl (cf : GChain α) : V2 α := cf.2.getLast?.getD z

/-- The two ends of a chain. -/
def ends (cf : GChain α) : Multiset (V2 α) := hd z cf ::ₘ {tl z cf}

/-- Edges of all ghost chains. -/
def chainEdges (M : Multiset (GChain α)) : Multiset (Sym2 (V2 α)) :=
  (M.map fun cf => pathEdges cf.2).sum

/-- Edges of all ghost loops. -/
def regionEdges (R : List (GChain α)) : Multiset (Sym2 (V2 α)) :=
  (R.map fun cf => loopEdges cf.2).sum

/-- Invariant of the list of chains: every chain is well formed, all chain ends are pairwise
different points, the ghosts carry the edge multiset `C`. -/
structure LInv (l : List (GChain α)) (C : Multiset (Sym2 (V2 α))) : Prop where
  ok : ∀ cf ∈ l, ChainOK col P cf
  nodup : ((↑l : Multiset (GChain α)).bind (ends z)).Nodup
  edges : chainEdges (↑l : Multiset (GChain α)) = C

variable {col z P}

theorem ChainOK.len2 {cf : GChain α} (h : ChainOK col P cf) : 2 ≤ cf.2.length :=
  le_trans h.2.1 h.1.length_le

theorem ChainOK.head_eq {cf : GChain α} (h : ChainOK col P cf) :
    cf.1.head?.getD z = hd z cf := by
  unfold hd; rw [h.1.head?]

theorem ChainOK.last_eq {cf : GChain α} (h : ChainOK col P cf) :
    cf.1.getLast?.getD z = tl z cf := by
  unfold tl; rw [h.1.getLast?]

theorem ChainOK.head?_eq {cf : GChain α} (h : ChainOK col P cf) :
    cf.2.head? = some (hd z cf) := by
  obtain ⟨a, b, r, hr⟩ := exists_cons_cons cf.2 h.len2
  unfold hd; rw [hr]; rfl

theorem ChainOK.getLast?_eq {cf : GChain α} (h : ChainOK col P cf) :
    cf.2.getLast? = some (tl z cf) := by
  obtain ⟨r, a, b, hr⟩ := exists_snoc_snoc cf.2 h.len2
  unfold tl; rw [hr]; simp

theorem ChainOK.P_hd {cf : GChain α} (h : ChainOK col P cf) : P (hd z cf) := by
  apply h.2.2
  exact List.mem_of_mem_head? h.head?_eq

theorem ChainOK.P_tl {cf : GChain α} (h : ChainOK col P cf) : P (tl z cf) := by
  apply h.2.2
  exact List.mem_of_mem_getLast? h.getLast?_eq

theorem ChainOK.reverse {cf : GChain α} (h : ChainOK col P cf) :
    ChainOK col P (cf.1.reverse, cf.2.reverse) :=
  ⟨h.1.reverse, by simpa using h.2.1, fun p hp => h.2.2 p (by simpa using hp)⟩

theorem hd_reverse (cf : GChain α) : hd z (cf.1.reverse, cf.2.reverse) = tl z cf := by
  unfold hd tl; simp

theorem tl_reverse (cf : GChain α) : tl z (cf.1.reverse, cf.2.reverse) = hd z cf := by
  unfold hd tl; simp

theorem ends_reverse (cf : GChain α) : ends z (cf.1.reverse, cf.2.reverse) = ends z cf := by
  unfold ends; rw [hd_reverse, tl_reverse]
  exact Multiset.cons_swap _ _ _

theorem chainEdges_cons (cf : GChain α) (M : Multiset (GChain α)) :
    chainEdges (cf ::ₘ M) = pathEdges cf.2 + chainEdges M := by
  unfold chainEdges; simp

/-- What `matchChain` reports, under exactness: the matched end equals the matched point. -/
theorem matchChain_some (hex : Exact eqv P) {cf : GChain α} (hok : ChainOK col P cf)
    {pt1 pt2 : V2 α} (h1 : P pt1) (h2 : P pt2) {h p : Bool}
    (hm : matchChain eqv z cf.1 pt1 pt2 = some (h, p)) :
    (if h then hd z cf else tl z cf) = (if p then pt1 else pt2) := by
  unfold matchChain at hm
  simp only [nth_zero, nthBack_zero, hok.head_eq, hok.last_eq] at hm
  have Ph := hok.P_hd (z := z)
  have Pt := hok.P_tl (z := z)
  split_ifs at hm with e1 e2 e3 e4
  · cases hm; simpa using (hex _ _ Ph h1).mp e1
  · cases hm; simpa using (hex _ _ Ph h2).mp e2
  · cases hm; simpa using (hex _ _ Pt h1).mp e3
  · cases hm; simpa using (hex _ _ Pt h2).mp e4

/-- A chain that does not match has neither end at `pt1` or `pt2`. -/
theorem matchChain_none (hex : Exact eqv P) {cf : GChain α} (hok : ChainOK col P cf)
    {pt1 pt2 : V2 α} (h1 : P pt1) (h2 : P pt2)
    (hm : matchChain eqv z cf.1 pt1 pt2 = none) :
    ∀ e ∈ ends z cf, e ≠ pt1 ∧ e ≠ pt2 := by
  unfold matchChain at hm
  simp only [nth_zero, nthBack_zero, hok.head_eq, hok.last_eq] at hm
  have Ph := hok.P_hd (z := z)
  have Pt := hok.P_tl (z := z)
  split_ifs at hm with e1 e2 e3 e4
  intro e he
  unfold ends at he
  simp only [Multiset.mem_cons, Multiset.mem_singleton] at he
  rcases he with rfl | rfl
  · exact ⟨fun e => e1 ((hex _ _ Ph h1).mpr e), fun e => e2 ((hex _ _ Ph h2).mpr e)⟩
  · exact ⟨fun e => e3 ((hex _ _ Pt h1).mpr e), fun e => e4 ((hex _ _ Pt h2).mpr e)⟩

/-! ## List-level steps -/

theorem coe_set {β : Type} (l : List β) (i : Nat) (h : i < l.length) (x : β) :
    (↑(l.set i x) : Multiset β) = x ::ₘ (↑(l.eraseIdx i) : Multiset β) := by
  have h' : i < (l.set i x).length := by simpa using h
  have := coe_eq_getElem_cons_eraseIdx (l.set i x) i h'
  simpa [List.eraseIdx_set_eq] using this

theorem LInv.of_cons {l : List (GChain α)} {C : Multiset (Sym2 (V2 α))}
    (hok : ∀ cf ∈ l, ChainOK col P cf) {x : GChain α} {rest : Multiset (GChain α)}
    (hl : (↑l : Multiset (GChain α)) = x ::ₘ rest)
    (hnd : (ends z x + rest.bind (ends z)).Nodup)
    (hC : pathEdges x.2 + chainEdges rest = C) : LInv col z P l C := by
  refine ⟨hok, ?_, ?_⟩
  · rw [hl, Multiset.cons_bind]; exact hnd
  · rw [hl, chainEdges_cons]; exact hC

theorem LInv.cons_inv {l : List (GChain α)} {C : Multiset (Sym2 (V2 α))}
    (h : LInv col z P l C) {x : GChain α} {rest : Multiset (GChain α)}
    (hl : (↑l : Multiset (GChain α)) = x ::ₘ rest) :
    (ends z x + rest.bind (ends z)).Nodup ∧ pathEdges x.2 + chainEdges rest = C := by
  have h1 := h.nodup
  have h2 := h.edges
  rw [hl, Multiset.cons_bind] at h1
  rw [hl, chainEdges_cons] at h2
  exact ⟨h1, h2⟩

/-- `reverseChain` keeps the invariant. -/
theorem LInv.greverse {l : List (GChain α)} {C : Multiset (Sym2 (V2 α))}
    (h : LInv col z P l C) (i : Nat) (hi : i < l.length) :
    LInv col z P (greverseChain l i) C := by
  unfold greverseChain
  rw [getD_of_lt l i _ hi]
  obtain ⟨hnd, hC⟩ := h.cons_inv (coe_eq_getElem_cons_eraseIdx l i hi)
  apply LInv.of_cons (x := (l[i].1.reverse, l[i].2.reverse)) _ (coe_set l i hi _)
  · rw [ends_reverse]; exact hnd
  · simp only [pathEdges_reverse]; exact hC
  · intro cf hcf
    rcases List.mem_or_eq_of_mem_set hcf with hm | rfl
    · exact h.ok cf hm
    · exact (h.ok _ (List.getElem_mem hi)).reverse

theorem greverse_length (l : List (GChain α)) (i : Nat) :
    (greverseChain l i).length = l.length := by
  unfold greverseChain; simp

theorem greverse_getElem_self (l : List (GChain α)) (i : Nat) (hi : i < l.length) :
    (greverseChain l i)[i]'(by rw [greverse_length]; exact hi) =
      (l[i].1.reverse, l[i].2.reverse) := by
  unfold greverseChain
  simp only [getD_of_lt l i _ hi, List.getElem_set_self]

theorem greverse_getElem_ne (l : List (GChain α)) (i j : Nat) (hj : j < l.length)
    (hne : i ≠ j) :
    (greverseChain l i)[j]'(by rw [greverse_length]; exact hj) = l[j] := by
  unfold greverseChain
  simp [List.getElem_set_ne hne]

/-- The chain produced by `appendChain` from `c1 = … t2 t` and `c2 = g g2 …`. -/
theorem append_reduces {f1 f2 c1 c2 : List (V2 α)} (h1 : Reduces col f1 c1)
    (h2 : Reduces col f2 c2) (l1 : 2 ≤ c1.length) (l2 : 2 ≤ c2.length) :
    let tail := nthBack c1 0 z
    let tail2 := nthBack c1 1 z
    let head := nth c2 0 z
    let head2 := nth c2 1 z
    let a := col tail2 tail head
    let c1' := if a then c1.dropLast else c1
    let tail' := if a then tail2 else tail
    let c2' := if col tail' head head2 then c2.tail else c2
    Reduces col (f1 ++ f2) (c1' ++ c2') ∧ 2 ≤ (c1' ++ c2').length := by
  obtain ⟨init, t2, t, rfl⟩ := exists_snoc_snoc c1 l1
  obtain ⟨g, g2, r, rfl⟩ := exists_cons_cons c2 l2
  have e1 : nthBack (init ++ [t2, t]) 0 z = t := by simp [nthBack]
  have e2 : nthBack (init ++ [t2, t]) 1 z = t2 := by simp [nthBack]
  have e3 : nth (g :: g2 :: r) 0 z = g := rfl
  have e4 : nth (g :: g2 :: r) 1 z = g2 := rfl
  have base : Reduces col (f1 ++ f2) ((init ++ [t2, t]) ++ (g :: g2 :: r)) := h1.append h2
  simp only [e1, e2, e3, e4]
  have d1 : (init ++ [t2, t]).dropLast = init ++ [t2] := by
    rw [show init ++ [t2, t] = (init ++ [t2]) ++ [t] by simp, List.dropLast_concat]
  by_cases hA : col t2 t g = true
  · have sA : Reduces col (f1 ++ f2) ((init ++ [t2]) ++ (g :: g2 :: r)) := by
      apply base.step
      have := DropStep.mk (col := col) init t2 t g (g2 :: r) (Or.inl hA)
      simpa using this
    by_cases hB : col t2 g g2 = true
    · simp only [hA, hB, ↓reduceIte, d1, List.tail_cons]
      refine ⟨?_, by simp; omega⟩
      apply sA.step
      have := DropStep.mk (col := col) init t2 g g2 r (Or.inl hB)
      simpa using this
    · simp only [hA, hB, ↓reduceIte, d1, Bool.false_eq_true]
      exact ⟨sA, by simp; omega⟩
  · by_cases hB : col t g g2 = true
    · simp only [hA, hB, ↓reduceIte, List.tail_cons, Bool.false_eq_true]
      refine ⟨?_, by simp; omega⟩
      apply base.step
      have := DropStep.mk (col := col) (init ++ [t2]) t g g2 r (Or.inl hB)
      simpa using this
    · simp only [hA, hB, ↓reduceIte, Bool.false_eq_true]
      exact ⟨base, by simp; omega⟩

/-- `appendChain(i1, i2)`: the two chains are replaced by their concatenation; the new edge
joins the tail of chain `i1` to the head of chain `i2`. -/
theorem LInv.gappend {l : List (GChain α)} {C : Multiset (Sym2 (V2 α))}
    (h : LInv col z P l C) (i1 i2 : Nat) (h1 : i1 < l.length) (h2 : i2 < l.length)
    (hne : i1 ≠ i2) :
    LInv col z P (gappendChain col z l i1 i2) (s(tl z l[i1], hd z l[i2]) ::ₘ C) := by
  have ok1 := h.ok _ (List.getElem_mem h1)
  have ok2 := h.ok _ (List.getElem_mem h2)
  unfold gappendChain
  rw [getD_of_lt l i1 _ h1, getD_of_lt l i2 _ h2]
  obtain ⟨hred, hlen⟩ := append_reduces (z := z) ok1.1 ok2.1 ok1.2.1 ok2.2.1
  dsimp only at hred hlen ⊢
  generalize hx : (if col (nthBack l[i1].1 1 z) (nthBack l[i1].1 0 z) (nth l[i2].1 0 z) = true
      then l[i1].1.dropLast else l[i1].1) ++
      (if col (if col (nthBack l[i1].1 1 z) (nthBack l[i1].1 0 z) (nth l[i2].1 0 z) = true
        then nthBack l[i1].1 1 z else nthBack l[i1].1 0 z) (nth l[i2].1 0 z)
        (nth l[i2].1 1 z) = true then l[i2].1.tail else l[i2].1) = cx at hred hlen ⊢
  obtain ⟨rest, hl, hres⟩ := set_eraseIdx_decomp l i1 i2 h1 h2 hne (cx, l[i1].2 ++ l[i2].2)
  obtain ⟨hnd, hC⟩ := h.cons_inv hl
  have hx2 : (cx, l[i1].2 ++ l[i2].2).2 = l[i1].2 ++ l[i2].2 := rfl
  have okx : ChainOK col P (cx, l[i1].2 ++ l[i2].2) := by
    refine ⟨hred, hlen, ?_⟩
    intro p hp
    rcases List.mem_append.mp hp with hp | hp
    · exact ok1.2.2 p hp
    · exact ok2.2.2 p hp
  have hhd : hd z (cx, l[i1].2 ++ l[i2].2) = hd z l[i1] := by
    unfold hd
    rw [hx2, List.head?_append, ok1.head?_eq (z := z)]; rfl
  have htl : tl z (cx, l[i1].2 ++ l[i2].2) = tl z l[i2] := by
    unfold tl
    rw [hx2, List.getLast?_append, ok2.getLast?_eq (z := z)]; rfl
  apply LInv.of_cons _ hres
  · -- end points
    rw [Multiset.cons_bind] at hnd
    apply Multiset.nodup_of_le _ hnd
    rw [Multiset.le_iff_exists_add]
    refine ⟨tl z l[i1] ::ₘ {hd z l[i2]}, ?_⟩
    unfold ends
    rw [hhd, htl]
    simp only [← Multiset.singleton_add]
    abel
  · -- edges
    rw [chainEdges_cons] at hC
    rw [hx2, pathEdges_append _ _ _ _ (ok1.getLast?_eq (z := z)) (ok2.head?_eq (z := z)), ← hC]
    simp only [← Multiset.singleton_add]
    abel
  · intro cf hcf
    rcases List.mem_or_eq_of_mem_set (List.mem_of_mem_eraseIdx hcf) with hm | rfl
    · exact h.ok cf hm
    · exact okx

/-- A new two-point chain whose ends match nothing. -/
theorem LInv.gnew {l : List (GChain α)} {C : Multiset (Sym2 (V2 α))}
    (h : LInv col z P l C) (pt1 pt2 : V2 α) (hne : pt1 ≠ pt2) (h1 : P pt1) (h2 : P pt2)
    (hun : ∀ cf ∈ l, ∀ e ∈ ends z cf, e ≠ pt1 ∧ e ≠ pt2) :
    LInv col z P (l ++ [([pt1, pt2], [pt1, pt2])]) (s(pt1, pt2) ::ₘ C) := by
  have hl : (↑(l ++ [(([pt1, pt2], [pt1, pt2]) : GChain α)]) : Multiset (GChain α)) =
      ([pt1, pt2], [pt1, pt2]) ::ₘ ↑l := by
    rw [← Multiset.coe_add, add_comm]; rfl
  apply LInv.of_cons _ hl
  · rw [Multiset.nodup_add]
    refine ⟨?_, h.nodup, ?_⟩
    · unfold ends hd tl; simp [hne]
    · rw [Multiset.disjoint_left]
      intro e he hb
      obtain ⟨cf, hcf, hecf⟩ := Multiset.mem_bind.mp hb
      have := hun cf (by simpa using hcf) e hecf
      unfold ends hd tl at he
      simp at he
      rcases he with rfl | rfl
      · exact this.1 rfl
      · exact this.2 rfl
  · rw [h.edges]; simp
  · intro cf hcf
    rcases List.mem_append.mp hcf with hm | hm
    · exact h.ok cf hm
    · simp at hm; subst hm
      exact ⟨Reduces.refl _, by simp, by intro p hp; simp at hp; rcases hp with rfl | rfl <;> assumption⟩

/-- Removing a chain (it becomes a region). -/
theorem LInv.gerase {l : List (GChain α)} {C : Multiset (Sym2 (V2 α))}
    (h : LInv col z P l C) (i : Nat) (hi : i < l.length) :
    ∃ C', LInv col z P (l.eraseIdx i) C' ∧ pathEdges l[i].2 + C' = C := by
  obtain ⟨hnd, hC⟩ := h.cons_inv (coe_eq_getElem_cons_eraseIdx l i hi)
  refine ⟨chainEdges ↑(l.eraseIdx i), ⟨?_, ?_, rfl⟩, hC⟩
  · intro cf hcf; exact h.ok cf (List.mem_of_mem_eraseIdx hcf)
  · exact (Multiset.nodup_add.mp hnd).2.1

/-- Replacing chain `i` by a chain with one more point `pt` at the head (`atHead`) or tail. -/
theorem LInv.gextend {l : List (GChain α)} {C : Multiset (Sym2 (V2 α))}
    (h : LInv col z P l C) (i : Nat) (hi : i < l.length) (atHead : Bool) (pt : V2 α)
    (hP : P pt)
    (hun : ∀ cf ∈ l.eraseIdx i, ∀ e ∈ ends z cf, e ≠ pt)
    (hop : (if atHead then tl z l[i] else hd z l[i]) ≠ pt)
    (cB : List (V2 α))
    (hred : Reduces col (if atHead then pt :: l[i].2 else l[i].2 ++ [pt]) cB)
    (hlen : 2 ≤ cB.length) :
    LInv col z P (l.set i (cB, if atHead then pt :: l[i].2 else l[i].2 ++ [pt]))
      (s(pt, if atHead then hd z l[i] else tl z l[i]) ::ₘ C) := by
  have oki := h.ok _ (List.getElem_mem hi)
  obtain ⟨hnd, hC⟩ := h.cons_inv (coe_eq_getElem_cons_eraseIdx l i hi)
  have hne : l[i].2 ≠ [] := by
    intro e; have := oki.len2; rw [e] at this; simp at this
  apply LInv.of_cons _ (coe_set l i hi _)
  · -- end points
    rw [Multiset.nodup_add] at hnd ⊢
    obtain ⟨hn1, hn2, hdj⟩ := hnd
    have hrest : ∀ e, e ∈ (↑(l.eraseIdx i) : Multiset (GChain α)).bind (ends z) → e ≠ pt := by
      intro e he
      obtain ⟨cf, hcf, hecf⟩ := Multiset.mem_bind.mp he
      exact hun cf (by simpa using hcf) e hecf
    rw [Multiset.disjoint_left] at hdj
    cases atHead with
    | true =>
      simp only [if_true] at hop ⊢
      have e1 : hd z (cB, pt :: l[i].2) = pt := rfl
      have e2 : tl z (cB, pt :: l[i].2) = tl z l[i] := by
        unfold tl; simp [List.getLast?_cons, oki.getLast?_eq (z := z)]
      unfold ends; rw [e1, e2]
      refine ⟨by simp [Ne.symm hop], hn2, ?_⟩
      rw [Multiset.disjoint_left]
      intro e he hb
      simp at he
      rcases he with rfl | rfl
      · exact hrest _ hb rfl
      · exact hdj (by unfold ends; simp) hb
    | false =>
      simp only [Bool.false_eq_true, if_false] at hop ⊢
      have e1 : hd z (cB, l[i].2 ++ [pt]) = hd z l[i] := by
        unfold hd; simp [List.head?_append, oki.head?_eq (z := z)]
      have e2 : tl z (cB, l[i].2 ++ [pt]) = pt := by
        unfold tl; simp
      unfold ends; rw [e1, e2]
      refine ⟨by simp [hop], hn2, ?_⟩
      rw [Multiset.disjoint_left]
      intro e he hb
      simp at he
      rcases he with rfl | rfl
      · exact hdj (by unfold ends; simp) hb
      · exact hrest _ hb rfl
  · rw [← hC]
    cases atHead with
    | true =>
      simp only [if_true]
      rw [pathEdges_cons pt l[i].2 _ (oki.head?_eq (z := z))]
      simp only [← Multiset.singleton_add]; abel
    | false =>
      simp only [Bool.false_eq_true, if_false]
      rw [pathEdges_snoc l[i].2 _ pt (oki.getLast?_eq (z := z)), Sym2.eq_swap]
      simp only [← Multiset.singleton_add]; abel
  · intro cf hcf
    rcases List.mem_or_eq_of_mem_set hcf with hm | rfl
    · exact h.ok cf hm
    · refine ⟨hred, hlen, ?_⟩
      intro p hp
      cases atHead with
      | true =>
        simp only [if_true, List.mem_cons] at hp
        rcases hp with rfl | hp
        · exact hP
        · exact oki.2.2 p hp
      | false =>
        simp only [Bool.false_eq_true, if_false, List.mem_append, List.mem_singleton] at hp
        rcases hp with hp | rfl
        · exact oki.2.2 p hp
        · exact hP

end Inv

end Lbg.Lemmas.Chainer
