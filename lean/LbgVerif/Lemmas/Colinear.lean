/-
  LbgVerif.Lemmas.Colinear — structure of the scans of `Model/Colinear.lean`:
  the loop state after `m` iterations in closed form (which positions were kept, what
  `skip`, `first_skip`, `is_first` are), index ranges, and the equivalence of the
  square-root form and the squared form of the collinearity test.
-/
import LbgVerif.Model.Colinear
import Mathlib.Tactic.Ring
import Mathlib.Tactic.Linarith
import Mathlib.Tactic.Positivity
import Mathlib.Algebra.Order.Field.Basic
import Mathlib.Algebra.Order.Ring.Abs
import Mathlib.Data.List.Rotate

namespace Lbg.Lemmas.Colinear
open Lbg Lbg.Gen Lbg.Model.Colinear
open scoped List

/-! ### Python indices -/

theorem pyIdx_nonneg (n : Nat) (j : Nat) : pyIdx n (j : Int) = j := by
  unfold pyIdx; split_ifs <;> omega

theorem pyIdx_pred (n i : Nat) :
    pyIdx n ((i : Int) - 1) = if i = 0 then n - 1 else i - 1 := by
  unfold pyIdx; split_ifs <;> omega

theorem pyIdx_succ_pred (n j : Nat) : pyIdx n (((j + 1 : Nat) : Int) - 1) = j := by
  unfold pyIdx; split_ifs <;> omega

theorem pyIdx_neg_one (n : Nat) : pyIdx n (-1) = n - 1 := by
  unfold pyIdx; split_ifs <;> omega

/-- Position of the vertex tested by iteration `i` of the closed-loop scan: `i - 1`, wrapping. -/
def tested (n i : Nat) : Nat := pyIdx n ((i : Int) - 1)

theorem tested_lt {n i : Nat} (hi : i < n) : tested n i < n := by
  unfold tested pyIdx; split_ifs <;> omega

theorem tested_inj {n i j : Nat} (hi : i < n) (hj : j < n) (h : tested n i = tested n j) :
    i = j := by
  unfold tested pyIdx at h; split_ifs at h <;> omega

/-- `[self[i-1] for i in range(n)]` is the sequence rotated by `n - 1`. -/
theorem map_tested_range (n : Nat) :
    (List.range n).map (tested n) = (List.range n).rotate (n - 1) := by
  apply List.ext_getElem
  · simp
  · intro i h1 h2
    simp only [List.length_map, List.length_range] at h1
    simp only [List.getElem_map, List.getElem_range, List.getElem_rotate, List.length_range]
    unfold tested
    rw [pyIdx_pred]
    by_cases h0 : i = 0
    · subst h0
      have : (0 + (n - 1)) % n = n - 1 := by rw [Nat.zero_add]; exact Nat.mod_eq_of_lt (by omega)
      rw [this]; simp
    · have : (i + (n - 1)) % n = i - 1 := by
        have e : i + (n - 1) = (i - 1) + n := by omega
        rw [e, Nat.add_mod_right]; exact Nat.mod_eq_of_lt (by omega)
      rw [this]; simp [h0]

/-! ### Closed form of the closed-loop scan -/

section Polygon
variable (n : Nat) (keep : Nat → Nat → Nat → Bool)

theorem polygonScanTo_zero : polygonScanTo n keep 0 = St.init := rfl

theorem polygonScanTo_succ (m : Nat) :
    polygonScanTo n keep (m + 1) = polygonStep n keep (polygonScanTo n keep m) m := by
  unfold polygonScanTo
  rw [List.range_succ, List.foldl_append]; rfl

/-- `skip` at the start of iteration `i`. -/
def skipAt (i : Nat) : Nat := (polygonScanTo n keep i).skip

/-- Position of `_v2 = self[i - 2 - skip]` in iteration `i`. -/
def chordStart (i : Nat) : Nat := pyIdx n ((i : Int) - 2 - skipAt n keep i)

/-- The outcome of the test in iteration `i` (`true`: `self[i-1]` is appended). -/
def keptAt (i : Nat) : Bool := keep (chordStart n keep i) (tested n i) i

theorem step_eq (m : Nat) :
    polygonScanTo n keep (m + 1) =
      if keptAt n keep m then
        { out := (polygonScanTo n keep m).out ++ [tested n m]
          skip := 0
          firstSkip := if (polygonScanTo n keep m).isFirst then (m : Int) - 1
            else (polygonScanTo n keep m).firstSkip
          isFirst := false }
      else { polygonScanTo n keep m with skip := (polygonScanTo n keep m).skip + 1 } := by
  rw [polygonScanTo_succ]; rfl

theorem skipAt_zero : skipAt n keep 0 = 0 := rfl

theorem skipAt_succ (m : Nat) :
    skipAt n keep (m + 1) = if keptAt n keep m then 0 else skipAt n keep m + 1 := by
  unfold skipAt; rw [step_eq]; split_ifs <;> rfl

/-- `new_vertices` after `m` iterations: the tested positions of the iterations whose test
succeeded, in order. -/
theorem out_eq (m : Nat) :
    (polygonScanTo n keep m).out = ((List.range m).filter (keptAt n keep)).map (tested n) := by
  induction m with
  | zero => rfl
  | succ m ih =>
    rw [step_eq, List.range_succ, List.filter_append, List.map_append]
    by_cases h : keptAt n keep m = true
    · simp [h, ih]
    · simp [h, ih]

/-- `skip` counts the immediately preceding iterations whose test failed. -/
theorem skipAt_spec (m : Nat) :
    skipAt n keep m ≤ m ∧
    (∀ j, m - skipAt n keep m ≤ j → j < m → keptAt n keep j = false) ∧
    (skipAt n keep m < m → keptAt n keep (m - skipAt n keep m - 1) = true) := by
  induction m with
  | zero => simp [skipAt_zero]
  | succ m ih =>
    obtain ⟨h1, h2, h3⟩ := ih
    rw [skipAt_succ]
    by_cases h : keptAt n keep m = true
    · simp only [h, if_true]
      refine ⟨by omega, ?_, ?_⟩
      · intro j hj1 hj2; omega
      · intro _; simpa using h
    · have h' : keptAt n keep m = false := by simpa using h
      simp only [h', Bool.false_eq_true, if_false]
      refine ⟨by omega, ?_, ?_⟩
      · intro j hj1 hj2
        by_cases hjm : j = m
        · subst hjm; exact h'
        · apply h2 j <;> omega
      · intro hlt
        have e : m + 1 - (skipAt n keep m + 1) - 1 = m - skipAt n keep m - 1 := by omega
        rw [e]; apply h3; omega

theorem isFirst_iff (m : Nat) :
    (polygonScanTo n keep m).isFirst = true ↔ ∀ j, j < m → keptAt n keep j = false := by
  induction m with
  | zero => simp [polygonScanTo_zero, St.init]
  | succ m ih =>
    rw [step_eq]
    by_cases h : keptAt n keep m = true
    · simp only [h, if_true]
      constructor
      · intro hf; cases hf
      · intro hall; have := hall m (Nat.lt_succ_self m); rw [h] at this; cases this
    · simp only [h]
      simp only [Bool.not_eq_true] at h
      rw [show (({ polygonScanTo n keep m with skip := (polygonScanTo n keep m).skip + 1 } : St).isFirst
        = (polygonScanTo n keep m).isFirst) from rfl]
      simp only [Bool.false_eq_true, if_false]
      rw [ih]
      constructor
      · intro hall j hj
        by_cases hjm : j = m
        · subst hjm; exact h
        · exact hall j (by omega)
      · intro hall j hj; exact hall j (by omega)

/-- `first_skip == -1` exactly when the very first iteration kept `self[-1]`. -/
theorem firstSkip_eq_neg_one_iff (m : Nat) :
    (polygonScanTo n keep m).firstSkip = -1 ↔ (0 < m ∧ keptAt n keep 0 = true) := by
  induction m with
  | zero => simp [polygonScanTo_zero, St.init]
  | succ m ih =>
    rw [step_eq]
    by_cases h : keptAt n keep m = true
    · simp only [h, if_true]
      by_cases hf : (polygonScanTo n keep m).isFirst = true
      · simp only [hf, if_true]
        by_cases hm : m = 0
        · subst hm; simp [h]
        · have := (isFirst_iff n keep m).1 hf 0 (by omega)
          constructor
          · intro e; omega
          · intro ⟨_, e⟩; rw [this] at e; cases e
      · simp only [hf]
        simp only [Bool.false_eq_true, if_false]
        rw [ih]
        have hm : 0 < m := by
          rcases Nat.eq_zero_or_pos m with hm | hm
          · subst hm; exact absurd rfl hf
          · exact hm
        constructor
        · intro ⟨_, e⟩; exact ⟨by omega, e⟩
        · intro ⟨_, e⟩; exact ⟨hm, e⟩
    · simp only [h]
      simp only [Bool.false_eq_true, if_false]
      rw [show (({ polygonScanTo n keep m with skip := (polygonScanTo n keep m).skip + 1 } : St).firstSkip
        = (polygonScanTo n keep m).firstSkip) from rfl, ih]
      constructor
      · intro ⟨_, e⟩; exact ⟨by omega, e⟩
      · intro ⟨_, e⟩
        refine ⟨?_, e⟩
        rcases Nat.eq_zero_or_pos m with hm | hm
        · subst hm; rw [e] at h; exact absurd rfl h
        · exact hm

/-- Until something is kept `first_skip` is `0`; afterwards it is the tested position `i - 1`
of the first successful iteration `i` (as a Python index, `-1` for `i = 0`). -/
theorem firstSkip_spec (m : Nat) :
    ((polygonScanTo n keep m).isFirst = true → (polygonScanTo n keep m).firstSkip = 0) ∧
    ((polygonScanTo n keep m).isFirst = false →
      ∃ i, i < m ∧ keptAt n keep i = true ∧ (∀ j, j < i → keptAt n keep j = false) ∧
        (polygonScanTo n keep m).firstSkip = (i : Int) - 1) := by
  induction m with
  | zero => simp [polygonScanTo_zero, St.init]
  | succ m ih =>
    rw [step_eq]
    by_cases h : keptAt n keep m = true
    · simp only [h, if_true]
      refine ⟨(by intro hf; cases hf), ?_⟩
      intro _
      by_cases hf : (polygonScanTo n keep m).isFirst = true
      · exact ⟨m, by omega, h, (isFirst_iff n keep m).1 hf, by simp [hf]⟩
      · simp only [Bool.not_eq_true] at hf
        obtain ⟨i, hi, hk, hb, he⟩ := ih.2 hf
        exact ⟨i, by omega, hk, hb, by simp [hf, he]⟩
    · simp only [h]
      simp only [Bool.false_eq_true, if_false]
      refine ⟨fun hf => ih.1 hf, ?_⟩
      intro hf
      obtain ⟨i, hi, hk, hb, he⟩ := ih.2 hf
      exact ⟨i, by omega, hk, hb, he⟩

/-- Every index the loop forms is a legal Python index (`-n ≤ j < n`) as soon as `n ≥ 2`,
so the model's total `pyIdx`/`getD` never leave the sequence. -/
theorem loop_indices_in_range (hn : 2 ≤ n) (i : Nat) (hi : i < n) :
    -(n : Int) ≤ (i : Int) - 2 - skipAt n keep i ∧ (i : Int) - 2 - skipAt n keep i < n ∧
    chordStart n keep i < n ∧ tested n i < n := by
  have := (skipAt_spec n keep i).1
  refine ⟨by omega, by omega, ?_, tested_lt hi⟩
  unfold chordStart pyIdx; split_ifs <;> omega

theorem mem_out_iff (m : Nat) (hm : m ≤ n) (i : Nat) (hi : i < n) :
    tested n i ∈ (polygonScanTo n keep m).out ↔ (i < m ∧ keptAt n keep i = true) := by
  rw [out_eq, List.mem_map]
  constructor
  · rintro ⟨j, hj, e⟩
    rw [List.mem_filter, List.mem_range] at hj
    have := tested_inj (by omega) hi e
    subst this; exact hj
  · rintro ⟨h1, h2⟩
    exact ⟨i, by rw [List.mem_filter, List.mem_range]; exact ⟨h1, h2⟩, rfl⟩

end Polygon

/-! ### Closed form of the open-chain scan -/

section Polyline
variable (n : Nat) (keep : Nat → Nat → Nat → Bool)

theorem polylineScanTo_succ (m : Nat) :
    polylineScanTo n keep (m + 1) = polylineStep n keep (polylineScanTo n keep m) m := by
  unfold polylineScanTo
  rw [List.range_succ, List.foldl_append]; rfl

/-- `skip` at the start of iteration `i` of the open-chain scan. -/
def lskipAt (i : Nat) : Nat := (polylineScanTo n keep i).2

/-- Outcome of the test in iteration `i` of the open-chain scan (vertex `i + 1`). -/
def lkeptAt (i : Nat) : Bool :=
  keep (pyIdx n ((i : Int) - lskipAt n keep i)) (i + 1) (pyIdx n ((i : Int) + 2))

theorem lstep_eq (m : Nat) :
    polylineScanTo n keep (m + 1) =
      if lkeptAt n keep m then ((polylineScanTo n keep m).1 ++ [m + 1], 0)
      else ((polylineScanTo n keep m).1, (polylineScanTo n keep m).2 + 1) := by
  rw [polylineScanTo_succ]; rfl

theorem lskipAt_succ (m : Nat) :
    lskipAt n keep (m + 1) = if lkeptAt n keep m then 0 else lskipAt n keep m + 1 := by
  unfold lskipAt; rw [lstep_eq]; split_ifs <;> rfl

theorem lout_eq (m : Nat) :
    (polylineScanTo n keep m).1 = 0 :: ((List.range m).filter (lkeptAt n keep)).map (· + 1) := by
  induction m with
  | zero => rfl
  | succ m ih =>
    rw [lstep_eq, List.range_succ, List.filter_append, List.map_append]
    by_cases h : lkeptAt n keep m = true
    · simp [h, ih]
    · simp [h, ih]

theorem lskipAt_spec (m : Nat) :
    lskipAt n keep m ≤ m ∧
    (∀ j, m - lskipAt n keep m ≤ j → j < m → lkeptAt n keep j = false) ∧
    (lskipAt n keep m < m → lkeptAt n keep (m - lskipAt n keep m - 1) = true) := by
  induction m with
  | zero => simp [lskipAt, polylineScanTo]
  | succ m ih =>
    obtain ⟨h1, h2, h3⟩ := ih
    rw [lskipAt_succ]
    by_cases h : lkeptAt n keep m = true
    · simp only [h, if_true]
      refine ⟨by omega, ?_, ?_⟩
      · intro j hj1 hj2; omega
      · intro _; simpa using h
    · have h' : lkeptAt n keep m = false := by simpa using h
      simp only [h', Bool.false_eq_true, if_false]
      refine ⟨by omega, ?_, ?_⟩
      · intro j hj1 hj2
        by_cases hjm : j = m
        · subst hjm; exact h'
        · apply h2 j <;> omega
      · intro hlt
        have e : m + 1 - (lskipAt n keep m + 1) - 1 = m - lskipAt n keep m - 1 := by omega
        rw [e]; apply h3; omega

end Polyline

/-! ### Sublist / rotation facts -/

theorem map_getD_range {V : Type} (d : V) (l : List V) :
    (List.range l.length).map (fun i => l.getD i d) = l := by
  apply List.ext_getElem
  · simp
  · intro i h1 h2
    simp [List.getD_eq_getElem?_getD, h2]

theorem verts_range {V : Type} (d : V) (l : List V) : verts d l (List.range l.length) = l :=
  map_getD_range d l

theorem verts_rotate_range {V : Type} (d : V) (l : List V) (k : Nat) :
    verts d l ((List.range l.length).rotate k) = l.rotate k := by
  unfold verts; rw [List.map_rotate, map_getD_range]

theorem range_succ_eq_cons (k : Nat) : List.range (k + 1) = 0 :: (List.range k).map Nat.succ :=
  List.range_succ_eq_map

/-- If the first iteration did not keep `self[-1]`, everything kept by the loop lies, in
order, among the positions `0 … n-2`. -/
theorem out_sublist_pred (n : Nat) (keep : Nat → Nat → Nat → Bool) (k : Nat) (hn : n = k + 1)
    (h0 : keptAt n keep 0 = false) :
    (polygonScan n keep).out <+ List.range k := by
  unfold polygonScan
  rw [out_eq, hn, range_succ_eq_cons, List.filter_cons]
  rw [← hn, h0]
  simp only [Bool.false_eq_true, if_false]
  have h1 : ((List.range k).map Nat.succ).map (tested n) = List.range k := by
    rw [List.map_map]
    conv_rhs => rw [← List.map_id (List.range k)]
    apply List.map_congr_left
    intro j _
    simp only [Function.comp, id]
    exact pyIdx_succ_pred n j
  have := (List.filter_sublist (p := keptAt n keep) (l := (List.range k).map Nat.succ)).map (tested n)
  rwa [h1] at this

/-- **Closed-loop scan: original positions in original cyclic order.**  Whatever the test,
the positions returned by the scan (with seam patch) are a sublist of a rotation of
`0 … n-1`: of the rotation by `n - 1` (the scan starts by testing `self[-1]`) or, when the seam
patch appends `self[-1]`, of the unrotated sequence. -/
theorem polygonIdx_sublist_rotate (n : Nat) (keep : Nat → Nat → Nat → Bool) (idx : List Nat)
    (h : polygonIdx n keep = some idx) :
    idx <+ (List.range n).rotate (n - 1) ∨ idx <+ List.range n := by
  have hsub : (polygonScan n keep).out <+ (List.range n).rotate (n - 1) := by
    unfold polygonScan
    rw [out_eq, ← map_tested_range]
    exact List.filter_sublist.map _
  unfold polygonIdx at h
  simp only [] at h
  split_ifs at h with hc hle hk
  · -- patch appends self[-1]
    right
    obtain ⟨hskip, hfs⟩ := hc
    have hn : 0 < n := by
      have := (skipAt_spec n keep n).1
      unfold skipAt at this; unfold polygonScan at hskip; omega
    have h0 : keptAt n keep 0 = false := by
      have := (firstSkip_eq_neg_one_iff n keep n).not.1 hfs
      by_contra hh
      exact this ⟨hn, by simpa using hh⟩
    obtain ⟨k, hk⟩ : ∃ k, n = k + 1 := ⟨n - 1, by omega⟩
    have := out_sublist_pred n keep k hk h0
    cases h
    have e : n - 1 = k := by omega
    rw [pyIdx_neg_one, e]
    conv_rhs => rw [hk, List.range_succ]
    exact this.append (List.Sublist.refl _)
  · left; cases h; exact hsub
  · left; cases h; exact hsub

/-- Vertex form: the vertices at the returned positions are a sublist of a rotation of `l`. -/
theorem verts_polygonIdx_sublist_rotate {V : Type} (d : V) (l : List V)
    (keep : Nat → Nat → Nat → Bool) (idx : List Nat) (h : polygonIdx l.length keep = some idx) :
    ∃ k, verts d l idx <+ l.rotate k := by
  rcases polygonIdx_sublist_rotate _ _ _ h with h | h
  · refine ⟨l.length - 1, ?_⟩
    rw [← verts_rotate_range d l]; exact h.map _
  · refine ⟨0, ?_⟩
    rw [List.rotate_zero]
    conv_rhs => rw [← verts_range d l]
    exact h.map _

/-- **Open-chain scan: a sublist that starts at position `0` and ends at `n - 1`.** -/
theorem polylineIdx_spec (n : Nat) (keep : Nat → Nat → Nat → Bool) (hn : 2 ≤ n) :
    polylineIdx n keep <+ List.range n ∧ (polylineIdx n keep).head? = some 0 ∧
      (polylineIdx n keep).getLast? = some (n - 1) := by
  unfold polylineIdx
  split_ifs with h3
  · subst h3; exact ⟨List.Sublist.refl _, rfl, rfl⟩
  · obtain ⟨k, hk⟩ : ∃ k, n = k + 2 := ⟨n - 2, by omega⟩
    rw [lout_eq, pyIdx_neg_one]
    refine ⟨?_, by simp, by rw [List.getLast?_concat]⟩
    have e : List.range n = (0 :: (List.range k).map (· + 1)) ++ [k + 1] := by
      rw [hk, List.range_succ, range_succ_eq_cons]
    rw [e]
    have hk2 : n - 2 = k := by omega
    have hk1 : n - 1 = k + 1 := by omega
    rw [hk2, hk1]
    exact ((List.filter_sublist.map _).cons_cons 0).append (List.Sublist.refl _)

theorem verts_polylineIdx_spec {V : Type} (d : V) (l : List V) (keep : Nat → Nat → Nat → Bool)
    (hn : 2 ≤ l.length) :
    verts d l (polylineIdx l.length keep) <+ l ∧
      (verts d l (polylineIdx l.length keep)).head? = l.head? ∧
      (verts d l (polylineIdx l.length keep)).getLast? = l.getLast? := by
  obtain ⟨h1, h2, h3⟩ := polylineIdx_spec l.length keep hn
  refine ⟨?_, ?_, ?_⟩
  · conv_rhs => rw [← verts_range d l]
    exact h1.map _
  · unfold verts
    rw [List.head?_map, h2]
    cases l with
    | nil => simp at hn
    | cons a t => simp
  · unfold verts
    rw [List.getLast?_map, h3]
    simp only [Option.map_some, List.getD_eq_getElem?_getD]
    rw [List.getLast?_eq_getElem?]
    have : l.length - 1 < l.length := by omega
    simp [this]

/-! ### What a dropped vertex satisfies -/

/-- Closed-loop scan: iteration `i` dropped its vertex ⇒ the test failed against the chord that
starts `skip` places back, all iterations in between dropped theirs, and (unless nothing has
been kept yet) the chord starts at the vertex kept last. -/
theorem polygon_dropped_spec (n : Nat) (keep : Nat → Nat → Nat → Bool) (i : Nat) (hi : i < n)
    (hdrop : tested n i ∉ (polygonScan n keep).out) :
    ∃ s, s ≤ i ∧
      (∀ j, i - s ≤ j → j < i → tested n j ∉ (polygonScan n keep).out) ∧
      (s < i → tested n (i - s - 1) ∈ (polygonScan n keep).out ∧
        pyIdx n ((i : Int) - 2 - s) = tested n (i - s - 1)) ∧
      keep (pyIdx n ((i : Int) - 2 - s)) (tested n i) i = false := by
  have hmem := fun j (hj : j < n) => mem_out_iff n keep n (Nat.le_refl n) j hj
  have hk : keptAt n keep i = false := by
    by_contra hh
    exact hdrop ((hmem i hi).2 ⟨hi, by simpa using hh⟩)
  obtain ⟨h1, h2, h3⟩ := skipAt_spec n keep i
  refine ⟨skipAt n keep i, h1, ?_, ?_, hk⟩
  · intro j hj1 hj2 hin
    have := ((hmem j (by omega)).1 hin).2
    rw [h2 j hj1 hj2] at this; cases this
  · intro hlt
    refine ⟨(hmem _ (by omega)).2 ⟨by omega, h3 hlt⟩, ?_⟩
    unfold tested
    congr 1
    omega

/-- Open-chain scan: the same for the interior vertex `i + 1`; here the chord always starts
at a kept vertex (position `i - s`). -/
theorem polyline_dropped_spec (n : Nat) (keep : Nat → Nat → Nat → Bool) (i : Nat)
    (hi : i < n - 2) (hdrop : i + 1 ∉ (polylineScanTo n keep (n - 2)).1) :
    ∃ s, s ≤ i ∧
      (∀ j, i - s ≤ j → j < i → j + 1 ∉ (polylineScanTo n keep (n - 2)).1) ∧
      (i - s) ∈ (polylineScanTo n keep (n - 2)).1 ∧
      keep (i - s) (i + 1) (i + 2) = false := by
  have hmem : ∀ j, j + 1 ∈ (polylineScanTo n keep (n - 2)).1 ↔ (j < n - 2 ∧ lkeptAt n keep j = true) := by
    intro j
    rw [lout_eq]
    simp [List.mem_filter]
  have hk : lkeptAt n keep i = false := by
    by_contra hh
    exact hdrop ((hmem i).2 ⟨hi, by simpa using hh⟩)
  obtain ⟨h1, h2, h3⟩ := lskipAt_spec n keep i
  refine ⟨lskipAt n keep i, h1, ?_, ?_, ?_⟩
  · intro j hj1 hj2 hin
    have := ((hmem j).1 hin).2
    rw [h2 j hj1 hj2] at this; cases this
  · by_cases hlt : lskipAt n keep i < i
    · have := (hmem (i - lskipAt n keep i - 1)).2 ⟨by omega, h3 hlt⟩
      have e : i - lskipAt n keep i - 1 + 1 = i - lskipAt n keep i := by omega
      rwa [e] at this
    · have e : i - lskipAt n keep i = 0 := by omega
      rw [e, lout_eq]; simp
  · have e1 : pyIdx n ((i : Int) - lskipAt n keep i) = i - lskipAt n keep i := by
      unfold pyIdx; split_ifs <;> omega
    have e2 : pyIdx n ((i : Int) + 2) = i + 2 := by
      unfold pyIdx; split_ifs <;> omega
    unfold lkeptAt at hk
    rwa [e1, e2] at hk

/-! ### The test: square-root form = squared form -/

section Criterion
variable {α : Type} [Field α] [LinearOrder α] [IsStrictOrderedRing α]

/-- For non-negative numbers, comparing is comparing squares. -/
theorem le_iff_mul_self_le {x y : α} (hx : 0 ≤ x) (hy : 0 ≤ y) : x ≤ y ↔ x * x ≤ y * y :=
  ⟨fun h => mul_self_le_mul_self hx h, fun h => by
    by_contra hlt
    rw [not_le] at hlt
    have := mul_self_lt_mul_self hy hlt
    exact absurd h (not_le.2 this)⟩

theorem lt_iff_mul_self_lt {x y : α} (hx : 0 ≤ x) (hy : 0 ≤ y) : x < y ↔ x * x < y * y := by
  rw [← not_le, ← not_le, le_iff_mul_self_le hy hx]

/-- Core of both equivalences: with `s = sqrt bSq`, `|a|`-form against squared form. -/
theorem crit_sq_equiv {s bSq tol a aSq : α} (hs : 0 ≤ s) (hss : s * s = bSq) (htol : 0 ≤ tol)
    (ha : 0 ≤ a) (haa : a * a = aSq) :
    (((if s < tol then tol else s) * tol) / 2 ≤ a) ↔
      ((if bSq < tol * tol then tol * tol else bSq) * (tol * tol) ≤ 4 * aSq) := by
  have hc : (s < tol) ↔ (bSq < tol * tol) := by rw [lt_iff_mul_self_lt hs htol, hss]
  by_cases h : s < tol
  · have h' := hc.1 h
    simp only [h, h', if_true]
    rw [div_le_iff₀ (by norm_num : (0 : α) < 2), le_iff_mul_self_le (by positivity) (by positivity),
      ← haa]
    constructor <;> intro hh <;> nlinarith
  · have h' : ¬ bSq < tol * tol := fun e => h (hc.2 e)
    simp only [h, h', if_false]
    rw [div_le_iff₀ (by norm_num : (0 : α) < 2), le_iff_mul_self_le (by positivity) (by positivity),
      ← haa, ← hss]
    constructor <;> intro hh <;> nlinarith

/-- The 2D test as written in the source (with `math.sqrt`) equals the squared test the
driver executes, for every `sqrt` satisfying the law of the square root and `0 ≤ tol`. -/
theorem keep2Code_eq_keep2 (M : MathOps α)
    (hsqrt : ∀ x, 0 ≤ x → M.sqrt x * M.sqrt x = x ∧ 0 ≤ M.sqrt x)
    (tol : α) (htol : 0 ≤ tol) (v2 v1 v : V2 α) :
    keep2Code M tol v2 v1 v = keep2 tol v2 v1 v := by
  unfold keep2Code keep2
  simp only []
  have hb : 0 ≤ chordSq2 v2 v := add_nonneg (mul_self_nonneg _) (mul_self_nonneg _)
  have hd : p2_distance_to_point M v v2 = M.sqrt (chordSq2 v2 v) := rfl
  obtain ⟨hss, hs⟩ := hsqrt _ hb
  rw [hd]
  have := crit_sq_equiv hs hss htol (abs_nonneg (twiceArea2 v2 v1 v)) (abs_mul_abs_self _)
  exact decide_eq_decide.2 this

theorem cross3_normSq_nonneg (v2 v1 v3 : V3 α) : 0 ≤ v3_magnitude_squared (cross3 v2 v1 v3) := by
  exact add_nonneg (add_nonneg (mul_self_nonneg _) (mul_self_nonneg _)) (mul_self_nonneg _)

/-- The 3D test as written in the source equals the squared test the driver executes. -/
theorem keep3Code_eq_keep3 (M : MathOps α)
    (hsqrt : ∀ x, 0 ≤ x → M.sqrt x * M.sqrt x = x ∧ 0 ≤ M.sqrt x)
    (tol : α) (htol : 0 ≤ tol) (v2 v1 v3 : V3 α) :
    keep3Code M tol v2 v1 v3 = keep3 tol v2 v1 v3 := by
  unfold keep3Code keep3
  simp only []
  have hb : 0 ≤ chordSq3 v2 v3 :=
    add_nonneg (add_nonneg (mul_self_nonneg _) (mul_self_nonneg _)) (mul_self_nonneg _)
  have hd : p3_distance_to_point M v3 v2 = M.sqrt (chordSq3 v2 v3) := rfl
  have hm : v3_magnitude M (cross3 v2 v1 v3) =
      M.sqrt (v3_magnitude_squared (cross3 v2 v1 v3)) := rfl
  obtain ⟨hss, hs⟩ := hsqrt _ hb
  obtain ⟨haa, ha⟩ := hsqrt _ (cross3_normSq_nonneg v2 v1 v3)
  rw [hd, hm]
  exact decide_eq_decide.2 (crit_sq_equiv hs hss htol ha haa)

end Criterion

end Lbg.Lemmas.Colinear
