/-
  Lemmas.Isometry — helper lemmas for the transform properties (C02).

  * uniqueness of non-negative square roots under the `sqrt` law, `sqrt 1 = 1`,
    `sqrt (k²·x) = k·sqrt x` for `0 ≤ k`;
  * `v3_normalize` / `v2_normalize` of a unit vector is the vector itself;
  * the abstract Rodrigues map `rod N a c q e = N (N·a)(1-c) e + a c + (N × a) q`
    (`c = cos θ`, `q = sin θ / |N|`, `e = 1/|N|²`) and its algebra: linearity, dot / cross
    product preservation, fixed axis, inverse; `v3_rotate_eq_rod` connects the generated
    kernel to it.
-/
import LbgVerif.Gen.Vec
import LbgVerif.Gen.Plane
import Mathlib.Tactic.Ring
import Mathlib.Tactic.FieldSimp
import Mathlib.Tactic.Linarith
import Mathlib.Tactic.LinearCombination
import Mathlib.Tactic.SplitIfs
import Mathlib.Algebra.Order.Ring.Cast

namespace Lbg.Lemmas
open Lbg Lbg.Gen
set_option linter.unusedSectionVars false
set_option linter.unnecessarySeqFocus false
variable {α : Type} [Field α] [LinearOrder α] [IsStrictOrderedRing α]

/-! ### square roots -/

/-- Under the `sqrt` law a non-negative `s` with `s² = x` *is* `sqrt x`. -/
theorem sqrt_unique (M : MathOps α)
    (hsqrt : ∀ x, 0 ≤ x → M.sqrt x * M.sqrt x = x ∧ 0 ≤ M.sqrt x)
    {x s : α} (hs : 0 ≤ s) (hx : s * s = x) : M.sqrt x = s := by
  have hx0 : 0 ≤ x := hx ▸ mul_self_nonneg s
  obtain ⟨h1, h2⟩ := hsqrt x hx0
  exact (mul_self_inj h2 hs).mp (h1.trans hx.symm)

/-- `sqrt 1 = 1`. -/
theorem sqrt_one (M : MathOps α)
    (hsqrt : ∀ x, 0 ≤ x → M.sqrt x * M.sqrt x = x ∧ 0 ≤ M.sqrt x) : M.sqrt 1 = 1 :=
  sqrt_unique M hsqrt zero_le_one (one_mul 1)

/-- `sqrt x = 1` whenever `x = 1`. -/
theorem sqrt_eq_one (M : MathOps α)
    (hsqrt : ∀ x, 0 ≤ x → M.sqrt x * M.sqrt x = x ∧ 0 ≤ M.sqrt x) {x : α} (hx : x = 1) :
    M.sqrt x = 1 := by
  rw [hx]; exact sqrt_one M hsqrt

/-- `sqrt y = k · sqrt x` when `y = k²·x`, `0 ≤ k`, `0 ≤ x`. -/
theorem sqrt_scale (M : MathOps α)
    (hsqrt : ∀ x, 0 ≤ x → M.sqrt x * M.sqrt x = x ∧ 0 ≤ M.sqrt x) {x y k : α}
    (hk : 0 ≤ k) (hx : 0 ≤ x) (hy : y = k * k * x) : M.sqrt y = k * M.sqrt x := by
  obtain ⟨h1, h2⟩ := hsqrt x hx
  apply sqrt_unique M hsqrt (mul_nonneg hk h2)
  rw [hy]
  linear_combination (k * k) * h1

/-! ### normalising a unit vector -/

/-- `normalize` of a unit 3D vector is the vector itself; only `sqrt 1 = 1` is needed
(which follows from the `sqrt` law, see `sqrt_one`). -/
theorem v3_normalize_unit (M : MathOps α) (h1 : M.sqrt 1 = 1) (a : V3 α)
    (ha : V3.normSq a = 1) : v3_normalize M a = a := by
  unfold V3.normSq at ha
  unfold v3_normalize
  simp only [ha, h1, one_ne_zero, if_false, div_one]

/-- `normalize` of a unit 2D vector is the vector itself (given `sqrt 1 = 1`). -/
theorem v2_normalize_unit (M : MathOps α) (h1 : M.sqrt 1 = 1) (a : V2 α)
    (ha : V2.normSq a = 1) : v2_normalize M a = a := by
  unfold V2.normSq at ha
  unfold v2_normalize
  simp only [ha, h1, one_ne_zero, if_false, div_one]

/-! ### Rodrigues' formula, abstractly -/

/-- `rod N a c q e = N·((N·a)(1-c)e) + a·c + (N × a)·q`. -/
def rod (N a : V3 α) (c q e : α) : V3 α :=
  ⟨N.x * (V3.dot N a * (1 - c) * e) + a.x * c + (N.y * a.z - N.z * a.y) * q,
   N.y * (V3.dot N a * (1 - c) * e) + a.y * c + (N.z * a.x - N.x * a.z) * q,
   N.z * (V3.dot N a * (1 - c) * e) + a.z * c + (N.x * a.y - N.y * a.x) * q⟩

/-- The generated `v3_rotate` is Rodrigues' formula with `c = cos θ`, `q = sin θ / sqrt(N·N)`,
`e = (N·N)⁻¹`. -/
theorem v3_rotate_eq_rod (M : MathOps α) (a N : V3 α) (θ : α) :
    v3_rotate M a N θ =
      rod N a (M.cos θ) (M.sin θ / M.sqrt (V3.normSq N)) (V3.normSq N)⁻¹ := by
  unfold v3_rotate rod V3.normSq V3.dot
  ext <;> simp only [] <;> ring

/-- The two side relations `q²·|N|² = 1 - c²`, `e·|N|² = 1` hold for the parameters that
`v3_rotate` feeds into `rod`. -/
theorem rod_params (M : MathOps α) (N : V3 α) (θ : α)
    (hcs : M.cos θ * M.cos θ + M.sin θ * M.sin θ = 1)
    (hr : M.sqrt (V3.normSq N) * M.sqrt (V3.normSq N) = V3.normSq N)
    (h0 : V3.normSq N ≠ 0) :
    (M.sin θ / M.sqrt (V3.normSq N)) * (M.sin θ / M.sqrt (V3.normSq N)) * V3.normSq N
        = 1 - M.cos θ * M.cos θ
      ∧ (V3.normSq N)⁻¹ * V3.normSq N = 1 := by
  have hr0 : M.sqrt (V3.normSq N) ≠ 0 := by
    intro h; rw [h, mul_zero] at hr; exact h0 hr.symm
  refine ⟨?_, inv_mul_cancel₀ h0⟩
  field_simp
  linear_combination (V3.normSq N) * hcs - (1 - M.cos θ * M.cos θ) * hr

/-- `rod` is linear in the rotated vector: it commutes with subtraction. -/
theorem rod_sub (N a b : V3 α) (c q e : α) :
    V3.sub (rod N a c q e) (rod N b c q e) = rod N (V3.sub a b) c q e := by
  unfold rod V3.sub V3.dot
  ext <;> simp only [] <;> ring

/-- `rod` commutes with addition. -/
theorem rod_add (N a b : V3 α) (c q e : α) :
    V3.add (rod N a c q e) (rod N b c q e) = rod N (V3.add a b) c q e := by
  unfold rod V3.add V3.dot
  ext <;> simp only [] <;> ring

/-- `rod` commutes with scalar multiplication. -/
theorem rod_smul (N a : V3 α) (k c q e : α) :
    rod N (V3.smul k a) c q e = V3.smul k (rod N a c q e) := by
  unfold rod V3.smul V3.dot
  ext <;> simp only [] <;> ring

/-- Rodrigues' map preserves dot products (cofactors from a machine-checked derivation). -/
theorem rod_dot (N a b : V3 α) (c q e : α)
    (hq : q * q * V3.normSq N = 1 - c * c) (he : e * V3.normSq N = 1) :
    V3.dot (rod N a c q e) (rod N b c q e) = V3.dot a b := by
  unfold V3.normSq at hq he
  unfold rod V3.dot
  simp only []
  linear_combination
    ((a.x * b.x + a.y * b.y + a.z * b.z)
        - (N.x * a.x + N.y * a.y + N.z * a.z) * (N.x * b.x + N.y * b.y + N.z * b.z) * e) * hq
    + ((N.x * a.x + N.y * a.y + N.z * a.z) * (N.x * b.x + N.y * b.y + N.z * b.z)
        * ((1 - c) ^ 2 * e + q * q)) * he

/-- Rodrigues' map fixes the axis. -/
theorem rod_axis (N : V3 α) (c q e : α) (he : e * V3.normSq N = 1) :
    rod N N c q e = N := by
  unfold V3.normSq at he
  unfold rod V3.dot
  ext <;> simp only []
  · linear_combination (N.x * (1 - c)) * he
  · linear_combination (N.y * (1 - c)) * he
  · linear_combination (N.z * (1 - c)) * he

/-- The component of `a` along the axis is unchanged: `N · rod a = N · a`. -/
theorem rod_dot_axis (N a : V3 α) (c q e : α) (he : e * V3.normSq N = 1) :
    V3.dot N (rod N a c q e) = V3.dot N a := by
  unfold V3.normSq at he
  unfold rod V3.dot
  simp only []
  linear_combination ((N.x * a.x + N.y * a.y + N.z * a.z) * (1 - c)) * he

/-- Rotating back (same `c`, opposite `q`) undoes the rotation. -/
theorem rod_inverse (N a : V3 α) (c q e : α)
    (hq : q * q * V3.normSq N = 1 - c * c) (he : e * V3.normSq N = 1) :
    rod N (rod N a c q e) c (-q) e = a := by
  unfold V3.normSq at hq he
  unfold rod V3.dot
  ext <;> simp only []
  · linear_combination (a.x - N.x * (N.x * a.x + N.y * a.y + N.z * a.z) * e) * hq
      + (N.x * (N.x * a.x + N.y * a.y + N.z * a.z) * ((1 - c) ^ 2 * e + q * q)) * he
  · linear_combination (a.y - N.y * (N.x * a.x + N.y * a.y + N.z * a.z) * e) * hq
      + (N.y * (N.x * a.x + N.y * a.y + N.z * a.z) * ((1 - c) ^ 2 * e + q * q)) * he
  · linear_combination (a.z - N.z * (N.x * a.x + N.y * a.y + N.z * a.z) * e) * hq
      + (N.z * (N.x * a.x + N.y * a.y + N.z * a.z) * ((1 - c) ^ 2 * e + q * q)) * he

/-- Rodrigues' map is a *proper* rotation: it commutes with the cross product
(`rod a × rod b = rod (a × b)`), hence preserves orientation.
Cofactors found with a computer algebra system; checked here by `ring`. -/
theorem rod_cross (N a b : V3 α) (c q e : α)
    (hq : q * q * V3.normSq N = 1 - c * c) (he : e * V3.normSq N = 1) :
    V3.cross (rod N a c q e) (rod N b c q e) = rod N (V3.cross a b) c q e := by
  unfold V3.normSq at hq he
  unfold rod V3.dot V3.cross
  ext <;> simp only []
  · linear_combination
      (N.x*e*(N.x*a.y*b.z - N.x*a.z*b.y - N.y*a.x*b.z + N.y*a.z*b.x + N.z*a.x*b.y - N.z*a.y*b.x)) * hq
      + (-N.x^2*a.y*b.z*q^2 + N.x^2*a.z*b.y*q^2 + N.x*N.y*a.x*b.z*q^2 - N.x*N.y*a.z*b.x*q^2 - N.x*N.z*a.x*b.y*q^2 + N.x*N.z*a.y*b.x*q^2 - N.y*a.x*b.y*c*q + N.y*a.x*b.y*q + N.y*a.y*b.x*c*q - N.y*a.y*b.x*q - N.z*a.x*b.z*c*q + N.z*a.x*b.z*q + N.z*a.z*b.x*c*q - N.z*a.z*b.x*q - a.y*b.z*c^2 + a.y*b.z*c + a.z*b.y*c^2 - a.z*b.y*c) * he
  · linear_combination
      (N.y*e*(N.x*a.y*b.z - N.x*a.z*b.y - N.y*a.x*b.z + N.y*a.z*b.x + N.z*a.x*b.y - N.z*a.y*b.x)) * hq
      + (-N.x*N.y*a.y*b.z*q^2 + N.x*N.y*a.z*b.y*q^2 + N.x*a.x*b.y*c*q - N.x*a.x*b.y*q - N.x*a.y*b.x*c*q + N.x*a.y*b.x*q + N.y^2*a.x*b.z*q^2 - N.y^2*a.z*b.x*q^2 - N.y*N.z*a.x*b.y*q^2 + N.y*N.z*a.y*b.x*q^2 - N.z*a.y*b.z*c*q + N.z*a.y*b.z*q + N.z*a.z*b.y*c*q - N.z*a.z*b.y*q + a.x*b.z*c^2 - a.x*b.z*c - a.z*b.x*c^2 + a.z*b.x*c) * he
  · linear_combination
      (N.z*e*(N.x*a.y*b.z - N.x*a.z*b.y - N.y*a.x*b.z + N.y*a.z*b.x + N.z*a.x*b.y - N.z*a.y*b.x)) * hq
      + (-N.x*N.z*a.y*b.z*q^2 + N.x*N.z*a.z*b.y*q^2 + N.x*a.x*b.z*c*q - N.x*a.x*b.z*q - N.x*a.z*b.x*c*q + N.x*a.z*b.x*q + N.y*N.z*a.x*b.z*q^2 - N.y*N.z*a.z*b.x*q^2 + N.y*a.y*b.z*c*q - N.y*a.y*b.z*q - N.y*a.z*b.y*c*q + N.y*a.z*b.y*q - N.z^2*a.x*b.y*q^2 + N.z^2*a.y*b.x*q^2 - a.x*b.y*c^2 + a.x*b.y*c + a.y*b.x*c^2 - a.y*b.x*c) * he

/-! ### small vector algebra -/

theorem v3_add_sub_add_left (o u v : V3 α) : V3.sub (V3.add o u) (V3.add o v) = V3.sub u v := by
  unfold V3.sub V3.add; ext <;> simp only [] <;> ring

/-- `(o + u) - o = u`. -/
theorem v3_add_sub_cancel_left (o u : V3 α) : V3.sub (V3.add o u) o = u := by
  unfold V3.sub V3.add; ext <;> simp only [] <;> ring

/-- `o + (a - o) = a`. -/
theorem v3_add_sub_cancel (o a : V3 α) : V3.add o (V3.sub a o) = a := by
  unfold V3.sub V3.add; ext <;> simp only [] <;> ring

/-- `(o + u) - (o + v) = u - v` (2D). -/
theorem v2_add_sub_add_left (o u v : V2 α) : V2.sub (V2.add o u) (V2.add o v) = V2.sub u v := by
  unfold V2.sub V2.add; ext <;> simp only [] <;> ring

/-- `(o + u) - o = u` (2D). -/
theorem v2_add_sub_cancel_left (o u : V2 α) : V2.sub (V2.add o u) o = u := by
  unfold V2.sub V2.add; ext <;> simp only [] <;> ring

/-- `o + (a - o) = a` (2D). -/
theorem v2_add_sub_cancel (o a : V2 α) : V2.add o (V2.sub a o) = a := by
  unfold V2.sub V2.add; ext <;> simp only [] <;> ring

/-! ### `Plane.__init__` with an explicit x-axis, on unit inputs -/

/-- With a unit normal and a unit x-axis the constructor's two `normalize` calls are the
identity: the plane stores `n`, `o`, `k = n·o`, `x` and `y = n × x` verbatim. -/
theorem plane_init_x_unit (M : MathOps α) (h1 : M.sqrt 1 = 1) (n o x : V3 α)
    (hn : V3.normSq n = 1) (hx : V3.normSq x = 1) :
    plane_init_x M n o x = ⟨n, o, V3.dot n o, x, V3.cross n x⟩ := by
  unfold V3.normSq at hn hx
  unfold plane_init_x
  simp only [hn, hx, h1, one_ne_zero, if_false, div_one]
  unfold V3.cross V3.dot
  congr 1
  ext <;> simp only [] <;> ring

/-- `(p - o) - (c - o) = p - c`. -/
theorem v3_sub_sub_sub (p c o : V3 α) : V3.sub (V3.sub p o) (V3.sub c o) = V3.sub p c := by
  unfold V3.sub; ext <;> simp only [] <;> ring

/-- `(p - o) - (c - o) = p - c` (2D). -/
theorem v2_sub_sub_sub (p c o : V2 α) : V2.sub (V2.sub p o) (V2.sub c o) = V2.sub p c := by
  unfold V2.sub; ext <;> simp only [] <;> ring

/-! ### extensionality for the carrier structures -/

theorem lr2_ext {a b : LR2 α} (hp : a.p = b.p) (hv : a.v = b.v) : a = b := by
  cases a; cases b; simp_all
/-- Extensionality for `LR3`. -/
theorem lr3_ext {a b : LR3 α} (hp : a.p = b.p) (hv : a.v = b.v) : a = b := by
  cases a; cases b; simp_all
/-- Extensionality for `SphereS`. -/
theorem sphere_ext {a b : SphereS α} (hc : a.center = b.center) (hr : a.radius = b.radius) :
    a = b := by
  cases a; cases b; simp_all
/-- Extensionality for `ConeS`. -/
theorem cone_ext {a b : ConeS α} (hc : a.vertex = b.vertex) (ha : a.axis = b.axis)
    (hg : a.angle = b.angle) : a = b := by
  cases a; cases b; simp_all
/-- Extensionality for `CylS`. -/
theorem cyl_ext {a b : CylS α} (hc : a.center = b.center) (ha : a.axis = b.axis)
    (hr : a.radius = b.radius) : a = b := by
  cases a; cases b; simp_all
/-- Extensionality for `PlaneS`. -/
theorem plane_ext {a b : PlaneS α} (hn : a.n = b.n) (ho : a.o = b.o) (hk : a.k = b.k)
    (hx : a.x = b.x) (hy : a.y = b.y) : a = b := by
  cases a; cases b; simp_all
/-- Extensionality for `Arc2S`. -/
theorem arc2_ext {a b : Arc2S α} (hc : a.c = b.c) (hr : a.r = b.r) (h1 : a.a1 = b.a1)
    (h2 : a.a2 = b.a2) (h3 : a.cos_a1 = b.cos_a1) (h4 : a.sin_a1 = b.sin_a1)
    (h5 : a.cos_a2 = b.cos_a2) (h6 : a.sin_a2 = b.sin_a2) : a = b := by
  cases a; cases b; simp_all

/-- `(1/k)·(k·v) = v` for `k ≠ 0` (2D). -/
theorem v2_smul_inv_smul (k : α) (hk : k ≠ 0) (v : V2 α) : V2.smul (1 / k) (V2.smul k v) = v := by
  unfold V2.smul; ext <;> simp only [] <;> field_simp

/-- `(1/k)·(k·v) = v` for `k ≠ 0`. -/
theorem v3_smul_inv_smul (k : α) (hk : k ≠ 0) (v : V3 α) : V3.smul (1 / k) (V3.smul k v) = v := by
  unfold V3.smul; ext <;> simp only [] <;> field_simp

/-- `(k·a)·(k·b) = k²(a·b)`. -/
theorem v3_smul_dot (k : α) (a b : V3 α) :
    V3.dot (V3.smul k a) (V3.smul k b) = k * k * V3.dot a b := by
  unfold V3.smul V3.dot; simp only []; ring

/-- `|k·a|² = k²|a|²`. -/
theorem v3_smul_normSq (k : α) (a : V3 α) : V3.normSq (V3.smul k a) = k * k * V3.normSq a := by
  unfold V3.smul V3.normSq; simp only []; ring

/-! ### Python's float `%` (rendered by the translator as `x - floor (x / y) * y`) and swept angles -/

/-- Under the floor law `floor t ≤ t < floor t + 1`, the remainder `x - floor (x/y)·y` lies in
`[0, y)` for `0 < y`. -/
theorem fmod_range (M : MathOps α) (hfl : ∀ x, M.floor x ≤ x ∧ x < M.floor x + 1)
    {y : α} (hy : 0 < y) (x : α) :
    0 ≤ x - M.floor (x / y) * y ∧ x - M.floor (x / y) * y < y := by
  obtain ⟨h1, h2⟩ := hfl (x / y)
  have h1' : M.floor (x / y) * y ≤ x := (le_div_iff₀ hy).mp h1
  have h2' : x < (M.floor (x / y) + 1) * y := (div_lt_iff₀ hy).mp h2
  constructor <;> linarith

/-- Two numbers of `[0, P)` that differ by an integer multiple of `P` are equal. -/
theorem eq_of_sub_eq_int_mul {P u v : α} {z : ℤ} (hP : 0 < P) (hu0 : 0 ≤ u) (hu : u < P)
    (hv0 : 0 ≤ v) (hv : v < P) (h : u - v = (z : α) * P) : u = v := by
  have h1 : (z : α) * P < 1 * P := by rw [← h]; linarith
  have h2 : (-1 : α) * P < (z : α) * P := by rw [← h]; linarith
  have z1 : (z : α) < 1 := lt_of_mul_lt_mul_right h1 hP.le
  have z2 : (-1 : α) < (z : α) := lt_of_mul_lt_mul_right h2 hP.le
  have z1' : z < 1 := by exact_mod_cast z1
  have z2' : -1 < z := by exact_mod_cast z2
  have hz : z = 0 := by omega
  rw [hz, Int.cast_zero, zero_mul] at h
  linarith

/-- Counter-clockwise angle swept from `a1` to `a2` with period `P` (`Arc2D.angle`). -/
def swept (P a1 a2 : α) : α := if ¬ (a2 < a1) then a2 - a1 else P + (a2 - a1)

/-- The swept angle only depends on `a2 - a1` modulo the period: if `(b2 - b1) - (a2 - a1)` is an
integer multiple of `P`, the `b`'s lie in `[0, P)`, the `a`'s in `[0, P]` and are not the full
circle `(0, P)`, then the swept angles agree. -/
theorem swept_congr {P a1 a2 b1 b2 : α} {z : ℤ} (hP : 0 < P)
    (ha1 : 0 ≤ a1 ∧ a1 ≤ P) (ha2 : 0 ≤ a2 ∧ a2 ≤ P) (hnc : ¬ (a1 = 0 ∧ a2 = P))
    (hb1 : 0 ≤ b1 ∧ b1 < P) (hb2 : 0 ≤ b2 ∧ b2 < P)
    (h : (b2 - b1) - (a2 - a1) = (z : α) * P) :
    swept P b1 b2 = swept P a1 a2 := by
  have hlt : a2 - a1 < P := by
    by_contra hge
    have hge' : P ≤ a2 - a1 := not_lt.mp hge
    exact hnc ⟨le_antisymm (by linarith) ha1.1, le_antisymm ha2.2 (by linarith)⟩
  unfold swept
  by_cases c1 : b2 < b1 <;> by_cases c2 : a2 < a1 <;>
    simp only [c1, c2, not_true_eq_false, not_false_eq_true, if_true, if_false]
  · refine eq_of_sub_eq_int_mul (z := z) hP (by linarith) (by linarith)
      (by linarith) (by linarith) ?_
    linear_combination h
  · refine eq_of_sub_eq_int_mul (z := z + 1) hP (by linarith) (by linarith)
      (by linarith [not_lt.mp c2]) hlt ?_
    push_cast; linear_combination h
  · refine eq_of_sub_eq_int_mul (z := z - 1) hP (by linarith [not_lt.mp c1]) (by linarith)
      (by linarith) (by linarith) ?_
    push_cast; linear_combination h
  · refine eq_of_sub_eq_int_mul (z := z) hP (by linarith [not_lt.mp c1]) (by linarith)
      (by linarith [not_lt.mp c2]) hlt ?_
    linear_combination h

/-- The swept angle is unchanged when both end angles are shifted by the same amount and then
reduced into `[0, P)` by integer multiples of the period — provided the original angles lie in
`[0, P]` and are not the full circle `(0, P)`. -/
theorem swept_shift {P a1 a2 b1 b2 θ : α} {n1 n2 : ℤ} (hP : 0 < P)
    (ha1 : 0 ≤ a1 ∧ a1 ≤ P) (ha2 : 0 ≤ a2 ∧ a2 ≤ P) (hnc : ¬ (a1 = 0 ∧ a2 = P))
    (hb1 : 0 ≤ b1 ∧ b1 < P) (hb2 : 0 ≤ b2 ∧ b2 < P)
    (e1 : b1 = a1 + θ - (n1 : α) * P) (e2 : b2 = a2 + θ - (n2 : α) * P) :
    swept P b1 b2 = swept P a1 a2 := by
  refine swept_congr (z := n1 - n2) hP ha1 ha2 hnc hb1 hb2 ?_
  rw [e1, e2]; push_cast; ring

end Lbg.Lemmas
