/- Driver ops for `Model/SerialComposite.lean` (C13, composite classes).

   Wire format of a `DV` (a Python dictionary / array): float → string "n/d" (exact value),
   int → JSON number, bool → JSON bool, None → null, str → {"$str": "…"}, list/tuple → array,
   dict → object.

   Constructor arguments per class (`cls`, `args`):
     Polygon2D   [vertices]
     Polyline2D  [vertices, interpolated]          Polyline3D likewise
     Mesh2D      [vertices, faces, colors|null]    Mesh3D likewise (colors = array of DV)
     Face3D      [boundary, plane|null, holes|null, enforce_right_hand]   plane = [n, o, k, x, y]
     Polyface3D  [vertices, face_indices, [edge_indices, edge_types]|null]

   Ops (α = ℚ, `math` = IEEE doubles through `floatOps`; hole merging = concatenation stand-in):
     model.<cls>_dict_roundtrip  [args, flag?]  → {obj, dict, rt, rt_dict} | {err}
         (flag = include_plane for face3d, include_edge_information for polyface3d; default true)
     model.<cls>_array_roundtrip [args]         → {obj, array, rt} | {err}
     model.<cls>_eq              [args_a, args_b] → {eq, key_eq, copy_eq, copy_same}
     model.comp_eq               [[cls_a, args_a], [cls_b, args_b]] → bool
     model.from_dict             [cls, dict]    → {ok: state} | {err}
     model.dict_dispatch         [dict, raise_exception] → {none} | {err} | {class, state}
   where <cls> ∈ polygon2d polyline2d polyline3d mesh2d mesh3d face3d polyface3d. -/
import LbgVerif.Wire
import LbgVerif.Model.SerialComposite

namespace Lbg.Model
open Lean Lbg.Wire Lbg.Model.SerialComposite

namespace SCWire

partial def dvOfJson (j : Json) : Except String (DV ℚ) :=
  match j with
  | Json.null => pure .null
  | Json.bool b => pure (.bool b)
  | Json.num n =>
      if n.exponent = 0 then pure (.int n.mantissa) else throw s!"non-integer JSON number {j}"
  | Json.str s => do let q ← parseRat s; pure (.num q)
  | Json.arr a => do let l ← a.toList.mapM dvOfJson; pure (.list l)
  | Json.obj kvs =>
      match kvs.toList with
      | [("$str", Json.str s)] => pure (.str s)
      | l => do
          let kv ← l.mapM (fun (p : String × Json) => do let v ← dvOfJson p.2; pure (p.1, v))
          pure (.dict kv)

partial def dvToJson (d : DV ℚ) : Json :=
  match d with
  | .null => Json.null
  | .bool b => Json.bool b
  | .int i => Json.num (JsonNumber.fromInt i)
  | .num x => Json.str (showRat x)
  | .str s => Json.mkObj [("$str", Json.str s)]
  | .list l => Json.arr (l.map dvToJson).toArray
  | .dict kv => Json.mkObj (kv.map (fun p => (p.1, dvToJson p.2)))

def errName : PyErr → String
  | .KeyError => "KeyError" | .AssertionError => "AssertionError" | .TypeError => "TypeError"
  | .IndexError => "IndexError" | .ValueError => "ValueError"

def errJson (e : PyErr) : Json := Json.mkObj [("err", Json.str (errName e))]

/-- Stand-in for the uninterpreted hole merging: boundary followed by the holes. -/
def faceOps : FaceOps ℚ where
  merge b hs := b ++ hs.flatten
  mergeFast b hs := b ++ hs.flatten

def optJson {τ : Type} (f : τ → Json) : Option τ → Json
  | none => Json.null
  | some v => f v

def polygonState (x : Polygon2DS ℚ) : Json := Json.mkObj [("vertices", enc x.vertices)]
def polyline2State (x : Polyline2DS ℚ) : Json :=
  Json.mkObj [("vertices", enc x.vertices), ("interpolated", enc x.interpolated)]
def polyline3State (x : Polyline3DS ℚ) : Json :=
  Json.mkObj [("vertices", enc x.vertices), ("interpolated", enc x.interpolated)]
def meshState {P : Type} [Codec P] (x : MeshS P ℚ) : Json :=
  Json.mkObj [("vertices", enc x.vertices), ("faces", enc x.faces),
    ("colors", optJson (fun c => Json.arr (c.map dvToJson).toArray) x.colors),
    ("is_color_by_face", Json.bool x.is_color_by_face)]
def faceState (x : Face3DS ℚ) : Json :=
  Json.mkObj [("boundary", enc x.boundary), ("plane", enc x.plane), ("holes", enc x.holes),
    ("vertices", enc x.vertices), ("poly2d", enc x.poly2d), ("poly_cw", enc x.poly_cw)]
def polyfaceState (x : Polyface3DS ℚ) : Json :=
  Json.mkObj [("vertices", enc x.vertices), ("face_indices", enc x.face_indices),
    ("edge_indices", enc x.edge_indices), ("edge_types", enc x.edge_types),
    ("is_solid", Json.bool x.is_solid)]

def compState : Comp ℚ → Json
  | .polygon2d x => polygonState x | .polyline2d x => polyline2State x
  | .polyline3d x => polyline3State x | .mesh2d x => meshState x | .mesh3d x => meshState x
  | .face3d x => faceState x | .polyface3d x => polyfaceState x

def arg (a : Json) (i : Nat) : Json :=
  match a with
  | Json.arr v => v.getD i Json.null
  | _ => Json.null

def colorsOf (j : Json) : Except String (Option (List (DV ℚ))) :=
  match j with
  | Json.null => pure none
  | Json.arr a => do let l ← a.toList.mapM dvOfJson; pure (some l)
  | _ => throw "colors: expected array or null"

/-- Build an object of class `cls` with the model constructor. -/
def build (cls : String) (a : Json) : Except String (R (Comp ℚ)) :=
  match cls with
  | "polygon2d" => do
      let vs ← (dec (arg a 0) : Except String (List (V2 ℚ)))
      pure ((polygonInit vs).map .polygon2d)
  | "polyline2d" => do
      let vs ← (dec (arg a 0) : Except String (List (V2 ℚ)))
      let ip ← (dec (arg a 1) : Except String (Option Bool))
      pure ((polyline2Init vs ip).map .polyline2d)
  | "polyline3d" => do
      let vs ← (dec (arg a 0) : Except String (List (V3 ℚ)))
      let ip ← (dec (arg a 1) : Except String (Option Bool))
      pure ((polyline3Init vs ip).map .polyline3d)
  | "mesh2d" => do
      let vs ← (dec (arg a 0) : Except String (List (V2 ℚ)))
      let fs ← (dec (arg a 1) : Except String (List (List Int)))
      let cs ← colorsOf (arg a 2)
      pure ((meshInit vs fs cs).map .mesh2d)
  | "mesh3d" => do
      let vs ← (dec (arg a 0) : Except String (List (V3 ℚ)))
      let fs ← (dec (arg a 1) : Except String (List (List Int)))
      let cs ← colorsOf (arg a 2)
      pure ((meshInit vs fs cs).map .mesh3d)
  | "face3d" => do
      let b ← (dec (arg a 0) : Except String (List (V3 ℚ)))
      let pl ← (dec (arg a 1) : Except String (Option (PlaneS ℚ)))
      let hs ← (dec (arg a 2) : Except String (Option (List (List (V3 ℚ)))))
      let erh ← (dec (arg a 3) : Except String Bool)
      -- optional overrides of the cache slots and of `_vertices` (to rebuild a REAL object's
      -- slots exactly: factories preset them, hole merging is uninterpreted)
      let p2 ← (dec (arg a 4) : Except String (Option (List (V2 ℚ))))
      let cw ← (dec (arg a 5) : Except String (Option Bool))
      let vs ← (dec (arg a 6) : Except String (Option (List (V3 ℚ))))
      pure ((faceInit faceOps floatOps b pl hs erh).map (fun x =>
        let x1 := match arg a 4, arg a 5 with
          | Json.null, Json.null => x
          | _, _ => { x with poly2d := p2, poly_cw := cw }
        let x2 := match vs with
          | some v => { x1 with vertices := v }
          | none => x1
        .face3d x2))
  | "polyface3d" => do
      let vs ← (dec (arg a 0) : Except String (List (V3 ℚ)))
      let fi ← (dec (arg a 1) : Except String (List (List (List Nat))))
      let ei ← (dec (arg a 2) : Except String (Option (List (Nat × Nat) × List Nat)))
      pure ((polyfaceInit vs fi ei).map .polyface3d)
  | _ => throw s!"unknown class {cls}"

def strOf (j : Json) : Except String String :=
  match j with
  | Json.str s => pure s
  | _ => throw "expected string"

def flagOf (j : Json) : Bool :=
  match j with
  | Json.bool b => b
  | _ => true

def toDictOf (c : Comp ℚ) (flag : Bool) : DV ℚ :=
  match c with
  | .face3d x => faceToDict x flag
  | .polyface3d x => polyfaceToDict x flag
  | c => c.toDict

def fromDictOf (cls : String) (d : DV ℚ) : Except String (R (Comp ℚ)) :=
  match cls with
  | "polygon2d" => pure ((polygonFromDict d).map .polygon2d)
  | "polyline2d" => pure ((polyline2FromDict d).map .polyline2d)
  | "polyline3d" => pure ((polyline3FromDict d).map .polyline3d)
  | "mesh2d" => pure ((mesh2FromDict d).map .mesh2d)
  | "mesh3d" => pure ((mesh3FromDict d).map .mesh3d)
  | "face3d" => pure ((faceFromDict faceOps floatOps d).map .face3d)
  | "polyface3d" => pure ((polyfaceFromDict d).map .polyface3d)
  | _ => throw s!"unknown class {cls}"

def toArrayOf (c : Comp ℚ) : Except String (DV ℚ) :=
  match c with
  | .polygon2d x => pure (polygonToArray x) | .polyline2d x => pure (polyline2ToArray x)
  | .polyline3d x => pure (polyline3ToArray x) | .face3d x => pure (faceToArray x)
  | _ => throw "class has no to_array"

def fromArrayOf (cls : String) (a : DV ℚ) : Except String (R (Comp ℚ)) :=
  match cls with
  | "polygon2d" => pure ((polygonFromArray a).map .polygon2d)
  | "polyline2d" => pure ((polyline2FromArray a).map .polyline2d)
  | "polyline3d" => pure ((polyline3FromArray a).map .polyline3d)
  | "face3d" => pure ((faceFromArray faceOps floatOps a).map .face3d)
  | _ => throw s!"class {cls} has no from_array"

def copyOf (c : Comp ℚ) : R (Comp ℚ) :=
  match c with
  | .polygon2d x => (polygonCopy x).map .polygon2d
  | .polyline2d x => (polyline2Copy x).map .polyline2d
  | .polyline3d x => (polyline3Copy x).map .polyline3d
  | .mesh2d x => (meshCopy x).map .mesh2d
  | .mesh3d x => (meshCopy x).map .mesh3d
  | .face3d x => (faceCopy faceOps floatOps x).map .face3d
  | .polyface3d x => (polyfaceCopy x).map .polyface3d

def resState (r : R (Comp ℚ)) : Json :=
  match r with
  | .ok c => Json.mkObj [("ok", compState c)]
  | .error e => errJson e

def classes : List String :=
  ["polygon2d", "polyline2d", "polyline3d", "mesh2d", "mesh3d", "face3d", "polyface3d"]

def simpleName : SimpleClass → String
  | .Vector2D => "Vector2D" | .Point2D => "Point2D" | .Ray2D => "Ray2D"
  | .LineSegment2D => "LineSegment2D" | .Arc2D => "Arc2D" | .Vector3D => "Vector3D"
  | .Point3D => "Point3D" | .Ray3D => "Ray3D" | .LineSegment3D => "LineSegment3D"
  | .Arc3D => "Arc3D" | .Sphere => "Sphere" | .Cone => "Cone" | .Cylinder => "Cylinder"

def geoJson (g : Geo ℚ) : Json :=
  match g with
  | .comp c => Json.mkObj [("class", Json.str c.className), ("state", compState c)]
  | .plane p => Json.mkObj [("class", Json.str "Plane"), ("state", enc p)]
  | .simple c d => Json.mkObj [("class", Json.str (simpleName c)), ("state", dvToJson d)]

end SCWire

open SCWire in
def dispatchSerialComposite (op : String) (args : Array Json) : Option (Except String Json) :=
  let a0 := args.getD 0 Json.null
  let a1 := args.getD 1 Json.null
  match op with
  | "model.comp_eq" => some (do
      let ca ← strOf (arg a0 0)
      let cb ← strOf (arg a1 0)
      let ra ← build ca (arg a0 1)
      let rb ← build cb (arg a1 1)
      match ra, rb with
      | .ok x, .ok y => pure (Json.bool (compEq x y))
      | .error e, _ => pure (errJson e)
      | _, .error e => pure (errJson e))
  | "model.from_dict" => some (do
      let cls ← strOf a0
      let d ← dvOfJson a1
      let r ← fromDictOf cls d
      pure (resState r))
  | "model.dict_dispatch" => some (do
      let d ← dvOfJson a0
      let raiseExc := flagOf a1
      match dictToObject faceOps floatOps d raiseExc with
      | .error e => pure (errJson e)
      | .ok none => pure (Json.mkObj [("none", Json.bool true)])
      | .ok (some g) => pure (geoJson g))
  | _ =>
    match classes.find? (fun c => op == "model." ++ c ++ "_dict_roundtrip") with
    | some cls => some (do
        let r ← build cls a0
        match r with
        | .error e => pure (errJson e)
        | .ok x =>
          let d := toDictOf x (flagOf a1)
          let rt ← fromDictOf cls d
          let rtd := match rt with
            | .ok y => dvToJson (toDictOf y (flagOf a1))
            | .error _ => Json.null
          pure (Json.mkObj [("obj", compState x), ("dict", dvToJson d), ("rt", resState rt),
            ("rt_dict", rtd)]))
    | none =>
    match classes.find? (fun c => op == "model." ++ c ++ "_array_roundtrip") with
    | some cls => some (do
        let r ← build cls a0
        match r with
        | .error e => pure (errJson e)
        | .ok x =>
          let ar ← toArrayOf x
          let rt ← fromArrayOf cls ar
          pure (Json.mkObj [("obj", compState x), ("array", dvToJson ar), ("rt", resState rt)]))
    | none =>
    match classes.find? (fun c => op == "model." ++ c ++ "_eq") with
    | some cls => some (do
        let ra ← build cls a0
        let rb ← build cls a1
        match ra, rb with
        | .ok x, .ok y =>
          let cp := copyOf x
          let (copyEq, copySame) := match cp with
            | .ok z => (compEq z x, decide (z.key = x.key))
            | .error _ => (false, false)
          pure (Json.mkObj [("eq", Json.bool (compEq x y)), ("eq_rev", Json.bool (compEq y x)),
            ("key_eq", Json.bool (decide (x.key = y.key))),
            ("copy_eq", Json.bool copyEq), ("copy_key_eq", Json.bool copySame),
            ("copy", resState cp)])
        | .error e, _ => pure (errJson e)
        | _, .error e => pure (errJson e))
    | none => none

end Lbg.Model
