/-
  Model.BoolGroup — literal hand model of the grouping loop of the REPAIRED
  `Face3D._from_bool_poly` (geometry3d/face.py l.2611-2630) and of the `tolerance is None`
  variant, over an abstract containment test.

      polys.sort(key=lambda x: x.area, reverse=True)
      poly_groups = [[polys[0]]]
      for sub_poly in polys[1:]:
          for i, pg in enumerate(poly_groups):
              is_hole = pg[0] contains sub_poly  and  not any(h contains sub_poly for h in pg[1:])
              if is_hole: poly_groups[i].append(sub_poly); break
          else: poly_groups.append([sub_poly])

  `inside a b = true` stands for `a.polygon_relationship(b, tolerance) == 1` ("`b` lies inside
  `a`").  The input list is the list of loops AFTER the sort by area.  A group is
  `(outer, holes)`.

  NOT modelled: `polygon_relationship` itself, the sort, `remove_duplicate_vertices`, the lift
  to 3D.
-/
import LbgVerif.Basic

namespace Lbg.Model

variable {L : Type}

/-- The test of the inner loop, repaired (`tolerance` given) branch. -/
def isHoleOf (inside : L → L → Bool) (g : L × List L) (s : L) : Bool :=
  inside g.1 s && !(g.2.any (fun h => inside h s))

/-- The test of the inner loop, `tolerance is None` branch (no look at the existing holes). -/
def isHoleOfNoTol (inside : L → L → Bool) (g : L × List L) (s : L) : Bool :=
  inside g.1 s

/-- `for i, pg in enumerate(poly_groups): if is_hole: pg.append(sub_poly); break` with the
`else: poly_groups.append([sub_poly])` clause. -/
def placeLoop (test : L × List L → L → Bool) : List (L × List L) → L → List (L × List L)
  | [], s => [(s, [])]
  | g :: gs, s => if test g s = true then (g.1, g.2 ++ [s]) :: gs else g :: placeLoop test gs s

/-- The grouping loop for a generic test. -/
def groupWith (test : L × List L → L → Bool) : List L → List (L × List L)
  | [] => []
  | p :: ps => ps.foldl (placeLoop test) [(p, [])]

/-- Grouping of the (sorted) loops, repaired branch. -/
def groupLoops (inside : L → L → Bool) (polys : List L) : List (L × List L) :=
  groupWith (isHoleOf inside) polys

/-- Grouping of the (sorted) loops, `tolerance is None` branch. -/
def groupLoopsNoTol (inside : L → L → Bool) (polys : List L) : List (L × List L) :=
  groupWith (isHoleOfNoTol inside) polys

end Lbg.Model
