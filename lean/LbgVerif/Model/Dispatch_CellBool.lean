/-
  Driver entry points of the cell-set / crossing-number specification (Spec/CellBool).

  cellbool.check   args [operands, checks, tol]
      operands : list of regions (a region = list of loops, a loop = list of [x, y])
      checks   : list of [opname, faceMode, parts]   (a part = list of loops)
      tol      : lattice tolerance for the rectilinearity test of the returned loops
      → list of reports (one per check)
  cellbool.points  args [operands, checks, points]   → list of point reports
  cellbool.table   args [opname, [16 numbers]]       → indices that differ from the truth table
  cellbool.inverted args [opname, inv1, inv2]        → expected is_inverted flag
  cellbool.cells   args [region]                     → the cells of a region
-/
import LbgVerif.Wire
import LbgVerif.Spec.CellBool

namespace Lbg.Model
open Lean Lbg.Wire Lbg.Spec.CellBool

private def encCell (c : Cell) : Json := Json.arr #[enc c.1, enc c.2]

private def encOpt {τ : Type} (f : τ → Json) : Option τ → Json
  | none => Json.null
  | some v => f v

private def decOp (j : Json) : Except String Op := do
  let s ← (j.getStr? : Except String String)
  match Op.ofString s with
  | some o => pure o
  | none => throw s!"unknown operation {s}"

private def decCheck (j : Json) : Except String (Op × Bool × List (List Lbg.Spec.CellBool.Loop)) := do
  let a ← arrN j 3
  let op ← decOp a[0]!
  let fm ← (dec a[1]! : Except String Bool)
  let parts ← (dec a[2]! : Except String (List (List Lbg.Spec.CellBool.Loop)))
  pure (op, fm, parts)

private def encReport (r : Report) : Json :=
  Json.mkObj [
    ("n_operands", enc r.nOperands), ("n_expected", enc r.nExpected),
    ("n_result", enc r.nResult),
    ("missing", encOpt encCell r.missing), ("extra", encOpt encCell r.extra),
    ("overlap", encOpt encCell r.overlap),
    ("offgrid", encOpt (fun (e : Pt × Pt) => enc e) r.offGrid),
    ("diagonal", encOpt (fun (e : Pt × Pt) => enc e) r.diagonal)]

private def encPointReport (r : PointReport) : Json :=
  Json.mkObj [("bad", enc r.bad), ("multi", enc r.multi), ("n_in", enc r.nIn)]

def dispatchCellBool (op : String) (args : Array Json) : Option (Except String Json) :=
  match op with
  | "cellbool.check" => some (do
      let operands ← (dec (args.getD 0 Json.null) : Except String (List Region))
      let checks ← match args.getD 1 Json.null with
        | Json.arr a => a.toList.mapM decCheck
        | _ => throw "expected list of checks"
      let tol ← (dec (args.getD 2 Json.null) : Except String ℚ)
      pure (Json.arr (checks.map (fun (o, fm, parts) =>
        encReport (check o operands fm parts tol))).toArray))
  | "cellbool.points" => some (do
      let operands ← (dec (args.getD 0 Json.null) : Except String (List Region))
      let checks ← match args.getD 1 Json.null with
        | Json.arr a => a.toList.mapM decCheck
        | _ => throw "expected list of checks"
      let pts ← (dec (args.getD 2 Json.null) : Except String (List Pt))
      pure (Json.arr (checks.map (fun (o, fm, parts) =>
        encPointReport (checkPoints o operands fm parts pts))).toArray))
  | "cellbool.table" => some (do
      let o ← decOp (args.getD 0 Json.null)
      let t ← (dec (args.getD 1 Json.null) : Except String (List Nat))
      pure (enc (tableDiff o t)))
  | "cellbool.inverted" => some (do
      let o ← decOp (args.getD 0 Json.null)
      let a ← (dec (args.getD 1 Json.null) : Except String Bool)
      let b ← (dec (args.getD 2 Json.null) : Except String Bool)
      pure (enc (invertedSpec o a b)))
  | "cellbool.cells" => some (do
      let r ← (dec (args.getD 0 Json.null) : Except String Region)
      let box := boxOf (r.flatMap id)
      pure (Json.arr ((cellsOf box r).map encCell).toArray))
  | _ => none

end Lbg.Model
