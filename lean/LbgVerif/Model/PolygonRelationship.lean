/-
  Model/PolygonRelationship — the DECISION LOGIC of `Polygon2D.polygon_relationship` and
  `Polygon2D.does_polygon_touch` (geometry2d/polygon.py), as functions of the quantities the code
  computes (the geometric sub-computations are inputs):

      def polygon_relationship(self, polygon, tolerance):
          if not Polygon2D.overlapping_bounding_rect(self, polygon, tolerance):
              return -1
          pt_rels1 = [self.point_relationship(pt, tolerance) for pt in polygon]
          pt_rels2 = [polygon.point_relationship(pt, tolerance) for pt in self]
          if all(r1 >= 0 for r1 in pt_rels1) and all(r2 <= 0 for r2 in pt_rels2):
              poi = polygon._point_in_polygon(tolerance)
              if self.is_point_inside(poi) == 1:                      # `probe`
                  off_poly = polygon.offset(tolerance)
                  for seg in self.segments:
                      for _s in off_poly.segments:
                          if does_intersection_exist_line2d(seg, _s):  # `crossing`
                              return 0
                  return 1
          if 1 in pt_rels1 or 1 in pt_rels2:
              return 0
          if all(r2 == 0 for r2 in pt_rels2):
              poi = self._point_in_polygon(tolerance)
              if polygon.is_point_inside(poi) == 1:                   # `probe2`
                  return 0
          off_poly = polygon.offset(tolerance)
          for seg in self.segments:
              for _s in off_poly.segments:
                  if does_intersection_exist_line2d(seg, _s):          # `crossing` (same value)
                      return 0
          return -1

      def does_polygon_touch(self, polygon, tolerance):
          if not Polygon2D.overlapping_bounding_rect(self, polygon, tolerance):
              return False
          pt_rels1 = [self.point_relationship(pt, tolerance) for pt in polygon]
          if 0 in pt_rels1 or 1 in pt_rels1:
              return True
          pt_rels2 = [polygon.point_relationship(pt, tolerance) for pt in self]
          if 0 in pt_rels2 or 1 in pt_rels2:
              return True
          for seg in self.segments:
              for _s in polygon.segments:
                  if does_intersection_exist_line2d(seg, _s):          # `crossing0` (no offset)
                      return True
          return False

  Inputs: `bbox` = `overlapping_bounding_rect`; `r1`, `r2` = the two vectors of point
  relationships (values in {−1, 0, +1}); `probe`, `probe2` = the two `is_point_inside(poi)`
  answers; `crossing` = "some segment of `self` meets some segment of `polygon.offset(tol)`"
  (both loops compute the same value); `crossing0` = the same without offset.
-/
import LbgVerif.Basic

namespace Lbg.Model.PolygonRelationship

/-- `Polygon2D.polygon_relationship` as a function of its sub-results. -/
def polygonRelationship (bbox : Bool) (r1 r2 : List Int) (probe crossing probe2 : Bool) : Int :=
  if !bbox then -1
  else if (r1.all (fun r => decide (0 ≤ r)) && r2.all (fun r => decide (r ≤ 0))) && probe then
    (if crossing then 0 else 1)
  else if r1.contains 1 || r2.contains 1 then 0
  else if r2.all (fun r => r == 0) && probe2 then 0
  else if crossing then 0
  else -1

/-- `Polygon2D.does_polygon_touch` as a function of its sub-results. -/
def doesPolygonTouch (bbox : Bool) (r1 r2 : List Int) (crossing0 : Bool) : Bool :=
  if !bbox then false
  else if r1.contains 0 || r1.contains 1 then true
  else if r2.contains 0 || r2.contains 1 then true
  else if crossing0 then true
  else false

end Lbg.Model.PolygonRelationship
