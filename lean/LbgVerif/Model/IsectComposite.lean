/-
  Model/IsectComposite — LITERAL hand models of the COMPOSITE intersection / splitting
  routines: loops over the parts of a polygon / polyline / face / polyface that call the
  GENERATED kernels (`Gen.intersect_line2d_ss/_sr`, `Gen.intersect_line2d_infinite_ss/_sr`,
  `Gen.intersect_line3d_plane_s/_r`, `Gen.intersect_plane_plane`, `Gen.plane_xyz_to_xy`,
  `Gen.plane_xy_to_xyz`, `Gen.seg2_from_end_points`, `Gen.seg3_from_end_points`, `Gen.seg3_p2`)
  and the containment model `Model/PointInside.lean`.

  geometry2d/polygon.py, geometry2d/polyline.py (identical bodies):

      def intersect_line_ray(self, line_ray):
          intersections = []
          for _s in self.segments:
              inters = intersect_line2d(_s, line_ray)          # SEGMENT first, argument second
              if inters is not None:
                  intersections.append(inters)
          return intersections

      def intersect_line_infinite(self, ray):
          intersections = []
          for _s in self.segments:
              inters = intersect_line2d_infinite(_s, ray)
              if inters is not None:
                  intersections.append(inters)
          return intersections

  `Polygon2D.segments` = `_segments_from_vertices` (closed loop, segment i from vertex i to
  vertex i+1: `PointInside.segments`); `Polyline2D.segments` / `Polyline3D.segments`:

      tuple(LineSegment.from_end_points(vert, self._vertices[i + 1])
            for i, vert in enumerate(self._vertices[:-1]))

  geometry3d/polyline.py:

      def intersect_plane(self, plane):
          intersections = []
          for _s in self.segments:
              inters = intersect_line3d_plane(_s, plane)
              if inters is not None:
                  intersections.append(inters)
          return intersections

      def split_with_plane(self, plane):
          grouped_verts = [[self._vertices[0]]]
          for _s in self.segments:
              inters = intersect_line3d_plane(_s, plane)
              if inters is None:
                  grouped_verts[-1].append(_s.p2)
              else:  # intersection; start a new group
                  grouped_verts[-1].append(inters)
                  grouped_verts.append([inters, _s.p2])
          return self._grouped_verts_to_objs(grouped_verts, self._interpolated)

      def _grouped_verts_to_objs(grouped_verts, interpolated=False):
          joined_lines = []
          for v_list in grouped_verts:
              if len(v_list) == 2:
                  joined_lines.append(LineSegment3D.from_end_points(v_list[0], v_list[1]))
              else:
                  joined_lines.append(Polyline3D(v_list, interpolated))
          return joined_lines

  geometry3d/line.py:

      def split_with_plane(self, plane):
          _plane_int = self.intersect_plane(plane)           # intersect_line3d_plane(self, plane)
          if _plane_int is not None:
              return [LineSegment3D.from_end_points(self.p1, _plane_int),
                      LineSegment3D.from_end_points(_plane_int, self.p2)]
          return [self]

  geometry3d/face.py:

      def intersect_line_ray(self, line_ray):
          _plane_int = self._plane.intersect_line_ray(line_ray)   # intersect_line3d_plane(line_ray, plane)
          if _plane_int is not None:
              _int2d = self._plane.xyz_to_xy(_plane_int)
              if self.polygon2d.is_point_inside_bound_rect(_int2d):
                  return _plane_int
          return None

      def intersect_plane(self, plane):
          _plane_int_ray = self._plane.intersect_plane(plane)     # intersect_plane_plane(self._plane, plane)
          if _plane_int_ray is not None:
              _p12d = self._plane.xyz_to_xy(_plane_int_ray.p)
              _p22d = self._plane.xyz_to_xy(_plane_int_ray.p + _plane_int_ray.v)
              _v2d = _p22d - _p12d
              _int_ray2d = Ray2D(_p12d, _v2d)
              _int_pt2d = self.polygon2d.intersect_line_infinite(_int_ray2d)
              if len(_int_pt2d) != 0:
                  if len(_int_pt2d) > 2:  # sort the points along the intersection line
                      _int_pt2d.sort(key=lambda pt: pt.x * _v2d.x + pt.y * _v2d.y)
                  _int_pt3d = [self._plane.xy_to_xyz(pt) for pt in _int_pt2d]
                  _int_seg3d = []
                  for i in xrange(0, len(_int_pt3d) - 1, 2):
                      _int_seg3d.append(LineSegment3D.from_end_points(
                          _int_pt3d[i], _int_pt3d[i + 1]))
                  return _int_seg3d
          return None

  `self.polygon2d` = `Polygon2D(tuple(self._plane.xyz_to_xy(_v) for _v in self.vertices))` for a
  face without holes (`facePolygon2d`); with holes the constructor pre-seeds the slot with the
  merged polygon.  The `…P` models take (plane slots, polygon2d vertices), the plain ones
  (plane slots, `Face3D.vertices`) of a face without holes.

  geometry3d/polyface.py:

      def intersect_line_ray(self, line_ray):
          _inters = []
          for face in self.faces:
              _int = face.intersect_line_ray(line_ray)
              if _int is not None:
                  _inters.append(_int)
          return _inters

      def intersect_plane(self, plane):
          _inters = []
          for face in self.faces:
              _int = face.intersect_plane(plane)
              if _int is not None:
                  _inters.extend(_int)
          return _inters

  The `line_ray` argument is a `LineSegment` or a `Ray` (same slots `p`, `v`; they differ in
  `_u_in`): the flag `isRay` selects the kernel variant, as the translator does.
  NOT modelled here: `Arc2D.split_line_infinite` / `Arc3D.split_with_plane` /
  `Arc3D.intersect_plane` / `Plane.intersect_arc` (angle arithmetic through `acos`; their
  kernels `_a_from_pt`, `_cc_difference`, line × arc are the subject of `Props/C11`, `Props/C17`).
-/
import LbgVerif.Basic
import LbgVerif.Gen.Isect2
import LbgVerif.Gen.Isect3
import LbgVerif.Gen.Line
import LbgVerif.Gen.Plane
import LbgVerif.Model.PointInside

namespace Lbg.Model.IsectComposite
open Lbg Lbg.Gen
variable {α : Type} [Field α] [LinearOrder α]

/-- The loop `out = []; for s in parts: r = k(s); if r is not None: out.append(r); return out`. -/
def collect {σ τ : Type} (k : σ → Option τ) (parts : List σ) : List τ :=
  parts.foldl (fun out s => match k s with
    | none => out
    | some r => out ++ [r]) []

/-- `Polyline2D.segments`: segment `i` from vertex `i` to vertex `i+1`, `i < n-1`. -/
def polylineSegments2 (vs : List (V2 α)) : List (LR2 α) :=
  (vs.zip vs.tail).map (fun q => seg2_from_end_points q.1 q.2)

/-- `Polyline3D.segments`. -/
def polylineSegments3 (vs : List (V3 α)) : List (LR3 α) :=
  (vs.zip vs.tail).map (fun q => seg3_from_end_points q.1 q.2)

/-- `intersect_line2d(_s, line_ray)` with `_s` a segment; `isRay` tells what `line_ray` is. -/
def kernel2 (isRay : Bool) (s lr : LR2 α) : Option (V2 α) :=
  if isRay then intersect_line2d_sr s lr else intersect_line2d_ss s lr

/-- `intersect_line2d_infinite(_s, ray)` with `_s` a segment. -/
def kernel2Inf (isRay : Bool) (s lr : LR2 α) : Option (V2 α) :=
  if isRay then intersect_line2d_infinite_sr s lr else intersect_line2d_infinite_ss s lr

/-- `intersect_line3d_plane(line_ray, plane)`; `isRay` tells what `line_ray` is. -/
def kernel3 (isRay : Bool) (lr : LR3 α) (pl : PlaneS α) : Option (V3 α) :=
  if isRay then intersect_line3d_plane_r lr pl else intersect_line3d_plane_s lr pl

/-- `Polygon2D.intersect_line_ray(line_ray)`. -/
def polygonIntersectLineRay (vs : List (V2 α)) (isRay : Bool) (lr : LR2 α) : List (V2 α) :=
  collect (fun s => kernel2 isRay s lr) (PointInside.segments vs)

/-- `Polygon2D.intersect_line_infinite(ray)`. -/
def polygonIntersectLineInfinite (vs : List (V2 α)) (isRay : Bool) (lr : LR2 α) :
    List (V2 α) :=
  collect (fun s => kernel2Inf isRay s lr) (PointInside.segments vs)

/-- `Polyline2D.intersect_line_ray(line_ray)`. -/
def polyline2IntersectLineRay (vs : List (V2 α)) (isRay : Bool) (lr : LR2 α) : List (V2 α) :=
  collect (fun s => kernel2 isRay s lr) (polylineSegments2 vs)

/-- `Polyline2D.intersect_line_infinite(ray)`. -/
def polyline2IntersectLineInfinite (vs : List (V2 α)) (isRay : Bool) (lr : LR2 α) :
    List (V2 α) :=
  collect (fun s => kernel2Inf isRay s lr) (polylineSegments2 vs)

/-- `Polyline3D.intersect_plane(plane)`. -/
def polyline3IntersectPlane (vs : List (V3 α)) (pl : PlaneS α) : List (V3 α) :=
  collect (fun s => intersect_line3d_plane_s s pl) (polylineSegments3 vs)

/-- One pass of the loop of `Polyline3D.split_with_plane`.  State: `(grouped_verts[:-1],
grouped_verts[-1])`. -/
def splitStep (pl : PlaneS α) (st : List (List (V3 α)) × List (V3 α)) (s : LR3 α) :
    List (List (V3 α)) × List (V3 α) :=
  match intersect_line3d_plane_s s pl with
  | none => (st.1, st.2 ++ [seg3_p2 s])
  | some q => (st.1 ++ [st.2 ++ [q]], [q, seg3_p2 s])

/-- `grouped_verts` at the end of the loop of `Polyline3D.split_with_plane` (`self._vertices[0]`
raises for an empty vertex list, which the constructor excludes; modelled as `[]`). -/
def polyline3GroupedVerts (vs : List (V3 α)) (pl : PlaneS α) : List (List (V3 α)) :=
  match vs with
  | [] => []
  | v0 :: _ =>
    let st := (polylineSegments3 vs).foldl (splitStep pl) ([], [v0])
    st.1 ++ [st.2]

/-- `Polyline3D._grouped_verts_to_objs`: `inl` = `LineSegment3D`, `inr` = `Polyline3D` vertices. -/
def groupedVertsToObjs (g : List (List (V3 α))) : List (Sum (LR3 α) (List (V3 α))) :=
  g.map (fun vl => match vl with
    | [a, b] => Sum.inl (seg3_from_end_points a b)
    | _ => Sum.inr vl)

/-- `Polyline3D.split_with_plane(plane)`. -/
def polyline3SplitWithPlane (vs : List (V3 α)) (pl : PlaneS α) :
    List (Sum (LR3 α) (List (V3 α))) :=
  groupedVertsToObjs (polyline3GroupedVerts vs pl)

/-- `LineSegment3D.split_with_plane(plane)` written as the method is (`self.intersect_plane`
then two `from_end_points`); equal to the translator's `Gen.seg3_split_with_plane`
(`Lemmas.seg3SplitWithPlane_eq_gen`). -/
def seg3SplitWithPlane (l : LR3 α) (pl : PlaneS α) : List (LR3 α) :=
  match intersect_line3d_plane_s l pl with
  | some q => [seg3_from_end_points l.p q, seg3_from_end_points q (seg3_p2 l)]
  | none => [l]

/-- `Face3D.polygon2d.vertices` as the lazy property computes it (faces without holes; for a
face with holes the slot is pre-seeded by the constructor with the merged polygon). -/
def facePolygon2d (pl : PlaneS α) (vs3 : List (V3 α)) : List (V2 α) :=
  vs3.map (plane_xyz_to_xy pl)

/-- `Face3D.intersect_line_ray(line_ray)` on a face given by its plane and the vertices of
`self.polygon2d` (`tv` = the default `test_vector` of `is_point_inside_bound_rect`, passed
explicitly). -/
def faceIntersectLineRayP (pl : PlaneS α) (poly2 : List (V2 α)) (isRay : Bool) (lr : LR3 α)
    (tv : V2 α) : Option (V3 α) :=
  match kernel3 isRay lr pl with
  | none => none
  | some p =>
    if PointInside.isPointInsideBoundRect poly2 (plane_xyz_to_xy pl p) tv
    then some p else none

/-- `Face3D.intersect_line_ray(line_ray)` on a face without holes given by plane and
`Face3D.vertices`. -/
def faceIntersectLineRay (pl : PlaneS α) (vs3 : List (V3 α)) (isRay : Bool) (lr : LR3 α)
    (tv : V2 α) : Option (V3 α) :=
  faceIntersectLineRayP pl (facePolygon2d pl vs3) isRay lr tv

/-- `for i in xrange(0, len(pts) - 1, 2): segs.append(from_end_points(pts[i], pts[i + 1]))`. -/
def pairUp : List (V3 α) → List (LR3 α)
  | a :: b :: t => seg3_from_end_points a b :: pairUp t
  | _ => []

/-- The 2D ray in the face plane that `Face3D.intersect_plane` intersects the polygon with. -/
def faceCutRay (pl : PlaneS α) (p v : V3 α) : LR2 α :=
  let p12d := plane_xyz_to_xy pl p
  let p22d := plane_xyz_to_xy pl (V3.add p v)
  ⟨p12d, V2.sub p22d p12d⟩

/-- The sort key of `Face3D.intersect_plane`. -/
def cutKey (ray : LR2 α) (pt : V2 α) : α := pt.x * ray.v.x + pt.y * ray.v.y

/-- `if len(pts) > 2: pts.sort(key=…)`; `list.sort` is stable, as `List.mergeSort` is. -/
def sortIfMany (ray : LR2 α) (pts : List (V2 α)) : List (V2 α) :=
  if 2 < pts.length then pts.mergeSort (fun a b => decide (cutKey ray a ≤ cutKey ray b)) else pts

/-- `Face3D.intersect_plane(plane)` on a face given by its plane and `self.polygon2d`. -/
def faceIntersectPlaneP (pl : PlaneS α) (poly2 : List (V2 α)) (other : PlaneS α) :
    Option (List (LR3 α)) :=
  match intersect_plane_plane pl other with
  | none => none
  | some (p, v) =>
    let ray := faceCutRay pl p v
    let pts := polygonIntersectLineInfinite poly2 true ray
    if pts.length ≠ 0 then
      some (pairUp ((sortIfMany ray pts).map (plane_xy_to_xyz pl)))
    else none

/-- `Face3D.intersect_plane(plane)` on a face without holes. -/
def faceIntersectPlane (pl : PlaneS α) (vs3 : List (V3 α)) (other : PlaneS α) :
    Option (List (LR3 α)) :=
  faceIntersectPlaneP pl (facePolygon2d pl vs3) other

/-- `Polyface3D.intersect_line_ray(line_ray)`; a face = (plane, polygon2d vertices). -/
def polyfaceIntersectLineRay (faces : List (PlaneS α × List (V2 α))) (isRay : Bool)
    (lr : LR3 α) (tv : V2 α) : List (V3 α) :=
  collect (fun f => faceIntersectLineRayP f.1 f.2 isRay lr tv) faces

/-- `Polyface3D.intersect_plane(plane)` (`extend`). -/
def polyfaceIntersectPlane (faces : List (PlaneS α × List (V2 α))) (other : PlaneS α) :
    List (LR3 α) :=
  faces.foldl (fun out f => match faceIntersectPlaneP f.1 f.2 other with
    | none => out
    | some segs => out ++ segs) []

end Lbg.Model.IsectComposite
