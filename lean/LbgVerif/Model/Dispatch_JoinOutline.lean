/- Driver table for Model/JoinOutline (property C18, outline pipeline). -/
import LbgVerif.Wire
import LbgVerif.Model.JoinOutline

namespace Lbg.Model
open Lean Lbg.Wire Lbg.Gen Lbg.Model.JoinOutline

private def argJO (τ : Type) [Codec τ] (args : Array Json) (i : Nat) : Except String τ :=
  dec (args.getD i Json.null)

/-- `distance_to_point` as the library computes it (`math.sqrt` through IEEE doubles). -/
private def distJO (a b : V2 ℚ) : ℚ := p2_distance_to_point floatOps a b

/-- Squared distance (monotone stand-in for tests of the ordering logic only). -/
private def distSqJO (a b : V2 ℚ) : ℚ := (a.x - b.x) * (a.x - b.x) + (a.y - b.y) * (a.y - b.y)

/-- `model.insert_updates [vertices, [[i, pt], …]]` → vertices;
`model.intersect_segments [poly1, poly2, tol]` → `[poly1', poly2']`;
`model.intersect_polygon_segments [polys, tol]` → polys;
`model.naked_segments [polys, tol]` → `[[p1, p2], …]` (of the polygons as given, no intersection pass);
`model.joined_intersected_boundary [polys, tol]` → polys or `null` (exception);
`model.join_coplanar_faces2 [[[boundary, holes], …], tol]` (plane coordinates) and
`model.join_coplanar_faces [plane, [[boundary3, holes3], …], tol]` → faces or `null`;
`model.group_boundaries_and_holes [areas, inside]`, `model.merge_faces_to_holes [areas, inside]`
(loops are `0 … n-1`, `inside[a][b]` the containment test) → `[[base, holes], …]` or `null`. -/
def dispatchJoinOutline (op : String) (args : Array Json) : Option (Except String Json) :=
  match op with
  | "model.insert_updates" => some (do
      let vs ← argJO (List (V2 ℚ)) args 0
      let ups ← argJO (List (Nat × V2 ℚ)) args 1
      pure (enc (insertUpdates distJO vs ups)))
  | "model.intersect_segments" => some (do
      let p1 ← argJO (List (V2 ℚ)) args 0
      let p2 ← argJO (List (V2 ℚ)) args 1
      let tol ← argJO ℚ args 2
      pure (enc (intersectSegments distJO tol p1 p2)))
  | "model.intersect_polygon_segments" => some (do
      let ps ← argJO (List (List (V2 ℚ))) args 0
      let tol ← argJO ℚ args 1
      pure (enc (intersectPolygonSegments distJO tol ps)))
  | "model.naked_segments" => some (do
      let ps ← argJO (List (List (V2 ℚ))) args 0
      let tol ← argJO ℚ args 1
      pure (enc (nakedSegments (fun a b => v2_is_equivalent a b tol) ps)))
  | "model.joined_intersected_boundary" => some (do
      let ps ← argJO (List (List (V2 ℚ))) args 0
      let tol ← argJO ℚ args 1
      pure (enc (joinedIntersectedBoundary distJO tol ps)))
  | "model.join_coplanar_faces2" => some (do
      let fs ← argJO (List (List (V2 ℚ) × List (List (V2 ℚ)))) args 0
      let tol ← argJO ℚ args 1
      pure (enc (joinCoplanarFaces2 distJO tol fs)))
  | "model.join_coplanar_faces" => some (do
      let pl ← argJO (PlaneS ℚ) args 0
      let fs ← argJO (List (List (V3 ℚ) × List (List (V3 ℚ)))) args 1
      let tol ← argJO ℚ args 2
      pure (enc (joinCoplanarFaces distJO tol pl fs)))
  | "model.group_boundaries_and_holes" => some (do
      let areas ← argJO (List ℚ) args 0
      let ins ← argJO (List (List Bool)) args 1
      pure (enc (groupBoundariesAndHoles (fun i => areas.getD i 0)
        (fun a b => (ins.getD a []).getD b false) (List.range areas.length))))
  | "model.merge_faces_to_holes" => some (do
      let areas ← argJO (List ℚ) args 0
      let ins ← argJO (List (List Bool)) args 1
      pure (enc (mergeFacesToHoles (fun i => areas.getD i 0)
        (fun a b => (ins.getD a []).getD b false) (List.range areas.length))))
  | _ => none

end Lbg.Model
