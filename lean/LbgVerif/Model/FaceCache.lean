/-
  Model.FaceCache — hand-written literal model of the memo-slot machine of `Face3D`
  (`geometry3d/face.py`, base `geometry3d/_2d.py` `Base2DIn3D`), HEAD 310b0a2.

  State `FaceC α`: defining data `_boundary`, `_holes`, `_vertices` (for a face with holes the
  merged single loop, kept as data because `__copy__` and the transforms carry it over instead
  of re-merging), `_plane`; and EVERY memo slot of `__slots__` (own + inherited) as an `Option`:
    with its value:  `_polygon2d` (its vertex list), `_boundary_polygon2d`, `_hole_polygon2d`
                     (vertex lists), `_boundary_segments`, `_hole_segments`, `_mesh2d` (described
                     by the boundary / hole polygons it triangulates), `_perimeter`, `_area`,
                     `_centroid`, `_is_convex`, `_is_self_intersecting`, `_min`, `_max`, `_center`;
    filled/empty only: `_mesh3d` (only `__copy__` carries it; its value is a function of
                     `_mesh2d` and the plane).
  Not modelled: the memo slots INSIDE the cached `Polygon2D` / `Mesh2D` / `Plane` objects (they
  are shared by reference and governed by the Polygon2D / Mesh2D machines of Props/C03,
  C03b), `plane.altitude/azimuth`.

  Which method carries which slot (read off the source):
  * `_transfer_properties` (flip, move, rotate, rotate_xy, reflect, `__copy__`): `_perimeter`,
    `_area`, `_is_convex`, `_is_self_intersecting`.
  * `_face_transform` (move, rotate, rotate_xy) and `__copy__` additionally `_polygon2d`,
    `_mesh2d`; `__copy__` also `_mesh3d`.  `reflect`, `flip`, `scale` drop them.
  * `_transfer_properties_scale` (scale): flags copied, `_perimeter * abs(factor)` (fix a1750ed;
    before: `* factor`), `_area * factor ** 2`; the plane is RECOMPUTED from the scaled vertices
    (`Face3D(verts, None)` → `_plane_from_vertices`).
  * `_min _max _center _centroid _boundary_polygon2d _hole_polygon2d _boundary_segments
    _hole_segments` are never carried by any method.
  * `remove_colinear_vertices` (faces without holes) reads `self.polygon2d` (fills the
    receiver's slot) and builds the result through the constructor: nothing is carried.
  * The centroid is `plane.xy_to_xyz(triangulated_mesh2d.centroid)`; the ear-clipping
    triangulation is not modelled: `Kern.cent2` stands for "centroid of the triangulated
    boundary-minus-holes shape" (theorems are generic in it; `stdKern` is the exact polygon
    centroid formula, which the correspondence compares with the real mesh centroid).
-/
import LbgVerif.Basic
import LbgVerif.Gen.Vec
import LbgVerif.Gen.Line
import LbgVerif.Gen.Plane
import LbgVerif.Gen.Poly
import LbgVerif.Gen.Face
import LbgVerif.Lemmas.Shoelace
import LbgVerif.Model.MeshCache
import LbgVerif.Model.PolylineCache
import LbgVerif.Model.Colinear

namespace Lbg.Model.FaceCache
open Lbg Lbg.Gen Lbg.Lemmas Lbg.Model.MeshCache Lbg.Model.PolylineCache Lbg.Model.Colinear

variable {α : Type} [Field α] [LinearOrder α]

/-- `Face3D` with all its memo slots. -/
structure FaceC (α : Type) where
  boundary : List (V3 α)
  holes : Option (List (List (V3 α)))
  vertices : List (V3 α)
  plane : PlaneS α
  polygon2d : Option (List (V2 α))
  mesh2d : Option (List (V2 α) × Option (List (List (V2 α))))
  mesh3d : Option Opq
  boundary_polygon2d : Option (List (V2 α))
  hole_polygon2d : Option (List (List (V2 α)))
  boundary_segments : Option (List (LR3 α))
  hole_segments : Option (List (List (LR3 α)))
  perimeter : Option α
  area : Option α
  centroid : Option (V3 α)
  is_convex : Option Bool
  is_self_intersecting : Option Bool
  min : Option (V3 α)
  max : Option (V3 α)
  center : Option (V3 α)

/-- The one computation the model does not transcribe: `Mesh2D.centroid` of
`Mesh2D.from_polygon_triangulated(boundary_polygon2d, hole_polygon2d)`. -/
structure Kern (α : Type) where
  cent2 : List (V2 α) → Option (List (List (V2 α))) → V2 α

/-! ### Fresh values (what a newly built `Face3D(boundary, plane, holes)` with the same
`_vertices` computes) -/

/-- `tuple(self._plane.xyz_to_xy(_v) for _v in pts)`. -/
def to2d (pl : PlaneS α) (pts : List (V3 α)) : List (V2 α) := pts.map (plane_xyz_to_xy pl)

def poly2dOf (s : FaceC α) : List (V2 α) := to2d s.plane s.vertices
def bpoly2dOf (s : FaceC α) : List (V2 α) := to2d s.plane s.boundary
def hpoly2dOf (s : FaceC α) : Option (List (List (V2 α))) := s.holes.map (·.map (to2d s.plane))

/-- The closed-loop segment list of `boundary_segments` / `hole_segments` (and of
`Polygon2D._segments_from_vertices`): `from_end_points(loop[i - 1], loop[i])` for every `i`,
then `_segs.append(_segs.pop(0))`. -/
def loopSegs3 (loop : List (V3 α)) : List (LR3 α) :=
  ((cyclicPairs loop).map (fun pq => seg3_from_end_points pq.1 pq.2)).rotate 1

def loopSegs2 (loop : List (V2 α)) : List (LR2 α) :=
  ((cyclicPairs loop).map (fun pq => seg2_from_end_points pq.1 pq.2)).rotate 1

def bsegsOf (s : FaceC α) : List (LR3 α) := loopSegs3 s.boundary
def hsegsOf (s : FaceC α) : Option (List (List (LR3 α))) := s.holes.map (·.map loopSegs3)

/-- `sum([seg.length …boundary])`, then `+= sum([seg.length …hole])` per hole. -/
def perimOfSegs (M : MathOps α) (b : List (LR3 α)) (h : Option (List (List (LR3 α)))) : α :=
  match h with
  | none => lengthOf3 M b
  | some hs => hs.foldl (fun acc hole => acc + lengthOf3 M hole) (lengthOf3 M b)

def perimOf (M : MathOps α) (s : FaceC α) : α := perimOfSegs M (bsegsOf s) (hsegsOf s)

/-- `Polygon2D.is_convex` (fresh polygon): triangle → True; else no turn against the
orientation (`is_clockwise` = signed area `< 0`) among consecutive segment directions. -/
def isConvex2 (vs : List (V2 α)) : Bool :=
  if vs.length = 3 then true
  else
    let segs := loopSegs2 vs
    if polygon2d_is_clockwise vs then
      !(cyclicPairs segs).any (fun ab => decide (0 < V2.det ab.1.v ab.2.v))
    else
      !(cyclicPairs segs).any (fun ab => decide (V2.det ab.1.v ab.2.v < 0))

/-- `Polygon2D.is_self_intersecting` (fresh polygon): the same loops as for polylines, over the
closed segment list. -/
def polySelfInt2 (vs : List (V2 α)) : Bool := selfIntSegs (loopSegs2 vs)

/-- `Face3D.is_self_intersecting` from the boundary / hole polygons. -/
def selfIntOfPolys (b : List (V2 α)) (h : Option (List (List (V2 α)))) : Bool :=
  polySelfInt2 b || (match h with | none => false | some hs => hs.any polySelfInt2)

def areaOf (s : FaceC α) : α := polygon2d_area (poly2dOf s)
def convexOf (s : FaceC α) : Bool := isConvex2 (poly2dOf s)
def selfIntOf (s : FaceC α) : Bool := selfIntOfPolys (bpoly2dOf s) (hpoly2dOf s)
def mesh2dOf (s : FaceC α) : List (V2 α) × Option (List (List (V2 α))) := (bpoly2dOf s, hpoly2dOf s)
def centroidOf (K : Kern α) (s : FaceC α) : V3 α :=
  plane_xy_to_xyz s.plane (K.cent2 (bpoly2dOf s) (hpoly2dOf s))
/-- `Face3D._calculate_min_max` runs over `self.boundary`. -/
def minMaxOf (s : FaceC α) : V3 α × V3 α := calcMinMax3 s.boundary

/-- Exact centroid of boundary minus holes (orientation independent), used by the driver for
`Kern.cent2`: `Σ ±cx / (3 Σ ±shoelace)`. -/
def stdCent2 (b : List (V2 α)) (h : Option (List (List (V2 α)))) : V2 α :=
  let w (l : List (V2 α)) : α × α × α :=
    if shoelace l < 0 then (-(cx l), -(cy l), -(shoelace l)) else (cx l, cy l, shoelace l)
  let hs := h.getD []
  let tot := hs.foldl (fun (acc : α × α × α) l =>
    (acc.1 - (w l).1, acc.2.1 - (w l).2.1, acc.2.2 - (w l).2.2)) (w b)
  ⟨tot.1 / (3 * tot.2.2), tot.2.1 / (3 * tot.2.2)⟩

def stdKern : Kern α := ⟨stdCent2⟩

/-! ### Constructor -/

/-- `Face3D(verts, plane, enforce_right_hand=False)` (no holes): every memo slot `None`. -/
def mkFace (verts : List (V3 α)) (pl : PlaneS α) : FaceC α :=
  { boundary := verts, holes := none, vertices := verts, plane := pl,
    polygon2d := none, mesh2d := none, mesh3d := none, boundary_polygon2d := none,
    hole_polygon2d := none, boundary_segments := none, hole_segments := none,
    perimeter := none, area := none, centroid := none, is_convex := none,
    is_self_intersecting := none, min := none, max := none, center := none }

/-- A newly built face with the given defining data and empty memo slots (the reference
object of C03). -/
def freshFace (b : List (V3 α)) (h : Option (List (List (V3 α)))) (vs : List (V3 α))
    (pl : PlaneS α) : FaceC α :=
  { mkFace vs pl with boundary := b, holes := h }

/-- `Face3D._plane_from_vertices`: fan of `_normal_from_3pts(verts[0], verts[i+1], verts[i+2])`
summed, normalised (or `(0, 0, 1)` when the sum is zero), `Plane(normal, verts[0])`. -/
def planeFromVerts (M : MathOps α) (verts : List (V3 α)) : PlaneS α :=
  let base := verts.headD ⟨0, 0, 0⟩
  let nrm := ((verts.tail.zip verts.tail.tail).foldl (fun (acc : V3 α) pq =>
    let c := face3d_normal_from_3pts base pq.1 pq.2
    (⟨acc.x + c.x, acc.y + c.y, acc.z + c.z⟩ : V3 α)) ⟨0, 0, 0⟩)
  let nv : V3 α :=
    if nrm = ⟨0, 0, 0⟩ then ⟨0, 0, 1⟩
    else
      let ds := M.sqrt (nrm.x ^ 2 + nrm.y ^ 2 + nrm.z ^ 2)
      ⟨nrm.x / ds, nrm.y / ds, nrm.z / ds⟩
  plane_init M nv base

/-! ### Memoising getters -/

def readPolygon2d (s : FaceC α) : List (V2 α) × FaceC α :=
  match s.polygon2d with
  | some p => (p, s)
  | none => let p := poly2dOf s; (p, { s with polygon2d := some p })

def readBoundaryPolygon2d (s : FaceC α) : List (V2 α) × FaceC α :=
  match s.boundary_polygon2d with
  | some p => (p, s)
  | none => let p := bpoly2dOf s; (p, { s with boundary_polygon2d := some p })

/-- `hole_polygon2d`: computed only `if self._holes is not None`; returns the slot (possibly
`None`). -/
def readHolePolygon2d (s : FaceC α) : Option (List (List (V2 α))) × FaceC α :=
  match s.holes, s.hole_polygon2d with
  | some _, none => let h := hpoly2dOf s; (h, { s with hole_polygon2d := h })
  | _, hp => (hp, s)

def readBoundarySegments (s : FaceC α) : List (LR3 α) × FaceC α :=
  match s.boundary_segments with
  | some l => (l, s)
  | none => let l := bsegsOf s; (l, { s with boundary_segments := some l })

def readHoleSegments (s : FaceC α) : Option (List (List (LR3 α))) × FaceC α :=
  match s.holes, s.hole_segments with
  | some _, none => let h := hsegsOf s; (h, { s with hole_segments := h })
  | _, hs => (hs, s)

/-- `Face3D.perimeter`: the boundary-segments getter, and `if self._holes is not None` the
hole-segments getter. -/
def readPerimeter (M : MathOps α) (s : FaceC α) : α × FaceC α :=
  match s.perimeter with
  | some a => (a, s)
  | none =>
    let r1 := readBoundarySegments s
    match r1.2.holes with
    | none =>
      let a := perimOfSegs M r1.1 none
      (a, { r1.2 with perimeter := some a })
    | some _ =>
      let r2 := readHoleSegments r1.2
      let a := perimOfSegs M r1.1 r2.1
      (a, { r2.2 with perimeter := some a })

/-- `Face3D.area = self.polygon2d.area`. -/
def readArea (s : FaceC α) : α × FaceC α :=
  match s.area with
  | some a => (a, s)
  | none =>
    let r := readPolygon2d s
    let a := polygon2d_area r.1
    (a, { r.2 with area := some a })

/-- `Face3D.is_convex = self.polygon2d.is_convex`. -/
def readIsConvex (s : FaceC α) : Bool × FaceC α :=
  match s.is_convex with
  | some b => (b, s)
  | none =>
    let r := readPolygon2d s
    let b := isConvex2 r.1
    (b, { r.2 with is_convex := some b })

/-- `Face3D.is_self_intersecting`: boundary polygon getter; `if self.has_holes` the hole
polygons getter. -/
def readSelfInt (s : FaceC α) : Bool × FaceC α :=
  match s.is_self_intersecting with
  | some b => (b, s)
  | none =>
    let r1 := readBoundaryPolygon2d s
    match r1.2.holes with
    | none =>
      let b := selfIntOfPolys r1.1 none
      (b, { r1.2 with is_self_intersecting := some b })
    | some _ =>
      let r2 := readHolePolygon2d r1.2
      let b := selfIntOfPolys r1.1 r2.1
      (b, { r2.2 with is_self_intersecting := some b })

/-- `Face3D.triangulated_mesh2d`: `from_polygon_triangulated(self.boundary_polygon2d,
self.hole_polygon2d)` — both getters run. -/
def readMesh2d (s : FaceC α) : (List (V2 α) × Option (List (List (V2 α)))) × FaceC α :=
  match s.mesh2d with
  | some m => (m, s)
  | none =>
    let r1 := readBoundaryPolygon2d s
    let r2 := readHolePolygon2d r1.2
    let m := (r1.1, r2.1)
    (m, { r2.2 with mesh2d := some m })

/-- `Face3D.triangulated_mesh3d` (through the `triangulated_mesh2d` getter). -/
def readMesh3d (s : FaceC α) : FaceC α :=
  match s.mesh3d with
  | some _ => s
  | none => { (readMesh2d s).2 with mesh3d := some () }

/-- `Face3D.centroid = plane.xy_to_xyz(self.triangulated_mesh2d.centroid)`. -/
def readCentroid (K : Kern α) (s : FaceC α) : V3 α × FaceC α :=
  match s.centroid with
  | some c => (c, s)
  | none =>
    let r := readMesh2d s
    let c := plane_xy_to_xyz s.plane (K.cent2 r.1.1 r.1.2)
    (c, { r.2 with centroid := some c })

def readMin (s : FaceC α) : V3 α × FaceC α :=
  match s.min with
  | some m => (m, s)
  | none => let mm := minMaxOf s; (mm.1, { s with min := some mm.1, max := some mm.2 })

def readMax (s : FaceC α) : V3 α × FaceC α :=
  match s.max with
  | some m => (m, s)
  | none => let mm := minMaxOf s; (mm.2, { s with min := some mm.1, max := some mm.2 })

def readCenter (s : FaceC α) : V3 α × FaceC α :=
  match s.center with
  | some c => (c, s)
  | none =>
    let r1 := readMin s
    let r2 := readMax r1.2
    let c : V3 α := ⟨(r1.1.x + r2.1.x) / 2, (r1.1.y + r2.1.y) / 2, (r1.1.z + r2.1.z) / 2⟩
    (c, { r2.2 with center := some c })

/-! ### Methods returning a new face -/

/-- `self._transfer_properties(new_face)`. -/
def transferProps (s t : FaceC α) : FaceC α :=
  { t with perimeter := s.perimeter, area := s.area, is_convex := s.is_convex,
           is_self_intersecting := s.is_self_intersecting }

/-- `if self._holes is not None: new._boundary = f(self._boundary); new._holes = …`. -/
def setLoops (s t : FaceC α) (fb : List (V3 α) → List (V3 α))
    (fh : List (V3 α) → List (V3 α)) : FaceC α :=
  match s.holes with
  | none => t
  | some hs => { t with boundary := fb s.boundary, holes := some (hs.map fh) }

/-- `move` / `rotate` / `rotate_xy`: `_face_transform(map g vertices, plane')` + loops. -/
def rigid (s : FaceC α) (g : V3 α → V3 α) (pg : PlaneS α → PlaneS α) : FaceC α :=
  let t := transferProps s (mkFace (s.vertices.map g) (pg s.plane))
  setLoops s { t with polygon2d := s.polygon2d, mesh2d := s.mesh2d } (·.map g) (·.map g)

/-- `reflect`: `_reflect` maps AND reverses every loop; `_face_transform_reflect`. -/
def reflect (s : FaceC α) (g : V3 α → V3 α) (pg : PlaneS α → PlaneS α) : FaceC α :=
  let t := transferProps s (mkFace (s.vertices.reverse.map g) (pg s.plane))
  setLoops s t (·.reverse.map g) (·.reverse.map g)

/-- `flip`: reversed vertices, `plane.flip()`; with holes the boundary is reversed, the
holes are kept as they are. -/
def flip (M : MathOps α) (s : FaceC α) : FaceC α :=
  let t := transferProps s (mkFace s.vertices.reverse (plane_flip M s.plane))
  setLoops s t (·.reverse) id

/-- `_transfer_properties_scale`. -/
def transferPropsScale (s t : FaceC α) (k : α) : FaceC α :=
  { t with is_convex := s.is_convex, is_self_intersecting := s.is_self_intersecting,
           perimeter := s.perimeter.map (· * |k|), area := s.area.map (· * k ^ 2) }

/-- `scale(factor, origin)` with the point map `g` (`pt.scale(k, o)` or `Point3D(x*k, …)`):
the plane is recomputed from the scaled vertices. -/
def scaleWith (M : MathOps α) (s : FaceC α) (k : α) (g : V3 α → V3 α) : FaceC α :=
  let verts := s.vertices.map g
  let t := transferPropsScale s (mkFace verts (planeFromVerts M verts)) k
  setLoops s t (·.map g) (·.map g)

def scale (M : MathOps α) (s : FaceC α) (k : α) (o : V3 α) : FaceC α :=
  scaleWith M s k (fun p => p3_scale p k o)
def scaleWorld (M : MathOps α) (s : FaceC α) (k : α) : FaceC α :=
  scaleWith M s k (fun p => p3_scale_world p k)

/-- `__copy__`: same defining data; `_transfer_properties` + `_polygon2d _mesh2d _mesh3d`. -/
def duplicate (s : FaceC α) : FaceC α :=
  let t := transferProps s (freshFace s.boundary s.holes s.vertices s.plane)
  { t with polygon2d := s.polygon2d, mesh2d := s.mesh2d, mesh3d := s.mesh3d }

/-- `remove_colinear_vertices(tol)` of a face WITHOUT holes: the receiver's `polygon2d`
getter runs; the result (second component; `none` = the scan's `assert` fails) is built by the
constructor from the kept vertices and the same plane. -/
def removeColinear (s : FaceC α) (tol : α) : FaceC α × Option (FaceC α) :=
  let r := readPolygon2d s
  (r.2, (removeColinearPolygonIdx tol r.1).map
    (fun idx => mkFace (verts ⟨0, 0, 0⟩ s.vertices idx) s.plane))

inductive Op (α : Type) where
  | readPolygon2d | readBoundaryPolygon2d | readHolePolygon2d | readBoundarySegments
  | readHoleSegments | readPerimeter | readArea | readIsConvex | readSelfInt | readMesh2d
  | readMesh3d | readCentroid | readMin | readMax | readCenter
  | duplicate | flip
  | rigid (g : V3 α → V3 α) (pg : PlaneS α → PlaneS α)
  | reflect (g : V3 α → V3 α) (pg : PlaneS α → PlaneS α)
  | scale (k : α) (o : V3 α)
  | scaleWorld (k : α)
  | removeColinear (tol : α)

/-- One step of a history (for `removeColinear` the history continues on the RESULT; when
its `assert` fails the receiver — with `polygon2d` read — is kept). -/
def step (K : Kern α) (M : MathOps α) (s : FaceC α) : Op α → FaceC α
  | .readPolygon2d => (readPolygon2d s).2
  | .readBoundaryPolygon2d => (readBoundaryPolygon2d s).2
  | .readHolePolygon2d => (readHolePolygon2d s).2
  | .readBoundarySegments => (readBoundarySegments s).2
  | .readHoleSegments => (readHoleSegments s).2
  | .readPerimeter => (readPerimeter M s).2
  | .readArea => (readArea s).2
  | .readIsConvex => (readIsConvex s).2
  | .readSelfInt => (readSelfInt s).2
  | .readMesh2d => (readMesh2d s).2
  | .readMesh3d => readMesh3d s
  | .readCentroid => (readCentroid K s).2
  | .readMin => (readMin s).2
  | .readMax => (readMax s).2
  | .readCenter => (readCenter s).2
  | .duplicate => duplicate s
  | .flip => flip M s
  | .rigid g pg => rigid s g pg
  | .reflect g pg => reflect s g pg
  | .scale k o => scale M s k o
  | .scaleWorld k => scaleWorld M s k
  | .removeColinear tol =>
    match (removeColinear s tol).2 with
    | some t => t
    | none => (removeColinear s tol).1

end Lbg.Model.FaceCache
