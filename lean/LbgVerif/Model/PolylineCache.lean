/-
  Model.PolylineCache — hand-written literal models of the memo-slot machines of
  `Polyline2D` (`geometry2d/polyline.py`, base `geometry2d/_2d.py` `Base2DIn2D`) and
  `Polyline3D` (`geometry3d/polyline.py`, base `geometry3d/_2d.py` `Base2DIn3D`).

  State = defining data (`_vertices`, `_interpolated`) + EVERY memo slot of `__slots__`
  (own and inherited) as an `Option` holding its value:
    Polyline2D: `_min _max _center` (Base2DIn2D), `_segments _length _is_self_intersecting`;
    Polyline3D: `_min _max _center` (Base2DIn3D), `_segments _length`.

  What the code does with the slots (read off the source, HEAD 310b0a2):
  * `_transfer_properties` (used by `reverse`, `move`, `rotate`, `rotate_xy`, `reflect`) copies
    `_interpolated`, `_length` (and `_is_self_intersecting` in 2D); nothing else.
  * `scale` copies `_interpolated` ONLY (the cached length is dropped, not multiplied).
  * `remove_colinear_vertices` copies `_interpolated` only (since fix 83959c4; before it copied
    `_length`, which is stale when a spike or a near-colinear vertex is removed), and returns
    `self` (all caches kept: same object) when there are exactly 3 vertices.
  * `__copy__` / `duplicate` copies `_interpolated` only.
  * `_min/_max/_center/_segments` are never transferred.
  * `length` and `is_self_intersecting` go through the `segments` GETTER, so they fill
    `_segments` as a side effect; `center` goes through the `min`/`max` getters; the `min`
    getter (when `_min is None`) overwrites BOTH `_min` and `_max`.
  * `Polyline3D.to_polyline2d`, `Polyline3D.from_polyline2d`, `Polyline2D.to_polygon`,
    `from_polygon`, `offset`, `join_segments`, `split_with_plane` build objects through the
    constructor and transfer no memo slot (only `interpolated`): `toPolyline2d`,
    `fromPolyline2d` below; the others are not modelled.
-/
import LbgVerif.Basic
import LbgVerif.Gen.Vec
import LbgVerif.Gen.Line
import LbgVerif.Gen.Isect2
import LbgVerif.Gen.Plane
import LbgVerif.Model.MeshCache
import LbgVerif.Model.Colinear

namespace Lbg.Model.PolylineCache
open Lbg Lbg.Gen Lbg.Model.MeshCache Lbg.Model.Colinear

variable {α : Type} [Field α] [LinearOrder α]

/-! ## Polyline2D -/

/-- `Polyline2D` with all its memo slots. -/
structure PL2 (α : Type) where
  vertices : List (V2 α)
  interpolated : Bool
  min : Option (V2 α)
  max : Option (V2 α)
  center : Option (V2 α)
  segments : Option (List (LR2 α))
  length : Option α
  is_self_intersecting : Option Bool

/-- `tuple(LineSegment2D.from_end_points(vert, self._vertices[i + 1])
for i, vert in enumerate(self._vertices[:-1]))`. -/
def segs2 (vs : List (V2 α)) : List (LR2 α) :=
  (vs.zip vs.tail).map (fun pq => seg2_from_end_points pq.1 pq.2)

/-- `sum([seg.length for seg in segments])`. -/
def lengthOf2 (M : MathOps α) (segs : List (LR2 α)) : α := pySum (segs.map (seg2_length M))

/-- Fresh value of `Polyline2D.length`. -/
def length2 (M : MathOps α) (vs : List (V2 α)) : α := lengthOf2 M (segs2 vs)

/-- The two nested loops of `Polyline2D.is_self_intersecting` over `_segs = self.segments`:
`for i, _s in enumerate(_segs[1: len(_segs) - 1])`, others `= [x for j, x in enumerate(_segs)
if j not in (i, i + 1, i + 2)]`, hit when `_s.intersect_line_ray(_oth_s) is not None`
(`intersect_line2d`, both arguments segments). -/
def selfIntSegs (segs : List (LR2 α)) : Bool :=
  (((segs.drop 1).take (segs.length - 2)).zipIdx).any (fun si =>
    (segs.zipIdx.filter (fun oj => oj.2 != si.2 && oj.2 != si.2 + 1 && oj.2 != si.2 + 2)).any
      (fun oj => (intersect_line2d_ss si.1 oj.1).isSome))

/-- Fresh value of `Polyline2D.is_self_intersecting`. -/
def selfInt2 (vs : List (V2 α)) : Bool := selfIntSegs (segs2 vs)

/-- `Polyline2D(vertices, interpolated)`: every memo slot `None`. -/
def fresh2 (vs : List (V2 α)) (interp : Bool) : PL2 α :=
  { vertices := vs, interpolated := interp, min := none, max := none, center := none,
    segments := none, length := none, is_self_intersecting := none }

/-! ### Memoising getters (value, receiver's new slot state) -/

/-- `Polyline2D.segments`. -/
def readSegments2 (s : PL2 α) : List (LR2 α) × PL2 α :=
  match s.segments with
  | some l => (l, s)
  | none => let l := segs2 s.vertices; (l, { s with segments := some l })

/-- `Polyline2D.length` (through the `segments` getter). -/
def readLength2 (M : MathOps α) (s : PL2 α) : α × PL2 α :=
  match s.length with
  | some a => (a, s)
  | none =>
    let r := readSegments2 s
    let a := lengthOf2 M r.1
    (a, { r.2 with length := some a })

/-- `Polyline2D.is_self_intersecting` (through the `segments` getter). -/
def readSelfInt2 (s : PL2 α) : Bool × PL2 α :=
  match s.is_self_intersecting with
  | some b => (b, s)
  | none =>
    let r := readSegments2 s
    let b := selfIntSegs r.1
    (b, { r.2 with is_self_intersecting := some b })

/-- `Base2DIn2D.min`: `_calculate_min_max` sets BOTH `_min` and `_max`. -/
def readMin2 (s : PL2 α) : V2 α × PL2 α :=
  match s.min with
  | some m => (m, s)
  | none => let mm := calcMinMax s.vertices; (mm.1, { s with min := some mm.1, max := some mm.2 })

/-- `Base2DIn2D.max`. -/
def readMax2 (s : PL2 α) : V2 α × PL2 α :=
  match s.max with
  | some m => (m, s)
  | none => let mm := calcMinMax s.vertices; (mm.2, { s with min := some mm.1, max := some mm.2 })

/-- `Base2DIn2D.center`: `min, max = self.min, self.max` (the getters), then the midpoint. -/
def readCenter2 (s : PL2 α) : V2 α × PL2 α :=
  match s.center with
  | some c => (c, s)
  | none =>
    let r1 := readMin2 s
    let r2 := readMax2 r1.2
    let c : V2 α := ⟨(r1.1.x + r2.1.x) / 2, (r1.1.y + r2.1.y) / 2⟩
    (c, { r2.2 with center := some c })

/-! ### Methods returning a new polyline -/

/-- `_new_poly = Polyline2D(verts); self._transfer_properties(_new_poly)`. -/
def transfer2 (s : PL2 α) (verts : List (V2 α)) : PL2 α :=
  { fresh2 verts s.interpolated with
    length := s.length, is_self_intersecting := s.is_self_intersecting }

/-- `move` / `rotate` / `reflect`: `g` is the point map (`pt.move(v)`, `pt.rotate(a, o)`,
`pt.reflect(n, o)`). -/
def rigid2 (s : PL2 α) (g : V2 α → V2 α) : PL2 α := transfer2 s (s.vertices.map g)

/-- `Polyline2D.reverse`. -/
def reverse2 (s : PL2 α) : PL2 α := transfer2 s s.vertices.reverse

/-- `Polyline2D.scale(factor, origin)`: only `_interpolated` is copied. -/
def scale2 (s : PL2 α) (k : α) (o : V2 α) : PL2 α :=
  fresh2 (s.vertices.map (fun p => p2_scale p k o)) s.interpolated

/-- `Polyline2D.scale(factor)` (`origin=None`). -/
def scaleWorld2 (s : PL2 α) (k : α) : PL2 α :=
  fresh2 (s.vertices.map (fun p => p2_scale_world p k)) s.interpolated

/-- `Polyline2D.__copy__`. -/
def duplicate2 (s : PL2 α) : PL2 α := fresh2 s.vertices s.interpolated

/-- `Polyline2D.remove_colinear_vertices(tol)`: `self` for 3 vertices, else a new polyline
carrying `_interpolated` only (vertex scan: `Model/Colinear.lean`). -/
def removeColinear2 (s : PL2 α) (tol : α) : PL2 α :=
  if s.vertices.length = 3 then s
  else fresh2 (removeColinearPolyline2 tol s.vertices) s.interpolated

inductive Op2 (α : Type) where
  | readSegments | readLength | readSelfInt | readMin | readMax | readCenter
  | duplicate | reverse
  | rigid (g : V2 α → V2 α)
  | scale (k : α) (o : V2 α)
  | scaleWorld (k : α)
  | removeColinear (tol : α)

def step2 (M : MathOps α) (s : PL2 α) : Op2 α → PL2 α
  | .readSegments => (readSegments2 s).2
  | .readLength => (readLength2 M s).2
  | .readSelfInt => (readSelfInt2 s).2
  | .readMin => (readMin2 s).2
  | .readMax => (readMax2 s).2
  | .readCenter => (readCenter2 s).2
  | .duplicate => duplicate2 s
  | .reverse => reverse2 s
  | .rigid g => rigid2 s g
  | .scale k o => scale2 s k o
  | .scaleWorld k => scaleWorld2 s k
  | .removeColinear tol => removeColinear2 s tol

/-! ## Polyline3D -/

/-- `Polyline3D` with all its memo slots. -/
structure PL3 (α : Type) where
  vertices : List (V3 α)
  interpolated : Bool
  min : Option (V3 α)
  max : Option (V3 α)
  center : Option (V3 α)
  segments : Option (List (LR3 α))
  length : Option α

def segs3 (vs : List (V3 α)) : List (LR3 α) :=
  (vs.zip vs.tail).map (fun pq => seg3_from_end_points pq.1 pq.2)

def lengthOf3 (M : MathOps α) (segs : List (LR3 α)) : α := pySum (segs.map (seg3_length M))

/-- Fresh value of `Polyline3D.length`. -/
def length3 (M : MathOps α) (vs : List (V3 α)) : α := lengthOf3 M (segs3 vs)

/-- `Base2DIn3D._calculate_min_max` (with its `if … elif …` update). -/
def calcMinMax3 (vs : List (V3 α)) : V3 α × V3 α :=
  match vs with
  | [] => (⟨0, 0, 0⟩, ⟨0, 0, 0⟩)
  | v0 :: rest =>
    rest.foldl (fun (st : V3 α × V3 α) (v : V3 α) =>
      let mn := st.1
      let mx := st.2
      let x : α × α := if v.x < mn.x then (v.x, mx.x) else if v.x > mx.x then (mn.x, v.x)
        else (mn.x, mx.x)
      let y : α × α := if v.y < mn.y then (v.y, mx.y) else if v.y > mx.y then (mn.y, v.y)
        else (mn.y, mx.y)
      let z : α × α := if v.z < mn.z then (v.z, mx.z) else if v.z > mx.z then (mn.z, v.z)
        else (mn.z, mx.z)
      ((⟨x.1, y.1, z.1⟩ : V3 α), (⟨x.2, y.2, z.2⟩ : V3 α))) (v0, v0)

def fresh3 (vs : List (V3 α)) (interp : Bool) : PL3 α :=
  { vertices := vs, interpolated := interp, min := none, max := none, center := none,
    segments := none, length := none }

def readSegments3 (s : PL3 α) : List (LR3 α) × PL3 α :=
  match s.segments with
  | some l => (l, s)
  | none => let l := segs3 s.vertices; (l, { s with segments := some l })

def readLength3 (M : MathOps α) (s : PL3 α) : α × PL3 α :=
  match s.length with
  | some a => (a, s)
  | none =>
    let r := readSegments3 s
    let a := lengthOf3 M r.1
    (a, { r.2 with length := some a })

def readMin3 (s : PL3 α) : V3 α × PL3 α :=
  match s.min with
  | some m => (m, s)
  | none => let mm := calcMinMax3 s.vertices; (mm.1, { s with min := some mm.1, max := some mm.2 })

def readMax3 (s : PL3 α) : V3 α × PL3 α :=
  match s.max with
  | some m => (m, s)
  | none => let mm := calcMinMax3 s.vertices; (mm.2, { s with min := some mm.1, max := some mm.2 })

def readCenter3 (s : PL3 α) : V3 α × PL3 α :=
  match s.center with
  | some c => (c, s)
  | none =>
    let r1 := readMin3 s
    let r2 := readMax3 r1.2
    let c : V3 α := ⟨(r1.1.x + r2.1.x) / 2, (r1.1.y + r2.1.y) / 2, (r1.1.z + r2.1.z) / 2⟩
    (c, { r2.2 with center := some c })

/-- `_new_poly = Polyline3D(verts); self._transfer_properties(_new_poly)`. -/
def transfer3 (s : PL3 α) (verts : List (V3 α)) : PL3 α :=
  { fresh3 verts s.interpolated with length := s.length }

/-- `move` / `rotate` / `rotate_xy` / `reflect`. -/
def rigid3 (s : PL3 α) (g : V3 α → V3 α) : PL3 α := transfer3 s (s.vertices.map g)
def reverse3 (s : PL3 α) : PL3 α := transfer3 s s.vertices.reverse
def scale3 (s : PL3 α) (k : α) (o : V3 α) : PL3 α :=
  fresh3 (s.vertices.map (fun p => p3_scale p k o)) s.interpolated
def scaleWorld3 (s : PL3 α) (k : α) : PL3 α :=
  fresh3 (s.vertices.map (fun p => p3_scale_world p k)) s.interpolated
def duplicate3 (s : PL3 α) : PL3 α := fresh3 s.vertices s.interpolated
def removeColinear3 (s : PL3 α) (tol : α) : PL3 α :=
  if s.vertices.length = 3 then s
  else fresh3 (removeColinearPolyline3 tol s.vertices) s.interpolated

/-- `Polyline3D.to_polyline2d()`: `Polyline2D((Point2D(pt.x, pt.y) …), self.interpolated)`. -/
def toPolyline2d (s : PL3 α) : PL2 α :=
  fresh2 (s.vertices.map (fun p => (⟨p.x, p.y⟩ : V2 α))) s.interpolated

/-- `Polyline3D.from_polyline2d(polyline2d, plane)`. -/
def fromPolyline2d (pl : PlaneS α) (s : PL2 α) : PL3 α :=
  fresh3 (s.vertices.map (plane_xy_to_xyz pl)) s.interpolated

inductive Op3 (α : Type) where
  | readSegments | readLength | readMin | readMax | readCenter
  | duplicate | reverse
  | rigid (g : V3 α → V3 α)
  | scale (k : α) (o : V3 α)
  | scaleWorld (k : α)
  | removeColinear (tol : α)

def step3 (M : MathOps α) (s : PL3 α) : Op3 α → PL3 α
  | .readSegments => (readSegments3 s).2
  | .readLength => (readLength3 M s).2
  | .readMin => (readMin3 s).2
  | .readMax => (readMax3 s).2
  | .readCenter => (readCenter3 s).2
  | .duplicate => duplicate3 s
  | .reverse => reverse3 s
  | .rigid g => rigid3 s g
  | .scale k o => scale3 s k o
  | .scaleWorld k => scaleWorld3 s k
  | .removeColinear tol => removeColinear3 s tol

end Lbg.Model.PolylineCache
