/-
  Model.SubRects — literal hand models (C19) of

  * `Face3D.sub_rects_from_rect_ratio`      (geometry3d/face.py l.2035-2158)
  * `Face3D.sub_rects_from_rect_dimensions` (geometry3d/face.py l.2161-2249)
  * `Face3D.sub_faces_by_ratio_rectangle`   (l.1792-1823) on a parent whose clean boundary is a
    rectangle with a horizontal bottom and top edge (`extract_rectangle` l.1970-2020 →
    `get_top_bottom_horizontal_edges` l.1920 → `_split_with_rectangle` l.3079 with no left-over
    faces)
  * `Polygon2D.offset`                      (geometry2d/polygon.py l.797-845, the loop without
    the optional `check_intersection` pass)

  together with the library routines they call that have no generated kernel:
  `LineSegment3D.from_sdl`, `LineSegment3D.subdivide_evenly` (the `while parameter <= 1` loop
  with the accumulated parameter, run with explicit fuel), Python's `round` (half to even, through
  `M.floor`), `Vector2D.angle` with its `ValueError` fallback, `angle_clockwise`,
  `angle_counterclockwise`, and the `enforce_right_hand` step of `Face3D.__init__`.

  Decimal literals are read as exact rationals (`0.98 = 49/50`, `0.99 = 99/100`, `0.01 = 1/100`,
  `0.02 = 1/50`, `1.02 = 51/50`).  Every `*Core` function is the straight-line transcription with
  total division; the wrapper of the same name without `Core` first replays, in program order,
  the conditions under which the Python code raises (`ZeroDivisionError`, the
  `assert number > 0` of `subdivide_evenly`).

  NOT modelled: `remove_colinear_vertices` (the model is given the clean boundary),
  `point_relationship` / `is_self_intersecting` checks of `_split_with_rectangle` (they cannot
  fail for a rectangle), left-over faces (the model answers `none` when there are any),
  infinities / NaN.
-/
import LbgVerif.Basic
import LbgVerif.Gen.Vec
import LbgVerif.Gen.Line
import LbgVerif.Gen.Plane
import LbgVerif.Gen.Poly
import LbgVerif.Gen.Isect3
import LbgVerif.Model.Offset

namespace Lbg.Model
open Lbg Lbg.Gen

variable {α : Type} [Field α] [LinearOrder α]

/-! ## Small library routines -/

/-- `Vector3D.__mul__(number)`. -/
def v3Mul (v : V3 α) (k : α) : V3 α := ⟨v.x * k, v.y * k, v.z * k⟩

/-- `Vector3D.__truediv__(number)`. -/
def v3Div (v : V3 α) (k : α) : V3 α := ⟨v.x / k, v.y / k, v.z / k⟩

/-- Python `round(x)` / `round(x, 0)`: nearest integer, ties to the even one. -/
def pyRound (M : MathOps α) (x : α) : α :=
  let f := M.floor x
  let d := x - f
  if d < 1 / 2 then f
  else if 1 / 2 < d then f + 1
  else if M.floor (f / 2) * 2 = f then f else f + 1

/-- `LineSegment3D.from_sdl(s, d, length)`: `cls(s, d * length / d.magnitude)`. -/
def seg3FromSdl (M : MathOps α) (s d : V3 α) (length : α) : LR3 α :=
  ⟨s, v3Div (v3Mul d length) (v3_magnitude M d)⟩

/-- The `while parameter <= 1:` loop of `subdivide_evenly`
(`sub_pts.append(self.point_at(parameter)); parameter += interval`), with fuel. -/
def subdivLoop (l : LR3 α) (interval : α) : Nat → α → List (V3 α) → List (V3 α)
  | 0, _, acc => acc
  | fuel + 1, param, acc =>
    if param ≤ 1 then
      subdivLoop l interval fuel (param + interval) (acc ++ [seg3_point_at l param])
    else acc

/-- `LineSegment3D.subdivide_evenly(number)` after its `assert number > 0`. -/
def subdivideEvenly (fuel : Nat) (l : LR3 α) (number : α) : List (V3 α) :=
  let interval := 1 / number
  let subPts := subdivLoop l interval fuel interval [l.p]
  if ((subPts.length : ℕ) : α) ≠ number + 1 then subPts ++ [seg3_p2 l] else subPts

/-- `tuple(LineSegment3D.from_end_points(pt, pts[i + 1]) for i, pt in enumerate(pts[:-1]))`. -/
def segsOfPts (pts : List (V3 α)) : List (LR3 α) :=
  (pts.zip pts.tail).map (fun p => seg3_from_end_points p.1 p.2)

/-- The `enforce_right_hand` step of `Face3D(vertices, plane)` (no holes): the vertices are
reversed when their polygon in the plane is clockwise. -/
def faceInit (pl : PlaneS α) (vs : List (V3 α)) : List (V3 α) :=
  if polygon2d_is_clockwise (vs.map (plane_xyz_to_xy pl)) = true then vs.reverse else vs

/-- `Face3D((seg.p1, seg.p2, seg.p2 + h_vec, seg.p1 + h_vec), base_plane).vertices`. -/
def rectUp (pl : PlaneS α) (seg : LR3 α) (h : V3 α) : List (V3 α) :=
  faceInit pl [seg.p, seg3_p2 seg, p3_move (seg3_p2 seg) h, p3_move seg.p h]

/-- `Face3D((line.p2, line.p1, line.p1 + h_vec, line.p2 + h_vec), base_plane).vertices`. -/
def rectUpRev (pl : PlaneS α) (seg : LR3 α) (h : V3 α) : List (V3 α) :=
  faceInit pl [seg3_p2 seg, seg.p, p3_move seg.p h, p3_move (seg3_p2 seg) h]

/-- The clamping of `vertical_separation` (`if vertical_separation != 0: …`). -/
def clampVertSep (vs maxSplitVert : α) : α :=
  if vs ≠ 0 then
    (if vs < 0 ∨ maxSplitVert < 0 then 0
     else if vs > maxSplitVert then maxSplitVert else vs)
  else vs

/-- `div_segs[0]` (the wrapper guarantees the list is non-empty). -/
def headSeg (l : List (LR3 α)) : LR3 α := l.head?.getD ⟨⟨0, 0, 0⟩, ⟨0, 0, 0⟩⟩

/-! ## `sub_rects_from_rect_ratio` -/

/-- `num_div` of `sub_rects_from_rect_ratio`. -/
def ratioNumDiv (M : MathOps α) (parentBase horizontalSeparation : α) : α :=
  if parentBase > horizontalSeparation / 2 then pyRound M (parentBase / horizontalSeparation)
  else 1

/-- Straight-line transcription of `Face3D.sub_rects_from_rect_ratio`; the result lists the
`vertices` of the returned faces. -/
def subRectsRatioCore (M : MathOps α) (fuel : Nat) (pl : PlaneS α)
    (parentBase parentHeight ratio subRectHeight0 sillHeight0 horizontalSeparation
      verticalSeparation0 : α) : List (List (V3 α)) :=
  let targetArea := parentBase * parentHeight * ratio
  let maxAreaSubdiv := parentBase * (49 / 50) * subRectHeight0
  let maxSubh := (49 / 50) * parentHeight
  let subRectHeight := if subRectHeight0 > maxSubh then maxSubh else subRectHeight0
  let minSill := (1 / 100) * parentHeight
  let sillHeight := if sillHeight0 < minSill then minSill else sillHeight0
  let bottomSeg := seg3FromSdl M pl.o pl.x parentBase
  if targetArea < maxAreaSubdiv then
    let numDiv := ratioNumDiv M parentBase horizontalSeparation
    let btmDivPts := subdivideEvenly fuel bottomSeg numDiv
    let btmDivSegs := segsOfPts btmDivPts
    let maxSillH := parentHeight * (99 / 100) - subRectHeight
    let sillVec := if sillHeight < maxSillH then v3Mul pl.y sillHeight else v3Mul pl.y maxSillH
    let divSegs := btmDivSegs.map (fun s => seg3_move s sillVec)
    let segWidth := seg3_length M (headSeg divSegs)
    let subrectWidth := (targetArea / subRectHeight) / numDiv
    let scaleFac := subrectWidth / segWidth
    let scaledSegs := divSegs.map (fun s => seg3_scale s scaleFac (seg3_midpoint s))
    let maxSplitVert := parentHeight - sillHeight - subRectHeight - (1 / 50) * parentHeight
    let verticalSeparation := clampVertSep verticalSeparation0 maxSplitVert
    if verticalSeparation ≠ 0 then
      let subRectHeight2 := subRectHeight / 2
      let hVec := v3Mul pl.y subRectHeight2
      let vertMoveVec := v3Mul pl.y (subRectHeight2 + verticalSeparation)
      let vertSegs := scaledSegs.map (fun s => seg3_move s vertMoveVec)
      (scaledSegs ++ vertSegs).map (fun s => rectUp pl s hVec)
    else
      let hVec := v3Mul pl.y subRectHeight
      scaledSegs.map (fun s => rectUp pl s hVec)
  else
    let single := targetArea / (parentBase * (49 / 50))
    let maxSillH := parentHeight * (99 / 100) - single
    let sillVec := if sillHeight < maxSillH then v3Mul pl.y sillHeight else v3Mul pl.y maxSillH
    let segInit := seg3_move bottomSeg sillVec
    let seg := seg3_scale segInit (49 / 50) (seg3_midpoint segInit)
    let maxSplitVert := parentHeight - sillHeight - single - (1 / 50) * parentHeight
    let verticalSeparation := clampVertSep verticalSeparation0 maxSplitVert
    if verticalSeparation ≠ 0 then
      let subRectHeight2 := single / 2
      let hVec := v3Mul pl.y subRectHeight2
      let vertMoveVec := v3Mul pl.y (subRectHeight2 + verticalSeparation)
      let vertSeg := seg3_move seg vertMoveVec
      [seg, vertSeg].map (fun s => rectUp pl s hVec)
    else
      let hVec := v3Mul pl.y single
      [rectUp pl seg hVec]

/-- `Face3D.sub_rects_from_rect_ratio` with the exceptions the Python code raises, in program
order (`fuel` bounds the `while` loop of `subdivide_evenly`; any `fuel ≥ num_div + 1` gives the
same answer). -/
def subRectsRatio (M : MathOps α) (fuel : Nat) (pl : PlaneS α)
    (parentBase parentHeight ratio subRectHeight0 sillHeight0 horizontalSeparation
      verticalSeparation0 : α) : Except String (List (List (V3 α))) :=
  let core := subRectsRatioCore M fuel pl parentBase parentHeight ratio subRectHeight0
    sillHeight0 horizontalSeparation verticalSeparation0
  let targetArea := parentBase * parentHeight * ratio
  let maxAreaSubdiv := parentBase * (49 / 50) * subRectHeight0
  let maxSubh := (49 / 50) * parentHeight
  let subRectHeight := if subRectHeight0 > maxSubh then maxSubh else subRectHeight0
  if v3_magnitude M pl.x = 0 then .error "ZeroDivisionError" else
  if targetArea < maxAreaSubdiv then
    if parentBase > horizontalSeparation / 2 ∧ horizontalSeparation = 0 then
      .error "ZeroDivisionError" else
    let numDiv := ratioNumDiv M parentBase horizontalSeparation
    if ¬ (numDiv > 0) then .error "AssertionError" else
    if subRectHeight = 0 then .error "ZeroDivisionError" else
    let bottomSeg := seg3FromSdl M pl.o pl.x parentBase
    let segWidth := seg3_length M (headSeg (segsOfPts (subdivideEvenly fuel bottomSeg numDiv)))
    if segWidth = 0 then .error "ZeroDivisionError" else .ok core
  else
    if parentBase * (49 / 50) = 0 then .error "ZeroDivisionError" else .ok core

/-! ## `sub_rects_from_rect_dimensions` -/

/-- `horizontal_separation` after `if sub_rect_width >= horizontal_separation: … * 1.02`. -/
def dimsHorizSep (subRectWidth0 horizontalSeparation0 : α) : α :=
  if subRectWidth0 ≥ horizontalSeparation0 then subRectWidth0 * (51 / 50)
  else horizontalSeparation0

/-- The first `num_div = round(parent_base / horizontal_separation) if … else 1`. -/
def dimsNumDiv0 (M : MathOps α) (parentBase horizontalSeparation : α) : α :=
  if parentBase > horizontalSeparation / 2 then pyRound M (parentBase / horizontalSeparation)
  else 1

/-- `num_div` after the re-count
`if num_div * w + (num_div - 1) * (hs - w) > parent_base: num_div = floor(parent_base / hs)`. -/
def dimsNumDiv (M : MathOps α) (parentBase subRectWidth0 horizontalSeparation : α) : α :=
  let numDiv0 := dimsNumDiv0 M parentBase horizontalSeparation
  if numDiv0 * subRectWidth0 + (numDiv0 - 1) * (horizontalSeparation - subRectWidth0)
      > parentBase then M.floor (parentBase / horizontalSeparation) else numDiv0

/-- Straight-line transcription of `Face3D.sub_rects_from_rect_dimensions`. -/
def subRectsDimsCore (M : MathOps α) (fuel : Nat) (pl : PlaneS α)
    (parentBase parentHeight subRectHeight0 subRectWidth0 sillHeight horizontalSeparation0 : α) :
    List (List (V3 α)) :=
  let subRectHeight :=
    if subRectHeight0 ≥ parentHeight - (1 / 50) * parentHeight then
      parentHeight - (1 / 50) * parentHeight else subRectHeight0
  let sillHgt0 := if sillHeight < (1 / 100) * parentHeight then (1 / 100) * parentHeight
    else sillHeight
  let sillHgt := if subRectHeight + sillHgt0 ≥ parentHeight then
    parentHeight - subRectHeight - parentHeight * (1 / 100) else sillHgt0
  let horizontalSeparation := dimsHorizSep subRectWidth0 horizontalSeparation0
  let maxWidthBreakUp := parentBase / 2
  let numDiv0 := dimsNumDiv0 M parentBase horizontalSeparation
  let sillVec := v3Mul pl.y sillHgt
  let bottomSeg := seg3FromSdl M pl.o pl.x parentBase
  if subRectWidth0 < maxWidthBreakUp then
    let divDist := if numDiv0 = 1 then parentBase / 2 else horizontalSeparation
    let numDiv := dimsNumDiv M parentBase subRectWidth0 horizontalSeparation
    let scaleFac := (divDist * numDiv) / parentBase
    let rectSeg0 := seg3_scale bottomSeg scaleFac (seg3_point_at bottomSeg (1 / 2))
    let rectSeg := seg3_move rectSeg0 sillVec
    let btmDivPts0 := subdivideEvenly fuel rectSeg numDiv
    let btmDivPts := if ((btmDivPts0.length : ℕ) : α) = numDiv then
      btmDivPts0 ++ [seg3_p2 rectSeg] else btmDivPts0
    let btmDivSegs := segsOfPts btmDivPts
    let scaleFactor := subRectWidth0 / divDist
    let scaled := btmDivSegs.map (fun l => seg3_scale l scaleFactor (seg3_point_at l (1 / 2)))
    let hVec := v3Mul pl.y subRectHeight
    scaled.map (fun l => rectUpRev pl l hVec)
  else
    let subRectWidth := if subRectWidth0 ≥ parentBase then parentBase * (49 / 50)
      else subRectWidth0
    let scaleFac := subRectWidth / parentBase
    let rectSeg := seg3_scale bottomSeg scaleFac (seg3_point_at bottomSeg (1 / 2))
    let seg := seg3_move rectSeg sillVec
    let hVec := v3Mul pl.y subRectHeight
    [rectUpRev pl seg hVec]

/-- `Face3D.sub_rects_from_rect_dimensions` with its exceptions in program order. -/
def subRectsDims (M : MathOps α) (fuel : Nat) (pl : PlaneS α)
    (parentBase parentHeight subRectHeight0 subRectWidth0 sillHeight horizontalSeparation0 : α) :
    Except String (List (List (V3 α))) :=
  let core := subRectsDimsCore M fuel pl parentBase parentHeight subRectHeight0 subRectWidth0
    sillHeight horizontalSeparation0
  let horizontalSeparation := dimsHorizSep subRectWidth0 horizontalSeparation0
  let numDiv0 := dimsNumDiv0 M parentBase horizontalSeparation
  if parentBase > horizontalSeparation / 2 ∧ horizontalSeparation = 0 then
    .error "ZeroDivisionError" else
  if v3_magnitude M pl.x = 0 then .error "ZeroDivisionError" else
  if subRectWidth0 < parentBase / 2 then
    let divDist := if numDiv0 = 1 then parentBase / 2 else horizontalSeparation
    let over := numDiv0 * subRectWidth0 + (numDiv0 - 1) * (horizontalSeparation - subRectWidth0)
          > parentBase
    if over ∧ horizontalSeparation = 0 then .error "ZeroDivisionError" else
    let numDiv := dimsNumDiv M parentBase subRectWidth0 horizontalSeparation
    if parentBase = 0 then .error "ZeroDivisionError" else
    if ¬ (numDiv > 0) then .error "AssertionError" else
    if divDist = 0 then .error "ZeroDivisionError" else .ok core
  else
    if parentBase = 0 then .error "ZeroDivisionError" else .ok core

/-! ## `sub_faces_by_ratio_rectangle` on a rectangular parent -/

/-- `Face3D.boundary_segments`. -/
def boundarySegments (vs : List (V3 α)) : List (LR3 α) :=
  popAppend ((cyclicPairs vs).map (fun p => seg3_from_end_points p.1 p.2))

/-- Stable insertion by the key `edge.p.z` (what `sorted(…, key=lambda edge: edge.p.z)` does). -/
def insertByZ (e : LR3 α) : List (LR3 α) → List (LR3 α)
  | [] => [e]
  | b :: t => if e.p.z ≤ b.p.z then e :: b :: t else b :: insertByZ e t

/-- `sorted(edges, key=lambda edge: edge.p.z)` (stable). -/
def sortByZ : List (LR3 α) → List (LR3 α)
  | [] => []
  | a :: l => insertByZ a (sortByZ l)

/-- `Face3D.get_top_bottom_horizontal_edges(tolerance)`. -/
def topBottomHorizontalEdges (vs : List (V3 α)) (tol : α) : Option (LR3 α × LR3 α) :=
  let horiz := (boundarySegments vs).filter (fun e => decide (|e.v.z| ≤ tol))
  match sortByZ horiz with
  | a :: b :: _ => some (a, b)
  | _ => none

/-- `Base2DIn3D.center`: centre of the bounding box of the vertices. -/
def bboxCenter (vs : List (V3 α)) : V3 α :=
  match vs with
  | [] => ⟨0, 0, 0⟩
  | a :: t =>
    let mn : V3 α := t.foldl (fun m v => ⟨min m.x v.x, min m.y v.y, min m.z v.z⟩) a
    let mx : V3 α := t.foldl (fun m v => ⟨max m.x v.x, max m.y v.y, max m.z v.z⟩) a
    ⟨(mn.x + mx.x) / 2, (mn.y + mx.y) / 2, (mn.z + mx.z) / 2⟩

/-- The rectangle corner points `(close_pt_1, …, close_pt_4)` of `_split_with_rectangle`. -/
def rectanglePoints (e1 e2 : LR3 α) : V3 α × V3 α × V3 α × V3 α :=
  (closest_point3d_on_line3d_s e1.p e2, closest_point3d_on_line3d_s (seg3_p2 e2) e1,
   closest_point3d_on_line3d_s (seg3_p2 e1) e2, closest_point3d_on_line3d_s e2.p e1)

/-- `Face3D.sub_faces_by_ratio_rectangle(ratio, tolerance)` for a parent without holes and
colinear vertices whose plane is `pl` and whose boundary is `vs`, in the case that
`extract_rectangle` finds a horizontal bottom and top edge and `_split_with_rectangle` leaves no
other faces; `none` = outside this case (horizontal plane, fewer than two horizontal edges, no
overlap, left-over faces).  `ratio ** .5` is `M.sqrt ratio`. -/
def subFacesRatioRectangle (M : MathOps α) (pl : PlaneS α) (vs : List (V3 α)) (ratio tol : α) :
    Option (List (List (V3 α))) :=
  if |pl.n.x| ≤ tol ∧ |pl.n.y| ≤ tol then none else
  match topBottomHorizontalEdges vs tol with
  | none => none
  | some (e1, e2) =>
    let (c1, c2, c3, c4) := rectanglePoints e1 e2
    if v3_is_equivalent c1 e2.p tol = true ∨ v3_is_equivalent c3 (seg3_p2 e2) tol = true then none
    else if ¬ (v3_is_equivalent c1 (seg3_p2 e2) tol = true ∧ v3_is_equivalent c2 e1.p tol = true ∧
        v3_is_equivalent c3 e2.p tol = true ∧ v3_is_equivalent c4 (seg3_p2 e1) tol = true ∧
        vs.length = 4) then none
    else
      let bottom := seg3_from_end_points c2 c4
      let top := seg3_from_end_points c1 c3
      let rectFace := faceInit pl [bottom.p, seg3_p2 bottom, seg3_p2 top, top.p]
      let c := bboxCenter rectFace
      some [rectFace.map (fun p => p3_scale p (M.sqrt ratio) c)]

/-! ## `Polygon2D.offset` -/

/-- `Vector2D.angle(other)` with the `except ValueError` fallback of the code. -/
def v2Angle (M : MathOps α) (a b : V2 α) : α :=
  let q := v2_dot a b / (v2_magnitude M a * v2_magnitude M b)
  if q < -1 ∨ 1 < q then (if v2_dot a b < 0 then M.acos (-1) else M.acos 1) else M.acos q

/-- `Vector2D.angle_clockwise(other)`. -/
def v2AngleClockwise (M : MathOps α) (a b : V2 α) : α :=
  let inner := v2Angle M a b
  if v2_determinant a b ≤ 0 then inner else 2 * M.pi - inner

/-- `Vector2D.angle_counterclockwise(other)`. -/
def v2AngleCounterclockwise (M : MathOps α) (a b : V2 α) : α :=
  let inner := v2Angle M a b
  if v2_determinant a b ≥ 0 then inner else 2 * M.pi - inner

/-- The half angle `ang` of one pass of the `move_vecs` loop, with the `ang == 0 → pi / 2`
guard. -/
def offsetHalfAngle (M : MathOps α) (clockwise : Bool) (v1 v2 : V2 α) : α :=
  let ang := (if ¬ (clockwise = true) then v2AngleClockwise M v1 v2
    else v2AngleCounterclockwise M v1 v2) / 2
  if ang = 0 then M.pi / 2 else ang

/-- `Vector2D` difference of two points (`Point2D.__sub__`). -/
def v2Sub (a b : V2 α) : V2 α := ⟨a.x - b.x, a.y - b.y⟩

/-- The moved vertex of one pass of the loop: `pt.move(m_vec)` for the triple
`(init_verts[i-1], pt, init_verts[end_i])`. -/
def offsetVertex (M : MathOps α) (clockwise : Bool) (distance : α) (prev pt next : V2 α) : V2 α :=
  let v1 := v2Sub prev pt
  let v2 := v2Sub next pt
  p2_move pt (offsetMoveVec M clockwise v1 (offsetHalfAngle M clockwise v1 v2) distance)

section
variable {β : Type}
/-- The triples `(l[i-1], l[i], l[i+1])` with both indices wrapping, in the order of `l`. -/
def cyclicTriples (l : List β) : List (β × β × β) :=
  ((cyclicPairs l).zip (l.rotate 1)).map (fun p => (p.1.1, p.1.2, p.2))
end

/-- `[pt for i, pt in enumerate(base_verts) if pt != base_verts[i - 1]]`. -/
def dropRepeated (l : List (V2 α)) : List (V2 α) :=
  (cyclicPairs l).filterMap (fun p => if p.2 ≠ p.1 then some p.2 else none)

/-- `Polygon2D.offset(distance)` (`check_intersection=False`): the `vertices` of the result. -/
def polygonOffset (M : MathOps α) (vs : List (V2 α)) (distance : α) : List (V2 α) :=
  if distance = 0 then vs else
  let cw := polygon2d_is_clockwise vs
  let baseVerts := if ¬ (cw = true) then vs else vs.reverse
  let initVerts := dropRepeated baseVerts
  if initVerts.length < 3 then vs else
  let newPts := (cyclicTriples initVerts).map
    (fun t => offsetVertex M cw distance t.1 t.2.1 t.2.2)
  if cw = true then newPts.reverse else newPts

end Lbg.Model
