/- Driver ops for Model.SubdivFloat. -/
import LbgVerif.Wire
import LbgVerif.Model.SubdivFloat

namespace Lbg.Model
open Lean Lbg.Wire

def dispatchSubdiv (op : String) (args : Array Json) : Option (Except String Json) :=
  match op with
  | "subdiv.count" => some (do
      let n ← (dec (args.getD 0 Json.null) : Except String Nat)
      pure (enc (subdivCount n)))
  | "subdiv.loop_count" => some (do
      let n ← (dec (args.getD 0 Json.null) : Except String Nat)
      pure (enc (subdivLoopCount n)))
  | "subdiv.params" => some (do
      let n ← (dec (args.getD 0 Json.null) : Except String Nat)
      pure (Json.arr ((subdivParams n).map (fun f => enc (floatToRat f))).toArray))
  | _ => none

end Lbg.Model
