/- Driver table for the polygon-Boolean models `Model/Chainer`, `Model/BoolSelect`,
   `Model/PolyBool` (property C04).

   Numbers travel as "n/d"; a point is [x, y]; a fill is [above, below] with entries
   true / false / null; a segment with fills is [start, end, myfill, otherfill-or-null].

   model.chainer   [segments, eps]            segments = [[start, end], …]
                   → {"regions": [[pt, …], …], "open": [[pt, …], …]}
   model.select    [segments-with-fills, op]  op ∈ union | intersect | difference |
                                              difference_rev | xor
                   → [segment-with-fills, …]
   model.select_inverted [op, inv1, inv2]     → bool
   model.segments  [regions, inverted, eps]   → [segment-with-fills, …]      (`_segments`)
   model.combine   [segs1, inv1, segs2, inv2, eps] → [segment-with-fills, …] (`_combine`)
   model.polybool  [regionsA, invertedA, regionsB, invertedB, op, eps]
                   → {"regions": [[pt, …], …], "inverted": bool}
   model.polybool_all [regionsA, invertedA, regionsB, invertedB, eps]
                   → {"segments1": R, "segments2": R, "combined": R, "ops": {op: {"selected": …,
                      "regions": …, "inverted": …}}}  with R = {"ok": [segment…]} | {"err": text}
                   (every stage of `__operate` for all five selectors in one request)
   Errors of the modelled code ("zero-length", "unlinked", "nofill", "index") and "fuel" come
   back as driver errors with exactly that text. -/
import LbgVerif.Wire
import LbgVerif.Model.PolyBool

namespace Lbg.Model
open Lean Lbg.Wire Lbg.Model.PolyBool

private def pbFuel : Nat := 20000

private def decOB (j : Json) : Except String (Option Bool) :=
  match j with
  | Json.null => pure none
  | Json.bool b => pure (some b)
  | _ => throw "expected bool or null"

private def encOB : Option Bool → Json
  | none => Json.null
  | some b => Json.bool b

private def decFill (j : Json) : Except String Fill := do
  let a ← arrN j 2
  pure ⟨← decOB a[0]!, ← decOB a[1]!⟩

private def encFill (f : Fill) : Json := Json.arr #[encOB f.above, encOB f.below]

private def decFSeg (j : Json) : Except String (FSeg ℚ) := do
  let a ← arrN j 4
  let s ← (dec a[0]! : Except String (V2 ℚ))
  let e ← (dec a[1]! : Except String (V2 ℚ))
  let mf ← decFill a[2]!
  let ofl ← match a[3]! with
    | Json.null => pure none
    | j => do let f ← decFill j; pure (some f)
  pure ⟨s, e, mf, ofl⟩

private def encFSeg (s : FSeg ℚ) : Json :=
  Json.arr #[enc s.start, enc s.stop, encFill s.myfill,
    match s.otherfill with | none => Json.null | some f => encFill f]

private def decFSegs (j : Json) : Except String (List (FSeg ℚ)) :=
  match j with
  | Json.arr a => a.toList.mapM decFSeg
  | _ => throw "expected list of segments"

private def decOpS (j : Json) : Except String Op := do
  let s ← (j.getStr? : Except String String)
  match Op.ofString s with
  | some o => pure o
  | none => throw s!"unknown operation {s}"

def dispatchPolyBool (op : String) (args : Array Json) : Option (Except String Json) :=
  match op with
  | "model.chainer" => some (do
      let segs ← (dec (args.getD 0 Json.null) : Except String (List (V2 ℚ × V2 ℚ)))
      let eps ← (dec (args.getD 1 Json.null) : Except String ℚ)
      pure (Json.mkObj [("regions", enc (Chainer.chainer segs eps)),
        ("open", enc (Chainer.chainerOpen segs eps))]))
  | "model.select" => some (do
      let segs ← decFSegs (args.getD 0 Json.null)
      let o ← decOpS (args.getD 1 Json.null)
      pure (Json.arr ((select segs o.table).map encFSeg).toArray))
  | "model.select_inverted" => some (do
      let o ← decOpS (args.getD 0 Json.null)
      let a ← (dec (args.getD 1 Json.null) : Except String Bool)
      let b ← (dec (args.getD 2 Json.null) : Except String Bool)
      pure (enc (o.inverted a b)))
  | "model.segments" => some (do
      let regions ← (dec (args.getD 0 Json.null) : Except String (List (List (V2 ℚ))))
      let inv ← (dec (args.getD 1 Json.null) : Except String Bool)
      let eps ← (dec (args.getD 2 Json.null) : Except String ℚ)
      let r ← segments regions inv eps pbFuel
      pure (Json.arr (r.map encFSeg).toArray))
  | "model.combine" => some (do
      let s1 ← decFSegs (args.getD 0 Json.null)
      let i1 ← (dec (args.getD 1 Json.null) : Except String Bool)
      let s2 ← decFSegs (args.getD 2 Json.null)
      let i2 ← (dec (args.getD 3 Json.null) : Except String Bool)
      let eps ← (dec (args.getD 4 Json.null) : Except String ℚ)
      let r ← combine s1 i1 s2 i2 eps pbFuel
      pure (Json.arr (r.map encFSeg).toArray))
  | "model.polybool" => some (do
      let ra ← (dec (args.getD 0 Json.null) : Except String (List (List (V2 ℚ))))
      let ia ← (dec (args.getD 1 Json.null) : Except String Bool)
      let rb ← (dec (args.getD 2 Json.null) : Except String (List (List (V2 ℚ))))
      let ib ← (dec (args.getD 3 Json.null) : Except String Bool)
      let o ← decOpS (args.getD 4 Json.null)
      let eps ← (dec (args.getD 5 Json.null) : Except String ℚ)
      let r ← operate o ra ia rb ib eps pbFuel
      pure (Json.mkObj [("regions", enc r.1), ("inverted", enc r.2)]))
  | "model.polybool_all" => some (do
      let ra ← (dec (args.getD 0 Json.null) : Except String (List (List (V2 ℚ))))
      let ia ← (dec (args.getD 1 Json.null) : Except String Bool)
      let rb ← (dec (args.getD 2 Json.null) : Except String (List (List (V2 ℚ))))
      let ib ← (dec (args.getD 3 Json.null) : Except String Bool)
      let eps ← (dec (args.getD 4 Json.null) : Except String ℚ)
      let encR (r : Except String (List (FSeg ℚ))) : Json := match r with
        | .ok l => Json.mkObj [("ok", Json.arr (l.map encFSeg).toArray)]
        | .error e => Json.mkObj [("err", Json.str e)]
      let s1 := segments ra ia eps pbFuel
      let s2 := segments rb ib eps pbFuel
      let comb : Except String (List (FSeg ℚ)) := do
        let a ← s1
        let b ← s2
        combine a ia b ib eps pbFuel
      let ops : List (String × Json) := match comb with
        | .error _ => []
        | .ok c => [("union", Op.union), ("intersect", Op.intersect),
            ("difference", Op.difference), ("difference_rev", Op.differenceRev),
            ("xor", Op.xor)].map fun (nm, o) =>
              let sel := selectOp o c ia ib
              (nm, Json.mkObj [("selected", Json.arr (sel.1.map encFSeg).toArray),
                ("regions", enc (polygon sel.1 eps)), ("inverted", enc sel.2)])
      pure (Json.mkObj [("segments1", encR s1), ("segments2", encR s2), ("combined", encR comb),
        ("ops", Json.mkObj ops)]))
  | _ => none

end Lbg.Model
