/-
  Model.Network — literal executable model of `ladybug_geometry/network.py`
  (`coordinates_hash`, `Node`, `DirectedGraphNetwork`) and of its users
  `Face3D.split_with_line / split_with_lines / split_with_polyline` (geometry3d/face.py
  l.1251-1432) in the plane coordinates of the face.

  How the Python objects are represented
  --------------------------------------
  * a `Node` is `GNode` (`pt`, `key`, `adj` = the KEYS of `adj_lst` in insertion order,
    `ext` = `exterior` ∈ {None, True, False}); `Node._order` is the position in `Graph.nodes`
    (the dict `_directed_graph` keeps insertion order and nodes are never deleted, so
    `nodes` = `ordered_nodes`).  `adj_lst` holds references to the unique node object of a key,
    so a list of keys + lookup is the same thing.
  * keys: `coordinates_hash(pt, tol)` is a string of two rounded floats; the model is generic
    over a key type `κ` and a function `hash : V2 α → κ`; at ℚ the instance is `coordKey`
    (pair of integers = the rounded multiples of the rounding unit, see `KeyGrid`).
  * the segment pre-splitting (`_intersect_segments`), the filter
    `_remove_segments_outside_boundary`, `from_shape_with_holes`, `from_shape_to_split`,
    `next_exterior_node`, `is_edge_bidirect`, `min_cycle(ccw_only=True)` and `all_min_cycles`
    are transcribed statement by statement; library calls that have a generated kernel use it
    (`Gen.intersect_line_segment2d`, `Gen.a_v2d_angle_clockwise`, `Gen.v2_normalize`,
    `Gen.p2_move`, `Gen.seg2_from_end_points`, `Gen.seg2_p2`, `Gen.a_p2d_is_equivalent`,
    `Gen.p2_distance_to_point`, `Gen.polygon2d_segments`, `Gen.polygon2d_is_clockwise`,
    `Gen.polygon2d_remove_colinear_vertices`, `Gen.polygon2d_point_relationship`,
    `Gen.polygon2d_area`, `Gen.polygon2d_is_polygon_inside`,
    `Gen.polygon2d_overlapping_bounding_rect`, `Gen.polyline2_segments`, `Gen.seg2_length`).
  * loops with an iteration bound in the code (`max_iter`) run on that bound as fuel; the
    breadth-first queue of `min_cycle` holds exactly one path when `ccw_only=True`, so it is a
    walk (`minCycleWalk`) whose fuel `#nodes + 1` is never exhausted (every step adds a new
    node to `explored`).
  * Python exceptions: `remove_colinear_vertices` raising `AssertionError` on the boundary or a
    hole (fewer than 3 vertices left) makes `fromShapeToSplit` return `none`; the same
    exception on a piece is caught by the code (`cycleLoop = none`, piece dropped).  A node
    with an empty adjacency list would make `min_cycle` raise `IndexError` (`rel_neighbors[0]`);
    the graphs built by `from_shape_to_split` have none (the model returns `none` there).
  * `Vector2D.angle` catches the `ValueError` of `math.acos` outside [-1, 1]: `clampAcos`.

  CODE VERSIONS.  The definitions with a `fixed : Bool` argument (`cutPiecesG`,
  `fromShapeToSplitG`, `facesOfPiecesG`, `splitCoreG`, `splitWith…G`) are the code as it is NOW
  for `fixed = true` (the names without `G` abbreviate that) and the code before the repairs
  0a32af8 / 2c5e096 for `fixed = false` (kept for the history witnesses of Props/C09b).  The
  repairs: `_remove_segments_outside_boundary(segments, boundary, tolerance, holes)` also tests
  the MIDDLE of each piece (strictly inside the boundary, strictly outside every hole:
  `removeOutsideFixed`); `_remove_dangling_segments` drops cut pieces with an unconnected end
  before they are added to the graph (`removeDangling`); `split_with_*` answer `None` when the
  merged result is a single face.  The correspondence module compares the `fixed = true` model
  with the library (`CORR_NETWORK_OLD=1`: the `fixed = false` model, for looking at an old
  tree).

  NOT modelled: the lift to 3D (the model works in the plane coordinates the face computes;
  `Face3D(...)` + `remove_colinear_vertices` + `merge_faces_to_holes` are modelled on the 2D
  polygons they compute with, the coplanarity test of `is_sub_face` between faces built on the
  same plane object is taken as true), `exterior_cycle(s)`, `next_exterior_node_no_backtrack`,
  `min_cycle(ccw_only=False)`, `polygon_exists`, `adj_matrix`.
-/
import LbgVerif.Basic
import LbgVerif.Gen.Vec
import LbgVerif.Gen.Auto
import LbgVerif.Gen.Line
import LbgVerif.Gen.Isect2
import LbgVerif.Gen.Poly
import LbgVerif.Gen.PolyMore
import LbgVerif.Gen.Polyline
import Mathlib.Algebra.Order.Field.Rat
import Mathlib.Data.Rat.Floor

namespace Lbg.Model.Net
open Lbg Lbg.Gen

/-! ## Nodes and the graph -/

/-- `Node` (slots `pt`, `key`, `adj_lst`, `exterior`; `_order` = position in the graph). -/
structure GNode (α κ : Type) where
  pt : V2 α
  key : κ
  adj : List κ
  ext : Option Bool

/-- `DirectedGraphNetwork` (`_directed_graph` in insertion order, `outer_root_key`,
`hole_root_keys`; `_tolerance` lives in the key function). -/
structure Graph (α κ : Type) where
  nodes : List (GNode α κ)
  outerRoot : Option κ
  holeRoots : List κ

section generic
variable {α : Type} [Field α] [LinearOrder α] {κ : Type} [DecidableEq κ]

def Graph.empty : Graph α κ := ⟨[], none, []⟩

/-- `DirectedGraphNetwork.node(key)`. -/
def Graph.find? (g : Graph α κ) (k : κ) : Option (GNode α κ) :=
  g.nodes.find? (fun n => decide (n.key = k))

/-- `node_exists`. -/
def Graph.has (g : Graph α κ) (k : κ) : Bool := g.nodes.any (fun n => decide (n.key = k))

/-- `_add_node`: a new node (empty adjacency, the given `exterior`) unless the key exists. -/
def Graph.ensure (g : Graph α κ) (k : κ) (pt : V2 α) (ext : Option Bool) : Graph α κ :=
  if g.has k then g else { g with nodes := g.nodes ++ [⟨pt, k, [], ext⟩] }

/-- In-place mutation of the node with key `k`. -/
def Graph.modify (g : Graph α κ) (k : κ) (f : GNode α κ → GNode α κ) : Graph α κ :=
  { g with nodes := g.nodes.map (fun n => if n.key = k then f n else n) }

/-- Adjacency list (keys) of the node `k` (`[]` for a missing node). -/
def Graph.adjOf (g : Graph α κ) (k : κ) : List κ :=
  match g.find? k with
  | some n => n.adj
  | none => []

/-- `add_adj(node, adj_val_lst)`: append the (new) nodes of the points not yet adjacent to
`node` (and different from it), creating them with `exterior=None` when needed. -/
def addAdj (hash : V2 α → κ) (g : Graph α κ) (k : κ) (vals : List (V2 α)) : Graph α κ :=
  vals.foldl (fun g v =>
    let ak := hash v
    if ak = k ∨ ak ∈ g.adjOf k then g
    else (g.ensure ak v none).modify k (fun n => { n with adj := n.adj ++ [ak] })) g

/-- `add_node(val, adj_lst, exterior)` → (graph, key). -/
def addNode (hash : V2 α → κ) (g : Graph α κ) (val : V2 α) (adjVals : List (V2 α))
    (ext : Option Bool) : Graph α κ × κ :=
  let k := hash val
  let g1 := g.ensure k val ext
  let g2 := addAdj hash g1 k adjVals
  let g3 := match ext with
    | none => g2
    | some e => g2.modify k (fun n => { n with ext := some e })
  (g3, k)

/-- `remove_adj(node, adj_key_lst)`. -/
def removeAdj (g : Graph α κ) (k : κ) (ks : List κ) : Graph α κ :=
  g.modify k (fun n => { n with adj := n.adj.filter (fun a => !(decide (a ∈ ks))) })

/-- `insert_node(base_node, new_val, next_node, exterior)` → (graph, key of the new node). -/
def insertNode (hash : V2 α → κ) (g : Graph α κ) (baseK : κ) (newVal : V2 α) (nextK : κ)
    (ext : Option Bool) : Graph α κ × κ :=
  match g.find? nextK with
  | none => (g, hash newVal)
  | some nx =>
    let (g1, nk) := addNode hash g newVal [nx.pt] ext
    let npt := match g1.find? nk with
      | some n => n.pt
      | none => newVal
    let g2 := addAdj hash g1 baseK [npt]
    if nk = nextK ∨ nk = baseK then (g2, nk) else (removeAdj g2 baseK [nextK], nk)

/-- One loop of `from_shape_with_holes` / `from_point_array(loop=True)`: `add_node(v[j],
[v[j+1]], True)` for `j < n-1` (the key of `j = 0` is the outer / a hole root), then
`add_node(v[-1], [v[0]], True)`. -/
def addLoop (hash : V2 α → κ) (g : Graph α κ) (isOuter : Bool) (vs : List (V2 α)) :
    Graph α κ :=
  let g1 := ((vs.zip (vs.drop 1)).zipIdx).foldl (fun g pj =>
      let r := addNode hash g pj.1.1 [pj.1.2] (some true)
      if pj.2 = 0 then
        (if isOuter then { r.1 with outerRoot := some r.2 }
         else { r.1 with holeRoots := r.1.holeRoots ++ [r.2] })
      else r.1) g
  match vs.getLast?, vs.head? with
  | some l, some h => (addNode hash g1 l [h] (some true)).1
  | _, _ => g1

/-- `DirectedGraphNetwork.from_shape_with_holes(boundary, holes, tolerance)` on vertex lists
(boundary made counter-clockwise, holes clockwise). -/
def fromShapeWithHoles (hash : V2 α → κ) (boundary : List (V2 α)) (holes : List (List (V2 α))) :
    Graph α κ :=
  let b := if polygon2d_is_clockwise boundary then boundary.reverse else boundary
  let hs := holes.map (fun h => if polygon2d_is_clockwise h then h else h.reverse)
  hs.foldl (fun g h => addLoop hash g false h) (addLoop hash Graph.empty true b)

/-- `from_polygon` / `from_point_array(loop=True)`. -/
def fromPolygon (hash : V2 α → κ) (poly : List (V2 α)) : Graph α κ :=
  fromShapeWithHoles hash poly []

/-! ## Stable sorts (`sorted(zip(keys, items), key=lambda pair: pair[0])`) -/

/-- Insert after every element whose key is `≤` (ascending, stable). -/
def insertAsc {β : Type} (x : α × β) : List (α × β) → List (α × β)
  | [] => [x]
  | y :: ys => if y.1 ≤ x.1 then y :: insertAsc x ys else x :: y :: ys

def sortAsc {β : Type} (l : List (α × β)) : List (α × β) :=
  l.foldl (fun acc x => insertAsc x acc) []

/-- Insert after every element whose key is `≥` (`reverse=True` keeps ties in input order). -/
def insertDesc {β : Type} (x : α × β) : List (α × β) → List (α × β)
  | [] => [x]
  | y :: ys => if x.1 ≤ y.1 then y :: insertDesc x ys else x :: y :: ys

def sortDesc {β : Type} (l : List (α × β)) : List (α × β) :=
  l.foldl (fun acc x => insertDesc x acc) []

/-! ## `_intersect_segments` and `_remove_segments_outside_boundary` -/

/-- The double `0.99`. -/
def c099 : α := (4458563631096791 : α) / 4503599627370496

/-- `LineSegment2D.from_end_points(seg.p1.move(-m_v), seg.p2.move(m_v))` with
`m_v = seg.v.normalize() * under_tol`. -/
def extendSeg (M : MathOps α) (underTol : α) (s : LR2 α) : LR2 α :=
  let n := v2_normalize M s.v
  let mv : V2 α := ⟨n.x * underTol, n.y * underTol⟩
  seg2_from_end_points (p2_move s.p ⟨-mv.x, -mv.y⟩) (p2_move (seg2_p2 s) mv)

/-- The intersection points kept for one segment: `intersect_line_segment2d(seg, other)` that
exist and are not equivalent to an end point of `seg`. -/
def intersectPts (tol : α) (seg : LR2 α) (others : List (LR2 α)) : List (V2 α) :=
  others.filterMap (fun o =>
    match intersect_line_segment2d seg o with
    | none => none
    | some p =>
      if a_p2d_is_equivalent p seg.p tol || a_p2d_is_equivalent p (seg2_p2 seg) tol then none
      else some p)

/-- The pieces of one segment. -/
def splitSeg (M : MathOps α) (tol : α) (seg : LR2 α) (pts : List (V2 α)) : List (LR2 α) :=
  match pts with
  | [] => [seg]
  | [p] => [seg2_from_end_points seg.p p, seg2_from_end_points p (seg2_p2 seg)]
  | _ =>
    let sorted := (sortAsc (pts.map (fun p => (p2_distance_to_point M seg.p p, p)))).map (·.2)
    ((sorted ++ [seg2_p2 seg]).foldl (fun (st : V2 α × List (LR2 α)) s =>
      (s, if a_p2d_is_equivalent st.1 s tol then st.2
          else st.2 ++ [seg2_from_end_points st.1 s])) (seg.p, [])).2

/-- `DirectedGraphNetwork._intersect_segments(segments, additional_segments, tolerance)`. -/
def intersectSegments (M : MathOps α) (segs adds : List (LR2 α)) (tol : α) : List (LR2 α) :=
  let ext := (segs ++ adds).map (extendSeg M (tol * c099))
  (segs.zipIdx).flatMap (fun si =>
    splitSeg M tol si.1 (intersectPts tol si.1 (ext.take si.2 ++ ext.drop (si.2 + 1))))

/-- `_remove_segments_outside_boundary` BEFORE 0a32af8 (end points only). -/
def removeOutside (M : MathOps α) (segs : List (LR2 α)) (boundary : List (V2 α)) (tol : α) :
    List (LR2 α) :=
  segs.filter (fun s =>
    decide (0 ≤ polygon2d_point_relationship M boundary (seg2_p2 s) tol) &&
    decide (0 ≤ polygon2d_point_relationship M boundary s.p tol))

/-- `Option`-valued map: `none` as soon as one element fails. -/
def allSome {β : Type} : List (Option β) → Option (List β)
  | [] => some []
  | none :: _ => none
  | some x :: xs => match allSome xs with
    | some r => some (x :: r)
    | none => none

/-- `_remove_segments_outside_boundary(segments, boundary, tolerance, holes)` (since 0a32af8):
besides both ends on or inside the boundary, the MIDDLE of the
piece must be strictly inside the boundary and strictly outside every hole (the pieces were
split at every edge, so the middle decides for the whole piece). -/
def removeOutsideFixed (M : MathOps α) (segs : List (LR2 α)) (boundary : List (V2 α))
    (holes : List (List (V2 α))) (tol : α) : List (LR2 α) :=
  segs.filter (fun s =>
    decide (0 ≤ polygon2d_point_relationship M boundary (seg2_p2 s) tol) &&
    decide (0 ≤ polygon2d_point_relationship M boundary s.p tol) &&
    decide (polygon2d_point_relationship M boundary (seg2_midpoint s) tol = 1) &&
    holes.all (fun h => decide (polygon2d_point_relationship M h (seg2_midpoint s) tol = -1)))

/-- One pass of `_remove_dangling_segments(segments, dg)` (since 0a32af8): keep the pieces whose
two end keys are nodes of the boundary / hole graph or ends of another piece. -/
def danglingPass (hash : V2 α → κ) (g : Graph α κ) (segs : List (LR2 α)) : List (LR2 α) :=
  let keys := segs.map (fun s => (hash s.p, hash (seg2_p2 s)))
  let ends := keys.flatMap (fun k => [k.1, k.2])
  (segs.zip keys).filterMap (fun sk =>
    if (g.has sk.2.1 || decide (1 < ends.count sk.2.1)) &&
       (g.has sk.2.2 || decide (1 < ends.count sk.2.2)) then some sk.1 else none)

/-- `_remove_dangling_segments`: repeat until nothing is removed. -/
def removeDangling (hash : V2 α → κ) (g : Graph α κ) : Nat → List (LR2 α) → List (LR2 α)
  | 0, segs => segs
  | fuel + 1, segs =>
    if segs.isEmpty then segs else
    let c := danglingPass hash g segs
    if c.length = segs.length then segs else removeDangling hash g fuel c

/-- The cut pieces that `from_shape_to_split` adds as bidirectional edges (`fixed = true`: the
code as it is; `fixed = false`: before 0a32af8, end-point filter only; `dg` is the graph of the boundary
and the holes). -/
def cutPiecesG (fixed : Bool) (M : MathOps α) (hash : V2 α → κ) (dg : Graph α κ)
    (b : List (V2 α)) (holes : List (List (V2 α))) (cuts : List (LR2 α)) (tol : α) :
    List (LR2 α) :=
  let pieces :=
    intersectSegments M cuts (polygon2d_segments b ++ holes.flatMap polygon2d_segments) tol
  if fixed then
    let inside := removeOutsideFixed M pieces b holes tol
    removeDangling hash dg (inside.length + 1) inside
  else removeOutside M pieces b tol

/-- `DirectedGraphNetwork.from_shape_to_split(boundary, holes, split_segments, tolerance)`;
`none` = `remove_colinear_vertices` raised.  Note that the cutting segments are intersected
with the segments of the ORIGINAL holes (the loop variable `hole` is rebound, the list
`holes` is not); the filter sees those original holes as well. -/
def fromShapeToSplitG (fixed : Bool) (M : MathOps α) (hash : V2 α → κ) (boundary : List (V2 α))
    (holes : List (List (V2 α))) (cuts : List (LR2 α)) (tol : α) : Option (Graph α κ) :=
  match polygon2d_remove_colinear_vertices M boundary tol with
  | none => none
  | some b =>
    match allSome (holes.map (fun h => polygon2d_remove_colinear_vertices M h tol)) with
    | none => none
    | some hs =>
      let boundPts := (intersectSegments M (polygon2d_segments b) cuts tol).map (·.p)
      let splitHoles := hs.map (fun h =>
        (intersectSegments M (polygon2d_segments h) cuts tol).map (·.p))
      let dg := fromShapeWithHoles hash boundPts splitHoles
      some ((cutPiecesG fixed M hash dg b holes cuts tol).foldl (fun g s =>
        (addNode hash (addNode hash g (seg2_p2 s) [s.p] (some false)).1 s.p [seg2_p2 s]
          (some false)).1) dg)

/-- The code as it is now. -/
abbrev fromShapeToSplit (M : MathOps α) (hash : V2 α → κ) (boundary : List (V2 α))
    (holes : List (List (V2 α))) (cuts : List (LR2 α)) (tol : α) : Option (Graph α κ) :=
  fromShapeToSplitG true M hash boundary holes cuts tol

/-! ## Cycle extraction -/

/-- `is_edge_bidirect`. -/
def isBidirect (a b : GNode α κ) : Bool := decide (a.key ∈ b.adj) && decide (b.key ∈ a.adj)

/-- `next_exterior_node(node)`: the first adjacent node flagged `exterior=True`, or with
`exterior=None` and a one-way edge. -/
def nextExteriorNode (g : Graph α κ) (n : GNode α κ) : Option κ :=
  n.adj.findSome? (fun k =>
    match g.find? k with
    | none => none
    | some m =>
      match m.ext with
      | some true => some k
      | some false => none
      | none => if isBidirect n m then none else some k)

/-- `Vector2D.angle`'s `except ValueError` (acos argument outside [-1, 1] by rounding). -/
def clampAcos (M : MathOps α) : MathOps α :=
  { M with acos := fun x => if x < -1 then M.acos (-1) else if 1 < x then M.acos 1 else M.acos x }

/-- The double `1e-5`. -/
def eps5 : α := (5902958103587057 : α) / 590295810358705651712

/-- `prev_dir.angle_clockwise(edge_dir * -1) if prev_dir is not None else math.pi`. -/
def cwAngle (M : MathOps α) (prev : Option (V2 α)) (edge : V2 α) : α :=
  match prev with
  | none => M.pi
  | some p => a_v2d_angle_clockwise (clampAcos M) p ⟨edge.x * (-1), edge.y * (-1)⟩

/-- The neighbour the counter-clockwise search continues with: neighbours whose clockwise
angle is strictly between `1e-5` and `2π - 1e-5` (all neighbours if there is none), stably
sorted by the angle when there are several, first one. -/
def pickNeighbor (M : MathOps α) (g : Graph α κ) (node : GNode α κ) (prev : Option (V2 α)) :
    Option κ :=
  let cand : List (α × κ) := node.adj.filterMap (fun k =>
    (g.find? k).map (fun nb => (cwAngle M prev (V2.sub nb.pt node.pt), k)))
  let rel := cand.filter (fun c => decide (eps5 < c.1 ∧ c.1 < 2 * M.pi - eps5))
  let lastResort := cand.filter (fun c => !(decide (eps5 < c.1 ∧ c.1 < 2 * M.pi - eps5)))
  let chosen := if rel.isEmpty then lastResort else rel
  let sorted := if 1 < chosen.length then sortAsc chosen else chosen
  (sorted.head?).map (·.2)

/-- The `while queue:` loop of `min_cycle(base_node, goal_node, ccw_only=True)`.  `path` is the
single path in the queue, `explored` the list of explored keys. -/
def minCycleWalk (M : MathOps α) (g : Graph α κ) (goal : κ) (origDir : Option (V2 α)) :
    Nat → List κ → List κ → Option (List κ)
  | 0, _, _ => none
  | fuel + 1, explored, path =>
    match path.getLast? with
    | none => none
    | some nk =>
      if nk ∈ explored then none else
      match g.find? nk with
      | none => none
      | some node =>
        if goal ∈ node.adj then some (path ++ [goal]) else
        let prev : Option (V2 α) := match path.dropLast.getLast? with
          | some pk => (match g.find? pk with
              | some p => some (V2.sub node.pt p.pt)
              | none => origDir)
          | none => origDir
        match pickNeighbor M g node prev with
        | none => none
        | some nx => minCycleWalk M g goal origDir fuel (explored ++ [nk]) (path ++ [nx])

/-- `min_cycle(base_node, goal_node, ccw_only=True)`. -/
def minCycle (M : MathOps α) (g : Graph α κ) (baseK goalK : κ) : Option (List κ) :=
  let origDir : Option (V2 α) :=
    if baseK = goalK then none else
    match g.find? baseK, g.find? goalK with
    | some b, some gl => some (V2.sub b.pt gl.pt)
    | _, _ => none
  minCycleWalk M g goalK origDir (g.nodes.length + 1) [] [baseK]

/-- State of the main loop of `all_min_cycles`. -/
structure AmcState (κ : Type) where
  counts : List (κ × Int)
  remaining : List κ
  explored : List κ
  cycles : List (List κ)

def countOf (cs : List (κ × Int)) (k : κ) : Int :=
  match cs.find? (fun p => decide (p.1 = k)) with
  | some p => p.2
  | none => 0

def decCount (cs : List (κ × Int)) (k : κ) : List (κ × Int) :=
  cs.map (fun p => if p.1 = k then (p.1, p.2 - 1) else p)

/-- `(cycle_root's partner next_node, ext_cycle)`. -/
def chooseNext (g : Graph α κ) (counts : List (κ × Int)) (root : GNode α κ) : κ × Bool :=
  let ext1 : Option κ := if root.ext = some true then nextExteriorNode g root else none
  match ext1 with
  | some k => (k, true)
  | none =>
    match root.adj.find? (fun k => decide (countOf counts k ≠ 0)) with
    | some k => (k, true)
    | none => (root.key, false)

/-- Accept a cycle: decrement the counts of its nodes, drop exhausted nodes from
`remaining_nodes`, record the cycle and its nodes as explored. -/
def acceptCycle (s : AmcState κ) (c : List κ) : AmcState κ :=
  let cr := c.foldl (fun (cr : List (κ × Int) × List κ) k =>
      let cs := decCount cr.1 k
      (cs, if countOf cs k = 0 then cr.2.erase k else cr.2)) (s.counts, s.remaining)
  { counts := cr.1, remaining := cr.2, explored := s.explored ++ c, cycles := s.cycles ++ [c] }

/-- `remaining_nodes.insert(0, remaining_nodes.pop(j))` with `j` the first unexplored
position (the LAST position if every remaining node is explored). -/
def reorder (remaining explored : List κ) : List κ :=
  match remaining with
  | [] => []
  | _ =>
    let j := match remaining.findIdx? (fun k => !(decide (k ∈ explored))) with
      | some j => j
      | none => remaining.length - 1
    match remaining[j]? with
    | some x => x :: remaining.eraseIdx j
    | none => remaining

/-- One iteration of the main `while` loop of `all_min_cycles`. -/
def amcStep (M : MathOps α) (g : Graph α κ) (s : AmcState κ) : AmcState κ :=
  match s.remaining with
  | [] => s
  | rootK :: _ =>
    match g.find? rootK with
    | none => s
    | some root =>
      let ne := chooseNext g s.counts root
      let s1 : AmcState κ :=
        match minCycle M g ne.1 rootK with
        | none => s
        | some c0 =>
          if 3 ≤ c0.length then
            let c := if ne.2 then c0 else c0.dropLast
            if c.all (fun k => decide (0 ≤ countOf s.counts k - 1)) then acceptCycle s c else s
          else s
      { s1 with remaining := reorder s1.remaining s1.explored }

/-- `while len(remaining_nodes) > 1 and iter_count < max_iter`. -/
def amcLoop (M : MathOps α) (g : Graph α κ) : Nat → AmcState κ → AmcState κ
  | 0, s => s
  | fuel + 1, s => if 1 < s.remaining.length then amcLoop M g fuel (amcStep M g s) else s

/-- The inner loop of the "see if they are all in the same loop" fallback. -/
def lastCycleLoop (g : Graph α κ) : Nat → List κ → List κ → List κ → List κ
  | 0, _, _, cyc => cyc
  | fuel + 1, curAdj, rem, cyc =>
    if rem.isEmpty then cyc else
    match rem.find? (fun k => decide (k ∈ curAdj)) with
    | some k => lastCycleLoop g fuel (g.adjOf k) (rem.erase k) (cyc ++ [k])
    | none => lastCycleLoop g fuel curAdj rem cyc

/-- The fallback after the main loop (at least 3 nodes left): chain the remaining nodes along
adjacencies.  (The code reads the adjacency of the leaked loop variable `node`, which at this
point is `remaining_nodes[0]`, the node the last `reorder` moved to the front.) -/
def lastCycle (g : Graph α κ) (remaining : List κ) : Option (List κ) :=
  if 3 ≤ remaining.length then
    match remaining with
    | [] => none
    | cur :: rest =>
      let cyc := lastCycleLoop g rest.length (g.adjOf cur) rest [cur]
      if 2 < cyc.length then some cyc else none
  else none

def amcInit (g : Graph α κ) : AmcState κ :=
  { counts := g.nodes.map (fun n => (n.key, (n.adj.length : Int))),
    remaining := g.nodes.map (·.key), explored := [], cycles := [] }

/-- `DirectedGraphNetwork.all_min_cycles()` as lists of keys. -/
def allMinCycles (M : MathOps α) (g : Graph α κ) : List (List κ) :=
  let s := amcLoop M g g.nodes.length (amcInit g)
  match lastCycle g s.remaining with
  | some c => s.cycles ++ [c]
  | none => s.cycles

/-! ## `Face3D.split_with_*` in plane coordinates -/

/-- One face of the result: boundary and holes. -/
abbrev FaceL (α : Type) := List (V2 α) × List (List (V2 α))

/-- `Face3D(pt_3ds, plane=prim_pl)` (clockwise loops are reversed) followed by
`remove_colinear_vertices(tolerance)`; `none` = `AssertionError`, caught by the caller. -/
def cycleLoop (M : MathOps α) (g : Graph α κ) (tol : α) (c : List κ) : Option (List (V2 α)) :=
  if c.length < 3 then none else
  let pts := c.filterMap (fun k => (g.find? k).map (·.pt))
  let pts' := if polygon2d_is_clockwise pts then pts.reverse else pts
  polygon2d_remove_colinear_vertices M pts' tol

/-- `Face3D._match_holes_to_face(base_face, other_faces, tol)` → (holes, the other faces left).
The `while more_to_check` loop runs at most once per face. -/
def matchHoles (base : List (V2 α)) :
    Nat → List (List (V2 α)) → List (List (V2 α)) → List (List (V2 α)) × List (List (V2 α))
  | 0, holes, others => (holes, others)
  | fuel + 1, holes, others =>
    match others.findIdx? (fun r => polygon2d_is_polygon_inside base r &&
        !(holes.any (fun h => polygon2d_is_polygon_inside h r))) with
    | none => (holes, others)
    | some i =>
      match others[i]? with
      | some r => matchHoles base fuel (holes ++ [r]) (others.eraseIdx i)
      | none => (holes, others)

/-- The `while len(remain_faces) > 0` loop of `merge_faces_to_holes`. -/
def mergeLoop : Nat → List (V2 α) → List (List (V2 α)) → List (FaceL α) → List (FaceL α)
  | 0, _, _, out => out
  | fuel + 1, base, remain, out =>
    if remain.isEmpty then out else
    let hr := matchHoles base (remain.length + 1) [] remain
    let out1 := out ++ [(base, hr.1)]
    match hr.2 with
    | [] => out1
    | [r] => out1 ++ [(r, [])]
    | r :: rs => mergeLoop fuel r rs out1

/-- `Face3D.merge_faces_to_holes(faces, tolerance)` for faces without holes on one plane. -/
def mergeFacesToHoles (faces : List (List (V2 α))) : List (FaceL α) :=
  match (sortDesc (faces.map (fun f => (polygon2d_area f, f)))).map (·.2) with
  | [] => []
  | base :: remain => mergeLoop (remain.length + 1) base remain []

/-- `split_faces`: the cycles with at least 3 nodes turned into faces that survive
`remove_colinear_vertices`. -/
def piecesOfGraph (M : MathOps α) (g : Graph α κ) (tol : α) : List (List (V2 α)) :=
  (allMinCycles M g).filterMap (cycleLoop M g tol)

/-- `if len(split_faces) <= 1: return None` / `return Face3D.merge_faces_to_holes(...)`.
`fixed = true` (since 2c5e096): `None` also when the merged result is a single
face (the cycles were the boundary and its holes: not split). -/
def facesOfPiecesG (fixed : Bool) (pieces : List (List (V2 α))) : Option (List (FaceL α)) :=
  if pieces.length ≤ 1 then none else
  let merged := mergeFacesToHoles pieces
  if fixed && decide (merged.length ≤ 1) then none else some merged

abbrev facesOfPieces (pieces : List (List (V2 α))) : Option (List (FaceL α)) :=
  facesOfPiecesG true pieces

/-- The common tail of `split_with_line / lines / polyline`: graph, cycles, faces. -/
def splitCoreG (fixed : Bool) (M : MathOps α) (hash : V2 α → κ) (boundary : List (V2 α))
    (holes : List (List (V2 α))) (cuts : List (LR2 α)) (tol : α) : Option (List (FaceL α)) :=
  match fromShapeToSplitG fixed M hash boundary holes cuts tol with
  | none => none
  | some g => facesOfPiecesG fixed (piecesOfGraph M g tol)

abbrev splitCore (M : MathOps α) (hash : V2 α → κ) (boundary : List (V2 α))
    (holes : List (List (V2 α))) (cuts : List (LR2 α)) (tol : α) : Option (List (FaceL α)) :=
  splitCoreG true M hash boundary holes cuts tol

/-- The pieces before `merge_faces_to_holes` (`split_faces`). -/
def splitPiecesG (fixed : Bool) (M : MathOps α) (hash : V2 α → κ) (boundary : List (V2 α))
    (holes : List (List (V2 α))) (cuts : List (LR2 α)) (tol : α) : Option (List (List (V2 α))) :=
  match fromShapeToSplitG fixed M hash boundary holes cuts tol with
  | none => none
  | some g => some (piecesOfGraph M g tol)

abbrev splitPieces (M : MathOps α) (hash : V2 α → κ) (boundary : List (V2 α))
    (holes : List (List (V2 α))) (cuts : List (LR2 α)) (tol : α) : Option (List (List (V2 α))) :=
  splitPiecesG true M hash boundary holes cuts tol

def segOf (c : V2 α × V2 α) : LR2 α := seg2_from_end_points c.1 c.2

/-- The segments `split_with_line` hands to the graph (`none`: returns `None` before). -/
def lineSegs (boundary : List (V2 α)) (cut : V2 α × V2 α) (tol : α) : Option (List (LR2 α)) :=
  if polygon2d_overlapping_bounding_rect boundary [cut.1, cut.2] tol then some [segOf cut]
  else none

/-- The segments `split_with_lines` hands to the graph: longer than the tolerance and with an
overlapping bounding rectangle; `none` if there is none. -/
def linesSegs (M : MathOps α) (boundary : List (V2 α)) (cuts : List (V2 α × V2 α)) (tol : α) :
    Option (List (LR2 α)) :=
  let rel := cuts.filter (fun c => decide (tol < seg2_length M (segOf c)) &&
    polygon2d_overlapping_bounding_rect boundary [c.1, c.2] tol)
  if rel.isEmpty then none else some (rel.map segOf)

/-- The segments `split_with_polyline` hands to the graph: the relevance filter only decides
whether anything is done; ALL segments of the polyline go into the graph. -/
def polylineSegs (M : MathOps α) (boundary : List (V2 α)) (pl : List (V2 α)) (tol : α) :
    Option (List (LR2 α)) :=
  if polygon2d_overlapping_bounding_rect boundary pl tol then
    let segs := polyline2_segments pl false
    let rel := segs.filter (fun s => decide (tol < seg2_length M s) &&
      polygon2d_overlapping_bounding_rect boundary [s.p, seg2_p2 s] tol)
    if rel.isEmpty then none else some segs
  else none

/-- `Face3D.split_with_line(line, tolerance)` (line in the plane). -/
def splitWithLineG (fixed : Bool) (M : MathOps α) (hash : V2 α → κ) (boundary : List (V2 α))
    (holes : List (List (V2 α))) (cut : V2 α × V2 α) (tol : α) : Option (List (FaceL α)) :=
  match lineSegs boundary cut tol with
  | some segs => splitCoreG fixed M hash boundary holes segs tol
  | none => none

/-- `Face3D.split_with_lines(lines, tolerance)` (lines in the plane). -/
def splitWithLinesG (fixed : Bool) (M : MathOps α) (hash : V2 α → κ) (boundary : List (V2 α))
    (holes : List (List (V2 α))) (cuts : List (V2 α × V2 α)) (tol : α) :
    Option (List (FaceL α)) :=
  match linesSegs M boundary cuts tol with
  | some segs => splitCoreG fixed M hash boundary holes segs tol
  | none => none

/-- `Face3D.split_with_polyline(polyline, tolerance)` (polyline in the plane). -/
def splitWithPolylineG (fixed : Bool) (M : MathOps α) (hash : V2 α → κ)
    (boundary : List (V2 α)) (holes : List (List (V2 α))) (pl : List (V2 α)) (tol : α) :
    Option (List (FaceL α)) :=
  match polylineSegs M boundary pl tol with
  | some segs => splitCoreG fixed M hash boundary holes segs tol
  | none => none

abbrev splitWithLine (M : MathOps α) (hash : V2 α → κ) (boundary : List (V2 α))
    (holes : List (List (V2 α))) (cut : V2 α × V2 α) (tol : α) : Option (List (FaceL α)) :=
  splitWithLineG true M hash boundary holes cut tol

abbrev splitWithLines (M : MathOps α) (hash : V2 α → κ) (boundary : List (V2 α))
    (holes : List (List (V2 α))) (cuts : List (V2 α × V2 α)) (tol : α) :
    Option (List (FaceL α)) :=
  splitWithLinesG true M hash boundary holes cuts tol

abbrev splitWithPolyline (M : MathOps α) (hash : V2 α → κ) (boundary : List (V2 α))
    (holes : List (List (V2 α))) (pl : List (V2 α)) (tol : α) : Option (List (FaceL α)) :=
  splitWithPolylineG true M hash boundary holes pl tol

end generic

/-! ## `coordinates_hash` at ℚ -/

/-- Round half to even (Python `round` on the exact value of the double). -/
def roundHalfEven (q : ℚ) : Int :=
  let f := Rat.floor q
  let r := q - f
  if r < 1 / 2 then f else if 1 / 2 < r then f + 1 else if f % 2 = 0 then f else f + 1

def pow10 (e : Int) : ℚ := if 0 ≤ e then (10 : ℚ) ^ e.toNat else 1 / (10 : ℚ) ^ (-e).toNat

/-- `k` with `10^k ≤ t < 10^(k+1)` for `t > 0` (search with fuel). -/
def floorLog10 : Nat → ℚ → Int
  | 0, _ => 0
  | fuel + 1, t => if 10 ≤ t then floorLog10 fuel (t / 10) + 1
                   else if t < 1 then floorLog10 fuel (t * 10) - 1 else 0

/-- `int(math.log10(t))`: truncation toward zero; a value within 2⁻⁵¹ (relative) of a power of
ten gives that exponent (`math.log10` returns the integer there). -/
def truncLog10 (t : ℚ) : Int :=
  let k := floorLog10 400 t
  let w : ℚ := 1 / 2 ^ 51
  if |t - pow10 k| ≤ pow10 k * w then k
  else if |t - pow10 (k + 1)| ≤ pow10 (k + 1) * w then k + 1
  else if t < 1 then k + 1 else k

/-- The rounding grid of `coordinates_hash` for one tolerance: keys are
`base * round(v / base, rtol)`; coordinates below `ztol` count as zero. -/
structure KeyGrid where
  base : ℚ
  rtol : Int
  ztol : ℚ

/-- `e` with `2^e ≤ q < 2^(e+1)` for `q > 0` (search with fuel). -/
def floorLog2 : Nat → ℚ → Int
  | 0, _ => 0
  | fuel + 1, q => if 2 ≤ q then floorLog2 fuel (q / 2) + 1
                   else if q < 1 then floorLog2 fuel (q * 2) - 1 else 0

def pow2 (e : Int) : ℚ := if 0 ≤ e then (2 : ℚ) ^ e.toNat else 1 / (2 : ℚ) ^ (-e).toNat

/-- Round to the nearest IEEE double (53 significant bits, ties to even; no overflow /
subnormal handling: the values here are tolerances times powers of ten). -/
def roundToDouble (q : ℚ) : ℚ :=
  if q = 0 then 0 else
  let a := |q|
  let e := floorLog2 1200 a - 52
  let m := roundHalfEven (a / pow2 e)
  let r := (m : ℚ) * pow2 e
  if q < 0 then -r else r

/-- The first lines of `coordinates_hash(point, tolerance)`:
`base = int(tolerance * 10 ** (rtol + 1))` is a float product (one rounding; `10 ** n` is an
exact integer for `n ≥ 0` and a double for `n < 0`). -/
def keyGrid (t : ℚ) : KeyGrid :=
  let rtol0 : Int := if 0 < t then -(truncLog10 t) else 0
  let p10 : ℚ := if 0 ≤ rtol0 + 1 then pow10 (rtol0 + 1) else roundToDouble (pow10 (rtol0 + 1))
  let v := roundToDouble (t * p10)
  let base : Int := if v < 0 then -(Rat.floor (-v)) else Rat.floor v
  if base = 10 ∨ base = 0 then ⟨1, rtol0, t / 2⟩ else ⟨base, rtol0 + 1, t / 2⟩

/-- `coordinates_hash(point, tolerance)` as the pair of integer multiples of the rounding unit
`base * 10^-rtol`: `round(v / base, rtol)` rounds the exact value of the DOUBLE quotient
(`v / base` is exact for `base` 1 or 2, e.g. tolerance 0.01) half to even. -/
def coordKeyG (gr : KeyGrid) (p : V2 ℚ) : Int × Int :=
  let x := if |p.x| < gr.ztol then 0 else p.x
  let y := if |p.y| < gr.ztol then 0 else p.y
  (roundHalfEven (roundToDouble (x / gr.base) * pow10 gr.rtol),
   roundHalfEven (roundToDouble (y / gr.base) * pow10 gr.rtol))

/-- Keys of a graph built with face tolerance `tol` (`self._tolerance = tolerance * 2`). -/
def coordKey (tol : ℚ) : V2 ℚ → Int × Int := coordKeyG (keyGrid (tol * 2))

/-! ## A kernel-computable `math` for lattice inputs

`sqrt` is exact on squares of rationals (all lengths of axis-parallel lattice segments) and a
lower approximation to 10⁻¹² elsewhere; `acos` is exact at -1, 0, 1 (all angles between
axis-parallel directions: 0, π/2, π with π the double `math.pi`) and a decreasing
interpolation elsewhere.  The correspondence module runs the lattice cases of the world XY
plane with these operations as well (ops `…_lat`) and finds the same answers as with IEEE
doubles. -/

def natSqrtIter : Nat → Nat → Nat → Nat
  | 0, _, x => x
  | fuel + 1, n, x => let y := (x + n / x) / 2; if y < x then natSqrtIter fuel n y else x

/-- ⌊√n⌋ by Newton iteration from above. -/
def natSqrt (n : Nat) : Nat := if n = 0 then 0 else natSqrtIter (n.log2 + 2) n (2 ^ (n.log2 / 2 + 1))

def latSqrt (q : ℚ) : ℚ :=
  if q ≤ 0 then 0 else
  let n := q.num.natAbs
  let d := q.den
  let sn := natSqrt n
  let sd := natSqrt d
  if sn * sn = n ∧ sd * sd = d then (sn : ℚ) / sd
  else (natSqrt (n * d * 10 ^ 24) : ℚ) / ((d : ℚ) * 10 ^ 12)

def latPi : ℚ := 884279719003555 / 281474976710656

def latticeOps : MathOps ℚ where
  sqrt := latSqrt
  sin _ := 0
  cos _ := 0
  tan _ := 0
  acos x := if 1 ≤ x then 0 else if x ≤ -1 then latPi else latPi / 2 * (1 - x)
  asin _ := 0
  atan2 _ _ := 0
  pi := latPi
  floor x := (Rat.floor x : ℚ)

end Lbg.Model.Net
