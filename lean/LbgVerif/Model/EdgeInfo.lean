/-
  Model/EdgeInfo — LITERAL hand model of the edge-incidence loop shared by
  `Polyface3D.__init__` (geometry3d/polyface.py l.74-102) and
  `MeshBase._compute_edge_info` (_mesh.py l.340):

      edge_i = []
      edge_t = []
      for face in face_indices:            # (meshes: one loop per face)
          for fi in face:
              for i, vi in enumerate(fi):
                  try:
                      ind = edge_i.index((vi, fi[i - 1]))       # reversed side first
                      edge_t[ind] += 1
                  except ValueError:
                      try:
                          ind = edge_i.index((fi[i - 1], vi))   # then the side as walked
                          edge_t[ind] += 1
                      except ValueError:
                          if fi[i - 1] != vi:
                              edge_i.append((fi[i - 1], vi))    # stored as walked: (prev, cur)
                              edge_t.append(0)
      ...
      self._is_solid = True
      for edge in self._edge_types:
          if edge != 1:
              self._is_solid = False
              break

  `for i, vi in enumerate(fi)` with `fi[i - 1]` visits exactly `Lbg.cyclicPairs fi`
  (pairs `(fi[i-1], fi[i])`, the first one wrapping around to the last vertex).

  The model follows the code step by step (two parallel lists, first-occurrence look-up,
  in-place increment); the property theorems about it are in `Props/C07.lean`.
-/
import LbgVerif.Basic

namespace Lbg.Model.EdgeInfo

/-- A directed side `(fi[i-1], fi[i])` as stored in `edge_indices`. -/
abbrev DEdge := Nat × Nat

/-- The two parallel lists the loop builds. -/
structure St where
  edge_i : List DEdge
  edge_t : List Nat
deriving Repr, DecidableEq

/-- Python `list.index(x)`: position of the first element equal to `x`;
`none` stands for `ValueError`. -/
def pyIndex : List DEdge → DEdge → Option Nat
  | [], _ => none
  | y :: t, x => if y = x then some 0 else (pyIndex t x).map (· + 1)

/-- `edge_t[ind] += 1`. -/
def bump : List Nat → Nat → List Nat
  | [], _ => []
  | c :: t, 0 => (c + 1) :: t
  | c :: t, i + 1 => c :: bump t i

/-- Body of the innermost loop for the side `p = (fi[i-1], vi)`. -/
def step (s : St) (p : DEdge) : St :=
  match pyIndex s.edge_i (p.2, p.1) with
  | some ind => ⟨s.edge_i, bump s.edge_t ind⟩
  | none =>
    match pyIndex s.edge_i (p.1, p.2) with
    | some ind => ⟨s.edge_i, bump s.edge_t ind⟩
    | none =>
      if p.1 ≠ p.2 then ⟨s.edge_i ++ [(p.1, p.2)], s.edge_t ++ [0]⟩ else s

/-- `for i, vi in enumerate(fi): …` — one loop of vertex indices. -/
def loopStep (s : St) (fi : List Nat) : St := (Lbg.cyclicPairs fi).foldl step s

/-- `for fi in face: …` — one polyface face (boundary loop followed by hole loops). -/
def faceStep (s : St) (face : List (List Nat)) : St := face.foldl loopStep s

/-- `Polyface3D.__init__` without `edge_information`: the autocalculated
`(edge_indices, edge_types)`. -/
def edgeInfo (faces : List (List (List Nat))) : St := faces.foldl faceStep ⟨[], []⟩

/-- `MeshBase._compute_edge_info`: faces are single loops. -/
def meshEdgeInfo (faces : List (List Nat)) : St := faces.foldl loopStep ⟨[], []⟩

/-- The `_is_solid` loop: every edge type equals 1. -/
def isSolidOf (edge_t : List Nat) : Bool := edge_t.all (fun t => t == 1)

/-- `Polyface3D.is_solid` for autocalculated edge information. -/
def isSolid (faces : List (List (List Nat))) : Bool := isSolidOf (edgeInfo faces).edge_t

/-- `naked_edges` / `internal_edges` / `non_manifold_edges` select the stored edges whose
type is 0 / 1 / anything else (polyface.py l.300-345, `_mesh.py` likewise). -/
def edgesOfType (s : St) (p : Nat → Bool) : List DEdge :=
  ((s.edge_i.zip s.edge_t).filter (fun et => p et.2)).map Prod.fst

def nakedEdges (s : St) : List DEdge := edgesOfType s (fun t => t == 0)
def internalEdges (s : St) : List DEdge := edgesOfType s (fun t => t == 1)
def nonManifoldEdges (s : St) : List DEdge := edgesOfType s (fun t => decide (2 ≤ t))

end Lbg.Model.EdgeInfo
