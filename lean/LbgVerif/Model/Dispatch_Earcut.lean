/- Driver table for the ear-clipping model `Model/Earcut` (property C05).

   op "model.earcut"  args = [vertices]            (no holes)
                      args = [vertices, hole_indices]
     vertices     : [[x, y], …]   numbers as "n/d"
     hole_indices : [k, …]        start vertex index of every hole
   answer: the flat triangle index list exactly as `earcut` returns it; an error when the
   model's fuel ran out or the run hits the unmodelled stale-node corner.
   op "model.earcut_events": the same run as a list of event tags (for histograms).
   op "model.earcut_run": {"triangles": …, "events": …} of one run. -/
import LbgVerif.Wire
import LbgVerif.Model.Earcut

namespace Lbg.Model
open Lean Lbg.Wire Lbg.Model.Earcut

def evTag : Ev → String
  | Ev.ear .. => "ear"
  | Ev.cure .. => "cure"
  | Ev.filt .. => "filt"
  | Ev.left r => s!"left{r.length}"
  | Ev.oof _ => "oof"
  | Ev.split .. => "split"
  | Ev.hole _ b => if b then "bridge" else "nobridge"

def earcutEvents (args : Array Json) : Except String (List Ev) := do
  let pts ← (dec (args.getD 0 Json.null) : Except String (List (V2 ℚ)))
  let holes ← (match args.getD 1 Json.null with
    | Json.null => pure []
    | j => (dec j : Except String (List Nat)))
  let v : Nat → V2 ℚ := fun i => pts.getD i ⟨0, 0⟩
  run v pts.length holes

def dispatchEarcut (op : String) (args : Array Json) : Option (Except String Json) :=
  match op with
  | "model.earcut" => some (do
      let evs ← earcutEvents args
      if outOfFuel evs then throw "model out of fuel"
      pure (enc (trianglesOf evs)))
  | "model.earcut_events" => some (do
      let evs ← earcutEvents args
      pure (Json.arr ((evs.map fun e => Json.str (evTag e)).toArray)))
  | "model.earcut_run" => some (do
      let evs ← earcutEvents args
      if outOfFuel evs then throw "model out of fuel"
      pure (Json.mkObj [("triangles", enc (trianglesOf evs)),
        ("events", Json.arr ((evs.map fun e => Json.str (evTag e)).toArray))]))
  | _ => none

end Lbg.Model
