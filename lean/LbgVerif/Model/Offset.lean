/-
  Model.Offset — literal hand models of the loops of
  `Polygon2D._segments_from_vertices` (polygon.py l.2483) and of the quad-building loops of
  `Polygon2D.perimeter_core_by_offset` (polygon.py l.1567-1629, the REPAIRED clockwise-hole
  branch that assigns `pts =`).

  The segment objects are built and read back with the generated kernels
  `seg2_from_end_points` (`p = p1`, `v = p2 - p1`) and `seg2_p2` (`p + v`), exactly as the
  Python code does, so at ℚ (and in any field) `p2` is recovered exactly while in floats it is
  `p1 + (p2 - p1)`.

  `offsetMoveVec` is the body of the per-vertex loop of `Polygon2D.offset` (l.823-837) AFTER the
  half angle `ang` has been obtained (`angle_clockwise(v2) / 2` resp.
  `angle_counterclockwise(v2) / 2`, with the `ang == 0 → pi / 2` guard): rotate, normalise,
  multiply by `± distance / sin(ang)`.

  NOT modelled: the `acos` route to `ang`, the duplicate-vertex filter, the
  self-intersection checks that make the methods return `None`.
-/
import LbgVerif.Basic
import LbgVerif.Gen.Line
import LbgVerif.Gen.Poly
import LbgVerif.Gen.Vec

namespace Lbg.Model
open Lbg Lbg.Gen

section
variable {β : Type}

/-- `lst.append(lst.pop(0))`: move the first element to the end. -/
def popAppend (l : List β) : List β := l.tail ++ l.take 1

end

variable {α : Type} [Field α] [LinearOrder α]

/-- `Polygon2D._segments_from_vertices(vertices)`:
`for i, vert in enumerate(vertices): segs.append(from_end_points(vertices[i-1], vert))`
followed by `segs.append(segs.pop(0))`. -/
def segmentsOf (vs : List (V2 α)) : List (LR2 α) :=
  popAppend ((cyclicPairs vs).map (fun p => seg2_from_end_points p.1 p.2))

/-- The vertex tuple `(out_seg.p1, out_seg.p2, in_seg.p2, in_seg.p1)`. -/
def quadOut (o i : LR2 α) : List (V2 α) := [o.p, seg2_p2 o, seg2_p2 i, i.p]

/-- The vertex tuple `(out_seg.p1, in_seg.p1, in_seg.p2, out_seg.p2)` used for
counter-clockwise holes. -/
def quadHole (o i : LR2 α) : List (V2 α) := [o.p, i.p, seg2_p2 i, seg2_p2 o]

/-- `holes is None` branch: one quad per pair `zip(polygon.segments, core.segments)`. -/
def perimeterQuads (outer inner : List (V2 α)) : List (List (V2 α)) :=
  ((segmentsOf outer).zip (segmentsOf inner)).map (fun s => quadOut s.1 s.2)

/-- The quads of one hole (`p_count > 0`): the tuple depends on `out_poly.is_clockwise`. -/
def holeQuads (hole holeOffset : List (V2 α)) : List (List (V2 α)) :=
  ((segmentsOf hole).zip (segmentsOf holeOffset)).map (fun s =>
    if ¬ (polygon2d_is_clockwise hole = true) then quadHole s.1 s.2 else quadOut s.1 s.2)

/-- `holes is not None` branch: `out_polys = [polygon] + holes`,
`core_sub_polys = [core] + offset holes`; `p_count == 0` uses the outer tuple, later loops the
orientation-dependent tuple.  `holes` lists each hole with its offset. -/
def perimeterQuadsHoles (polygon core : List (V2 α))
    (holes : List (List (V2 α) × List (V2 α))) : List (List (V2 α)) :=
  perimeterQuads polygon core ++ holes.flatMap (fun h => holeQuads h.1 h.2)

/-- One pass of the `move_vecs` loop of `Polygon2D.offset` for the vertex with
`v1 = init_verts[i-1] - pt`, given the half angle `ang`:
not clockwise: `v1.rotate(-ang).normalize() * (distance / sin(ang))`;
clockwise:     `v1.rotate(ang).normalize() * (-distance / sin(ang))`. -/
def offsetMoveVec (M : MathOps α) (clockwise : Bool) (v1 : V2 α) (ang distance : α) : V2 α :=
  if ¬ (clockwise = true) then
    let m_vec := v2_normalize M (v2_rotate M v1 (-ang))
    let m_dist := distance / M.sin ang
    ⟨m_vec.x * m_dist, m_vec.y * m_dist⟩
  else
    let m_vec := v2_normalize M (v2_rotate M v1 ang)
    let m_dist := -distance / M.sin ang
    ⟨m_vec.x * m_dist, m_vec.y * m_dist⟩

end Lbg.Model
