/-
  Model/SegSeg — LITERAL hand models of the segment-to-segment routines of `intersection2d.py`
  on top of the GENERATED kernels (`Gen.closest_point2d_on_line2d_s`, `Gen.seg2_p2`,
  `Gen.p2_distance_to_point`).

      def closest_point2d_between_line2d(line_ray_a, line_ray_b):
          # one of the 4 endpoints must be a closest point
          pt_1 = closest_point2d_on_line2d(line_ray_a.p, line_ray_b)
          dist_1 = pt_1.distance_to_point(line_ray_a.p)
          a_p2 = line_ray_a.p2
          pt_2 = closest_point2d_on_line2d(a_p2, line_ray_b)
          dist_2 = pt_2.distance_to_point(a_p2)
          pt_3 = closest_point2d_on_line2d(line_ray_b.p, line_ray_a)
          dist_3 = pt_3.distance_to_point(line_ray_b.p)
          b_p2 = line_ray_b.p2
          pt_4 = closest_point2d_on_line2d(b_p2, line_ray_a)
          dist_4 = pt_4.distance_to_point(b_p2)
          dists = [dist_1, dist_2, dist_3, dist_4]
          pts = [(line_ray_a.p, pt_1), (a_p2, pt_2), (pt_3, line_ray_b.p), (pt_4, b_p2)]
          dists, i = zip(*sorted(zip(dists, range(len(pts)))))
          return dists[0], pts[i[0]]

      def closest_end_point2d_between_line2d(line_a, line_b):
          pts = [(line_a.p1, line_b.p1), (line_a.p1, line_b.p2),
                 (line_a.p2, line_b.p1), (line_a.p2, line_b.p2)]
          dists = [p1.distance_to_point(p2) for p1, p2 in pts]
          dists, i = zip(*sorted(zip(dists, range(len(pts)))))
          return dists[0], pts[i[0]]

  `sorted(zip(dists, range(n)))[0]` is the pair with the smallest distance and, among equal
  distances, the smallest index: the FIRST minimal candidate (`firstMin`).
  `LineSegment2D.closest_points_between_line` / `distance_to_line` return the second / first
  component of `closest_point2d_between_line2d(self, line)`.
-/
import LbgVerif.Basic
import LbgVerif.Gen.Isect2
import LbgVerif.Gen.Line
import LbgVerif.Gen.Vec

namespace Lbg.Model.SegSeg
open Lbg Lbg.Gen
variable {α : Type} [Field α] [LinearOrder α]

/-- First candidate of smallest distance (`sorted(zip(dists, range(n)))[0]`). -/
def firstMin {β : Type} (c0 : α × β) (rest : List (α × β)) : α × β :=
  rest.foldl (fun best c => if c.1 < best.1 then c else best) c0

/-- The four candidates of `closest_point2d_between_line2d`, in the order of the code. -/
def candidates (M : MathOps α) (a b : LR2 α) : (α × V2 α × V2 α) × List (α × V2 α × V2 α) :=
  let pt_1 := closest_point2d_on_line2d_s a.p b
  let dist_1 := p2_distance_to_point M pt_1 a.p
  let a_p2 := seg2_p2 a
  let pt_2 := closest_point2d_on_line2d_s a_p2 b
  let dist_2 := p2_distance_to_point M pt_2 a_p2
  let pt_3 := closest_point2d_on_line2d_s b.p a
  let dist_3 := p2_distance_to_point M pt_3 b.p
  let b_p2 := seg2_p2 b
  let pt_4 := closest_point2d_on_line2d_s b_p2 a
  let dist_4 := p2_distance_to_point M pt_4 b_p2
  ((dist_1, a.p, pt_1), [(dist_2, a_p2, pt_2), (dist_3, pt_3, b.p), (dist_4, pt_4, b_p2)])

/-- `closest_point2d_between_line2d(line_ray_a, line_ray_b)` →
`(distance, (point on a, point on b))`. -/
def closestPointsBetween (M : MathOps α) (a b : LR2 α) : α × V2 α × V2 α :=
  let c := candidates M a b
  firstMin c.1 c.2

/-- The four candidates of `closest_end_point2d_between_line2d`. -/
def endCandidates (M : MathOps α) (a b : LR2 α) :
    (α × V2 α × V2 α) × List (α × V2 α × V2 α) :=
  let a1 := a.p
  let a2 := seg2_p2 a
  let b1 := b.p
  let b2 := seg2_p2 b
  ((p2_distance_to_point M a1 b1, a1, b1),
   [(p2_distance_to_point M a1 b2, a1, b2), (p2_distance_to_point M a2 b1, a2, b1),
    (p2_distance_to_point M a2 b2, a2, b2)])

/-- `closest_end_point2d_between_line2d(line_a, line_b)`. -/
def closestEndPointsBetween (M : MathOps α) (a b : LR2 α) : α × V2 α × V2 α :=
  let c := endCandidates M a b
  firstMin c.1 c.2

/-- `M` with the identity as `sqrt`: running the routines with it gives the SQUARED distances
(exact over ℚ); used by the driver. -/
def sqOps (M : MathOps α) : MathOps α := { M with sqrt := fun x => x }

end Lbg.Model.SegSeg
