/-
  Model.MeshCache3 — reduced literal model of the memo-slot machine of `Mesh3D`
  (`geometry3d/mesh.py` + `MeshBase`), for the slots C03 is about:
  `_area`, `_face_areas` (scalar or tuple), `_face_normals` (single `Vector3D` = "every face",
  as seeded by `Face3D.mesh_grid`, or tuple).  Per-face normal / area are the GENERATED
  kernels `mesh3d_normal_area_tri/quad`.
  Not modelled here: `_vertex_normals` (carried by exactly the same operations as
  `_face_normals`: `_mesh_scale` and `__copy__`), `_face_centroids` (handled as in the 2D
  model), bounding-box slots (never transferred).

  Library behaviour worth knowing (read off the source, reproduced by the model):
  * `Mesh3D.face_areas` is keyed on `_face_normals is None` (not on `_face_areas`): with
    empty normals it recomputes and overwrites BOTH slots; with filled normals it returns
    `_face_areas` as is (possibly `None`) — hence the invariant `normals filled → areas filled`.
  * `Mesh3D.move / rotate / rotate_xy / reflect` all go through `_mesh_transform`, which
    keeps `_face_areas`, `_area` and DROPS the normals (`_mesh_transform_move`, which would
    keep them, is never called); only `scale` (`_mesh_scale`) and `duplicate` carry normals.
  * `remove_vertices / remove_faces / remove_faces_only` carry `_face_areas` (filtered) but
    not the normals; `Mesh3D.join_meshes` carries nothing.
-/
import LbgVerif.Basic
import LbgVerif.Gen.Mesh
import LbgVerif.Model.MeshCache

namespace Lbg.Model.MeshCache3
open Lbg Lbg.Gen Lbg.Model.MeshCache

variable {α : Type} [Field α] [LinearOrder α]

structure Mesh3C (α : Type) where
  vertices : List (V3 α)
  faces : List (List Nat)
  area : Option α
  face_areas : Option (α ⊕ List α)
  face_normals : Option (V3 α ⊕ List (V3 α))

/-- `tuple(self._vertices[i] for i in face)`. -/
def faceVerts3 (vs : List (V3 α)) (f : List Nat) : List (V3 α) :=
  f.map (fun i => vs.getD i ⟨0, 0, 0⟩)

/-- `_calculate_normal_and_area_for_triangle` / `…_for_quad` (generated kernels). -/
def faceNA (M : MathOps α) (pts : List (V3 α)) : V3 α × α :=
  match pts with
  | [a, b, c] => mesh3d_normal_area_tri M (a, b, c)
  | [a, b, c, d] => mesh3d_normal_area_quad M (a, b, c, d)
  | _ => (⟨0, 0, 0⟩, 0)

def trueFaceNormals (M : MathOps α) (vs : List (V3 α)) (fs : List (List Nat)) : List (V3 α) :=
  fs.map (fun f => (faceNA M (faceVerts3 vs f)).1)
def trueFaceAreas3 (M : MathOps α) (vs : List (V3 α)) (fs : List (List Nat)) : List α :=
  fs.map (fun f => (faceNA M (faceVerts3 vs f)).2)
def trueArea3 (M : MathOps α) (vs : List (V3 α)) (fs : List (List Nat)) : α :=
  pySum (trueFaceAreas3 M vs fs)

def fresh3 (vs : List (V3 α)) (fs : List (List Nat)) : Mesh3C α :=
  { vertices := vs, faces := fs, area := none, face_areas := none, face_normals := none }

/-- `_calculate_face_areas_and_normals`: fills BOTH slots with tuples. -/
def calcNA (M : MathOps α) (s : Mesh3C α) : Mesh3C α :=
  { s with face_normals := some (.inr (trueFaceNormals M s.vertices s.faces)),
           face_areas := some (.inr (trueFaceAreas3 M s.vertices s.faces)) }

/-- `Mesh3D.face_areas` (keyed on `_face_normals`; may return `None`). -/
def readFaceAreas3 (M : MathOps α) (s : Mesh3C α) : Option (List α) × Mesh3C α :=
  match s.face_normals with
  | none => (some (trueFaceAreas3 M s.vertices s.faces), calcNA M s)
  | some _ =>
    match s.face_areas with
    | some (.inl c) =>
      let l := s.faces.map (fun _ => c)
      (some l, { s with face_areas := some (.inr l) })
    | some (.inr l) => (some l, s)
    | none => (none, s)

/-- `Mesh3D.face_normals`. -/
def readFaceNormals3 (M : MathOps α) (s : Mesh3C α) : List (V3 α) × Mesh3C α :=
  match s.face_normals with
  | none => (trueFaceNormals M s.vertices s.faces, calcNA M s)
  | some (.inl n) =>
    let l := s.faces.map (fun _ => n)
    (l, { s with face_normals := some (.inr l) })
  | some (.inr l) => (l, s)

/-- `MeshBase.area`: `sum(self.face_areas)` (`TypeError` = `none` if that is `None`). -/
def readArea3 (M : MathOps α) (s : Mesh3C α) : Option α × Mesh3C α :=
  match s.area with
  | some a => (some a, s)
  | none =>
    let r := readFaceAreas3 M s
    match r.1 with
    | some l => (some (pySum l), { r.2 with area := some (pySum l) })
    | none => (none, r.2)

/-- `Mesh3D._mesh_transform` (used by move, rotate, rotate_xy, reflect): normals dropped. -/
def meshTransform3 (s : Mesh3C α) (verts : List (V3 α)) : Mesh3C α :=
  { fresh3 verts s.faces with face_areas := s.face_areas, area := s.area }

/-- `Mesh3D._mesh_scale`: `_transfer_properties_scale` + normals copied. -/
def meshScale3 (s : Mesh3C α) (verts : List (V3 α)) (k : α) : Mesh3C α :=
  { fresh3 verts s.faces with
    face_areas := match s.face_areas with
      | none => none
      | some (.inl c) => some (.inl (c * k ^ 2))
      | some (.inr l) => some (.inr (l.map (fun a => a * k ^ 2)))
    area := match s.area with
      | none => none
      | some a => some (a * k ^ 2)
    face_normals := s.face_normals }

def ptMove3 (v p : V3 α) : V3 α := ⟨p.x + v.x, p.y + v.y, p.z + v.z⟩
def ptScale3 (k : α) (o p : V3 α) : V3 α :=
  ⟨k * (p.x - o.x) + o.x, k * (p.y - o.y) + o.y, k * (p.z - o.z) + o.z⟩
def ptScaleWorld3 (k : α) (p : V3 α) : V3 α := ⟨p.x * k, p.y * k, p.z * k⟩

/-- `Point3D.rotate_xy` with `(c, sn) = (cos angle, sin angle)`. -/
def ptRotateXY3 (c sn : α) (o p : V3 α) : V3 α :=
  ⟨(c * (p.x - o.x) - sn * (p.y - o.y)) + o.x, (sn * (p.x - o.x) + c * (p.y - o.y)) + o.y,
   (p.z - o.z) + o.z⟩
/-- `Point3D.reflect(normal, origin)`. -/
def ptReflect3 (n o p : V3 α) : V3 α :=
  let d := 2 * ((p.x - o.x) * n.x + (p.y - o.y) * n.y + (p.z - o.z) * n.z)
  ⟨((p.x - o.x) - d * n.x) + o.x, ((p.y - o.y) - d * n.y) + o.y, ((p.z - o.z) - d * n.z) + o.z⟩

def move3 (s : Mesh3C α) (v : V3 α) : Mesh3C α := meshTransform3 s (s.vertices.map (ptMove3 v))
/-- rotate / rotate_xy / reflect: any vertex map through `_mesh_transform`. -/
def transform3 (s : Mesh3C α) (g : V3 α → V3 α) : Mesh3C α := meshTransform3 s (s.vertices.map g)
def scale3 (s : Mesh3C α) (k : α) (o : V3 α) : Mesh3C α :=
  meshScale3 s (s.vertices.map (ptScale3 k o)) k
def scaleWorld3 (s : Mesh3C α) (k : α) : Mesh3C α :=
  meshScale3 s (s.vertices.map (ptScaleWorld3 k)) k

/-- `Mesh3D.__copy__`. -/
def duplicate3 (s : Mesh3C α) : Mesh3C α :=
  { meshTransform3 s s.vertices with face_normals := s.face_normals }

/-- `Mesh3D.remove_faces_only(pattern)`: `_face_areas` filtered (scalar kept), nothing else. -/
def removeFacesOnly3 (s : Mesh3C α) (pat : List Bool) : Mesh3C α :=
  { fresh3 s.vertices (zipFilter s.faces pat) with
    face_areas := match s.face_areas with
      | none => none
      | some (.inl c) => some (.inl c)
      | some (.inr l) => some (.inr (zipFilter l pat)) }

inductive Op3 (α : Type) where
  | readArea | readFaceAreas | readFaceNormals | duplicate
  | move (v : V3 α)
  | rigid (g : V3 α → V3 α)
  | scale (k : α) (o : V3 α)
  | scaleWorld (k : α)
  | removeFacesOnly (pat : List Bool)

def step3 (M : MathOps α) (s : Mesh3C α) : Op3 α → Mesh3C α
  | .readArea => (readArea3 M s).2
  | .readFaceAreas => (readFaceAreas3 M s).2
  | .readFaceNormals => (readFaceNormals3 M s).2
  | .duplicate => duplicate3 s
  | .move v => move3 s v
  | .rigid g => transform3 s g
  | .scale k o => scale3 s k o
  | .scaleWorld k => scaleWorld3 s k
  | .removeFacesOnly pat => removeFacesOnly3 s pat

end Lbg.Model.MeshCache3
