/- Driver ops for `Model/Weld.lean` (C07: vertex welding of `Polyface3D.from_faces`),
   `Model/PointOnFace.lean` (C08: `Face3D.is_point_on_face`), `Model/ExtractRect.lean`
   (C19: `Face3D.extract_rectangle`); `math.sqrt` is evaluated as an IEEE double. -/
import LbgVerif.Wire
import LbgVerif.Model.Weld
import LbgVerif.Model.PointOnFace
import LbgVerif.Model.ExtractRect

namespace Lbg.Model
open Lean Lbg.Wire

/-- * `model.weld [faces, tol]`, `faces : List (List (List V3))` (face = boundary loop followed
      by its hole loops) → `[vertices, face_indices]` of `Polyface3D.from_faces(faces, tol)`;
    * `model.from_faces_edge_info [faces, tol]` →
      `[vertices, face_indices, edge_indices, edge_types, is_solid]`, or `null` for the
      `AssertionError` of the constructor (fewer than 3 welded vertices);
    * `model.point_on_face_test [plane, polygon2d vertices, points, tol]` → per point
      `face.is_point_on_face(point, tol)` for a face with that plane and `polygon2d`;
    * `model.point_on_face_test_face [plane, boundary, holes, points, tol]` → the same for
      `Face3D(boundary, plane, holes, enforce_right_hand=False)` (`null`: constructor raises);
    * `model.extract_rectangle [has_holes, vertices, plane, tol]` →
      `Face3D(vertices, plane, enforce_right_hand=False).extract_rectangle(tol)` as
      `[bottom_edge, top_edge, other_faces]` (segments `[p, v]`, faces as vertex lists),
      `null` (returns `None`) or `"raises"`. -/
def dispatchWeld (op : String) (args : Array Json) : Option (Except String Json) :=
  match op with
  | "model.weld" => some (do
      let fs ← (dec (args.getD 0 Json.null) : Except String (List (List (List (V3 ℚ)))))
      let tol ← (dec (args.getD 1 Json.null) : Except String ℚ)
      let r := Weld.weld3 tol fs
      pure (Json.arr #[enc r.1, enc r.2]))
  | "model.from_faces_edge_info" => some (do
      let fs ← (dec (args.getD 0 Json.null) : Except String (List (List (List (V3 ℚ)))))
      let tol ← (dec (args.getD 1 Json.null) : Except String ℚ)
      match Weld.fromFacesEdgeInfo (Weld.eqv3 tol) fs with
      | none => pure Json.null
      | some r =>
        pure (Json.arr #[enc r.1, enc r.2.1, enc r.2.2.1.edge_i, enc r.2.2.1.edge_t, enc r.2.2.2]))
  | "model.point_on_face_test" => some (do
      let pl ← (dec (args.getD 0 Json.null) : Except String (PlaneS ℚ))
      let poly ← (dec (args.getD 1 Json.null) : Except String (List (V2 ℚ)))
      let pts ← (dec (args.getD 2 Json.null) : Except String (List (V3 ℚ)))
      let tol ← (dec (args.getD 3 Json.null) : Except String ℚ)
      pure (enc (pts.map (fun p => PointOnFace.isPointOnFacePoly floatOps pl poly p tol))))
  | "model.point_on_face_test_face" => some (do
      let pl ← (dec (args.getD 0 Json.null) : Except String (PlaneS ℚ))
      let b ← (dec (args.getD 1 Json.null) : Except String (List (V3 ℚ)))
      let hs ← (dec (args.getD 2 Json.null) : Except String (List (List (V3 ℚ))))
      let pts ← (dec (args.getD 3 Json.null) : Except String (List (V3 ℚ)))
      let tol ← (dec (args.getD 4 Json.null) : Except String ℚ)
      pure (enc (pts.map (fun p => PointOnFace.isPointOnFace floatOps pl b hs p tol))))
  | "model.extract_rectangle" => some (do
      let hh ← (dec (args.getD 0 Json.null) : Except String Bool)
      let vs ← (dec (args.getD 1 Json.null) : Except String (List (V3 ℚ)))
      let pl ← (dec (args.getD 2 Json.null) : Except String (PlaneS ℚ))
      let tol ← (dec (args.getD 3 Json.null) : Except String ℚ)
      match ExtractRect.extractRectangle floatOps hh vs pl tol with
      | .raises => pure (Json.str "raises")
      | .none => pure Json.null
      | .val r => pure (Json.arr #[enc r.bottom, enc r.top, enc r.others]))
  | _ => none

end Lbg.Model
