/- Driver table for Model/Colinear (property C15) and Model/JoinSegments (property C18). -/
import LbgVerif.Wire
import LbgVerif.Model.Colinear
import LbgVerif.Model.JoinSegments

namespace Lbg.Model
open Lean Lbg.Wire Lbg.Gen Lbg.Model.Colinear Lbg.Model.JoinSegments

private def argAs (τ : Type) [Codec τ] (args : Array Json) (i : Nat) : Except String τ :=
  dec (args.getD i Json.null)

/-- `model.remove_colinear_polygon [vertices, tol]` → kept positions or `null` (AssertionError
of the seam patch); `model.remove_colinear_polyline2 [vertices, tol]`,
`model.remove_colinear_polyline3 [vertices3, tol]`, `model.remove_duplicate [vertices, tol]`,
`model.remove_duplicate3 [vertices3, tol]` → kept positions;
`model.join_segments [[[p1, p2], …], tol]` (2D points) and `model.join_segments3` (3D points)
→ list of chains (lists of points). -/
def dispatchCleanup (op : String) (args : Array Json) : Option (Except String Json) :=
  match op with
  | "model.remove_colinear_polygon" => some (do
      let vs ← argAs (List (V2 ℚ)) args 0
      let tol ← argAs ℚ args 1
      pure (enc (removeColinearPolygonIdx tol vs)))
  | "model.remove_colinear_polyline2" => some (do
      let vs ← argAs (List (V2 ℚ)) args 0
      let tol ← argAs ℚ args 1
      pure (enc (removeColinearPolyline2Idx tol vs)))
  | "model.remove_colinear_polyline3" => some (do
      let vs ← argAs (List (V3 ℚ)) args 0
      let tol ← argAs ℚ args 1
      pure (enc (removeColinearPolyline3Idx tol vs)))
  | "model.remove_duplicate" => some (do
      let vs ← argAs (List (V2 ℚ)) args 0
      let tol ← argAs ℚ args 1
      pure (enc (removeDuplicateIdx tol vs)))
  | "model.remove_duplicate3" => some (do
      let vs ← argAs (List (V3 ℚ)) args 0
      let tol ← argAs ℚ args 1
      pure (enc (removeDuplicate3Idx tol vs)))
  | "model.join_segments" => some (do
      let segs ← argAs (List (V2 ℚ × V2 ℚ)) args 0
      let tol ← argAs ℚ args 1
      pure (enc (joinSegments (fun a b => v2_is_equivalent a b tol) segs)))
  | "model.join_segments3" => some (do
      let segs ← argAs (List (V3 ℚ × V3 ℚ)) args 0
      let tol ← argAs ℚ args 1
      pure (enc (joinSegments (fun a b => v3_is_equivalent a b tol) segs)))
  | _ => none

end Lbg.Model
