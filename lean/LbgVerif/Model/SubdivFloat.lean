/-
  Model.SubdivFloat — the accumulating-parameter loop of `subdivide_evenly` on IEEE doubles.

  `LineSegment2D/3D.subdivide_evenly(number)`:
      interval = 1 / number; parameter = interval; sub_pts = [p]
      while parameter <= 1: sub_pts.append(point_at(parameter)); parameter += interval
      if len(sub_pts) != number + 1: sub_pts.append(p2)
  The number of points depends on `number` only (not on the segment), so running this model
  for every n in a range is exhaustive for the n-dimension of the quantifier.  Lean's `Float`
  is the IEEE double of the platform; `+`, `/`, `≤` on it reduce in the kernel
  (`decide +kernel`), so small instances are also checked as theorems (labelled as tests).
-/
namespace Lbg.Model

/-- points emitted by the `while` loop (including the start point), with fuel. -/
def subdivLoopCount (n : Nat) : Nat :=
  let interval : Float := 1.0 / n.toFloat
  let rec go (fuel : Nat) (parameter : Float) (count : Nat) : Nat :=
    match fuel with
    | 0 => count
    | fuel + 1 => if parameter ≤ 1.0 then go fuel (parameter + interval) (count + 1) else count
  go (n + 2) interval 1

/-- length of the list `subdivide_evenly(n)` returns (loop + the "append p2 if short" repair). -/
def subdivCount (n : Nat) : Nat :=
  let c := subdivLoopCount n
  if c ≠ n + 1 then c + 1 else c

/-- the parameter values at which the loop evaluates `point_at` (as doubles). -/
def subdivParams (n : Nat) : List Float :=
  let interval : Float := 1.0 / n.toFloat
  let rec go (fuel : Nat) (parameter : Float) (acc : List Float) : List Float :=
    match fuel with
    | 0 => acc.reverse
    | fuel + 1 => if parameter ≤ 1.0 then go fuel (parameter + interval) (parameter :: acc)
                  else acc.reverse
  go (n + 2) interval []

-- tests (kernel-evaluated, no axioms): n = 9 is one of the values for which the raw loop
-- stops one point short (the accumulated parameter exceeds 1 by rounding)
example : subdivLoopCount 9 = 9 := by decide +kernel
example : subdivCount 9 = 10 := by decide +kernel
example : subdivLoopCount 8 = 9 := by decide +kernel
example : subdivCount 8 = 9 := by decide +kernel
example : subdivCount 11 = 12 := by decide +kernel

end Lbg.Model
