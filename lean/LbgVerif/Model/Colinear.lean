/-
  LbgVerif.Model.Colinear — literal executable models of the vertex clean-up scans
  (property C15):

  * `Polygon2D.remove_colinear_vertices` (geometry2d/polygon.py) and, with the same index
    behaviour on the projected 2D points, `Face3D._remove_colinear` (geometry3d/face.py);
  * `Polyline2D.remove_colinear_vertices`, `Polyline3D.remove_colinear_vertices`;
  * `Polygon2D.remove_duplicate_vertices` / `Face3D.remove_duplicate_vertices`.

  The control structure of the Python loops (the `skip` counter, `first_skip`, `is_first`,
  the seam patch after the loop, Python's wrapping negative indices) is modelled once,
  generically over a Boolean test on vertex *positions*
  `keep i2 i1 i0  ≙  abs(_a) >= tri_tol` for `_v2 = self[i2], _v1 = self[i1], _v = self[i0]`.
  The models return the list of kept POSITIONS of the input sequence (so that results can be
  compared exactly with the real code); `verts` turns positions into vertices.

  The collinearity test exists in two forms: `keep2Code`/`keep3Code` follow the source
  literally (`b_dist = distance_to_point` uses `math.sqrt`), `keep2`/`keep3` are the same test
  on squares (`4·_a² ≥ b_dist²·tol²`), executable at ℚ.  `Lemmas/Colinear.lean` proves
  the two forms equal under the law of `sqrt` for `0 ≤ tol`.
-/
import LbgVerif.Basic
import LbgVerif.Gen.Vec

namespace Lbg.Model.Colinear
open Lbg Lbg.Gen

/-! ### Python indexing -/

/-- Position addressed by Python's `seq[j]` on a sequence of length `n`: a negative `j`
counts from the end.  (Python raises `IndexError` unless `-n ≤ j < n`;
`Lemmas/Colinear.lean` shows that every index the scans form is inside this range.) -/
def pyIdx (n : Nat) (j : Int) : Nat := if j < 0 then (j + n).toNat else j.toNat

/-! ### The closed-loop scan (`Polygon2D.remove_colinear_vertices`, `Face3D._remove_colinear`) -/

/-- Loop state: `new_vertices` (as positions of the input), `skip`, `first_skip`, `is_first`. -/
structure St where
  out : List Nat
  skip : Nat
  firstSkip : Int
  isFirst : Bool
deriving Repr, DecidableEq

/-- State before the loop: `new_vertices = []; skip = 0; first_skip, is_first = 0, True`. -/
def St.init : St := ⟨[], 0, 0, true⟩

/-- One iteration `for i, _v in enumerate(self.vertices)`:
`_v2, _v1 = self[i - 2 - skip], self[i - 1]`; if the triangle `_v2 _v1 _v` passes the test,
`self[i - 1]` is appended, `skip = 0` and the first such `i - 1` is remembered in `first_skip`;
otherwise `skip += 1`. -/
def polygonStep (n : Nat) (keep : Nat → Nat → Nat → Bool) (st : St) (i : Nat) : St :=
  if keep (pyIdx n ((i : Int) - 2 - st.skip)) (pyIdx n ((i : Int) - 1)) i then
    { out := st.out ++ [pyIdx n ((i : Int) - 1)]
      skip := 0
      firstSkip := if st.isFirst then (i : Int) - 1 else st.firstSkip
      isFirst := false }
  else
    { st with skip := st.skip + 1 }

/-- The state after the first `m` iterations. -/
def polygonScanTo (n : Nat) (keep : Nat → Nat → Nat → Bool) (m : Nat) : St :=
  (List.range m).foldl (polygonStep n keep) St.init

/-- The whole `for` loop. -/
def polygonScan (n : Nat) (keep : Nat → Nat → Nat → Bool) : St := polygonScanTo n keep n

/-- The loop followed by the seam patch
`if skip != 0 and first_skip != -1: assert abs(-2 - skip) <= len(self); …
 _v2, _v1, _v = self[-2 - skip], self[-1], self[first_skip]; if <test>: append(_v1)`.
`none` models the `AssertionError`. -/
def polygonIdx (n : Nat) (keep : Nat → Nat → Nat → Bool) : Option (List Nat) :=
  let st := polygonScan n keep
  if st.skip ≠ 0 ∧ st.firstSkip ≠ -1 then
    if 2 + st.skip ≤ n then
      if keep (pyIdx n (-2 - (st.skip : Int))) (pyIdx n (-1)) (pyIdx n st.firstSkip) then
        some (st.out ++ [pyIdx n (-1)])
      else some st.out
    else none
  else some st.out

/-! ### The open-chain scan (`Polyline2D/3D.remove_colinear_vertices`) -/

/-- One iteration `for i, _v in enumerate(self.vertices[1:-1])`: `_v = self[i + 1]` is tested
in the triangle `self[i - skip], _v, self[i + 2]`.  State: (`new_vertices`, `skip`). -/
def polylineStep (n : Nat) (keep : Nat → Nat → Nat → Bool) (st : List Nat × Nat) (i : Nat) :
    List Nat × Nat :=
  if keep (pyIdx n ((i : Int) - st.2)) (i + 1) (pyIdx n ((i : Int) + 2)) then
    (st.1 ++ [i + 1], 0)
  else (st.1, st.2 + 1)

/-- State after the first `m` iterations, starting from `new_vertices = [self.vertices[0]]`. -/
def polylineScanTo (n : Nat) (keep : Nat → Nat → Nat → Bool) (m : Nat) : List Nat × Nat :=
  (List.range m).foldl (polylineStep n keep) ([0], 0)

/-- `if len(self.vertices) == 3: return self`; otherwise the scan over `vertices[1:-1]`
(`n - 2` iterations) and `new_vertices.append(self[-1])`. -/
def polylineIdx (n : Nat) (keep : Nat → Nat → Nat → Bool) : List Nat :=
  if n = 3 then [0, 1, 2]
  else (polylineScanTo n keep (n - 2)).1 ++ [pyIdx n (-1)]

/-! ### Adjacent-duplicate filter (`remove_duplicate_vertices`) -/

/-- `tuple(pt for i, pt in enumerate(vs) if not pt.is_equivalent(vs[i - 1], tol))` as kept
positions; `eqv i j ≙ vs[i].is_equivalent(vs[j], tol)`. -/
def dupIdx (n : Nat) (eqv : Nat → Nat → Bool) : List Nat :=
  (List.range n).filter (fun i => !eqv i (pyIdx n ((i : Int) - 1)))

/-! ### Vertices from positions -/

/-- The vertices at the given positions (`d` is a filler for out-of-range positions, which
never occur: see `Lemmas/Colinear.lean`). -/
def verts {V : Type} (d : V) (l : List V) (idx : List Nat) : List V := idx.map (fun i => l.getD i d)

/-- A test on vertices, read at positions of `l`. -/
def keepAt {V : Type} (crit : V → V → V → Bool) (d : V) (l : List V) (i2 i1 i0 : Nat) : Bool :=
  crit (l.getD i2 d) (l.getD i1 d) (l.getD i0 d)

/-- An equivalence test on vertices, read at positions of `l`. -/
def eqvAt {V : Type} (eqv : V → V → Bool) (d : V) (l : List V) (i j : Nat) : Bool :=
  eqv (l.getD i d) (l.getD j d)

/-! ### The collinearity test -/

section Criterion
variable {α : Type} [Field α] [LinearOrder α]

/-- Twice the signed area of the triangle `v2 v1 v`:
`_a = _v2.determinant(_v1) + _v1.determinant(_v) + _v.determinant(_v2)`. -/
def twiceArea2 (v2 v1 v : V2 α) : α :=
  v2_determinant v2 v1 + v2_determinant v1 v + v2_determinant v v2

/-- Squared length of the chord `v2 → v` (2D). -/
def chordSq2 (v2 v : V2 α) : α := (v.x - v2.x) * (v.x - v2.x) + (v.y - v2.y) * (v.y - v2.y)

/-- The 2D test exactly as the source computes it:
`b_dist = _v.distance_to_point(_v2); b_dist = tol if b_dist < tol else b_dist;
 tri_tol = (b_dist * tol) / 2; abs(_a) >= tri_tol`. -/
def keep2Code (M : MathOps α) (tol : α) (v2 v1 v : V2 α) : Bool :=
  let a := twiceArea2 v2 v1 v
  let b_dist := p2_distance_to_point M v v2
  let b_dist := if b_dist < tol then tol else b_dist
  let tri_tol := (b_dist * tol) / 2
  decide (tri_tol ≤ |a|)

/-- The same test on squares (no square root): `4·_a² ≥ max(b_dist², tol²)·tol²`. -/
def keep2 (tol : α) (v2 v1 v : V2 α) : Bool :=
  let a := twiceArea2 v2 v1 v
  let bSq := chordSq2 v2 v
  let bSq := if bSq < tol * tol then tol * tol else bSq
  decide (bSq * (tol * tol) ≤ 4 * (a * a))

/-- The cross product `(_v2 - _v).cross(_v3 - _v)` of the 3D polyline test. -/
def cross3 (v2 v1 v3 : V3 α) : V3 α := v3_cross (V3.sub v2 v1) (V3.sub v3 v1)

/-- Squared length of the chord `v2 → v3` (3D). -/
def chordSq3 (v2 v3 : V3 α) : α :=
  (v3.x - v2.x) * (v3.x - v2.x) + (v3.y - v2.y) * (v3.y - v2.y) + (v3.z - v2.z) * (v3.z - v2.z)

/-- The 3D test as in the source: `_a = (_v2 - _v).cross(_v3 - _v).magnitude;
b_dist = _v3.distance_to_point(_v2); …; _a >= tri_tol`. -/
def keep3Code (M : MathOps α) (tol : α) (v2 v1 v3 : V3 α) : Bool :=
  let a := v3_magnitude M (cross3 v2 v1 v3)
  let b_dist := p3_distance_to_point M v3 v2
  let b_dist := if b_dist < tol then tol else b_dist
  let tri_tol := (b_dist * tol) / 2
  decide (tri_tol ≤ a)

/-- The 3D test on squares. -/
def keep3 (tol : α) (v2 v1 v3 : V3 α) : Bool :=
  let aSq := v3_magnitude_squared (cross3 v2 v1 v3)
  let bSq := chordSq3 v2 v3
  let bSq := if bSq < tol * tol then tol * tol else bSq
  decide (bSq * (tol * tol) ≤ 4 * aSq)

/-! ### The five routines -/

/-- `Polygon2D.remove_colinear_vertices(tol)` / `Face3D._remove_colinear(pts_3d, pts_2d, tol)`:
kept positions (`none` = `AssertionError` of the seam patch). -/
def removeColinearPolygonIdx (tol : α) (l : List (V2 α)) : Option (List Nat) :=
  polygonIdx l.length (keepAt (keep2 tol) ⟨0, 0⟩ l)

/-- The same with the source's square-root form of the test. -/
def removeColinearPolygonIdxCode (M : MathOps α) (tol : α) (l : List (V2 α)) : Option (List Nat) :=
  polygonIdx l.length (keepAt (keep2Code M tol) ⟨0, 0⟩ l)

/-- `Polygon2D.remove_colinear_vertices(tol)`: the new vertex list. -/
def removeColinearPolygon (tol : α) (l : List (V2 α)) : Option (List (V2 α)) :=
  (removeColinearPolygonIdx tol l).map (verts ⟨0, 0⟩ l)

/-- `Polyline2D.remove_colinear_vertices(tol)`: kept positions. -/
def removeColinearPolyline2Idx (tol : α) (l : List (V2 α)) : List Nat :=
  polylineIdx l.length (keepAt (keep2 tol) ⟨0, 0⟩ l)

/-- The same with the source's square-root form of the test. -/
def removeColinearPolyline2IdxCode (M : MathOps α) (tol : α) (l : List (V2 α)) : List Nat :=
  polylineIdx l.length (keepAt (keep2Code M tol) ⟨0, 0⟩ l)

/-- `Polyline2D.remove_colinear_vertices(tol)`: the new vertex list. -/
def removeColinearPolyline2 (tol : α) (l : List (V2 α)) : List (V2 α) :=
  verts ⟨0, 0⟩ l (removeColinearPolyline2Idx tol l)

/-- `Polyline3D.remove_colinear_vertices(tol)`: kept positions. -/
def removeColinearPolyline3Idx (tol : α) (l : List (V3 α)) : List Nat :=
  polylineIdx l.length (keepAt (keep3 tol) ⟨0, 0, 0⟩ l)

/-- The same with the source's square-root form of the test. -/
def removeColinearPolyline3IdxCode (M : MathOps α) (tol : α) (l : List (V3 α)) : List Nat :=
  polylineIdx l.length (keepAt (keep3Code M tol) ⟨0, 0, 0⟩ l)

/-- `Polyline3D.remove_colinear_vertices(tol)`: the new vertex list. -/
def removeColinearPolyline3 (tol : α) (l : List (V3 α)) : List (V3 α) :=
  verts ⟨0, 0, 0⟩ l (removeColinearPolyline3Idx tol l)

/-- `Polygon2D.remove_duplicate_vertices(tol)`: kept positions. -/
def removeDuplicateIdx (tol : α) (l : List (V2 α)) : List Nat :=
  dupIdx l.length (eqvAt (fun a b => v2_is_equivalent a b tol) ⟨0, 0⟩ l)

/-- `Polygon2D.remove_duplicate_vertices(tol)`: the new vertex list. -/
def removeDuplicate (tol : α) (l : List (V2 α)) : List (V2 α) :=
  verts ⟨0, 0⟩ l (removeDuplicateIdx tol l)

/-- `Face3D.remove_duplicate_vertices` boundary/hole filter on 3D points: kept positions. -/
def removeDuplicate3Idx (tol : α) (l : List (V3 α)) : List Nat :=
  dupIdx l.length (eqvAt (fun a b => v3_is_equivalent a b tol) ⟨0, 0, 0⟩ l)

end Criterion

end Lbg.Model.Colinear
