/-
  Model/ExtractRect — LITERAL hand model of `Face3D.extract_rectangle(tolerance)`
  (geometry3d/face.py l.1970-2032) and of the helpers it uses:
  `get_top_bottom_horizontal_edges` (l.1920), `get_left_right_vertical_edges` (l.1943),
  `_split_with_rectangle` (l.3078), `_vertices_between_points` (l.3028), on top of the generated
  kernels `Gen.face3d_boundary_segments`, `Gen.a_seg3d_is_horizontal / is_vertical`,
  `Gen.closest_point3d_on_line3d_s`, `Gen.a_p3d_is_equivalent`, `Gen.seg3_from_end_points`,
  `Gen.seg3_p2`, `Gen.seg3_midpoint`, `Gen.plane_xyz_to_xy`, `Gen.face3d_init_plane`
  (`Face3D(verts, plane)`: may reverse the vertices), `Gen.face3d_is_self_intersecting`, and the
  hand models `Model.Outward.removeColinear` (`remove_colinear_vertices`) and
  `Model.PointInside.pointRelationship`.

      def extract_rectangle(self, tolerance):
          if self.has_holes: return None
          if abs(self.normal.x) <= tolerance and abs(self.normal.y) <= tolerance: return None
          clean_face = self.remove_colinear_vertices(tolerance)
          horiz_result = clean_face.get_top_bottom_horizontal_edges(tolerance)
          if horiz_result is not None:
              bottom_seg, top_seg = horiz_result
              split_res = clean_face._split_with_rectangle(bottom_seg, top_seg, tolerance)
              if split_res is not None:
                  return LineSegment3D.from_end_points(split_res[0][1], split_res[0][3]), \
                      LineSegment3D.from_end_points(split_res[0][0], split_res[0][2]), split_res[1]
          vert_result = clean_face.get_left_right_vertical_edges(tolerance)
          if vert_result is not None:
              left_seg, right_seg = vert_result
              split_res = clean_face._split_with_rectangle(left_seg, right_seg, tolerance)
              if split_res is not None:
                  seg_1 = LineSegment3D.from_end_points(split_res[0][0], split_res[0][1])
                  seg_2 = LineSegment3D.from_end_points(split_res[0][2], split_res[0][3])
                  sorted_edges = sorted([seg_1, seg_2], key=lambda edge: edge.p.z)
                  return sorted_edges[0], sorted_edges[1], split_res[1]
          return None

  (the helpers are quoted at their definitions below).  `sorted` is stable; `List.mergeSort`
  is stable too.  Results: `Res.raises` = the Python code raises (`AssertionError` of
  `remove_colinear_vertices` / `Face3D.__init__`, `IndexError` of `_vertices_between_points`
  when no vertex is equivalent to the end point); `Res.none` = it returns `None`.
-/
import LbgVerif.Basic
import LbgVerif.Gen.Auto
import LbgVerif.Gen.Line
import LbgVerif.Gen.Isect3
import LbgVerif.Gen.Plane
import LbgVerif.Gen.FaceInit
import LbgVerif.Gen.FaceMore
import LbgVerif.Model.PointInside
import LbgVerif.Model.Colinear
import LbgVerif.Model.Outward

namespace Lbg.Model.ExtractRect
open Lbg Lbg.Gen
variable {α : Type} [Field α] [LinearOrder α]

/-- Outcome of a Python call: raises / returns `None` / returns a value. -/
inductive Res (τ : Type) where
  | raises : Res τ
  | none : Res τ
  | val : τ → Res τ
deriving Repr

/-- `_vertices_between_points(start_pt, end_pt, tolerance)`:

      new_verts = [start_pt]
      vert_ind = self.vertices.index(start_pt)        # exact ==, first match; ValueError
      found_other = False
      while found_other is False:
          vert_ind -= 1
          new_verts.append(self[vert_ind])            # IndexError below -len(self)
          if self[vert_ind].is_equivalent(end_pt, tolerance): found_other = True
      return new_verts

`fuel` counts the indices `vert_ind - 1, …, -len` that can be read before `IndexError`. -/
def walkBack (verts : List (V3 α)) (tol : α) (endPt : V3 α) :
    Nat → Int → List (V3 α) → Option (List (V3 α))
  | 0, _, _ => none
  | fuel + 1, ind, acc =>
    let ind' := ind - 1
    let v := verts.getD (Colinear.pyIdx verts.length ind') ⟨0, 0, 0⟩
    let acc' := acc ++ [v]
    if a_p3d_is_equivalent v endPt tol then some acc' else walkBack verts tol endPt fuel ind' acc'

/-- `self._vertices_between_points(start_pt, end_pt, tolerance)`; `none` = raises. -/
def verticesBetween (verts : List (V3 α)) (tol : α) (startPt endPt : V3 α) :
    Option (List (V3 α)) :=
  match verts.findIdx? (fun v => decide (v = startPt)) with
  | none => none
  | some i => walkBack verts tol endPt (i + verts.length) (i : Int) [startPt]

/-- The first `other_faces` block of `_split_with_rectangle`:

      if close_a.is_equivalent(far_end, tolerance) is False:
          edge_pts.append(close_a);  other_faces.append(Face3D(edge_pts, self.plane))
      elif close_b.is_equivalent(near_end, tolerance) is False:
          edge_pts.append(close_b);  other_faces.append(Face3D(edge_pts, self.plane))
      elif len(edge_pts) > 2:
          other_faces.append(Face3D(edge_pts, self.plane))

returns the vertex list handed to `Face3D(…, self.plane)` if a face is made. -/
def otherFacePts (tol : α) (edgePts : List (V3 α)) (closeA farEnd closeB nearEnd : V3 α) :
    Option (List (V3 α)) :=
  if a_p3d_is_equivalent closeA farEnd tol = false then some (edgePts ++ [closeA])
  else if a_p3d_is_equivalent closeB nearEnd tol = false then some (edgePts ++ [closeB])
  else if 2 < edgePts.length then some edgePts
  else none

/-- The four rectangle points of `_split_with_rectangle`:

      close_pt_1 = closest_point3d_on_line3d(edge_1.p1, edge_2)
      close_pt_2 = closest_point3d_on_line3d(edge_2.p2, edge_1)
      close_pt_3 = closest_point3d_on_line3d(edge_1.p2, edge_2)
      close_pt_4 = closest_point3d_on_line3d(edge_2.p1, edge_1)                          -/
def corners (edge1 edge2 : LR3 α) : V3 α × V3 α × V3 α × V3 α :=
  (closest_point3d_on_line3d_s edge1.p edge2, closest_point3d_on_line3d_s (seg3_p2 edge2) edge1,
   closest_point3d_on_line3d_s (seg3_p2 edge1) edge2, closest_point3d_on_line3d_s edge2.p edge1)

/-- First rejection test of `_split_with_rectangle`:

      if close_pt_1.is_equivalent(edge_2.p1, tolerance) or \
              close_pt_3.is_equivalent(edge_2.p2, tolerance):
          return None                                                                     -/
def noOverlap (edge1 edge2 : LR3 α) (tol : α) : Bool :=
  let c := corners edge1 edge2
  a_p3d_is_equivalent c.1 edge2.p tol || a_p3d_is_equivalent c.2.2.1 (seg3_p2 edge2) tol

/-- Second rejection test:

      mid_pt_1 = self.plane.xyz_to_xy(LineSegment3D.from_end_points(close_pt_1, close_pt_2).midpoint)
      mid_pt_2 = self.plane.xyz_to_xy(LineSegment3D.from_end_points(close_pt_3, close_pt_4).midpoint)
      if self.polygon2d.point_relationship(mid_pt_1, tolerance) == -1 or \
              self.polygon2d.point_relationship(mid_pt_2, tolerance) == -1:
          return None                                                                     -/
def midOutside (M : MathOps α) (verts : List (V3 α)) (pl : PlaneS α) (edge1 edge2 : LR3 α)
    (tol : α) : Bool :=
  let c := corners edge1 edge2
  let poly := verts.map (plane_xyz_to_xy pl)
  let mid1 := plane_xyz_to_xy pl (seg3_midpoint (seg3_from_end_points c.1 c.2.1))
  let mid2 := plane_xyz_to_xy pl (seg3_midpoint (seg3_from_end_points c.2.2.1 c.2.2.2))
  decide (PointInside.pointRelationship M poly mid1 tol Outward.testVector2 = -1) ||
    decide (PointInside.pointRelationship M poly mid2 tol Outward.testVector2 = -1)

/-- The `other_faces` of `_split_with_rectangle`, as the vertex lists the new `Face3D(…,
self.plane)` objects hold (`enforce_right_hand` may reverse them); `none` = the code raises
(`_vertices_between_points` finds no end point; `Face3D.__init__` assertion):

      edge_pts_1 = self._vertices_between_points(edge_1.p1, edge_2.p2, tolerance)
      … (see `otherFacePts`: close_pt_1 / edge_2.p2 / close_pt_2 / edge_1.p1)
      edge_pts_2 = self._vertices_between_points(edge_2.p1, edge_1.p2, tolerance)
      … (close_pt_3 / edge_2.p1 / close_pt_4 / edge_1.p2)                                -/
def otherFaces (verts : List (V3 α)) (pl : PlaneS α) (edge1 edge2 : LR3 α) (tol : α) :
    Option (List (List (V3 α))) :=
  let c := corners edge1 edge2
  let e1p1 := edge1.p
  let e1p2 := seg3_p2 edge1
  let e2p1 := edge2.p
  let e2p2 := seg3_p2 edge2
  match verticesBetween verts tol e1p1 e2p2 with
  | none => none
  | some pts1 =>
    -- `Face3D(edge_pts_1, self.plane)` is built before `edge_pts_2` is computed
    let f1 := (otherFacePts tol pts1 c.1 e2p2 c.2.1 e1p1).map (fun pts => face3d_init_plane pts pl)
    if f1 = some none then none
    else
      match verticesBetween verts tol e2p1 e1p2 with
      | none => none
      | some pts2 =>
        let f2 := (otherFacePts tol pts2 c.2.2.1 e2p1 c.2.2.2 e1p2).map
          (fun pts => face3d_init_plane pts pl)
        if f2 = some none then none
        else
          some (((f1.bind id).map (fun f => f.1)).toList ++
            ((f2.bind id).map (fun f => f.1)).toList)

/-- `Face3D._split_with_rectangle(edge_1, edge_2, tolerance)` of the face `(verts, pl)`
(no holes, `polygon2d` = plane coordinates of `verts`): the two rejection tests, the other
faces, then

      for new_face in other_faces:
          if new_face.is_self_intersecting: return None
      return (close_pt_1, close_pt_2, close_pt_3, close_pt_4), other_faces               -/
def splitWithRectangle (M : MathOps α) (verts : List (V3 α)) (pl : PlaneS α)
    (edge1 edge2 : LR3 α) (tol : α) :
    Res ((V3 α × V3 α × V3 α × V3 α) × List (List (V3 α))) :=
  if noOverlap edge1 edge2 tol then Res.none
  else if midOutside M verts pl edge1 edge2 tol then Res.none
  else
    match otherFaces verts pl edge1 edge2 tol with
    | none => Res.raises
    | some others =>
      if others.any (fun vs => face3d_is_self_intersecting vs pl) then Res.none
      else Res.val (corners edge1 edge2, others)

/-- `get_top_bottom_horizontal_edges(tolerance)`:

      horizontal_edges = [edge for edge in self.boundary_segments if edge.is_horizontal(tolerance)]
      if len(horizontal_edges) < 2: return None
      sorted_edges = sorted(horizontal_edges, key=lambda edge: edge.p.z)
      return sorted_edges[0], sorted_edges[1]                                            -/
def topBottomHorizontalEdges (verts : List (V3 α)) (pl : PlaneS α) (tol : α) :
    Option (LR3 α × LR3 α) :=
  let hs := (face3d_boundary_segments verts pl).filter (fun e => a_seg3d_is_horizontal e tol)
  match hs.mergeSort (fun a b => decide (a.p.z ≤ b.p.z)) with
  | a :: b :: _ => some (a, b)
  | _ => none

/-- `get_left_right_vertical_edges(tolerance)`:

      vertical_edges = [edge for edge in self.boundary_segments if edge.is_vertical(tolerance)]
      if len(vertical_edges) < 2: return None
      if abs(self.normal.x) != 1: sorted_edges = sorted(vertical_edges, key=lambda edge: edge.p.x)
      else:                       sorted_edges = sorted(vertical_edges, key=lambda edge: edge.p.y)
      return sorted_edges[0], sorted_edges[-1]                                           -/
def leftRightVerticalEdges (verts : List (V3 α)) (pl : PlaneS α) (tol : α) :
    Option (LR3 α × LR3 α) :=
  let vs := (face3d_boundary_segments verts pl).filter (fun e => a_seg3d_is_vertical e tol)
  if vs.length < 2 then none
  else
    let sorted :=
      if |pl.n.x| ≠ 1 then vs.mergeSort (fun a b => decide (a.p.x ≤ b.p.x))
      else vs.mergeSort (fun a b => decide (a.p.y ≤ b.p.y))
    match sorted.head?, sorted.getLast? with
    | some a, some b => some (a, b)
    | _, _ => none

/-- The rectangle's `(bottom_edge, top_edge, other_faces)`. -/
structure Rect (α : Type) where
  bottom : LR3 α
  top : LR3 α
  others : List (List (V3 α))
deriving Repr

/-- `Face3D.extract_rectangle(tolerance)` for the face `(verts, pl)`; `hasHoles` stands for
`self.has_holes`. -/
def extractRectangle (M : MathOps α) (hasHoles : Bool) (verts : List (V3 α)) (pl : PlaneS α)
    (tol : α) : Res (Rect α) :=
  if hasHoles then Res.none
  else if |pl.n.x| ≤ tol ∧ |pl.n.y| ≤ tol then Res.none
  else
    match Outward.removeColinear M ⟨verts, pl⟩ tol with
    | none => Res.raises
    | some cv =>
      let vertical : Res (Rect α) :=
        match leftRightVerticalEdges cv pl tol with
        | none => Res.none
        | some (l, r) =>
          match splitWithRectangle M cv pl l r tol with
          | Res.raises => Res.raises
          | Res.none => Res.none
          | Res.val ((c1, c2, c3, c4), others) =>
            let s1 := seg3_from_end_points c1 c2
            let s2 := seg3_from_end_points c3 c4
            -- sorted([seg_1, seg_2], key=lambda edge: edge.p.z), stable
            if s2.p.z < s1.p.z then Res.val ⟨s2, s1, others⟩ else Res.val ⟨s1, s2, others⟩
      match topBottomHorizontalEdges cv pl tol with
      | none => vertical
      | some (b, t) =>
        match splitWithRectangle M cv pl b t tol with
        | Res.raises => Res.raises
        | Res.none => vertical
        | Res.val ((c1, c2, c3, c4), others) =>
          Res.val ⟨seg3_from_end_points c2 c4, seg3_from_end_points c1 c3, others⟩

end Lbg.Model.ExtractRect
