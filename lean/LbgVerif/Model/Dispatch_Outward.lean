/- Driver ops for `Model/Outward.lean` (C07 / C08 / C01): literal models of
   `Face3D._point_on_face`, `Face3D.intersect_line_ray`, `Polyface3D.get_outward_faces`,
   `Polyface3D.is_point_inside`, `Polyface3D.volume`.  `math.sqrt/acos/sin/cos` are evaluated
   with IEEE doubles (`floatOps`), everything else in exact rationals. -/
import LbgVerif.Wire
import LbgVerif.Model.Outward

namespace Lbg.Model
open Lean Lbg.Wire

/-- Trailing optional argument `"exact"` selects `Outward.ratOps` (exact square roots of rational
squares, used for the recorded witnesses) instead of the IEEE `floatOps`. -/
def opsOf (j : Json) : MathOps ℚ :=
  match j with
  | Json.str "exact" => Outward.ratOps
  | _ => floatOps

/-- * `model.point_on_face [verts, tol]` → `[point, plane.n, plane.o]` of `Face3D(verts)`;
    * `model.face_hit [verts, ray_p, ray_v]` → `Face3D(verts).intersect_line_ray(Ray3D(p, v))`
      as point or `null`;
    * `model.outward_flags [faces, tol]`, `faces : List (List V3)` (each built by `Face3D(verts)`)
      → `[flags, n_int]`: per face "is flipped by `get_outward_faces`" and its hit count;
    * `model.solid_point_inside [vertices, face_indices, points, test_vector]` →
      per point `Polyface3D(vertices, face_indices).is_point_inside(p, test_vector)`;
    * `model.faces_point_inside [faces, solid, points, test_vector]` → same on given faces
      (no re-orientation);
    * `model.polyface_volume [vertices, face_indices]` → `[volume, flags, is_solid]` of
      `Polyface3D(vertices, face_indices)`;
    * `model.faces_volume [faces]` → the volume loop on `Face3D(verts)` faces as given.
    Every op takes one more optional argument `"exact"` (see `opsOf`). -/
def dispatchOutward (op : String) (args : Array Json) : Option (Except String Json) :=
  match op with
  | "model.point_on_face" => some (do
      let vs ← (dec (args.getD 0 Json.null) : Except String (List (V3 ℚ)))
      let tol ← (dec (args.getD 1 Json.null) : Except String ℚ)
      let M := opsOf (args.getD 2 Json.null)
      let f := Outward.mkFace M vs
      pure (Json.arr #[enc (Outward.pointOnFace M f tol), enc f.plane.n, enc f.plane.o]))
  | "model.face_hit" => some (do
      let vs ← (dec (args.getD 0 Json.null) : Except String (List (V3 ℚ)))
      let p ← (dec (args.getD 1 Json.null) : Except String (V3 ℚ))
      let v ← (dec (args.getD 2 Json.null) : Except String (V3 ℚ))
      let M := opsOf (args.getD 3 Json.null)
      pure (enc (Outward.intersectRay (Outward.mkFace M vs) ⟨p, v⟩)))
  | "model.outward_flags" => some (do
      let fs ← (dec (args.getD 0 Json.null) : Except String (List (List (V3 ℚ))))
      let tol ← (dec (args.getD 1 Json.null) : Except String ℚ)
      let M := opsOf (args.getD 2 Json.null)
      let faces := fs.map (Outward.mkFace M)
      pure (Json.arr #[enc (Outward.outwardFlags M faces tol),
        enc (faces.zipIdx.map (fun fi => Outward.nInt M faces tol fi.2 fi.1))]))
  | "model.solid_point_inside" => some (do
      let vs ← (dec (args.getD 0 Json.null) : Except String (List (V3 ℚ)))
      let idx ← (dec (args.getD 1 Json.null) : Except String (List (List Nat)))
      let pts ← (dec (args.getD 2 Json.null) : Except String (List (V3 ℚ)))
      let tv ← (dec (args.getD 3 Json.null) : Except String (V3 ℚ))
      let M := opsOf (args.getD 4 Json.null)
      let solid := EdgeInfo.isSolid (idx.map (fun loop => [loop]))
      let faces := Outward.polyfaceFaces M vs idx
      pure (enc (pts.map (fun p => Outward.isPointInside solid faces p tv))))
  | "model.faces_point_inside" => some (do
      let fs ← (dec (args.getD 0 Json.null) : Except String (List (List (V3 ℚ))))
      let solid ← (dec (args.getD 1 Json.null) : Except String Bool)
      let pts ← (dec (args.getD 2 Json.null) : Except String (List (V3 ℚ)))
      let tv ← (dec (args.getD 3 Json.null) : Except String (V3 ℚ))
      let M := opsOf (args.getD 4 Json.null)
      let faces := fs.map (Outward.mkFace M)
      pure (enc (pts.map (fun p => Outward.isPointInside solid faces p tv))))
  | "model.polyface_volume" => some (do
      let vs ← (dec (args.getD 0 Json.null) : Except String (List (V3 ℚ)))
      let idx ← (dec (args.getD 1 Json.null) : Except String (List (List Nat)))
      let M := opsOf (args.getD 2 Json.null)
      let faces0 := idx.map (fun loop =>
        Outward.mkFace M (loop.map (fun i => vs.getD i ⟨0, 0, 0⟩)))
      let solid := EdgeInfo.isSolid (idx.map (fun loop => [loop]))
      pure (Json.arr #[enc (Outward.polyfaceVolume M vs idx),
        enc (Outward.outwardFlags M faces0 Outward.tolFaces), enc solid]))
  | "model.faces_volume" => some (do
      let fs ← (dec (args.getD 0 Json.null) : Except String (List (List (V3 ℚ))))
      let M := opsOf (args.getD 1 Json.null)
      pure (enc (Outward.volume (fs.map (Outward.mkFace M)))))
  | _ => none

end Lbg.Model
