/-
  Model.PolyfaceCache — hand-written reduced literal model of the memo-slot machine of
  `Polyface3D` (`geometry3d/polyface.py`, base `Base2DIn3D`), HEAD 310b0a2.

  State `PfC α`: defining data `_vertices`, `_face_indices`; the edge table `_edge_indices`,
  `_edge_types` (computed by the constructor, or taken over from `edge_information` — every
  transform and `__copy__` passes `self.edge_information`) with `_is_solid` (always recomputed
  by the constructor from `_edge_types`); and the memo slots
    `_faces` (a tuple of `Face3D` OBJECTS: modelled as full `FaceC` states of the Face3D
             machine, because `area` / `volume` read — and thereby fill — the faces' own
             `_area`, `_polygon2d` slots and the transforms call `face.move(…)` etc.),
    `_volume`, `_area`, `_edges`, `_naked_edges`, `_internal_edges`, `_non_manifold_edges`,
    `_min`, `_max`, `_center` (inherited).

  Which method carries which slot (read off the source):
  * move / rotate / rotate_xy: `_faces` mapped by the same `Face3D` method, `_volume` copied.
  * reflect: index loops reversed (fix cdf34c1), `_faces` mapped by `face.reflect`, `_volume`
    copied.
  * scale: `_volume * abs(factor) ** 3`; for `factor < 0` the index loops are reversed and
    `_faces` is DROPPED, for `factor >= 0` `_faces` is mapped by `face.scale` (fix 310b0a2;
    before: `_volume * factor ** 3` and inward-pointing faces for negative factors).
  * `__copy__`: `_faces` shared; `_volume`, `_area` NOT carried.
  * `_area`, `_edges`, `_naked_edges`, `_internal_edges`, `_non_manifold_edges`, `_min`, `_max`,
    `_center` are never carried.
  * `area` and `volume` go through the `faces` getter and the faces' `area` getters.

  Reduction: the `faces` getter on an empty slot builds `Face3D(boundary[, holes])` per index
  loop and, for a solid, runs `get_outward_faces` (ray casting; modelled and examined under
  C07, not here).  In this machine the result of that computation is an ARGUMENT of the
  reading operations (`fr`: what the getter would build for the current data); the theorems
  say what they assume about it.  `merge_overlapping_edges`, `from_faces`, the intersection
  methods are not modelled; `from_box` / `from_offset_face` appear as seeded start states.
-/
import LbgVerif.Basic
import LbgVerif.Model.FaceCache
import LbgVerif.Model.EdgeInfo

namespace Lbg.Model.PolyfaceCache
open Lbg Lbg.Gen Lbg.Model.MeshCache Lbg.Model.PolylineCache Lbg.Model.FaceCache

variable {α : Type} [Field α] [LinearOrder α]

/-- `Polyface3D` with its memo slots. -/
structure PfC (α : Type) where
  vertices : List (V3 α)
  face_indices : List (List (List Nat))
  edge_indices : List (Nat × Nat)
  edge_types : List Nat
  is_solid : Bool
  faces : Option (List (FaceC α))
  edges : Option (List (LR3 α))
  naked_edges : Option (List (LR3 α))
  internal_edges : Option (List (LR3 α))
  non_manifold_edges : Option (List (LR3 α))
  area : Option α
  volume : Option α
  min : Option (V3 α)
  max : Option (V3 α)
  center : Option (V3 α)

/-- `Polyface3D(vertices, face_indices, edge_information)`: `_is_solid` from the edge types,
every memo slot `None`. -/
def mkPf (vs : List (V3 α)) (fi : List (List (List Nat))) (ei : List (Nat × Nat))
    (et : List Nat) : PfC α :=
  { vertices := vs, face_indices := fi, edge_indices := ei, edge_types := et,
    is_solid := EdgeInfo.isSolidOf et, faces := none, edges := none, naked_edges := none,
    internal_edges := none, non_manifold_edges := none, area := none, volume := none,
    min := none, max := none, center := none }

/-- `Polyface3D(vertices, face_indices)`: the constructor's own edge loop (`Model/EdgeInfo`). -/
def freshPf (vs : List (V3 α)) (fi : List (List (List Nat))) : PfC α :=
  mkPf vs fi (EdgeInfo.edgeInfo fi).edge_i (EdgeInfo.edgeInfo fi).edge_t

/-- `tuple(tuple(tuple(reversed(loop)) for loop in face) for face in self.face_indices)`. -/
def revLoops (fi : List (List (List Nat))) : List (List (List Nat)) := fi.map (·.map List.reverse)

/-! ### Memoising getters -/

/-- `Polyface3D.faces`; `fr` = what the getter builds when the slot is empty. -/
def readFaces (fr : List (FaceC α)) (s : PfC α) : List (FaceC α) × PfC α :=
  match s.faces with
  | some fs => (fs, s)
  | none => (fr, { s with faces := some fr })

/-- `Polyface3D.area`: `sum([face.area for face in self.faces])` — every face's `area` getter
runs (and fills that face's slots). -/
def readArea (fr : List (FaceC α)) (s : PfC α) : α × PfC α :=
  match s.area with
  | some a => (a, s)
  | none =>
    let r := readFaces fr s
    let rs := r.1.map FaceCache.readArea
    let a := pySum (rs.map (·.1))
    (a, { r.2 with faces := some (rs.map (·.2)), area := some a })

/-- The loop of `Polyface3D.volume`: `_v += face[0].dot(face.normal) * face.area`. -/
def volLoop (fs : List (FaceC α)) : α :=
  fs.foldl (fun acc f => acc + v3_dot (f.vertices.headD ⟨0, 0, 0⟩) f.plane.n * (FaceCache.readArea f).1) 0

/-- `Polyface3D.volume`: `_v / 3`. -/
def readVolume (fr : List (FaceC α)) (s : PfC α) : α × PfC α :=
  match s.volume with
  | some v => (v, s)
  | none =>
    let r := readFaces fr s
    let v := volLoop r.1 / 3
    (v, { r.2 with faces := some (r.1.map (fun f => (FaceCache.readArea f).2)), volume := some v })

def edgesOf (s : PfC α) : List (LR3 α) :=
  s.edge_indices.map (fun e =>
    seg3_from_end_points (s.vertices.getD e.1 ⟨0, 0, 0⟩) (s.vertices.getD e.2 ⟨0, 0, 0⟩))

def readEdges (s : PfC α) : List (LR3 α) × PfC α :=
  match s.edges with
  | some l => (l, s)
  | none => let l := edgesOf s; (l, { s with edges := some l })

/-- `[self._edges[i] for i, type in enumerate(self._edge_types) if p type]`. -/
def edgesOfType (es : List (LR3 α)) (et : List Nat) (p : Nat → Bool) : List (LR3 α) :=
  ((es.zip et).filter (fun x => p x.2)).map (·.1)

/-- `naked_edges` (`_get_edge_type(0)`: `if self._edges is None: self.edges`). -/
def readNakedEdges (s : PfC α) : List (LR3 α) × PfC α :=
  match s.naked_edges with
  | some l => (l, s)
  | none =>
    let r := readEdges s
    let l := edgesOfType r.1 s.edge_types (· == 0)
    (l, { r.2 with naked_edges := some l })

def readInternalEdges (s : PfC α) : List (LR3 α) × PfC α :=
  match s.internal_edges with
  | some l => (l, s)
  | none =>
    let r := readEdges s
    let l := edgesOfType r.1 s.edge_types (· == 1)
    (l, { r.2 with internal_edges := some l })

def readNonManifoldEdges (s : PfC α) : List (LR3 α) × PfC α :=
  match s.non_manifold_edges with
  | some l => (l, s)
  | none =>
    let r := readEdges s
    let l := edgesOfType r.1 s.edge_types (fun t => decide (1 < t))
    (l, { r.2 with non_manifold_edges := some l })

def readMin (s : PfC α) : V3 α × PfC α :=
  match s.min with
  | some m => (m, s)
  | none => let mm := calcMinMax3 s.vertices; (mm.1, { s with min := some mm.1, max := some mm.2 })

def readMax (s : PfC α) : V3 α × PfC α :=
  match s.max with
  | some m => (m, s)
  | none => let mm := calcMinMax3 s.vertices; (mm.2, { s with min := some mm.1, max := some mm.2 })

def readCenter (s : PfC α) : V3 α × PfC α :=
  match s.center with
  | some c => (c, s)
  | none =>
    let r1 := readMin s
    let r2 := readMax r1.2
    let c : V3 α := ⟨(r1.1.x + r2.1.x) / 2, (r1.1.y + r2.1.y) / 2, (r1.1.z + r2.1.z) / 2⟩
    (c, { r2.2 with center := some c })

/-! ### Methods returning a new polyface -/

/-- move / rotate / rotate_xy with point map `g` and plane map `pg`. -/
def rigid (s : PfC α) (g : V3 α → V3 α) (pg : PlaneS α → PlaneS α) : PfC α :=
  { mkPf (s.vertices.map g) s.face_indices s.edge_indices s.edge_types with
    faces := s.faces.map (·.map (fun f => FaceCache.rigid f g pg)), volume := s.volume }

/-- reflect: loops reversed, faces through `face.reflect`. -/
def reflect (s : PfC α) (g : V3 α → V3 α) (pg : PlaneS α → PlaneS α) : PfC α :=
  { mkPf (s.vertices.map g) (revLoops s.face_indices) s.edge_indices s.edge_types with
    faces := s.faces.map (·.map (fun f => FaceCache.reflect f g pg)), volume := s.volume }

/-- scale with point map `g` and the matching `Face3D` scale `fs`. -/
def scaleWith (s : PfC α) (k : α) (g : V3 α → V3 α) (fsc : FaceC α → FaceC α) : PfC α :=
  { mkPf (s.vertices.map g) (if k < 0 then revLoops s.face_indices else s.face_indices)
      s.edge_indices s.edge_types with
    faces := if k < 0 then none else s.faces.map (·.map fsc),
    volume := s.volume.map (· * |k| ^ 3) }

def scale (M : MathOps α) (s : PfC α) (k : α) (o : V3 α) : PfC α :=
  scaleWith s k (fun p => p3_scale p k o) (fun f => FaceCache.scale M f k o)
def scaleWorld (M : MathOps α) (s : PfC α) (k : α) : PfC α :=
  scaleWith s k (fun p => p3_scale_world p k) (fun f => FaceCache.scaleWorld M f k)

/-- `__copy__`: `_faces` shared, nothing else. -/
def duplicate (s : PfC α) : PfC α :=
  { mkPf s.vertices s.face_indices s.edge_indices s.edge_types with faces := s.faces }

inductive Op (α : Type) where
  | readFaces (fr : List (FaceC α))
  | readArea (fr : List (FaceC α))
  | readVolume (fr : List (FaceC α))
  | readEdges | readNakedEdges | readInternalEdges | readNonManifoldEdges
  | readMin | readMax | readCenter
  | duplicate
  | rigid (g : V3 α → V3 α) (pg : PlaneS α → PlaneS α)
  | reflect (g : V3 α → V3 α) (pg : PlaneS α → PlaneS α)
  | scale (k : α) (o : V3 α)
  | scaleWorld (k : α)

def step (M : MathOps α) (s : PfC α) : Op α → PfC α
  | .readFaces fr => (readFaces fr s).2
  | .readArea fr => (readArea fr s).2
  | .readVolume fr => (readVolume fr s).2
  | .readEdges => (readEdges s).2
  | .readNakedEdges => (readNakedEdges s).2
  | .readInternalEdges => (readInternalEdges s).2
  | .readNonManifoldEdges => (readNonManifoldEdges s).2
  | .readMin => (readMin s).2
  | .readMax => (readMax s).2
  | .readCenter => (readCenter s).2
  | .duplicate => duplicate s
  | .rigid g pg => rigid s g pg
  | .reflect g pg => reflect s g pg
  | .scale k o => scale M s k o
  | .scaleWorld k => scaleWorld M s k

end Lbg.Model.PolyfaceCache
